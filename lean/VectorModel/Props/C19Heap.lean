/-
Properties C19 / C16 on the HEAP model of NumPy vector arrays (`Glue/Heap.lean`): aliasing of views, detachment of copies,
type preservation, name index = column, the frame property, pickle / copy round trips.

All statements are for every scalar type `α` (the model only moves values) and every state / history.
-/
import VectorModel.Glue.Heap

set_option linter.unusedVariables false

namespace VH

variable {α : Type}

/-! ### lists -/

private theorem pick_map {β γ : Type} (f : β → γ) (l : List β) (ps : List Nat) : pick (l.map f) ps = (pick l ps).map f := by
  simp only [pick, List.map_filterMap]
  congr 1
  funext i
  simp

private theorem pick_range {β : Type} (l : List β) : pick l (List.range l.length) = l := by
  induction l with
  | nil => rfl
  | cons a l ih =>
    have : pick (a :: l) (List.range (l.length + 1)) = a :: pick l (List.range l.length) := by
      simp only [pick, List.range_succ_eq_map, List.filterMap_cons, List.filterMap_map]
      simp [Function.comp_def]
    simpa [this] using ih

/-! ### the environment -/

theorem find_unbind (x w : String) (e : Env) : find x (unbind w e) = if x = w then none else find x e := by
  induction e with
  | nil => simp [unbind, find]
  | cons p e ih =>
    obtain ⟨k, r⟩ := p
    simp only [unbind, List.filter_cons] at ih ⊢
    by_cases hk : k = w
    · subst hk
      simp only [bne_self_eq_false, Bool.false_eq_true, if_false, ih, find]
      by_cases hx : x = k
      · simp [hx]
      · have : ¬ k = x := fun h => hx h.symm
        simp [hx, this]
    · have : (k != w) = true := by simp [hk]
      simp only [this, if_true, find, ih]
      by_cases hx : x = w
      · subst hx; simp [hk]
      · simp [hx]

theorem find_bind (x w : String) (e : Env) (r : Ref) : find x (bind e w r) = if w = x then some r else find x e := by
  simp only [bind, find, find_unbind]
  by_cases h : w = x
  · simp [h]
  · have : ¬ x = w := fun h' => h h'.symm
    simp [h, this]

/-! ### the heap under column writes -/

theorem rowAt_writeCol (h : Heap α) (b : Nat) (idx : List Nat) (p : Nat) (vals : List α) (b' i : Nat) :
    rowAt (writeCol h b idx p vals) b' i =
      if b' = b then (match assoc idx vals i with
        | some x => (rowAt h b' i).set p x
        | none => rowAt h b' i) else rowAt h b' i := by
  simp only [rowAt, writeCol, List.getElem?_mapIdx]
  cases hb : h[b']? with
  | none => simp; split <;> simp
  | some buffer =>
    simp only [Option.map_some, Option.getD_some]
    by_cases hbb : b' = b
    · simp only [hbb, if_true, List.getElem?_mapIdx]
      cases hi : buffer[i]? with
      | none => simp; split <;> simp
      | some rec => simp; split <;> simp [*]
    · simp [hbb]

theorem writeCol_length (h : Heap α) (b : Nat) (idx : List Nat) (p : Nat) (vals : List α) :
    (writeCol h b idx p vals).length = h.length := by simp [writeCol]

theorem writeCol_other (h : Heap α) (b : Nat) (idx : List Nat) (p : Nat) (vals : List α) (b' : Nat) (hb : b' ≠ b) :
    (writeCol h b idx p vals)[b']? = h[b']? := by
  simp only [writeCol, List.getElem?_mapIdx, hb, if_false]
  cases h[b']? <;> simp

theorem writeCol_buflen (h : Heap α) (b : Nat) (idx : List Nat) (p : Nat) (vals : List α) (b' : Nat) :
    ((writeCol h b idx p vals)[b']?).map List.length = (h[b']?).map List.length := by
  simp only [writeCol, List.getElem?_mapIdx]
  cases h[b']? with
  | none => simp
  | some buffer => by_cases hb : b' = b <;> simp [hb]

theorem writeCols_length (h : Heap α) (b : Nat) (idx : List Nat) (ws : List (Nat × List α)) :
    (writeCols h b idx ws).length = h.length := by
  induction ws generalizing h with
  | nil => rfl
  | cons w ws ih => simp only [writeCols, List.foldl_cons] at ih ⊢; rw [ih, writeCol_length]

theorem writeCols_other (h : Heap α) (b : Nat) (idx : List Nat) (ws : List (Nat × List α)) (b' : Nat) (hb : b' ≠ b) :
    (writeCols h b idx ws)[b']? = h[b']? := by
  induction ws generalizing h with
  | nil => rfl
  | cons w ws ih => simp only [writeCols, List.foldl_cons] at ih ⊢; rw [ih, writeCol_other _ _ _ _ _ _ hb]

theorem writeCols_buflen (h : Heap α) (b : Nat) (idx : List Nat) (ws : List (Nat × List α)) (b' : Nat) :
    ((writeCols h b idx ws)[b']?).map List.length = (h[b']?).map List.length := by
  induction ws generalizing h with
  | nil => rfl
  | cons w ws ih => simp only [writeCols, List.foldl_cons] at ih ⊢; rw [ih, writeCol_buflen]

theorem assoc_none {β : Type} (idx : List Nat) (vals : List β) (i : Nat) (hi : i ∉ idx) : assoc idx vals i = none := by
  induction idx generalizing vals with
  | nil => cases vals <;> rfl
  | cons j idx ih =>
    cases vals with
    | nil => rfl
    | cons x xs =>
      simp only [List.mem_cons, not_or] at hi
      have : ¬ j = i := fun h => hi.1 h.symm
      simp [assoc, this, ih xs hi.2]

/-- a column write leaves every row outside the addressed ones alone -/
theorem rowAt_writeCols_row (h : Heap α) (b : Nat) (idx : List Nat) (ws : List (Nat × List α)) (b' i : Nat)
    (hi : b' ≠ b ∨ i ∉ idx) : rowAt (writeCols h b idx ws) b' i = rowAt h b' i := by
  induction ws generalizing h with
  | nil => rfl
  | cons w ws ih =>
    simp only [writeCols, List.foldl_cons] at ih ⊢
    rw [ih, rowAt_writeCol]
    rcases hi with hi | hi
    · simp [hi]
    · simp [assoc_none _ _ _ hi]

/-- … never changes the length of a record … -/
theorem rowAt_writeCols_length (h : Heap α) (b : Nat) (idx : List Nat) (ws : List (Nat × List α)) (b' i : Nat) :
    (rowAt (writeCols h b idx ws) b' i).length = (rowAt h b' i).length := by
  induction ws generalizing h with
  | nil => rfl
  | cons w ws ih =>
    simp only [writeCols, List.foldl_cons] at ih ⊢
    rw [ih, rowAt_writeCol]
    split
    · split <;> simp
    · rfl

/-- … and leaves every field alone that is not one of the written ones -/
theorem rowAt_writeCols_field (h : Heap α) (b : Nat) (idx : List Nat) (ws : List (Nat × List α)) (b' i q : Nat)
    (hq : ∀ w ∈ ws, w.1 ≠ q) : (rowAt (writeCols h b idx ws) b' i)[q]? = (rowAt h b' i)[q]? := by
  induction ws generalizing h with
  | nil => rfl
  | cons w ws ih =>
    simp only [writeCols, List.foldl_cons] at ih ⊢
    rw [ih _ (fun w' hw' => hq w' (List.mem_cons_of_mem _ hw')), rowAt_writeCol]
    have hw : w.1 ≠ q := hq w (List.mem_cons_self ..)
    split
    · split
      · rw [List.getElem?_set_ne hw]
      · rfl
    · rfl

theorem sees_congr (h h' : Heap α) (r : Ref) (hb : h'[r.buf]? = h[r.buf]?) : sees h' r = sees h r := by
  simp only [sees]
  congr 1
  funext i
  simp only [rowAt, hb]

theorem getElem?_append_one {β : Type} (l : List β) (x : β) (b : Nat) (hb : b < l.length) : (l ++ [x])[b]? = l[b]? :=
  List.getElem?_append_left hb

/-! ### the shape of the effect of every operation -/

/-- the rows of its target's index map a writing operation addresses -/
def addressed (s : State α) : Op α → List Nat
  | .setName v _ _ => match find v s.env with
    | some r => r.idx
    | none => []
  | .setSlice v lo hi _ => match find v s.env with
    | some r => pick r.idx ((slicePos (some lo) (some hi) none r.idx.length).getD [])
    | none => []
  | .setElems v lo hi _ _ _ => match find v s.env with
    | some r => pick r.idx ((slicePos lo hi none r.idx.length).getD [])
    | none => []
  | _ => []

/-- what `eval` can answer for an operation: nothing; a view of an existing variable's buffer with that variable's type,
bound to the operation's target; a fresh buffer bound to the target; column writes into the buffer of the variable written
through, at the addressed rows; an unbinding of the target -/
inductive Shape (s : State α) (op : Op α) : Eff α → Prop
  | none : Shape s op .none
  | view (w v : String) (rv r : Ref) : op.target = some w → op.writeVar = none → find v s.env = some rv →
      r.buf = rv.buf → r.ty = rv.ty → (∃ ps, r.idx = pick rv.idx ps) → Shape s op (.bindView w r)
  | fresh (w : String) (ty : VTy) (recs : List (Record α)) : op.target = some w → op.writeVar = none →
      Shape s op (.bindFresh w ty recs)
  | writes (v : String) (r : Ref) (ws : List (Nat × List α)) : op.writeVar = some v → op.target = none →
      find v s.env = some r → Shape s op (.writes r.buf (addressed s op) ws)
  | del (v : String) : op.target = some v → op.writeVar = none → Shape s op (.del v)

private theorem assignRows_shape (s : State α) (rt : Ref) (tlo thi : Option Int) (rs : Ref) (slo shi : Option Int) :
    (assignRows s rt tlo thi rs slo shi).1 = .none ∨
      ∃ ws, (assignRows s rt tlo thi rs slo shi).1 =
        .writes rt.buf (pick rt.idx ((slicePos tlo thi none rt.idx.length).getD [])) ws := by
  unfold assignRows
  split
  · rename_i tp sp h1 h2
    dsimp only
    split
    · right
      simp only [h1, Option.getD_some]
      exact ⟨_, rfl⟩
    · left; rfl
  · left; rfl

theorem eval_shape (s : State α) (op : Op α) : Shape s op (eval s op).1 := by
  cases op with
  | new v ty recs =>
    simp only [eval]
    split
    · exact .fresh v ty recs rfl rfl
    · exact .none
  | slice v w lo hi stp =>
    simp only [eval, withVar]
    split
    · exact .none
    · rename_i r hr
      split
      · exact .none
      · rename_i ps hps
        exact .view w v r _ rfl rfl hr rfl rfl ⟨ps, rfl⟩
  | view v w =>
    simp only [eval, withVar]
    split
    · exact .none
    · rename_i r hr
      exact .view w v r r rfl rfl hr rfl rfl ⟨_, (pick_range r.idx).symm⟩
  | mask v w bits =>
    simp only [eval, withVar]
    split
    · exact .none
    · split
      · exact .fresh w _ _ rfl rfl
      · exact .none
  | fancy v w idxs =>
    simp only [eval, withVar]
    split
    · exact .none
    · split
      · exact .none
      · exact .fresh w _ _ rfl rfl
  | copy v w =>
    simp only [eval, withVar]
    split
    · exact .none
    · exact .fresh w _ _ rfl rfl
  | deepcopy v w =>
    simp only [eval, withVar]
    split
    · exact .none
    · exact .fresh w _ _ rfl rfl
  | pickle v w =>
    simp only [eval, withVar]
    split
    · exact .none
    · exact .fresh w _ _ rfl rfl
  | intIndex v i =>
    simp only [eval, withVar]
    split
    · exact .none
    · split <;> exact .none
  | getName v name =>
    simp only [eval, withVar]
    split
    · exact .none
    · split <;> exact .none
  | setName v name vals =>
    simp only [eval, withVar]
    split
    · exact .none
    · rename_i r hr
      split
      · exact .none
      · split
        · exact .none
        · rename_i _ p _ _ vs _
          have := Shape.writes (s := s) (op := .setName v name vals) v r [(p, vs)] rfl rfl hr
          simpa [addressed, hr] using this
  | setSlice v lo hi srcLo =>
    simp only [eval, withVar]
    split
    · exact .none
    · rename_i r hr
      rcases assignRows_shape s r (some lo) (some hi) r (some srcLo) (some (srcLo + (hi - lo))) with h | ⟨ws, h⟩
      · rw [h]; exact .none
      · rw [h]
        have := Shape.writes (s := s) (op := .setSlice v lo hi srcLo) v r ws rfl rfl hr
        simpa [addressed, hr] using this
  | setElems v lo hi w slo shi =>
    simp only [eval, withVar]
    split
    · exact .none
    · rename_i r hr
      split
      · exact .none
      · rename_i rs hrs
        rcases assignRows_shape s r lo hi rs slo shi with h | ⟨ws, h⟩
        · rw [h]; exact .none
        · rw [h]
          have := Shape.writes (s := s) (op := .setElems v lo hi w slo shi) v r ws rfl rfl hr
          simpa [addressed, hr] using this
  | del v =>
    simp only [eval, withVar]
    split
    · exact .none
    · exact .del v rfl rfl
  | dump => exact .none

/-! ### one step: environment and heap -/

/-- an operation changes the binding of its target only -/
theorem find_step (s : State α) (op : Op α) (x : String) (h : op.target ≠ some x) :
    find x (step s op).1.env = find x s.env := by
  have hs := eval_shape s op
  simp only [step]
  generalize (eval s op).1 = eff at hs
  cases hs with
  | none => rfl
  | view w v rv r ht _ _ _ _ _ =>
    have : ¬ w = x := fun hw => h (hw ▸ ht)
    simp [apply, find_bind, this]
  | fresh w ty recs ht _ =>
    have : ¬ w = x := fun hw => h (hw ▸ ht)
    simp [apply, find_bind, this]
  | writes v r ws _ _ _ => rfl
  | del v ht _ =>
    have : ¬ x = v := fun hw => h (hw ▸ ht)
    simp [apply, find_unbind, this]

/-- the heap only grows -/
theorem heap_step_length (s : State α) (op : Op α) : s.heap.length ≤ (step s op).1.heap.length := by
  have hs := eval_shape s op
  simp only [step]
  generalize (eval s op).1 = eff at hs
  cases hs <;> simp [apply, writeCols_length]

/-- a buffer changes only under an operation that writes into it -/
theorem heap_step_other (s : State α) (op : Op α) (b : Nat) (hb : b < s.heap.length) (hw : writeBuf s op ≠ some b) :
    (step s op).1.heap[b]? = s.heap[b]? := by
  have hs := eval_shape s op
  simp only [step]
  generalize (eval s op).1 = eff at hs
  cases hs with
  | none => rfl
  | view w v rv r _ _ _ _ _ _ => rfl
  | fresh w ty recs _ _ => simp [apply, List.getElem?_append_left hb]
  | writes v r ws hv _ hr =>
    have : b ≠ r.buf := by
      intro h
      apply hw
      simp [writeBuf, hv, hr, h]
    simp [apply, writeCols_other _ _ _ _ _ this]
  | del v _ _ => rfl

/-- every variable points into the heap -/
def WF (s : State α) : Prop := ∀ x r, find x s.env = some r → r.buf < s.heap.length

theorem wf_empty : WF (State.empty : State α) := by
  intro x r h
  simp [State.empty, find] at h

theorem wf_step (s : State α) (op : Op α) (hwf : WF s) : WF (step s op).1 := by
  have hs := eval_shape s op
  simp only [step]
  generalize (eval s op).1 = eff at hs
  cases hs with
  | none => exact hwf
  | view w v rv r _ _ hv hb _ _ =>
    intro x r' hx
    simp only [apply, find_bind] at hx
    split at hx
    · cases hx; rw [hb]; exact hwf v rv hv
    · exact hwf x r' hx
  | fresh w ty recs _ _ =>
    intro x r' hx
    simp only [apply, find_bind] at hx
    simp only [apply, List.length_append, List.length_singleton]
    split at hx
    · cases hx; simp
    · exact Nat.lt_succ_of_lt (hwf x r' hx)
  | writes v r ws _ _ _ =>
    intro x r' hx
    simp only [apply, writeCols_length]
    exact hwf x r' hx
  | del v _ _ =>
    intro x r' hx
    simp only [apply, find_unbind] at hx
    split at hx
    · cases hx
    · exact hwf x r' hx

theorem run_cons (s : State α) (op : Op α) (ops : List (Op α)) : run s (op :: ops) = run (step s op).1 ops := rfl

theorem wf_run (s : State α) (ops : List (Op α)) (hwf : WF s) : WF (run s ops) := by
  induction ops generalizing s with
  | nil => exact hwf
  | cons op ops ih => rw [run_cons]; exact ih _ (wf_step s op hwf)

/-! ### what a variable shows -/

/-- the records variable `v` shows in state `s` -/
def seen (s : State α) (v : String) : List (Record α) :=
  match find v s.env with
  | some r => sees s.heap r
  | none => []

/-- the operations that produce an array `w` from an array `v` -/
def Op.produces : Op α → Option (String × String)
  | .slice v w _ _ _ => some (v, w)
  | .mask v w _ => some (v, w)
  | .fancy v w _ => some (v, w)
  | .view v w => some (v, w)
  | .copy v w => some (v, w)
  | .deepcopy v w => some (v, w)
  | .pickle v w => some (v, w)
  | _ => none

/-- the operations whose result is a COPY: `v.copy()`, `copy.deepcopy(v)`, a pickle round trip, `v[mask]`, `v[[i, j]]` -/
def Op.copies : Op α → Option (String × String)
  | .mask v w _ => some (v, w)
  | .fancy v w _ => some (v, w)
  | .copy v w => some (v, w)
  | .deepcopy v w => some (v, w)
  | .pickle v w => some (v, w)
  | _ => none

/-! ### C19: views and slices ALIAS their source -/

/-- `w` shows rows `idx` of what `v` shows, out of the same buffer, with the same vector type -/
def Aliased (s : State α) (v w : String) (idx : List Nat) : Prop :=
  ∃ rv rw, find v s.env = some rv ∧ find w s.env = some rw ∧ rw.buf = rv.buf ∧ rw.ty = rv.ty ∧ rw.idx = pick rv.idx idx

/-- reads through an alias are the reindexing of the reads through the source — in whatever state the heap is -/
theorem c19h_alias_reads {s : State α} {v w : String} {idx : List Nat} (h : Aliased s v w idx) :
    seen s w = pick (seen s v) idx := by
  obtain ⟨rv, rw, hv, hw, hb, _, hi⟩ := h
  simp only [seen, hv, hw, sees, hb, hi, pick_map]

/-- … column by column: what `w[name]` returns is the reindexing of what `v[name]` returns -/
theorem c19h_alias_getName {s : State α} {v w : String} {idx : List Nat} (h : Aliased s v w idx) (name : String)
    (c : List (Option α)) (hc : (step s (.getName v name)).2 = .vals c) :
    (step s (.getName w name)).2 = .vals (pick c idx) := by
  obtain ⟨rv, rw, hv, hw, hb, ht, hi⟩ := h
  simp only [step, eval, withVar, hv, hw, ht] at hc ⊢
  split at hc
  · cases hc
  · rename_i p hp
    cases hc
    simp only [col, sees, hb, hi, pick_map]

theorem getName_vals_length {s : State α} {v : String} {rv : Ref} (hv : find v s.env = some rv) (name : String)
    (c : List (Option α)) (hc : (step s (.getName v name)).2 = .vals c) : c.length = rv.idx.length := by
  simp only [step, eval, withVar, hv] at hc
  split at hc
  · cases hc
  · cases hc; simp [col, sees]

/-- `w = v.view(type(v))` makes `w` an alias of all of `v` -/
theorem c19h_view_intro (s : State α) (v w : String) (rv : Ref) (hvw : v ≠ w) (hv : find v s.env = some rv) :
    Aliased (step s (.view v w)).1 v w (List.range rv.idx.length) := by
  refine ⟨rv, rv, ?_, ?_, rfl, rfl, (pick_range _).symm⟩
  · rw [find_step _ _ _ (by simp [Op.target, hvw.symm])]; exact hv
  · simp [step, eval, withVar, hv, apply, find_bind]

/-- `w = v[lo:hi:stp]` makes `w` an alias of the rows `range(len(v))[lo:hi:stp]` of `v` -/
theorem c19h_slice_intro (s : State α) (v w : String) (lo hi stp : Option Int) (rv : Ref) (ps : List Nat) (hvw : v ≠ w)
    (hv : find v s.env = some rv) (hps : slicePos lo hi stp rv.idx.length = some ps) :
    Aliased (step s (.slice v w lo hi stp)).1 v w ps := by
  refine ⟨rv, ⟨rv.buf, pick rv.idx ps, rv.ty⟩, ?_, ?_, rfl, rfl, rfl⟩
  · rw [find_step _ _ _ (by simp [Op.target, hvw.symm])]; exact hv
  · simp [step, eval, withVar, hv, hps, apply, find_bind]

/-- the alias relation survives every operation that does not rebind (or delete) one of the two variables -/
theorem c19h_alias_step {s : State α} {v w : String} {idx : List Nat} (h : Aliased s v w idx) (op : Op α)
    (hv : op.target ≠ some v) (hw : op.target ≠ some w) : Aliased (step s op).1 v w idx := by
  obtain ⟨rv, rw, h1, h2, h3⟩ := h
  exact ⟨rv, rw, by rw [find_step _ _ _ hv]; exact h1, by rw [find_step _ _ _ hw]; exact h2, h3⟩

/-- … hence every history of such operations -/
theorem c19h_alias_run {s : State α} {v w : String} {idx : List Nat} (h : Aliased s v w idx) (ops : List (Op α))
    (hops : ∀ op ∈ ops, op.target ≠ some v ∧ op.target ≠ some w) : Aliased (run s ops) v w idx := by
  induction ops generalizing s with
  | nil => exact h
  | cons op ops ih =>
    rw [run_cons]
    exact ih (c19h_alias_step h op (hops op (List.mem_cons_self ..)).1 (hops op (List.mem_cons_self ..)).2)
      (fun o ho => hops o (List.mem_cons_of_mem _ ho))

/-- **C19, aliasing.**  After `w = v.view(type(v))` or `w = v[lo:hi:stp]`, in EVERY later state reached by operations that
do not rebind `v` or `w` — name assignments and slice assignments through `v`, through `w`, through any other alias —
the records `w` shows are the reindexing of the records `v` shows, and so is every named column. -/
theorem c19h_view_alias (s : State α) (v w : String) (rv : Ref) (hvw : v ≠ w) (hv : find v s.env = some rv)
    (ops : List (Op α)) (hops : ∀ op ∈ ops, op.target ≠ some v ∧ op.target ≠ some w) :
    (let s' := run (step s (.view v w)).1 ops
     seen s' w = seen s' v ∧
       ∀ name c, (step s' (.getName v name)).2 = .vals c → (step s' (.getName w name)).2 = .vals c) ∧
    (∀ lo hi stp ps, slicePos lo hi stp rv.idx.length = some ps →
      let s' := run (step s (.slice v w lo hi stp)).1 ops
      seen s' w = pick (seen s' v) ps ∧
        ∀ name c, (step s' (.getName v name)).2 = .vals c → (step s' (.getName w name)).2 = .vals (pick c ps)) := by
  constructor
  · have h := c19h_alias_run (c19h_view_intro s v w rv hvw hv) ops hops
    have hlen : ∀ s' : State α, find v s'.env = some rv → (seen s' v).length = rv.idx.length := by
      intro s' h'; simp [seen, h', sees]
    obtain ⟨rv', rw', h1, h2, h3, h4, h5⟩ := h
    have hrv : rv' = rv := by
      have := c19h_alias_run (c19h_view_intro s v w rv hvw hv) ops hops
      have h0 : find v (step s (.view v w)).1.env = some rv := by
        rw [find_step _ _ _ (by simp [Op.target, hvw.symm])]; exact hv
      have hrun : ∀ (ops : List (Op α)) (s0 : State α), (∀ op ∈ ops, op.target ≠ some v) → find v s0.env = some rv →
          find v (run s0 ops).env = some rv := by
        intro ops
        induction ops with
        | nil => intro s0 _ h; exact h
        | cons op ops ih =>
          intro s0 ho h
          rw [run_cons]
          apply ih _ (fun o hm => ho o (List.mem_cons_of_mem _ hm))
          rw [find_step _ _ _ (ho op (List.mem_cons_self ..))]; exact h
      have := hrun ops _ (fun o ho => (hops o ho).1) h0
      rw [h1] at this; cases this; rfl
    subst hrv
    have hal : Aliased (run (step s (.view v w)).1 ops) v w (List.range rv'.idx.length) := ⟨rv', rw', h1, h2, h3, h4, h5⟩
    refine ⟨?_, ?_⟩
    · rw [c19h_alias_reads hal]
      have := hlen _ h1
      rw [← this, pick_range]
    · intro name c hc
      rw [c19h_alias_getName hal name c hc]
      rw [← getName_vals_length h1 name c hc, pick_range]
  · intro lo hi stp ps hps
    have hal := c19h_alias_run (c19h_slice_intro s v w lo hi stp rv ps hvw hv hps) ops hops
    exact ⟨c19h_alias_reads hal, fun name c hc => c19h_alias_getName hal name c hc⟩

/-- in particular: a write (name assignment, slice assignment) through EITHER variable — or through any third alias — is
seen through the other at the corresponding positions, because writing operations rebind nothing -/
theorem c19h_view_alias_write {s : State α} {v w : String} {idx : List Nat} (h : Aliased s v w idx) (op : Op α)
    (hop : op.target = none) :
    Aliased (step s op).1 v w idx ∧ seen (step s op).1 w = pick (seen (step s op).1 v) idx := by
  have := c19h_alias_step h op (by simp [hop]) (by simp [hop])
  exact ⟨this, c19h_alias_reads this⟩

/-! ### C19: copies are DETACHED -/

/-- no operation of the history writes into buffer `b` (the buffer an operation writes into is the buffer of the variable
it writes through, IN THE STATE it is executed in) -/
def Quiet (b : Nat) : State α → List (Op α) → Prop
  | _, [] => True
  | s, op :: ops => writeBuf s op ≠ some b ∧ Quiet b (step s op).1 ops

/-- a buffer no operation writes into keeps its contents, whatever else happens -/
theorem c19h_quiet_buffer (b : Nat) (s : State α) (ops : List (Op α)) (hb : b < s.heap.length) (hq : Quiet b s ops) :
    (run s ops).heap[b]? = s.heap[b]? := by
  induction ops generalizing s with
  | nil => rfl
  | cons op ops ih =>
    rw [run_cons, ih _ (Nat.lt_of_lt_of_le hb (heap_step_length s op)) hq.2, heap_step_other s op b hb hq.1]

/-- a variable that is not rebound, over a buffer nobody writes into, shows the same records for ever -/
theorem c19h_quiet_seen (x : String) (r : Ref) (s : State α) (ops : List (Op α)) (hx : find x s.env = some r)
    (hb : r.buf < s.heap.length) (hops : ∀ op ∈ ops, op.target ≠ some x) (hq : Quiet r.buf s ops) :
    find x (run s ops).env = some r ∧ seen (run s ops) x = seen s x := by
  have hf : find x (run s ops).env = some r := by
    induction ops generalizing s with
    | nil => exact hx
    | cons op ops ih =>
      rw [run_cons]
      exact ih _ (by rw [find_step _ _ _ (hops op (List.mem_cons_self ..))]; exact hx)
        (Nat.lt_of_lt_of_le hb (heap_step_length s op)) (fun o ho => hops o (List.mem_cons_of_mem _ ho)) hq.2
  refine ⟨hf, ?_⟩
  simp only [seen, hf, hx]
  exact sees_congr _ _ _ (c19h_quiet_buffer _ _ _ hb hq)

theorem copies_eval (s : State α) (op : Op α) (v w : String) (hop : op.copies = some (v, w))
    (hok : (step s op).2 = .ok) : ∃ ty recs, (eval s op).1 = .bindFresh w ty recs := by
  simp only [step] at hok
  cases op <;> simp only [Op.copies, Option.some.injEq, Prod.mk.injEq, reduceCtorEq] at hop
  case mask v' w' bits =>
    obtain ⟨rfl, rfl⟩ := hop
    simp only [eval, withVar] at hok ⊢
    cases hf : find v' s.env with
    | none => simp [hf] at hok
    | some rv =>
      by_cases hm : bits.length = rv.idx.length ∨ bits = []
      · simp [hm]
      · simp [hf, hm] at hok
  case fancy v' w' idxs =>
    obtain ⟨rfl, rfl⟩ := hop
    simp only [eval, withVar] at hok ⊢
    cases hf : find v' s.env with
    | none => simp [hf] at hok
    | some rv =>
      cases hn : normIdxs idxs rv.idx.length with
      | none => simp [hf, hn] at hok
      | some ps => simp [hn]
  case copy v' w' =>
    obtain ⟨rfl, rfl⟩ := hop
    simp only [eval, withVar] at hok ⊢
    cases hf : find v' s.env with
    | none => simp [hf] at hok
    | some rv => simp
  case deepcopy v' w' =>
    obtain ⟨rfl, rfl⟩ := hop
    simp only [eval, withVar] at hok ⊢
    cases hf : find v' s.env with
    | none => simp [hf] at hok
    | some rv => simp
  case pickle v' w' =>
    obtain ⟨rfl, rfl⟩ := hop
    simp only [eval, withVar] at hok ⊢
    cases hf : find v' s.env with
    | none => simp [hf] at hok
    | some rv => simp

/-- the result of a copying operation lives in a FRESH buffer: no other variable, old or new, points into it -/
theorem c19h_copy_fresh (s : State α) (hwf : WF s) (op : Op α) (v w : String) (hop : op.copies = some (v, w))
    (hok : (step s op).2 = .ok) :
    ∃ rw, find w (step s op).1.env = some rw ∧ rw.buf = s.heap.length ∧ rw.buf < (step s op).1.heap.length ∧
      ∀ x r, x ≠ w → find x (step s op).1.env = some r → r.buf ≠ rw.buf ∧ find x s.env = some r := by
  have key : ∀ ty recs, (eval s op).1 = .bindFresh w ty recs →
      ∃ rw, find w (step s op).1.env = some rw ∧ rw.buf = s.heap.length ∧ rw.buf < (step s op).1.heap.length ∧
        ∀ x r, x ≠ w → find x (step s op).1.env = some r → r.buf ≠ rw.buf ∧ find x s.env = some r := by
    intro ty recs he
    refine ⟨⟨s.heap.length, List.range recs.length, ty⟩, ?_, rfl, ?_, ?_⟩
    · simp [step, he, apply, find_bind]
    · simp [step, he, apply]
    · intro x r hxw hx
      have hx' : find x s.env = some r := by
        have hne : ¬ w = x := fun h => hxw h.symm
        simpa [step, he, apply, find_bind, hne] using hx
      exact ⟨Nat.ne_of_lt (hwf x r hx'), hx'⟩
  obtain ⟨ty, recs, he⟩ := copies_eval s op v w hop hok
  exact key ty recs he

/-- **C19, detachment.**  After `w = v.copy()` / `copy.deepcopy(v)` / a pickle round trip / `v[mask]` / `v[[i, j]]`:
(1) whatever happens later — as long as `w` is not rebound and no operation writes through `w` or a later-made alias of `w`
(`Quiet`: in particular every write through `v` or through any alias of `v`, old or new, is allowed) — `w` shows what it
showed right after the copy;
(2) vice versa, every other variable `x` (in particular `v` and each of its aliases) keeps showing the same records under
every history that does not rebind `x` and does not write into `x`'s buffer — in particular under all writes through `w`. -/
theorem c19h_copy_detached (s : State α) (hwf : WF s) (op : Op α) (v w : String) (hop : op.copies = some (v, w))
    (hok : (step s op).2 = .ok) (ops : List (Op α)) :
    let s1 := (step s op).1
    (∃ rw, find w s1.env = some rw ∧
      ((∀ o ∈ ops, o.target ≠ some w) → Quiet rw.buf s1 ops → seen (run s1 ops) w = seen s1 w) ∧
      ∀ u ru, u ≠ w → find u s1.env = some ru → ru.buf ≠ rw.buf) ∧
    ∀ x r, x ≠ w → find x s1.env = some r → (∀ o ∈ ops, o.target ≠ some x) → Quiet r.buf s1 ops →
      seen (run s1 ops) x = seen s1 x := by
  obtain ⟨rw, h1, h2, h3, h4⟩ := c19h_copy_fresh s hwf op v w hop hok
  refine ⟨⟨rw, h1, ?_, fun u ru hu hf => (h4 u ru hu hf).1⟩, ?_⟩
  · intro ho hq
    exact (c19h_quiet_seen w rw _ ops h1 h3 ho hq).2
  · intro x r hxw hx ho hq
    have hlt : r.buf < (step s op).1.heap.length :=
      Nat.lt_of_lt_of_le (hwf x r (h4 x r hxw hx).2) (heap_step_length s op)
    exact (c19h_quiet_seen x r _ ops hx hlt ho hq).2

/-- one step, stated with the variables: a write through `u` — `v` itself or any alias of `v` (same buffer) — does not change
what a variable over ANOTHER buffer shows -/
theorem c19h_detached_write (s : State α) (u w : String) (ru rw : Ref) (op : Op α) (hu : find u s.env = some ru)
    (hw : find w s.env = some rw) (hne : ru.buf ≠ rw.buf) (hlt : rw.buf < s.heap.length) (hop : op.writeVar = some u) :
    seen (step s op).1 w = seen s w := by
  have hq : Quiet rw.buf s [op] := ⟨by simp [writeBuf, hop, hu, hne], trivial⟩
  have hw' : op.target ≠ some w := by
    cases op <;> simp [Op.writeVar] at hop <;> simp [Op.target]
  exact (c19h_quiet_seen w rw s [op] hw hlt (by intro o ho; simp at ho; subst ho; exact hw') hq).2

/-! ### C19: the vector type is preserved -/

theorem sees_fresh (h : Heap α) (recs : List (Record α)) (ty : VTy) :
    sees (h ++ [recs]) ⟨h.length, List.range recs.length, ty⟩ = recs := by
  simp only [sees]
  apply List.ext_getElem
  · simp
  · intro i h1 h2
    simp at h1
    simp [rowAt, h1]

/-- what the array-producing operations answer: with the source bound to `rv`, either an error and NO effect at all, or the
target is bound to an array of `rv`'s vector type showing a reindexing of what the source shows -/
theorem produces_eval (s : State α) (op : Op α) (v w : String) (hop : op.produces = some (v, w)) :
    (∃ e, eval s op = (.none, .err e)) ∨
      ∃ rv r, find v s.env = some rv ∧ (eval s op).2 = .ok ∧ r.ty = rv.ty ∧
        find w (step s op).1.env = some r ∧ ∃ ps, sees (step s op).1.heap r = pick (sees s.heap rv) ps := by
  have fresh : ∀ (rv : Ref) (ps : List Nat), find v s.env = some rv →
      eval s op = (.bindFresh w rv.ty (pick (sees s.heap rv) ps), .ok) →
      ∃ rv r, find v s.env = some rv ∧ (eval s op).2 = .ok ∧ r.ty = rv.ty ∧
        find w (step s op).1.env = some r ∧ ∃ ps, sees (step s op).1.heap r = pick (sees s.heap rv) ps := by
    intro rv ps hv he
    refine ⟨rv, ⟨s.heap.length, List.range (pick (sees s.heap rv) ps).length, rv.ty⟩, hv, by rw [he], rfl,
      by simp [step, he, apply, find_bind], ps, ?_⟩
    simp only [step, he, apply]
    exact sees_fresh ..
  have fresh' : ∀ (rv : Ref), find v s.env = some rv →
      eval s op = (.bindFresh w rv.ty (sees s.heap rv), .ok) →
      ∃ rv r, find v s.env = some rv ∧ (eval s op).2 = .ok ∧ r.ty = rv.ty ∧
        find w (step s op).1.env = some r ∧ ∃ ps, sees (step s op).1.heap r = pick (sees s.heap rv) ps := by
    intro rv hv he
    apply fresh rv (List.range (sees s.heap rv).length) hv
    rw [pick_range]; exact he
  cases op <;> simp only [Op.produces, Option.some.injEq, Prod.mk.injEq, reduceCtorEq] at hop
  case slice v' w' lo hi stp =>
    obtain ⟨rfl, rfl⟩ := hop
    cases hf : find v' s.env with
    | none => left; exact ⟨.NameError, by simp [eval, withVar, hf]⟩
    | some rv =>
      cases hp : slicePos lo hi stp rv.idx.length with
      | none => left; exact ⟨.ValueError, by simp [eval, withVar, hf, hp]⟩
      | some ps =>
        right
        have he : eval s (.slice v' w' lo hi stp) = (.bindView w' ⟨rv.buf, pick rv.idx ps, rv.ty⟩, .ok) := by
          simp [eval, withVar, hf, hp]
        refine ⟨rv, ⟨rv.buf, pick rv.idx ps, rv.ty⟩, rfl, by rw [he], rfl, by simp [step, he, apply, find_bind], ps, ?_⟩
        simp [step, he, apply, sees, pick_map]
  case view v' w' =>
    obtain ⟨rfl, rfl⟩ := hop
    cases hf : find v' s.env with
    | none => left; exact ⟨.NameError, by simp [eval, withVar, hf]⟩
    | some rv =>
      right
      have he : eval s (.view v' w') = (.bindView w' rv, .ok) := by simp [eval, withVar, hf]
      refine ⟨rv, rv, rfl, by rw [he], rfl, by simp [step, he, apply, find_bind], List.range rv.idx.length, ?_⟩
      have : (sees s.heap rv).length = rv.idx.length := by simp [sees]
      rw [← this, pick_range]
      simp [step, he, apply]
  case mask v' w' bits =>
    obtain ⟨rfl, rfl⟩ := hop
    cases hf : find v' s.env with
    | none => left; exact ⟨.NameError, by simp [eval, withVar, hf]⟩
    | some rv =>
      by_cases hm : bits.length = rv.idx.length ∨ bits = []
      · right; have h := fresh rv (maskPos bits 0) hf (by simp [eval, withVar, hf, hm]); rwa [hf] at h
      · left; exact ⟨.IndexError, by simp [eval, withVar, hf, hm]⟩
  case fancy v' w' idxs =>
    obtain ⟨rfl, rfl⟩ := hop
    cases hf : find v' s.env with
    | none => left; exact ⟨.NameError, by simp [eval, withVar, hf]⟩
    | some rv =>
      cases hn : normIdxs idxs rv.idx.length with
      | none => left; exact ⟨.IndexError, by simp [eval, withVar, hf, hn]⟩
      | some ps => right; have h := fresh rv ps hf (by simp [eval, withVar, hf, hn]); rwa [hf] at h
  case copy v' w' =>
    obtain ⟨rfl, rfl⟩ := hop
    cases hf : find v' s.env with
    | none => left; exact ⟨.NameError, by simp [eval, withVar, hf]⟩
    | some rv => right; have h := fresh' rv hf (by simp [eval, withVar, hf]); rwa [hf] at h
  case deepcopy v' w' =>
    obtain ⟨rfl, rfl⟩ := hop
    cases hf : find v' s.env with
    | none => left; exact ⟨.NameError, by simp [eval, withVar, hf]⟩
    | some rv => right; have h := fresh' rv hf (by simp [eval, withVar, hf]); rwa [hf] at h
  case pickle v' w' =>
    obtain ⟨rfl, rfl⟩ := hop
    cases hf : find v' s.env with
    | none => left; exact ⟨.NameError, by simp [eval, withVar, hf]⟩
    | some rv => right; have h := fresh' rv hf (by simp [eval, withVar, hf]); rwa [hf] at h

/-- **C19, type preservation.**  Every operation that produces an array from an array (`slice view copy deepcopy pickle mask
fancy`) and succeeds binds its target to an array of the SAME flavor, the same dtype field names (= coordinate system) and
the same dimension, hence of the same class. -/
theorem c19h_type_preserved (s : State α) (op : Op α) (v w : String) (hop : op.produces = some (v, w))
    (hok : (step s op).2 = .ok) :
    ∃ rv rw, find v s.env = some rv ∧ find w (step s op).1.env = some rw ∧ rw.ty = rv.ty ∧ rw.ty.mom = rv.ty.mom ∧
      rw.ty.fields = rv.ty.fields ∧ rw.ty.dim = rv.ty.dim ∧ rw.ty.tag = rv.ty.tag := by
  rcases produces_eval s op v w hop with ⟨e, he⟩ | ⟨rv, r, h1, _, h3, h4, _⟩
  · simp [step, he] at hok
  · exact ⟨rv, r, h1, h4, h3, by rw [h3], by rw [h3], by rw [h3], by rw [h3]⟩

/-- … and an integer index returns an element of the array's flavor and coordinate system, holding exactly the record at
that position (Python's negative indices included); it changes nothing -/
theorem c19h_type_preserved_intIndex (s : State α) (v : String) (i : Int) (ty : VTy) (rec : Record α)
    (h : (step s (.intIndex v i)).2 = .elem ty rec) :
    (step s (.intIndex v i)).1 = s ∧
      ∃ rv k, find v s.env = some rv ∧ ty = rv.ty ∧ ty.objTag = rv.ty.objTag ∧ normIdx i rv.idx.length = some k ∧
        rec = ((seen s v)[k]?).getD [] := by
  simp only [step, eval, withVar] at h ⊢
  cases hf : find v s.env with
  | none => simp [hf] at h
  | some rv =>
    cases hn : normIdx i rv.idx.length with
    | none => simp [hf, hn] at h
    | some k =>
      simp only [hf, hn, Out.elem.injEq] at h
      refine ⟨by simp [hn, apply], rv, k, rfl, h.1.symm, by rw [h.1], hn, ?_⟩
      simp [seen, hf, h.2]

/-! ### C19: the name index is the column -/

theorem pos_eq_none {n : String} {fs : List String} : pos n fs = none ↔ n ∉ fs := by
  induction fs with
  | nil => simp [pos]
  | cons f fs ih =>
    simp only [pos, List.mem_cons, not_or]
    by_cases h : f = n
    · simp [h]
    · have : ¬ n = f := fun h' => h h'.symm
      simp [h, this, ih]

/-- **C19, name index.**  `v[name]` is the column, at the position of the addressed field in the dtype, of the records `v`
shows; the addressed field is `name` itself on a generic array and `_repr_momentum_to_generic[name]` on a momentum array;
nothing changes.  A name addressing no field of the array is a `ValueError`. -/
theorem c19h_getName_column (s : State α) (v name : String) (rv : Ref) (hv : find v s.env = some rv) :
    (step s (.getName v name)).1 = s ∧
    (∀ p, pos (generic rv.ty.mom name) rv.ty.fields = some p →
      (step s (.getName v name)).2 = .vals (col p (seen s v))) ∧
    (generic rv.ty.mom name ∉ rv.ty.fields → (step s (.getName v name)).2 = .err .ValueError) := by
  simp only [step, eval, withVar, hv, seen]
  refine ⟨?_, ?_, ?_⟩
  · split <;> rfl
  · intro p hp; simp [hp]
  · intro h; simp [pos_eq_none.mpr h]

/-- every momentum spelling addresses the geometric field (on momentum arrays) … -/
theorem c19h_getName_synonyms :
    generic true "px" = "x" ∧ generic true "py" = "y" ∧ generic true "pt" = "rho" ∧ generic true "pz" = "z" ∧
    generic true "E" = "t" ∧ generic true "e" = "t" ∧ generic true "energy" = "t" ∧
    generic true "M" = "tau" ∧ generic true "m" = "tau" ∧ generic true "mass" = "tau" ∧
    (∀ n ∈ ["x", "y", "rho", "phi", "z", "theta", "eta", "t", "tau"], generic true n = n) ∧
    ∀ n, generic false n = n := by
  refine ⟨rfl, rfl, rfl, rfl, rfl, rfl, rfl, rfl, rfl, rfl, by decide, fun _ => rfl⟩

/-- … so two spellings of the same field return the same column -/
theorem c19h_getName_spelling (s : State α) (v n1 n2 : String) (rv : Ref) (hv : find v s.env = some rv)
    (h : generic rv.ty.mom n1 = generic rv.ty.mom n2) :
    (step s (.getName v n1)).2 = (step s (.getName v n2)).2 := by
  simp only [step, eval, withVar, hv, h]

/-- on a GENERIC array a momentum spelling is not a name index -/
theorem c19h_getName_generic (s : State α) (v name : String) (rv : Ref) (hv : find v s.env = some rv)
    (hg : rv.ty.mom = false) (hn : name ∉ rv.ty.fields) : (step s (.getName v name)).2 = .err .ValueError := by
  have := (c19h_getName_column s v name rv hv).2.2
  simp only [generic, hg] at this
  exact this hn

/-! ### C16: the frame property -/

theorem mem_pick {β : Type} {l : List β} {ps : List Nat} {x : β} (h : x ∈ pick l ps) : x ∈ l := by
  simp only [pick, List.mem_filterMap] at h
  obtain ⟨i, _, hi⟩ := h
  exact List.mem_of_getElem? hi

/-- **C16, non-writing operations** (`new slice view copy deepcopy pickle mask fancy intIndex getName del dump`): the heap
is extended at most — every existing buffer keeps its contents — and every variable other than the operation's target
keeps its `Ref`. -/
theorem c19h_frame (s : State α) (op : Op α) (hop : op.writeVar = none) :
    (∃ t, (step s op).1.heap = s.heap ++ t) ∧ (∀ b, b < s.heap.length → (step s op).1.heap[b]? = s.heap[b]?) ∧
      ∀ x, op.target ≠ some x → find x (step s op).1.env = find x s.env := by
  refine ⟨?_, fun b hb => heap_step_other s op b hb (by simp [writeBuf, hop]), fun x hx => find_step s op x hx⟩
  have hs := eval_shape s op
  simp only [step]
  generalize (eval s op).1 = eff at hs
  cases hs with
  | none => exact ⟨[], by simp [apply]⟩
  | view w v rv r _ _ _ _ _ _ => exact ⟨[], by simp [apply]⟩
  | fresh w ty recs _ _ => exact ⟨[recs], rfl⟩
  | writes v r ws hv _ _ => rw [hop] at hv; cases hv
  | del v _ _ => exact ⟨[], by simp [apply]⟩

/-- the pure reads (`v[i]`, `v[name]`, `dump`) change nothing at all -/
theorem c19h_frame_reads (s : State α) (op : Op α) (hw : op.writeVar = none) (ht : op.target = none) :
    (step s op).1 = s := by
  have hs := eval_shape s op
  simp only [step]
  generalize (eval s op).1 = eff at hs
  cases hs with
  | none => rfl
  | view w v rv r h _ _ _ _ _ => rw [ht] at h; cases h
  | fresh w ty recs h _ => rw [ht] at h; cases h
  | writes v r ws hv _ _ => rw [hw] at hv; cases hv
  | del v h _ => rw [ht] at h; cases h

/-- **C16, writing operations** (`v[name] = …`, `v[lo:hi] = …`): no variable is rebound, no buffer and no record changes its
length, and the only rows that can differ afterwards are the ADDRESSED rows of the buffer of the variable written through
(all rows `v` shows for a name assignment, the rows `v[lo:hi]` shows for a slice assignment) — which are rows `v` shows. -/
theorem c19h_frame_write (s : State α) (op : Op α) (v : String) (hop : op.writeVar = some v) :
    (step s op).1.env = s.env ∧ (step s op).1.heap.length = s.heap.length ∧
    (∀ b : Nat, ((step s op).1.heap[b]?).map List.length = (s.heap[b]?).map List.length) ∧
    (∀ b i, (rowAt (step s op).1.heap b i).length = (rowAt s.heap b i).length) ∧
    (find v s.env = none → (step s op).1 = s) ∧
    ∀ r, find v s.env = some r →
      (∀ b, b ≠ r.buf → (step s op).1.heap[b]? = s.heap[b]?) ∧
      (∀ b i, b ≠ r.buf ∨ i ∉ addressed s op → rowAt (step s op).1.heap b i = rowAt s.heap b i) ∧
      ∀ i, i ∈ addressed s op → i ∈ r.idx := by
  have hs := eval_shape s op
  have haddr : ∀ r, find v s.env = some r → ∀ i, i ∈ addressed s op → i ∈ r.idx := by
    intro r hr i hi
    cases op <;> simp only [Op.writeVar, Option.some.injEq, reduceCtorEq] at hop <;> subst hop <;>
      simp only [addressed, hr] at hi
    · exact hi
    · exact mem_pick hi
    · exact mem_pick hi
  simp only [step]
  generalize (eval s op).1 = eff at hs
  cases hs with
  | none => exact ⟨rfl, rfl, fun _ => rfl, fun _ _ => rfl, fun _ => rfl, fun r hr => ⟨fun _ _ => rfl, fun _ _ _ => rfl, haddr r hr⟩⟩
  | view w v' rv r _ h _ _ _ _ => rw [hop] at h; cases h
  | fresh w ty recs _ h => rw [hop] at h; cases h
  | del v' _ h => rw [hop] at h; cases h
  | writes v' r' ws hv _ hr' =>
    rw [hop] at hv
    cases hv
    refine ⟨rfl, writeCols_length .., fun b => writeCols_buflen .., fun b i => rowAt_writeCols_length .., ?_, ?_⟩
    · intro h; rw [hr'] at h; cases h
    · intro r hr
      rw [hr'] at hr
      cases hr
      exact ⟨fun b hb => writeCols_other _ _ _ _ _ hb, fun b i hbi => rowAt_writeCols_row _ _ _ _ _ _ hbi, haddr _ hr'⟩

/-- … and a name assignment touches ONE field: every other field of every record is unchanged -/
theorem c19h_frame_setName_field (s : State α) (v name : String) (vals : List α) (rv : Ref) (hv : find v s.env = some rv)
    (b i q : Nat) (hq : pos (generic rv.ty.mom name) rv.ty.fields ≠ some q) :
    (rowAt (step s (.setName v name vals)).1.heap b i)[q]? = (rowAt s.heap b i)[q]? := by
  simp only [step, eval, withVar, hv]
  cases hp : pos (generic rv.ty.mom name) rv.ty.fields with
  | none => rfl
  | some p =>
    cases hb : bcast rv.idx.length vals with
    | none => rfl
    | some vs =>
      simp only [apply]
      apply rowAt_writeCols_field
      intro w hw
      simp only [List.mem_singleton] at hw
      subst hw
      intro h
      apply hq
      rw [hp, ← h]

/-- **C16, failure atomicity.**  Every operation other than a slice assignment that answers with an exception leaves the
state exactly as it was.  (A slice assignment `v[lo:hi] = w[…]` whose right-hand side has a field the target lacks raises
AFTER the earlier fields were written — `c19h_setElems_partial` below; this is the behaviour of `_setitem`.) -/
theorem c19h_error_no_effect (s : State α) (op : Op α) (e : Err) (herr : (step s op).2 = .err e)
    (hop : ∀ v lo hi srcLo, op ≠ .setSlice v lo hi srcLo) (hop' : ∀ v lo hi w slo shi, op ≠ .setElems v lo hi w slo shi) :
    (step s op).1 = s := by
  simp only [step] at herr ⊢
  cases op with
  | setSlice v lo hi srcLo => exact absurd rfl (hop v lo hi srcLo)
  | setElems v lo hi w slo shi => exact absurd rfl (hop' v lo hi w slo shi)
  | dump => rfl
  | new v ty recs =>
    simp only [eval] at herr ⊢
    split at herr
    · cases herr
    · simp [*, apply]
  | slice v w lo hi stp =>
    simp only [eval, withVar] at herr ⊢
    cases hf : find v s.env with
    | none => rfl
    | some rv => cases hp : slicePos lo hi stp rv.idx.length <;> simp [hf, hp, apply] at herr ⊢
  | mask v w bits =>
    simp only [eval, withVar] at herr ⊢
    cases hf : find v s.env with
    | none => rfl
    | some rv => by_cases hm : bits.length = rv.idx.length ∨ bits = [] <;> simp [hf, hm, apply] at herr ⊢
  | fancy v w idxs =>
    simp only [eval, withVar] at herr ⊢
    cases hf : find v s.env with
    | none => rfl
    | some rv => cases hp : normIdxs idxs rv.idx.length <;> simp [hf, hp, apply] at herr ⊢
  | view v w => simp only [eval, withVar] at herr ⊢; cases hf : find v s.env <;> simp [hf, apply] at herr ⊢
  | copy v w => simp only [eval, withVar] at herr ⊢; cases hf : find v s.env <;> simp [hf, apply] at herr ⊢
  | deepcopy v w => simp only [eval, withVar] at herr ⊢; cases hf : find v s.env <;> simp [hf, apply] at herr ⊢
  | pickle v w => simp only [eval, withVar] at herr ⊢; cases hf : find v s.env <;> simp [hf, apply] at herr ⊢
  | del v => simp only [eval, withVar] at herr ⊢; cases hf : find v s.env <;> simp [hf, apply] at herr ⊢
  | intIndex v i =>
    simp only [eval, withVar] at herr ⊢
    cases hf : find v s.env with
    | none => rfl
    | some rv => cases hp : normIdx i rv.idx.length <;> simp [hp, apply]
  | getName v name =>
    simp only [eval, withVar] at herr ⊢
    cases hf : find v s.env with
    | none => rfl
    | some rv => cases hp : pos (generic rv.ty.mom name) rv.ty.fields <;> simp [hp, apply]
  | setName v name vals =>
    simp only [eval, withVar] at herr ⊢
    cases hf : find v s.env with
    | none => rfl
    | some rv =>
      cases hp : pos (generic rv.ty.mom name) rv.ty.fields with
      | none => simp [hp, apply]
      | some p => cases hb : bcast rv.idx.length vals <;> simp [hf, hp, hb, apply] at herr ⊢

/-! ### C19: round trips -/

/-- **C19, round trip.**  `w = v.copy()`, `w = copy.deepcopy(v)` and `w = pickle.loads(pickle.dumps(v))` always succeed on a
live `v`; `w` then shows exactly the records `v` showed, has `v`'s vector type (class, field names), and nothing `v` or
any other variable shows has changed. -/
theorem c19h_roundtrip (s : State α) (op : Op α) (v w : String) (rv : Ref) (hv : find v s.env = some rv)
    (hop : op = .copy v w ∨ op = .deepcopy v w ∨ op = .pickle v w) :
    (step s op).2 = .ok ∧
      ∃ rw, find w (step s op).1.env = some rw ∧ rw.ty = rv.ty ∧ rw.buf = s.heap.length ∧
        seen (step s op).1 w = seen s v ∧ ∀ b, b < s.heap.length → (step s op).1.heap[b]? = s.heap[b]? := by
  have h1 : (step s op).2 = .ok ∧ (eval s op).1 = .bindFresh w rv.ty (sees s.heap rv) := by
    rcases hop with rfl | rfl | rfl <;> simp [step, eval, withVar, hv]
  refine ⟨h1.1, ⟨s.heap.length, List.range (sees s.heap rv).length, rv.ty⟩, ?_, rfl, rfl, ?_, ?_⟩
  · simp [step, h1.2, apply, find_bind]
  · simp only [seen, step, h1.2, apply, find_bind, if_true, hv]
    exact sees_fresh ..
  · intro b hb
    simp [step, h1.2, apply, List.getElem?_append_left hb]

/-! ### C19: a write through a name is read back — through the variable and through its aliases -/

theorem assoc_getElem {β : Type} (idx : List Nat) (vals : List β) (hn : idx.Nodup) (hl : idx.length = vals.length)
    (k : Nat) (hk : k < idx.length) : assoc idx vals idx[k] = some (vals[k]'(hl ▸ hk)) := by
  induction idx generalizing vals k with
  | nil => simp at hk
  | cons i idx ih =>
    cases vals with
    | nil => simp at hl
    | cons x xs =>
      cases k with
      | zero => simp [assoc]
      | succ k =>
        simp only [List.length_cons, Nat.add_lt_add_iff_right] at hk
        simp only [List.nodup_cons] at hn
        have hne : ¬ i = idx[k] := fun h => hn.1 (h ▸ List.getElem_mem hk)
        simp only [List.getElem_cons_succ, assoc, hne, if_false]
        exact ih xs hn.2 (by simpa using hl) k hk

/-- `v[name] = vals; v[name]` returns `vals` — provided `v`'s index map repeats no row (true of every view NumPy can make)
and the records have the addressed field (true of every record of a well-formed buffer) -/
theorem c19h_setName_getName (s : State α) (v name : String) (vals : List α) (rv : Ref) (p : Nat)
    (hv : find v s.env = some rv) (hn : rv.idx.Nodup) (hp : pos (generic rv.ty.mom name) rv.ty.fields = some p)
    (hl : vals.length = rv.idx.length) (hrec : ∀ i ∈ rv.idx, p < (rowAt s.heap rv.buf i).length) :
    (step s (.setName v name vals)).2 = .ok ∧
      (step (step s (.setName v name vals)).1 (.getName v name)).2 = .vals (vals.map some) := by
  have hb : bcast rv.idx.length vals = some vals := by simp [bcast, hl]
  have h1 : step s (.setName v name vals) = (⟨writeCols s.heap rv.buf rv.idx [(p, vals)], s.env⟩, .ok) := by
    simp [step, eval, withVar, hv, hp, hb, apply]
  rw [h1]
  refine ⟨rfl, ?_⟩
  simp only [step, eval, withVar, hv, hp, col, sees, List.map_map]
  congr 1
  apply List.ext_getElem
  · simp [hl]
  · intro k h1 h2
    simp only [List.length_map] at h1 h2
    simp only [List.getElem_map, Function.comp, writeCols, List.foldl_cons, List.foldl_nil, rowAt_writeCol, if_true]
    rw [assoc_getElem rv.idx vals hn hl.symm k h1]
    simp only
    rw [List.getElem?_set_self (hrec _ (List.getElem_mem h1))]

/-- … and through an alias `w` of `v` the same write is read back at the corresponding positions -/
theorem c19h_setName_getName_alias (s : State α) (v w name : String) (idx : List Nat) (vals : List α) (rv : Ref) (p : Nat)
    (hal : Aliased s v w idx) (hv : find v s.env = some rv) (hn : rv.idx.Nodup)
    (hp : pos (generic rv.ty.mom name) rv.ty.fields = some p) (hl : vals.length = rv.idx.length)
    (hrec : ∀ i ∈ rv.idx, p < (rowAt s.heap rv.buf i).length) :
    (step (step s (.setName v name vals)).1 (.getName w name)).2 = .vals (pick (vals.map some) idx) :=
  c19h_alias_getName (c19h_alias_step hal _ (by simp [Op.target]) (by simp [Op.target])) name _
    (c19h_setName_getName s v name vals rv p hv hn hp hl hrec).2

/-! ### the invariant of reachable states: index maps repeat no row, records have all the fields -/

/-- every variable points into the heap, shows no buffer row twice, and every record it shows has one scalar per field -/
def Good (s : State α) : Prop := ∀ x r, find x s.env = some r →
  r.buf < s.heap.length ∧ r.idx.Nodup ∧ ∀ i ∈ r.idx, (rowAt s.heap r.buf i).length = r.ty.fields.length

theorem nodup_pick {l ps : List Nat} (hl : l.Nodup) (hps : ps.Nodup) : (pick l ps).Nodup := by
  refine List.Pairwise.filterMap (R := (· ≠ ·)) _ ?_ hps
  intro a a' hne b hb b' hb' hbb
  subst hbb
  have ha : a < l.length := by
    rcases Nat.lt_or_ge a l.length with h | h
    · exact h
    · rw [List.getElem?_eq_none h] at hb; cases hb
  exact hne ((List.getElem?_inj ha hl).mp (hb.trans hb'.symm))

theorem nodup_slicePos {lo hi stp : Option Int} {n : Nat} {ps : List Nat} (h : slicePos lo hi stp n = some ps) :
    ps.Nodup := by
  simp only [slicePos] at h
  split at h
  · cases h
  · split at h
    · cases h; exact List.Nodup.sublist List.filter_sublist List.nodup_range
    · cases h
      exact List.pairwise_reverse.mpr (List.Pairwise.imp (fun h => Ne.symm h) (List.Nodup.sublist List.filter_sublist List.nodup_range))

/-- what `eval` answers in a good state, with the facts the invariant needs -/
inductive GShape (s : State α) : Eff α → Prop
  | none : GShape s .none
  | view (w v : String) (rv r : Ref) : find v s.env = some rv → r.buf = rv.buf → r.ty = rv.ty → r.idx.Nodup →
      (∀ i ∈ r.idx, i ∈ rv.idx) → GShape s (.bindView w r)
  | fresh (w : String) (ty : VTy) (recs : List (Record α)) : (∀ rec ∈ recs, rec.length = ty.fields.length) →
      GShape s (.bindFresh w ty recs)
  | writes (b : Nat) (idx : List Nat) (ws : List (Nat × List α)) : GShape s (.writes b idx ws)
  | del (v : String) : GShape s (.del v)

theorem good_sees {s : State α} (hg : Good s) {v : String} {rv : Ref} (hv : find v s.env = some rv) :
    ∀ rec ∈ sees s.heap rv, rec.length = rv.ty.fields.length := by
  intro rec hrec
  simp only [sees, List.mem_map] at hrec
  obtain ⟨i, hi, rfl⟩ := hrec
  exact (hg v rv hv).2.2 i hi

theorem eval_gshape (s : State α) (hg : Good s) (op : Op α) : GShape s (eval s op).1 := by
  have hw : ∀ (rt : Ref) tlo thi (rs : Ref) slo shi, GShape s (assignRows s rt tlo thi rs slo shi).1 := by
    intro rt tlo thi rs slo shi
    rcases assignRows_shape s rt tlo thi rs slo shi with h | ⟨ws, h⟩ <;> rw [h]
    · exact .none
    · exact .writes ..
  cases op with
  | new v ty recs =>
    simp only [eval]
    split
    · rename_i h
      simp only [Bool.and_eq_true, List.all_eq_true, beq_iff_eq] at h
      exact .fresh v ty recs h.2
    · exact .none
  | slice v w lo hi stp =>
    simp only [eval, withVar]
    split
    · exact .none
    · rename_i r hr
      split
      · exact .none
      · rename_i ps hps
        exact .view w v r _ hr rfl rfl (nodup_pick (hg v r hr).2.1 (nodup_slicePos hps)) (fun i hi => mem_pick hi)
  | view v w =>
    simp only [eval, withVar]
    split
    · exact .none
    · rename_i r hr
      exact .view w v r r hr rfl rfl (hg v r hr).2.1 (fun i hi => hi)
  | mask v w bits =>
    simp only [eval, withVar]
    split
    · exact .none
    · rename_i r hr
      split
      · exact .fresh w _ _ (fun rec hrec => good_sees hg hr rec (mem_pick hrec))
      · exact .none
  | fancy v w idxs =>
    simp only [eval, withVar]
    split
    · exact .none
    · rename_i r hr
      split
      · exact .none
      · exact .fresh w _ _ (fun rec hrec => good_sees hg hr rec (mem_pick hrec))
  | copy v w =>
    simp only [eval, withVar]
    split
    · exact .none
    · rename_i r hr; exact .fresh w _ _ (good_sees hg hr)
  | deepcopy v w =>
    simp only [eval, withVar]
    split
    · exact .none
    · rename_i r hr; exact .fresh w _ _ (good_sees hg hr)
  | pickle v w =>
    simp only [eval, withVar]
    split
    · exact .none
    · rename_i r hr; exact .fresh w _ _ (good_sees hg hr)
  | intIndex v i =>
    simp only [eval, withVar]
    split
    · exact .none
    · split <;> exact .none
  | getName v name =>
    simp only [eval, withVar]
    split
    · exact .none
    · split <;> exact .none
  | setName v name vals =>
    simp only [eval, withVar]
    split
    · exact .none
    · split
      · exact .none
      · split
        · exact .none
        · exact .writes ..
  | setSlice v lo hi srcLo =>
    simp only [eval, withVar]
    split
    · exact .none
    · exact hw ..
  | setElems v lo hi w slo shi =>
    simp only [eval, withVar]
    split
    · exact .none
    · split
      · exact .none
      · exact hw ..
  | del v =>
    simp only [eval, withVar]
    split
    · exact .none
    · exact .del v
  | dump => exact .none

theorem rowAt_append_old (h : Heap α) (recs : Buffer α) (b i : Nat) (hb : b < h.length) :
    rowAt (h ++ [recs]) b i = rowAt h b i := by
  simp [rowAt, List.getElem?_append_left hb]

/-- the invariant holds initially and is preserved by every operation: it holds in every reachable state -/
theorem good_step (s : State α) (op : Op α) (hg : Good s) : Good (step s op).1 := by
  have hs := eval_gshape s hg op
  simp only [step]
  generalize (eval s op).1 = eff at hs
  cases hs with
  | none => exact hg
  | view w v rv r hv hb ht hn hsub =>
    intro x r' hx
    simp only [apply, find_bind] at hx
    split at hx
    · cases hx
      refine ⟨by rw [hb]; exact (hg v rv hv).1, hn, fun i hi => ?_⟩
      simp only [apply]
      rw [hb, ht]
      exact (hg v rv hv).2.2 i (hsub i hi)
    · exact hg x r' hx
  | fresh w ty recs hrecs =>
    intro x r' hx
    simp only [apply, find_bind] at hx
    simp only [apply, List.length_append, List.length_singleton]
    split at hx
    · cases hx
      refine ⟨by simp, List.nodup_range, fun i hi => ?_⟩
      simp only [List.mem_range] at hi
      simp only [rowAt, List.getElem?_append_right (Nat.le_refl _), Nat.sub_self, List.getElem?_cons_zero,
        Option.getD_some, List.getElem?_eq_getElem hi]
      exact hrecs _ (List.getElem_mem hi)
    · obtain ⟨h1, h2, h3⟩ := hg x r' hx
      exact ⟨Nat.lt_succ_of_lt h1, h2, fun i hi => by rw [rowAt_append_old _ _ _ _ h1]; exact h3 i hi⟩
  | writes b idx ws =>
    intro x r' hx
    obtain ⟨h1, h2, h3⟩ := hg x r' hx
    exact ⟨by simpa [apply, writeCols_length] using h1, h2,
      fun i hi => by simp only [apply]; rw [rowAt_writeCols_length]; exact h3 i hi⟩
  | del v =>
    intro x r' hx
    simp only [apply, find_unbind] at hx
    split at hx
    · cases hx
    · exact hg x r' hx

theorem good_empty : Good (State.empty : State α) := by
  intro x r h
  simp [State.empty, find] at h

theorem good_run (s : State α) (ops : List (Op α)) (hg : Good s) : Good (run s ops) := by
  induction ops generalizing s with
  | nil => exact hg
  | cons op ops ih => rw [run_cons]; exact ih _ (good_step s op hg)

/-- the read-back law in every REACHABLE state (any history from the empty state), for a full-length right-hand side:
`v[name] = vals; v[name]` returns `vals`, and an alias `w` of `v` returns the corresponding positions of `vals` -/
theorem c19h_setName_getName_reachable (hist : List (Op α)) (v name : String) (vals : List α) (rv : Ref) (p : Nat)
    (hv : find v (run State.empty hist).env = some rv) (hp : pos (generic rv.ty.mom name) rv.ty.fields = some p)
    (hl : vals.length = rv.idx.length) :
    let s := run State.empty hist
    (step (step s (.setName v name vals)).1 (.getName v name)).2 = .vals (vals.map some) ∧
      ∀ w idx, Aliased s v w idx →
        (step (step s (.setName v name vals)).1 (.getName w name)).2 = .vals (pick (vals.map some) idx) := by
  have hg := good_run _ hist (good_empty (α := α))
  obtain ⟨_, h2, h3⟩ := hg v rv hv
  have hlt : p < rv.ty.fields.length := by
    have : ∀ (fs : List String) (n : String) (p : Nat), pos n fs = some p → p < fs.length := by
      intro fs n
      induction fs with
      | nil => intro p h; simp [pos] at h
      | cons f fs ih =>
        intro p h
        simp only [pos] at h
        split at h
        · cases h; simp
        · cases hq : pos n fs with
          | none => simp [hq] at h
          | some q => simp [hq] at h; subst h; simp [ih q hq]
    exact this _ _ _ hp
  have hrec : ∀ i ∈ rv.idx, p < (rowAt (run State.empty hist).heap rv.buf i).length := by
    intro i hi; rw [h3 i hi]; exact hlt
  exact ⟨(c19h_setName_getName _ v name vals rv p hv h2 hp hl hrec).2,
    fun w idx hal => c19h_setName_getName_alias _ v w name idx vals rv p hal hv h2 hp hl hrec⟩

/-! ### examples: a concrete 3-row Momentum3D array -/

section Examples

/-- `a = vector.array({"px": [1, 4, 7], "py": [2, 5, 8], "pz": [3, 6, 9]})` -/
def exA : State Int := run State.empty [.new "a" ⟨true, ["x", "y", "z"]⟩ [[1, 2, 3], [4, 5, 6], [7, 8, 9]]]

example : WF exA := wf_run _ _ wf_empty

example : seen exA "a" = [[1, 2, 3], [4, 5, 6], [7, 8, 9]] := by decide

/-- `b = a[1:]; b["px"] = [40, 70]` is seen through `a` (momentum spelling, write through the slice) -/
example : seen (run exA [.slice "a" "b" (some 1) none none, .setName "b" "px" [40, 70]]) "a" =
    [[1, 2, 3], [40, 5, 6], [70, 8, 9]] := by decide

/-- `b = a[::-1]; a["y"] = [20, 50, 80]` is seen through `b`, reversed -/
example : (step (run exA [.slice "a" "b" none none (some (-1)), .setName "a" "y" [20, 50, 80]]) (.getName "b" "py")).2 =
    .vals [some 80, some 50, some 20] := rfl

/-- `c = a.view(type(a)); c[0:1] = c[2:3]` is seen through `a` -/
example : seen (run exA [.view "a" "c", .setSlice "c" 0 1 2]) "a" = [[7, 8, 9], [4, 5, 6], [7, 8, 9]] := by decide

/-- `p = pickle.loads(pickle.dumps(a)); a["pz"] = [0, 0, 0]; p["x"] = [5, 5, 5]`: neither sees the other's write -/
example :
    let s := run exA [.pickle "a" "p", .setName "a" "pz" [0, 0, 0], .setName "p" "x" [5, 5, 5]]
    seen s "a" = [[1, 2, 0], [4, 5, 0], [7, 8, 0]] ∧ seen s "p" = [[5, 2, 3], [5, 5, 6], [5, 8, 9]] := by decide

/-- `m = a[[True, False, True]]`, `f = a[[-1, 0]]` are copies of the selected records -/
example :
    let s := run exA [.mask "a" "m" [true, false, true], .fancy "a" "f" [-1, 0], .setName "a" "x" [0]]
    seen s "m" = [[1, 2, 3], [7, 8, 9]] ∧ seen s "f" = [[7, 8, 9], [1, 2, 3]] ∧
      seen s "a" = [[0, 2, 3], [0, 5, 6], [0, 8, 9]] := by decide

/-- `a[-1]` is a `MomentumObject3D` with the record's coordinates; `a[3]` an `IndexError`; `a["rho"]` a `ValueError` -/
example : (step exA (.intIndex "a" (-1))).2 = .elem ⟨true, ["x", "y", "z"]⟩ [7, 8, 9] ∧
    (⟨true, ["x", "y", "z"]⟩ : VTy).objTag = "MomentumObject3D" ∧ (⟨true, ["x", "y", "z"]⟩ : VTy).tag = "MomentumNumpy3D" ∧
    (step exA (.intIndex "a" 3)).2 = .err .IndexError ∧ (step exA (.getName "a" "rho")).2 = .err .ValueError :=
  ⟨rfl, by decide, by decide, rfl, rfl⟩

/-- the theorems at work: after `b = a[1:]`, in every later state not rebinding `a` / `b`, `b` shows rows 1, 2 of `a` -/
example (ops : List (Op Int)) (hops : ∀ op ∈ ops, op.target ≠ some "a" ∧ op.target ≠ some "b") :
    let s' := run (step exA (.slice "a" "b" (some 1) none none)).1 ops
    seen s' "b" = pick (seen s' "a") [1, 2] :=
  ((c19h_view_alias exA "a" "b" ⟨0, [0, 1, 2], ⟨true, ["x", "y", "z"]⟩⟩ (by decide) rfl ops hops).2
    (some 1) none none [1, 2] (by decide)).1

/-- the read-back law applies to `exA`: no repeated rows, every record has the field -/
example : (step (step exA (.setName "a" "py" [20, 50, 80])).1 (.getName "a" "y")).2 = .vals [some 20, some 50, some 80] :=
  (c19h_setName_getName exA "a" "py" [20, 50, 80] ⟨0, [0, 1, 2], ⟨true, ["x", "y", "z"]⟩⟩ 1 rfl (by decide) (by decide) rfl
    (by decide)).2

/-- **Discrepancy with C16 (failure atomicity), reproduced on the real library.**  `a[:] = b[:]` where `b` has a field `a`
lacks (`theta` vs `z`) raises `ValueError` — after `x` and `y` of `a` have been overwritten. -/
theorem c19h_setElems_partial :
    let s : State Int := run State.empty [.new "a" ⟨false, ["x", "y", "z"]⟩ [[1, 2, 3], [4, 5, 6]],
      .new "b" ⟨false, ["x", "y", "theta"]⟩ [[7, 8, 9], [10, 11, 12]]]
    (step s (.setElems "a" none none "b" none none)).2 = .err .ValueError ∧
      seen s "a" = [[1, 2, 3], [4, 5, 6]] ∧
      seen (step s (.setElems "a" none none "b" none none)).1 "a" = [[7, 8, 3], [10, 11, 6]] :=
  ⟨rfl, by decide, by decide⟩

/-- … and an assignment from a LOWER-dimensional array silently succeeds, overwriting only the fields the source has -/
theorem c19h_setElems_lower_dim :
    let s : State Int := run State.empty [.new "a" ⟨false, ["x", "y", "z"]⟩ [[1, 2, 3], [4, 5, 6]],
      .new "b" ⟨false, ["x", "y"]⟩ [[7, 8], [10, 11]]]
    (step s (.setElems "a" none none "b" none none)).2 = .ok ∧
      seen (step s (.setElems "a" none none "b" none none)).1 "a" = [[7, 8, 3], [10, 11, 6]] :=
  ⟨rfl, by decide⟩

end Examples

end VH
