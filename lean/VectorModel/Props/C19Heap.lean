/-
Properties C19 / C16 on the HEAP model of NumPy vector arrays (`Glue/Heap.lean`): aliasing of views (slices, transposes,
sub-arrays, 0-d views, strided reshapes), detachment of copies (copy / deepcopy / pickle / advanced indices / reshapes that must
copy), type preservation (flavor, dtype names in order, extras), name index = column, elements built BY NAME whatever the
field order, the frame property, pickle / copy / reshape round trips, in-place arithmetic as a write through the reference.

All statements are for every scalar type `α` (the model only moves values) and every state / history.
-/
import VectorModel.Glue.Heap

set_option linter.unusedVariables false

namespace VH

variable {α : Type}

/-! ### lists -/

private theorem pick_map {β γ : Type} (f : β → γ) (l : List β) (ps : List Nat) : pick (l.map f) ps = (pick l ps).map f := by
  simp only [pick, List.map_filterMap]
  congr 1
  funext i
  simp

private theorem pick_range {β : Type} (l : List β) : pick l (List.range l.length) = l := by
  induction l with
  | nil => rfl
  | cons a l ih =>
    have : pick (a :: l) (List.range (l.length + 1)) = a :: pick l (List.range l.length) := by
      simp only [pick, List.range_succ_eq_map, List.filterMap_cons, List.filterMap_map]
      simp [Function.comp_def]
    simpa [this] using ih

/-! ### the environment -/

theorem find_unbind (x w : String) (e : Env) : find x (unbind w e) = if x = w then none else find x e := by
  induction e with
  | nil => simp [unbind, find]
  | cons p e ih =>
    obtain ⟨k, r⟩ := p
    simp only [unbind, List.filter_cons] at ih ⊢
    by_cases hk : k = w
    · subst hk
      simp only [bne_self_eq_false, Bool.false_eq_true, if_false, ih, find]
      by_cases hx : x = k
      · simp [hx]
      · have : ¬ k = x := fun h => hx h.symm
        simp [hx, this]
    · have : (k != w) = true := by simp [hk]
      simp only [this, if_true, find, ih]
      by_cases hx : x = w
      · subst hx; simp [hk]
      · simp [hx]

theorem find_bind (x w : String) (e : Env) (r : Ref) : find x (bind e w r) = if w = x then some r else find x e := by
  simp only [bind, find, find_unbind]
  by_cases h : w = x
  · simp [h]
  · have : ¬ x = w := fun h' => h h'.symm
    simp [h, this]

/-! ### the heap under column writes -/

theorem rowAt_writeCol (h : Heap α) (b : Nat) (idx : List Nat) (p : Nat) (vals : List α) (b' i : Nat) :
    rowAt (writeCol h b idx p vals) b' i =
      if b' = b then (match assoc idx vals i with
        | some x => (rowAt h b' i).set p x
        | none => rowAt h b' i) else rowAt h b' i := by
  simp only [rowAt, writeCol, List.getElem?_mapIdx]
  cases hb : h[b']? with
  | none => simp; split <;> simp
  | some buffer =>
    simp only [Option.map_some, Option.getD_some]
    by_cases hbb : b' = b
    · simp only [hbb, if_true, List.getElem?_mapIdx]
      cases hi : buffer[i]? with
      | none => simp; split <;> simp
      | some rec => simp <;> (try split) <;> simp [*]
    · simp [hbb]

theorem writeCol_length (h : Heap α) (b : Nat) (idx : List Nat) (p : Nat) (vals : List α) :
    (writeCol h b idx p vals).length = h.length := by simp [writeCol]

theorem writeCol_other (h : Heap α) (b : Nat) (idx : List Nat) (p : Nat) (vals : List α) (b' : Nat) (hb : b' ≠ b) :
    (writeCol h b idx p vals)[b']? = h[b']? := by
  simp only [writeCol, List.getElem?_mapIdx, hb, if_false]
  cases h[b']? <;> simp

theorem writeCol_buflen (h : Heap α) (b : Nat) (idx : List Nat) (p : Nat) (vals : List α) (b' : Nat) :
    ((writeCol h b idx p vals)[b']?).map List.length = (h[b']?).map List.length := by
  simp only [writeCol, List.getElem?_mapIdx]
  cases h[b']? with
  | none => simp
  | some buffer => by_cases hb : b' = b <;> simp [hb]

theorem writeCols_length (h : Heap α) (b : Nat) (idx : List Nat) (ws : List (Nat × List α)) :
    (writeCols h b idx ws).length = h.length := by
  induction ws generalizing h with
  | nil => rfl
  | cons w ws ih => simp only [writeCols, List.foldl_cons] at ih ⊢; rw [ih, writeCol_length]

theorem writeCols_other (h : Heap α) (b : Nat) (idx : List Nat) (ws : List (Nat × List α)) (b' : Nat) (hb : b' ≠ b) :
    (writeCols h b idx ws)[b']? = h[b']? := by
  induction ws generalizing h with
  | nil => rfl
  | cons w ws ih => simp only [writeCols, List.foldl_cons] at ih ⊢; rw [ih, writeCol_other _ _ _ _ _ _ hb]

theorem writeCols_buflen (h : Heap α) (b : Nat) (idx : List Nat) (ws : List (Nat × List α)) (b' : Nat) :
    ((writeCols h b idx ws)[b']?).map List.length = (h[b']?).map List.length := by
  induction ws generalizing h with
  | nil => rfl
  | cons w ws ih => simp only [writeCols, List.foldl_cons] at ih ⊢; rw [ih, writeCol_buflen]

theorem assoc_none {β : Type} (idx : List Nat) (vals : List β) (i : Nat) (hi : i ∉ idx) : assoc idx vals i = none := by
  induction idx generalizing vals with
  | nil => cases vals <;> rfl
  | cons j idx ih =>
    cases vals with
    | nil => rfl
    | cons x xs =>
      simp only [List.mem_cons, not_or] at hi
      have : ¬ j = i := fun h => hi.1 h.symm
      simp [assoc, this, ih xs hi.2]

/-- a column write leaves every row outside the addressed ones alone -/
theorem rowAt_writeCols_row (h : Heap α) (b : Nat) (idx : List Nat) (ws : List (Nat × List α)) (b' i : Nat)
    (hi : b' ≠ b ∨ i ∉ idx) : rowAt (writeCols h b idx ws) b' i = rowAt h b' i := by
  induction ws generalizing h with
  | nil => rfl
  | cons w ws ih =>
    simp only [writeCols, List.foldl_cons] at ih ⊢
    rw [ih, rowAt_writeCol]
    rcases hi with hi | hi
    · simp [hi]
    · simp [assoc_none _ _ _ hi]

/-- … never changes the length of a record … -/
theorem rowAt_writeCols_length (h : Heap α) (b : Nat) (idx : List Nat) (ws : List (Nat × List α)) (b' i : Nat) :
    (rowAt (writeCols h b idx ws) b' i).length = (rowAt h b' i).length := by
  induction ws generalizing h with
  | nil => rfl
  | cons w ws ih =>
    simp only [writeCols, List.foldl_cons] at ih ⊢
    rw [ih, rowAt_writeCol]
    split
    · split <;> simp
    · rfl

/-- … and leaves every field alone that is not one of the written ones -/
theorem rowAt_writeCols_field (h : Heap α) (b : Nat) (idx : List Nat) (ws : List (Nat × List α)) (b' i q : Nat)
    (hq : ∀ w ∈ ws, w.1 ≠ q) : (rowAt (writeCols h b idx ws) b' i)[q]? = (rowAt h b' i)[q]? := by
  induction ws generalizing h with
  | nil => rfl
  | cons w ws ih =>
    simp only [writeCols, List.foldl_cons] at ih ⊢
    rw [ih _ (fun w' hw' => hq w' (List.mem_cons_of_mem _ hw')), rowAt_writeCol]
    have hw : w.1 ≠ q := hq w (List.mem_cons_self ..)
    split
    · split
      · rw [List.getElem?_set_ne hw]
      · rfl
    · rfl

theorem sees_congr (h h' : Heap α) (r : Ref) (hb : h'[r.buf]? = h[r.buf]?) : sees h' r = sees h r := by
  simp only [sees]
  congr 1
  funext i
  simp only [rowAt, hb]

theorem getElem?_append_one {β : Type} (l : List β) (x : β) (b : Nat) (hb : b < l.length) : (l ++ [x])[b]? = l[b]? :=
  List.getElem?_append_left hb

/-! ### allocation of a fresh buffer -/

theorem layoutOr_perm (lay : List Nat) (n : Nat) : IsPerm (layoutOr lay n) n := by
  unfold layoutOr
  split
  · assumption
  · exact ⟨List.length_range, List.nodup_range, fun i hi => List.mem_range.mp hi⟩

theorem assoc_getElem {β : Type} (idx : List Nat) (vals : List β) (hn : idx.Nodup) (hl : idx.length = vals.length)
    (k : Nat) (hk : k < idx.length) : assoc idx vals idx[k] = some (vals[k]'(hl ▸ hk)) := by
  induction idx generalizing vals k with
  | nil => simp at hk
  | cons i idx ih =>
    cases vals with
    | nil => simp at hl
    | cons x xs =>
      cases k with
      | zero => simp [assoc]
      | succ k =>
        simp only [List.length_cons, Nat.add_lt_add_iff_right] at hk
        simp only [List.nodup_cons] at hn
        have hne : ¬ i = idx[k] := fun h => hn.1 (h ▸ List.getElem_mem hk)
        simp only [List.getElem_cons_succ, assoc, hne, if_false]
        exact ih xs hn.2 (by simpa using hl) k hk

/-- the buffer `alloc` makes -/
def freshBuf (lay : List Nat) (recs : List (Record α)) : Buffer α :=
  (List.range recs.length).map fun m => (assoc (layoutOr lay recs.length) recs m).getD []

theorem alloc_eq (s : State α) (w : String) (ty : VTy) (sh lay : List Nat) (recs : List (Record α)) :
    alloc s w ty sh lay recs =
      ⟨s.heap ++ [freshBuf lay recs], bind s.env w ⟨s.heap.length, layoutOr lay recs.length, ty, sh⟩⟩ := rfl

/-- the fresh array shows exactly the records it was allocated for, in their order, whatever the memory layout -/
theorem sees_fresh (h : Heap α) (recs : List (Record α)) (ty : VTy) (sh lay : List Nat) :
    sees (h ++ [freshBuf lay recs]) ⟨h.length, layoutOr lay recs.length, ty, sh⟩ = recs := by
  obtain ⟨h1, h2, h3⟩ := layoutOr_perm lay recs.length
  simp only [sees]
  apply List.ext_getElem
  · simp [h1]
  · intro k hk1 hk2
    simp only [List.length_map] at hk1
    have hlt : (layoutOr lay recs.length)[k] < recs.length := h3 _ (List.getElem_mem hk1)
    simp only [List.getElem_map, rowAt, List.getElem?_append_right (Nat.le_refl _), Nat.sub_self, List.getElem?_cons_zero,
      Option.getD_some, freshBuf, List.getElem?_map, List.getElem?_range hlt, Option.map_some]
    rw [assoc_getElem _ recs h2 h1 k hk1]
    rfl

theorem freshBuf_row (lay : List Nat) (recs : List (Record α)) (i : Nat) (hi : i ∈ layoutOr lay recs.length) :
    ((freshBuf lay recs)[i]?).getD [] ∈ recs := by
  obtain ⟨h1, h2, h3⟩ := layoutOr_perm lay recs.length
  obtain ⟨k, hk, rfl⟩ := List.getElem_of_mem hi
  have hlt : (layoutOr lay recs.length)[k] < recs.length := h3 _ (List.getElem_mem hk)
  simp only [freshBuf, List.getElem?_map, List.getElem?_range hlt, Option.map_some, Option.getD_some]
  rw [assoc_getElem _ recs h2 h1 k hk]
  exact List.getElem_mem _

/-! ### the shape of the effect of every operation -/

/-- the rows of its target's index map a writing operation addresses -/
def addressed (s : State α) : Op α → List Nat
  | .setName v _ _ => match find v s.env with
    | some r => r.idx
    | none => []
  | .setSlice v lo hi _ => match find v s.env with
    | some r => sliceRows r (some lo) (some hi)
    | none => []
  | .setElems v lo hi _ _ _ => match find v s.env with
    | some r => sliceRows r lo hi
    | none => []
  | .imap v _ => match find v s.env with
    | some r => r.idx
    | none => []
  | .izip v _ _ => match find v s.env with
    | some r => r.idx
    | none => []
  | _ => []

/-- what `eval` can answer for an operation: nothing; a view of an existing variable's buffer with that variable's type,
bound to the operation's target; a fresh buffer bound to the target; column writes into the buffer of the variable written
through, at the addressed rows; such writes followed by the rebinding of that variable to a fresh buffer (in-place
arithmetic); an unbinding of the target -/
inductive Shape (s : State α) (op : Op α) : Eff α → Prop
  | none : Shape s op .none
  | view (w v : String) (rv r : Ref) : op.target = some w → op.writeVar = none → find v s.env = some rv →
      r.buf = rv.buf → r.ty = rv.ty → (∃ ps, r.idx = pick rv.idx ps) → Shape s op (.bindView w r)
  | fresh (w : String) (ty : VTy) (sh lay : List Nat) (recs : List (Record α)) : op.target = some w → op.writeVar = none →
      Shape s op (.bindFresh w ty sh lay recs)
  | writes (v : String) (r : Ref) (ws : List (Nat × List α)) : op.writeVar = some v →
      find v s.env = some r → Shape s op (.writes r.buf (addressed s op) ws)
  | writesFresh (v : String) (r : Ref) (ws : List (Nat × List α)) (ty : VTy) (sh : List Nat) (recs : List (Record α)) :
      op.writeVar = some v → op.target = some v → find v s.env = some r →
      Shape s op (.writesFresh r.buf (addressed s op) ws v ty sh recs)
  | del (v : String) : op.target = some v → op.writeVar = none → Shape s op (.del v)

theorem assignRows_shape (s : State α) (rt : Ref) (tlo thi : Option Int) (rs : Ref) (slo shi : Option Int) :
    (assignRows s rt tlo thi rs slo shi).1 = .none ∨
      ∃ ws, (assignRows s rt tlo thi rs slo shi).1 = .writes rt.buf (sliceRows rt tlo thi) ws := by
  unfold assignRows
  split
  · dsimp only
    split
    · right; exact ⟨_, rfl⟩
    · left; rfl
  · left; rfl

/-- the column writes of in-place arithmetic: for the dtype names before the first extra field, in order -/
def inplaceWs (r : Ref) (cols : Nat → List α) : List (Nat × List α) :=
  (List.range (coordPrefix r.ty)).map fun p => (p, cols p)

theorem inplace_shape (v : String) (r : Ref) (cols : Nat → List α) (res : List (Record α)) :
    (∃ sh, (inplace v r cols res) =
        (.writesFresh r.buf r.idx (inplaceWs r cols) v ⟨r.ty.mom, r.ty.coords⟩ sh res, .ok)) ∨
      (inplace v r cols res) = (.writes r.buf r.idx (inplaceWs r cols), .err .ValueError) := by
  unfold inplace inplaceWs
  dsimp only
  split
  · left; exact ⟨_, rfl⟩
  · right; rfl

theorem eval_shape (s : State α) (op : Op α) : Shape s op (eval s op).1 := by
  cases op with
  | new v ty sh recs =>
    simp only [eval]
    split
    · exact .fresh v ty _ _ recs rfl rfl
    · exact .none
  | slice v w lo hi stp =>
    simp only [eval, withVar]
    split
    · exact .none
    · rename_i r hr
      split
      · exact .none
      · split
        · exact .none
        · exact .view w v r _ rfl rfl hr rfl rfl ⟨_, rfl⟩
  | view v w =>
    simp only [eval, withVar]
    split
    · exact .none
    · rename_i r hr
      exact .view w v r r rfl rfl hr rfl rfl ⟨_, (pick_range r.idx).symm⟩
  | mask v w bits =>
    simp only [eval, withVar]
    split
    · exact .none
    · split
      · exact .none
      · split
        · exact .fresh w _ _ _ _ rfl rfl
        · exact .none
  | fancy v w idxs =>
    simp only [eval, withVar]
    split
    · exact .none
    · split
      · exact .none
      · split
        · exact .none
        · exact .fresh w _ _ _ _ rfl rfl
  | copy v w =>
    simp only [eval, withVar]
    split
    · exact .none
    · exact .fresh w _ _ _ _ rfl rfl
  | deepcopy v w =>
    simp only [eval, withVar]
    split
    · exact .none
    · exact .fresh w _ _ _ _ rfl rfl
  | pickle v w =>
    simp only [eval, withVar]
    split
    · exact .none
    · exact .fresh w _ _ _ _ rfl rfl
  | reshape v w dims =>
    simp only [eval, withVar]
    split
    · exact .none
    · rename_i r hr
      split
      · exact .none
      · split
        · exact .view w v r _ rfl rfl hr rfl rfl ⟨_, (pick_range r.idx).symm⟩
        · exact .fresh w _ _ _ _ rfl rfl
  | transpose v w =>
    simp only [eval, withVar]
    split
    · exact .none
    · rename_i r hr
      exact .view w v r _ rfl rfl hr rfl rfl ⟨_, rfl⟩
  | sub v w is ell =>
    simp only [eval, withVar]
    split
    · exact .none
    · rename_i r hr
      split
      · exact .none
      · split
        · exact .none
        · exact .view w v r _ rfl rfl hr rfl rfl ⟨_, rfl⟩
  | intIndex v i =>
    simp only [eval, withVar]
    split
    · exact .none
    · split
      · exact .none
      · split <;> exact .none
  | getName v name =>
    simp only [eval, withVar]
    split
    · exact .none
    · split <;> exact .none
  | setName v name vals =>
    simp only [eval, withVar]
    split
    · exact .none
    · rename_i r hr
      split
      · exact .none
      · split
        · exact .none
        · rename_i _ p _ _ vs _
          have := Shape.writes (s := s) (op := .setName v name vals) v r [(p, vs)] rfl hr
          simpa [addressed, hr] using this
  | setSlice v lo hi srcLo =>
    simp only [eval, withVar]
    split
    · exact .none
    · rename_i r hr
      rcases assignRows_shape s r (some lo) (some hi) r (some srcLo) (some (srcLo + (hi - lo))) with h | ⟨ws, h⟩
      · rw [h]; exact .none
      · rw [h]
        have := Shape.writes (s := s) (op := .setSlice v lo hi srcLo) v r ws rfl hr
        simpa [addressed, hr] using this
  | setElems v lo hi w slo shi =>
    simp only [eval, withVar]
    split
    · exact .none
    · rename_i r hr
      split
      · exact .none
      · rename_i rs hrs
        rcases assignRows_shape s r lo hi rs slo shi with h | ⟨ws, h⟩
        · rw [h]; exact .none
        · rw [h]
          have := Shape.writes (s := s) (op := .setElems v lo hi w slo shi) v r ws rfl hr
          simpa [addressed, hr] using this
  | imap v f =>
    simp only [eval, withVar]
    split
    · exact .none
    · rename_i r hr
      have haddr : addressed s (.imap v f) = r.idx := by simp [addressed, hr]
      split
      · rcases inplace_shape v r (fun p => ((sees s.heap r).filterMap (·[p]?)).map f)
          ((sees s.heap r).map fun rec => (coordsOf r.ty rec).map f) with ⟨sh, h⟩ | h
        · rw [h, ← haddr]
          exact .writesFresh v r _ _ _ _ rfl rfl hr
        · rw [h, ← haddr]
          exact .writes v r _ rfl hr
      · exact .none
  | izip v w g =>
    simp only [eval, withVar]
    split
    · exact .none
    · rename_i r hr
      have haddr : addressed s (.izip v w g) = r.idx := by simp [addressed, hr]
      split
      · exact .none
      · rename_i rw hrw
        split
        · rcases inplace_shape v r
            (fun p => List.zipWith g ((sees s.heap r).filterMap (·[p]?))
              ((sees s.heap rw).filterMap fun rec => (pos (r.ty.fields[p]?.getD "") rw.ty.fields).bind (rec[·]?)))
            (List.zipWith (fun a b => List.zipWith g (coordsOf r.ty a) (coordsOf rw.ty b)) (sees s.heap r) (sees s.heap rw))
            with ⟨sh, h⟩ | h
          · rw [h, ← haddr]
            exact .writesFresh v r _ _ _ _ rfl rfl hr
          · rw [h, ← haddr]
            exact .writes v r _ rfl hr
        · exact .none
  | del v =>
    simp only [eval, withVar]
    split
    · exact .none
    · exact .del v rfl rfl
  | dump => exact .none

/-! ### one step: environment and heap -/

/-- an operation changes the binding of its target only -/
theorem find_step (s : State α) (op : Op α) (x : String) (h : op.target ≠ some x) :
    find x (step s op).1.env = find x s.env := by
  have hs := eval_shape s op
  simp only [step]
  generalize (eval s op).1 = eff at hs
  cases hs with
  | none => rfl
  | view w v rv r ht _ _ _ _ _ =>
    have : ¬ w = x := fun hw => h (hw ▸ ht)
    simp [apply, find_bind, this]
  | fresh w ty sh lay recs ht _ =>
    have : ¬ w = x := fun hw => h (hw ▸ ht)
    simp [apply, alloc_eq, find_bind, this]
  | writes v r ws _ _ => rfl
  | writesFresh v r ws ty sh recs _ ht _ =>
    have : ¬ v = x := fun hw => h (hw ▸ ht)
    simp [apply, alloc_eq, find_bind, this]
  | del v ht _ =>
    have : ¬ x = v := fun hw => h (hw ▸ ht)
    simp [apply, find_unbind, this]

/-- the heap only grows -/
theorem heap_step_length (s : State α) (op : Op α) : s.heap.length ≤ (step s op).1.heap.length := by
  have hs := eval_shape s op
  simp only [step]
  generalize (eval s op).1 = eff at hs
  cases hs <;> simp [apply, alloc_eq, writeCols_length]

/-- a buffer changes only under an operation that writes into it -/
theorem heap_step_other (s : State α) (op : Op α) (b : Nat) (hb : b < s.heap.length) (hw : writeBuf s op ≠ some b) :
    (step s op).1.heap[b]? = s.heap[b]? := by
  have hs := eval_shape s op
  simp only [step]
  generalize (eval s op).1 = eff at hs
  cases hs with
  | none => rfl
  | view w v rv r _ _ _ _ _ _ => rfl
  | fresh w ty sh lay recs _ _ => simp [apply, alloc_eq, List.getElem?_append_left hb]
  | writes v r ws hv hr =>
    have : b ≠ r.buf := by
      intro h
      apply hw
      simp [writeBuf, hv, hr, h]
    simp [apply, writeCols_other _ _ _ _ _ this]
  | writesFresh v r ws ty sh recs hv _ hr =>
    have : b ≠ r.buf := by
      intro h
      apply hw
      simp [writeBuf, hv, hr, h]
    simp only [apply, alloc_eq]
    rw [List.getElem?_append_left (by rw [writeCols_length]; exact hb)]
    exact writeCols_other _ _ _ _ _ this
  | del v _ _ => rfl

/-- every variable points into the heap -/
def WF (s : State α) : Prop := ∀ x r, find x s.env = some r → r.buf < s.heap.length

theorem wf_empty : WF (State.empty : State α) := by
  intro x r h
  simp [State.empty, find] at h

theorem wf_step (s : State α) (op : Op α) (hwf : WF s) : WF (step s op).1 := by
  have hs := eval_shape s op
  simp only [step]
  generalize (eval s op).1 = eff at hs
  cases hs with
  | none => exact hwf
  | view w v rv r _ _ hv hb _ _ =>
    intro x r' hx
    simp only [apply, find_bind] at hx
    split at hx
    · cases hx; rw [hb]; exact hwf v rv hv
    · exact hwf x r' hx
  | fresh w ty sh lay recs _ _ =>
    intro x r' hx
    simp only [apply, alloc_eq, find_bind] at hx
    simp only [apply, alloc_eq, List.length_append, List.length_singleton]
    split at hx
    · cases hx; simp
    · exact Nat.lt_succ_of_lt (hwf x r' hx)
  | writes v r ws _ _ =>
    intro x r' hx
    simp only [apply, writeCols_length]
    exact hwf x r' hx
  | writesFresh v r ws ty sh recs _ _ _ =>
    intro x r' hx
    simp only [apply, alloc_eq, find_bind] at hx
    simp only [apply, alloc_eq, List.length_append, List.length_singleton, writeCols_length]
    split at hx
    · cases hx; simp [writeCols_length]
    · exact Nat.lt_succ_of_lt (hwf x r' hx)
  | del v _ _ =>
    intro x r' hx
    simp only [apply, find_unbind] at hx
    split at hx
    · cases hx
    · exact hwf x r' hx

theorem run_cons (s : State α) (op : Op α) (ops : List (Op α)) : run s (op :: ops) = run (step s op).1 ops := rfl

theorem wf_run (s : State α) (ops : List (Op α)) (hwf : WF s) : WF (run s ops) := by
  induction ops generalizing s with
  | nil => exact hwf
  | cons op ops ih => rw [run_cons]; exact ih _ (wf_step s op hwf)

/-! ### what a variable shows -/

/-- the records variable `v` shows in state `s` (C order of its shape) -/
def seen (s : State α) (v : String) : List (Record α) :=
  match find v s.env with
  | some r => sees s.heap r
  | none => []

/-- the operations that produce an array `w` from an array `v` -/
def Op.produces : Op α → Option (String × String)
  | .slice v w _ _ _ => some (v, w)
  | .mask v w _ => some (v, w)
  | .fancy v w _ => some (v, w)
  | .view v w => some (v, w)
  | .copy v w => some (v, w)
  | .deepcopy v w => some (v, w)
  | .pickle v w => some (v, w)
  | .reshape v w _ => some (v, w)
  | .transpose v w => some (v, w)
  | .sub v w _ _ => some (v, w)
  | _ => none

/-- the operations whose result is ALWAYS a COPY: `v.copy()`, `copy.deepcopy(v)`, a pickle round trip, `v[mask]`, `v[[i, j]]`
(`reshape` copies only when the rows are not strided under the new shape: `c19h_reshape_copy_detached`) -/
def Op.copies : Op α → Option (String × String)
  | .mask v w _ => some (v, w)
  | .fancy v w _ => some (v, w)
  | .copy v w => some (v, w)
  | .deepcopy v w => some (v, w)
  | .pickle v w => some (v, w)
  | _ => none

/-! ### C19: views, slices, transposes, sub-arrays and (strided) reshapes ALIAS their source -/

/-- `w` shows rows `idx` of what `v` shows, out of the same buffer, with the same vector type -/
def Aliased (s : State α) (v w : String) (idx : List Nat) : Prop :=
  ∃ rv rw, find v s.env = some rv ∧ find w s.env = some rw ∧ rw.buf = rv.buf ∧ rw.ty = rv.ty ∧ rw.idx = pick rv.idx idx

/-- reads through an alias are the reindexing of the reads through the source — in whatever state the heap is -/
theorem c19h_alias_reads {s : State α} {v w : String} {idx : List Nat} (h : Aliased s v w idx) :
    seen s w = pick (seen s v) idx := by
  obtain ⟨rv, rw, hv, hw, hb, _, hi⟩ := h
  simp only [seen, hv, hw, sees, hb, hi, pick_map]

/-- … column by column: what `w[name]` returns is the reindexing of what `v[name]` returns -/
theorem c19h_alias_getName {s : State α} {v w : String} {idx : List Nat} (h : Aliased s v w idx) (name : String)
    (c : List (Option α)) (hc : (step s (.getName v name)).2 = .vals c) :
    (step s (.getName w name)).2 = .vals (pick c idx) := by
  obtain ⟨rv, rw, hv, hw, hb, ht, hi⟩ := h
  simp only [step, eval, withVar, hv, hw, ht] at hc ⊢
  split at hc
  · cases hc
  · rename_i p hp
    cases hc
    simp only [col, sees, hb, hi, pick_map]

theorem getName_vals_length {s : State α} {v : String} {rv : Ref} (hv : find v s.env = some rv) (name : String)
    (c : List (Option α)) (hc : (step s (.getName v name)).2 = .vals c) : c.length = rv.idx.length := by
  simp only [step, eval, withVar, hv] at hc
  split at hc
  · cases hc
  · cases hc; simp [col, sees]

/-- `w = v.view(type(v))` makes `w` an alias of all of `v` -/
theorem c19h_view_intro (s : State α) (v w : String) (rv : Ref) (hvw : v ≠ w) (hv : find v s.env = some rv) :
    Aliased (step s (.view v w)).1 v w (List.range rv.idx.length) := by
  refine ⟨rv, rv, ?_, ?_, rfl, rfl, (pick_range _).symm⟩
  · rw [find_step _ _ _ (by simp [Op.target, hvw.symm])]; exact hv
  · simp [step, eval, withVar, hv, apply, find_bind]

/-- `w = v[lo:hi:stp]` makes `w` an alias of the selected blocks of `v` (first axis; for a 1-d `v` the rows
`range(len(v))[lo:hi:stp]`) -/
theorem c19h_slice_intro (s : State α) (v w : String) (lo hi stp : Option Int) (rv : Ref) (sh ps : List Nat) (hvw : v ≠ w)
    (hv : find v s.env = some rv) (hps : sliceAxis0 rv.shape lo hi stp = some (sh, ps)) :
    Aliased (step s (.slice v w lo hi stp)).1 v w (distinct ps) := by
  have hne : ¬ rv.shape = [] := by intro h; rw [h] at hps; simp [sliceAxis0] at hps
  refine ⟨rv, ⟨rv.buf, pick rv.idx (distinct ps), rv.ty, sh⟩, ?_, ?_, rfl, rfl, rfl⟩
  · rw [find_step _ _ _ (by simp [Op.target, hvw.symm])]; exact hv
  · simp [step, eval, withVar, hv, hps, hne, apply, find_bind]

/-- `w = v.T` makes `w` an alias of `v` with the transposed order of rows -/
theorem c19h_transpose_intro (s : State α) (v w : String) (rv : Ref) (hvw : v ≠ w) (hv : find v s.env = some rv) :
    Aliased (step s (.transpose v w)).1 v w (distinct (transposePs rv.shape)) := by
  refine ⟨rv, ⟨rv.buf, pick rv.idx (distinct (transposePs rv.shape)), rv.ty, rv.shape.reverse⟩, ?_, ?_, rfl, rfl, rfl⟩
  · rw [find_step _ _ _ (by simp [Op.target, hvw.symm])]; exact hv
  · simp [step, eval, withVar, hv, apply, find_bind]

/-- `w = v[i, j]` / `w = v[i, j, ...]` makes `w` an alias of the addressed block of `v` (one row — a 0-d ARRAY — for a full
tuple with Ellipsis) -/
theorem c19h_sub_intro (s : State α) (v w : String) (is : List Int) (ell : Bool) (rv : Ref) (o : Nat) (sh : List Nat)
    (hvw : v ≠ w) (hv : find v s.env = some rv) (ho : tupleOffset rv.shape is = some (o, sh))
    (hell : ¬ (is.length = rv.shape.length ∧ ell = false)) :
    Aliased (step s (.sub v w is ell)).1 v w (distinct ((List.range (prod sh)).map (· + o))) := by
  refine ⟨rv, ⟨rv.buf, pick rv.idx (distinct ((List.range (prod sh)).map (· + o))), rv.ty, sh⟩, ?_, ?_, rfl, rfl, rfl⟩
  · rw [find_step _ _ _ (by simp [Op.target, hvw.symm])]; exact hv
  · simp only [step, eval, withVar, hv, ho, hell, if_false, apply, find_bind, if_true]

/-- `w = v.reshape(dims)` makes `w` an alias of all of `v`, in the same order, when the rows `v` shows are strided under
the new shape -/
theorem c19h_reshape_intro (s : State α) (v w : String) (dims : List Nat) (rv : Ref) (hvw : v ≠ w)
    (hv : find v s.env = some rv) (hd : prod dims = rv.idx.length) (hst : strided dims rv.idx = true) :
    Aliased (step s (.reshape v w dims)).1 v w (List.range rv.idx.length) := by
  refine ⟨rv, ⟨rv.buf, rv.idx, rv.ty, dims⟩, ?_, ?_, rfl, rfl, (pick_range _).symm⟩
  · rw [find_step _ _ _ (by simp [Op.target, hvw.symm])]; exact hv
  · simp [step, eval, withVar, hv, hd, hst, apply, find_bind]

/-- the alias relation survives every operation that does not rebind (or delete) one of the two variables -/
theorem c19h_alias_step {s : State α} {v w : String} {idx : List Nat} (h : Aliased s v w idx) (op : Op α)
    (hv : op.target ≠ some v) (hw : op.target ≠ some w) : Aliased (step s op).1 v w idx := by
  obtain ⟨rv, rw, h1, h2, h3⟩ := h
  exact ⟨rv, rw, by rw [find_step _ _ _ hv]; exact h1, by rw [find_step _ _ _ hw]; exact h2, h3⟩

/-- … hence every history of such operations -/
theorem c19h_alias_run {s : State α} {v w : String} {idx : List Nat} (h : Aliased s v w idx) (ops : List (Op α))
    (hops : ∀ op ∈ ops, op.target ≠ some v ∧ op.target ≠ some w) : Aliased (run s ops) v w idx := by
  induction ops generalizing s with
  | nil => exact h
  | cons op ops ih =>
    rw [run_cons]
    exact ih (c19h_alias_step h op (hops op (List.mem_cons_self ..)).1 (hops op (List.mem_cons_self ..)).2)
      (fun o ho => hops o (List.mem_cons_of_mem _ ho))

/-- an alias, for ever: in every later state reached without rebinding `v` or `w`, `w` shows the reindexing of what `v`
shows, record by record and column by column -/
theorem c19h_alias_forever {s : State α} {v w : String} {idx : List Nat} (h : Aliased s v w idx) (ops : List (Op α))
    (hops : ∀ op ∈ ops, op.target ≠ some v ∧ op.target ≠ some w) :
    let s' := run s ops
    seen s' w = pick (seen s' v) idx ∧
      ∀ name c, (step s' (.getName v name)).2 = .vals c → (step s' (.getName w name)).2 = .vals (pick c idx) := by
  have hal := c19h_alias_run h ops hops
  exact ⟨c19h_alias_reads hal, fun name c hc => c19h_alias_getName hal name c hc⟩

/-- **C19, aliasing.**  After `w = v.view(type(v))` or `w = v[lo:hi:stp]`, in EVERY later state reached by operations that
do not rebind `v` or `w` — name assignments and slice assignments through `v`, through `w`, through any other alias,
in-place arithmetic through any OTHER alias — the records `w` shows are the reindexing of the records `v` shows, and so is
every named column. -/
theorem c19h_view_alias (s : State α) (v w : String) (rv : Ref) (hvw : v ≠ w) (hv : find v s.env = some rv)
    (ops : List (Op α)) (hops : ∀ op ∈ ops, op.target ≠ some v ∧ op.target ≠ some w) :
    (let s' := run (step s (.view v w)).1 ops
     seen s' w = seen s' v ∧
       ∀ name c, (step s' (.getName v name)).2 = .vals c → (step s' (.getName w name)).2 = .vals c) ∧
    (∀ lo hi stp sh ps, sliceAxis0 rv.shape lo hi stp = some (sh, ps) →
      let s' := run (step s (.slice v w lo hi stp)).1 ops
      seen s' w = pick (seen s' v) (distinct ps) ∧
        ∀ name c, (step s' (.getName v name)).2 = .vals c →
          (step s' (.getName w name)).2 = .vals (pick c (distinct ps))) := by
  constructor
  · have h := c19h_alias_run (c19h_view_intro s v w rv hvw hv) ops hops
    have hlen : ∀ s' : State α, find v s'.env = some rv → (seen s' v).length = rv.idx.length := by
      intro s' h'; simp [seen, h', sees]
    obtain ⟨rv', rw', h1, h2, h3, h4, h5⟩ := h
    have hrv : rv' = rv := by
      have h0 : find v (step s (.view v w)).1.env = some rv := by
        rw [find_step _ _ _ (by simp [Op.target, hvw.symm])]; exact hv
      have hrun : ∀ (ops : List (Op α)) (s0 : State α), (∀ op ∈ ops, op.target ≠ some v) → find v s0.env = some rv →
          find v (run s0 ops).env = some rv := by
        intro ops
        induction ops with
        | nil => intro s0 _ h; exact h
        | cons op ops ih =>
          intro s0 ho h
          rw [run_cons]
          apply ih _ (fun o hm => ho o (List.mem_cons_of_mem _ hm))
          rw [find_step _ _ _ (ho op (List.mem_cons_self ..))]; exact h
      have := hrun ops _ (fun o ho => (hops o ho).1) h0
      rw [h1] at this; cases this; rfl
    subst hrv
    have hal : Aliased (run (step s (.view v w)).1 ops) v w (List.range rv'.idx.length) := ⟨rv', rw', h1, h2, h3, h4, h5⟩
    refine ⟨?_, ?_⟩
    · rw [c19h_alias_reads hal]
      have := hlen _ h1
      rw [← this, pick_range]
    · intro name c hc
      rw [c19h_alias_getName hal name c hc]
      rw [← getName_vals_length h1 name c hc, pick_range]
  · intro lo hi stp sh ps hps
    exact c19h_alias_forever (c19h_slice_intro s v w lo hi stp rv sh ps hvw hv hps) ops hops

/-- **C19, aliasing, n-dimensional.**  The same for `w = v.T`, for `w = v[i, j]` / `w = v[i, j, ...]` (sub-array views and
0-d views) and for `w = v.reshape(dims)` whenever NumPy can reshape without copying: `w` keeps showing the transposed rows /
the addressed block / all rows of `v`, through every later write. -/
theorem c19h_view_alias_nd (s : State α) (v w : String) (rv : Ref) (hvw : v ≠ w) (hv : find v s.env = some rv)
    (ops : List (Op α)) (hops : ∀ op ∈ ops, op.target ≠ some v ∧ op.target ≠ some w) :
    (let s' := run (step s (.transpose v w)).1 ops
     seen s' w = pick (seen s' v) (distinct (transposePs rv.shape))) ∧
    (∀ is ell o sh, tupleOffset rv.shape is = some (o, sh) → ¬ (is.length = rv.shape.length ∧ ell = false) →
      let s' := run (step s (.sub v w is ell)).1 ops
      seen s' w = pick (seen s' v) (distinct ((List.range (prod sh)).map (· + o)))) ∧
    (∀ dims, prod dims = rv.idx.length → strided dims rv.idx = true →
      let s' := run (step s (.reshape v w dims)).1 ops
      seen s' w = pick (seen s' v) (List.range rv.idx.length)) :=
  ⟨(c19h_alias_forever (c19h_transpose_intro s v w rv hvw hv) ops hops).1,
   fun is ell o sh ho hell => (c19h_alias_forever (c19h_sub_intro s v w is ell rv o sh hvw hv ho hell) ops hops).1,
   fun dims hd hst => (c19h_alias_forever (c19h_reshape_intro s v w dims rv hvw hv hd hst) ops hops).1⟩

/-- in particular: a write (name assignment, slice assignment) through EITHER variable — or through any third alias — is
seen through the other at the corresponding positions, because such writing operations rebind nothing -/
theorem c19h_view_alias_write {s : State α} {v w : String} {idx : List Nat} (h : Aliased s v w idx) (op : Op α)
    (hop : op.target = none) :
    Aliased (step s op).1 v w idx ∧ seen (step s op).1 w = pick (seen (step s op).1 v) idx := by
  have := c19h_alias_step h op (by simp [hop]) (by simp [hop])
  exact ⟨this, c19h_alias_reads this⟩

/-! ### C19: copies are DETACHED -/

/-- no operation of the history writes into buffer `b` (the buffer an operation writes into is the buffer of the variable
it writes through, IN THE STATE it is executed in) -/
def Quiet (b : Nat) : State α → List (Op α) → Prop
  | _, [] => True
  | s, op :: ops => writeBuf s op ≠ some b ∧ Quiet b (step s op).1 ops

/-- a buffer no operation writes into keeps its contents, whatever else happens -/
theorem c19h_quiet_buffer (b : Nat) (s : State α) (ops : List (Op α)) (hb : b < s.heap.length) (hq : Quiet b s ops) :
    (run s ops).heap[b]? = s.heap[b]? := by
  induction ops generalizing s with
  | nil => rfl
  | cons op ops ih =>
    rw [run_cons, ih _ (Nat.lt_of_lt_of_le hb (heap_step_length s op)) hq.2, heap_step_other s op b hb hq.1]

/-- a variable that is not rebound, over a buffer nobody writes into, shows the same records for ever -/
theorem c19h_quiet_seen (x : String) (r : Ref) (s : State α) (ops : List (Op α)) (hx : find x s.env = some r)
    (hb : r.buf < s.heap.length) (hops : ∀ op ∈ ops, op.target ≠ some x) (hq : Quiet r.buf s ops) :
    find x (run s ops).env = some r ∧ seen (run s ops) x = seen s x := by
  have hf : find x (run s ops).env = some r := by
    induction ops generalizing s with
    | nil => exact hx
    | cons op ops ih =>
      rw [run_cons]
      exact ih _ (by rw [find_step _ _ _ (hops op (List.mem_cons_self ..))]; exact hx)
        (Nat.lt_of_lt_of_le hb (heap_step_length s op)) (fun o ho => hops o (List.mem_cons_of_mem _ ho)) hq.2
  refine ⟨hf, ?_⟩
  simp only [seen, hf, hx]
  exact sees_congr _ _ _ (c19h_quiet_buffer _ _ _ hb hq)

theorem copies_eval (s : State α) (op : Op α) (v w : String) (hop : op.copies = some (v, w))
    (hok : (step s op).2 = .ok) : ∃ ty sh lay recs, (eval s op).1 = .bindFresh w ty sh lay recs := by
  simp only [step] at hok
  cases op <;> simp only [Op.copies, Option.some.injEq, Prod.mk.injEq, reduceCtorEq] at hop
  case mask v' w' bits =>
    obtain ⟨rfl, rfl⟩ := hop
    simp only [eval, withVar] at hok ⊢
    cases hf : find v' s.env with
    | none => simp [hf] at hok
    | some rv =>
      simp only [hf] at hok ⊢
      by_cases h1 : rv.shape.length ≠ 1
      · simp [h1] at hok
      · by_cases hm : bits.length = rv.idx.length ∨ bits = []
        · simp only [h1, hm, if_false, if_true]; exact ⟨_, _, _, _, rfl⟩
        · simp [h1, hm] at hok
  case fancy v' w' idxs =>
    obtain ⟨rfl, rfl⟩ := hop
    simp only [eval, withVar] at hok ⊢
    cases hf : find v' s.env with
    | none => simp [hf] at hok
    | some rv =>
      simp only [hf] at hok ⊢
      by_cases h1 : rv.shape.length ≠ 1
      · simp [h1] at hok
      · cases hn : normIdxs idxs rv.idx.length with
        | none => simp [h1, hn] at hok
        | some ps => simp only [h1, if_false]; exact ⟨_, _, _, _, rfl⟩
  case copy v' w' =>
    obtain ⟨rfl, rfl⟩ := hop
    simp only [eval, withVar] at hok ⊢
    cases hf : find v' s.env with
    | none => simp [hf] at hok
    | some rv => exact ⟨_, _, _, _, rfl⟩
  case deepcopy v' w' =>
    obtain ⟨rfl, rfl⟩ := hop
    simp only [eval, withVar] at hok ⊢
    cases hf : find v' s.env with
    | none => simp [hf] at hok
    | some rv => exact ⟨_, _, _, _, rfl⟩
  case pickle v' w' =>
    obtain ⟨rfl, rfl⟩ := hop
    simp only [eval, withVar] at hok ⊢
    cases hf : find v' s.env with
    | none => simp [hf] at hok
    | some rv => exact ⟨_, _, _, _, rfl⟩

/-- whenever an operation allocates (binds its target `w` to a fresh buffer), no other variable, old or new, points into the
new buffer -/
theorem fresh_detached (s : State α) (hwf : WF s) (op : Op α) (w : String) (ty : VTy) (sh lay : List Nat)
    (recs : List (Record α)) (he : (eval s op).1 = .bindFresh w ty sh lay recs) :
    ∃ rw, find w (step s op).1.env = some rw ∧ rw.buf = s.heap.length ∧ rw.buf < (step s op).1.heap.length ∧
      ∀ x r, x ≠ w → find x (step s op).1.env = some r → r.buf ≠ rw.buf ∧ find x s.env = some r := by
  refine ⟨⟨s.heap.length, layoutOr lay recs.length, ty, sh⟩, ?_, rfl, ?_, ?_⟩
  · simp [step, he, apply, alloc_eq, find_bind]
  · simp [step, he, apply, alloc_eq]
  · intro x r hxw hx
    have hx' : find x s.env = some r := by
      have hne : ¬ w = x := fun h => hxw h.symm
      simpa [step, he, apply, alloc_eq, find_bind, hne] using hx
    exact ⟨Nat.ne_of_lt (hwf x r hx'), hx'⟩

/-- the result of a copying operation lives in a FRESH buffer: no other variable, old or new, points into it -/
theorem c19h_copy_fresh (s : State α) (hwf : WF s) (op : Op α) (v w : String) (hop : op.copies = some (v, w))
    (hok : (step s op).2 = .ok) :
    ∃ rw, find w (step s op).1.env = some rw ∧ rw.buf = s.heap.length ∧ rw.buf < (step s op).1.heap.length ∧
      ∀ x r, x ≠ w → find x (step s op).1.env = some r → r.buf ≠ rw.buf ∧ find x s.env = some r := by
  obtain ⟨ty, sh, lay, recs, he⟩ := copies_eval s op v w hop hok
  exact fresh_detached s hwf op w ty sh lay recs he

/-- what being detached means: (1) whatever happens later — as long as `w` is not rebound and no operation writes through
`w` or a later-made alias of `w` — `w` shows what it showed; (2) every other variable keeps showing the same records under
every history that does not rebind it and does not write into ITS buffer -/
theorem detached_of_fresh (s : State α) (hwf : WF s) (op : Op α) (w : String)
    (h : ∃ rw, find w (step s op).1.env = some rw ∧ rw.buf = s.heap.length ∧ rw.buf < (step s op).1.heap.length ∧
      ∀ x r, x ≠ w → find x (step s op).1.env = some r → r.buf ≠ rw.buf ∧ find x s.env = some r) (ops : List (Op α)) :
    let s1 := (step s op).1
    (∃ rw, find w s1.env = some rw ∧
      ((∀ o ∈ ops, o.target ≠ some w) → Quiet rw.buf s1 ops → seen (run s1 ops) w = seen s1 w) ∧
      ∀ u ru, u ≠ w → find u s1.env = some ru → ru.buf ≠ rw.buf) ∧
    ∀ x r, x ≠ w → find x s1.env = some r → (∀ o ∈ ops, o.target ≠ some x) → Quiet r.buf s1 ops →
      seen (run s1 ops) x = seen s1 x := by
  obtain ⟨rw, h1, h2, h3, h4⟩ := h
  refine ⟨⟨rw, h1, ?_, fun u ru hu hf => (h4 u ru hu hf).1⟩, ?_⟩
  · intro ho hq
    exact (c19h_quiet_seen w rw _ ops h1 h3 ho hq).2
  · intro x r hxw hx ho hq
    have hlt : r.buf < (step s op).1.heap.length :=
      Nat.lt_of_lt_of_le (hwf x r (h4 x r hxw hx).2) (heap_step_length s op)
    exact (c19h_quiet_seen x r _ ops hx hlt ho hq).2

/-- **C19, detachment.**  After `w = v.copy()` / `copy.deepcopy(v)` / a pickle round trip / `v[mask]` / `v[[i, j]]`:
(1) whatever happens later — as long as `w` is not rebound and no operation writes through `w` or a later-made alias of `w`
(`Quiet`: in particular every write through `v` or through any alias of `v`, old or new, in-place arithmetic included, is
allowed) — `w` shows what it showed right after the copy;
(2) vice versa, every other variable `x` (in particular `v` and each of its aliases) keeps showing the same records under
every history that does not rebind `x` and does not write into `x`'s buffer — in particular under all writes through `w`. -/
theorem c19h_copy_detached (s : State α) (hwf : WF s) (op : Op α) (v w : String) (hop : op.copies = some (v, w))
    (hok : (step s op).2 = .ok) (ops : List (Op α)) :
    let s1 := (step s op).1
    (∃ rw, find w s1.env = some rw ∧
      ((∀ o ∈ ops, o.target ≠ some w) → Quiet rw.buf s1 ops → seen (run s1 ops) w = seen s1 w) ∧
      ∀ u ru, u ≠ w → find u s1.env = some ru → ru.buf ≠ rw.buf) ∧
    ∀ x r, x ≠ w → find x s1.env = some r → (∀ o ∈ ops, o.target ≠ some x) → Quiet r.buf s1 ops →
      seen (run s1 ops) x = seen s1 x :=
  detached_of_fresh s hwf op w (c19h_copy_fresh s hwf op v w hop hok) ops

/-- … and the same for a `reshape` that has to COPY (the rows `v` shows are not strided under the new shape) -/
theorem c19h_reshape_copy_detached (s : State α) (hwf : WF s) (v w : String) (dims : List Nat) (rv : Ref)
    (hv : find v s.env = some rv) (hd : prod dims = rv.idx.length) (hst : strided dims rv.idx = false) (ops : List (Op α)) :
    let s1 := (step s (.reshape v w dims)).1
    (∃ rw, find w s1.env = some rw ∧
      ((∀ o ∈ ops, o.target ≠ some w) → Quiet rw.buf s1 ops → seen (run s1 ops) w = seen s1 w) ∧
      ∀ u ru, u ≠ w → find u s1.env = some ru → ru.buf ≠ rw.buf) ∧
    ∀ x r, x ≠ w → find x s1.env = some r → (∀ o ∈ ops, o.target ≠ some x) → Quiet r.buf s1 ops →
      seen (run s1 ops) x = seen s1 x :=
  detached_of_fresh s hwf _ w (fresh_detached s hwf _ w rv.ty dims (List.range rv.idx.length) (sees s.heap rv)
    (by simp [eval, withVar, hv, hd, hst])) ops

/-- one step, stated with the variables: a write through `u` — `v` itself or any alias of `v` (same buffer), a name or slice
assignment or in-place arithmetic — does not change what a variable over ANOTHER buffer shows -/
theorem c19h_detached_write (s : State α) (u w : String) (ru rw : Ref) (op : Op α) (hu : find u s.env = some ru)
    (hw : find w s.env = some rw) (hne : ru.buf ≠ rw.buf) (hlt : rw.buf < s.heap.length) (hop : op.writeVar = some u) :
    seen (step s op).1 w = seen s w := by
  have hq : Quiet rw.buf s [op] := ⟨by simp [writeBuf, hop, hu, hne], trivial⟩
  have huw : u ≠ w := by
    intro h; subst h; rw [hu] at hw; cases hw; exact hne rfl
  have hw' : op.target ≠ some w := by
    cases op <;> simp [Op.writeVar] at hop <;> simp [Op.target] <;> (subst hop; exact huw)
  exact (c19h_quiet_seen w rw s [op] hw hlt (by intro o ho; simp at ho; subst ho; exact hw') hq).2

/-! ### C19: the vector type is preserved -/

/-- what the array-producing operations answer: with the source bound to `rv`, either an error and NO effect at all, or the
target is bound to an array of `rv`'s vector type showing a reindexing of what the source shows -/
theorem produces_eval (s : State α) (op : Op α) (v w : String) (hop : op.produces = some (v, w)) :
    (∃ e, eval s op = (.none, .err e)) ∨
      ∃ rv r, find v s.env = some rv ∧ (eval s op).2 = .ok ∧ r.ty = rv.ty ∧
        find w (step s op).1.env = some r ∧ ∃ ps, sees (step s op).1.heap r = pick (sees s.heap rv) ps := by
  have fresh : ∀ (rv : Ref) (ps sh lay : List Nat), find v s.env = some rv →
      eval s op = (.bindFresh w rv.ty sh lay (pick (sees s.heap rv) ps), .ok) →
      ∃ rv r, find v s.env = some rv ∧ (eval s op).2 = .ok ∧ r.ty = rv.ty ∧
        find w (step s op).1.env = some r ∧ ∃ ps, sees (step s op).1.heap r = pick (sees s.heap rv) ps := by
    intro rv ps sh lay hv he
    refine ⟨rv, ⟨s.heap.length, layoutOr lay (pick (sees s.heap rv) ps).length, rv.ty, sh⟩, hv, by rw [he], rfl,
      by simp [step, he, apply, alloc_eq, find_bind], ps, ?_⟩
    simp only [step, he, apply, alloc_eq]
    exact sees_fresh ..
  have fresh' : ∀ (rv : Ref) (sh lay : List Nat), find v s.env = some rv →
      eval s op = (.bindFresh w rv.ty sh lay (sees s.heap rv), .ok) →
      ∃ rv r, find v s.env = some rv ∧ (eval s op).2 = .ok ∧ r.ty = rv.ty ∧
        find w (step s op).1.env = some r ∧ ∃ ps, sees (step s op).1.heap r = pick (sees s.heap rv) ps := by
    intro rv sh lay hv he
    apply fresh rv (List.range (sees s.heap rv).length) sh lay hv
    rw [pick_range]; exact he
  have view : ∀ (rv : Ref) (ps sh : List Nat), find v s.env = some rv →
      eval s op = (.bindView w ⟨rv.buf, pick rv.idx ps, rv.ty, sh⟩, .ok) →
      ∃ rv r, find v s.env = some rv ∧ (eval s op).2 = .ok ∧ r.ty = rv.ty ∧
        find w (step s op).1.env = some r ∧ ∃ ps, sees (step s op).1.heap r = pick (sees s.heap rv) ps := by
    intro rv ps sh hv he
    refine ⟨rv, ⟨rv.buf, pick rv.idx ps, rv.ty, sh⟩, hv, by rw [he], rfl, by simp [step, he, apply, find_bind], ps, ?_⟩
    simp [step, he, apply, sees, pick_map]
  cases op <;> simp only [Op.produces, Option.some.injEq, Prod.mk.injEq, reduceCtorEq] at hop
  case slice v' w' lo hi stp =>
    obtain ⟨rfl, rfl⟩ := hop
    cases hf : find v' s.env with
    | none => left; exact ⟨.NameError, by simp [eval, withVar, hf]⟩
    | some rv =>
      by_cases h0 : rv.shape = []
      · left; exact ⟨.IndexError, by simp [eval, withVar, hf, h0]⟩
      · cases hp : sliceAxis0 rv.shape lo hi stp with
        | none => left; exact ⟨.ValueError, by simp [eval, withVar, hf, hp, h0]⟩
        | some q =>
          obtain ⟨sh, ps⟩ := q
          right
          have h := view rv (distinct ps) sh hf (by simp [eval, withVar, hf, hp, h0])
          rwa [hf] at h
  case view v' w' =>
    obtain ⟨rfl, rfl⟩ := hop
    cases hf : find v' s.env with
    | none => left; exact ⟨.NameError, by simp [eval, withVar, hf]⟩
    | some rv =>
      right
      have h := view rv (List.range rv.idx.length) rv.shape hf (by simp [eval, withVar, hf, pick_range])
      rwa [hf] at h
  case mask v' w' bits =>
    obtain ⟨rfl, rfl⟩ := hop
    cases hf : find v' s.env with
    | none => left; exact ⟨.NameError, by simp [eval, withVar, hf]⟩
    | some rv =>
      by_cases h1 : rv.shape.length ≠ 1
      · left; exact ⟨.Unmodelled, by simp [eval, withVar, hf, h1]⟩
      · by_cases hm : bits.length = rv.idx.length ∨ bits = []
        · right
          have h := fresh rv (maskPos bits 0) [(pick (sees s.heap rv) (maskPos bits 0)).length]
            (List.range (pick (sees s.heap rv) (maskPos bits 0)).length) hf (by simp [eval, withVar, hf, h1, hm])
          rwa [hf] at h
        · left; exact ⟨.IndexError, by simp [eval, withVar, hf, hm, h1]⟩
  case fancy v' w' idxs =>
    obtain ⟨rfl, rfl⟩ := hop
    cases hf : find v' s.env with
    | none => left; exact ⟨.NameError, by simp [eval, withVar, hf]⟩
    | some rv =>
      by_cases h1 : rv.shape.length ≠ 1
      · left; exact ⟨.Unmodelled, by simp [eval, withVar, hf, h1]⟩
      · cases hn : normIdxs idxs rv.idx.length with
        | none => left; exact ⟨.IndexError, by simp [eval, withVar, hf, hn, h1]⟩
        | some ps =>
          right
          have h := fresh rv ps [(pick (sees s.heap rv) ps).length] (List.range (pick (sees s.heap rv) ps).length) hf
            (by simp [eval, withVar, hf, h1, hn])
          rwa [hf] at h
  case copy v' w' =>
    obtain ⟨rfl, rfl⟩ := hop
    cases hf : find v' s.env with
    | none => left; exact ⟨.NameError, by simp [eval, withVar, hf]⟩
    | some rv => right; have h := fresh' rv rv.shape (List.range rv.idx.length) hf (by simp [eval, withVar, hf]); rwa [hf] at h
  case deepcopy v' w' =>
    obtain ⟨rfl, rfl⟩ := hop
    cases hf : find v' s.env with
    | none => left; exact ⟨.NameError, by simp [eval, withVar, hf]⟩
    | some rv => right; have h := fresh' rv rv.shape (kLayout rv.shape rv.idx) hf (by simp [eval, withVar, hf]); rwa [hf] at h
  case pickle v' w' =>
    obtain ⟨rfl, rfl⟩ := hop
    cases hf : find v' s.env with
    | none => left; exact ⟨.NameError, by simp [eval, withVar, hf]⟩
    | some rv => right; have h := fresh' rv rv.shape (pickleLayout rv.shape rv.idx) hf (by simp [eval, withVar, hf]); rwa [hf] at h
  case reshape v' w' dims =>
    obtain ⟨rfl, rfl⟩ := hop
    cases hf : find v' s.env with
    | none => left; exact ⟨.NameError, by simp [eval, withVar, hf]⟩
    | some rv =>
      by_cases hd : prod dims ≠ rv.idx.length
      · left; exact ⟨.ValueError, by simp [eval, withVar, hf, hd]⟩
      · right
        cases hst : strided dims rv.idx with
        | true =>
          have h := view rv (List.range rv.idx.length) dims hf (by simp [eval, withVar, hf, hd, hst, pick_range])
          rwa [hf] at h
        | false =>
          have h := fresh' rv dims (List.range rv.idx.length) hf (by simp [eval, withVar, hf, hd, hst])
          rwa [hf] at h
  case transpose v' w' =>
    obtain ⟨rfl, rfl⟩ := hop
    cases hf : find v' s.env with
    | none => left; exact ⟨.NameError, by simp [eval, withVar, hf]⟩
    | some rv =>
      right
      have h := view rv (distinct (transposePs rv.shape)) rv.shape.reverse hf (by simp [eval, withVar, hf])
      rwa [hf] at h
  case sub v' w' is ell =>
    obtain ⟨rfl, rfl⟩ := hop
    cases hf : find v' s.env with
    | none => left; exact ⟨.NameError, by simp [eval, withVar, hf]⟩
    | some rv =>
      cases ho : tupleOffset rv.shape is with
      | none => left; exact ⟨.IndexError, by simp [eval, withVar, hf, ho]⟩
      | some q =>
        obtain ⟨o, sh⟩ := q
        by_cases hell : is.length = rv.shape.length ∧ ell = false
        · left; exact ⟨.Unmodelled, by simp only [eval, withVar, hf, ho, hell, and_self, if_true]⟩
        · right
          have h := view rv (distinct ((List.range (prod sh)).map (· + o))) sh hf
            (by simp only [eval, withVar, hf, ho, hell, if_false])
          rwa [hf] at h

/-- **C19, type preservation.**  Every operation that produces an array from an array (`slice view copy deepcopy pickle mask
fancy reshape transpose sub`) and succeeds binds its target to an array of the SAME flavor, the same dtype field names IN
THE SAME ORDER (extras included), hence the same coordinate system, dimension and class. -/
theorem c19h_type_preserved (s : State α) (op : Op α) (v w : String) (hop : op.produces = some (v, w))
    (hok : (step s op).2 = .ok) :
    ∃ rv rw, find v s.env = some rv ∧ find w (step s op).1.env = some rw ∧ rw.ty = rv.ty ∧ rw.ty.mom = rv.ty.mom ∧
      rw.ty.fields = rv.ty.fields ∧ rw.ty.coords = rv.ty.coords ∧ rw.ty.dim = rv.ty.dim ∧ rw.ty.tag = rv.ty.tag := by
  rcases produces_eval s op v w hop with ⟨e, he⟩ | ⟨rv, r, h1, _, h3, h4, _⟩
  · simp [step, he] at hok
  · exact ⟨rv, r, h1, h4, h3, by rw [h3], by rw [h3], by rw [h3], by rw [h3], by rw [h3]⟩

/-- … and a FULL integer tuple returns an element of the array's flavor and coordinate system, built from the record at that
position (Python's negative indices included) BY NAME (`coordsOf`; `c19h_intIndex_by_name`); it changes nothing -/
theorem c19h_type_preserved_intIndex (s : State α) (v : String) (is : List Int) (ty : VTy) (cs : Record α)
    (h : (step s (.intIndex v is)).2 = .elem ty cs) :
    (step s (.intIndex v is)).1 = s ∧
      ∃ rv o sh, find v s.env = some rv ∧ ty = rv.ty ∧ ty.objTag = rv.ty.objTag ∧ tupleOffset rv.shape is = some (o, sh) ∧
        is.length = rv.shape.length ∧ cs = coordsOf rv.ty (((seen s v)[o]?).getD []) := by
  simp only [step, eval, withVar] at h ⊢
  cases hf : find v s.env with
  | none => simp [hf] at h
  | some rv =>
    cases ho : tupleOffset rv.shape is with
    | none => simp [hf, ho] at h
    | some q =>
      obtain ⟨o, sh⟩ := q
      by_cases hfull : is.length = rv.shape.length
      · simp only [hf, ho, hfull, if_true, Out.elem.injEq] at h
        refine ⟨by simp [ho, hfull, apply], rv, o, sh, rfl, h.1.symm, by rw [h.1], ho, hfull, ?_⟩
        simp [seen, hf, h.2]
      · simp [hf, ho, hfull] at h

/-- a PARTIAL integer tuple, and a tuple followed by an Ellipsis, is an ARRAY of the same class (never an element) -/
theorem c19h_partial_index_is_array (s : State α) (v : String) (is : List Int) (rv : Ref) (o : Nat) (sh : List Nat)
    (hv : find v s.env = some rv) (ho : tupleOffset rv.shape is = some (o, sh)) :
    (is.length ≠ rv.shape.length → (step s (.intIndex v is)).2 = .arr rv.ty sh) ∧
    ∀ w, (step s (.sub v w is true)).2 = .ok := by
  constructor
  · intro h; simp [step, eval, withVar, hv, ho, h]
  · intro w; simp [step, eval, withVar, hv, ho]

/-! ### C19: the name index is the column -/

theorem pos_eq_none {n : String} {fs : List String} : pos n fs = none ↔ n ∉ fs := by
  induction fs with
  | nil => simp [pos]
  | cons f fs ih =>
    simp only [pos, List.mem_cons, not_or]
    by_cases h : f = n
    · simp [h]
    · have : ¬ n = f := fun h' => h h'.symm
      simp [h, this, ih]

/-- **C19, name index.**  `v[name]` is the column, at the position of the addressed field in the dtype, of the records `v`
shows; the addressed field is `name` itself on a generic array and `_repr_momentum_to_generic[name]` on a momentum array;
nothing changes.  A name addressing no field of the array is a `ValueError`. -/
theorem c19h_getName_column (s : State α) (v name : String) (rv : Ref) (hv : find v s.env = some rv) :
    (step s (.getName v name)).1 = s ∧
    (∀ p, pos (generic rv.ty.mom name) rv.ty.fields = some p →
      (step s (.getName v name)).2 = .vals (col p (seen s v))) ∧
    (generic rv.ty.mom name ∉ rv.ty.fields → (step s (.getName v name)).2 = .err .ValueError) := by
  simp only [step, eval, withVar, hv, seen]
  refine ⟨?_, ?_, ?_⟩
  · split <;> rfl
  · intro p hp; simp [hp]
  · intro h; simp [pos_eq_none.mpr h]

/-- every momentum spelling addresses the geometric field (on momentum arrays) … -/
theorem c19h_getName_synonyms :
    generic true "px" = "x" ∧ generic true "py" = "y" ∧ generic true "pt" = "rho" ∧ generic true "pz" = "z" ∧
    generic true "E" = "t" ∧ generic true "e" = "t" ∧ generic true "energy" = "t" ∧
    generic true "M" = "tau" ∧ generic true "m" = "tau" ∧ generic true "mass" = "tau" ∧
    (∀ n ∈ ["x", "y", "rho", "phi", "z", "theta", "eta", "t", "tau"], generic true n = n) ∧
    ∀ n, generic false n = n := by
  refine ⟨rfl, rfl, rfl, rfl, rfl, rfl, rfl, rfl, rfl, rfl, by decide, fun _ => rfl⟩

/-- … so two spellings of the same field return the same column -/
theorem c19h_getName_spelling (s : State α) (v n1 n2 : String) (rv : Ref) (hv : find v s.env = some rv)
    (h : generic rv.ty.mom n1 = generic rv.ty.mom n2) :
    (step s (.getName v n1)).2 = (step s (.getName v n2)).2 := by
  simp only [step, eval, withVar, hv, h]

/-- on a GENERIC array a momentum spelling is not a name index -/
theorem c19h_getName_generic (s : State α) (v name : String) (rv : Ref) (hv : find v s.env = some rv)
    (hg : rv.ty.mom = false) (hn : name ∉ rv.ty.fields) : (step s (.getName v name)).2 = .err .ValueError := by
  have := (c19h_getName_column s v name rv hv).2.2
  simp only [generic, hg] at this
  exact this hn


/-! ### C16: the frame property -/

theorem mem_pick {β : Type} {l : List β} {ps : List Nat} {x : β} (h : x ∈ pick l ps) : x ∈ l := by
  simp only [pick, List.mem_filterMap] at h
  obtain ⟨i, _, hi⟩ := h
  exact List.mem_of_getElem? hi

theorem mem_sliceRows {r : Ref} {lo hi : Option Int} {i : Nat} (h : i ∈ sliceRows r lo hi) : i ∈ r.idx := by
  unfold sliceRows at h
  split at h
  · exact mem_pick h
  · simp at h

theorem rowAt_append_old (h : Heap α) (recs : Buffer α) (b i : Nat) (hb : b < h.length) :
    rowAt (h ++ [recs]) b i = rowAt h b i := by
  simp [rowAt, List.getElem?_append_left hb]

/-- **C16, non-writing operations** (`new slice view copy deepcopy pickle mask fancy reshape transpose sub intIndex getName
del dump`): the heap is extended at most — every existing buffer keeps its contents — and every variable other than the
operation's target keeps its `Ref`. -/
theorem c19h_frame (s : State α) (op : Op α) (hop : op.writeVar = none) :
    (∃ t, (step s op).1.heap = s.heap ++ t) ∧ (∀ b, b < s.heap.length → (step s op).1.heap[b]? = s.heap[b]?) ∧
      ∀ x, op.target ≠ some x → find x (step s op).1.env = find x s.env := by
  refine ⟨?_, fun b hb => heap_step_other s op b hb (by simp [writeBuf, hop]), fun x hx => find_step s op x hx⟩
  have hs := eval_shape s op
  simp only [step]
  generalize (eval s op).1 = eff at hs
  cases hs with
  | none => exact ⟨[], by simp [apply]⟩
  | view w v rv r _ _ _ _ _ _ => exact ⟨[], by simp [apply]⟩
  | fresh w ty sh lay recs _ _ => exact ⟨[freshBuf lay recs], rfl⟩
  | writes v r ws hv _ => rw [hop] at hv; cases hv
  | writesFresh v r ws ty sh recs hv _ _ => rw [hop] at hv; cases hv
  | del v _ _ => exact ⟨[], by simp [apply]⟩

/-- the pure reads (`v[i, j]`, `v[name]`, `dump`) change nothing at all -/
theorem c19h_frame_reads (s : State α) (op : Op α) (hw : op.writeVar = none) (ht : op.target = none) :
    (step s op).1 = s := by
  have hs := eval_shape s op
  simp only [step]
  generalize (eval s op).1 = eff at hs
  cases hs with
  | none => rfl
  | view w v rv r h _ _ _ _ _ => rw [ht] at h; cases h
  | fresh w ty sh lay recs h _ => rw [ht] at h; cases h
  | writes v r ws hv _ => rw [hw] at hv; cases hv
  | writesFresh v r ws ty sh recs hv _ _ => rw [hw] at hv; cases hv
  | del v h _ => rw [ht] at h; cases h

theorem addressed_mem (s : State α) (op : Op α) (v : String) (hop : op.writeVar = some v) (r : Ref)
    (hr : find v s.env = some r) : ∀ i, i ∈ addressed s op → i ∈ r.idx := by
  intro i hi
  cases op <;> simp only [Op.writeVar, Option.some.injEq, reduceCtorEq] at hop <;> subst hop <;>
    simp only [addressed, hr] at hi
  · exact hi
  · exact mem_sliceRows hi
  · exact mem_sliceRows hi
  · exact hi
  · exact hi

/-- **C16, writing operations that rebind nothing** (`v[name] = …`, `v[lo:hi] = …`): no variable is rebound, no buffer and no
record changes its length, and the only rows that can differ afterwards are the ADDRESSED rows of the buffer of the variable
written through (all rows `v` shows for a name assignment, the rows `v[lo:hi]` shows for a slice assignment) — which are rows
`v` shows.  (In-place arithmetic: `c19h_frame_inplace`.) -/
theorem c19h_frame_write (s : State α) (op : Op α) (v : String) (hop : op.writeVar = some v) (ht : op.target = none) :
    (step s op).1.env = s.env ∧ (step s op).1.heap.length = s.heap.length ∧
    (∀ b : Nat, ((step s op).1.heap[b]?).map List.length = (s.heap[b]?).map List.length) ∧
    (∀ b i, (rowAt (step s op).1.heap b i).length = (rowAt s.heap b i).length) ∧
    (find v s.env = none → (step s op).1 = s) ∧
    ∀ r, find v s.env = some r →
      (∀ b, b ≠ r.buf → (step s op).1.heap[b]? = s.heap[b]?) ∧
      (∀ b i, b ≠ r.buf ∨ i ∉ addressed s op → rowAt (step s op).1.heap b i = rowAt s.heap b i) ∧
      ∀ i, i ∈ addressed s op → i ∈ r.idx := by
  have hs := eval_shape s op
  have haddr := addressed_mem s op v hop
  simp only [step]
  generalize (eval s op).1 = eff at hs
  cases hs with
  | none => exact ⟨rfl, rfl, fun _ => rfl, fun _ _ => rfl, fun _ => rfl, fun r hr => ⟨fun _ _ => rfl, fun _ _ _ => rfl, haddr r hr⟩⟩
  | view w v' rv r _ h _ _ _ _ => rw [hop] at h; cases h
  | fresh w ty sh lay recs _ h => rw [hop] at h; cases h
  | del v' _ h => rw [hop] at h; cases h
  | writesFresh v' r' ws ty sh recs _ h _ => rw [ht] at h; cases h
  | writes v' r' ws hv hr' =>
    rw [hop] at hv
    cases hv
    refine ⟨rfl, writeCols_length .., fun b => writeCols_buflen .., fun b i => rowAt_writeCols_length .., ?_, ?_⟩
    · intro h; rw [hr'] at h; cases h
    · intro r hr
      rw [hr'] at hr
      cases hr
      exact ⟨fun b hb => writeCols_other _ _ _ _ _ hb, fun b i hbi => rowAt_writeCols_row _ _ _ _ _ _ hbi, haddr _ hr'⟩

/-- **C16, every writing operation, in-place arithmetic included** (`v *= k`, `v += w`, `v -= w` write through `v` AND rebind
`v` to a fresh array): only the operation's target is rebound; of the EXISTING buffers only rows `v` shows, in `v`'s buffer,
can differ afterwards; no existing record changes its length. -/
theorem c19h_frame_inplace (s : State α) (op : Op α) (v : String) (r : Ref) (hop : op.writeVar = some v)
    (hr : find v s.env = some r) :
    (∀ x, op.target ≠ some x → find x (step s op).1.env = find x s.env) ∧
    (∀ b i, b < s.heap.length → (b ≠ r.buf ∨ i ∉ addressed s op) → rowAt (step s op).1.heap b i = rowAt s.heap b i) ∧
    (∀ b i, b < s.heap.length → (rowAt (step s op).1.heap b i).length = (rowAt s.heap b i).length) ∧
    ∀ i, i ∈ addressed s op → i ∈ r.idx := by
  refine ⟨fun x hx => find_step s op x hx, ?_, ?_, addressed_mem s op v hop r hr⟩
  · have hs := eval_shape s op
    simp only [step]
    generalize (eval s op).1 = eff at hs
    cases hs with
    | none => intro b i _ _; rfl
    | view w v' rv r' _ h _ _ _ _ => rw [hop] at h; cases h
    | fresh w ty sh lay recs _ h => rw [hop] at h; cases h
    | del v' _ h => rw [hop] at h; cases h
    | writes v' r' ws hv hr' =>
      rw [hop] at hv; cases hv; rw [hr] at hr'; cases hr'
      intro b i _ hbi
      exact rowAt_writeCols_row _ _ _ _ _ _ hbi
    | writesFresh v' r' ws ty sh recs hv _ hr' =>
      rw [hop] at hv; cases hv; rw [hr] at hr'; cases hr'
      intro b i hb hbi
      simp only [apply, alloc_eq]
      rw [rowAt_append_old _ _ _ _ (by rw [writeCols_length]; exact hb)]
      exact rowAt_writeCols_row _ _ _ _ _ _ hbi
  · have hs := eval_shape s op
    simp only [step]
    generalize (eval s op).1 = eff at hs
    cases hs with
    | none => intro b i _; rfl
    | view w v' rv r' _ h _ _ _ _ => rw [hop] at h; cases h
    | fresh w ty sh lay recs _ h => rw [hop] at h; cases h
    | del v' _ h => rw [hop] at h; cases h
    | writes v' r' ws hv hr' => intro b i _; exact rowAt_writeCols_length ..
    | writesFresh v' r' ws ty sh recs hv _ hr' =>
      intro b i hb
      simp only [apply, alloc_eq]
      rw [rowAt_append_old _ _ _ _ (by rw [writeCols_length]; exact hb)]
      exact rowAt_writeCols_length ..

/-- … and a name assignment touches ONE field: every other field of every record is unchanged -/
theorem c19h_frame_setName_field (s : State α) (v name : String) (vals : List α) (rv : Ref) (hv : find v s.env = some rv)
    (b i q : Nat) (hq : pos (generic rv.ty.mom name) rv.ty.fields ≠ some q) :
    (rowAt (step s (.setName v name vals)).1.heap b i)[q]? = (rowAt s.heap b i)[q]? := by
  simp only [step, eval, withVar, hv]
  cases hp : pos (generic rv.ty.mom name) rv.ty.fields with
  | none => rfl
  | some p =>
    cases hb : bcast rv.idx.length vals with
    | none => rfl
    | some vs =>
      simp only [apply]
      apply rowAt_writeCols_field
      intro w hw
      simp only [List.mem_singleton] at hw
      subst hw
      intro h
      apply hq
      rw [hp, ← h]

/-- **C16, failure atomicity.**  Every operation other than a slice assignment and in-place arithmetic that answers with an
exception leaves the state exactly as it was.  (A slice assignment `v[lo:hi] = w[…]` whose right-hand side has a field the
target lacks raises AFTER the earlier fields were written — `c19h_setElems_partial` below; `v *= k` on an array with an extra
field raises after the coordinates standing before that field were scaled — `c19h_inplace_partial`; this is the behaviour of
`_setitem` / `__array_ufunc__`.) -/
theorem c19h_error_no_effect (s : State α) (op : Op α) (e : Err) (herr : (step s op).2 = .err e)
    (hop : ∀ v lo hi srcLo, op ≠ .setSlice v lo hi srcLo) (hop' : ∀ v lo hi w slo shi, op ≠ .setElems v lo hi w slo shi)
    (hop'' : ∀ v f, op ≠ .imap v f) (hop''' : ∀ v w g, op ≠ .izip v w g) :
    (step s op).1 = s := by
  simp only [step] at herr ⊢
  cases op with
  | setSlice v lo hi srcLo => exact absurd rfl (hop v lo hi srcLo)
  | setElems v lo hi w slo shi => exact absurd rfl (hop' v lo hi w slo shi)
  | imap v f => exact absurd rfl (hop'' v f)
  | izip v w g => exact absurd rfl (hop''' v w g)
  | dump => rfl
  | new v ty sh recs =>
    simp only [eval] at herr ⊢
    split at herr
    · cases herr
    · simp [*, apply]
  | slice v w lo hi stp =>
    simp only [eval, withVar] at herr ⊢
    cases hf : find v s.env with
    | none => rfl
    | some rv =>
      by_cases h0 : rv.shape = []
      · simp [h0, apply]
      · cases hp : sliceAxis0 rv.shape lo hi stp <;> simp [hf, hp, h0, apply] at herr ⊢
  | mask v w bits =>
    simp only [eval, withVar] at herr ⊢
    cases hf : find v s.env with
    | none => rfl
    | some rv =>
      by_cases h1 : rv.shape.length ≠ 1
      · simp [h1, apply]
      · by_cases hm : bits.length = rv.idx.length ∨ bits = [] <;> simp [hf, hm, h1, apply] at herr ⊢
  | fancy v w idxs =>
    simp only [eval, withVar] at herr ⊢
    cases hf : find v s.env with
    | none => rfl
    | some rv =>
      by_cases h1 : rv.shape.length ≠ 1
      · simp [h1, apply]
      · cases hp : normIdxs idxs rv.idx.length <;> simp [hf, hp, h1, apply] at herr ⊢
  | view v w => simp only [eval, withVar] at herr ⊢; cases hf : find v s.env <;> simp [hf, apply] at herr ⊢
  | copy v w => simp only [eval, withVar] at herr ⊢; cases hf : find v s.env <;> simp [hf, apply] at herr ⊢
  | deepcopy v w => simp only [eval, withVar] at herr ⊢; cases hf : find v s.env <;> simp [hf, apply] at herr ⊢
  | pickle v w => simp only [eval, withVar] at herr ⊢; cases hf : find v s.env <;> simp [hf, apply] at herr ⊢
  | transpose v w => simp only [eval, withVar] at herr ⊢; cases hf : find v s.env <;> simp [hf, apply] at herr ⊢
  | del v => simp only [eval, withVar] at herr ⊢; cases hf : find v s.env <;> simp [hf, apply] at herr ⊢
  | reshape v w dims =>
    simp only [eval, withVar] at herr ⊢
    cases hf : find v s.env with
    | none => rfl
    | some rv =>
      by_cases hd : prod dims ≠ rv.idx.length
      · simp [hd, apply]
      · cases hst : strided dims rv.idx <;> simp [hf, hd, hst] at herr ⊢
  | sub v w is ell =>
    simp only [eval, withVar] at herr ⊢
    cases hf : find v s.env with
    | none => rfl
    | some rv =>
      cases ho : tupleOffset rv.shape is with
      | none => simp [ho, apply]
      | some q =>
        obtain ⟨o, sh⟩ := q
        by_cases hell : is.length = rv.shape.length ∧ ell = false
        · simp only [ho, hell, and_self, if_true, apply]
        · simp only [hf, ho, hell, if_false] at herr
          cases herr
  | intIndex v i =>
    simp only [eval, withVar] at herr ⊢
    cases hf : find v s.env with
    | none => rfl
    | some rv =>
      cases hp : tupleOffset rv.shape i with
      | none => simp [hp, apply]
      | some q => obtain ⟨o, sh⟩ := q; by_cases hfull : i.length = rv.shape.length <;> simp [hp, hfull, apply]
  | getName v name =>
    simp only [eval, withVar] at herr ⊢
    cases hf : find v s.env with
    | none => rfl
    | some rv => cases hp : pos (generic rv.ty.mom name) rv.ty.fields <;> simp [hp, apply]
  | setName v name vals =>
    simp only [eval, withVar] at herr ⊢
    cases hf : find v s.env with
    | none => rfl
    | some rv =>
      cases hp : pos (generic rv.ty.mom name) rv.ty.fields with
      | none => simp [hp, apply]
      | some p => cases hb : bcast rv.idx.length vals <;> simp [hf, hp, hb, apply] at herr ⊢

/-! ### C19: round trips -/

/-- **C19, round trip.**  `w = v.copy()`, `w = copy.deepcopy(v)` and `w = pickle.loads(pickle.dumps(v))` always succeed on a
live `v`; `w` then shows exactly the records `v` showed, in the same order and with the same SHAPE (whatever the memory
layout of the new buffer), has `v`'s vector type (class, field names in order, extras), and nothing `v` or any other
variable shows has changed. -/
theorem c19h_roundtrip (s : State α) (op : Op α) (v w : String) (rv : Ref) (hv : find v s.env = some rv)
    (hop : op = .copy v w ∨ op = .deepcopy v w ∨ op = .pickle v w) :
    (step s op).2 = .ok ∧
      ∃ rw, find w (step s op).1.env = some rw ∧ rw.ty = rv.ty ∧ rw.shape = rv.shape ∧ rw.buf = s.heap.length ∧
        seen (step s op).1 w = seen s v ∧ ∀ b, b < s.heap.length → (step s op).1.heap[b]? = s.heap[b]? := by
  have h1 : (step s op).2 = .ok ∧ ∃ lay, (eval s op).1 = .bindFresh w rv.ty rv.shape lay (sees s.heap rv) := by
    rcases hop with rfl | rfl | rfl <;> simp [step, eval, withVar, hv]
  obtain ⟨hok, lay, he⟩ := h1
  refine ⟨hok, ⟨s.heap.length, layoutOr lay (sees s.heap rv).length, rv.ty, rv.shape⟩, ?_, rfl, rfl, rfl, ?_, ?_⟩
  · simp [step, he, apply, alloc_eq, find_bind]
  · simp only [seen, step, he, apply, alloc_eq, find_bind, if_true, hv]
    exact sees_fresh ..
  · intro b hb
    simp [step, he, apply, alloc_eq, List.getElem?_append_left hb]

/-- one reshape: it succeeds exactly when the sizes agree, and then `w` shows the records `v` shows, in the same (C) order,
with the new shape and `v`'s vector type — whether NumPy makes a view or has to copy -/
theorem reshape_sees (s : State α) (v w : String) (dims : List Nat) (rv : Ref) (hv : find v s.env = some rv)
    (hd : prod dims = rv.idx.length) :
    (step s (.reshape v w dims)).2 = .ok ∧
      ∃ rw, find w (step s (.reshape v w dims)).1.env = some rw ∧ rw.shape = dims ∧ rw.ty = rv.ty ∧
        rw.idx.length = rv.idx.length ∧ sees (step s (.reshape v w dims)).1.heap rw = sees s.heap rv := by
  cases hst : strided dims rv.idx with
  | true =>
    have he : eval s (.reshape v w dims) = (.bindView w ⟨rv.buf, rv.idx, rv.ty, dims⟩, .ok) := by
      simp [eval, withVar, hv, hd, hst]
    refine ⟨by simp [step, he], ⟨rv.buf, rv.idx, rv.ty, dims⟩, by simp [step, he, apply, find_bind], rfl, rfl, rfl, ?_⟩
    simp [step, he, apply, sees]
  | false =>
    have he : eval s (.reshape v w dims) = (.bindFresh w rv.ty dims (List.range rv.idx.length) (sees s.heap rv), .ok) := by
      simp [eval, withVar, hv, hd, hst]
    refine ⟨by simp [step, he], ⟨s.heap.length, layoutOr (List.range rv.idx.length) (sees s.heap rv).length, rv.ty, dims⟩,
      by simp [step, he, apply, alloc_eq, find_bind], rfl, rfl, ?_, ?_⟩
    · have := (layoutOr_perm (List.range rv.idx.length) (sees s.heap rv).length).1
      simpa [sees] using this
    · simp only [step, he, apply, alloc_eq]
      exact sees_fresh ..

/-- **C19, reshape round trip.**  `w = v.reshape(v.size); u = w.reshape(v.shape)`: both succeed, `w` is flat, `u` has `v`'s
shape, both have `v`'s vector type and BOTH show exactly the records `v` shows, in the same order — views or copies. -/
theorem c19h_reshape_roundtrip (s : State α) (v w u : String) (rv : Ref) (hv : find v s.env = some rv)
    (hsh : prod rv.shape = rv.idx.length) :
    let s1 := (step s (.reshape v w [rv.idx.length])).1
    let s2 := (step s1 (.reshape w u rv.shape)).1
    (step s (.reshape v w [rv.idx.length])).2 = .ok ∧ (step s1 (.reshape w u rv.shape)).2 = .ok ∧
      seen s1 w = seen s v ∧ seen s2 u = seen s v ∧
      (∃ rw, find w s1.env = some rw ∧ rw.shape = [rv.idx.length] ∧ rw.ty = rv.ty) ∧
      ∃ ru, find u s2.env = some ru ∧ ru.shape = rv.shape ∧ ru.ty = rv.ty := by
  obtain ⟨ok1, rw, hw, hws, hwt, hwl, hwsees⟩ := reshape_sees s v w [rv.idx.length] rv hv (by simp [prod])
  obtain ⟨ok2, ru, hu, hus, hut, _, husees⟩ :=
    reshape_sees (step s (.reshape v w [rv.idx.length])).1 w u rv.shape rw hw (by rw [hwl]; exact hsh)
  refine ⟨ok1, ok2, ?_, ?_, ⟨rw, hw, hws, hwt⟩, ⟨ru, hu, hus, by rw [hut, hwt]⟩⟩
  · simp only [seen, hw, hv]; exact hwsees
  · simp only [seen, hu, hv]; rw [husees, hwsees]

/-! ### C19: a write through a name is read back — through the variable and through its aliases -/

/-- `v[name] = vals; v[name]` returns `vals` — provided `v`'s index map repeats no row (true of every view NumPy can make)
and the records have the addressed field (true of every record of a well-formed buffer) -/
theorem c19h_setName_getName (s : State α) (v name : String) (vals : List α) (rv : Ref) (p : Nat)
    (hv : find v s.env = some rv) (hn : rv.idx.Nodup) (hp : pos (generic rv.ty.mom name) rv.ty.fields = some p)
    (hl : vals.length = rv.idx.length) (hrec : ∀ i ∈ rv.idx, p < (rowAt s.heap rv.buf i).length) :
    (step s (.setName v name vals)).2 = .ok ∧
      (step (step s (.setName v name vals)).1 (.getName v name)).2 = .vals (vals.map some) := by
  have hb : bcast rv.idx.length vals = some vals := by simp [bcast, hl]
  have h1 : step s (.setName v name vals) = (⟨writeCols s.heap rv.buf rv.idx [(p, vals)], s.env⟩, .ok) := by
    simp [step, eval, withVar, hv, hp, hb, apply]
  rw [h1]
  refine ⟨rfl, ?_⟩
  simp only [step, eval, withVar, hv, hp, col, sees, List.map_map]
  congr 1
  apply List.ext_getElem
  · simp [hl]
  · intro k h1 h2
    simp only [List.length_map] at h1 h2
    simp only [List.getElem_map, Function.comp, writeCols, List.foldl_cons, List.foldl_nil, rowAt_writeCol, if_true]
    rw [assoc_getElem rv.idx vals hn hl.symm k h1]
    simp only
    rw [List.getElem?_set_self (hrec _ (List.getElem_mem h1))]

/-- … and through an alias `w` of `v` the same write is read back at the corresponding positions -/
theorem c19h_setName_getName_alias (s : State α) (v w name : String) (idx : List Nat) (vals : List α) (rv : Ref) (p : Nat)
    (hal : Aliased s v w idx) (hv : find v s.env = some rv) (hn : rv.idx.Nodup)
    (hp : pos (generic rv.ty.mom name) rv.ty.fields = some p) (hl : vals.length = rv.idx.length)
    (hrec : ∀ i ∈ rv.idx, p < (rowAt s.heap rv.buf i).length) :
    (step (step s (.setName v name vals)).1 (.getName w name)).2 = .vals (pick (vals.map some) idx) :=
  c19h_alias_getName (c19h_alias_step hal _ (by simp [Op.target]) (by simp [Op.target])) name _
    (c19h_setName_getName s v name vals rv p hv hn hp hl hrec).2


/-! ### the invariant of reachable states: index maps repeat no row, records have all the fields -/

/-- every variable points into the heap, shows no buffer row twice, and every record it shows has one scalar per field -/
def Good (s : State α) : Prop := ∀ x r, find x s.env = some r →
  r.buf < s.heap.length ∧ r.idx.Nodup ∧ ∀ i ∈ r.idx, (rowAt s.heap r.buf i).length = r.ty.fields.length

theorem nodup_pick {l ps : List Nat} (hl : l.Nodup) (hps : ps.Nodup) : (pick l ps).Nodup := by
  refine List.Pairwise.filterMap (R := (· ≠ ·)) _ ?_ hps
  intro a a' hne b hb b' hb' hbb
  subst hbb
  have ha : a < l.length := by
    rcases Nat.lt_or_ge a l.length with h | h
    · exact h
    · rw [List.getElem?_eq_none h] at hb; cases hb
  exact hne ((List.getElem?_inj ha hl).mp (hb.trans hb'.symm))

theorem nodup_distinct (ps : List Nat) : (distinct ps).Nodup := by
  unfold distinct
  split
  · assumption
  · exact List.nodup_nil

theorem pos_lt {n : String} {fs : List String} {p : Nat} (h : pos n fs = some p) : p < fs.length := by
  induction fs generalizing p with
  | nil => simp [pos] at h
  | cons f fs ih =>
    simp only [pos] at h
    split at h
    · cases h; simp
    · cases hq : pos n fs with
      | none => simp [hq] at h
      | some q => simp [hq] at h; subst h; simp [ih hq]

theorem pos_of_mem {n : String} {fs : List String} (h : n ∈ fs) : ∃ p, pos n fs = some p := by
  cases hp : pos n fs with
  | none => exact absurd h (pos_eq_none.mp hp)
  | some p => exact ⟨p, rfl⟩

theorem mem_coords {ty : VTy} {c : String} (h : c ∈ ty.coords) : c ∈ ty.fields := by
  simp only [VTy.coords, List.mem_filter] at h
  simpa using h.2

theorem filterMap_getElem_of_all_some {β γ : Type} (f : β → Option γ) (l : List β) (hall : ∀ x ∈ l, (f x).isSome)
    (j : Nat) : (l.filterMap f)[j]? = (l[j]?).bind f := by
  induction l generalizing j with
  | nil => simp
  | cons a l ih =>
    have ha := hall a (List.mem_cons_self ..)
    obtain ⟨y, hy⟩ := Option.isSome_iff_exists.mp ha
    rw [List.filterMap_cons_some hy]
    cases j with
    | zero => simp [hy]
    | succ j => simpa using ih (fun x hx => hall x (List.mem_cons_of_mem _ hx)) j

theorem filterMap_length_of_all_some {β γ : Type} (f : β → Option γ) (l : List β) (hall : ∀ x ∈ l, (f x).isSome) :
    (l.filterMap f).length = l.length := by
  induction l with
  | nil => rfl
  | cons a l ih =>
    obtain ⟨y, hy⟩ := Option.isSome_iff_exists.mp (hall a (List.mem_cons_self ..))
    rw [List.filterMap_cons_some hy]
    simp [ih (fun x hx => hall x (List.mem_cons_of_mem _ hx))]

/-- in a complete record every coordinate name finds its field -/
theorem coordsOf_all_some (ty : VTy) (rec : Record α) (hrec : rec.length = ty.fields.length) :
    ∀ c ∈ ty.coords, ((pos c ty.fields).bind (rec[·]?)).isSome := by
  intro c hc
  obtain ⟨p, hp⟩ := pos_of_mem (mem_coords hc)
  have hlt : p < rec.length := by rw [hrec]; exact pos_lt hp
  simp [hp, hlt]

theorem coordsOf_length (ty : VTy) (rec : Record α) (hrec : rec.length = ty.fields.length) :
    (coordsOf ty rec).length = ty.coords.length :=
  filterMap_length_of_all_some _ _ (coordsOf_all_some ty rec hrec)

/-- what `eval` answers in a good state, with the facts the invariant needs -/
inductive GShape (s : State α) : Eff α → Prop
  | none : GShape s .none
  | view (w v : String) (rv r : Ref) : find v s.env = some rv → r.buf = rv.buf → r.ty = rv.ty → r.idx.Nodup →
      (∀ i ∈ r.idx, i ∈ rv.idx) → GShape s (.bindView w r)
  | fresh (w : String) (ty : VTy) (sh lay : List Nat) (recs : List (Record α)) :
      (∀ rec ∈ recs, rec.length = ty.fields.length) → GShape s (.bindFresh w ty sh lay recs)
  | writes (b : Nat) (idx : List Nat) (ws : List (Nat × List α)) : GShape s (.writes b idx ws)
  | writesFresh (b : Nat) (idx : List Nat) (ws : List (Nat × List α)) (w : String) (ty : VTy) (sh : List Nat)
      (recs : List (Record α)) : (∀ rec ∈ recs, rec.length = ty.fields.length) →
      GShape s (.writesFresh b idx ws w ty sh recs)
  | del (v : String) : GShape s (.del v)

theorem good_sees {s : State α} (hg : Good s) {v : String} {rv : Ref} (hv : find v s.env = some rv) :
    ∀ rec ∈ sees s.heap rv, rec.length = rv.ty.fields.length := by
  intro rec hrec
  simp only [sees, List.mem_map] at hrec
  obtain ⟨i, hi, rfl⟩ := hrec
  exact (hg v rv hv).2.2 i hi

theorem gshape_inplace (s : State α) (v : String) (r : Ref) (cols : Nat → List α) (res : List (Record α))
    (hres : ∀ rec ∈ res, rec.length = r.ty.coords.length) : GShape s (inplace v r cols res).1 := by
  rcases inplace_shape v r cols res with ⟨sh, h⟩ | h <;> rw [h]
  · exact .writesFresh _ _ _ _ _ _ _ hres
  · exact .writes ..

theorem eval_gshape (s : State α) (hg : Good s) (op : Op α) : GShape s (eval s op).1 := by
  have hw : ∀ (rt : Ref) tlo thi (rs : Ref) slo shi, GShape s (assignRows s rt tlo thi rs slo shi).1 := by
    intro rt tlo thi rs slo shi
    rcases assignRows_shape s rt tlo thi rs slo shi with h | ⟨ws, h⟩ <;> rw [h]
    · exact .none
    · exact .writes ..
  cases op with
  | new v ty sh recs =>
    simp only [eval]
    split
    · rename_i h
      simp only [Bool.and_eq_true, List.all_eq_true, beq_iff_eq] at h
      exact .fresh v ty _ _ recs h.1.2
    · exact .none
  | slice v w lo hi stp =>
    simp only [eval, withVar]
    split
    · exact .none
    · rename_i r hr
      split
      · exact .none
      · split
        · exact .none
        · exact .view w v r _ hr rfl rfl (nodup_pick (hg v r hr).2.1 (nodup_distinct _)) (fun i hi => mem_pick hi)
  | view v w =>
    simp only [eval, withVar]
    split
    · exact .none
    · rename_i r hr
      exact .view w v r r hr rfl rfl (hg v r hr).2.1 (fun i hi => hi)
  | mask v w bits =>
    simp only [eval, withVar]
    split
    · exact .none
    · rename_i r hr
      split
      · exact .none
      · split
        · exact .fresh w _ _ _ _ (fun rec hrec => good_sees hg hr rec (mem_pick hrec))
        · exact .none
  | fancy v w idxs =>
    simp only [eval, withVar]
    split
    · exact .none
    · rename_i r hr
      split
      · exact .none
      · split
        · exact .none
        · exact .fresh w _ _ _ _ (fun rec hrec => good_sees hg hr rec (mem_pick hrec))
  | copy v w =>
    simp only [eval, withVar]
    split
    · exact .none
    · rename_i r hr; exact .fresh w _ _ _ _ (good_sees hg hr)
  | deepcopy v w =>
    simp only [eval, withVar]
    split
    · exact .none
    · rename_i r hr; exact .fresh w _ _ _ _ (good_sees hg hr)
  | pickle v w =>
    simp only [eval, withVar]
    split
    · exact .none
    · rename_i r hr; exact .fresh w _ _ _ _ (good_sees hg hr)
  | reshape v w dims =>
    simp only [eval, withVar]
    split
    · exact .none
    · rename_i r hr
      split
      · exact .none
      · split
        · exact .view w v r _ hr rfl rfl (hg v r hr).2.1 (fun i hi => hi)
        · exact .fresh w _ _ _ _ (good_sees hg hr)
  | transpose v w =>
    simp only [eval, withVar]
    split
    · exact .none
    · rename_i r hr
      exact .view w v r _ hr rfl rfl (nodup_pick (hg v r hr).2.1 (nodup_distinct _)) (fun i hi => mem_pick hi)
  | sub v w is ell =>
    simp only [eval, withVar]
    split
    · exact .none
    · rename_i r hr
      split
      · exact .none
      · split
        · exact .none
        · exact .view w v r _ hr rfl rfl (nodup_pick (hg v r hr).2.1 (nodup_distinct _)) (fun i hi => mem_pick hi)
  | intIndex v i =>
    simp only [eval, withVar]
    split
    · exact .none
    · split
      · exact .none
      · split <;> exact .none
  | getName v name =>
    simp only [eval, withVar]
    split
    · exact .none
    · split <;> exact .none
  | setName v name vals =>
    simp only [eval, withVar]
    split
    · exact .none
    · split
      · exact .none
      · split
        · exact .none
        · exact .writes ..
  | setSlice v lo hi srcLo =>
    simp only [eval, withVar]
    split
    · exact .none
    · exact hw ..
  | setElems v lo hi w slo shi =>
    simp only [eval, withVar]
    split
    · exact .none
    · split
      · exact .none
      · exact hw ..
  | imap v f =>
    simp only [eval, withVar]
    split
    · exact .none
    · rename_i r hr
      split
      · apply gshape_inplace
        intro rec hrec
        simp only [List.mem_map] at hrec
        obtain ⟨rec0, h0, rfl⟩ := hrec
        rw [List.length_map, coordsOf_length _ _ (good_sees hg hr rec0 h0)]
      · exact .none
  | izip v w g =>
    simp only [eval, withVar]
    split
    · exact .none
    · rename_i r hr
      split
      · exact .none
      · rename_i rw hrw
        split
        · rename_i hcond
          apply gshape_inplace
          intro rec hrec
          obtain ⟨k, hk, rfl⟩ := List.getElem_of_mem hrec
          simp only [List.length_zipWith] at hk
          simp only [List.getElem_zipWith, List.length_zipWith]
          rw [coordsOf_length _ _ (good_sees hg hr _ (List.getElem_mem _)),
            coordsOf_length _ _ (good_sees hg hrw _ (List.getElem_mem _)), hcond.2.1, Nat.min_self]
        · exact .none
  | del v =>
    simp only [eval, withVar]
    split
    · exact .none
    · exact .del v
  | dump => exact .none

/-- the invariant holds initially and is preserved by every operation: it holds in every reachable state -/
theorem good_step (s : State α) (op : Op α) (hg : Good s) : Good (step s op).1 := by
  have key : ∀ (h : Heap α) (w : String) (ty : VTy) (sh lay : List Nat) (recs : List (Record α)),
      (∀ x r, find x s.env = some r → r.buf < h.length ∧ r.idx.Nodup ∧
        ∀ i ∈ r.idx, (rowAt h r.buf i).length = r.ty.fields.length) →
      (∀ rec ∈ recs, rec.length = ty.fields.length) → Good (alloc ⟨h, s.env⟩ w ty sh lay recs) := by
    intro h w ty sh lay recs hgh hrecs x r' hx
    simp only [alloc_eq, find_bind] at hx
    simp only [alloc_eq, List.length_append, List.length_singleton]
    split at hx
    · cases hx
      refine ⟨by simp, (layoutOr_perm _ _).2.1, fun i hi => ?_⟩
      simp only [rowAt, List.getElem?_append_right (Nat.le_refl _), Nat.sub_self, List.getElem?_cons_zero, Option.getD_some]
      exact hrecs _ (freshBuf_row lay recs i hi)
    · obtain ⟨h1, h2, h3⟩ := hgh x r' hx
      exact ⟨Nat.lt_succ_of_lt h1, h2, fun i hi => by rw [rowAt_append_old _ _ _ _ h1]; exact h3 i hi⟩
  have hs := eval_gshape s hg op
  simp only [step]
  generalize (eval s op).1 = eff at hs
  cases hs with
  | none => exact hg
  | view w v rv r hv hb ht hn hsub =>
    intro x r' hx
    simp only [apply, find_bind] at hx
    split at hx
    · cases hx
      refine ⟨by rw [hb]; exact (hg v rv hv).1, hn, fun i hi => ?_⟩
      simp only [apply]
      rw [hb, ht]
      exact (hg v rv hv).2.2 i (hsub i hi)
    · exact hg x r' hx
  | fresh w ty sh lay recs hrecs => exact key s.heap w ty sh lay recs hg hrecs
  | writes b idx ws =>
    intro x r' hx
    obtain ⟨h1, h2, h3⟩ := hg x r' hx
    exact ⟨by simpa [apply, writeCols_length] using h1, h2,
      fun i hi => by simp only [apply]; rw [rowAt_writeCols_length]; exact h3 i hi⟩
  | writesFresh b idx ws w ty sh recs hrecs =>
    apply key (writeCols s.heap b idx ws) w ty sh _ recs _ hrecs
    intro x r' hx
    obtain ⟨h1, h2, h3⟩ := hg x r' hx
    exact ⟨by simpa [writeCols_length] using h1, h2, fun i hi => by rw [rowAt_writeCols_length]; exact h3 i hi⟩
  | del v =>
    intro x r' hx
    simp only [apply, find_unbind] at hx
    split at hx
    · cases hx
    · exact hg x r' hx

theorem good_empty : Good (State.empty : State α) := by
  intro x r h
  simp [State.empty, find] at h

theorem good_run (s : State α) (ops : List (Op α)) (hg : Good s) : Good (run s ops) := by
  induction ops generalizing s with
  | nil => exact hg
  | cons op ops ih => rw [run_cons]; exact ih _ (good_step s op hg)

/-- the read-back law in every REACHABLE state (any history from the empty state), for a full-length right-hand side:
`v[name] = vals; v[name]` returns `vals`, and an alias `w` of `v` returns the corresponding positions of `vals` -/
theorem c19h_setName_getName_reachable (hist : List (Op α)) (v name : String) (vals : List α) (rv : Ref) (p : Nat)
    (hv : find v (run State.empty hist).env = some rv) (hp : pos (generic rv.ty.mom name) rv.ty.fields = some p)
    (hl : vals.length = rv.idx.length) :
    let s := run State.empty hist
    (step (step s (.setName v name vals)).1 (.getName v name)).2 = .vals (vals.map some) ∧
      ∀ w idx, Aliased s v w idx →
        (step (step s (.setName v name vals)).1 (.getName w name)).2 = .vals (pick (vals.map some) idx) := by
  have hg := good_run _ hist (good_empty (α := α))
  obtain ⟨_, h2, h3⟩ := hg v rv hv
  have hrec : ∀ i ∈ rv.idx, p < (rowAt (run State.empty hist).heap rv.buf i).length := by
    intro i hi; rw [h3 i hi]; exact pos_lt hp
  exact ⟨(c19h_setName_getName _ v name vals rv p hv h2 hp hl hrec).2,
    fun w idx hal => c19h_setName_getName_alias _ v w name idx vals rv p hal hv h2 hp hl hrec⟩

/-! ### C19: the element object is built from the record's fields BY NAME -/

/-- **C19, elements by name.**  In every good (in particular: every reachable) state the element `v[i, j, …]` has as many
coordinates as the array's dimension, and its `j`-th coordinate — the one NAMED `c` in the canonical order of the
coordinate system — is the field named `c` of the addressed record, at whatever position `p` the dtype has it, and whatever
extra fields stand before, between or after the coordinates. -/
theorem c19h_intIndex_by_name (s : State α) (hg : Good s) (v : String) (is : List Int) (ty : VTy) (cs : Record α)
    (h : (step s (.intIndex v is)).2 = .elem ty cs) :
    ∃ rv o sh, find v s.env = some rv ∧ ty = rv.ty ∧ tupleOffset rv.shape is = some (o, sh) ∧
      ∀ rec : Record α, (seen s v)[o]? = some rec →
        cs.length = rv.ty.dim ∧
        ∀ (j : Nat) (c : String), rv.ty.coords[j]? = some c →
          ∃ p : Nat, pos c rv.ty.fields = some p ∧ p < rec.length ∧ cs[j]? = rec[p]? := by
  obtain ⟨_, rv, o, sh, hv, hty, _, ho, _, hcs⟩ := c19h_type_preserved_intIndex s v is ty cs h
  refine ⟨rv, o, sh, hv, hty, ho, ?_⟩
  intro rec hrec
  have hmem : rec ∈ sees s.heap rv := by
    simp only [seen, hv] at hrec; exact List.mem_of_getElem? hrec
  have hlen := good_sees hg hv rec hmem
  rw [hrec] at hcs
  simp only [Option.getD_some] at hcs
  subst hcs
  refine ⟨coordsOf_length _ _ hlen, ?_⟩
  intro j c hc
  obtain ⟨p, hp⟩ := pos_of_mem (mem_coords (List.mem_of_getElem? hc))
  refine ⟨p, hp, by rw [hlen]; exact pos_lt hp, ?_⟩
  simp only [coordsOf]
  rw [filterMap_getElem_of_all_some _ _ (coordsOf_all_some _ rec hlen) j, hc]
  simp [hp]

/-! ### C19: in-place arithmetic is a write through the reference -/

/-- several column writes at once: each written column holds its values -/
theorem col_after_writes (h : Heap α) (b : Nat) (idx : List Nat) (hn : idx.Nodup) (ws : List (Nat × List α))
    (hd : ws.Pairwise (fun a b => a.1 ≠ b.1)) (p : Nat) (vals : List α) (hm : (p, vals) ∈ ws)
    (hl : idx.length = vals.length) (hrec : ∀ i ∈ idx, p < (rowAt h b i).length) (k : Nat) (hk : k < idx.length) :
    (rowAt (writeCols h b idx ws) b idx[k])[p]? = vals[k]? := by
  induction ws generalizing h with
  | nil => simp at hm
  | cons w ws ih =>
    rw [List.pairwise_cons] at hd
    have hunf : writeCols h b idx (w :: ws) = writeCols (writeCol h b idx w.1 w.2) b idx ws := rfl
    rw [hunf]
    rcases List.mem_cons.mp hm with heq | hm'
    · subst heq
      rw [rowAt_writeCols_field _ _ _ _ _ _ _ (fun w' hw' h' => hd.1 w' hw' h'.symm), rowAt_writeCol]
      simp only [if_true]
      rw [assoc_getElem idx vals hn hl k hk]
      simp only
      rw [List.getElem?_set_self (hrec _ (List.getElem_mem hk)), List.getElem?_eq_getElem]
    · apply ih _ hd.2 hm'
      intro i hi
      have := rowAt_writeCols_length h b idx [w] b i
      simp only [writeCols, List.foldl_cons, List.foldl_nil] at this
      rw [this]
      exact hrec i hi

theorem coordPrefix_le (ty : VTy) : coordPrefix ty ≤ ty.fields.length := by
  unfold coordPrefix
  exact (List.takeWhile_sublist _).length_le

/-- **`v *= k` row by row** (`imap v f` with `f = (· * k)`): in every good state, for a Cartesian `v`, every coordinate field
standing before the first extra field of every row `v` shows is replaced by `f` of its old value, in `v`'s OLD buffer (the
statement then rebinds `v` — `c19h_inplace_rebinds`; with an extra field it raises instead, the writes done). -/
theorem c19h_inplace_rows (s : State α) (hg : Good s) (v : String) (f : α → α) (rv : Ref) (hv : find v s.env = some rv)
    (hc : cartesian rv.ty = true) (k : Nat) (hk : k < rv.idx.length) (p : Nat) (hp : p < coordPrefix rv.ty) :
    (rowAt (step s (.imap v f)).1.heap rv.buf rv.idx[k])[p]? = ((rowAt s.heap rv.buf rv.idx[k])[p]?).map f := by
  obtain ⟨hlt, hn, hrows⟩ := hg v rv hv
  have hpf : p < rv.ty.fields.length := Nat.lt_of_lt_of_le hp (coordPrefix_le _)
  have hall : ∀ rec ∈ sees s.heap rv, ((fun (x : Record α) => x[p]?) rec).isSome := by
    intro rec hrec
    have := good_sees hg hv rec hrec
    simp [this, hpf]
  have hlen : rv.idx.length = (((sees s.heap rv).filterMap (·[p]?)).map f).length := by
    rw [List.length_map, filterMap_length_of_all_some _ _ hall]; simp [sees]
  have hmem : (p, ((sees s.heap rv).filterMap (·[p]?)).map f) ∈
      inplaceWs rv (fun p => ((sees s.heap rv).filterMap (·[p]?)).map f) := by
    simp only [inplaceWs, List.mem_map, List.mem_range]
    exact ⟨p, hp, rfl⟩
  have hpw : (inplaceWs rv (fun p => ((sees s.heap rv).filterMap (·[p]?)).map f)).Pairwise (fun a b => a.1 ≠ b.1) := by
    simp only [inplaceWs, List.pairwise_map]
    exact List.nodup_range
  have hrec : ∀ i ∈ rv.idx, p < (rowAt s.heap rv.buf i).length := by
    intro i hi; rw [hrows i hi]; exact hpf
  have hmain := col_after_writes s.heap rv.buf rv.idx hn _ hpw p _ hmem hlen hrec k hk
  have hval : (((sees s.heap rv).filterMap (·[p]?)).map f)[k]? = ((rowAt s.heap rv.buf rv.idx[k])[p]?).map f := by
    rw [List.getElem?_map, filterMap_getElem_of_all_some _ _ hall k]
    simp [sees, hk]
  rw [hval] at hmain
  simp only [step, eval, withVar, hv, hc, if_true]
  rcases inplace_shape v rv (fun p => ((sees s.heap rv).filterMap (·[p]?)).map f)
    ((sees s.heap rv).map fun rec => (coordsOf rv.ty rec).map f) with ⟨sh, h⟩ | h
  · rw [h]
    simp only [apply, alloc_eq]
    rw [rowAt_append_old _ _ _ _ (by rw [writeCols_length]; exact hlt)]
    exact hmain
  · rw [h]
    exact hmain

/-- **C19, `v *= k` and the aliases of `v`.**  In every good state, for a Cartesian `v` and `op = imap v f` (`v *= k` is
`f = (· * k)`): (1) every OTHER variable `x` over `v`'s buffer showing only rows `v` shows — every alias of `v`: its views,
slices, transposes, reshapes, sub-arrays — keeps its reference and afterwards shows, in every coordinate column standing
before the first extra field, `f` of what it showed, position by position; (2) every variable over ANOTHER buffer — every
detached copy — shows exactly what it showed. -/
theorem c19h_iscale_alias (s : State α) (hg : Good s) (v : String) (f : α → α) (rv : Ref) (hv : find v s.env = some rv)
    (hc : cartesian rv.ty = true) :
    let s' := (step s (.imap v f)).1
    (∀ x rx, x ≠ v → find x s.env = some rx → rx.buf = rv.buf → (∀ i ∈ rx.idx, i ∈ rv.idx) →
      find x s'.env = some rx ∧
        ∀ p, p < coordPrefix rv.ty → col p (seen s' x) = (col p (seen s x)).map (Option.map f)) ∧
    (∀ x rx, x ≠ v → find x s.env = some rx → rx.buf ≠ rv.buf → find x s'.env = some rx ∧ seen s' x = seen s x) := by
  refine ⟨?_, ?_⟩
  · intro x rx hxv hx hb hsub
    have hx' : find x (step s (.imap v f)).1.env = some rx := by
      rw [find_step _ _ _ (by simp [Op.target]; exact fun h => hxv h.symm)]; exact hx
    refine ⟨hx', fun p hp => ?_⟩
    simp only [seen, hx', hx, col, sees, List.map_map, hb]
    apply List.map_congr_left
    intro i hi
    obtain ⟨k, hk, rfl⟩ := List.getElem_of_mem (hsub i hi)
    simpa using c19h_inplace_rows s hg v f rv hv hc k hk p hp
  · intro x rx hxv hx hb
    refine ⟨by rw [find_step _ _ _ (by simp [Op.target]; exact fun h => hxv h.symm)]; exact hx, ?_⟩
    exact c19h_detached_write s v x rv rx (.imap v f) hv hx (fun h => hb h.symm) (hg x rx hx).1 rfl

/-- … for an alias in the sense of `Aliased` (made by `view slice transpose sub reshape`, kept by every later operation), at
integer scalars: after `v *= k`, `w` shows the scaled values at the corresponding positions -/
theorem c19h_iscale_alias_int (s : State Int) (hg : Good s) (v w : String) (k : Int) (idx : List Nat) (rv : Ref)
    (hvw : v ≠ w) (hal : Aliased s v w idx) (hv : find v s.env = some rv) (hc : cartesian rv.ty = true)
    (p : Nat) (hp : p < coordPrefix rv.ty) :
    col p (seen (step s (Op.iscale v k)).1 w) = (col p (seen s w)).map (Option.map (· * k)) := by
  obtain ⟨rv', rw, h1, h2, h3, _, h5⟩ := hal
  rw [hv] at h1; cases h1
  exact ((c19h_iscale_alias s hg v (· * k) rv hv hc).1 w rw (fun h => hvw h.symm) h2 h3
    (fun i hi => by rw [h5] at hi; exact mem_pick hi)).2 p hp

/-- what the statement `v *= k` leaves in `v`: when it succeeds, `v` is REBOUND to a fresh array of the same flavor and
coordinate system whose fields are the coordinates in CANONICAL order (extras cannot occur), showing `f` of the coordinates
`v` showed — no longer an alias of anything -/
theorem c19h_inplace_rebinds (s : State α) (v : String) (f : α → α) (rv : Ref) (hv : find v s.env = some rv)
    (hok : (step s (.imap v f)).2 = .ok) :
    ∃ r', find v (step s (.imap v f)).1.env = some r' ∧ r'.buf = s.heap.length ∧
      r'.ty = ⟨rv.ty.mom, rv.ty.coords⟩ ∧
      seen (step s (.imap v f)).1 v = (seen s v).map fun rec => (coordsOf rv.ty rec).map f := by
  simp only [step, eval, withVar, hv] at hok ⊢
  by_cases hc : cartesian rv.ty = true
  · simp only [hc, if_true] at hok ⊢
    rcases inplace_shape v rv (fun p => ((sees s.heap rv).filterMap (·[p]?)).map f)
      ((sees s.heap rv).map fun rec => (coordsOf rv.ty rec).map f) with ⟨sh, h⟩ | h
    · rw [h]
      refine ⟨⟨s.heap.length, layoutOr (List.range ((sees s.heap rv).map fun rec => (coordsOf rv.ty rec).map f).length)
        ((sees s.heap rv).map fun rec => (coordsOf rv.ty rec).map f).length, ⟨rv.ty.mom, rv.ty.coords⟩, sh⟩, ?_, rfl, rfl, ?_⟩
      · simp [apply, alloc_eq, find_bind, writeCols_length]
      · simp only [seen, apply, alloc_eq, find_bind, if_true, hv]
        have := sees_fresh (writeCols s.heap rv.buf rv.idx (inplaceWs rv fun p => ((sees s.heap rv).filterMap (·[p]?)).map f))
          ((sees s.heap rv).map fun rec => (coordsOf rv.ty rec).map f) ⟨rv.ty.mom, rv.ty.coords⟩ sh
          (List.range ((sees s.heap rv).map fun rec => (coordsOf rv.ty rec).map f).length)
        exact this
    · rw [h] at hok; cases hok
  · simp [hc] at hok

/-! ### examples: a concrete 3-row Momentum3D array -/

section Examples

/-- `a = vector.array({"px": [1, 4, 7], "py": [2, 5, 8], "pz": [3, 6, 9]})` -/
def exA : State Int := run State.empty [.new "a" ⟨true, ["x", "y", "z"]⟩ [3] [[1, 2, 3], [4, 5, 6], [7, 8, 9]]]

example : WF exA := wf_run _ _ wf_empty

example : seen exA "a" = [[1, 2, 3], [4, 5, 6], [7, 8, 9]] := by decide

/-- `b = a[1:]; b["px"] = [40, 70]` is seen through `a` (momentum spelling, write through the slice) -/
example : seen (run exA [.slice "a" "b" (some 1) none none, .setName "b" "px" [40, 70]]) "a" =
    [[1, 2, 3], [40, 5, 6], [70, 8, 9]] := by decide

/-- `b = a[::-1]; a["y"] = [20, 50, 80]` is seen through `b`, reversed -/
example : (step (run exA [.slice "a" "b" none none (some (-1)), .setName "a" "y" [20, 50, 80]]) (.getName "b" "py")).2 =
    .vals [some 80, some 50, some 20] := rfl

/-- `c = a.view(type(a)); c[0:1] = c[2:3]` is seen through `a` -/
example : seen (run exA [.view "a" "c", .setSlice "c" 0 1 2]) "a" = [[7, 8, 9], [4, 5, 6], [7, 8, 9]] := by decide

/-- `p = pickle.loads(pickle.dumps(a)); a["pz"] = [0, 0, 0]; p["x"] = [5, 5, 5]`: neither sees the other's write -/
example :
    let s := run exA [.pickle "a" "p", .setName "a" "pz" [0, 0, 0], .setName "p" "x" [5, 5, 5]]
    seen s "a" = [[1, 2, 0], [4, 5, 0], [7, 8, 0]] ∧ seen s "p" = [[5, 2, 3], [5, 5, 6], [5, 8, 9]] := by decide

/-- `m = a[[True, False, True]]`, `f = a[[-1, 0]]` are copies of the selected records -/
example :
    let s := run exA [.mask "a" "m" [true, false, true], .fancy "a" "f" [-1, 0], .setName "a" "x" [0]]
    seen s "m" = [[1, 2, 3], [7, 8, 9]] ∧ seen s "f" = [[7, 8, 9], [1, 2, 3]] ∧
      seen s "a" = [[0, 2, 3], [0, 5, 6], [0, 8, 9]] := by decide

/-- `a[-1]` is a `MomentumObject3D` with the record's coordinates; `a[3]` an `IndexError`; `a["rho"]` a `ValueError` -/
example : (step exA (.intIndex "a" [-1])).2 = .elem ⟨true, ["x", "y", "z"]⟩ [7, 8, 9] ∧
    (⟨true, ["x", "y", "z"]⟩ : VTy).objTag = "MomentumObject3D" ∧ (⟨true, ["x", "y", "z"]⟩ : VTy).tag = "MomentumNumpy3D" ∧
    (step exA (.intIndex "a" [3])).2 = .err .IndexError ∧ (step exA (.getName "a" "rho")).2 = .err .ValueError :=
  ⟨rfl, by decide, by decide, rfl, rfl⟩

/-- the theorems at work: after `b = a[1:]`, in every later state not rebinding `a` / `b`, `b` shows rows 1, 2 of `a` -/
example (ops : List (Op Int)) (hops : ∀ op ∈ ops, op.target ≠ some "a" ∧ op.target ≠ some "b") :
    let s' := run (step exA (.slice "a" "b" (some 1) none none)).1 ops
    seen s' "b" = pick (seen s' "a") [1, 2] :=
  ((c19h_view_alias exA "a" "b" ⟨0, [0, 1, 2], ⟨true, ["x", "y", "z"]⟩, [3]⟩ (by decide) (by decide) ops hops).2
    (some 1) none none [2] [1, 2] (by decide)).1

/-- the read-back law applies to `exA`: no repeated rows, every record has the field -/
example : (step (step exA (.setName "a" "py" [20, 50, 80])).1 (.getName "a" "y")).2 = .vals [some 20, some 50, some 80] :=
  (c19h_setName_getName exA "a" "py" [20, 50, 80] ⟨0, [0, 1, 2], ⟨true, ["x", "y", "z"]⟩, [3]⟩ 1 (by decide) (by decide)
    (by decide) rfl (by decide)).2

/-! #### shapes, field orders, extra fields, in-place arithmetic -/

/-- `n = vector.array([(2., 9., 1., 3.), …], dtype=[("y", …), ("w", …), ("px", …), ("z", …)]).reshape(2, 3)`: a
`MomentumNumpy3D` whose dtype lists `y` first, an extra field `w`, then `x`, `z` -/
def exN : State Int := run State.empty [.new "n" ⟨true, ["y", "w", "x", "z"]⟩ [2, 3]
  [[2, 90, 1, 3], [5, 91, 4, 6], [8, 92, 7, 9], [11, 93, 10, 12], [14, 94, 13, 15], [17, 95, 16, 18]]]

/-- the class comes from the coordinate names only; `n[1, 2]` is a `MomentumObject3D(px=16, py=17, pz=18)`: fields BY NAME, the
extra dropped; `n[1]` is an array of shape `(3,)`; `n[1, 2, ...]` a 0-d ARRAY; `n[2, 0]` an `IndexError` -/
example : (⟨true, ["y", "w", "x", "z"]⟩ : VTy).tag = "MomentumNumpy3D" ∧
    (step exN (.intIndex "n" [1, 2])).2 = .elem ⟨true, ["y", "w", "x", "z"]⟩ [16, 17, 18] ∧
    (step exN (.intIndex "n" [1])).2 = .arr ⟨true, ["y", "w", "x", "z"]⟩ [3] ∧
    (step exN (.sub "n" "z" [1, 2] true)).2 = .ok ∧
    (find "z" (step exN (.sub "n" "z" [1, 2] true)).1.env).map (·.shape) = some [] ∧
    (step exN (.intIndex "n" [2, 0])).2 = .err .IndexError :=
  ⟨by decide, rfl, rfl, rfl, by decide, rfl⟩

/-- `t = n.T; f = t.reshape(6)` has to COPY (the transposed rows are not strided as a flat array) while `g = n.reshape(6)` is
a view: a write through `n` is seen through `t` and `g`, not through `f` -/
example :
    let s := run exN [.transpose "n" "t", .reshape "t" "f" [6], .reshape "n" "g" [6], .setName "n" "px" [0]]
    col 2 (seen s "t") = [some 0, some 0, some 0, some 0, some 0, some 0] ∧
    col 2 (seen s "g") = [some 0, some 0, some 0, some 0, some 0, some 0] ∧
    col 2 (seen s "f") = [some 1, some 10, some 4, some 13, some 7, some 16] ∧
    (find "t" s.env).map (·.buf) = some 0 ∧ (find "g" s.env).map (·.buf) = some 0 ∧ (find "f" s.env).map (·.buf) = some 1 := by
  decide

/-- `c = vector.array(…x, y…); d = c[1:]; c *= 2`: the old buffer is scaled — seen through `d` — and `c` is REBOUND to a fresh
array: `c` lives in a new buffer, no longer sharing memory with `d` -/
example :
    let s := run State.empty [.new "c" ⟨false, ["y", "x"]⟩ [3] [[2, 1], [4, 3], [6, 5]], .slice "c" "d" (some 1) none none,
      Op.iscale "c" 2]
    seen s "d" = [[8, 6], [12, 10]] ∧ seen s "c" = [[2, 4], [6, 8], [10, 12]] ∧
      (find "c" s.env).map (·.ty.fields) = some ["x", "y"] ∧
      (find "d" s.env).map (·.buf) = some 0 ∧ (find "c" s.env).map (·.buf) = some 1 := by decide

/-- **Discrepancy with C16 (failure atomicity), reproduced on the real library.**  `a[:] = b[:]` where `b` has a field `a`
lacks (`theta` vs `z`) raises `ValueError` — after `x` and `y` of `a` have been overwritten. -/
theorem c19h_setElems_partial :
    let s : State Int := run State.empty [.new "a" ⟨false, ["x", "y", "z"]⟩ [2] [[1, 2, 3], [4, 5, 6]],
      .new "b" ⟨false, ["x", "y", "theta"]⟩ [2] [[7, 8, 9], [10, 11, 12]]]
    (step s (.setElems "a" none none "b" none none)).2 = .err .ValueError ∧
      seen s "a" = [[1, 2, 3], [4, 5, 6]] ∧
      seen (step s (.setElems "a" none none "b" none none)).1 "a" = [[7, 8, 3], [10, 11, 6]] :=
  ⟨rfl, by decide, by decide⟩

/-- … and an assignment from a LOWER-dimensional array silently succeeds, overwriting only the fields the source has -/
theorem c19h_setElems_lower_dim :
    let s : State Int := run State.empty [.new "a" ⟨false, ["x", "y", "z"]⟩ [2] [[1, 2, 3], [4, 5, 6]],
      .new "b" ⟨false, ["x", "y"]⟩ [2] [[7, 8], [10, 11]]]
    (step s (.setElems "a" none none "b" none none)).2 = .ok ∧
      seen (step s (.setElems "a" none none "b" none none)).1 "a" = [[7, 8, 3], [10, 11, 6]] :=
  ⟨rfl, by decide⟩

/-- **Discrepancy with C16 (failure atomicity), reproduced on the real library.**  `a *= 2` on an array whose dtype has an extra
field `w` between `x` and `y` raises `ValueError` (`result` has no field `w`) — after `x` has been scaled; `y` is not. -/
theorem c19h_inplace_partial :
    let s : State Int := run State.empty [.new "a" ⟨false, ["x", "w", "y"]⟩ [2] [[1, 50, 2], [3, 51, 4]]]
    (step s (Op.iscale "a" 2)).2 = .err .ValueError ∧
      seen (step s (Op.iscale "a" 2)).1 "a" = [[2, 50, 2], [6, 51, 4]] :=
  ⟨rfl, by decide⟩

end Examples
end VH
