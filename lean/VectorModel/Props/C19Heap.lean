/-
Properties C19 / C16 on the HEAP model of NumPy vector arrays (`Glue/Heap.lean`): aliasing of views, detachment of copies,
type preservation, name index = column, the frame property, pickle / copy round trips.

All statements are for every scalar type `α` (the model only moves values) and every state / history.
-/
import VectorModel.Glue.Heap

set_option linter.unusedVariables false

namespace VH

variable {α : Type}

/-! ### lists -/

private theorem pick_map {β γ : Type} (f : β → γ) (l : List β) (ps : List Nat) : pick (l.map f) ps = (pick l ps).map f := by
  simp only [pick, List.map_filterMap]
  congr 1
  funext i
  simp

private theorem pick_range {β : Type} (l : List β) : pick l (List.range l.length) = l := by
  induction l with
  | nil => rfl
  | cons a l ih =>
    have : pick (a :: l) (List.range (l.length + 1)) = a :: pick l (List.range l.length) := by
      simp only [pick, List.range_succ_eq_map, List.filterMap_cons, List.filterMap_map]
      simp [Function.comp_def]
    simpa [this] using ih

/-! ### the environment -/

theorem find_unbind (x w : String) (e : Env) : find x (unbind w e) = if x = w then none else find x e := by
  induction e with
  | nil => simp [unbind, find]
  | cons p e ih =>
    obtain ⟨k, r⟩ := p
    simp only [unbind, List.filter_cons] at ih ⊢
    by_cases hk : k = w
    · subst hk
      simp only [bne_self_eq_false, Bool.false_eq_true, if_false, ih, find]
      by_cases hx : x = k
      · simp [hx]
      · have : ¬ k = x := fun h => hx h.symm
        simp [hx, this]
    · have : (k != w) = true := by simp [hk]
      simp only [this, if_true, find, ih]
      by_cases hx : x = w
      · subst hx; simp [hk]
      · simp [hx]

theorem find_bind (x w : String) (e : Env) (r : Ref) : find x (bind e w r) = if w = x then some r else find x e := by
  simp only [bind, find, find_unbind]
  by_cases h : w = x
  · simp [h]
  · have : ¬ x = w := fun h' => h h'.symm
    simp [h, this]

/-! ### the heap under column writes -/

theorem rowAt_writeCol (h : Heap α) (b : Nat) (idx : List Nat) (p : Nat) (vals : List α) (b' i : Nat) :
    rowAt (writeCol h b idx p vals) b' i =
      if b' = b then (match assoc idx vals i with
        | some x => (rowAt h b' i).set p x
        | none => rowAt h b' i) else rowAt h b' i := by
  simp only [rowAt, writeCol, List.getElem?_mapIdx]
  cases hb : h[b']? with
  | none => simp; split <;> simp
  | some buffer =>
    simp only [Option.map_some, Option.getD_some]
    by_cases hbb : b' = b
    · simp only [hbb, if_true, List.getElem?_mapIdx]
      cases hi : buffer[i]? with
      | none => simp; split <;> simp
      | some rec => simp; split <;> simp [*]
    · simp [hbb]

theorem writeCol_length (h : Heap α) (b : Nat) (idx : List Nat) (p : Nat) (vals : List α) :
    (writeCol h b idx p vals).length = h.length := by simp [writeCol]

theorem writeCol_other (h : Heap α) (b : Nat) (idx : List Nat) (p : Nat) (vals : List α) (b' : Nat) (hb : b' ≠ b) :
    (writeCol h b idx p vals)[b']? = h[b']? := by
  simp only [writeCol, List.getElem?_mapIdx, hb, if_false]
  cases h[b']? <;> simp

theorem writeCol_buflen (h : Heap α) (b : Nat) (idx : List Nat) (p : Nat) (vals : List α) (b' : Nat) :
    ((writeCol h b idx p vals)[b']?).map List.length = (h[b']?).map List.length := by
  simp only [writeCol, List.getElem?_mapIdx]
  cases h[b']? with
  | none => simp
  | some buffer => by_cases hb : b' = b <;> simp [hb]

theorem writeCols_length (h : Heap α) (b : Nat) (idx : List Nat) (ws : List (Nat × List α)) :
    (writeCols h b idx ws).length = h.length := by
  induction ws generalizing h with
  | nil => rfl
  | cons w ws ih => simp only [writeCols, List.foldl_cons] at ih ⊢; rw [ih, writeCol_length]

theorem writeCols_other (h : Heap α) (b : Nat) (idx : List Nat) (ws : List (Nat × List α)) (b' : Nat) (hb : b' ≠ b) :
    (writeCols h b idx ws)[b']? = h[b']? := by
  induction ws generalizing h with
  | nil => rfl
  | cons w ws ih => simp only [writeCols, List.foldl_cons] at ih ⊢; rw [ih, writeCol_other _ _ _ _ _ _ hb]

theorem writeCols_buflen (h : Heap α) (b : Nat) (idx : List Nat) (ws : List (Nat × List α)) (b' : Nat) :
    ((writeCols h b idx ws)[b']?).map List.length = (h[b']?).map List.length := by
  induction ws generalizing h with
  | nil => rfl
  | cons w ws ih => simp only [writeCols, List.foldl_cons] at ih ⊢; rw [ih, writeCol_buflen]

theorem assoc_none {β : Type} (idx : List Nat) (vals : List β) (i : Nat) (hi : i ∉ idx) : assoc idx vals i = none := by
  induction idx generalizing vals with
  | nil => cases vals <;> rfl
  | cons j idx ih =>
    cases vals with
    | nil => rfl
    | cons x xs =>
      simp only [List.mem_cons, not_or] at hi
      have : ¬ j = i := fun h => hi.1 h.symm
      simp [assoc, this, ih xs hi.2]

/-- a column write leaves every row outside the addressed ones alone -/
theorem rowAt_writeCols_row (h : Heap α) (b : Nat) (idx : List Nat) (ws : List (Nat × List α)) (b' i : Nat)
    (hi : b' ≠ b ∨ i ∉ idx) : rowAt (writeCols h b idx ws) b' i = rowAt h b' i := by
  induction ws generalizing h with
  | nil => rfl
  | cons w ws ih =>
    simp only [writeCols, List.foldl_cons] at ih ⊢
    rw [ih, rowAt_writeCol]
    rcases hi with hi | hi
    · simp [hi]
    · simp [assoc_none _ _ _ hi]

/-- … never changes the length of a record … -/
theorem rowAt_writeCols_length (h : Heap α) (b : Nat) (idx : List Nat) (ws : List (Nat × List α)) (b' i : Nat) :
    (rowAt (writeCols h b idx ws) b' i).length = (rowAt h b' i).length := by
  induction ws generalizing h with
  | nil => rfl
  | cons w ws ih =>
    simp only [writeCols, List.foldl_cons] at ih ⊢
    rw [ih, rowAt_writeCol]
    split
    · split <;> simp
    · rfl

/-- … and leaves every field alone that is not one of the written ones -/
theorem rowAt_writeCols_field (h : Heap α) (b : Nat) (idx : List Nat) (ws : List (Nat × List α)) (b' i q : Nat)
    (hq : ∀ w ∈ ws, w.1 ≠ q) : (rowAt (writeCols h b idx ws) b' i)[q]? = (rowAt h b' i)[q]? := by
  induction ws generalizing h with
  | nil => rfl
  | cons w ws ih =>
    simp only [writeCols, List.foldl_cons] at ih ⊢
    rw [ih _ (fun w' hw' => hq w' (List.mem_cons_of_mem _ hw')), rowAt_writeCol]
    have hw : w.1 ≠ q := hq w (List.mem_cons_self ..)
    split
    · split
      · rw [List.getElem?_set_ne hw]
      · rfl
    · rfl

theorem sees_congr (h h' : Heap α) (r : Ref) (hb : h'[r.buf]? = h[r.buf]?) : sees h' r = sees h r := by
  simp only [sees]
  congr 1
  funext i
  simp only [rowAt, hb]

theorem getElem?_append_one {β : Type} (l : List β) (x : β) (b : Nat) (hb : b < l.length) : (l ++ [x])[b]? = l[b]? :=
  List.getElem?_append_left hb

/-! ### the shape of the effect of every operation -/

/-- the rows of its target's index map a writing operation addresses -/
def addressed (s : State α) : Op α → List Nat
  | .setName v _ _ => match find v s.env with
    | some r => r.idx
    | none => []
  | .setSlice v lo hi _ => match find v s.env with
    | some r => pick r.idx ((slicePos (some lo) (some hi) none r.idx.length).getD [])
    | none => []
  | .setElems v lo hi _ _ _ => match find v s.env with
    | some r => pick r.idx ((slicePos lo hi none r.idx.length).getD [])
    | none => []
  | _ => []

/-- what `eval` can answer for an operation: nothing; a view of an existing variable's buffer with that variable's type,
bound to the operation's target; a fresh buffer bound to the target; column writes into the buffer of the variable written
through, at the addressed rows; an unbinding of the target -/
inductive Shape (s : State α) (op : Op α) : Eff α → Prop
  | none : Shape s op .none
  | view (w v : String) (rv r : Ref) : op.target = some w → op.writeVar = none → find v s.env = some rv →
      r.buf = rv.buf → r.ty = rv.ty → (∃ ps, r.idx = pick rv.idx ps) → Shape s op (.bindView w r)
  | fresh (w : String) (ty : VTy) (recs : List (Record α)) : op.target = some w → op.writeVar = none →
      Shape s op (.bindFresh w ty recs)
  | writes (v : String) (r : Ref) (ws : List (Nat × List α)) : op.writeVar = some v → op.target = none →
      find v s.env = some r → Shape s op (.writes r.buf (addressed s op) ws)
  | del (v : String) : op.target = some v → op.writeVar = none → Shape s op (.del v)

private theorem assignRows_shape (s : State α) (rt : Ref) (tlo thi : Option Int) (rs : Ref) (slo shi : Option Int) :
    (assignRows s rt tlo thi rs slo shi).1 = .none ∨
      ∃ ws, (assignRows s rt tlo thi rs slo shi).1 =
        .writes rt.buf (pick rt.idx ((slicePos tlo thi none rt.idx.length).getD [])) ws := by
  unfold assignRows
  split
  · rename_i tp sp h1 h2
    split
    · right
      simp only [h1, Option.getD_some]
      exact ⟨_, rfl⟩
    · left; rfl
  · left; rfl

theorem eval_shape (s : State α) (op : Op α) : Shape s op (eval s op).1 := by
  cases op with
  | new v ty recs =>
    simp only [eval]
    split
    · exact .fresh v ty recs rfl rfl
    · exact .none
  | slice v w lo hi stp =>
    simp only [eval, withVar]
    split
    · exact .none
    · rename_i r hr
      split
      · exact .none
      · rename_i ps hps
        exact .view w v r _ rfl rfl hr rfl rfl ⟨ps, rfl⟩
  | view v w =>
    simp only [eval, withVar]
    split
    · exact .none
    · rename_i r hr
      exact .view w v r r rfl rfl hr rfl rfl ⟨_, (pick_range r.idx).symm⟩
  | mask v w bits =>
    simp only [eval, withVar]
    split
    · exact .none
    · split
      · exact .fresh w _ _ rfl rfl
      · exact .none
  | fancy v w idxs =>
    simp only [eval, withVar]
    split
    · exact .none
    · split
      · exact .none
      · exact .fresh w _ _ rfl rfl
  | copy v w =>
    simp only [eval, withVar]
    split
    · exact .none
    · exact .fresh w _ _ rfl rfl
  | deepcopy v w =>
    simp only [eval, withVar]
    split
    · exact .none
    · exact .fresh w _ _ rfl rfl
  | pickle v w =>
    simp only [eval, withVar]
    split
    · exact .none
    · exact .fresh w _ _ rfl rfl
  | intIndex v i =>
    simp only [eval, withVar]
    split
    · exact .none
    · split <;> exact .none
  | getName v name =>
    simp only [eval, withVar]
    split
    · exact .none
    · split <;> exact .none
  | setName v name vals =>
    simp only [eval, withVar]
    split
    · exact .none
    · rename_i r hr
      split
      · exact .none
      · split
        · exact .none
        · have := Shape.writes (s := s) (op := .setName v name vals) v r [(_, _)] rfl rfl hr
          simpa [addressed, hr] using this
  | setSlice v lo hi srcLo =>
    simp only [eval, withVar]
    split
    · exact .none
    · rename_i r hr
      rcases assignRows_shape s r (some lo) (some hi) r (some srcLo) (some (srcLo + (hi - lo))) with h | ⟨ws, h⟩
      · rw [h]; exact .none
      · rw [h]
        have := Shape.writes (s := s) (op := .setSlice v lo hi srcLo) v r ws rfl rfl hr
        simpa [addressed, hr] using this
  | setElems v lo hi w slo shi =>
    simp only [eval, withVar]
    split
    · exact .none
    · rename_i r hr
      split
      · exact .none
      · rename_i rs hrs
        rcases assignRows_shape s r lo hi rs slo shi with h | ⟨ws, h⟩
        · rw [h]; exact .none
        · rw [h]
          have := Shape.writes (s := s) (op := .setElems v lo hi w slo shi) v r ws rfl rfl hr
          simpa [addressed, hr] using this
  | del v =>
    simp only [eval, withVar]
    split
    · exact .none
    · exact .del v rfl rfl
  | dump => exact .none

/-! ### one step: environment and heap -/

/-- an operation changes the binding of its target only -/
theorem find_step (s : State α) (op : Op α) (x : String) (h : op.target ≠ some x) :
    find x (step s op).1.env = find x s.env := by
  have hs := eval_shape s op
  simp only [step]
  generalize (eval s op).1 = eff at hs
  cases hs with
  | none => rfl
  | view w v rv r ht _ _ _ _ _ =>
    have : ¬ w = x := fun hw => h (hw ▸ ht)
    simp [apply, find_bind, this]
  | fresh w ty recs ht _ =>
    have : ¬ w = x := fun hw => h (hw ▸ ht)
    simp [apply, find_bind, this]
  | writes v r ws _ _ _ => rfl
  | del v ht _ =>
    have : ¬ x = v := fun hw => h (hw ▸ ht)
    simp [apply, find_unbind, this]

/-- the heap only grows -/
theorem heap_step_length (s : State α) (op : Op α) : s.heap.length ≤ (step s op).1.heap.length := by
  have hs := eval_shape s op
  simp only [step]
  generalize (eval s op).1 = eff at hs
  cases hs <;> simp [apply, writeCols_length]

/-- a buffer changes only under an operation that writes into it -/
theorem heap_step_other (s : State α) (op : Op α) (b : Nat) (hb : b < s.heap.length) (hw : writeBuf s op ≠ some b) :
    (step s op).1.heap[b]? = s.heap[b]? := by
  have hs := eval_shape s op
  simp only [step]
  generalize (eval s op).1 = eff at hs
  cases hs with
  | none => rfl
  | view w v rv r _ _ _ _ _ _ => rfl
  | fresh w ty recs _ _ => simp [apply, List.getElem?_append_left hb]
  | writes v r ws hv _ hr =>
    have : b ≠ r.buf := by
      intro h
      apply hw
      simp [writeBuf, hv, hr, h]
    simp [apply, writeCols_other _ _ _ _ _ this]
  | del v _ _ => rfl

/-- every variable points into the heap -/
def WF (s : State α) : Prop := ∀ x r, find x s.env = some r → r.buf < s.heap.length

theorem wf_empty : WF (State.empty : State α) := by
  intro x r h
  simp [State.empty, find] at h

theorem wf_step (s : State α) (op : Op α) (hwf : WF s) : WF (step s op).1 := by
  have hs := eval_shape s op
  simp only [step]
  generalize (eval s op).1 = eff at hs
  cases hs with
  | none => exact hwf
  | view w v rv r _ _ hv hb _ _ =>
    intro x r' hx
    simp only [apply, find_bind] at hx
    split at hx
    · cases hx; rw [hb]; exact hwf v rv hv
    · exact hwf x r' hx
  | fresh w ty recs _ _ =>
    intro x r' hx
    simp only [apply, find_bind] at hx
    simp only [apply, List.length_append, List.length_singleton]
    split at hx
    · cases hx; simp
    · exact Nat.lt_succ_of_lt (hwf x r' hx)
  | writes v r ws _ _ _ =>
    intro x r' hx
    simp only [apply, writeCols_length]
    exact hwf x r' hx
  | del v _ _ =>
    intro x r' hx
    simp only [apply, find_unbind] at hx
    split at hx
    · cases hx
    · exact hwf x r' hx

theorem run_cons (s : State α) (op : Op α) (ops : List (Op α)) : run s (op :: ops) = run (step s op).1 ops := rfl

theorem wf_run (s : State α) (ops : List (Op α)) (hwf : WF s) : WF (run s ops) := by
  induction ops generalizing s with
  | nil => exact hwf
  | cons op ops ih => rw [run_cons]; exact ih _ (wf_step s op hwf)

end VH
