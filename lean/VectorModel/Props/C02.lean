/-
C02 — every operation computes its documented definition.

Statements at the all-Cartesian key `k₀` (`(xy)`, `(xy, z)`, `(xy, z, t)`), where every operand is representable and the
denotation map is the identity: `eval k₀ … = Spec.op …` with the definition written out on Cartesian components
(metric (−,−,−,+), active right-handed rotations, `deltaphi ∈ [−π, π)`, …).  They are re-exports of the refinement
theorems of `VectorModel/Refine/*.lean` at `k₀` (the refinement theorems themselves are the same statements for ALL keys,
on the denotations), of `Props/C10.lean` for the Euler / axis / quaternion rotations, and — for the non-Cartesian
accessors `x = ρ cos φ`, `z = ρ cot θ = ρ sinh η`, `t = √(τ² + |p|²)` — of the accessor refinements for all keys.
-/
import VectorModel.Refine.Planar
import VectorModel.Refine.SpatialZ
import VectorModel.Refine.SpatialAcc
import VectorModel.Refine.SpatialBin
import VectorModel.Refine.SpatialRot
import VectorModel.Refine.LorentzAcc
import VectorModel.Refine.LorentzBin
import VectorModel.Props.C10

namespace VR
open VK Spec Real

/-- a 3×3 matrix applied to a Cartesian vector (row-major) -/
def Spec.mat3 (xx xy xz yx yy yz zx zy zz : ℝ) (p : ℝ × ℝ × ℝ) : ℝ × ℝ × ℝ :=
  (xx * p.1 + xy * p.2.1 + xz * p.2.2, yx * p.1 + yy * p.2.1 + yz * p.2.2, zx * p.1 + zy * p.2.1 + zz * p.2.2)

/-- the code's `(1 − β²) ** −0.5` is `1/√(1 − β²)` -/
private theorem rpow_neg_half {s : ℝ} (h : 0 ≤ s) : P.rpow s (-0.5) = 1 / sqrt s := by
  have e : (-0.5 : ℝ) = -(1 / 2) := by norm_num
  show s ^ (-0.5 : ℝ) = 1 / sqrt s
  rw [e, Real.rpow_neg h, ← Real.sqrt_eq_rpow, one_div]

/-! ## the coordinate accessors, ALL keys: the documented relations between the coordinate systems -/

/-- `x = ρ cos φ`, `y = ρ sin φ` -/
theorem c02_planar_x_polar (r p : ℝ) : planar_x.eval .rhophi r p = r * cos p := rfl
theorem c02_planar_y_polar (r p : ℝ) : planar_y.eval .rhophi r p = r * sin p := rfl
/-- `ρ = √(x² + y²)`, `φ = atan2(y, x)` -/
theorem c02_planar_rho (x y : ℝ) : planar_rho.eval .xy x y = sqrt (x ^ 2 + y ^ 2) := rfl
theorem c02_planar_rho2 (x y : ℝ) : planar_rho2.eval .xy x y = x ^ 2 + y ^ 2 := rfl
theorem c02_planar_phi (x y : ℝ) : planar_phi.eval .xy x y = P.arctan2 y x := rfl
/-- `P.arctan2 y x` is the angle of `(x, y)`: in `(-π, π]`, and `(x, y) = ρ (cos φ, sin φ)` -/
theorem c02_planar_phi_range (x y : ℝ) : -π < planar_phi.eval .xy x y ∧ planar_phi.eval .xy x y ≤ π :=
  ⟨Complex.neg_pi_lt_arg _, Complex.arg_le_pi _⟩
theorem c02_planar_phi_polar (x y : ℝ) :
    planar_rho.eval .xy x y * cos (planar_phi.eval .xy x y) = x
      ∧ planar_rho.eval .xy x y * sin (planar_phi.eval .xy x y) = y :=
  ⟨L.sqrt_mul_cos_arctan2 x y, L.sqrt_mul_sin_arctan2 x y⟩
/-- the accessors of every key compute the denotation -/
theorem c02_planar_x_all (k : Az) (a b : ℝ) : planar_x.eval k a b = xOf k a b := refine_planar_x k a b
theorem c02_planar_y_all (k : Az) (a b : ℝ) : planar_y.eval k a b = yOf k a b := refine_planar_y k a b
theorem c02_planar_rho_all (k : Az) (a b : ℝ) : planar_rho.eval k a b = rhoOf k a b := refine_planar_rho k a b

/-- `z = ρ cot θ = ρ sinh η` (θ storage: wherever `cos θ ≠ 0`, the code divides by `tan θ`) -/
theorem c02_spatial_z_theta (k0 : Az) (a b th : ℝ) (h : cos th ≠ 0) :
    spatial_z.eval k0 .theta a b th = rhoOf k0 a b * (cos th / sin th) :=
  refine_spatial_z k0 .theta a b th h
theorem c02_spatial_z_eta (k0 : Az) (a b e : ℝ) : spatial_z.eval k0 .eta a b e = rhoOf k0 a b * sinh e :=
  refine_spatial_z k0 .eta a b e trivial
/-- `t = √(τ² + |p|²)` for `τ ≥ 0` -/
theorem c02_lorentz_t_tau (k0 : Az) (k1 : Lon) (a b c tau : ℝ) (h : CanonLon k0 k1 a b c) (hd : 0 ≤ tau) :
    lorentz_t.eval k0 k1 .tau a b c tau = sqrt (tau ^ 2 + mag2Of k0 k1 a b c) := by
  rw [refine_lorentz_t k0 k1 .tau a b c tau h hd]; cases k0 <;> cases k1 <;> rfl

/-! ## 2D at the Cartesian key -/

theorem c02_planar_dot (x1 y1 x2 y2 : ℝ) : planar_dot.eval .xy .xy x1 y1 x2 y2 = x1 * x2 + y1 * y2 :=
  refine_planar_dot .xy .xy x1 y1 x2 y2

theorem c02_planar_add (x1 y1 x2 y2 : ℝ) : planar_add.eval .xy .xy x1 y1 x2 y2 = (x1 + x2, y1 + y2) :=
  Option.some.inj (refine_planar_add .xy .xy x1 y1 x2 y2)

theorem c02_planar_subtract (x1 y1 x2 y2 : ℝ) : planar_subtract.eval .xy .xy x1 y1 x2 y2 = (x1 - x2, y1 - y2) :=
  Option.some.inj (refine_planar_subtract .xy .xy x1 y1 x2 y2)

theorem c02_planar_scale (f x y : ℝ) : planar_scale.eval .xy f x y = (f * x, f * y) :=
  Option.some.inj (refine_planar_scale .xy f x y)

/-- `rotateZ` is the active (counter-clockwise) rotation by `ang` -/
theorem c02_planar_rotateZ (ang x y : ℝ) :
    planar_rotateZ.eval .xy ang x y = (x * cos ang - y * sin ang, x * sin ang + y * cos ang) :=
  Option.some.inj (refine_planar_rotateZ .xy ang x y)

theorem c02_planar_transform2D (xx xy yx yy x y : ℝ) :
    planar_transform2D.eval .xy xx xy yx yy x y = (xx * x + xy * y, yx * x + yy * y) :=
  Option.some.inj (refine_planar_transform2D .xy xx xy yx yy x y)

theorem c02_planar_unit (x y : ℝ) (h : 0 < x ^ 2 + y ^ 2) :
    planar_unit.eval .xy x y = (x / sqrt (x ^ 2 + y ^ 2), y / sqrt (x ^ 2 + y ^ 2)) :=
  Option.some.inj (refine_planar_unit .xy x y (Real.sqrt_pos.mpr h))

/-- `deltaphi` (every key pair): in `[-π, π)` and congruent to `φ₁ − φ₂` modulo 2π -/
theorem c02_planar_deltaphi (k0 k1 : Az) (a0 a1 a2 a3 : ℝ) :
    (-π ≤ planar_deltaphi.eval k0 k1 a0 a1 a2 a3 ∧ planar_deltaphi.eval k0 k1 a0 a1 a2 a3 < π) ∧
      ∃ n : ℤ, planar_deltaphi.eval k0 k1 a0 a1 a2 a3
        = planar_phi.eval k0 a0 a1 - planar_phi.eval k1 a2 a3 - n * (2 * π) :=
  refine_planar_deltaphi k0 k1 a0 a1 a2 a3

example : (0 : ℝ) < 3 ^ 2 + 4 ^ 2 := by norm_num

/-! ## 3D accessors at the Cartesian key -/

theorem c02_spatial_z (x y z : ℝ) : spatial_z.eval .xy .z x y z = z := rfl

theorem c02_spatial_mag2 (x y z : ℝ) : spatial_mag2.eval .xy .z x y z = x ^ 2 + y ^ 2 + z ^ 2 :=
  refine_spatial_mag2 .xy .z x y z trivial

theorem c02_spatial_mag (x y z : ℝ) : spatial_mag.eval .xy .z x y z = sqrt (x ^ 2 + y ^ 2 + z ^ 2) :=
  refine_spatial_mag .xy .z x y z trivial trivial

/-- `cos θ = z / |p|` -/
theorem c02_spatial_costheta (x y z : ℝ) (h : 0 < x ^ 2 + y ^ 2 + z ^ 2) :
    spatial_costheta.eval .xy .z x y z = z / sqrt (x ^ 2 + y ^ 2 + z ^ 2) :=
  refine_spatial_costheta .xy .z x y z ⟨trivial, trivial⟩ h

/-- `θ = arccos (z / |p|)` -/
theorem c02_spatial_theta (x y z : ℝ) (h : 0 < x ^ 2 + y ^ 2 + z ^ 2) :
    spatial_theta.eval .xy .z x y z = arccos (z / sqrt (x ^ 2 + y ^ 2 + z ^ 2)) :=
  refine_spatial_theta .xy .z x y z ⟨trivial, trivial⟩ h

/-- `cot θ = z / ρ` -/
theorem c02_spatial_cottheta (x y z : ℝ) (h : 0 < x ^ 2 + y ^ 2) :
    spatial_cottheta.eval .xy .z x y z = z / sqrt (x ^ 2 + y ^ 2) :=
  refine_spatial_cottheta .xy .z x y z (Real.sqrt_pos.mpr h) trivial

/-- `η = arsinh (z / ρ)` -/
theorem c02_spatial_eta (x y z : ℝ) (h : 0 < x ^ 2 + y ^ 2) :
    spatial_eta.eval .xy .z x y z = arsinh (z / sqrt (x ^ 2 + y ^ 2)) :=
  refine_spatial_eta .xy .z x y z (Real.sqrt_pos.mpr h) trivial

/-- the θ and η read back from any representable storage reproduce the denoted `z` (`z = ρ cot θ = ρ sinh η`) -/
theorem c02_spatial_theta_roundtrip (k0 : Az) (k1 : Lon) (a b c : ℝ) (hr : 0 < rhoOf k0 a b) :
    rhoOf k0 a b * (cos (spatial_theta.eval k0 k1 a b c) / sin (spatial_theta.eval k0 k1 a b c)) = zOf k0 k1 a b c :=
  refine_spatial_theta_zOf k0 k1 a b c hr
theorem c02_spatial_eta_roundtrip (k0 : Az) (k1 : Lon) (a b c : ℝ) (hr : 0 < rhoOf k0 a b)
    (h : CanonLon k0 k1 a b c) :
    rhoOf k0 a b * sinh (spatial_eta.eval k0 k1 a b c) = zOf k0 k1 a b c :=
  refine_spatial_eta_zOf k0 k1 a b c hr h

/-! ## 3D operations at the Cartesian key -/

theorem c02_spatial_dot (x1 y1 z1 x2 y2 z2 : ℝ) :
    spatial_dot.eval .xy .z .xy .z x1 y1 z1 x2 y2 z2 = x1 * x2 + y1 * y2 + z1 * z2 :=
  refine_spatial_dot .xy .z .xy .z x1 y1 z1 x2 y2 z2 trivial trivial

theorem c02_spatial_cross (x1 y1 z1 x2 y2 z2 : ℝ) :
    spatial_cross.eval .xy .z .xy .z x1 y1 z1 x2 y2 z2 = (y1 * z2 - z1 * y2, z1 * x2 - x1 * z2, x1 * y2 - y1 * x2) :=
  Option.some.inj (refine_spatial_cross .xy .z .xy .z x1 y1 z1 x2 y2 z2 trivial trivial)

theorem c02_spatial_add (x1 y1 z1 x2 y2 z2 : ℝ) :
    spatial_add.eval .xy .z .xy .z x1 y1 z1 x2 y2 z2 = (x1 + x2, y1 + y2, z1 + z2) :=
  Option.some.inj (refine_spatial_add .xy .z .xy .z x1 y1 z1 x2 y2 z2 trivial trivial (Or.inl rfl))

theorem c02_spatial_subtract (x1 y1 z1 x2 y2 z2 : ℝ) :
    spatial_subtract.eval .xy .z .xy .z x1 y1 z1 x2 y2 z2 = (x1 - x2, y1 - y2, z1 - z2) :=
  Option.some.inj (refine_spatial_subtract .xy .z .xy .z x1 y1 z1 x2 y2 z2 trivial trivial (Or.inl rfl))

theorem c02_spatial_scale (f x y z : ℝ) : spatial_scale.eval .xy .z f x y z = (f * x, f * y, f * z) :=
  Option.some.inj (refine_spatial_scale .xy .z f x y z trivial)

theorem c02_spatial_unit (x y z : ℝ) (h : 0 < x ^ 2 + y ^ 2 + z ^ 2) :
    spatial_unit.eval .xy .z x y z
      = (1 / sqrt (x ^ 2 + y ^ 2 + z ^ 2) * x, 1 / sqrt (x ^ 2 + y ^ 2 + z ^ 2) * y,
         1 / sqrt (x ^ 2 + y ^ 2 + z ^ 2) * z) :=
  Option.some.inj (refine_spatial_unit .xy .z x y z ⟨trivial, trivial⟩ h)

/-- `rotateX` / `rotateY`: active right-handed rotations about the x / y axis -/
theorem c02_spatial_rotateX (ang x y z : ℝ) :
    spatial_rotateX.eval .xy .z ang x y z = (x, y * cos ang - z * sin ang, y * sin ang + z * cos ang) :=
  refine_spatial_rotateX_cart ang x y z

theorem c02_spatial_rotateY (ang x y z : ℝ) :
    spatial_rotateY.eval .xy .z ang x y z = (x * cos ang + z * sin ang, y, -x * sin ang + z * cos ang) :=
  refine_spatial_rotateY_cart ang x y z

theorem c02_spatial_transform3D (xx xy xz yx yy yz zx zy zz x y z : ℝ) :
    spatial_transform3D.eval .xy .z xx xy xz yx yy yz zx zy zz x y z
      = mat3 xx xy xz yx yy yz zx zy zz (x, y, z) :=
  Option.some.inj (refine_spatial_transform3D_interp .xy .z xx xy xz yx yy yz zx zy zz x y z trivial)

/-- `rotate_quaternion`: the matrix of `v ↦ q v q̄` for `q = u + i î + j ĵ + k k̂` (ROOT's convention) -/
theorem c02_spatial_rotate_quaternion (u i j k x y z : ℝ) :
    spatial_rotate_quaternion.eval .xy .z u i j k x y z
      = mat3 (u * u + i * i - j * j - k * k) (2 * (i * j - u * k)) (2 * (u * j + i * k))
             (2 * (i * j + u * k)) (u * u - i * i + j * j - k * k) (2 * (j * k - u * i))
             (2 * (i * k - u * j)) (2 * (j * k + u * i)) (u * u - i * i - j * j + k * k) (x, y, z) := rfl

/-- `rotate_axis`: Rodrigues' formula about the normalised axis `(ux, uy, uz) / |u|` -/
theorem c02_spatial_rotate_axis (ang ux uy uz x y z : ℝ) (_h : 0 < ux ^ 2 + uy ^ 2 + uz ^ 2) :
    spatial_rotate_axis.eval .xy .z .xy .z ang ux uy uz x y z
      = Spec10.rod (ux / sqrt (ux ^ 2 + uy ^ 2 + uz ^ 2)) (uy / sqrt (ux ^ 2 + uy ^ 2 + uz ^ 2))
          (uz / sqrt (ux ^ 2 + uy ^ 2 + uz ^ 2)) (cos ang) (sin ang) x y z :=
  c10_rotate_axis_eq_rod ang ux uy uz x y z

/-- `rotate_axis` with a unit-quaternion spelling: `q = (cos(a/2), n sin(a/2))` -/
theorem c02_spatial_rotate_quaternion_axis (a n1 n2 n3 x y z : ℝ) (hn : n1 ^ 2 + n2 ^ 2 + n3 ^ 2 = 1) :
    spatial_rotate_quaternion.eval .xy .z (cos (a / 2)) (n1 * sin (a / 2)) (n2 * sin (a / 2)) (n3 * sin (a / 2)) x y z
      = spatial_rotate_axis.eval .xy .z .xy .z a n1 n2 n3 x y z :=
  c10_quaternion_eq_rotate_axis_unit a n1 n2 n3 x y z hn

/-- `rotate_euler(φ, θ, ψ, order = o₁o₂o₃) v = R_{o₁}(−ψ) (R_{o₂}(−θ) (R_{o₃}(−φ) v))` (ROOT's convention) -/
theorem c02_spatial_rotate_euler (o : Ord) (phi theta psi x y z : ℝ) :
    spatial_rotate_euler.eval .xy .z o phi theta psi x y z
      = Spec10.R (Spec10.axes o).1 (-psi) (Spec10.R (Spec10.axes o).2.1 (-theta)
          (Spec10.R (Spec10.axes o).2.2 (-phi) (x, y, z))) :=
  c10_euler_eval o phi theta psi x y z

/-! ## 3D delta functions at the Cartesian key -/

/-- `deltaeta = η₁ − η₂`, `η = arsinh (z / ρ)` -/
theorem c02_spatial_deltaeta (x1 y1 z1 x2 y2 z2 : ℝ) (h1 : 0 < x1 ^ 2 + y1 ^ 2) (h2 : 0 < x2 ^ 2 + y2 ^ 2) :
    spatial_deltaeta.eval .xy .z .xy .z x1 y1 z1 x2 y2 z2
      = arsinh (z1 / sqrt (x1 ^ 2 + y1 ^ 2)) - arsinh (z2 / sqrt (x2 ^ 2 + y2 ^ 2)) :=
  refine_spatial_deltaeta .xy .z .xy .z x1 y1 z1 x2 y2 z2 (Real.sqrt_pos.mpr h1) (Real.sqrt_pos.mpr h2) trivial trivial

/-- `deltaR² = Δφ² + Δη²` and `deltaR = √(deltaR²)`, for every key -/
theorem c02_spatial_deltaR2 (k0 : Az) (k1 : Lon) (k2 : Az) (k3 : Lon) (a b c d e f : ℝ) :
    spatial_deltaR2.eval k0 k1 k2 k3 a b c d e f
      = planar_deltaphi.eval k0 k2 a b d e ^ 2 + spatial_deltaeta.eval k0 k1 k2 k3 a b c d e f ^ 2 := by
  cases k0 <;> cases k1 <;> cases k2 <;> cases k3 <;> rfl

theorem c02_spatial_deltaR (k0 : Az) (k1 : Lon) (k2 : Az) (k3 : Lon) (a b c d e f : ℝ) :
    spatial_deltaR.eval k0 k1 k2 k3 a b c d e f = sqrt (spatial_deltaR2.eval k0 k1 k2 k3 a b c d e f) :=
  refine_spatial_deltaR k0 k1 k2 k3 a b c d e f

/-- written out at the Cartesian key -/
theorem c02_spatial_deltaR2_cart (x1 y1 z1 x2 y2 z2 : ℝ) (h1 : 0 < x1 ^ 2 + y1 ^ 2) (h2 : 0 < x2 ^ 2 + y2 ^ 2) :
    spatial_deltaR2.eval .xy .z .xy .z x1 y1 z1 x2 y2 z2
      = (P.mod (P.arctan2 y1 x1 - P.arctan2 y2 x2 + π) (2 * π) - π) ^ 2
        + (arsinh (z1 / sqrt (x1 ^ 2 + y1 ^ 2)) - arsinh (z2 / sqrt (x2 ^ 2 + y2 ^ 2))) ^ 2 :=
  refine_spatial_deltaR2 .xy .z .xy .z x1 y1 z1 x2 y2 z2 (Real.sqrt_pos.mpr h1) (Real.sqrt_pos.mpr h2) trivial trivial

/-- `deltaangle = arccos (clamp (p₁·p₂ / (|p₁| |p₂|)))` -/
theorem c02_spatial_deltaangle (x1 y1 z1 x2 y2 z2 : ℝ) :
    spatial_deltaangle.eval .xy .z .xy .z x1 y1 z1 x2 y2 z2
      = arccos (max (-1) (min 1 ((x1 * x2 + y1 * y2 + z1 * z2)
          / sqrt (x1 ^ 2 + y1 ^ 2 + z1 ^ 2) / sqrt (x2 ^ 2 + y2 ^ 2 + z2 ^ 2)))) :=
  refine_spatial_deltaangle .xy .z .xy .z x1 y1 z1 x2 y2 z2 trivial trivial trivial trivial
    (fun h => nomatch h) (fun h => nomatch h)

/-! ## 4D accessors at the Cartesian key -/

theorem c02_lorentz_t (x y z t : ℝ) : lorentz_t.eval .xy .z .t x y z t = t := rfl
theorem c02_lorentz_t2 (x y z t : ℝ) : lorentz_t2.eval .xy .z .t x y z t = t ^ 2 := rfl

/-- `τ² = t² − |p|²` -/
theorem c02_lorentz_tau2 (x y z t : ℝ) : lorentz_tau2.eval .xy .z .t x y z t = t ^ 2 - (x ^ 2 + y ^ 2 + z ^ 2) :=
  refine_lorentz_tau2 .xy .z .t x y z t trivial trivial

/-- `τ = sign(τ²) √|τ²|` (negative for space-like vectors) -/
theorem c02_lorentz_tau (x y z t : ℝ) :
    lorentz_tau.eval .xy .z .t x y z t
      = Real.sign (t ^ 2 - (x ^ 2 + y ^ 2 + z ^ 2)) * sqrt |t ^ 2 - (x ^ 2 + y ^ 2 + z ^ 2)| :=
  refine_lorentz_tau .xy .z .t x y z t trivial trivial

theorem c02_lorentz_tau_timelike (x y z t : ℝ) (h : 0 < t ^ 2 - (x ^ 2 + y ^ 2 + z ^ 2)) :
    lorentz_tau.eval .xy .z .t x y z t = sqrt (t ^ 2 - (x ^ 2 + y ^ 2 + z ^ 2)) :=
  refine_lorentz_tau_pos .xy .z .t x y z t trivial trivial h

/-- `β = |p| / t` -/
theorem c02_lorentz_beta (x y z t : ℝ) (ht : t ≠ 0) :
    lorentz_beta.eval .xy .z .t x y z t = sqrt (x ^ 2 + y ^ 2 + z ^ 2) / t :=
  refine_lorentz_beta .xy .z .t x y z t ⟨trivial, trivial⟩ trivial ht

/-- `γ = t / τ` -/
theorem c02_lorentz_gamma (x y z t : ℝ) (h : 0 < t ^ 2 - (x ^ 2 + y ^ 2 + z ^ 2)) :
    lorentz_gamma.eval .xy .z .t x y z t = t / sqrt (t ^ 2 - (x ^ 2 + y ^ 2 + z ^ 2)) :=
  refine_lorentz_gamma .xy .z .t x y z t trivial trivial h

/-- rapidity `½ log((t + z)/(t − z))` -/
theorem c02_lorentz_rapidity (x y z t : ℝ) (h : |z| < t) :
    lorentz_rapidity.eval .xy .z .t x y z t = 1 / 2 * Real.log ((t + z) / (t - z)) :=
  refine_lorentz_rapidity .xy .z .t x y z t trivial trivial trivial h

/-- `Et² = t² ρ² / |p|²` (`= (t sin θ)²`) -/
theorem c02_lorentz_Et2 (x y z t : ℝ) (h : 0 < x ^ 2 + y ^ 2 + z ^ 2) :
    lorentz_Et2.eval .xy .z .t x y z t = t ^ 2 * (x ^ 2 + y ^ 2) / (x ^ 2 + y ^ 2 + z ^ 2) := by
  have e := refine_lorentz_Et2 .xy .z .t x y z t trivial trivial h
  have r : rhoOf .xy x y ^ 2 = x ^ 2 + y ^ 2 := L.sq_sqrt_sumsq x y
  rw [r] at e
  exact e

theorem c02_lorentz_Et (x y z t : ℝ) (h : 0 < x ^ 2 + y ^ 2 + z ^ 2) (ht : 0 ≤ t) :
    lorentz_Et.eval .xy .z .t x y z t = sqrt (t ^ 2 * (x ^ 2 + y ^ 2) / (x ^ 2 + y ^ 2 + z ^ 2)) := by
  have e := refine_lorentz_Et .xy .z .t x y z t ⟨trivial, trivial⟩ trivial h ht
  have r : rhoOf .xy x y ^ 2 = x ^ 2 + y ^ 2 := L.sq_sqrt_sumsq x y
  rw [r] at e
  exact e

/-- `Mt² = t² − z²`, `Mt = √(t² − z²)` -/
theorem c02_lorentz_Mt2 (x y z t : ℝ) : lorentz_Mt2.eval .xy .z .t x y z t = t ^ 2 - z ^ 2 :=
  refine_lorentz_Mt2 .xy .z .t x y z t trivial trivial

theorem c02_lorentz_Mt (x y z t : ℝ) (h : 0 ≤ t ^ 2 - z ^ 2) :
    lorentz_Mt.eval .xy .z .t x y z t = sqrt (t ^ 2 - z ^ 2) :=
  refine_lorentz_Mt .xy .z .t x y z t trivial trivial h

/-- `to_beta3 = p / t` -/
theorem c02_lorentz_to_beta3 (x y z t : ℝ) (ht : t ≠ 0) :
    lorentz_to_beta3.eval .xy .z .t x y z t = (x / t, y / t, z / t) :=
  Option.some.inj (refine_lorentz_to_beta3_ne_zero .xy .z .t x y z t trivial trivial ht (fun _ => Or.inl rfl))

/-! ## 4D operations at the Cartesian key -/

/-- the Minkowski product, metric (−,−,−,+) -/
theorem c02_lorentz_dot (x1 y1 z1 t1 x2 y2 z2 t2 : ℝ) :
    lorentz_dot.eval .xy .z .t .xy .z .t x1 y1 z1 t1 x2 y2 z2 t2 = t1 * t2 - x1 * x2 - y1 * y2 - z1 * z2 :=
  refine_lorentz_dot .xy .z .t .xy .z .t x1 y1 z1 t1 x2 y2 z2 t2 trivial trivial trivial trivial trivial trivial

theorem c02_lorentz_add (x1 y1 z1 t1 x2 y2 z2 t2 : ℝ) :
    lorentz_add.eval .xy .z .t .xy .z .t x1 y1 z1 t1 x2 y2 z2 t2 = (x1 + x2, y1 + y2, z1 + z2, t1 + t2) :=
  Option.some.inj (refine_lorentz_add .xy .z .t .xy .z .t x1 y1 z1 t1 x2 y2 z2 t2
    trivial trivial trivial trivial trivial trivial (Or.inl rfl))

theorem c02_lorentz_subtract (x1 y1 z1 t1 x2 y2 z2 t2 : ℝ) :
    lorentz_subtract.eval .xy .z .t .xy .z .t x1 y1 z1 t1 x2 y2 z2 t2 = (x1 - x2, y1 - y2, z1 - z2, t1 - t2) :=
  Option.some.inj (refine_lorentz_subtract .xy .z .t .xy .z .t x1 y1 z1 t1 x2 y2 z2 t2
    trivial trivial trivial trivial trivial trivial (Or.inl rfl) (fun h => nomatch h))

theorem c02_lorentz_scale (f x y z t : ℝ) : lorentz_scale.eval .xy .z .t f x y z t = (f * x, f * y, f * z, f * t) :=
  Option.some.inj (refine_lorentz_scale_partial .xy .z .t f x y z t trivial (fun h => nomatch h))

/-- `unit = p / √|t² − |p|²|` -/
theorem c02_lorentz_unit (x y z t : ℝ) (h : t ^ 2 - (x ^ 2 + y ^ 2 + z ^ 2) ≠ 0) :
    lorentz_unit.eval .xy .z .t x y z t
      = smul4 (1 / sqrt |t ^ 2 - (x ^ 2 + y ^ 2 + z ^ 2)|) (x, y, z, t) :=
  Option.some.inj (refine_lorentz_unit .xy .z .t x y z t trivial trivial h)

theorem c02_lorentz_transform4D (xx xy xz xt yx yy yz yt zx zy zz zt tx ty tz tt x y z t : ℝ) :
    lorentz_transform4D.eval .xy .z .t xx xy xz xt yx yy yz yt zx zy zz zt tx ty tz tt x y z t
      = transform4 xx xy xz xt yx yy yz yt zx zy zz zt tx ty tz tt (x, y, z, t) :=
  Option.some.inj (refine_lorentz_transform4D .xy .z .t xx xy xz xt yx yy yz yt zx zy zz zt tx ty tz tt x y z t
    trivial trivial trivial)

/-! ## boosts at the Cartesian key: `x' = γ x + βγ t`, `t' = βγ x + γ t`, `γ = 1/√(1 − β²)` -/

theorem c02_lorentz_boostX_beta (β x y z t : ℝ) (hβ : |β| < 1) :
    lorentz_boostX_beta.eval .xy .z .t β x y z t
      = boostX (1 / sqrt (1 - β ^ 2)) (β * (1 / sqrt (1 - β ^ 2))) (x, y, z, t) := by
  have hpos : 0 ≤ 1 - β ^ 2 := by
    have := abs_nonneg β
    have : β ^ 2 < 1 := by rw [← sq_abs]; nlinarith
    linarith
  rw [← rpow_neg_half hpos]
  exact Option.some.inj (refine_lorentz_boostX_beta_spec .xy .z .t β x y z t trivial trivial trivial hβ)

theorem c02_lorentz_boostY_beta (β x y z t : ℝ) (hβ : |β| < 1) :
    lorentz_boostY_beta.eval .xy .z .t β x y z t
      = boostY (1 / sqrt (1 - β ^ 2)) (β * (1 / sqrt (1 - β ^ 2))) (x, y, z, t) := by
  have hpos : 0 ≤ 1 - β ^ 2 := by
    have := abs_nonneg β
    have : β ^ 2 < 1 := by rw [← sq_abs]; nlinarith
    linarith
  rw [← rpow_neg_half hpos]
  exact Option.some.inj (refine_lorentz_boostY_beta_spec .xy .z .t β x y z t trivial trivial trivial hβ)

theorem c02_lorentz_boostZ_beta (β x y z t : ℝ) (hβ : |β| < 1) :
    lorentz_boostZ_beta.eval .xy .z .t β x y z t
      = boostZ (1 / sqrt (1 - β ^ 2)) (β * (1 / sqrt (1 - β ^ 2))) (x, y, z, t) := by
  have hpos : 0 ≤ 1 - β ^ 2 := by
    have := abs_nonneg β
    have : β ^ 2 < 1 := by rw [← sq_abs]; nlinarith
    linarith
  rw [← rpow_neg_half hpos]
  exact Option.some.inj (refine_lorentz_boostZ_beta_spec .xy .z .t β x y z t trivial trivial trivial hβ)

/-- `boost*_gamma(γ)`: `|γ|` is the Lorentz factor, the sign of `γ` the direction (`βγ = sign(γ) √(γ² − 1)`) -/
theorem c02_lorentz_boostX_gamma (γ x y z t : ℝ) (hγ : 1 ≤ |γ|) :
    lorentz_boostX_gamma.eval .xy .z .t γ x y z t
      = boostX |γ| (P.copysign (sqrt (|γ| ^ 2 - 1)) γ) (x, y, z, t) :=
  Option.some.inj (refine_lorentz_boostX_gamma_spec .xy .z .t γ x y z t trivial trivial trivial hγ)

theorem c02_lorentz_boostY_gamma (γ x y z t : ℝ) (hγ : 1 ≤ |γ|) :
    lorentz_boostY_gamma.eval .xy .z .t γ x y z t
      = boostY |γ| (P.copysign (sqrt (|γ| ^ 2 - 1)) γ) (x, y, z, t) :=
  Option.some.inj (refine_lorentz_boostY_gamma_spec .xy .z .t γ x y z t trivial trivial trivial hγ)

theorem c02_lorentz_boostZ_gamma (γ x y z t : ℝ) (hγ : 1 ≤ |γ|) :
    lorentz_boostZ_gamma.eval .xy .z .t γ x y z t
      = boostZ |γ| (P.copysign (sqrt (|γ| ^ 2 - 1)) γ) (x, y, z, t) :=
  Option.some.inj (refine_lorentz_boostZ_gamma_spec .xy .z .t γ x y z t trivial trivial trivial hγ)

/-- general boost by the velocity `β⃗`: `γ = 1/√(1 − |β|²)`, `u = γ β⃗`, `p' = p + (u·p/(γ+1) + t) u`, `t' = u·p + γ t` -/
theorem c02_lorentz_boost_beta3 (x y z t bx by' bz : ℝ) (_h : bx ^ 2 + by' ^ 2 + bz ^ 2 < 1) :
    lorentz_boost_beta3.eval .xy .z .t .xy .z x y z t bx by' bz
      = boostU (1 / sqrt (1 - (bx ^ 2 + by' ^ 2 + bz ^ 2))) (1 / sqrt (1 - (bx ^ 2 + by' ^ 2 + bz ^ 2)) * bx)
          (1 / sqrt (1 - (bx ^ 2 + by' ^ 2 + bz ^ 2)) * by') (1 / sqrt (1 - (bx ^ 2 + by' ^ 2 + bz ^ 2)) * bz)
          (x, y, z, t) :=
  refine_lorentz_boost_beta3_cart_t x y z t bx by' bz

/-- general boost by the four-velocity `p₂ / M` of a time-like momentum `p₂`, `M = √(t₂² − |p₂|²)` -/
theorem c02_lorentz_boost_p4 (x1 y1 z1 t1 x2 y2 z2 t2 : ℝ) (hM : 0 < t2 ^ 2 - (x2 ^ 2 + y2 ^ 2 + z2 ^ 2)) :
    lorentz_boost_p4.eval .xy .z .t .xy .z .t x1 y1 z1 t1 x2 y2 z2 t2
      = boostU (t2 / sqrt (t2 ^ 2 - (x2 ^ 2 + y2 ^ 2 + z2 ^ 2))) (x2 / sqrt (t2 ^ 2 - (x2 ^ 2 + y2 ^ 2 + z2 ^ 2)))
          (y2 / sqrt (t2 ^ 2 - (x2 ^ 2 + y2 ^ 2 + z2 ^ 2))) (z2 / sqrt (t2 ^ 2 - (x2 ^ 2 + y2 ^ 2 + z2 ^ 2)))
          (x1, y1, z1, t1) :=
  refine_lorentz_boost_p4_cart_t x1 y1 z1 t1 x2 y2 z2 t2 hM

/-- `deltaRapidityPhi² = Δφ² + Δy²`, `deltaRapidityPhi = √(…)` -/
theorem c02_lorentz_deltaRapidityPhi2 (x1 y1 z1 t1 x2 y2 z2 t2 : ℝ) (h1 : |z1| < t1) (h2 : |z2| < t2) :
    lorentz_deltaRapidityPhi2.eval .xy .z .t .xy .z .t x1 y1 z1 t1 x2 y2 z2 t2
      = planar_deltaphi.eval .xy .xy x1 y1 x2 y2 ^ 2
        + (1 / 2 * Real.log ((t1 + z1) / (t1 - z1)) - 1 / 2 * Real.log ((t2 + z2) / (t2 - z2))) ^ 2 :=
  refine_lorentz_deltaRapidityPhi2 .xy .z .t .xy .z .t x1 y1 z1 t1 x2 y2 z2 t2
    trivial trivial trivial trivial trivial trivial h1 h2

theorem c02_lorentz_deltaRapidityPhi (k0 : Az) (k1 : Lon) (k2 : Tmp) (k3 : Az) (k4 : Lon) (k5 : Tmp)
    (a0 a1 a2 a3 a4 a5 a6 a7 : ℝ) :
    lorentz_deltaRapidityPhi.eval k0 k1 k2 k3 k4 k5 a0 a1 a2 a3 a4 a5 a6 a7
      = sqrt (lorentz_deltaRapidityPhi2.eval k0 k1 k2 k3 k4 k5 a0 a1 a2 a3 a4 a5 a6 a7) :=
  lorentz_deltaRapidityPhi_eval_eq k0 k1 k2 k3 k4 k5 a0 a1 a2 a3 a4 a5 a6 a7

example : |(1 / 2 : ℝ)| < 1 ∧ (1 : ℝ) ≤ |(-2)| ∧ (0 : ℝ) < 2 ^ 2 - (1 ^ 2 + 0 ^ 2 + 0 ^ 2) ∧ |(1 : ℝ)| < 2 := by
  refine ⟨?_, ?_, by norm_num, ?_⟩
  · rw [abs_of_pos] <;> norm_num
  · rw [abs_of_neg] <;> norm_num
  · rw [abs_of_pos] <;> norm_num

end VR
