/-
Property C20 — "Operations leave no trace in global state and are thread-deterministic".

Statements about the hand-written model `Glue/Global.lean`, for ALL result types `α`, ALL operation bodies (returning
or raising), ALL threads, ALL call sequences and ALL schedules:

1. one operation (`op` = the `with numpy.errstate(all="ignore")` bracket around a body that cannot write the state)
   leaves the global state exactly as before, whether it returns or raises; also nested brackets;
2. sequences of operations and registrations: only the two registration flags can change, and only to `true`;
   `registerAwkward` / `registerNumba` are idempotent, commute, and change nothing but their flag;
3. thread determinism, coarse: whole operations as atomic `(tid, opIndex)` steps — under ANY schedule every result is
   the sequential one, each thread sees exactly the results of its own sub-schedule, adjacent steps commute;
4. thread determinism, fine: the three phases of an operation (enter bracket / compute / leave bracket) as atomic
   steps — under ANY interleaving each thread's results are a prefix of (when it has finished: equal to) its
   sequential results, and whenever all threads are between operations the global state is the initial one;
   steps of different threads commute.
-/
import VectorModel.Glue.Global

set_option linter.unusedVariables false
set_option linter.unusedSimpArgs false
namespace VG

section
variable {α : Type}

/-! ## 1. one operation -/

@[simp] theorem G.setErr_err (g : G) (t u : Tid) (e : ErrState) :
    (g.setErr t e).err u = if u = t then e else g.err u := rfl

@[simp] theorem G.setErr_warningsFilters (g : G) (t : Tid) (e : ErrState) :
    (g.setErr t e).warningsFilters = g.warningsFilters := rfl
@[simp] theorem G.setErr_printOptions (g : G) (t : Tid) (e : ErrState) :
    (g.setErr t e).printOptions = g.printOptions := rfl
@[simp] theorem G.setErr_ak (g : G) (t : Tid) (e : ErrState) :
    (g.setErr t e).akBehaviorRegistered = g.akBehaviorRegistered := rfl
@[simp] theorem G.setErr_numba (g : G) (t : Tid) (e : ErrState) :
    (g.setErr t e).numbaRegistered = g.numbaRegistered := rfl

theorem G.ext' {g g' : G} (h1 : ∀ t, g.err t = g'.err t) (h2 : g.sameGlobals g') : g = g' := by
  obtain ⟨e, w, p, a, n⟩ := g
  obtain ⟨e', w', p', a', n'⟩ := g'
  obtain ⟨hw, hp, ha, hn⟩ := h2
  simp only at hw hp ha hn
  have : e = e' := funext h1
  subst this hw hp ha hn
  rfl

/-- setting a thread's error state twice = setting it once -/
theorem c20_setErr_setErr (g : G) (t : Tid) (e e' : ErrState) : (g.setErr t e).setErr t e' = g.setErr t e' := by
  apply G.ext'
  · intro u; by_cases h : u = t <;> simp [h]
  · exact ⟨rfl, rfl, rfl, rfl⟩

/-- restoring the saved value gives back the state -/
theorem c20_setErr_restore (g : G) (t : Tid) : g.setErr t (g.err t) = g := by
  apply G.ext'
  · intro u; by_cases h : u = t <;> simp [h]
  · exact ⟨rfl, rfl, rfl, rfl⟩

/-- error states of different threads are independent -/
theorem c20_setErr_comm (g : G) (t u : Tid) (e e' : ErrState) (h : t ≠ u) :
    (g.setErr t e).setErr u e' = (g.setErr u e').setErr t e := by
  apply G.ext'
  · intro w
    by_cases h1 : w = t <;> by_cases h2 : w = u
    · exact absurd (h1.symm.trans h2) h
    · subst h1; simp [h2]
    · subst h2; simp [h1]
    · simp [h1, h2]
  · exact ⟨rfl, rfl, rfl, rfl⟩

/-- MAIN (single call): after any operation, returning or raising, the global state is exactly as before -/
theorem c20_op_restores (t : Tid) (body : G → Except Err α) (g : G) : (op t body g).2 = g := by
  simp only [op, bracket]
  rw [c20_setErr_setErr, c20_setErr_restore]

/-- the value (or exception) of the operation is the body's, computed with everything ignored on the calling thread -/
theorem c20_op_result (t : Tid) (body : G → Except Err α) (g : G) :
    (op t body g).1 = body (g.setErr t .ignoreAll) := rfl

/-- in particular when the body raises -/
theorem c20_op_raise_restores (t : Tid) (body : G → Except Err α) (g : G) (e : Err)
    (h : (op t body g).1 = .error e) : (op t body g).2 = g := c20_op_restores t body g

/-- and when it returns -/
theorem c20_op_return_restores (t : Tid) (body : G → Except Err α) (g : G) (a : α)
    (h : (op t body g).1 = .ok a) : (op t body g).2 = g := c20_op_restores t body g

/-- both outcomes occur -/
example (g : G) : (op 0 (fun _ => (.error .typeError : Except Err Nat)) g) = (.error .typeError, g) ∧
    (op 0 (fun _ => (.ok 1 : Except Err Nat)) g) = (.ok 1, g) := by
  constructor <;> exact Prod.ext rfl (c20_op_restores _ _ _)

/-- inside the bracket the body sees "ignore" on its own thread and every other thread's state untouched -/
theorem c20_op_body_view (t u : Tid) (g : G) :
    (g.setErr t .ignoreAll).err t = .ignoreAll ∧ (u ≠ t → (g.setErr t .ignoreAll).err u = g.err u) := by
  constructor
  · simp
  · intro h; simp [h]

/-- general bracket: a body that itself changes the calling thread's error state (and nothing else) — e.g. a nested
`numpy.errstate`, or `numpy.seterr` inside — still leaves no trace -/
theorem c20_bracket_restores (t : Tid) (body : G → Except Err α × G) (g : G)
    (h : ∃ e, (body (g.setErr t .ignoreAll)).2 = (g.setErr t .ignoreAll).setErr t e) :
    (bracket t body g).2 = g := by
  obtain ⟨e, he⟩ := h
  simp only [bracket, he]
  rw [c20_setErr_setErr, c20_setErr_setErr, c20_setErr_restore]

/-- nested operations (a `dispatch()` calling another `dispatch()` on the same thread) -/
theorem c20_op_nested (t : Tid) (body : G → Except Err α) (g : G) :
    (bracket t (fun g' => op t body g') g).2 = g := by
  apply c20_bracket_restores
  refine ⟨.ignoreAll, ?_⟩
  rw [c20_op_restores, c20_setErr_setErr]

/-! ## 2. sequences; registration -/

theorem c20_registerAwkward_idem (g : G) : registerAwkward (registerAwkward g) = registerAwkward g := rfl
theorem c20_registerNumba_idem (g : G) : registerNumba (registerNumba g) = registerNumba g := rfl

/-- `register_awkward` changes nothing but its flag -/
theorem c20_registerAwkward_only_flag (g : G) :
    (registerAwkward g).akBehaviorRegistered = true ∧ (registerAwkward g).err = g.err ∧
    (registerAwkward g).warningsFilters = g.warningsFilters ∧ (registerAwkward g).printOptions = g.printOptions ∧
    (registerAwkward g).numbaRegistered = g.numbaRegistered := ⟨rfl, rfl, rfl, rfl, rfl⟩

theorem c20_registerNumba_only_flag (g : G) :
    (registerNumba g).numbaRegistered = true ∧ (registerNumba g).err = g.err ∧
    (registerNumba g).warningsFilters = g.warningsFilters ∧ (registerNumba g).printOptions = g.printOptions ∧
    (registerNumba g).akBehaviorRegistered = g.akBehaviorRegistered := ⟨rfl, rfl, rfl, rfl, rfl⟩

/-- once registered, registering again is a no-op -/
theorem c20_registerAwkward_noop (g : G) (h : g.akBehaviorRegistered = true) : registerAwkward g = g := by
  obtain ⟨e, w, p, a, n⟩ := g
  simp only at h
  subst h
  rfl

theorem c20_register_comm (g : G) : registerAwkward (registerNumba g) = registerNumba (registerAwkward g) := rfl

/-- the state after a sequence of actions, given explicitly -/
def afterActions (as : List (Action α)) (g : G) : G :=
  { g with
    akBehaviorRegistered := g.akBehaviorRegistered || as.any Action.isRegAwkward
    numbaRegistered := g.numbaRegistered || as.any Action.isRegNumba }

/-- MAIN (sequences): after ANY sequence of operations (on any threads, returning or raising) and registrations, the
global state differs from the initial one at most in the two registration flags, which can only have been raised -/
theorem c20_runActions_state (as : List (Action α)) (g : G) : (runActions as g).2 = afterActions as g := by
  induction as generalizing g with
  | nil =>
    obtain ⟨e, w, p, a, n⟩ := g
    simp [runActions, afterActions]
  | cons a as ih =>
    simp only [runActions, ih]
    cases a with
    | call t body =>
      simp only [runAction, c20_op_restores]
      simp [afterActions, Action.isRegAwkward, Action.isRegNumba]
    | regAwkward =>
      obtain ⟨e, w, p, a, n⟩ := g
      simp [runAction, registerAwkward, afterActions, Action.isRegAwkward, Action.isRegNumba]
    | regNumba =>
      obtain ⟨e, w, p, a, n⟩ := g
      simp [runAction, registerNumba, afterActions, Action.isRegAwkward, Action.isRegNumba]

/-- MAIN (sequences of operations): after any sequence of operations on any threads the state is unchanged -/
theorem c20_runActions_calls (as : List (Action α)) (g : G) (h : ∀ a ∈ as, a.isCall = true) :
    (runActions as g).2 = g := by
  rw [c20_runActions_state]
  have h1 : as.any Action.isRegAwkward = false := by
    rw [List.any_eq_false]
    intro a ha
    have := h a ha
    cases a <;> simp_all [Action.isCall, Action.isRegAwkward]
  have h2 : as.any Action.isRegNumba = false := by
    rw [List.any_eq_false]
    intro a ha
    have := h a ha
    cases a <;> simp_all [Action.isCall, Action.isRegNumba]
  obtain ⟨e, w, p, a, n⟩ := g
  simp [afterActions, h1, h2]

/-- the error states, warning filters and print options survive every sequence of actions -/
theorem c20_runActions_untouched (as : List (Action α)) (g : G) :
    (runActions as g).2.err = g.err ∧ (runActions as g).2.warningsFilters = g.warningsFilters ∧
    (runActions as g).2.printOptions = g.printOptions := by
  rw [c20_runActions_state]
  exact ⟨rfl, rfl, rfl⟩

/-- an operation and a registration can be swapped without changing the final state -/
theorem c20_op_register_comm (t : Tid) (body : G → Except Err α) (g : G) :
    (op t body (registerAwkward g)).2 = registerAwkward (op t body g).2 := by
  rw [c20_op_restores, c20_op_restores]

/-! ## 3. coarse schedules: `(tid, opIndex)` steps -/

/-- the state is unchanged after ANY schedule -/
theorem c20_runSched_state (prog : Prog α) (sch : List (Tid × Nat)) (g : G) : (runSched prog sch g).2 = g := by
  induction sch with
  | nil => rfl
  | cons s rest ih =>
    obtain ⟨t, i⟩ := s
    simp only [runSched]
    split
    · exact ih
    · simp only [c20_op_restores]; exact ih

/-- the sequential result of step `(t, i)`: the body run alone from the initial state -/
def seqStep (prog : Prog α) (g : G) (s : Tid × Nat) : Option (Tid × Nat × Except Err α) :=
  ((prog s.1)[s.2]?).map (fun b => (s.1, s.2, b (g.setErr s.1 .ignoreAll)))

/-- MAIN (determinism, coarse): under ANY schedule the log is, step by step, what each step computes alone from the
initial state — no step's result depends on what ran before it, on any thread -/
theorem c20_runSched_log (prog : Prog α) (sch : List (Tid × Nat)) (g : G) :
    (runSched prog sch g).1 = sch.filterMap (seqStep prog g) := by
  induction sch with
  | nil => rfl
  | cons s rest ih =>
    obtain ⟨t, i⟩ := s
    simp only [runSched]
    cases hb : (prog t)[i]? with
    | none => simp [seqStep, hb, ih]
    | some b =>
      simp only [c20_op_restores, ih]
      simp [seqStep, hb, c20_op_result]

/-- each thread's list of results under ANY interleaving equals the results of running that thread's own steps alone,
in its own order (its sequential results) -/
theorem c20_runSched_thread (prog : Prog α) (sch : List (Tid × Nat)) (g : G) (t : Tid) :
    resultsOf t (runSched prog sch g).1 = resultsOf t (runSched prog (sch.filter (fun s => s.1 == t)) g).1 := by
  simp only [c20_runSched_log, resultsOf]
  congr 1
  induction sch with
  | nil => rfl
  | cons s rest ih =>
    obtain ⟨u, i⟩ := s
    by_cases hu : u = t
    · subst hu
      cases hb : (prog u)[i]? with
      | none => simp [seqStep, hb, ih]
      | some b => simp [seqStep, hb, ih]
    · have hne : (u == t) = false := by simpa using hu
      cases hb : (prog u)[i]? with
      | none => simp [seqStep, hb, ih, hne]
      | some b => simp [seqStep, hb, ih, hne]

/-- two schedules that order each thread's own steps the same way give every thread the same results -/
theorem c20_runSched_interleaving (prog : Prog α) (sch sch' : List (Tid × Nat)) (g : G) (t : Tid)
    (h : sch.filter (fun s => s.1 == t) = sch'.filter (fun s => s.1 == t)) :
    resultsOf t (runSched prog sch g).1 = resultsOf t (runSched prog sch' g).1 := by
  rw [c20_runSched_thread prog sch, c20_runSched_thread prog sch', h]

/-- adjacent steps commute: same results for both, same final state -/
theorem c20_op_commute (t u : Tid) (b c : G → Except Err α) (g : G) :
    (op u c (op t b g).2).1 = (op u c g).1 ∧ (op t b (op u c g).2).1 = (op t b g).1 ∧
    (op u c (op t b g).2).2 = (op t b (op u c g).2).2 := by
  simp only [c20_op_restores, and_self]

/-! ## 4. fine schedules: enter / compute / leave as atomic steps -/

@[simp] theorem Sys.setTh_same (s : Sys α) (t : Tid) (x : TState α) : s.setTh t x t = x := by
  simp [Sys.setTh]

theorem Sys.setTh_other (s : Sys α) (t u : Tid) (x : TState α) (h : u ≠ t) : s.setTh t x u = s.th u := by
  simp [Sys.setTh, h]

/-- what the model maintains along every schedule, relative to the initial state `g0` -/
structure Inv (prog : Prog α) (g0 : G) (s : Sys α) : Prop where
  /-- nobody writes the other globals -/
  globals : s.g.sameGlobals g0
  /-- a thread's error state is "ignore" exactly while it is inside an operation -/
  err : ∀ t, s.g.err t = if (s.th t).phase.isIdle then g0.err t else .ignoreAll
  /-- what each thread has saved is its initial error state; what it has computed is the sequential result -/
  saved : ∀ t, match (s.th t).phase with
    | .idle => True
    | .entered sv => sv = g0.err t
    | .computed sv r => sv = g0.err t ∧
        ∃ b rest, (s.th t).todo = b :: rest ∧ r = b (g0.setErr t .ignoreAll)
  /-- results so far ++ sequential results of what is left = sequential results of the whole program -/
  res : ∀ t, (s.th t).results ++ (s.th t).todo.map (fun b => b (g0.setErr t .ignoreAll)) = seqResults prog g0 t
  /-- the remaining bodies are thread-local -/
  loc : ∀ t, ∀ b ∈ (s.th t).todo, LocalTo t b

theorem c20_inv_init (prog : Prog α) (g : G) (hloc : ∀ t, ∀ b ∈ prog t, LocalTo t b) :
    Inv prog g (Sys.init prog g) where
  globals := ⟨rfl, rfl, rfl, rfl⟩
  err := fun t => by simp [Sys.init, Phase.isIdle]
  saved := fun t => by simp [Sys.init]
  res := fun t => by simp [Sys.init, seqResults]
  loc := fun t => hloc t

theorem c20_inv_step (prog : Prog α) (g0 : G) (s : Sys α) (h : Inv prog g0 s) (t : Tid) :
    Inv prog g0 (s.step t) := by
  unfold Sys.step
  split
  · exact h
  · -- enter
    rename_i b rest htodo hphase
    refine ⟨h.globals, ?_, ?_, ?_, ?_⟩
    · intro u
      by_cases hu : u = t
      · subst hu; simp [Phase.isIdle]
      · simp [hu, Sys.setTh_other _ _ _ _ hu, h.err u]
    · intro u
      by_cases hu : u = t
      · subst hu
        have := h.err u
        simp [hphase, Phase.isIdle] at this
        simp [this]
      · simp only [Sys.setTh_other _ _ _ _ hu]; exact h.saved u
    · intro u
      by_cases hu : u = t
      · subst hu; simpa using h.res u
      · simp only [Sys.setTh_other _ _ _ _ hu]; exact h.res u
    · intro u
      by_cases hu : u = t
      · subst hu; simpa using h.loc u
      · simp only [Sys.setTh_other _ _ _ _ hu]; exact h.loc u
  · -- compute
    rename_i b rest saved htodo hphase
    refine ⟨h.globals, ?_, ?_, ?_, ?_⟩
    · intro u
      by_cases hu : u = t
      · subst hu
        have := h.err u
        simp [hphase, Phase.isIdle] at this
        simp [Phase.isIdle, this]
      · simp only [Sys.setTh_other _ _ _ _ hu]; exact h.err u
    · intro u
      by_cases hu : u = t
      · subst hu
        have hs := h.saved u
        simp only [hphase] at hs
        have he := h.err u
        simp [hphase, Phase.isIdle] at he
        have hl : LocalTo u b := h.loc u b (by simp [htodo])
        have : b s.g = b (g0.setErr u .ignoreAll) := hl _ _ (by simp [he]) h.globals
        simp only [Sys.setTh_same]
        exact ⟨hs, b, rest, htodo, this⟩
      · simp only [Sys.setTh_other _ _ _ _ hu]; exact h.saved u
    · intro u
      by_cases hu : u = t
      · subst hu; simpa using h.res u
      · simp only [Sys.setTh_other _ _ _ _ hu]; exact h.res u
    · intro u
      by_cases hu : u = t
      · subst hu; simpa using h.loc u
      · simp only [Sys.setTh_other _ _ _ _ hu]; exact h.loc u
  · -- leave
    rename_i b rest saved r htodo hphase
    have hs := h.saved t
    simp only [hphase, htodo, List.cons.injEq] at hs
    obtain ⟨hsv, b', rest', ⟨rfl, rfl⟩, hr⟩ := hs
    refine ⟨h.globals, ?_, ?_, ?_, ?_⟩
    · intro u
      by_cases hu : u = t
      · subst hu; simp [Phase.isIdle, hsv]
      · simp [hu, Sys.setTh_other _ _ _ _ hu, h.err u]
    · intro u
      by_cases hu : u = t
      · subst hu; simp
      · simp only [Sys.setTh_other _ _ _ _ hu]; exact h.saved u
    · intro u
      by_cases hu : u = t
      · subst hu
        have := h.res u
        simp only [htodo, List.map_cons] at this
        simp only [Sys.setTh_same, List.append_assoc, List.singleton_append, hr]
        exact this
      · simp only [Sys.setTh_other _ _ _ _ hu]; exact h.res u
    · intro u
      by_cases hu : u = t
      · subst hu
        intro c hc
        simp only [Sys.setTh_same] at hc
        exact h.loc u c (by simp [htodo, hc])
      · simp only [Sys.setTh_other _ _ _ _ hu]; exact h.loc u

/-- the invariant holds after ANY schedule (induction on the schedule) -/
theorem c20_inv_run (prog : Prog α) (g0 : G) (s : Sys α) (h : Inv prog g0 s) (sch : List Tid) :
    Inv prog g0 (s.run sch) := by
  induction sch generalizing s with
  | nil => exact h
  | cons t rest ih => exact ih (s.step t) (c20_inv_step prog g0 s h t)

/-- MAIN (determinism, fine): under ANY interleaving of the atomic phases, at any moment, each thread's results so far
are an initial segment of its sequential results -/
theorem c20_run_results_prefix (prog : Prog α) (g : G) (hloc : ∀ t, ∀ b ∈ prog t, LocalTo t b) (sch : List Tid)
    (t : Tid) :
    ∃ pending, (((Sys.init prog g).run sch).th t).results ++ pending = seqResults prog g t ∧
      pending.length = (((Sys.init prog g).run sch).th t).todo.length := by
  have h := c20_inv_run prog g _ (c20_inv_init prog g hloc) sch
  exact ⟨_, h.res t, by simp⟩

/-- … and once the thread has run all its operations its results ARE its sequential results -/
theorem c20_run_results_complete (prog : Prog α) (g : G) (hloc : ∀ t, ∀ b ∈ prog t, LocalTo t b) (sch : List Tid)
    (t : Tid) (hdone : (((Sys.init prog g).run sch).th t).todo = []) :
    (((Sys.init prog g).run sch).th t).results = seqResults prog g t := by
  have h := (c20_inv_run prog g _ (c20_inv_init prog g hloc) sch).res t
  simpa [hdone] using h

/-- whenever every thread is between operations, the global state is exactly the initial one -/
theorem c20_run_state_quiescent (prog : Prog α) (g : G) (hloc : ∀ t, ∀ b ∈ prog t, LocalTo t b) (sch : List Tid)
    (hidle : ∀ t, (((Sys.init prog g).run sch).th t).phase.isIdle = true) :
    ((Sys.init prog g).run sch).g = g := by
  have h := c20_inv_run prog g _ (c20_inv_init prog g hloc) sch
  apply G.ext'
  · intro t; simpa [hidle t] using h.err t
  · exact h.globals

/-- at every moment: the other globals are untouched, and a thread that is between operations finds its own error
state as it left it, whatever the other threads are doing -/
theorem c20_run_state_any (prog : Prog α) (g : G) (hloc : ∀ t, ∀ b ∈ prog t, LocalTo t b) (sch : List Tid) :
    ((Sys.init prog g).run sch).g.sameGlobals g ∧
    ∀ t, (((Sys.init prog g).run sch).th t).phase.isIdle = true → ((Sys.init prog g).run sch).g.err t = g.err t := by
  have h := c20_inv_run prog g _ (c20_inv_init prog g hloc) sch
  exact ⟨h.globals, fun t ht => by simpa [ht] using h.err t⟩

/-- the hypotheses are satisfiable and the statement has content: two threads, bodies that READ their thread's error
state and a global flag; an interleaved schedule and the sequential one agree -/
example :
    let body (t : Tid) : G → Except Err Nat := fun g =>
      if g.err t = .ignoreAll then .ok (if g.akBehaviorRegistered then 1 else 0) else .error .assertionError
    let prog : Prog Nat := fun t => if t < 2 then [body t, body t] else []
    (∀ t, ∀ b ∈ prog t, LocalTo t b) := by
  intro body prog t b hb
  by_cases ht : t < 2
  · have : b = body t := by simpa [prog, ht] using hb
    subst this
    intro g g' he hg
    simp only [body, he, hg.2.2.1]
  · simp [prog, ht] at hb

/-! ### commutation of atomic steps -/

/-- the atomic step of thread `t` as a pair: the thread's new error state and its new local state -/
def Sys.next (s : Sys α) (t : Tid) : ErrState × TState α :=
  match (s.th t).todo, (s.th t).phase with
  | [], _ => (s.g.err t, s.th t)
  | b :: rest, .idle => (.ignoreAll, { s.th t with phase := .entered (s.g.err t) })
  | b :: rest, .entered saved => (s.g.err t, { s.th t with phase := .computed saved (b s.g) })
  | b :: rest, .computed saved r => (saved, { todo := rest, phase := .idle, results := (s.th t).results ++ [r] })

theorem Sys.ext' {s s' : Sys α} (hg : s.g = s'.g) (ht : ∀ t, s.th t = s'.th t) : s = s' := by
  obtain ⟨g, th⟩ := s
  obtain ⟨g', th'⟩ := s'
  simp only at hg ht
  have : th = th' := funext ht
  subst hg this
  rfl

theorem Sys.step_eq (s : Sys α) (t : Tid) :
    s.step t = { g := s.g.setErr t (s.next t).1, th := s.setTh t (s.next t).2 } := by
  unfold Sys.step Sys.next
  generalize htd : (s.th t).todo = td
  generalize hph : (s.th t).phase = ph
  have hnil : s = { g := s.g.setErr t (s.g.err t), th := s.setTh t (s.th t) } := by
    apply Sys.ext'
    · simp [c20_setErr_restore]
    · intro u; by_cases hu : u = t <;> simp [Sys.setTh, hu]
  cases td with
  | nil => exact hnil
  | cons b rest =>
    cases ph with
    | idle => rfl
    | entered saved =>
      apply Sys.ext'
      · simp [c20_setErr_restore]
      · intro u; rfl
    | computed saved r => rfl

theorem Sys.next_step_other (s : Sys α) (t u : Tid) (h : t ≠ u) (hloc : ∀ b ∈ (s.th t).todo, LocalTo t b) :
    (s.step u).next t = s.next t := by
  have hth : (s.step u).th t = s.th t := by rw [Sys.step_eq]; simp [Sys.setTh, h]
  have herr : (s.step u).g.err t = s.g.err t := by rw [Sys.step_eq]; simp [h]
  have hglob : (s.step u).g.sameGlobals s.g := by rw [Sys.step_eq]; exact ⟨rfl, rfl, rfl, rfl⟩
  unfold Sys.next
  rw [hth, herr]
  split
  · rfl
  · rfl
  · rename_i b rest saved htodo hphase
    have := hloc b (by simp [htodo]) (s.step u).g s.g herr hglob
    rw [this]
  · rfl

/-- atomic steps of different threads commute: swapping two adjacent steps of a schedule changes nothing -/
theorem c20_step_commute (s : Sys α) (t u : Tid) (h : t ≠ u) (hlt : ∀ b ∈ (s.th t).todo, LocalTo t b)
    (hlu : ∀ b ∈ (s.th u).todo, LocalTo u b) : (s.step t).step u = (s.step u).step t := by
  rw [Sys.step_eq (s.step t) u, Sys.step_eq (s.step u) t, Sys.next_step_other s t u h hlt,
    Sys.next_step_other s u t (Ne.symm h) hlu, Sys.step_eq s t, Sys.step_eq s u]
  apply Sys.ext'
  · exact c20_setErr_comm _ _ _ _ _ h
  · intro w
    by_cases h1 : w = t <;> by_cases h2 : w = u
    · exact absurd (h1.symm.trans h2) h
    · subst h1; simp [Sys.setTh, h2]
    · subst h2; simp [Sys.setTh, h1]
    · simp [Sys.setTh, h1, h2]

theorem Sys.run_append (s : Sys α) (a b : List Tid) : s.run (a ++ b) = (s.run a).run b := by
  induction a generalizing s with
  | nil => rfl
  | cons t a ih => simp only [List.cons_append, Sys.run]; exact ih _

/-- any two adjacent steps of different threads of ANY schedule can be swapped without changing anything (so all
interleavings with the same per-thread order end in the same machine state) -/
theorem c20_run_swap (prog : Prog α) (g : G) (hloc : ∀ t, ∀ b ∈ prog t, LocalTo t b) (pre post : List Tid)
    (t u : Tid) (h : t ≠ u) :
    (Sys.init prog g).run (pre ++ t :: u :: post) = (Sys.init prog g).run (pre ++ u :: t :: post) := by
  have hinv := c20_inv_run prog g _ (c20_inv_init prog g hloc) pre
  simp only [Sys.run_append, Sys.run]
  rw [c20_step_commute _ t u h (hinv.loc t) (hinv.loc u)]

end
end VG
