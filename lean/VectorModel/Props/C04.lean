/-
C04 — "Coordinate conversions and dimension changes lose nothing" (glue part).

Theorems about the hand-written glue model (`VectorModel/Glue/Methods.lean`): `toDim` (`to_Vector2D/3D/4D`, `to_2D/3D/4D`,
`like`), `toSystem` (`to_xy`, `to_rhophiztau`, …) and the table `toTable` of the 40 `to_<system>` conversions.
All statements hold for every scalar type `S`, truth type `B` and compute layer `ev`; the only facts about the compute
layer that are needed (the nine identity accessors) are the explicit hypothesis `IdLaws ev` (shared with
`Props/C15.lean`, as are `WF` / `WFV`), which is proved for the generated executable copy (`c04_idLaws_exec`).
-/
import VectorModel.Props.C15

set_option linter.unusedVariables false
namespace VG
open VK

section
variable {S B : Type}

/-! ### 1. `toDim`: same dimension and projections -/

/-- converting to the dimension the vector already has returns the vector itself -/
theorem c04_toDim_same (z : S) (v : Vec S) : toDim z v.ty.dim v [] [] 0 = .ok v := by
  simp [toDim]

/-- `like` / `to_ND` with the own dimension: also as an equation in `d` -/
theorem c04_toDim_same' (z : S) (v : Vec S) (d : Nat) (hd : d = v.ty.dim) : toDim z d v [] [] 0 = .ok v := by
  subst hd; exact c04_toDim_same z v

private theorem dim_cases (ty : VT) : ty.dim = 2 ∨ ty.dim = 3 ∨ ty.dim = 4 := by
  unfold VT.dim; split <;> split <;> simp

/-- projection to fewer dimensions: the type keeps `be`, `mom`, the stored systems of the retained groups, the dropped
groups become `none`; the coordinates are the first `target` stored coordinates, bit for bit -/
theorem c04_toDim_project (z : S) (v : Vec S) (hv : WFV v) (target : Nat) (h2 : 2 ≤ target) (hlt : target < v.ty.dim) :
    toDim z target v [] [] 0 =
      .ok ⟨{ v.ty with lon := if target < 3 then none else v.ty.lon, tmp := none }, v.c.take target⟩ := by
  obtain ⟨⟨be, mom, az, lon, tmp⟩, c⟩ := v
  obtain ⟨wf, len⟩ := hv
  dsimp only at hlt len wf
  have ht : target = 2 ∨ target = 3 := by have := dim_cases ⟨be, mom, az, lon, tmp⟩; omega
  rcases c with _ | ⟨c0, _ | ⟨c1, _ | ⟨c2, _ | ⟨c3, _ | ⟨c4, c⟩⟩⟩⟩⟩ <;>
    cases lon <;> cases tmp <;> simp [VT.dim, WF] at hlt wf len <;>
    rcases ht with rfl | rfl <;> first | omega | simp [toDim, VT.dim, Vec.azEl, Vec.lonEl]

/-! ### 2. `toDim`: embeddings into more dimensions -/

/-- 2D → 3D: both stored coordinates retained, the third coordinate is the keyword's value in the keyword's coordinate
type, or `zeroF` as a `z` -/
theorem c04_toDim_2_to_3 (z : S) (v : Vec S) (hv : WFV v) (hd : v.ty.dim = 2) (lk : Option (Lon × S)) :
    toDim z 3 v lk.toList [] 0 =
      .ok ⟨{ v.ty with lon := some ((lk.map (·.1)).getD .z), tmp := none }, v.c ++ [(lk.map (·.2)).getD z]⟩ := by
  obtain ⟨⟨be, mom, az, lon, tmp⟩, c⟩ := v
  obtain ⟨wf, len⟩ := hv
  dsimp only at hd len wf
  rcases c with _ | ⟨c0, _ | ⟨c1, _ | ⟨c2, c⟩⟩⟩ <;>
    cases lon <;> cases tmp <;> simp [VT.dim, WF] at hd wf len <;>
    cases lk <;> simp [toDim, VT.dim, Vec.azEl]

/-- 2D → 4D: both stored coordinates retained; longitudinal and temporal coordinates from the keywords (in the
keywords' coordinate types) or `zeroF` as `z` resp. `t` -/
theorem c04_toDim_2_to_4 (z : S) (v : Vec S) (hv : WFV v) (hd : v.ty.dim = 2) (lk : Option (Lon × S))
    (tk : Option (Tmp × S)) :
    toDim z 4 v lk.toList tk.toList 0 =
      .ok ⟨{ v.ty with lon := some ((lk.map (·.1)).getD .z), tmp := some ((tk.map (·.1)).getD .t) },
           v.c ++ [(lk.map (·.2)).getD z] ++ [(tk.map (·.2)).getD z]⟩ := by
  obtain ⟨⟨be, mom, az, lon, tmp⟩, c⟩ := v
  obtain ⟨wf, len⟩ := hv
  dsimp only at hd len wf
  rcases c with _ | ⟨c0, _ | ⟨c1, _ | ⟨c2, c⟩⟩⟩ <;>
    cases lon <;> cases tmp <;> simp [VT.dim, WF] at hd wf len <;>
    cases lk <;> cases tk <;> simp [toDim, VT.dim, Vec.azEl]

/-- 3D → 4D: the three stored coordinates and the longitudinal system retained; the temporal coordinate is the keyword's
value in the keyword's type, or `zeroF` as a `t` -/
theorem c04_toDim_3_to_4 (z : S) (v : Vec S) (hv : WFV v) (hd : v.ty.dim = 3) (tk : Option (Tmp × S)) :
    toDim z 4 v [] tk.toList 0 =
      .ok ⟨{ v.ty with tmp := some ((tk.map (·.1)).getD .t) }, v.c ++ [(tk.map (·.2)).getD z]⟩ := by
  obtain ⟨⟨be, mom, az, lon, tmp⟩, c⟩ := v
  obtain ⟨wf, len⟩ := hv
  dsimp only at hd len wf
  rcases c with _ | ⟨c0, _ | ⟨c1, _ | ⟨c2, _ | ⟨c3, c⟩⟩⟩⟩ <;>
    cases lon <;> cases tmp <;> simp [VT.dim, WF] at hd wf len <;>
    cases tk <;> simp [toDim, VT.dim, Vec.azEl, Vec.lonEl]

/-- every successful dimension change keeps backend, flavor and azimuthal system and has the requested dimension -/
theorem c04_toDim_ty (z : S) (v r : Vec S) (target : Nat) (h2 : 2 ≤ target) (h4 : target ≤ 4) (lonKw : List (Lon × S))
    (tmpKw : List (Tmp × S)) (o : Nat) (h : toDim z target v lonKw tmpKw o = .ok r) :
    r.ty.be = v.ty.be ∧ r.ty.mom = v.ty.mom ∧ r.ty.az = v.ty.az ∧ r.ty.dim = target := by
  unfold toDim at h
  dsimp only at h
  split at h
  · cases h
  split at h
  · cases h
  split at h
  · cases h; simp_all
  · cases h
    refine ⟨rfl, rfl, rfl, ?_⟩
    have ht : target = 2 ∨ target = 3 ∨ target = 4 := by omega
    obtain ⟨⟨be, mom, az, lon, tmp⟩, c⟩ := v
    rcases ht with rfl | rfl | rfl <;> cases lon <;> cases tmp <;> simp [VT.dim]

/-- every successful dimension change keeps the coordinates of the groups present on both sides, bit for bit, and their
coordinate systems: all stored coordinates for an embedding, the first `target` ones for a projection -/
theorem c04_toDim_retained (z : S) (v r : Vec S) (hv : WFV v) (target : Nat) (h2 : 2 ≤ target) (h4 : target ≤ 4)
    (lonKw : List (Lon × S)) (tmpKw : List (Tmp × S)) (o : Nat) (h : toDim z target v lonKw tmpKw o = .ok r) :
    r.c.take (min target v.ty.dim) = v.c.take (min target v.ty.dim) ∧
    (3 ≤ target → v.ty.lon.isSome → r.ty.lon = v.ty.lon) ∧ (4 ≤ target → v.ty.tmp.isSome → r.ty.tmp = v.ty.tmp) := by
  unfold toDim at h
  dsimp only at h
  split at h
  · cases h
  split at h
  · cases h
  split at h
  · cases h; simp
  · cases h
    have ht : target = 2 ∨ target = 3 ∨ target = 4 := by omega
    obtain ⟨⟨be, mom, az, lon, tmp⟩, c⟩ := v
    obtain ⟨wf, len⟩ := hv
    dsimp only at len wf
    rcases c with _ | ⟨c0, _ | ⟨c1, _ | ⟨c2, _ | ⟨c3, _ | ⟨c4, c⟩⟩⟩⟩⟩ <;>
      cases lon <;> cases tmp <;> simp [VT.dim, WF] at wf len <;>
      rcases ht with rfl | rfl | rfl <;> simp [VT.dim, Vec.azEl, Vec.lonEl, Vec.tmpEl]

/-- an embedding retains ALL stored coordinates as a prefix of the result -/
theorem c04_toDim_embed_prefix (z : S) (v r : Vec S) (hv : WFV v) (target : Nat) (hd : v.ty.dim ≤ target) (h4 : target ≤ 4)
    (lonKw : List (Lon × S)) (tmpKw : List (Tmp × S)) (o : Nat) (h : toDim z target v lonKw tmpKw o = .ok r) :
    r.c.take v.ty.dim = v.c := by
  have h2 : 2 ≤ target := by have := dim_cases v.ty; omega
  have := (c04_toDim_retained z v r hv target h2 h4 lonKw tmpKw o h).1
  rw [Nat.min_eq_right hd] at this
  rw [this, ← hv.2, List.take_length]

/-! rejected keyword combinations -/

/-- an unknown keyword is a `TypeError` -/
theorem c04_toDim_unknown_kw (z : S) (v : Vec S) (target : Nat) (lonKw : List (Lon × S)) (tmpKw : List (Tmp × S))
    (o : Nat) (ho : 0 < o) : toDim z target v lonKw tmpKw o = .error .typeError := by
  simp [toDim, ho]

/-- two keywords of the longitudinal group are a `TypeError` -/
theorem c04_toDim_two_lon_kw (z : S) (v : Vec S) (target : Nat) (k1 k2 : Lon × S) (lonKw : List (Lon × S))
    (tmpKw : List (Tmp × S)) (o : Nat) : toDim z target v (k1 :: k2 :: lonKw) tmpKw o = .error .typeError := by
  simp only [toDim]
  split
  · rfl
  · simp

/-- two keywords of the temporal group are a `TypeError` -/
theorem c04_toDim_two_tmp_kw (z : S) (v : Vec S) (target : Nat) (k1 k2 : Tmp × S) (lonKw : List (Lon × S))
    (tmpKw : List (Tmp × S)) (o : Nat) : toDim z target v lonKw (k1 :: k2 :: tmpKw) o = .error .typeError := by
  simp only [toDim]
  split
  · rfl
  · simp

/-- a longitudinal keyword on a vector that already has a longitudinal coordinate is a `TypeError` -/
theorem c04_toDim_lon_kw_present (z : S) (v : Vec S) (target : Nat) (hl : v.ty.lon.isSome) (k : Lon × S)
    (lonKw : List (Lon × S)) (tmpKw : List (Tmp × S)) (o : Nat) :
    toDim z target v (k :: lonKw) tmpKw o = .error .typeError := by
  have : v.ty.dim ≠ 2 := by unfold VT.dim; simp [hl]; split <;> omega
  simp [toDim, this]

/-- a temporal keyword on a vector that already has a temporal coordinate is a `TypeError` -/
theorem c04_toDim_tmp_kw_present (z : S) (v : Vec S) (hw : WF v.ty) (target : Nat) (ht : v.ty.tmp.isSome) (k : Tmp × S)
    (lonKw : List (Lon × S)) (tmpKw : List (Tmp × S)) (o : Nat) :
    toDim z target v lonKw (k :: tmpKw) o = .error .typeError := by
  have : ¬ v.ty.dim ≤ 3 := by unfold VT.dim; simp [ht, hw ht]
  simp [toDim, this]

/-- a keyword for a group that the target dimension does not have is a `TypeError` (e.g. `to_Vector3D(t=…)`) -/
theorem c04_toDim_kw_not_needed (z : S) (v : Vec S) (k : Tmp × S) (lonKw : List (Lon × S)) (tmpKw : List (Tmp × S))
    (o : Nat) (target : Nat) (ht : target ≠ 4) : toDim z target v lonKw (k :: tmpKw) o = .error .typeError := by
  simp [toDim, ht]

/-! ### 3. `toSystem` -/

private theorem getS_x (ev : Ev S B) (hI : IdLaws ev) (be mom lon tmp) (a b : S) (r : List S) :
    getS ev .x ⟨⟨be, mom, .xy, lon, tmp⟩, a :: b :: r⟩ = .ok a := by
  cases lon <;> cases tmp <;>
  simp [getS, getAcc, VT.dim, Acc.need, Acc.momOnly, dispatch, Acc.mod, ModuleId.info, operandSlots, operandSlotsGo,
    operandKey, Vec.azEl, Vec.lonEl, Vec.tmpEl, handlerOf, wrapResult, hI.x]

private theorem getS_y (ev : Ev S B) (hI : IdLaws ev) (be mom lon tmp) (a b : S) (r : List S) :
    getS ev .y ⟨⟨be, mom, .xy, lon, tmp⟩, a :: b :: r⟩ = .ok b := by
  cases lon <;> cases tmp <;>
  simp [getS, getAcc, VT.dim, Acc.need, Acc.momOnly, dispatch, Acc.mod, ModuleId.info, operandSlots, operandSlotsGo,
    operandKey, Vec.azEl, Vec.lonEl, Vec.tmpEl, handlerOf, wrapResult, hI.y]

private theorem getS_rho (ev : Ev S B) (hI : IdLaws ev) (be mom lon tmp) (a b : S) (r : List S) :
    getS ev .rho ⟨⟨be, mom, .rhophi, lon, tmp⟩, a :: b :: r⟩ = .ok a := by
  cases lon <;> cases tmp <;>
  simp [getS, getAcc, VT.dim, Acc.need, Acc.momOnly, dispatch, Acc.mod, ModuleId.info, operandSlots, operandSlotsGo,
    operandKey, Vec.azEl, Vec.lonEl, Vec.tmpEl, handlerOf, wrapResult, hI.rho]

private theorem getS_phi (ev : Ev S B) (hI : IdLaws ev) (be mom lon tmp) (a b : S) (r : List S) :
    getS ev .phi ⟨⟨be, mom, .rhophi, lon, tmp⟩, a :: b :: r⟩ = .ok b := by
  cases lon <;> cases tmp <;>
  simp [getS, getAcc, VT.dim, Acc.need, Acc.momOnly, dispatch, Acc.mod, ModuleId.info, operandSlots, operandSlotsGo,
    operandKey, Vec.azEl, Vec.lonEl, Vec.tmpEl, handlerOf, wrapResult, hI.phi]

private theorem getS_z (ev : Ev S B) (hI : IdLaws ev) (be mom az tmp) (a b c : S) (r : List S) :
    getS ev .z ⟨⟨be, mom, az, some .z, tmp⟩, a :: b :: c :: r⟩ = .ok c := by
  cases tmp <;>
  simp [getS, getAcc, VT.dim, Acc.need, Acc.momOnly, dispatch, Acc.mod, ModuleId.info, operandSlots, operandSlotsGo,
    operandKey, Vec.azEl, Vec.lonEl, Vec.tmpEl, handlerOf, wrapResult, hI.z]

private theorem getS_theta (ev : Ev S B) (hI : IdLaws ev) (be mom az tmp) (a b c : S) (r : List S) :
    getS ev .theta ⟨⟨be, mom, az, some .theta, tmp⟩, a :: b :: c :: r⟩ = .ok c := by
  cases tmp <;>
  simp [getS, getAcc, VT.dim, Acc.need, Acc.momOnly, dispatch, Acc.mod, ModuleId.info, operandSlots, operandSlotsGo,
    operandKey, Vec.azEl, Vec.lonEl, Vec.tmpEl, handlerOf, wrapResult, hI.theta]

private theorem getS_eta (ev : Ev S B) (hI : IdLaws ev) (be mom az tmp) (a b c : S) (r : List S) :
    getS ev .eta ⟨⟨be, mom, az, some .eta, tmp⟩, a :: b :: c :: r⟩ = .ok c := by
  cases tmp <;>
  simp [getS, getAcc, VT.dim, Acc.need, Acc.momOnly, dispatch, Acc.mod, ModuleId.info, operandSlots, operandSlotsGo,
    operandKey, Vec.azEl, Vec.lonEl, Vec.tmpEl, handlerOf, wrapResult, hI.eta]

private theorem getS_t (ev : Ev S B) (hI : IdLaws ev) (be mom az lon) (a b c d : S) (r : List S) :
    getS ev .t ⟨⟨be, mom, az, some lon, some .t⟩, a :: b :: c :: d :: r⟩ = .ok d := by
  simp [getS, getAcc, VT.dim, Acc.need, Acc.momOnly, dispatch, Acc.mod, ModuleId.info, operandSlots, operandSlotsGo,
    operandKey, Vec.azEl, Vec.lonEl, Vec.tmpEl, handlerOf, wrapResult, hI.t]

private theorem getS_tau (ev : Ev S B) (hI : IdLaws ev) (be mom az lon) (a b c d : S) (r : List S) :
    getS ev .tau ⟨⟨be, mom, az, some lon, some .tau⟩, a :: b :: c :: d :: r⟩ = .ok d := by
  simp [getS, getAcc, VT.dim, Acc.need, Acc.momOnly, dispatch, Acc.mod, ModuleId.info, operandSlots, operandSlotsGo,
    operandKey, Vec.azEl, Vec.lonEl, Vec.tmpEl, handlerOf, wrapResult, hI.tau]

/-- `to_<system>()` on the system the vector is already stored in returns the vector unchanged: same type, the stored
coordinates bit for bit (keywords are not consulted) -/
theorem c04_toSystem_id (ev : Ev S B) (hI : IdLaws ev) (z : S) (v : Vec S) (hv : WFV v) (kl kt : Option S) :
    toSystem ev z v v.ty.az v.ty.lon v.ty.tmp kl kt = .ok v := by
  obtain ⟨⟨be, mom, az, lon, tmp⟩, c⟩ := v
  obtain ⟨wf, len⟩ := hv
  dsimp only at len wf
  rcases c with _ | ⟨c0, _ | ⟨c1, _ | ⟨c2, _ | ⟨c3, _ | ⟨c4, c⟩⟩⟩⟩⟩ <;>
    rcases lon with _ | lon <;> rcases tmp with _ | tmp <;> simp [VT.dim, WF] at wf len <;>
    cases az <;> (try cases lon) <;> (try cases tmp) <;>
    simp [toSystem, azCNames, lonCName, tmpCName, CName.acc, VT.dim, getS_x, getS_y, getS_rho, getS_phi, getS_z,
      getS_theta, getS_eta, getS_t, getS_tau, hI] <;> rfl

/-- same statement with the target system given separately -/
theorem c04_toSystem_id' (ev : Ev S B) (hI : IdLaws ev) (z : S) (v : Vec S) (hv : WFV v) (az : Az) (lon : Option Lon)
    (tmp : Option Tmp) (haz : v.ty.az = az) (hlon : v.ty.lon = lon) (htmp : v.ty.tmp = tmp) (kl kt : Option S) :
    toSystem ev z v az lon tmp kl kt = .ok v := by
  subst haz hlon htmp; exact c04_toSystem_id ev hI z v hv kl kt

/-- for a well-formed vector the three stored groups make up the whole coordinate list -/
theorem c04_wf_coords (v : Vec S) (hv : WFV v) : v.azEl ++ v.lonEl ++ v.tmpEl = v.c := by
  obtain ⟨⟨be, mom, az, lon, tmp⟩, c⟩ := v
  obtain ⟨wf, len⟩ := hv
  dsimp only at len wf
  rcases c with _ | ⟨c0, _ | ⟨c1, _ | ⟨c2, _ | ⟨c3, _ | ⟨c4, c⟩⟩⟩⟩⟩ <;>
    cases lon <;> cases tmp <;> simp [VT.dim, WF] at wf len <;> simp [Vec.azEl, Vec.lonEl, Vec.tmpEl]

private theorem mapM_two {α : Type} (f : α → Except Err S) (a b : α) (l : List S) (h : [a, b].mapM f = .ok l) :
    ∃ x y, l = [x, y] := by
  simp only [List.mapM_cons, List.mapM_nil] at h
  cases hx : f a with
  | error e => rw [hx] at h; cases h
  | ok x =>
    cases hy : f b with
    | error e => rw [hx, hy] at h; cases h
    | ok y => rw [hx, hy] at h; cases h; exact ⟨x, y, rfl⟩

/-- imputation of the longitudinal coordinate, for ANY azimuthal target system: `to_<az><lon>(…)` on a 2D vector gives a 3D
vector of the requested type whose third coordinate is the keyword's value, or `zeroF` without keyword -/
theorem c04_toSystem_impute_lon (ev : Ev S B) (z : S) (v r : Vec S) (hd : v.ty.dim = 2) (az : Az) (l : Lon)
    (kl : Option S) (h : toSystem ev z v az (some l) none kl none = .ok r) :
    r.ty = { v.ty with az := az, lon := some l, tmp := none } ∧ r.c.length = 3 ∧ r.c[2]? = some (kl.getD z) := by
  simp only [toSystem, hd] at h
  cases hm : List.mapM (fun n : CName => getS ev n.acc v) (azCNames az) with
  | error e => rw [hm] at h; cases h
  | ok azv =>
    obtain ⟨x, y, rfl⟩ : ∃ x y, azv = [x, y] := by
      cases az <;> exact mapM_two _ _ _ _ hm
    rw [hm] at h
    cases h
    simp

/-- imputation of the temporal coordinate, for ANY target system: `to_<az><lon><tmp>(…)` on a 2D or 3D vector gives a 4D
vector of the requested type whose fourth coordinate is the temporal keyword's value, or `zeroF`; on a 2D vector the third
coordinate is the longitudinal keyword's value, or `zeroF` -/
theorem c04_toSystem_impute_tmp (ev : Ev S B) (z : S) (v r : Vec S) (hd : v.ty.dim ≤ 3) (az : Az) (l : Lon) (tm : Tmp)
    (kl kt : Option S) (h : toSystem ev z v az (some l) (some tm) kl kt = .ok r) :
    r.ty = { v.ty with az := az, lon := some l, tmp := some tm } ∧ r.c.length = 4 ∧ r.c[3]? = some (kt.getD z) ∧
      (v.ty.dim = 2 → r.c[2]? = some (kl.getD z)) := by
  have hd' : v.ty.dim = 2 ∨ v.ty.dim = 3 := by have := dim_cases v.ty; omega
  simp only [toSystem] at h
  cases hm : List.mapM (fun n : CName => getS ev n.acc v) (azCNames az) with
  | error e => rw [hm] at h; cases h
  | ok azv =>
    obtain ⟨x, y, rfl⟩ : ∃ x y, azv = [x, y] := by
      cases az <;> exact mapM_two _ _ _ _ hm
    rw [hm] at h
    rcases hd' with hd' | hd'
    · simp only [hd'] at h
      cases h
      simp
    · simp only [hd'] at h
      cases hl : getS ev (lonCName l).acc v with
      | error e => simp [hl] at h; cases h
      | ok s =>
        simp [hl] at h
        cases h
        simp [hd']

/-- imputation on the stored system: `to_<az><lon>(kw)` on a 2D vector stored as `az` keeps both stored coordinates bit for
bit and appends the keyword's value (or `zeroF`) -/
theorem c04_toSystem_embed_2_to_3 (ev : Ev S B) (hI : IdLaws ev) (z : S) (v : Vec S) (hv : WFV v) (hd : v.ty.dim = 2)
    (l : Lon) (kl kt : Option S) :
    toSystem ev z v v.ty.az (some l) none kl kt = .ok ⟨{ v.ty with lon := some l, tmp := none }, v.c ++ [kl.getD z]⟩ := by
  obtain ⟨⟨be, mom, az, lon, tmp⟩, c⟩ := v
  obtain ⟨wf, len⟩ := hv
  dsimp only at len wf hd
  rcases c with _ | ⟨c0, _ | ⟨c1, _ | ⟨c2, c⟩⟩⟩ <;>
    cases lon <;> cases tmp <;> simp [VT.dim, WF] at wf len hd <;>
    cases az <;>
    simp [toSystem, azCNames, CName.acc, VT.dim, getS_x, getS_y, getS_rho, getS_phi, hI] <;> rfl

/-- … to 4D: both keywords (or `zeroF`) appended -/
theorem c04_toSystem_embed_2_to_4 (ev : Ev S B) (hI : IdLaws ev) (z : S) (v : Vec S) (hv : WFV v) (hd : v.ty.dim = 2)
    (l : Lon) (tm : Tmp) (kl kt : Option S) :
    toSystem ev z v v.ty.az (some l) (some tm) kl kt =
      .ok ⟨{ v.ty with lon := some l, tmp := some tm }, v.c ++ [kl.getD z] ++ [kt.getD z]⟩ := by
  obtain ⟨⟨be, mom, az, lon, tmp⟩, c⟩ := v
  obtain ⟨wf, len⟩ := hv
  dsimp only at len wf hd
  rcases c with _ | ⟨c0, _ | ⟨c1, _ | ⟨c2, c⟩⟩⟩ <;>
    cases lon <;> cases tmp <;> simp [VT.dim, WF] at wf len hd <;>
    cases az <;>
    simp [toSystem, azCNames, CName.acc, VT.dim, getS_x, getS_y, getS_rho, getS_phi, hI] <;> rfl

/-- 3D vector in its stored system to 4D: the three stored coordinates bit for bit, the temporal keyword (or `zeroF`)
appended -/
theorem c04_toSystem_embed_3_to_4 (ev : Ev S B) (hI : IdLaws ev) (z : S) (v : Vec S) (hv : WFV v) (hd : v.ty.dim = 3)
    (tm : Tmp) (kl kt : Option S) :
    toSystem ev z v v.ty.az v.ty.lon (some tm) kl kt = .ok ⟨{ v.ty with tmp := some tm }, v.c ++ [kt.getD z]⟩ := by
  obtain ⟨⟨be, mom, az, lon, tmp⟩, c⟩ := v
  obtain ⟨wf, len⟩ := hv
  dsimp only at len wf hd
  rcases c with _ | ⟨c0, _ | ⟨c1, _ | ⟨c2, _ | ⟨c3, c⟩⟩⟩⟩ <;>
    rcases lon with _ | lon <;> cases tmp <;> simp [VT.dim, WF] at wf len hd <;>
    cases az <;> cases lon <;>
    simp [toSystem, azCNames, lonCName, CName.acc, VT.dim, getS_x, getS_y, getS_rho, getS_phi, getS_z, getS_theta,
      getS_eta, hI] <;> rfl

/-! ### 4. the table of the 40 `to_<system>` conversions -/

/-- target system of a `to_<system>` method name -/
def C04.toTarget (n : String) : Option (Az × Option Lon × Option Tmp) :=
  (toTable.find? (·.1 == n)).map fun e => (e.2.1, e.2.2.1, e.2.2.2.1)

/-- (generic name, momentum-spelled name) of the 20 coordinate systems -/
def C04.toPairs : List (String × String) :=
  [("to_xy", "to_pxpy"), ("to_rhophi", "to_ptphi"),
   ("to_xyz", "to_pxpypz"), ("to_xytheta", "to_pxpytheta"), ("to_xyeta", "to_pxpyeta"),
   ("to_rhophiz", "to_ptphipz"), ("to_rhophitheta", "to_ptphitheta"), ("to_rhophieta", "to_ptphieta"),
   ("to_xyzt", "to_pxpypzenergy"), ("to_xyztau", "to_pxpypzmass"),
   ("to_xythetat", "to_pxpythetaenergy"), ("to_xythetatau", "to_pxpythetamass"),
   ("to_xyetat", "to_pxpyetaenergy"), ("to_xyetatau", "to_pxpyetamass"),
   ("to_rhophizt", "to_ptphipzenergy"), ("to_rhophiztau", "to_ptphipzmass"),
   ("to_rhophithetat", "to_ptphithetaenergy"), ("to_rhophithetatau", "to_ptphithetamass"),
   ("to_rhophietat", "to_ptphietaenergy"), ("to_rhophietatau", "to_ptphietamass")]

/-- there are exactly 40 `to_<system>` conversions -/
theorem c04_toTable_length : toTable.length = 40 := by decide

/-- all 40 names are distinct -/
theorem c04_toTable_names_nodup : (toTable.map (·.1)).Nodup := by decide

/-- the 40 names are exactly the 20 generic and the 20 momentum spellings of `toPairs` -/
theorem c04_toTable_names :
    (∀ n ∈ toTable.map (·.1), n ∈ C04.toPairs.map (·.1) ++ C04.toPairs.map (·.2)) ∧
    (∀ n ∈ C04.toPairs.map (·.1) ++ C04.toPairs.map (·.2), n ∈ toTable.map (·.1)) := by decide

/-- a momentum-spelled conversion has the same target system as its generic counterpart -/
theorem c04_toTable_synonyms :
    ∀ p ∈ C04.toPairs, (C04.toTarget p.1).isSome ∧ C04.toTarget p.2 = C04.toTarget p.1 := by decide

/-- the 20 generic names reach all 20 coordinate systems (2 azimuthal × (1 + 3 + 3·2)) -/
theorem c04_toTable_complete :
    ∀ az ∈ Az.all, ∀ lt ∈ [(none, none)] ++ Lon.all.map (fun l => (some l, none)) ++
        Lon.all.flatMap (fun l => Tmp.all.map fun tm => (some l, some tm)),
      ∃ p ∈ C04.toPairs, C04.toTarget p.1 = some (az, lt.1, lt.2) := by decide

/-- the keywords of a table entry name the entry's longitudinal / temporal coordinate type (and are empty when the target
has no such group) -/
def C04.kwOk (e : String × Az × Option Lon × Option Tmp × String × String) : Bool :=
  (match e.2.2.1 with | some l => lonOfKw e.2.2.2.2.1 == some l | none => e.2.2.2.2.1 == "") &&
  (match e.2.2.2.1 with | some tm => tmpOfKw e.2.2.2.2.2 == some tm | none => e.2.2.2.2.2 == "")

/-- the keyword accepted by every conversion (generic or momentum-spelled) names the coordinate type of the target -/
theorem c04_toTable_keywords : ∀ e ∈ toTable, C04.kwOk e = true := by decide

/-! ### the public methods (string layer) -/

private theorem toTable_not_mom : ∀ e ∈ toTable, momAccOfName e.1 = none := by decide

/-- a `to_<system>()` call without arguments is `toSystem` with the table's target and no keyword -/
theorem c04_call_to (ev : Ev S B) (K : Consts S) (A : Arith S) (n : String) (v : Vec S)
    (e : String × Az × Option Lon × Option Tmp × String × String) (he : toTable.find? (·.1 == n) = some e) :
    call ev K A n v [] = (toSystem ev K.zeroF v e.2.1 e.2.2.1 e.2.2.2.1 none none).map .vec := by
  have hn : e.1 = n := by simpa using List.find?_some he
  have hm : momAccOfName n = none := hn ▸ toTable_not_mom e (List.mem_of_find?_eq_some he)
  obtain ⟨n', az, lon, tmp, kl, kt⟩ := e
  unfold call
  simp only [hm, he]
  simp [kwargs]

/-- `v.to_<system>()` for the system `v` is stored in (generic or momentum spelling) returns `v` -/
theorem c04_call_to_id (ev : Ev S B) (hI : IdLaws ev) (K : Consts S) (A : Arith S) (n : String) (v : Vec S) (hv : WFV v)
    (hn : C04.toTarget n = some (v.ty.az, v.ty.lon, v.ty.tmp)) : call ev K A n v [] = .ok (.vec v) := by
  unfold C04.toTarget at hn
  cases he : toTable.find? (·.1 == n) with
  | none => simp [he] at hn
  | some e =>
    obtain ⟨n', az, lon, tmp, kl, kt⟩ := e
    simp [he] at hn
    obtain ⟨rfl, rfl, rfl⟩ := hn
    rw [c04_call_to ev K A n v _ he]
    simp [c04_toSystem_id ev hI K.zeroF v hv]
    rfl

/-- the dimension-changing methods are `toDim` with the target dimension of their name; `like(o)` is `toDim` with the
dimension of `o` and no keywords -/
theorem c04_call_toDim (ev : Ev S B) (K : Consts S) (A : Arith S) (v o : Vec S) (args : List (Arg S)) :
    call ev K A "to_Vector2D" v args = toDimS K 2 v (kwargs args) ∧
    call ev K A "to_Vector3D" v args = toDimS K 3 v (kwargs args) ∧
    call ev K A "to_Vector4D" v args = toDimS K 4 v (kwargs args) ∧
    call ev K A "to_2D" v args = toDimS K 2 v (kwargs args) ∧
    call ev K A "to_3D" v args = toDimS K 3 v (kwargs args) ∧
    call ev K A "to_4D" v args = toDimS K 4 v (kwargs args) ∧
    call ev K A "like" v [.v o] = (toDim K.zeroF o.ty.dim v [] [] 0).map .vec :=
  ⟨rfl, rfl, rfl, rfl, rfl, rfl, rfl⟩

/-- `v.like(o)` for `o` of the dimension of `v` returns `v` -/
theorem c04_call_like_same (ev : Ev S B) (K : Consts S) (A : Arith S) (v o : Vec S) (h : o.ty.dim = v.ty.dim) :
    call ev K A "like" v [.v o] = .ok (.vec v) := by
  rw [(c04_call_toDim ev K A v o []).2.2.2.2.2.2, h, c04_toDim_same]; rfl

/-- the keyword classes of the dimension-changing conversions: the momentum spellings name the same coordinate type -/
theorem c04_kw_classes :
    lonOfKw "z" = some .z ∧ lonOfKw "pz" = some .z ∧ lonOfKw "theta" = some .theta ∧ lonOfKw "eta" = some .eta ∧
    tmpOfKw "t" = some .t ∧ tmpOfKw "e" = some .t ∧ tmpOfKw "E" = some .t ∧ tmpOfKw "energy" = some .t ∧
    tmpOfKw "tau" = some .tau ∧ tmpOfKw "m" = some .tau ∧ tmpOfKw "M" = some .tau ∧ tmpOfKw "mass" = some .tau := by
  decide

/-- `to_Vector4D(pz=a, mass=b)` on a 2D vector, through the string layer -/
theorem c04_toDimS_example (K : Consts S) (v : Vec S) (hv : WFV v) (hd : v.ty.dim = 2) (a b : S) :
    toDimS (B := B) K 4 v [("pz", a), ("mass", b)] =
      .ok (.vec ⟨{ v.ty with lon := some .z, tmp := some .tau }, v.c ++ [a] ++ [b]⟩) := by
  have := c04_toDim_2_to_4 K.zeroF v hv hd (some (.z, a)) (some (.tau, b))
  simp only [Option.toList] at this
  simp [toDimS, lonOfKw, tmpOfKw, this]
  rfl

/-- … an unknown keyword is rejected -/
theorem c04_toDimS_unknown (K : Consts S) (v : Vec S) (target : Nat) (a : S) :
    toDimS (B := B) K target v [("foo", a)] = .error .typeError := by
  have := c04_toDim_unknown_kw K.zeroF v target [] [] 1 (by omega)
  simp [toDimS, lonOfKw, tmpOfKw, this]
  rfl

end

/-! ### the generated executable copy satisfies `IdLaws` -/

section
open VE
variable {S : Type} [Scalar S]

theorem c04_idLaws_exec : IdLaws (S := S) (B := VE.B S) (fun m k a => Compute.eval (S := S) m k a) where
  x := fun a b => rfl
  y := fun a b => rfl
  rho := fun a b => rfl
  phi := fun a b => rfl
  z := fun az a b c => by cases az <;> rfl
  theta := fun az a b c => by cases az <;> rfl
  eta := fun az a b c => by cases az <;> rfl
  t := fun az lon a b c d => by cases az <;> cases lon <;> rfl
  tau := fun az lon a b c d => by cases az <;> cases lon <;> rfl

/-- instance of the identity theorem for the generated compute layer -/
theorem c04_toSystem_id_exec (z : S) (v : Vec S) (hv : WFV v) (kl kt : Option S) :
    toSystem (fun m k a => Compute.eval (S := S) m k a) z v v.ty.az v.ty.lon v.ty.tmp kl kt = .ok v :=
  c04_toSystem_id _ c04_idLaws_exec z v hv kl kt

end

/-! ### the hypotheses are satisfiable -/

section
variable {S : Type}

example (a b c d : S) : WFV (⟨⟨.obj, true, .rhophi, some .eta, some .tau⟩, [a, b, c, d]⟩ : Vec S) :=
  ⟨fun _ => rfl, rfl⟩
example (a b : S) : WFV (⟨⟨.obj, false, .xy, none, none⟩, [a, b]⟩ : Vec S) := ⟨(fun h => nomatch h), rfl⟩

/-- `Vector2D(x=a, y=b).to_Vector4D(eta=c, tau=d)` -/
example (z a b c d : S) :
    toDim z 4 ⟨⟨.obj, false, .xy, none, none⟩, [a, b]⟩ [(.eta, c)] [(.tau, d)] 0 =
      .ok ⟨⟨.obj, false, .xy, some .eta, some .tau⟩, [a, b, c, d]⟩ :=
  c04_toDim_2_to_4 z ⟨⟨.obj, false, .xy, none, none⟩, [a, b]⟩ ⟨(fun h => nomatch h), rfl⟩ rfl (some (.eta, c)) (some (.tau, d))

/-- `MomentumObject4D(pt=a, phi=b, eta=c, mass=d).to_Vector3D()` -/
example (z a b c d : S) :
    toDim z 3 ⟨⟨.obj, true, .rhophi, some .eta, some .tau⟩, [a, b, c, d]⟩ [] [] 0 =
      .ok ⟨⟨.obj, true, .rhophi, some .eta, none⟩, [a, b, c]⟩ :=
  c04_toDim_project z ⟨⟨.obj, true, .rhophi, some .eta, some .tau⟩, [a, b, c, d]⟩ ⟨fun _ => rfl, rfl⟩ 3 (by omega)
    (by simp [VT.dim])

end
end VG
