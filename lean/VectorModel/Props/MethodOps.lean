/-
Equality, closeness, norm operators, linear transforms, `deltaRapidityPhi` and `like` at the level of PUBLIC METHODS
(glue ∘ compute), prefix `c12m_`.

The glue model is instantiated at `S := ℝ`, `B := Prop` with the generated REAL compute layer `evR`
(`Props/C01Method.lean`).  The `*_eval2/3/4` lemmas reduce a call to the generated `<module>.eval k… coords` for ARBITRARY
key variables, backends and flavors (technique of `Props/MethodBin.lean`: `dispatch_pair` / `dispatch_single`, no 144-fold
case split); the `c12m_*` theorems then rewrite with the all-keys theorems of `Props/C12.lean`, `Refine/Equal.lean`,
`Refine/Planar.lean`, `Refine/SpatialRot.lean`, `Refine/LorentzBin.lean`.

1. `c12m_ne_iff_not_eq`, `c12m_eq_refl`, `c12m_eq_symm`, `c12m_eq_same_system`, `c12m_eq_denote_partial`
   (soundness only; `c12m_eq_denote_converse_false`, `c12m_eq_needs_canon`), `c12m_eq_denote_2D` (full equivalence, canonical polar storage),
   `c12m_operators`
2. `c12m_isclose`, `c12m_isclose_call`, `c12m_isclose_same_system(_call)`, `c12m_isclose_refl`, `c12m_isclose_of_eq`,
   `c12m_isclose_mono`, `c12m_isclose_laws`
3. `c12m_abs`, `c12m_square`, `c12m_pow_two`, `c12m_pow`, `c12m_sqrt`, `c12m_cbrt`, `c12m_abs_signed`, `c12m_norm_real`
4. `c12m_transform_arity`, `c12m_transform2D`, `c12m_transform2D_exception`, `c12m_transform3D`, `c12m_transform4D`
5. `c12m_deltaRapidityPhi`, `c12m_deltaRapidityPhi_guard`
6. `c12m_like_eq_to`, `c12m_like`
-/
import VectorModel.Props.C01Method
import VectorModel.Props.MethodBin
import VectorModel.Props.MethodLorentz
import VectorModel.Props.MethodConv
import VectorModel.Props.C12
import VectorModel.Refine.Equal

set_option linter.unusedVariables false
set_option linter.constructorNameAsVariable false
set_option maxRecDepth 4096

namespace VR
namespace C12M
open VK VG Spec Real C01M
open C11M (BinDom dispatch_pair dispatch_single call_bin9)

/-! ## 1. `equal` / `not_equal` (operators `==` / `!=`) -/

theorem binary_eq_same {S B : Type} (ev : Ev S B) (K : Consts S) (self o : Vec S) (m : ModuleId) (b : Bin)
    (hb : b = .equal ∨ b = .not_equal) (h : o.ty.dim = self.ty.dim) (hm : b.sameDimMod self.ty.dim = some m) :
    binary ev K b self o [] = dispatch ev m [] none [self, o] [self, o] := by
  rcases hb with rfl | rfl <;> simp only [binary, h, bne_self_eq_false, Bool.false_eq_true, ↓reduceIte, hm]

theorem planar_equal_ret_eq (k0 k1 : Az) : planar_equal.ret k0 k1 = .bool := by cases k0 <;> cases k1 <;> rfl
theorem planar_not_equal_ret_eq (k0 k1 : Az) : planar_not_equal.ret k0 k1 = .bool := by cases k0 <;> cases k1 <;> rfl
theorem spatial_equal_ret_eq (k0 k1 k2 k3) : spatial_equal.ret k0 k1 k2 k3 = .bool := by
  cases k0 <;> cases k1 <;> cases k2 <;> cases k3 <;> rfl
theorem spatial_not_equal_ret_eq (k0 k1 k2 k3) : spatial_not_equal.ret k0 k1 k2 k3 = .bool := by
  cases k0 <;> cases k1 <;> cases k2 <;> cases k3 <;> rfl
theorem lorentz_equal_ret_eq (k0 k1 k2 k3 k4 k5) : lorentz_equal.ret k0 k1 k2 k3 k4 k5 = .bool := by
  cases k0 <;> cases k1 <;> cases k2 <;> cases k3 <;> cases k4 <;> cases k5 <;> rfl
theorem lorentz_not_equal_ret_eq (k0 k1 k2 k3 k4 k5) : lorentz_not_equal.ret k0 k1 k2 k3 k4 k5 = .bool := by
  cases k0 <;> cases k1 <;> cases k2 <;> cases k3 <;> cases k4 <;> cases k5 <;> rfl

theorem equal_eval2 (K : Consts ℝ) (A : Arith ℝ) (be1 mom1 az1 be2 mom2 az2) (a0 a1 a2 a3 : ℝ) :
    call evR K A "equal" (C11M.V2 be1 mom1 az1 a0 a1) [.v (C11M.V2 be2 mom2 az2 a2 a3)] =
      .ok (.truth (planar_equal.eval az1 az2 a0 a1 a2 a3)) := by
  rw [(call_bin9 evR K A _ _).1,
    binary_eq_same evR K (C11M.V2 be1 mom1 az1 a0 a1) (C11M.V2 be2 mom2 az2 a2 a3) .planar_equal .equal (by simp) rfl rfl,
    dispatch_pair evR .planar_equal [] _ _ 1 1 rfl [.az az1] [.az az2] [a0, a1] [a2, a3] rfl rfl _ _ rfl,
    planar_equal_ret_eq]
  rfl

theorem not_equal_eval2 (K : Consts ℝ) (A : Arith ℝ) (be1 mom1 az1 be2 mom2 az2) (a0 a1 a2 a3 : ℝ) :
    call evR K A "not_equal" (C11M.V2 be1 mom1 az1 a0 a1) [.v (C11M.V2 be2 mom2 az2 a2 a3)] =
      .ok (.truth (planar_not_equal.eval az1 az2 a0 a1 a2 a3)) := by
  rw [(call_bin9 evR K A _ _).2.1,
    binary_eq_same evR K (C11M.V2 be1 mom1 az1 a0 a1) (C11M.V2 be2 mom2 az2 a2 a3) .planar_not_equal .not_equal (by simp) rfl rfl,
    dispatch_pair evR .planar_not_equal [] _ _ 1 1 rfl [.az az1] [.az az2] [a0, a1] [a2, a3] rfl rfl _ _ rfl,
    planar_not_equal_ret_eq]
  rfl

theorem equal_eval3 (K : Consts ℝ) (A : Arith ℝ) (be1 mom1 az1 l1 be2 mom2 az2 l2) (a0 a1 a2 a3 a4 a5 : ℝ) :
    call evR K A "equal" (C11M.V3 be1 mom1 az1 l1 a0 a1 a2) [.v (C11M.V3 be2 mom2 az2 l2 a3 a4 a5)] =
      .ok (.truth (spatial_equal.eval az1 l1 az2 l2 a0 a1 a2 a3 a4 a5)) := by
  rw [(call_bin9 evR K A _ _).1,
    binary_eq_same evR K (C11M.V3 be1 mom1 az1 l1 a0 a1 a2) (C11M.V3 be2 mom2 az2 l2 a3 a4 a5) .spatial_equal .equal (by simp) rfl rfl,
    dispatch_pair evR .spatial_equal [] _ _ 2 2 rfl [.az az1, .lon l1] [.az az2, .lon l2] [a0, a1, a2] [a3, a4, a5]
      rfl rfl _ _ rfl,
    spatial_equal_ret_eq]
  rfl

theorem not_equal_eval3 (K : Consts ℝ) (A : Arith ℝ) (be1 mom1 az1 l1 be2 mom2 az2 l2) (a0 a1 a2 a3 a4 a5 : ℝ) :
    call evR K A "not_equal" (C11M.V3 be1 mom1 az1 l1 a0 a1 a2) [.v (C11M.V3 be2 mom2 az2 l2 a3 a4 a5)] =
      .ok (.truth (spatial_not_equal.eval az1 l1 az2 l2 a0 a1 a2 a3 a4 a5)) := by
  rw [(call_bin9 evR K A _ _).2.1,
    binary_eq_same evR K (C11M.V3 be1 mom1 az1 l1 a0 a1 a2) (C11M.V3 be2 mom2 az2 l2 a3 a4 a5) .spatial_not_equal .not_equal
      (by simp) rfl rfl,
    dispatch_pair evR .spatial_not_equal [] _ _ 2 2 rfl [.az az1, .lon l1] [.az az2, .lon l2] [a0, a1, a2] [a3, a4, a5]
      rfl rfl _ _ rfl,
    spatial_not_equal_ret_eq]
  rfl

theorem equal_eval4 (K : Consts ℝ) (A : Arith ℝ) (be1 mom1 az1 l1 t1 be2 mom2 az2 l2 t2) (a0 a1 a2 a3 a4 a5 a6 a7 : ℝ) :
    call evR K A "equal" (C11M.V4 be1 mom1 az1 l1 t1 a0 a1 a2 a3) [.v (C11M.V4 be2 mom2 az2 l2 t2 a4 a5 a6 a7)] =
      .ok (.truth (lorentz_equal.eval az1 l1 t1 az2 l2 t2 a0 a1 a2 a3 a4 a5 a6 a7)) := by
  rw [(call_bin9 evR K A _ _).1,
    binary_eq_same evR K (C11M.V4 be1 mom1 az1 l1 t1 a0 a1 a2 a3) (C11M.V4 be2 mom2 az2 l2 t2 a4 a5 a6 a7) .lorentz_equal .equal
      (by simp) rfl rfl,
    dispatch_pair evR .lorentz_equal [] _ _ 3 3 rfl [.az az1, .lon l1, .tmp t1] [.az az2, .lon l2, .tmp t2]
      [a0, a1, a2, a3] [a4, a5, a6, a7] rfl rfl _ _ rfl,
    lorentz_equal_ret_eq]
  rfl

theorem not_equal_eval4 (K : Consts ℝ) (A : Arith ℝ) (be1 mom1 az1 l1 t1 be2 mom2 az2 l2 t2)
    (a0 a1 a2 a3 a4 a5 a6 a7 : ℝ) :
    call evR K A "not_equal" (C11M.V4 be1 mom1 az1 l1 t1 a0 a1 a2 a3) [.v (C11M.V4 be2 mom2 az2 l2 t2 a4 a5 a6 a7)] =
      .ok (.truth (lorentz_not_equal.eval az1 l1 t1 az2 l2 t2 a0 a1 a2 a3 a4 a5 a6 a7)) := by
  rw [(call_bin9 evR K A _ _).2.1,
    binary_eq_same evR K (C11M.V4 be1 mom1 az1 l1 t1 a0 a1 a2 a3) (C11M.V4 be2 mom2 az2 l2 t2 a4 a5 a6 a7) .lorentz_not_equal
      .not_equal (by simp) rfl rfl,
    dispatch_pair evR .lorentz_not_equal [] _ _ 3 3 rfl [.az az1, .lon l1, .tmp t1] [.az az2, .lon l2, .tmp t2]
      [a0, a1, a2, a3] [a4, a5, a6, a7] rfl rfl _ _ rfl,
    lorentz_not_equal_ret_eq]
  rfl

/-- the answer of the compute function behind `equal`, for operands of equal dimension (2D / 3D / 4D) -/
def EqP (a b : Vec ℝ) : Prop := BinDom planar_equal.eval spatial_equal.eval lorentz_equal.eval a b
/-- the answer of the compute function behind `not_equal` -/
def NeP (a b : Vec ℝ) : Prop := BinDom planar_not_equal.eval spatial_not_equal.eval lorentz_not_equal.eval a b

/-- `equal` on well-formed operands of equal dimension, every storage pairing, any backends / flavors -/
theorem equal_eval (K : Consts ℝ) (A : Arith ℝ) (a b : Vec ℝ) (ha : C01M.WFV a) (hb : C01M.WFV b) (hd : a.ty.dim = b.ty.dim) :
    call evR K A "equal" a [.v b] = .ok (.truth (EqP a b)) := by
  rcases wfv_cases ha with ⟨be1, mom1, az1, a0, a1, rfl⟩ | ⟨be1, mom1, az1, l1, a0, a1, a2, rfl⟩ |
    ⟨be1, mom1, az1, l1, t1, a0, a1, a2, a3, rfl⟩ <;>
  rcases wfv_cases hb with ⟨be2, mom2, az2, b0, b1, rfl⟩ | ⟨be2, mom2, az2, l2, b0, b1, b2, rfl⟩ |
    ⟨be2, mom2, az2, l2, t2, b0, b1, b2, b3, rfl⟩ <;> try (simp [VT.dim] at hd; done)
  · exact equal_eval2 ..
  · exact equal_eval3 ..
  · exact equal_eval4 ..

theorem not_equal_eval (K : Consts ℝ) (A : Arith ℝ) (a b : Vec ℝ) (ha : C01M.WFV a) (hb : C01M.WFV b) (hd : a.ty.dim = b.ty.dim) :
    call evR K A "not_equal" a [.v b] = .ok (.truth (NeP a b)) := by
  rcases wfv_cases ha with ⟨be1, mom1, az1, a0, a1, rfl⟩ | ⟨be1, mom1, az1, l1, a0, a1, a2, rfl⟩ |
    ⟨be1, mom1, az1, l1, t1, a0, a1, a2, a3, rfl⟩ <;>
  rcases wfv_cases hb with ⟨be2, mom2, az2, b0, b1, rfl⟩ | ⟨be2, mom2, az2, l2, b0, b1, b2, rfl⟩ |
    ⟨be2, mom2, az2, l2, t2, b0, b1, b2, b3, rfl⟩ <;> try (simp [VT.dim] at hd; done)
  · exact not_equal_eval2 ..
  · exact not_equal_eval3 ..
  · exact not_equal_eval4 ..

/-- **`!=` is the logical negation of `==`**, every storage pairing (4 + 36 + 144), any backends / flavors -/
theorem c12m_ne_iff_not_eq (K : Consts ℝ) (A : Arith ℝ) (a b : Vec ℝ) (ha : C01M.WFV a) (hb : C01M.WFV b)
    (hd : a.ty.dim = b.ty.dim) :
    ∃ p q, call evR K A "not_equal" a [.v b] = .ok (.truth p) ∧ call evR K A "equal" a [.v b] = .ok (.truth q) ∧
      (p ↔ ¬ q) := by
  refine ⟨_, _, not_equal_eval K A a b ha hb hd, equal_eval K A a b ha hb hd, ?_⟩
  rcases wfv_cases ha with ⟨be1, mom1, az1, a0, a1, rfl⟩ | ⟨be1, mom1, az1, l1, a0, a1, a2, rfl⟩ |
    ⟨be1, mom1, az1, l1, t1, a0, a1, a2, a3, rfl⟩ <;>
  rcases wfv_cases hb with ⟨be2, mom2, az2, b0, b1, rfl⟩ | ⟨be2, mom2, az2, l2, b0, b1, b2, rfl⟩ |
    ⟨be2, mom2, az2, l2, t2, b0, b1, b2, b3, rfl⟩ <;> try (simp [VT.dim] at hd; done)
  · exact c12_planar_ne_iff_not_eq ..
  · exact c12_spatial_ne_iff_not_eq ..
  · exact c12_lorentz_ne_iff_not_eq ..

/-- the operators `==`, `!=` are the methods (so every theorem of this section is about them too) -/
theorem c12m_operators {S B : Type} (ev : Ev S B) (K : Consts S) (A : Arith S) (a b : Vec S) :
    operator ev K A "eq" a [.v b] = call ev K A "equal" a [.v b] ∧
    operator ev K A "ne" a [.v b] = call ev K A "not_equal" a [.v b] := ⟨rfl, rfl⟩

/-- **`==` is reflexive**, every storage -/
theorem c12m_eq_refl (K : Consts ℝ) (A : Arith ℝ) (a : Vec ℝ) (ha : C01M.WFV a) :
    ∃ q, call evR K A "equal" a [.v a] = .ok (.truth q) ∧ q := by
  refine ⟨_, equal_eval K A a a ha ha rfl, ?_⟩
  rcases wfv_cases ha with ⟨be1, mom1, az1, a0, a1, rfl⟩ | ⟨be1, mom1, az1, l1, a0, a1, a2, rfl⟩ |
    ⟨be1, mom1, az1, l1, t1, a0, a1, a2, a3, rfl⟩
  · exact c12_planar_eq_refl ..
  · exact c12_spatial_eq_refl ..
  · exact c12_lorentz_eq_refl ..

/-- **`==` is symmetric**; the two calls use the DIFFERENT compute variants `(k₁,k₂)` / `(k₂,k₁)` -/
theorem c12m_eq_symm (K : Consts ℝ) (A : Arith ℝ) (a b : Vec ℝ) (ha : C01M.WFV a) (hb : C01M.WFV b) (hd : a.ty.dim = b.ty.dim) :
    ∃ q q', call evR K A "equal" a [.v b] = .ok (.truth q) ∧ call evR K A "equal" b [.v a] = .ok (.truth q') ∧
      (q ↔ q') := by
  refine ⟨_, _, equal_eval K A a b ha hb hd, equal_eval K A b a hb ha hd.symm, ?_⟩
  rcases wfv_cases ha with ⟨be1, mom1, az1, a0, a1, rfl⟩ | ⟨be1, mom1, az1, l1, a0, a1, a2, rfl⟩ |
    ⟨be1, mom1, az1, l1, t1, a0, a1, a2, a3, rfl⟩ <;>
  rcases wfv_cases hb with ⟨be2, mom2, az2, b0, b1, rfl⟩ | ⟨be2, mom2, az2, l2, b0, b1, b2, rfl⟩ |
    ⟨be2, mom2, az2, l2, t2, b0, b1, b2, b3, rfl⟩ <;> try (simp [VT.dim] at hd; done)
  · exact c12_planar_eq_symm ..
  · exact c12_spatial_eq_symm ..
  · exact c12_lorentz_eq_symm ..

/-- operands stored in the same coordinate system (backends and flavors may differ) -/
def SameSystem (a b : Vec ℝ) : Prop := a.ty.az = b.ty.az ∧ a.ty.lon = b.ty.lon ∧ a.ty.tmp = b.ty.tmp

/-- **same-system operands: `==` ⇔ all stored coordinates equal** -/
theorem c12m_eq_same_system (K : Consts ℝ) (A : Arith ℝ) (a b : Vec ℝ) (ha : C01M.WFV a) (hb : C01M.WFV b) (hs : SameSystem a b) :
    ∃ q, call evR K A "equal" a [.v b] = .ok (.truth q) ∧ (q ↔ a.c = b.c) := by
  have hd : a.ty.dim = b.ty.dim := by simp only [VT.dim, hs.2.1, hs.2.2]
  refine ⟨_, equal_eval K A a b ha hb hd, ?_⟩
  rcases wfv_cases ha with ⟨be1, mom1, az1, a0, a1, rfl⟩ | ⟨be1, mom1, az1, l1, a0, a1, a2, rfl⟩ |
    ⟨be1, mom1, az1, l1, t1, a0, a1, a2, a3, rfl⟩ <;>
  rcases wfv_cases hb with ⟨be2, mom2, az2, b0, b1, rfl⟩ | ⟨be2, mom2, az2, l2, b0, b1, b2, rfl⟩ |
    ⟨be2, mom2, az2, l2, t2, b0, b1, b2, b3, rfl⟩ <;> try (simp [VT.dim] at hd; done)
  · obtain ⟨rfl, -, -⟩ := hs
    refine (c12_planar_eq_same ..).trans ?_
    simp [c3]
  · obtain ⟨rfl, h2, -⟩ := hs
    cases h2
    refine (c12_spatial_eq_same ..).trans ?_
    simp [c3]
  · obtain ⟨rfl, h2, h3⟩ := hs
    cases h2; cases h3
    refine (c12_lorentz_eq_same ..).trans ?_
    simp [c3, C11M.c4]

/-- representability of the stored coordinates (hypotheses of `Refine/Equal.lean`): 3D `Canon3` (`0 ≤ ρ`; off the z axis and
`0 < θ < π` for θ/η storage) and `cos θ ≠ 0`; 4D in addition `0 ≤ τ` -/
def CanonV (v : Vec ℝ) : Prop :=
  C11M.UnDom (fun _ _ _ => True) (fun k l a b c => Canon3 k l a b c ∧ TanOK l c)
    (fun k l t a b c d => Canon4 k l t a b c d ∧ TanOK l c) v

/-- **soundness of `==` w.r.t. the denotation, every storage pairing**: operands that compare equal denote the same
Cartesian vector; operands denoting different vectors compare `!=`.  ONLY THIS DIRECTION holds (see
`c12m_eq_denote_converse_false`). -/
theorem c12m_eq_denote_partial (K : Consts ℝ) (A : Arith ℝ) (a b : Vec ℝ) (ha : C01M.WFV a) (hb : C01M.WFV b)
    (hd : a.ty.dim = b.ty.dim) (hca : CanonV a) (hcb : CanonV b) :
    ∃ p q, call evR K A "not_equal" a [.v b] = .ok (.truth p) ∧ call evR K A "equal" a [.v b] = .ok (.truth q) ∧
      (q → denote a = denote b) ∧ (denote a ≠ denote b → p) := by
  obtain ⟨p, q, h1, h2, h3⟩ := c12m_ne_iff_not_eq K A a b ha hb hd
  have key : q → denote a = denote b := by
    rw [equal_eval K A a b ha hb hd] at h2
    cases h2
    rcases wfv_cases ha with ⟨be1, mom1, az1, a0, a1, rfl⟩ | ⟨be1, mom1, az1, l1, a0, a1, a2, rfl⟩ |
      ⟨be1, mom1, az1, l1, t1, a0, a1, a2, a3, rfl⟩ <;>
    rcases wfv_cases hb with ⟨be2, mom2, az2, b0, b1, rfl⟩ | ⟨be2, mom2, az2, l2, b0, b1, b2, rfl⟩ |
      ⟨be2, mom2, az2, l2, t2, b0, b1, b2, b3, rfl⟩ <;> try (simp [VT.dim] at hd; done)
    · intro h
      have e := refine_planar_equal az1 az2 a0 a1 b0 b1 h
      rw [C11M.denote_V2, C11M.denote_V2, e]
    · intro h
      have e := refine_spatial_equal az1 l1 az2 l2 a0 a1 a2 b0 b1 b2 hca.1 hcb.1 hca.2 hcb.2 h
      rw [C11M.denote_V3, C11M.denote_V3, e]
    · intro h
      have e := refine_lorentz_equal az1 l1 t1 az2 l2 t2 a0 a1 a2 a3 b0 b1 b2 b3 hca.1 hcb.1 hca.2 hcb.2 h
      rw [C11M.denote_V4, C11M.denote_V4, e]
  exact ⟨p, q, h1, h2, key, fun hne => h3.mpr fun hq => hne (key hq)⟩

/-- the converse is FALSE (by design: the comparison is on stored coordinates): the polar 2D vectors `(ρ, φ) = (0, 0)` and
`(0, 1)` are both representable and denote the same point `(0, 0)` but compare `!=` -/
theorem c12m_eq_denote_converse_false (K : Consts ℝ) (A : Arith ℝ) :
    ∃ a b : Vec ℝ, C01M.WFV a ∧ C01M.WFV b ∧ CanonV a ∧ CanonV b ∧ denote a = denote b ∧
      call evR K A "equal" a [.v b] = .ok (.truth (EqP a b)) ∧ ¬ EqP a b := by
  refine ⟨C11M.V2 .obj false .rhophi 0 0, C11M.V2 .obj false .rhophi 0 1, ⟨by simp, rfl⟩, ⟨by simp, rfl⟩, trivial, trivial,
    ?_, equal_eval2 .., ?_⟩
  · simp [denote, xOf, yOf]
  · intro h
    have := ((c12_planar_eq_same .rhophi 0 0 0 1).mp h).2
    norm_num at this

/-- the representability hypothesis `0 ≤ ρ` of `c12m_eq_denote_partial` cannot be dropped: the `(ρ, φ, θ)`-stored vector
`(-1, 0, 1)` compares `==` to the `(x, y, θ)`-stored `(-1, 0, 1)`, but they denote opposite `z`
(method-level form of `refine_spatial_equal_needs_canon2`) -/
theorem c12m_eq_needs_canon (K : Consts ℝ) (A : Arith ℝ) :
    ∃ (a b : Vec ℝ) (q : Prop), C01M.WFV a ∧ C01M.WFV b ∧ call evR K A "equal" a [.v b] = .ok (.truth q) ∧ q ∧
      denote a ≠ denote b := by
  obtain ⟨-, heq, hne⟩ := refine_spatial_equal_needs_canon2
  refine ⟨C11M.V3 .obj false .rhophi .theta (-1) 0 1, C11M.V3 .obj false .xy .theta (-1) 0 1, _, ⟨by simp, rfl⟩,
    ⟨by simp, rfl⟩, equal_eval3 .., heq, fun h => hne ?_⟩
  rw [C11M.denote_V3, C11M.denote_V3] at h
  simp only [C11M.toL3, Option.some.injEq, List.cons.injEq, and_true] at h
  exact Prod.ext h.1 (Prod.ext h.2.1 h.2.2)

/-- **2D: `==` is EXACTLY equality of the denotations when polar operands are stored canonically** (`0 < ρ`, `-π < φ ≤ π`),
all 4 storage pairings.  (For 3D / 4D only the soundness direction `c12m_eq_denote_partial` is proved.) -/
theorem c12m_eq_denote_2D (K : Consts ℝ) (A : Arith ℝ) (a b : Vec ℝ) (ha : C01M.WFV a) (hb : C01M.WFV b)
    (hda : a.ty.dim = 2) (hdb : b.ty.dim = 2) (hpa : Stored2 C04M.PolarOK a) (hpb : Stored2 C04M.PolarOK b) :
    ∃ q, call evR K A "equal" a [.v b] = .ok (.truth q) ∧ (q ↔ denote a = denote b) := by
  refine ⟨_, equal_eval K A a b ha hb (hda.trans hdb.symm), ?_⟩
  rcases wfv_cases ha with ⟨be1, mom1, az1, a0, a1, rfl⟩ | ⟨be1, mom1, az1, l1, a0, a1, a2, rfl⟩ |
    ⟨be1, mom1, az1, l1, t1, a0, a1, a2, a3, rfl⟩ <;> try (simp [VT.dim] at hda; done)
  rcases wfv_cases hb with ⟨be2, mom2, az2, b0, b1, rfl⟩ | ⟨be2, mom2, az2, l2, b0, b1, b2, rfl⟩ |
    ⟨be2, mom2, az2, l2, t2, b0, b1, b2, b3, rfl⟩ <;> try (simp [VT.dim] at hdb; done)
  constructor
  · intro h
    have e := refine_planar_equal az1 az2 a0 a1 b0 b1 h
    rw [C11M.denote_V2, C11M.denote_V2, e]
  · intro h
    simp only [denote, Option.some.injEq, List.cons.injEq, and_true] at h
    obtain ⟨hx, hy⟩ := h
    cases az1 <;> cases az2
    · exact ⟨hx, hy⟩
    · exact ⟨hx, hy⟩
    · exact ⟨hx, hy⟩
    · obtain ⟨r1, p1, p1'⟩ : 0 < a0 ∧ -π < a1 ∧ a1 ≤ π := hpa
      obtain ⟨r2, p2, p2'⟩ : 0 < b0 ∧ -π < b1 ∧ b1 ≤ π := hpb
      have hx' : a0 * cos a1 = b0 * cos b1 := hx
      have hy' : a0 * sin a1 = b0 * sin b1 := hy
      have e1 := L.arctan2_polar r1 p1 p1'
      have e2 := L.arctan2_polar r2 p2 p2'
      rw [hx', hy', e2] at e1
      have hr : a0 ^ 2 = b0 ^ 2 := by
        have s1 := cos_sq_add_sin_sq a1
        have s2 := cos_sq_add_sin_sq b1
        have : (a0 * cos a1) ^ 2 + (a0 * sin a1) ^ 2 = (b0 * cos b1) ^ 2 + (b0 * sin b1) ^ 2 := by rw [hx', hy']
        nlinarith [this, s1, s2]
      exact ⟨(sq_eq_sq₀ r1.le r2.le).mp hr, e1.symm⟩

/-- e.g. a `(ρ, φ, η, τ)` momentum object against an `(x, y, z, t)` numpy vector -/
example (K : Consts ℝ) (A : Arith ℝ) :
    ∃ p q, call evR K A "not_equal" (C11M.V4 .obj true .rhophi .eta .tau 2 1 1 3) [.v (C11M.V4 .np false .xy .z .t 1 2 3 4)]
        = .ok (.truth p) ∧
      call evR K A "equal" (C11M.V4 .obj true .rhophi .eta .tau 2 1 1 3) [.v (C11M.V4 .np false .xy .z .t 1 2 3 4)]
        = .ok (.truth q) ∧ (p ↔ ¬ q) :=
  c12m_ne_iff_not_eq K A _ _ ⟨by simp, rfl⟩ ⟨by simp, rfl⟩ rfl

example : CanonV (C11M.V4 .obj true .rhophi .eta .tau 2 1 1 3) ∧ CanonV (C11M.V3 .np false .xy .z 1 2 3) := by
  refine ⟨⟨⟨⟨?_, ?_⟩, ?_⟩, trivial⟩, ⟨⟨trivial, trivial⟩, trivial⟩⟩
  · show (0 : ℝ) ≤ 2; norm_num
  · show (0 : ℝ) < 2; norm_num
  · show (0 : ℝ) ≤ 3; norm_num

/-! ## 2. `isclose`

`call … "isclose" a [.v b]` uses the default tolerances `rtol = K.rtol` (`1e-05`), `atol = K.atol` (`1e-08`),
`equal_nan = K.bFalse`; explicit tolerances are the `extra` argument of `VG.binary` (the string layer `VG.call` only models
the default call, see the report). -/

theorem binary_isclose_same {S B : Type} (ev : Ev S B) (K : Consts S) (self o : Vec S) (m : ModuleId) (extra : List S)
    (h : o.ty.dim = self.ty.dim) (hm : Bin.isclose.sameDimMod self.ty.dim = some m) :
    binary ev K .isclose self o extra =
      dispatch ev m (if extra.isEmpty then [K.rtol, K.atol, K.bFalse] else extra) none [self, o] [self, o] := by
  simp only [binary, h, bne_self_eq_false, Bool.false_eq_true, ↓reduceIte, hm]

theorem planar_isclose_ret_eq (k0 k1 : Az) : planar_isclose.ret k0 k1 = .bool := by cases k0 <;> cases k1 <;> rfl
theorem spatial_isclose_ret_eq (k0 k1 k2 k3) : spatial_isclose.ret k0 k1 k2 k3 = .bool := by
  cases k0 <;> cases k1 <;> cases k2 <;> cases k3 <;> rfl
theorem lorentz_isclose_ret_eq (k0 k1 k2 k3 k4 k5) : lorentz_isclose.ret k0 k1 k2 k3 k4 k5 = .bool := by
  cases k0 <;> cases k1 <;> cases k2 <;> cases k3 <;> cases k4 <;> cases k5 <;> rfl

theorem isclose_eval2 (K : Consts ℝ) (extra : List ℝ) (r t e : ℝ)
    (hx : (if extra.isEmpty then [K.rtol, K.atol, K.bFalse] else extra) = [r, t, e])
    (be1 mom1 az1 be2 mom2 az2) (a0 a1 a2 a3 : ℝ) :
    binary evR K .isclose (C11M.V2 be1 mom1 az1 a0 a1) (C11M.V2 be2 mom2 az2 a2 a3) extra =
      .ok (.truth (planar_isclose.eval az1 az2 r t e a0 a1 a2 a3)) := by
  rw [binary_isclose_same evR K (C11M.V2 be1 mom1 az1 a0 a1) (C11M.V2 be2 mom2 az2 a2 a3) .planar_isclose extra rfl rfl, hx,
    dispatch_pair evR .planar_isclose [r, t, e] _ _ 1 1 rfl [.az az1] [.az az2] [a0, a1] [a2, a3] rfl rfl _ _ rfl,
    planar_isclose_ret_eq]
  rfl

theorem isclose_eval3 (K : Consts ℝ) (extra : List ℝ) (r t e : ℝ)
    (hx : (if extra.isEmpty then [K.rtol, K.atol, K.bFalse] else extra) = [r, t, e])
    (be1 mom1 az1 l1 be2 mom2 az2 l2) (a0 a1 a2 a3 a4 a5 : ℝ) :
    binary evR K .isclose (C11M.V3 be1 mom1 az1 l1 a0 a1 a2) (C11M.V3 be2 mom2 az2 l2 a3 a4 a5) extra =
      .ok (.truth (spatial_isclose.eval az1 l1 az2 l2 r t e a0 a1 a2 a3 a4 a5)) := by
  rw [binary_isclose_same evR K (C11M.V3 be1 mom1 az1 l1 a0 a1 a2) (C11M.V3 be2 mom2 az2 l2 a3 a4 a5) .spatial_isclose extra
      rfl rfl, hx,
    dispatch_pair evR .spatial_isclose [r, t, e] _ _ 2 2 rfl [.az az1, .lon l1] [.az az2, .lon l2] [a0, a1, a2]
      [a3, a4, a5] rfl rfl _ _ rfl,
    spatial_isclose_ret_eq]
  rfl

theorem isclose_eval4 (K : Consts ℝ) (extra : List ℝ) (r t e : ℝ)
    (hx : (if extra.isEmpty then [K.rtol, K.atol, K.bFalse] else extra) = [r, t, e])
    (be1 mom1 az1 l1 t1 be2 mom2 az2 l2 t2) (a0 a1 a2 a3 a4 a5 a6 a7 : ℝ) :
    binary evR K .isclose (C11M.V4 be1 mom1 az1 l1 t1 a0 a1 a2 a3) (C11M.V4 be2 mom2 az2 l2 t2 a4 a5 a6 a7) extra =
      .ok (.truth (lorentz_isclose.eval az1 l1 t1 az2 l2 t2 r t e a0 a1 a2 a3 a4 a5 a6 a7)) := by
  rw [binary_isclose_same evR K (C11M.V4 be1 mom1 az1 l1 t1 a0 a1 a2 a3) (C11M.V4 be2 mom2 az2 l2 t2 a4 a5 a6 a7)
      .lorentz_isclose extra rfl rfl, hx,
    dispatch_pair evR .lorentz_isclose [r, t, e] _ _ 3 3 rfl [.az az1, .lon l1, .tmp t1] [.az az2, .lon l2, .tmp t2]
      [a0, a1, a2, a3] [a4, a5, a6, a7] rfl rfl _ _ rfl,
    lorentz_isclose_ret_eq]
  rfl

/-- the answer of the compute function behind `isclose` with tolerances `rtol = r`, `atol = t`, `equal_nan = e` -/
def IscP (r t e : ℝ) (a b : Vec ℝ) : Prop :=
  BinDom (fun k0 k1 => planar_isclose.eval k0 k1 r t e) (fun k0 k1 k2 k3 => spatial_isclose.eval k0 k1 k2 k3 r t e)
    (fun k0 k1 k2 k3 k4 k5 => lorentz_isclose.eval k0 k1 k2 k3 k4 k5 r t e) a b

/-- **`isclose` evaluated**, default (`extra = []`) or explicit (`extra = [rtol, atol, equal_nan]`) tolerances, every
storage pairing, any backends / flavors -/
theorem c12m_isclose (K : Consts ℝ) (a b : Vec ℝ) (ha : C01M.WFV a) (hb : C01M.WFV b) (hd : a.ty.dim = b.ty.dim)
    (extra : List ℝ) (r t e : ℝ) (hx : (if extra.isEmpty then [K.rtol, K.atol, K.bFalse] else extra) = [r, t, e]) :
    binary evR K .isclose a b extra = .ok (.truth (IscP r t e a b)) := by
  rcases wfv_cases ha with ⟨be1, mom1, az1, a0, a1, rfl⟩ | ⟨be1, mom1, az1, l1, a0, a1, a2, rfl⟩ |
    ⟨be1, mom1, az1, l1, t1, a0, a1, a2, a3, rfl⟩ <;>
  rcases wfv_cases hb with ⟨be2, mom2, az2, b0, b1, rfl⟩ | ⟨be2, mom2, az2, l2, b0, b1, b2, rfl⟩ |
    ⟨be2, mom2, az2, l2, t2, b0, b1, b2, b3, rfl⟩ <;> try (simp [VT.dim] at hd; done)
  · exact isclose_eval2 K extra r t e hx ..
  · exact isclose_eval3 K extra r t e hx ..
  · exact isclose_eval4 K extra r t e hx ..

/-- the public call with default tolerances, and the call with explicit tolerances -/
theorem c12m_isclose_call (K : Consts ℝ) (A : Arith ℝ) (a b : Vec ℝ) (ha : C01M.WFV a) (hb : C01M.WFV b)
    (hd : a.ty.dim = b.ty.dim) (r t e : ℝ) :
    call evR K A "isclose" a [.v b] = .ok (.truth (IscP K.rtol K.atol K.bFalse a b)) ∧
    binary evR K .isclose a b [r, t, e] = .ok (.truth (IscP r t e a b)) :=
  ⟨(call_bin9 evR K A a b).2.2.1.trans (c12m_isclose K a b ha hb hd [] _ _ _ rfl),
    c12m_isclose K a b ha hb hd [r, t, e] r t e rfl⟩

/-- explicit tolerances are NOT modelled by the string layer `VG.call` (only by `VG.binary`) -/
example (K : Consts ℝ) (A : Arith ℝ) (a b : Vec ℝ) (r t e : ℝ) :
    call evR K A "isclose" a [.v b, .sc r, .sc t, .sc e] = .error .unmodelled := rfl

/-- a wrong number of explicit tolerances is a `TypeError` (no such signature) -/
example (K : Consts ℝ) : binary evR K .isclose (C11M.V2 .obj false .xy 1 2) (C11M.V2 .obj false .xy 1 2) [1] =
    .error .typeError := rfl

/-- **same-system operands**: `isclose` ⇔ every stored coordinate satisfies `|cᵢ − dᵢ| ≤ atol + rtol·|dᵢ|` -/
theorem c12m_isclose_same_system (r t e : ℝ) (a b : Vec ℝ) (ha : C01M.WFV a) (hb : C01M.WFV b) (hs : SameSystem a b) :
    IscP r t e a b ↔ List.Forall₂ (fun c d => |c - d| ≤ t + r * |d|) a.c b.c := by
  have hd : a.ty.dim = b.ty.dim := by simp only [VT.dim, hs.2.1, hs.2.2]
  rcases wfv_cases ha with ⟨be1, mom1, az1, a0, a1, rfl⟩ | ⟨be1, mom1, az1, l1, a0, a1, a2, rfl⟩ |
    ⟨be1, mom1, az1, l1, t1, a0, a1, a2, a3, rfl⟩ <;>
  rcases wfv_cases hb with ⟨be2, mom2, az2, b0, b1, rfl⟩ | ⟨be2, mom2, az2, l2, b0, b1, b2, rfl⟩ |
    ⟨be2, mom2, az2, l2, t2, b0, b1, b2, b3, rfl⟩ <;> try (simp [VT.dim] at hd; done)
  · obtain ⟨rfl, -, -⟩ := hs
    refine (c12_planar_isclose_same ..).trans ?_
    simp [c3]
  · obtain ⟨rfl, h2, -⟩ := hs
    cases h2
    refine (c12_spatial_isclose_same ..).trans ?_
    simp [c3]
  · obtain ⟨rfl, h2, h3⟩ := hs
    cases h2; cases h3
    refine (c12_lorentz_isclose_same ..).trans ?_
    simp [c3, C11M.c4]

/-- the same at the level of the public call (default tolerances) and of `binary` (explicit tolerances) -/
theorem c12m_isclose_same_system_call (K : Consts ℝ) (A : Arith ℝ) (a b : Vec ℝ) (ha : C01M.WFV a) (hb : C01M.WFV b)
    (hs : SameSystem a b) (r t e : ℝ) :
    (∃ q, call evR K A "isclose" a [.v b] = .ok (.truth q) ∧
      (q ↔ List.Forall₂ (fun c d => |c - d| ≤ K.atol + K.rtol * |d|) a.c b.c)) ∧
    (∃ q, binary evR K .isclose a b [r, t, e] = .ok (.truth q) ∧
      (q ↔ List.Forall₂ (fun c d => |c - d| ≤ t + r * |d|) a.c b.c)) := by
  have hd : a.ty.dim = b.ty.dim := by simp only [VT.dim, hs.2.1, hs.2.2]
  exact ⟨⟨_, (c12m_isclose_call K A a b ha hb hd r t e).1, c12m_isclose_same_system _ _ _ a b ha hb hs⟩,
    ⟨_, (c12m_isclose_call K A a b ha hb hd r t e).2, c12m_isclose_same_system _ _ _ a b ha hb hs⟩⟩

/-- **`isclose` is reflexive** for non-negative tolerances -/
theorem c12m_isclose_refl (r t e : ℝ) (hr : 0 ≤ r) (ht : 0 ≤ t) (a : Vec ℝ) (ha : C01M.WFV a) : IscP r t e a a := by
  rcases wfv_cases ha with ⟨be1, mom1, az1, a0, a1, rfl⟩ | ⟨be1, mom1, az1, l1, a0, a1, a2, rfl⟩ |
    ⟨be1, mom1, az1, l1, t1, a0, a1, a2, a3, rfl⟩
  · exact c12_planar_isclose_refl _ _ _ _ _ _ hr ht
  · exact c12_spatial_isclose_refl _ _ _ _ _ _ _ _ hr ht
  · exact c12_lorentz_isclose_refl _ _ _ _ _ _ _ _ _ _ hr ht

/-- **`==` implies `isclose`**, every storage pairing, non-negative tolerances -/
theorem c12m_isclose_of_eq (r t e : ℝ) (hr : 0 ≤ r) (ht : 0 ≤ t) (a b : Vec ℝ) (ha : C01M.WFV a) (hb : C01M.WFV b)
    (hd : a.ty.dim = b.ty.dim) (h : EqP a b) : IscP r t e a b := by
  rcases wfv_cases ha with ⟨be1, mom1, az1, a0, a1, rfl⟩ | ⟨be1, mom1, az1, l1, a0, a1, a2, rfl⟩ |
    ⟨be1, mom1, az1, l1, t1, a0, a1, a2, a3, rfl⟩ <;>
  rcases wfv_cases hb with ⟨be2, mom2, az2, b0, b1, rfl⟩ | ⟨be2, mom2, az2, l2, b0, b1, b2, rfl⟩ |
    ⟨be2, mom2, az2, l2, t2, b0, b1, b2, b3, rfl⟩ <;> try (simp [VT.dim] at hd; done)
  · exact c12_planar_isclose_of_eq _ _ _ _ _ _ _ _ _ hr ht h
  · exact c12_spatial_isclose_of_eq _ _ _ _ _ _ _ _ _ _ _ _ _ hr ht h
  · exact c12_lorentz_isclose_of_eq _ _ _ _ _ _ _ _ _ _ _ _ _ _ _ _ _ hr ht h

/-- **`isclose` is monotone in both tolerances**, every storage pairing -/
theorem c12m_isclose_mono (r t r' t' e : ℝ) (hr : r ≤ r') (ht : t ≤ t') (a b : Vec ℝ) (ha : C01M.WFV a) (hb : C01M.WFV b)
    (hd : a.ty.dim = b.ty.dim) (h : IscP r t e a b) : IscP r' t' e a b := by
  rcases wfv_cases ha with ⟨be1, mom1, az1, a0, a1, rfl⟩ | ⟨be1, mom1, az1, l1, a0, a1, a2, rfl⟩ |
    ⟨be1, mom1, az1, l1, t1, a0, a1, a2, a3, rfl⟩ <;>
  rcases wfv_cases hb with ⟨be2, mom2, az2, b0, b1, rfl⟩ | ⟨be2, mom2, az2, l2, b0, b1, b2, rfl⟩ |
    ⟨be2, mom2, az2, l2, t2, b0, b1, b2, b3, rfl⟩ <;> try (simp [VT.dim] at hd; done)
  · exact c12_planar_isclose_mono _ _ _ _ _ _ _ _ _ _ _ hr ht h
  · exact c12_spatial_isclose_mono _ _ _ _ _ _ _ _ _ _ _ _ _ _ _ hr ht h
  · exact c12_lorentz_isclose_mono _ _ _ _ _ _ _ _ _ _ _ _ _ _ _ _ _ _ _ hr ht h

/-- the three laws at the level of the public calls (default tolerances `0 ≤ K.rtol`, `0 ≤ K.atol`, as in the library:
`1e-05`, `1e-08`): `a.isclose(a)`; `a == b → a.isclose(b)`; `a.isclose(b)` with the defaults implies
`isclose` with any larger explicit tolerances -/
theorem c12m_isclose_laws (K : Consts ℝ) (A : Arith ℝ) (hr : 0 ≤ K.rtol) (ht : 0 ≤ K.atol) (a b : Vec ℝ) (ha : C01M.WFV a)
    (hb : C01M.WFV b) (hd : a.ty.dim = b.ty.dim) (r' t' : ℝ) (hr' : K.rtol ≤ r') (ht' : K.atol ≤ t') :
    (∃ c, call evR K A "isclose" a [.v a] = .ok (.truth c) ∧ c) ∧
    (∃ c q c', call evR K A "isclose" a [.v b] = .ok (.truth c) ∧ call evR K A "equal" a [.v b] = .ok (.truth q) ∧
      binary evR K .isclose a b [r', t', K.bFalse] = .ok (.truth c') ∧ (q → c) ∧ (c → c')) :=
  ⟨⟨_, (c12m_isclose_call K A a a ha ha rfl 0 0 0).1, c12m_isclose_refl _ _ _ hr ht a ha⟩,
    ⟨_, _, _, (c12m_isclose_call K A a b ha hb hd 0 0 0).1, equal_eval K A a b ha hb hd,
      (c12m_isclose_call K A a b ha hb hd r' t' K.bFalse).2, c12m_isclose_of_eq _ _ _ hr ht a b ha hb hd,
      c12m_isclose_mono _ _ _ _ _ hr' ht' a b ha hb hd⟩⟩

/-- e.g. two `(x, y)` vectors: `(1, 2)` is close to `(1.000001, 2)` with `rtol = 1e-5`, `atol = 1e-8` -/
example : IscP 1e-5 1e-8 0 (C11M.V2 .obj false .xy 1 2) (C11M.V2 .np true .xy 1.000001 2) := by
  have ha : C01M.WFV (C11M.V2 .obj false .xy (1 : ℝ) 2) := ⟨by simp, rfl⟩
  have hb : C01M.WFV (C11M.V2 .np true .xy (1.000001 : ℝ) 2) := ⟨by simp, rfl⟩
  refine (c12m_isclose_same_system _ _ _ _ _ ha hb ⟨rfl, rfl, rfl⟩).mpr ?_
  simp only [List.forall₂_cons, List.forall₂_nil_right_iff, and_true]
  constructor
  · rw [abs_le]; constructor <;> norm_num [abs_of_pos]
  · norm_num

/-! ## 3. the norm operators `abs(v)`, `v ** p`, `numpy.square / sqrt / cbrt (v)` (property C11, last sentence) -/

/-- the norm of a component list: Euclidean for length 2 / 3; `sign(s)·√|s|`, `s = t² − |p|²`, for length 4 -/
noncomputable def normS : List ℝ → ℝ
  | [x, y] => sqrt (x ^ 2 + y ^ 2)
  | [x, y, z] => sqrt (x ^ 2 + y ^ 2 + z ^ 2)
  | [x, y, z, t] => Real.sign (t ^ 2 - (x ^ 2 + y ^ 2 + z ^ 2)) * sqrt |t ^ 2 - (x ^ 2 + y ^ 2 + z ^ 2)|
  | _ => 0

/-- the squared norm: `x²+y²`, `x²+y²+z²`, `t² − (x²+y²+z²)` -/
def norm2S : List ℝ → ℝ
  | [x, y] => x ^ 2 + y ^ 2
  | [x, y, z] => x ^ 2 + y ^ 2 + z ^ 2
  | [x, y, z, t] => t ^ 2 - (x ^ 2 + y ^ 2 + z ^ 2)
  | _ => 0

/-- hypotheses of the norm accessors on the stored coordinates: `0 ≤ ρ` (polar storage); 3D also `sin θ ≠ 0`;
4D representable longitudinal storage and `0 ≤ τ` -/
def NormOK (v : Vec ℝ) : Prop :=
  C11M.UnDom (fun k a b => Canon2 k a b) (fun k l a b c => Canon2 k a b ∧ SinOK l c)
    (fun k l t a b c d => CanonLon k l a b c ∧ CanonTmp t d) v
/-- hypotheses of the squared-norm accessors: none in 2D; 3D `sin θ ≠ 0`; 4D as `NormOK` -/
def Norm2OK (v : Vec ℝ) : Prop :=
  C11M.UnDom (fun _ _ _ => True) (fun _ l _ _ c => SinOK l c) (fun k l t a b c d => CanonLon k l a b c ∧ CanonTmp t d) v

theorem norm2OK_of_normOK {v : Vec ℝ} (hv : C01M.WFV v) (h : NormOK v) : Norm2OK v := by
  rcases wfv_cases hv with ⟨be, mom, az, a, b, rfl⟩ | ⟨be, mom, az, l, a, b, c, rfl⟩ |
    ⟨be, mom, az, l, t, a, b, c, d, rfl⟩
  · trivial
  · exact h.2
  · exact h

theorem operator_norm {S B : Type} (ev : Ev S B) (K : Consts S) (A : Arith S) (v : Vec S) (p : S) :
    operator ev K A "abs" v [] = getAcc ev (normAcc v.ty.dim) v ∧
    operator ev K A "square" v [] = getAcc ev (norm2Acc v.ty.dim) v ∧
    operator ev K A "pow" v [.sc p] =
      (if A.isTwo p then getAcc ev (norm2Acc v.ty.dim) v
       else match getAcc ev (normAcc v.ty.dim) v with
        | .ok (.scalar s) => .ok (.scalar (A.pow s p))
        | r => r) ∧
    operator ev K A "sqrt" v [] =
      (match getAcc ev (norm2Acc v.ty.dim) v with
        | .ok (.scalar s) => .ok (.scalar (A.pow s A.quarter))
        | r => r) ∧
    operator ev K A "cbrt" v [] =
      (match getAcc ev (norm2Acc v.ty.dim) v with
        | .ok (.scalar s) => .ok (.scalar (A.pow s A.sixth))
        | r => r) := ⟨rfl, rfl, rfl, rfl, rfl⟩

theorem call_getAcc {S B : Type} (ev : Ev S B) (K : Consts S) (A : Arith S) (g : String) (a : Acc) (v : Vec S)
    (hg : accOfName g = some a) : call ev K A g v [] = getAcc ev a v := by
  rw [c14_call_generic ev K A g a v [] hg]; rfl

/-- the accessor behind `abs` (`rho` / `mag` / `tau` by dimension) is the norm of the denotation -/
theorem getAcc_norm (K : Consts ℝ) (A : Arith ℝ) (v : Vec ℝ) (hv : C01M.WFV v) (hc : NormOK v) (p : List ℝ)
    (h : denote v = some p) : getAcc evR (normAcc v.ty.dim) v = .ok (.scalar (normS p)) := by
  rcases wfv_cases hv with ⟨be, mom, az, a, b, rfl⟩ | ⟨be, mom, az, l, a, b, c, rfl⟩ |
    ⟨be, mom, az, l, t, a, b, c, d, rfl⟩
  · cases h
    exact (call_getAcc evR K A "rho" .rho _ rfl).symm.trans (c01m_acc_rho K A _ hv hc _ _ _ rfl)
  · cases h
    exact (call_getAcc evR K A "mag" .mag _ rfl).symm.trans (c01m_acc_mag K A _ hv hc _ _ _ _ rfl)
  · cases h
    exact (call_getAcc evR K A "tau" .tau _ rfl).symm.trans (c09m_acc_tau K A _ hv hc _ _ _ _ rfl)

/-- the accessor behind `square` (`rho2` / `mag2` / `tau2`) is the squared norm of the denotation -/
theorem getAcc_norm2 (K : Consts ℝ) (A : Arith ℝ) (v : Vec ℝ) (hv : C01M.WFV v) (hc : Norm2OK v) (p : List ℝ)
    (h : denote v = some p) : getAcc evR (norm2Acc v.ty.dim) v = .ok (.scalar (norm2S p)) := by
  rcases wfv_cases hv with ⟨be, mom, az, a, b, rfl⟩ | ⟨be, mom, az, l, a, b, c, rfl⟩ |
    ⟨be, mom, az, l, t, a, b, c, d, rfl⟩
  · cases h
    exact (call_getAcc evR K A "rho2" .rho2 _ rfl).symm.trans (c01m_acc_rho2 K A _ hv _ _ _ rfl)
  · cases h
    exact (call_getAcc evR K A "mag2" .mag2 _ rfl).symm.trans (c01m_acc_mag2 K A _ hv hc _ _ _ _ rfl)
  · cases h
    exact (call_getAcc evR K A "tau2" .tau2 _ rfl).symm.trans (c09m_acc_tau2 K A _ hv hc _ _ _ _ rfl)

/-- **`abs(v)`** in every storage (2 + 6 + 12): the norm of the denotation -/
theorem c12m_abs (K : Consts ℝ) (A : Arith ℝ) (v : Vec ℝ) (hv : C01M.WFV v) (hc : NormOK v) (p : List ℝ)
    (h : denote v = some p) : operator evR K A "abs" v [] = .ok (.scalar (normS p)) :=
  (operator_norm evR K A v 0).1.trans (getAcc_norm K A v hv hc p h)

/-- **`numpy.square(v)`**: the squared norm of the denotation -/
theorem c12m_square (K : Consts ℝ) (A : Arith ℝ) (v : Vec ℝ) (hv : C01M.WFV v) (hc : Norm2OK v) (p : List ℝ)
    (h : denote v = some p) : operator evR K A "square" v [] = .ok (.scalar (norm2S p)) :=
  (operator_norm evR K A v 0).2.1.trans (getAcc_norm2 K A v hv hc p h)

/-- **`v ** 2`** (the `other == 2` test of `__pow__` succeeds): the squared norm -/
theorem c12m_pow_two (K : Consts ℝ) (A : Arith ℝ) (v : Vec ℝ) (hv : C01M.WFV v) (hc : Norm2OK v) (p : List ℝ)
    (h : denote v = some p) (q : ℝ) (hq : A.isTwo q = true) :
    operator evR K A "pow" v [.sc q] = .ok (.scalar (norm2S p)) := by
  rw [(operator_norm evR K A v q).2.2.1, if_pos hq]
  exact getAcc_norm2 K A v hv hc p h

/-- **`v ** q`, `q ≠ 2`**: `A.pow norm q`, exactly as the model applies the scalar power -/
theorem c12m_pow (K : Consts ℝ) (A : Arith ℝ) (v : Vec ℝ) (hv : C01M.WFV v) (hc : NormOK v) (p : List ℝ)
    (h : denote v = some p) (q : ℝ) (hq : A.isTwo q = false) :
    operator evR K A "pow" v [.sc q] = .ok (.scalar (A.pow (normS p) q)) := by
  rw [(operator_norm evR K A v q).2.2.1, if_neg (by simp [hq]), getAcc_norm K A v hv hc p h]

/-- **`numpy.sqrt(v)`** = `(norm²) ** 0.25` -/
theorem c12m_sqrt (K : Consts ℝ) (A : Arith ℝ) (v : Vec ℝ) (hv : C01M.WFV v) (hc : Norm2OK v) (p : List ℝ)
    (h : denote v = some p) : operator evR K A "sqrt" v [] = .ok (.scalar (A.pow (norm2S p) A.quarter)) := by
  rw [(operator_norm evR K A v 0).2.2.2.1, getAcc_norm2 K A v hv hc p h]

/-- **`numpy.cbrt(v)`** = `(norm²) ** 0.1666…` -/
theorem c12m_cbrt (K : Consts ℝ) (A : Arith ℝ) (v : Vec ℝ) (hv : C01M.WFV v) (hc : Norm2OK v) (p : List ℝ)
    (h : denote v = some p) : operator evR K A "cbrt" v [] = .ok (.scalar (A.pow (norm2S p) A.sixth)) := by
  rw [(operator_norm evR K A v 0).2.2.2.2, getAcc_norm2 K A v hv hc p h]

/-- **`abs` / `square` of ANY representable 4D vector under the signed-τ reading** (`denoteS` of Props/MethodLorentz.lean:
a τ-stored vector with `τ < 0` is space-like): still `sign(s)·√|s|` resp. `s = t² − |p|²` of the (signed) denotation -/
theorem c12m_abs_signed (K : Consts ℝ) (A : Arith ℝ) (v : Vec ℝ) (hv : C01M.WFV v)
    (hc : Stored4 (fun k l t a b c d => CanonLon k l a b c ∧ CanonTmpS k l t a b c d) v) (x y z t : ℝ)
    (h : denoteS v = some [x, y, z, t]) :
    operator evR K A "abs" v [] = .ok (.scalar (normS [x, y, z, t])) ∧
    operator evR K A "square" v [] = .ok (.scalar (norm2S [x, y, z, t])) := by
  have h' := c09m_acc_signed K A v hv hc x y z t h
  obtain ⟨be, mom, az, l, t0, a, b, c, d, rfl, -⟩ := denoteS_lorentz hv h
  exact ⟨(operator_norm evR K A _ 0).1.trans ((call_getAcc evR K A "tau" .tau _ rfl).symm.trans h'.2.2.2),
    (operator_norm evR K A _ 0).2.1.trans ((call_getAcc evR K A "tau2" .tau2 _ rfl).symm.trans h'.2.2.1)⟩

/-- for a non-negative squared norm (always in 2D / 3D; time-like or light-like in 4D) the norm is its square root -/
theorem normS_eq_sqrt : ∀ p : List ℝ, 0 ≤ norm2S p → normS p = sqrt (norm2S p)
  | [x, y], _ => rfl
  | [x, y, z], _ => rfl
  | [x, y, z, t], h => by
    simp only [normS, norm2S] at h ⊢
    rcases h.eq_or_lt with h0 | h0
    · rw [← h0]; simp
    · rw [Real.sign_of_pos h0, abs_of_pos h0, one_mul]
  | [], _ => by simp [normS, norm2S]
  | [_], _ => by simp [normS, norm2S]
  | _ :: _ :: _ :: _ :: _ :: _, _ => by simp [normS, norm2S]

/-- the real-number arithmetic of the method layer: `1 / f`, `**` = `Real.rpow`, `0.25`, `1/6`, `other == 2` -/
noncomputable def realArith : Arith ℝ :=
  { inv := fun x => 1 / x, pow := Real.rpow, quarter := 1 / 4, sixth := 1 / 6, isTwo := fun p => decide (p = 2) }

/-- **corollary for the concrete arithmetic**: `numpy.sqrt(v) = norm ** (1/2)` and `numpy.cbrt(v) = norm ** (1/3)` when
`0 ≤ norm²`; `v ** 2 = norm²`, `v ** q = norm ** q` (`q ≠ 2`) -/
theorem c12m_norm_real (K : Consts ℝ) (v : Vec ℝ) (hv : C01M.WFV v) (hc : NormOK v) (p : List ℝ)
    (h : denote v = some p) (h0 : 0 ≤ norm2S p) (q : ℝ) (hq : q ≠ 2) :
    operator evR K realArith "sqrt" v [] = .ok (.scalar (normS p ^ (1 / 2 : ℝ))) ∧
    operator evR K realArith "cbrt" v [] = .ok (.scalar (normS p ^ (1 / 3 : ℝ))) ∧
    operator evR K realArith "pow" v [.sc 2] = .ok (.scalar (norm2S p)) ∧
    operator evR K realArith "pow" v [.sc q] = .ok (.scalar (normS p ^ q)) := by
  have hc2 := norm2OK_of_normOK hv hc
  refine ⟨?_, ?_, ?_, ?_⟩
  · rw [c12m_sqrt K realArith v hv hc2 p h, normS_eq_sqrt p h0, Real.sqrt_eq_rpow, ← Real.rpow_mul h0]
    norm_num [realArith]
  · rw [c12m_cbrt K realArith v hv hc2 p h, normS_eq_sqrt p h0, Real.sqrt_eq_rpow, ← Real.rpow_mul h0]
    norm_num [realArith]
  · exact c12m_pow_two K realArith v hv hc2 p h 2 (by simp [realArith])
  · exact c12m_pow K realArith v hv hc p h q (by simp [realArith, hq])

/-- e.g. `abs` of the `(ρ, φ, η, τ)`-stored momentum `(2, 1, 1, 3)` is its stored `τ = 3` — through the denotation -/
example : NormOK (C11M.V4 .obj true .rhophi .eta .tau 2 1 1 3) ∧ NormOK (C11M.V3 .np false .xy .theta 3 4 1) ∧
    NormOK (C11M.V2 .obj false .rhophi 2 1) := by
  refine ⟨⟨?_, ?_⟩, ⟨trivial, ?_⟩, ?_⟩
  · show (0 : ℝ) < 2; norm_num
  · show (0 : ℝ) ≤ 3; norm_num
  · exact (sin_pos_of_pos_of_lt_pi one_pos (by linarith [two_le_pi])).ne'
  · show (0 : ℝ) ≤ 2; norm_num

/-- `abs` of the Cartesian 2D vector `(3, 4)` is `√(3² + 4²)` (`= 5`, next example); of the polar `(2, 1)` it is
`√((2 cos 1)² + (2 sin 1)²)` -/
example (K : Consts ℝ) (A : Arith ℝ) :
    operator evR K A "abs" (C11M.V2 .obj false .xy 3 4) [] = .ok (.scalar (normS [3, 4])) ∧
    operator evR K A "abs" (C11M.V2 .np true .rhophi 2 1) [] = .ok (.scalar (normS [2 * cos 1, 2 * sin 1])) :=
  ⟨c12m_abs K A (C11M.V2 .obj false .xy 3 4) ⟨by simp, rfl⟩ trivial _ rfl,
    c12m_abs K A (C11M.V2 .np true .rhophi 2 1) ⟨by simp, rfl⟩ (show (0 : ℝ) ≤ 2 by norm_num) _ rfl⟩

example : normS [3, 4] = 5 ∧ norm2S [0, 0, 3, 5] = 16 ∧ normS [0, 0, 3, 5] = 4 := by
  refine ⟨?_, by norm_num [norm2S], ?_⟩
  · show sqrt ((3 : ℝ) ^ 2 + 4 ^ 2) = 5
    rw [show (3 : ℝ) ^ 2 + 4 ^ 2 = 5 ^ 2 by norm_num, Real.sqrt_sq (by norm_num)]
  · rw [normS_eq_sqrt _ (by norm_num [norm2S])]
    show sqrt ((5 : ℝ) ^ 2 - (0 ^ 2 + 0 ^ 2 + 3 ^ 2)) = 4
    rw [show (5 : ℝ) ^ 2 - (0 ^ 2 + 0 ^ 2 + 3 ^ 2) = 4 ^ 2 by norm_num, Real.sqrt_sq (by norm_num)]

/-! ## 4. `transform2D`, `transform3D`, `transform4D` -/

/-- the positional scalar arguments of a call -/
def scalarsOf {S : Type} (args : List (Arg S)) : List S :=
  args.filterMap fun a => match a with | .sc s => some s | _ => none

theorem call_transform {S B : Type} (ev : Ev S B) (K : Consts S) (A : Arith S) (v : Vec S) (args : List (Arg S)) :
    (call ev K A "transform2D" v args =
      if v.ty.dim < 2 then .error .attributeError else
      if (scalarsOf args).length != 4 then .error .typeError else
        dispatch ev .planar_transform2D (scalarsOf args) none [v] [v]) ∧
    (call ev K A "transform3D" v args =
      if v.ty.dim < 3 then .error .attributeError else
      if (scalarsOf args).length != 9 then .error .typeError else
        dispatch ev .spatial_transform3D (scalarsOf args) none [v] [v]) ∧
    (call ev K A "transform4D" v args =
      if v.ty.dim < 4 then .error .attributeError else
      if (scalarsOf args).length != 16 then .error .typeError else
        dispatch ev .lorentz_transform4D (scalarsOf args) none [v] [v]) := ⟨rfl, rfl, rfl⟩

theorem dim_ge_two (t : VT) : 2 ≤ t.dim := by unfold VT.dim; omega

/-- **wrong number of scalars → `TypeError`; vector of too low dimension → `AttributeError`** (checked first) — for ALL
operands, any argument list and any compute layer -/
theorem c12m_transform_arity {S B : Type} (ev : Ev S B) (K : Consts S) (A : Arith S) (v : Vec S) (args : List (Arg S)) :
    ((scalarsOf args).length ≠ 4 → call ev K A "transform2D" v args = .error .typeError) ∧
    (v.ty.dim < 3 → call ev K A "transform3D" v args = .error .attributeError) ∧
    (3 ≤ v.ty.dim → (scalarsOf args).length ≠ 9 → call ev K A "transform3D" v args = .error .typeError) ∧
    (v.ty.dim < 4 → call ev K A "transform4D" v args = .error .attributeError) ∧
    (4 ≤ v.ty.dim → (scalarsOf args).length ≠ 16 → call ev K A "transform4D" v args = .error .typeError) := by
  obtain ⟨h2, h3, h4⟩ := call_transform ev K A v args
  have := dim_ge_two v.ty
  refine ⟨fun h => ?_, fun h => ?_, fun h h' => ?_, fun h => ?_, fun h h' => ?_⟩
  · rw [h2, if_neg (by omega), if_pos (by simpa using h)]
  · rw [h3, if_pos h]
  · rw [h3, if_neg (by omega), if_pos (by simpa using h')]
  · rw [h4, if_pos h]
  · rw [h4, if_neg (by omega), if_pos (by simpa using h')]

/-- the 2×2, 3×3 matrices acting on Cartesian components (`Spec.transform4` is the 4×4 one) -/
def mat2 (xx xy yx yy : ℝ) (p : ℝ × ℝ) : ℝ × ℝ := (xx * p.1 + xy * p.2, yx * p.1 + yy * p.2)
def mat3 (xx xy xz yx yy yz zx zy zz : ℝ) (p : ℝ × ℝ × ℝ) : ℝ × ℝ × ℝ :=
  (xx * p.1 + xy * p.2.1 + xz * p.2.2, yx * p.1 + yy * p.2.1 + yz * p.2.2, zx * p.1 + zy * p.2.1 + zz * p.2.2)

theorem planar_transform2D_ret_eq (k : Az) : planar_transform2D.ret k = .vec [.az .xy] := by cases k <;> rfl

/-- the raw result of `planar.transform2D` is Cartesian and equals `M · (x, y)` of the denotation, both azimuthal storages -/
theorem transform2D_cart (k : Az) (xx xy yx yy a b : ℝ) :
    planar_transform2D.eval k xx xy yx yy a b = mat2 xx xy yx yy (cart2 k a b) := by
  have h := refine_planar_transform2D k xx xy yx yy a b
  rw [planar_transform2D_ret_eq] at h
  exact Option.some.inj h

theorem transform3D_cart (k : Az) (l : Lon) (xx xy xz yx yy yz zx zy zz a b c : ℝ) (h : TanOK l c) :
    spatial_transform3D.eval k l xx xy xz yx yy yz zx zy zz a b c = mat3 xx xy xz yx yy yz zx zy zz (Spec.cart3 k l a b c) := by
  have h := refine_spatial_transform3D_interp k l xx xy xz yx yy yz zx zy zz a b c h
  rw [refine_spatial_transform3D_ret] at h
  have e : ∀ r : ℝ × ℝ × ℝ, interp3 (.vec [.az .xy, .lon .z]) r = some r := fun _ => rfl
  rw [e] at h
  exact Option.some.inj h

theorem transform4D_ret_eq (k0 : Az) (k1 : Lon) (k2 : Tmp) :
    lorentz_transform4D.ret k0 k1 k2 = Ret.vec [RP.az .xy, RP.lon .z, RP.tmp .t] := by
  cases k0 <;> cases k1 <;> cases k2 <;> rfl

theorem transform4D_cart (k : Az) (l : Lon) (t : Tmp) (xx xy xz xt yx yy yz yt zx zy zz zt tx ty tz tt a b c d : ℝ)
    (h : TanOK l c) (hs : SinOK l c) (hd : CanonTmp t d) :
    lorentz_transform4D.eval k l t xx xy xz xt yx yy yz yt zx zy zz zt tx ty tz tt a b c d =
      transform4 xx xy xz xt yx yy yz yt zx zy zz zt tx ty tz tt (Spec.cart4 k l t a b c d) := by
  have h := refine_lorentz_transform4D k l t xx xy xz xt yx yy yz yt zx zy zz zt tx ty tz tt a b c d h hs hd
  rw [transform4D_ret_eq] at h
  have e : ∀ r : ℝ × ℝ × ℝ × ℝ, interp4 (.vec [.az .xy, .lon .z, .tmp .t]) r = some r := fun _ => rfl
  rw [e] at h
  exact Option.some.inj h

theorem transform2D_eval2 (K : Consts ℝ) (A : Arith ℝ) (be mom az) (xx xy yx yy a b : ℝ) :
    call evR K A "transform2D" (C11M.V2 be mom az a b) [.sc xx, .sc xy, .sc yx, .sc yy] =
      .ok (.vec (C11M.V2 be mom .xy (planar_transform2D.eval az xx xy yx yy a b).1
        (planar_transform2D.eval az xx xy yx yy a b).2)) := by
  rw [(call_transform evR K A _ _).1]
  show dispatch evR .planar_transform2D [xx, xy, yx, yy] none [C11M.V2 be mom az a b] [C11M.V2 be mom az a b] = _
  rw [dispatch_single evR .planar_transform2D [xx, xy, yx, yy] _ 1 rfl [.az az] [a, b] rfl _ _ rfl,
    planar_transform2D_ret_eq]
  rfl

/-- on a 3D vector the stored longitudinal coordinate `c` is passed through verbatim -/
theorem transform2D_eval3 (K : Consts ℝ) (A : Arith ℝ) (be mom az l) (xx xy yx yy a b c : ℝ) :
    call evR K A "transform2D" (C11M.V3 be mom az l a b c) [.sc xx, .sc xy, .sc yx, .sc yy] =
      .ok (.vec (C11M.V3 be mom .xy l (planar_transform2D.eval az xx xy yx yy a b).1
        (planar_transform2D.eval az xx xy yx yy a b).2 c)) := by
  rw [(call_transform evR K A _ _).1]
  show dispatch evR .planar_transform2D [xx, xy, yx, yy] none [C11M.V3 be mom az l a b c] [C11M.V3 be mom az l a b c] = _
  rw [dispatch_single evR .planar_transform2D [xx, xy, yx, yy] _ 1 rfl [.az az] [a, b] rfl _ _ rfl,
    planar_transform2D_ret_eq]
  rfl

/-- on a 4D vector the stored longitudinal and temporal coordinates `c`, `d` are passed through verbatim -/
theorem transform2D_eval4 (K : Consts ℝ) (A : Arith ℝ) (be mom az l t) (xx xy yx yy a b c d : ℝ) :
    call evR K A "transform2D" (C11M.V4 be mom az l t a b c d) [.sc xx, .sc xy, .sc yx, .sc yy] =
      .ok (.vec (C11M.V4 be mom .xy l t (planar_transform2D.eval az xx xy yx yy a b).1
        (planar_transform2D.eval az xx xy yx yy a b).2 c d)) := by
  rw [(call_transform evR K A _ _).1]
  show dispatch evR .planar_transform2D [xx, xy, yx, yy] none [C11M.V4 be mom az l t a b c d]
    [C11M.V4 be mom az l t a b c d] = _
  rw [dispatch_single evR .planar_transform2D [xx, xy, yx, yy] _ 1 rfl [.az az] [a, b] rfl _ _ rfl,
    planar_transform2D_ret_eq]
  rfl

/-- **`transform2D(xx, xy, yx, yy)` on 2D, 3D and 4D vectors in every storage**: the result is azimuthally Cartesian, of the
dimension / flavor / backend of `v`; its azimuthal part denotes `M ·` the azimuthal part of `denote v`; on a
HIGHER-dimensional vector the stored longitudinal / temporal coordinates are kept VERBATIM (the documented exception of C01:
for θ/η/τ storage the denoted `z`, `t` change with ρ), so the whole denotation is `M` on the plane only for `z` (and `t`)
storage.  No hypothesis on the stored coordinates. -/
theorem c12m_transform2D (K : Consts ℝ) (A : Arith ℝ) (v : Vec ℝ) (hv : C01M.WFV v) (xx xy yx yy : ℝ) :
    ∃ w, call evR K A "transform2D" v [.sc xx, .sc xy, .sc yx, .sc yy] = .ok (.vec w) ∧
      w.ty = { v.ty with az := .xy } ∧ C01M.WFV w ∧ w.lonEl = v.lonEl ∧ w.tmpEl = v.tmpEl ∧
      (denote w).map (List.take 2) = (denote v).map (fun p => (onPlanar (mat2 xx xy yx yy) p).take 2) ∧
      ((v.ty.lon = none ∨ (v.ty.lon = some .z ∧ v.ty.tmp ≠ some .tau)) →
        denote w = (denote v).map (onPlanar (mat2 xx xy yx yy))) := by
  rcases wfv_cases hv with ⟨be, mom, az, a, b, rfl⟩ | ⟨be, mom, az, l, a, b, c, rfl⟩ |
    ⟨be, mom, az, l, t, a, b, c, d, rfl⟩
  · refine ⟨_, transform2D_eval2 K A be mom az xx xy yx yy a b, rfl, ⟨by simp, rfl⟩, rfl, rfl, ?_, fun _ => ?_⟩ <;>
      rw [transform2D_cart] <;> rfl
  · refine ⟨_, transform2D_eval3 K A be mom az l xx xy yx yy a b c, rfl, ⟨by simp, rfl⟩, rfl, rfl, ?_, fun h => ?_⟩
    · rw [transform2D_cart]; rfl
    · obtain ⟨h, -⟩ : l = .z ∧ True := by simpa using h
      subst h
      rw [transform2D_cart]; rfl
  · refine ⟨_, transform2D_eval4 K A be mom az l t xx xy yx yy a b c d, rfl, ⟨by simp, rfl⟩, rfl, rfl, ?_, fun h => ?_⟩
    · rw [transform2D_cart]; rfl
    · obtain ⟨h, h'⟩ : l = .z ∧ t ≠ .tau := by simpa using h
      subst h
      cases t
      · rw [transform2D_cart]; rfl
      · exact absurd rfl h'

private theorem cot_pi_div_four : cos (π / 4) / sin (π / 4) = 1 := by
  rw [cos_pi_div_four, sin_pi_div_four]
  exact div_self (by positivity)

/-- the exception made explicit: the `(x, y, θ)`-stored vector `(1, 0, π/4)` denotes `(1, 0, 1)`; `transform2D(2, 0, 0, 2)`
keeps θ, so the result denotes `(2, 0, 2)`, NOT `M` on the plane with `z` unchanged, `(2, 0, 1)` -/
theorem c12m_transform2D_exception (K : Consts ℝ) (A : Arith ℝ) :
    ∃ v w : Vec ℝ, C01M.WFV v ∧ denote v = some [1, 0, 1] ∧
      call evR K A "transform2D" v [.sc 2, .sc 0, .sc 0, .sc 2] = .ok (.vec w) ∧ denote w = some [2, 0, 2] ∧
      denote w ≠ (denote v).map (onPlanar (mat2 2 0 0 2)) := by
  have h1 : sqrt ((1 : ℝ) ^ 2 + 0 ^ 2) = 1 := by norm_num
  have h2 : sqrt (((2 : ℝ) * 1 + 0 * 0) ^ 2 + (0 * 1 + 2 * 0) ^ 2) = 2 := by
    rw [show ((2 : ℝ) * 1 + 0 * 0) ^ 2 + (0 * 1 + 2 * 0) ^ 2 = 2 ^ 2 by norm_num, Real.sqrt_sq (by norm_num)]
  have dv : denote (C11M.V3 .obj false .xy .theta 1 0 (π / 4)) = some [1, 0, 1] := by
    simp only [denote, xOf, yOf, zOf, rhoOf, h1, cot_pi_div_four, mul_one]
  have dw : denote (C11M.V3 .obj false .xy .theta ((2 : ℝ) * 1 + 0 * 0) (0 * 1 + 2 * 0) (π / 4)) = some [2, 0, 2] := by
    simp only [denote, xOf, yOf, zOf, rhoOf, h2, cot_pi_div_four]; norm_num
  refine ⟨C11M.V3 .obj false .xy .theta 1 0 (π / 4), C11M.V3 .obj false .xy .theta (2 * 1 + 0 * 0) (0 * 1 + 2 * 0) (π / 4),
    ⟨by simp, rfl⟩, dv, ?_, dw, ?_⟩
  · rw [transform2D_eval3, transform2D_cart]; rfl
  · rw [dw, dv]
    simp only [Option.map, onPlanar, mat2]
    norm_num

theorem transform3D_eval3 (K : Consts ℝ) (A : Arith ℝ) (be mom az l) (xx xy xz yx yy yz zx zy zz a b c : ℝ) :
    call evR K A "transform3D" (C11M.V3 be mom az l a b c)
        [.sc xx, .sc xy, .sc xz, .sc yx, .sc yy, .sc yz, .sc zx, .sc zy, .sc zz] =
      .ok (.vec (C11M.V3 be mom .xy .z (spatial_transform3D.eval az l xx xy xz yx yy yz zx zy zz a b c).1
        (spatial_transform3D.eval az l xx xy xz yx yy yz zx zy zz a b c).2.1
        (spatial_transform3D.eval az l xx xy xz yx yy yz zx zy zz a b c).2.2)) := by
  rw [(call_transform evR K A _ _).2.1]
  show dispatch evR .spatial_transform3D [xx, xy, xz, yx, yy, yz, zx, zy, zz] none [C11M.V3 be mom az l a b c]
    [C11M.V3 be mom az l a b c] = _
  rw [dispatch_single evR .spatial_transform3D [xx, xy, xz, yx, yy, yz, zx, zy, zz] _ 2 rfl [.az az, .lon l] [a, b, c]
      rfl _ _ rfl, refine_spatial_transform3D_ret]
  rfl

/-- on a 4D vector the stored temporal coordinate `d` (t or τ) is passed through verbatim -/
theorem transform3D_eval4 (K : Consts ℝ) (A : Arith ℝ) (be mom az l t) (xx xy xz yx yy yz zx zy zz a b c d : ℝ) :
    call evR K A "transform3D" (C11M.V4 be mom az l t a b c d)
        [.sc xx, .sc xy, .sc xz, .sc yx, .sc yy, .sc yz, .sc zx, .sc zy, .sc zz] =
      .ok (.vec (C11M.V4 be mom .xy .z t (spatial_transform3D.eval az l xx xy xz yx yy yz zx zy zz a b c).1
        (spatial_transform3D.eval az l xx xy xz yx yy yz zx zy zz a b c).2.1
        (spatial_transform3D.eval az l xx xy xz yx yy yz zx zy zz a b c).2.2 d)) := by
  rw [(call_transform evR K A _ _).2.1]
  show dispatch evR .spatial_transform3D [xx, xy, xz, yx, yy, yz, zx, zy, zz] none [C11M.V4 be mom az l t a b c d]
    [C11M.V4 be mom az l t a b c d] = _
  rw [dispatch_single evR .spatial_transform3D [xx, xy, xz, yx, yy, yz, zx, zy, zz] _ 2 rfl [.az az, .lon l] [a, b, c]
      rfl _ _ rfl, refine_spatial_transform3D_ret]
  rfl

/-- **`transform3D` (9 scalars) on 3D and 4D vectors in every storage** (`cos θ ≠ 0` for θ storage): the result is a
Cartesian (`x, y, z`) vector of the dimension / flavor / backend of `v`; its spatial part denotes `M ·` the spatial part of
`denote v`; on a 4D vector the stored temporal coordinate is kept VERBATIM (documented exception of C01: for τ storage the
denoted `t` changes with |p|), so the whole denotation is `M` on space only for 3D vectors and `t` storage -/
theorem c12m_transform3D (K : Consts ℝ) (A : Arith ℝ) (v : Vec ℝ) (hv : C01M.WFV v) (hd : 3 ≤ v.ty.dim) (hT : TanOKV v)
    (xx xy xz yx yy yz zx zy zz : ℝ) :
    ∃ w, call evR K A "transform3D" v [.sc xx, .sc xy, .sc xz, .sc yx, .sc yy, .sc yz, .sc zx, .sc zy, .sc zz]
        = .ok (.vec w) ∧
      w.ty = { v.ty with az := .xy, lon := some .z } ∧ C01M.WFV w ∧ w.tmpEl = v.tmpEl ∧
      (denote w).map (List.take 3) =
        (denote v).map (fun p => (onSpatial (mat3 xx xy xz yx yy yz zx zy zz) p).take 3) ∧
      (v.ty.tmp ≠ some .tau → denote w = (denote v).map (onSpatial (mat3 xx xy xz yx yy yz zx zy zz))) := by
  rcases wfv_cases hv with ⟨be, mom, az, a, b, rfl⟩ | ⟨be, mom, az, l, a, b, c, rfl⟩ |
    ⟨be, mom, az, l, t, a, b, c, d, rfl⟩
  · simp [VT.dim] at hd
  · refine ⟨_, transform3D_eval3 K A be mom az l xx xy xz yx yy yz zx zy zz a b c, rfl, ⟨by simp, rfl⟩, rfl, ?_, fun _ => ?_⟩ <;>
      rw [transform3D_cart _ _ _ _ _ _ _ _ _ _ _ _ _ _ hT] <;> rfl
  · refine ⟨_, transform3D_eval4 K A be mom az l t xx xy xz yx yy yz zx zy zz a b c d, rfl, ⟨by simp, rfl⟩, rfl, ?_,
      fun h => ?_⟩
    · rw [transform3D_cart _ _ _ _ _ _ _ _ _ _ _ _ _ _ hT]; rfl
    · cases t
      · rw [transform3D_cart _ _ _ _ _ _ _ _ _ _ _ _ _ _ hT]; rfl
      · exact absurd rfl h

theorem transform4D_eval4 (K : Consts ℝ) (A : Arith ℝ) (be mom az l t)
    (xx xy xz xt yx yy yz yt zx zy zz zt tx ty tz tt a b c d : ℝ) :
    call evR K A "transform4D" (C11M.V4 be mom az l t a b c d)
        [.sc xx, .sc xy, .sc xz, .sc xt, .sc yx, .sc yy, .sc yz, .sc yt, .sc zx, .sc zy, .sc zz, .sc zt,
          .sc tx, .sc ty, .sc tz, .sc tt] =
      .ok (.vec (C11M.V4 be mom .xy .z .t
        (lorentz_transform4D.eval az l t xx xy xz xt yx yy yz yt zx zy zz zt tx ty tz tt a b c d).1
        (lorentz_transform4D.eval az l t xx xy xz xt yx yy yz yt zx zy zz zt tx ty tz tt a b c d).2.1
        (lorentz_transform4D.eval az l t xx xy xz xt yx yy yz yt zx zy zz zt tx ty tz tt a b c d).2.2.1
        (lorentz_transform4D.eval az l t xx xy xz xt yx yy yz yt zx zy zz zt tx ty tz tt a b c d).2.2.2)) := by
  rw [(call_transform evR K A _ _).2.2]
  show dispatch evR .lorentz_transform4D [xx, xy, xz, xt, yx, yy, yz, yt, zx, zy, zz, zt, tx, ty, tz, tt] none
    [C11M.V4 be mom az l t a b c d] [C11M.V4 be mom az l t a b c d] = _
  rw [dispatch_single evR .lorentz_transform4D [xx, xy, xz, xt, yx, yy, yz, yt, zx, zy, zz, zt, tx, ty, tz, tt] _ 3 rfl
      [.az az, .lon l, .tmp t] [a, b, c, d] rfl _ _ rfl, transform4D_ret_eq]
  rfl

/-- **`transform4D` (16 scalars) on a 4D vector in every storage** (`cos θ ≠ 0`, `sin θ ≠ 0` for θ storage, `0 ≤ τ`):
the result is the Cartesian `(x, y, z, t)` vector denoting `M · denote v` -/
theorem c12m_transform4D (K : Consts ℝ) (A : Arith ℝ) (v : Vec ℝ) (hv : C01M.WFV v) (hd : v.ty.dim = 4) (hc : BoostOK v)
    (xx xy xz xt yx yy yz yt zx zy zz zt tx ty tz tt : ℝ) :
    ∃ w, call evR K A "transform4D" v
        [.sc xx, .sc xy, .sc xz, .sc xt, .sc yx, .sc yy, .sc yz, .sc yt, .sc zx, .sc zy, .sc zz, .sc zt,
          .sc tx, .sc ty, .sc tz, .sc tt] = .ok (.vec w) ∧
      w.ty = { v.ty with az := .xy, lon := some .z, tmp := some .t } ∧ C01M.WFV w ∧
      denote w = (denote v).map (on4 (transform4 xx xy xz xt yx yy yz yt zx zy zz zt tx ty tz tt)) := by
  obtain ⟨be, mom, az, l, t, a, b, c, d, rfl⟩ := wfv4 hv hd
  refine ⟨_, transform4D_eval4 K A be mom az l t xx xy xz xt yx yy yz yt zx zy zz zt tx ty tz tt a b c d, rfl,
    ⟨by simp, rfl⟩, ?_⟩
  obtain ⟨h1, h2, h3⟩ : TanOK l c ∧ SinOK l c ∧ CanonTmp t d := hc
  rw [transform4D_cart az l t _ _ _ _ _ _ _ _ _ _ _ _ _ _ _ _ a b c d h1 h2 h3]
  rfl

/-- the rotation by a quarter turn in the plane applied through `transform2D` to the `(ρ, φ, θ)`-stored vector
`(2, 0, π/4)`: the result is `(x, y, θ) = (0, 2, π/4)` — θ kept verbatim -/
example (K : Consts ℝ) (A : Arith ℝ) :
    call evR K A "transform2D" (C11M.V3 .obj false .rhophi .theta 2 0 (π / 4)) [.sc 0, .sc (-1), .sc 1, .sc 0] =
      .ok (.vec (C11M.V3 .obj false .xy .theta (0 * (2 * cos 0) + (-1) * (2 * sin 0)) (1 * (2 * cos 0) + 0 * (2 * sin 0))
        (π / 4))) := by
  rw [transform2D_eval3, transform2D_cart]; rfl

example : TanOKV (C11M.V3 .obj false .rhophi .theta 2 0 (π / 4)) ∧ BoostOK (C11M.V4 .obj true .rhophi .eta .tau 2 1 1 3) := by
  refine ⟨?_, trivial, trivial, ?_⟩
  · show cos (π / 4) ≠ 0
    rw [cos_pi_div_four]; positivity
  · show (0 : ℝ) ≤ 3; norm_num

/-! ## 5. `deltaRapidityPhi`, `deltaRapidityPhi2` (4D × 4D) -/

theorem call_deltaRapidityPhi {S B : Type} (ev : Ev S B) (K : Consts S) (A : Arith S) (v o : Vec S) :
    (call ev K A "deltaRapidityPhi" v [.v o] =
      if v.ty.dim < 4 then .error .attributeError else
      if o.ty.dim != 4 then .error .typeError else dispatch ev .lorentz_deltaRapidityPhi [] none [v, o] [v, o]) ∧
    (call ev K A "deltaRapidityPhi2" v [.v o] =
      if v.ty.dim < 4 then .error .attributeError else
      if o.ty.dim != 4 then .error .typeError else dispatch ev .lorentz_deltaRapidityPhi2 [] none [v, o] [v, o]) :=
  ⟨rfl, rfl⟩

/-- **guards**: `AttributeError` on a 2D / 3D `self` (checked first), `TypeError` for an argument that is not 4D — for ALL
operands and any compute layer -/
theorem c12m_deltaRapidityPhi_guard {S B : Type} (ev : Ev S B) (K : Consts S) (A : Arith S) (v o : Vec S) :
    (v.ty.dim < 4 → call ev K A "deltaRapidityPhi" v [.v o] = .error .attributeError ∧
      call ev K A "deltaRapidityPhi2" v [.v o] = .error .attributeError) ∧
    (4 ≤ v.ty.dim → o.ty.dim ≠ 4 → call ev K A "deltaRapidityPhi" v [.v o] = .error .typeError ∧
      call ev K A "deltaRapidityPhi2" v [.v o] = .error .typeError) := by
  obtain ⟨h1, h2⟩ := call_deltaRapidityPhi ev K A v o
  refine ⟨fun h => ?_, fun h h' => ?_⟩
  · exact ⟨by rw [h1, if_pos h], by rw [h2, if_pos h]⟩
  · exact ⟨by rw [h1, if_neg (by omega), if_pos (by simpa using h')],
      by rw [h2, if_neg (by omega), if_pos (by simpa using h')]⟩

theorem deltaRapidityPhi_ret_eq (k0 k1 k2 k3 k4 k5) : lorentz_deltaRapidityPhi.ret k0 k1 k2 k3 k4 k5 = .float := by
  cases k0 <;> cases k1 <;> cases k2 <;> cases k3 <;> cases k4 <;> cases k5 <;> rfl
theorem deltaRapidityPhi2_ret_eq (k0 k1 k2 k3 k4 k5) : lorentz_deltaRapidityPhi2.ret k0 k1 k2 k3 k4 k5 = .float := by
  cases k0 <;> cases k1 <;> cases k2 <;> cases k3 <;> cases k4 <;> cases k5 <;> rfl

theorem deltaRapidityPhi_eval4 (K : Consts ℝ) (A : Arith ℝ) (be1 mom1 az1 l1 t1 be2 mom2 az2 l2 t2)
    (a0 a1 a2 a3 a4 a5 a6 a7 : ℝ) :
    call evR K A "deltaRapidityPhi" (C11M.V4 be1 mom1 az1 l1 t1 a0 a1 a2 a3) [.v (C11M.V4 be2 mom2 az2 l2 t2 a4 a5 a6 a7)] =
      .ok (.scalar (lorentz_deltaRapidityPhi.eval az1 l1 t1 az2 l2 t2 a0 a1 a2 a3 a4 a5 a6 a7)) := by
  rw [(call_deltaRapidityPhi evR K A _ _).1]
  show dispatch evR .lorentz_deltaRapidityPhi [] none
    [C11M.V4 be1 mom1 az1 l1 t1 a0 a1 a2 a3, C11M.V4 be2 mom2 az2 l2 t2 a4 a5 a6 a7]
    [C11M.V4 be1 mom1 az1 l1 t1 a0 a1 a2 a3, C11M.V4 be2 mom2 az2 l2 t2 a4 a5 a6 a7] = _
  rw [dispatch_pair evR .lorentz_deltaRapidityPhi [] _ _ 3 3 rfl [.az az1, .lon l1, .tmp t1] [.az az2, .lon l2, .tmp t2]
      [a0, a1, a2, a3] [a4, a5, a6, a7] rfl rfl _ _ rfl, deltaRapidityPhi_ret_eq]
  rfl

theorem deltaRapidityPhi2_eval4 (K : Consts ℝ) (A : Arith ℝ) (be1 mom1 az1 l1 t1 be2 mom2 az2 l2 t2)
    (a0 a1 a2 a3 a4 a5 a6 a7 : ℝ) :
    call evR K A "deltaRapidityPhi2" (C11M.V4 be1 mom1 az1 l1 t1 a0 a1 a2 a3) [.v (C11M.V4 be2 mom2 az2 l2 t2 a4 a5 a6 a7)] =
      .ok (.scalar (lorentz_deltaRapidityPhi2.eval az1 l1 t1 az2 l2 t2 a0 a1 a2 a3 a4 a5 a6 a7)) := by
  rw [(call_deltaRapidityPhi evR K A _ _).2]
  show dispatch evR .lorentz_deltaRapidityPhi2 [] none
    [C11M.V4 be1 mom1 az1 l1 t1 a0 a1 a2 a3, C11M.V4 be2 mom2 az2 l2 t2 a4 a5 a6 a7]
    [C11M.V4 be1 mom1 az1 l1 t1 a0 a1 a2 a3, C11M.V4 be2 mom2 az2 l2 t2 a4 a5 a6 a7] = _
  rw [dispatch_pair evR .lorentz_deltaRapidityPhi2 [] _ _ 3 3 rfl [.az az1, .lon l1, .tmp t1] [.az az2, .lon l2, .tmp t2]
      [a0, a1, a2, a3] [a4, a5, a6, a7] rfl rfl _ _ rfl, deltaRapidityPhi2_ret_eq]
  rfl

/-- **`deltaRapidityPhi(2)` on 4D × 4D operands, every storage pairing (144), any backends / flavors**:
`Δφ² + Δy²` (resp. its square root) where `Δφ` is the result of the public method `deltaphi` (the difference of the azimuths
rectified to `[-π, π)`; for operands off the z axis it is the one of the DENOTED points) and `y = ½ ln((t+z)/(t−z))` is the
rapidity of the denotation (`Spec.rapidityOf`), for `|z| < t`.
Storage hypotheses: `cos θ ≠ 0`, `sin θ ≠ 0` for θ storage, `0 ≤ τ`. -/
theorem c12m_deltaRapidityPhi (K : Consts ℝ) (A : Arith ℝ) (a b : Vec ℝ) (ha : C01M.WFV a) (hb : C01M.WFV b)
    (hda : a.ty.dim = 4) (hdb : b.ty.dim = 4) (hca : BoostOK a) (hcb : BoostOK b)
    (x₁ y₁ z₁ t₁ x₂ y₂ z₂ t₂ : ℝ) (h₁ : denote a = some [x₁, y₁, z₁, t₁]) (h₂ : denote b = some [x₂, y₂, z₂, t₂])
    (hz₁ : |z₁| < t₁) (hz₂ : |z₂| < t₂) :
    ∃ dphi, call evR K A "deltaphi" a [.v b] = .ok (.scalar dphi) ∧
      call evR K A "deltaRapidityPhi2" a [.v b] =
        .ok (.scalar (dphi ^ 2 + (rapidityOf (x₁, y₁, z₁, t₁) - rapidityOf (x₂, y₂, z₂, t₂)) ^ 2)) ∧
      call evR K A "deltaRapidityPhi" a [.v b] =
        .ok (.scalar (sqrt (dphi ^ 2 + (rapidityOf (x₁, y₁, z₁, t₁) - rapidityOf (x₂, y₂, z₂, t₂)) ^ 2))) ∧
      (Stored2 (fun k a b => 0 < rhoOf k a b) a → Stored2 (fun k a b => 0 < rhoOf k a b) b →
        dphi = planar_deltaphi.eval .xy .xy x₁ y₁ x₂ y₂) := by
  refine ⟨_, C04M.deltaphi_eval K A a b ha hb, ?_⟩
  obtain ⟨be1, mom1, az1, l1, t1, a0, a1, a2, a3, rfl⟩ := wfv4 ha hda
  obtain ⟨be2, mom2, az2, l2, t2, b0, b1, b2, b3, rfl⟩ := wfv4 hb hdb
  simp only [denote, Option.some.injEq, List.cons.injEq, and_true] at h₁ h₂
  obtain ⟨rfl, rfl, rfl, rfl⟩ := h₁
  obtain ⟨rfl, rfl, rfl, rfl⟩ := h₂
  obtain ⟨p1, p2, p3⟩ : TanOK l1 a2 ∧ SinOK l1 a2 ∧ CanonTmp t1 a3 := hca
  obtain ⟨q1, q2, q3⟩ : TanOK l2 b2 ∧ SinOK l2 b2 ∧ CanonTmp t2 b3 := hcb
  refine ⟨?_, ?_, fun hr1 hr2 => ?_⟩
  · rw [deltaRapidityPhi2_eval4,
      refine_lorentz_deltaRapidityPhi2 az1 l1 t1 az2 l2 t2 a0 a1 a2 a3 b0 b1 b2 b3 p1 q1 p2 q2 p3 q3 hz₁ hz₂]
    rfl
  · rw [deltaRapidityPhi_eval4,
      refine_lorentz_deltaRapidityPhi az1 l1 t1 az2 l2 t2 a0 a1 a2 a3 b0 b1 b2 b3 p1 q1 p2 q2 p3 q3 hz₁ hz₂]
    rfl
  · exact refine_spatial_deltaphi_key az1 az2 a0 a1 b0 b1 hr1 hr2

/-- the Cartesian `Δφ`: the difference of the two azimuths `arctan2(y, x)`, rectified to `[-π, π)` -/
example (x₁ y₁ x₂ y₂ : ℝ) : planar_deltaphi.eval .xy .xy x₁ y₁ x₂ y₂ =
    P.mod (P.arctan2 y₁ x₁ - P.arctan2 y₂ x₂ + π) (2 * π) - π := rfl

/-- non-vacuity: the `(x, y, z, t)` vector `(1, 0, 1, 2)` and the `(ρ, φ, η, τ)` momentum `(2, 1, 0, 3)` (`z = 0 < t`) -/
example : let a : Vec ℝ := C11M.V4 .obj false .xy .z .t 1 0 1 2
    let b : Vec ℝ := C11M.V4 .np true .rhophi .eta .tau 2 1 0 3
    C01M.WFV a ∧ C01M.WFV b ∧ BoostOK a ∧ BoostOK b ∧ |zOf .xy .z 1 0 1| < tOf .xy .z .t 1 0 1 2 ∧
      |zOf .rhophi .eta 2 1 0| < tOf .rhophi .eta .tau 2 1 0 3 := by
  intro a b
  refine ⟨⟨by simp [a], rfl⟩, ⟨by simp [b], rfl⟩, ⟨trivial, trivial, trivial⟩, ⟨trivial, trivial, ?_⟩, ?_, ?_⟩
  · show (0 : ℝ) ≤ 3; norm_num
  · norm_num [zOf, tOf]
  · have h : zOf .rhophi .eta 2 1 0 = 0 := by simp [zOf]
    rw [h, abs_zero, tOf_tau_eq]
    positivity

/-! ## 6. `like` -/

theorem call_like {S B : Type} (ev : Ev S B) (K : Consts S) (A : Arith S) (v o : Vec S) :
    call ev K A "like" v [.v o] = toDimS K o.ty.dim v [] := rfl

theorem dim_cases (t : VT) : t.dim = 2 ∨ t.dim = 3 ∨ t.dim = 4 := by
  unfold VT.dim; split_ifs <;> simp

/-- **`v.like(o)` is `v.to_Vector{2,3,4}D()` for the dimension of `o`** (no keyword: imputed coordinates are `0.0`) — for
ALL operands and any compute layer; only the dimension of `o` matters, not its coordinate system, flavor or backend -/
theorem c12m_like_eq_to {S B : Type} (ev : Ev S B) (K : Consts S) (A : Arith S) (v o : Vec S) :
    (o.ty.dim = 2 → call ev K A "like" v [.v o] = call ev K A "to_Vector2D" v []) ∧
    (o.ty.dim = 3 → call ev K A "like" v [.v o] = call ev K A "to_Vector3D" v []) ∧
    (o.ty.dim = 4 → call ev K A "like" v [.v o] = call ev K A "to_Vector4D" v []) := by
  refine ⟨fun h => ?_, fun h => ?_, fun h => ?_⟩ <;> rw [call_like, h] <;> rfl

/-- **`like` in every storage of `v` and for every `o`**: the result has the dimension of `o`, the flavor and backend of
`v`, the retained stored coordinates verbatim, and denotes the PREFIX of `denote v` (projection) resp. its extension by
zeros (`K.zeroF`, stored as `z` / `t`) -/
theorem c12m_like (K : Consts ℝ) (A : Arith ℝ) (v o : Vec ℝ) (hv : C01M.WFV v) :
    ∃ w, call evR K A "like" v [.v o] = .ok (.vec w) ∧ C01M.WFV w ∧ w.ty.dim = o.ty.dim ∧ w.ty.be = v.ty.be ∧
      w.ty.mom = v.ty.mom ∧ w.ty.az = v.ty.az ∧
      denote w = (denote v).map (fun p => (p ++ [K.zeroF, K.zeroF]).take o.ty.dim) := by
  rw [call_like]
  rcases dim_cases o.ty with h | h | h <;> rw [h] <;>
  rcases wfv_cases hv with ⟨be, mom, az, a, b, rfl⟩ | ⟨be, mom, az, l, a, b, c, rfl⟩ |
    ⟨be, mom, az, l, t, a, b, c, d, rfl⟩ <;>
  exact ⟨_, rfl, ⟨by simp, rfl⟩, rfl, rfl, rfl, rfl, rfl⟩

/-- e.g. a `(ρ, φ)` vector made like a 4D vector: `(ρ, φ, z = 0, t = 0)`; a `(x, y, θ, τ)` vector made like a 2D one: `(x, y)` -/
example (K : Consts ℝ) (A : Arith ℝ) (o : Vec ℝ) (h : o.ty.dim = 4) :
    call evR K A "like" (C11M.V2 .obj false .rhophi 2 1) [.v o] =
      .ok (.vec (C11M.V4 .obj false .rhophi .z .t 2 1 K.zeroF K.zeroF)) := by
  rw [call_like, h]; rfl
example (K : Consts ℝ) (A : Arith ℝ) (o : Vec ℝ) (h : o.ty.dim = 2) :
    call evR K A "like" (C11M.V4 .np true .xy .theta .tau 1 2 3 4) [.v o] = .ok (.vec (C11M.V2 .np true .xy 1 2)) := by
  rw [call_like, h]; rfl

end C12M
end VR
