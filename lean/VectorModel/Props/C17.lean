/-
C17 — reductions (`numpy.sum` / `ak.sum`, `numpy.count_nonzero` / `ak.count_nonzero`) of vector arrays are
component-wise Cartesian reductions.

How the real code reduces (src/vector/backends/numpy.py:66-113, src/vector/backends/awkward.py:2167-2223):

* `_reduce_sum(a, axis, keepdims)` builds `fields` with
    `E|t  = numpy.sum(a.t, axis)`   if `a` is Lorentz,
    `pz|z = numpy.sum(a.z, axis)`   if `a` is Spatial,
    `px|x = numpy.sum(a.x, axis)`, `py|y = numpy.sum(a.y, axis)`,
  where `a.x, a.y, a.z, a.t` are the ACCESSORS (`_compute.planar.x/y`, `_compute.spatial.z`, `_compute.lorentz.t`
  dispatched on the storage of `a`), and returns `array(fields)` (numpy; momentum names are kept iff `a` is a
  `Momentum`, otherwise renamed through `_repr_momentum_to_generic`) resp. `ak.zip(fields, with_name = record name of
  the operand)` (awkward).  So the result is ALWAYS stored Cartesian `(x, y[, z[, t]])` and has the flavor of the
  operand.
* `_reduce_count_nonzero` computes `is_nonzero = a.rho2 != 0`, then `logical_or(is_nonzero, a.z != 0)` if Spatial,
  then `logical_or(is_nonzero, a.t2 != 0)` if Lorentz, and counts the `True`s (`numpy.count_nonzero(is_nonzero, axis)`).

Model: the storage of an array is ONE key (tuple) shared by all its elements, the elements along the reduced axis
are a `List` of raw coordinate tuples; the accessors are the generated `planar_x.eval`, `planar_y.eval`,
`spatial_z.eval`, `lorentz_t.eval`, `planar_rho2.eval`, `lorentz_t2.eval`.

Remark (flavor): `reduceSumN` below returns the operand's `mom` flag unchanged together with the Cartesian keys; this
is by construction of both `_reduce_sum`s (see above), there is nothing to prove beyond `rfl`.
-/
import VectorModel.Spec.Basic
import VectorModel.Refine.Planar
import VectorModel.Refine.SpatialZ
import VectorModel.Refine.SpatialAcc
import VectorModel.Refine.LorentzBin
import VectorModel.Gen.Real.planar_x
import VectorModel.Gen.Real.planar_y
import VectorModel.Gen.Real.planar_rho2
import VectorModel.Gen.Real.spatial_z
import VectorModel.Gen.Real.lorentz_t
import VectorModel.Gen.Real.lorentz_t2
import Mathlib.Tactic.Ring
import Mathlib.Tactic.Linarith
import Mathlib.Tactic.Positivity
import Mathlib.Tactic.NormNum

namespace VR
open VK Spec Real

/-! ### the model of the reducers -/

/-- `_reduce_sum` on a 2D array stored with key `k`: the pair of column sums `(Σ a.x, Σ a.y)` -/
noncomputable def sum2 (k : Az) (vs : List (ℝ × ℝ)) : ℝ × ℝ :=
  ((vs.map fun v => planar_x.eval k v.1 v.2).sum,
   (vs.map fun v => planar_y.eval k v.1 v.2).sum)

/-- `_reduce_sum` on a 3D array: `(Σ a.x, Σ a.y, Σ a.z)` -/
noncomputable def sum3 (k0 : Az) (k1 : Lon) (vs : List (ℝ × ℝ × ℝ)) : ℝ × ℝ × ℝ :=
  ((vs.map fun v => planar_x.eval k0 v.1 v.2.1).sum,
   (vs.map fun v => planar_y.eval k0 v.1 v.2.1).sum,
   (vs.map fun v => spatial_z.eval k0 k1 v.1 v.2.1 v.2.2).sum)

/-- `_reduce_sum` on a 4D array: `(Σ a.x, Σ a.y, Σ a.z, Σ a.t)` -/
noncomputable def sum4 (k0 : Az) (k1 : Lon) (k2 : Tmp) (vs : List (ℝ × ℝ × ℝ × ℝ)) : ℝ × ℝ × ℝ × ℝ :=
  ((vs.map fun v => planar_x.eval k0 v.1 v.2.1).sum,
   (vs.map fun v => planar_y.eval k0 v.1 v.2.1).sum,
   (vs.map fun v => spatial_z.eval k0 k1 v.1 v.2.1 v.2.2.1).sum,
   (vs.map fun v => lorentz_t.eval k0 k1 k2 v.1 v.2.1 v.2.2.1 v.2.2.2).sum)

/-- the whole reducer result: flavor flag of the operand, Cartesian storage keys, summed columns -/
noncomputable def reduceSum2 (mom : Bool) (k : Az) (vs : List (ℝ × ℝ)) : Bool × Az × (ℝ × ℝ) :=
  (mom, .xy, sum2 k vs)
noncomputable def reduceSum3 (mom : Bool) (k0 : Az) (k1 : Lon) (vs : List (ℝ × ℝ × ℝ)) :
    Bool × (Az × Lon) × (ℝ × ℝ × ℝ) :=
  (mom, (.xy, .z), sum3 k0 k1 vs)
noncomputable def reduceSum4 (mom : Bool) (k0 : Az) (k1 : Lon) (k2 : Tmp) (vs : List (ℝ × ℝ × ℝ × ℝ)) :
    Bool × (Az × Lon × Tmp) × (ℝ × ℝ × ℝ × ℝ) :=
  (mom, (.xy, .z, .t), sum4 k0 k1 k2 vs)

/-- `is_nonzero` of `_reduce_count_nonzero`, 2D: `a.rho2 != 0` -/
def nonzero2 (k : Az) (a b : ℝ) : Prop := planar_rho2.eval k a b ≠ 0
/-- 3D: `logical_or(a.rho2 != 0, a.z != 0)` -/
def nonzero3 (k0 : Az) (k1 : Lon) (a b c : ℝ) : Prop :=
  planar_rho2.eval k0 a b ≠ 0 ∨ spatial_z.eval k0 k1 a b c ≠ 0
/-- 4D: `logical_or(logical_or(a.rho2 != 0, a.z != 0), a.t2 != 0)` -/
def nonzero4 (k0 : Az) (k1 : Lon) (k2 : Tmp) (a b c d : ℝ) : Prop :=
  (planar_rho2.eval k0 a b ≠ 0 ∨ spatial_z.eval k0 k1 a b c ≠ 0) ∨ lorentz_t2.eval k0 k1 k2 a b c d ≠ 0

open Classical in
/-- `numpy.count_nonzero(is_nonzero)` -/
noncomputable def countNonzero2 (k : Az) (vs : List (ℝ × ℝ)) : ℕ :=
  (vs.filter fun v => decide (nonzero2 k v.1 v.2)).length
open Classical in
noncomputable def countNonzero3 (k0 : Az) (k1 : Lon) (vs : List (ℝ × ℝ × ℝ)) : ℕ :=
  (vs.filter fun v => decide (nonzero3 k0 k1 v.1 v.2.1 v.2.2)).length
open Classical in
noncomputable def countNonzero4 (k0 : Az) (k1 : Lon) (k2 : Tmp) (vs : List (ℝ × ℝ × ℝ × ℝ)) : ℕ :=
  (vs.filter fun v => decide (nonzero4 k0 k1 k2 v.1 v.2.1 v.2.2.1 v.2.2.2)).length

/-- per-element side conditions of the 4D accessors: `z` divides by `tan θ`, `t` (from τ) by `sin² θ`, `0 ≤ τ` -/
def Elem4OK (k1 : Lon) (k2 : Tmp) (v : ℝ × ℝ × ℝ × ℝ) : Prop :=
  TanOK k1 v.2.2.1 ∧ SinOK k1 v.2.2.1 ∧ CanonTmp k2 v.2.2.2

/-- representable 4D storage (+ θ ≠ π/2) grants the side conditions -/
theorem c17_elem4OK_of_canon {k0 : Az} {k1 : Lon} {k2 : Tmp} {v : ℝ × ℝ × ℝ × ℝ}
    (h : Canon4 k0 k1 k2 v.1 v.2.1 v.2.2.1 v.2.2.2) (ht : TanOK k1 v.2.2.1) : Elem4OK k1 k2 v :=
  ⟨ht, Spec.SinOK_of_canonLon h.1.2, h.2⟩

/-! ### 1. `sum` is the component-wise sum of the Cartesian denotations -/

/-- empty lists sum to the zero vector -/
theorem c17_sum2_nil (k : Az) : sum2 k [] = (0, 0) := by simp [sum2]
theorem c17_sum3_nil (k0 : Az) (k1 : Lon) : sum3 k0 k1 [] = (0, 0, 0) := by simp [sum3]
theorem c17_sum4_nil (k0 : Az) (k1 : Lon) (k2 : Tmp) : sum4 k0 k1 k2 [] = (0, 0, 0, 0) := by simp [sum4]

theorem c17_sum2_cons (k : Az) (v : ℝ × ℝ) (vs : List (ℝ × ℝ)) :
    sum2 k (v :: vs) = add2 (planar_x.eval k v.1 v.2, planar_y.eval k v.1 v.2) (sum2 k vs) := by
  simp [sum2, add2]
theorem c17_sum3_cons (k0 : Az) (k1 : Lon) (v : ℝ × ℝ × ℝ) (vs : List (ℝ × ℝ × ℝ)) :
    sum3 k0 k1 (v :: vs) =
      add3 (planar_x.eval k0 v.1 v.2.1, planar_y.eval k0 v.1 v.2.1, spatial_z.eval k0 k1 v.1 v.2.1 v.2.2)
        (sum3 k0 k1 vs) := by
  simp [sum3, add3]
theorem c17_sum4_cons (k0 : Az) (k1 : Lon) (k2 : Tmp) (v : ℝ × ℝ × ℝ × ℝ) (vs : List (ℝ × ℝ × ℝ × ℝ)) :
    sum4 k0 k1 k2 (v :: vs) =
      add4 (planar_x.eval k0 v.1 v.2.1, planar_y.eval k0 v.1 v.2.1, spatial_z.eval k0 k1 v.1 v.2.1 v.2.2.1,
            lorentz_t.eval k0 k1 k2 v.1 v.2.1 v.2.2.1 v.2.2.2) (sum4 k0 k1 k2 vs) := by
  simp [sum4, add4]

/-- 2D, every key, no hypotheses: the summed columns are the `add2`-fold of the denotations -/
theorem c17_sum2 (k : Az) (vs : List (ℝ × ℝ)) :
    sum2 k vs = (vs.map fun v => cart2 k v.1 v.2).foldr add2 (0, 0) := by
  induction vs with
  | nil => exact c17_sum2_nil k
  | cons v vs ih =>
    rw [c17_sum2_cons, ih, refine_planar_x, refine_planar_y]; rfl

/-- 3D, every key, `θ ≠ π/2` for every element of a θ-stored array -/
theorem c17_sum3 (k0 : Az) (k1 : Lon) (vs : List (ℝ × ℝ × ℝ)) (h : ∀ v ∈ vs, TanOK k1 v.2.2) :
    sum3 k0 k1 vs = (vs.map fun v => cart3 k0 k1 v.1 v.2.1 v.2.2).foldr add3 (0, 0, 0) := by
  induction vs with
  | nil => exact c17_sum3_nil k0 k1
  | cons v vs ih =>
    rw [c17_sum3_cons, ih (fun w hw => h w (List.mem_cons_of_mem _ hw)), refine_planar_x, refine_planar_y,
      refine_spatial_z _ _ _ _ _ (h v List.mem_cons_self)]
    rfl

/-- 4D, every key, under the per-element side conditions -/
theorem c17_sum4 (k0 : Az) (k1 : Lon) (k2 : Tmp) (vs : List (ℝ × ℝ × ℝ × ℝ)) (h : ∀ v ∈ vs, Elem4OK k1 k2 v) :
    sum4 k0 k1 k2 vs = (vs.map fun v => cart4 k0 k1 k2 v.1 v.2.1 v.2.2.1 v.2.2.2).foldr add4 (0, 0, 0, 0) := by
  induction vs with
  | nil => exact c17_sum4_nil k0 k1 k2
  | cons v vs ih =>
    obtain ⟨h1, h2, h3⟩ := h v List.mem_cons_self
    rw [c17_sum4_cons, ih (fun w hw => h w (List.mem_cons_of_mem _ hw)), refine_planar_x, refine_planar_y,
      refine_spatial_z _ _ _ _ _ h1, lorentz_t_eq_tOf _ _ _ _ _ _ _ h2 h3]
    rfl

/-- 4D for representable storage (`Canon4`) with `θ ≠ π/2` -/
theorem c17_sum4_canon (k0 : Az) (k1 : Lon) (k2 : Tmp) (vs : List (ℝ × ℝ × ℝ × ℝ))
    (h : ∀ v ∈ vs, Canon4 k0 k1 k2 v.1 v.2.1 v.2.2.1 v.2.2.2 ∧ TanOK k1 v.2.2.1) :
    sum4 k0 k1 k2 vs = (vs.map fun v => cart4 k0 k1 k2 v.1 v.2.1 v.2.2.1 v.2.2.2).foldr add4 (0, 0, 0, 0) :=
  c17_sum4 k0 k1 k2 vs fun v hv => c17_elem4OK_of_canon (h v hv).1 (h v hv).2

/-- the RESULT vector (Cartesian keys, as returned by the reducer) denotes the sum of the denotations -/
theorem c17_reduceSum2_denotes (mom : Bool) (k : Az) (vs : List (ℝ × ℝ)) :
    let r := reduceSum2 mom k vs
    r.1 = mom ∧ cart2 r.2.1 r.2.2.1 r.2.2.2 = (vs.map fun v => cart2 k v.1 v.2).foldr add2 (0, 0) :=
  ⟨rfl, c17_sum2 k vs⟩
theorem c17_reduceSum3_denotes (mom : Bool) (k0 : Az) (k1 : Lon) (vs : List (ℝ × ℝ × ℝ))
    (h : ∀ v ∈ vs, TanOK k1 v.2.2) :
    let r := reduceSum3 mom k0 k1 vs
    r.1 = mom ∧ cart3 r.2.1.1 r.2.1.2 r.2.2.1 r.2.2.2.1 r.2.2.2.2
      = (vs.map fun v => cart3 k0 k1 v.1 v.2.1 v.2.2).foldr add3 (0, 0, 0) :=
  ⟨rfl, c17_sum3 k0 k1 vs h⟩
theorem c17_reduceSum4_denotes (mom : Bool) (k0 : Az) (k1 : Lon) (k2 : Tmp) (vs : List (ℝ × ℝ × ℝ × ℝ))
    (h : ∀ v ∈ vs, Elem4OK k1 k2 v) :
    let r := reduceSum4 mom k0 k1 k2 vs
    r.1 = mom ∧ cart4 r.2.1.1 r.2.1.2.1 r.2.1.2.2 r.2.2.1 r.2.2.2.1 r.2.2.2.2.1 r.2.2.2.2.2
      = (vs.map fun v => cart4 k0 k1 k2 v.1 v.2.1 v.2.2.1 v.2.2.2).foldr add4 (0, 0, 0, 0) :=
  ⟨rfl, c17_sum4 k0 k1 k2 vs h⟩

/-! ### sums of sums (axis-wise reduction of a 2-D array, then of the result = reduction of everything) -/

theorem c17_sum2_append (k : Az) (vs ws : List (ℝ × ℝ)) :
    sum2 k (vs ++ ws) = add2 (sum2 k vs) (sum2 k ws) := by
  simp [sum2, add2]
theorem c17_sum3_append (k0 : Az) (k1 : Lon) (vs ws : List (ℝ × ℝ × ℝ)) :
    sum3 k0 k1 (vs ++ ws) = add3 (sum3 k0 k1 vs) (sum3 k0 k1 ws) := by
  simp [sum3, add3]
theorem c17_sum4_append (k0 : Az) (k1 : Lon) (k2 : Tmp) (vs ws : List (ℝ × ℝ × ℝ × ℝ)) :
    sum4 k0 k1 k2 (vs ++ ws) = add4 (sum4 k0 k1 k2 vs) (sum4 k0 k1 k2 ws) := by
  simp [sum4, add4]

/-- summing the rows of a jagged/2-D array and then Cartesian-summing the row sums (the row sums are stored `xy`)
is summing all elements -/
theorem c17_sum2_flatten (k : Az) (vss : List (List (ℝ × ℝ))) :
    sum2 .xy (vss.map (sum2 k)) = sum2 k vss.flatten := by
  induction vss with
  | nil => simp [sum2]
  | cons vs vss ih =>
    rw [List.map_cons, c17_sum2_cons, ih, List.flatten_cons, c17_sum2_append]; rfl
theorem c17_sum3_flatten (k0 : Az) (k1 : Lon) (vss : List (List (ℝ × ℝ × ℝ))) :
    sum3 .xy .z (vss.map (sum3 k0 k1)) = sum3 k0 k1 vss.flatten := by
  induction vss with
  | nil => simp [sum3]
  | cons vs vss ih =>
    rw [List.map_cons, c17_sum3_cons, ih, List.flatten_cons, c17_sum3_append]; rfl
theorem c17_sum4_flatten (k0 : Az) (k1 : Lon) (k2 : Tmp) (vss : List (List (ℝ × ℝ × ℝ × ℝ))) :
    sum4 .xy .z .t (vss.map (sum4 k0 k1 k2)) = sum4 k0 k1 k2 vss.flatten := by
  induction vss with
  | nil => simp [sum4]
  | cons vs vss ih =>
    rw [List.map_cons, c17_sum4_cons, ih, List.flatten_cons, c17_sum4_append]; rfl

/-- the order of the elements is irrelevant -/
theorem c17_sum2_perm (k : Az) {vs ws : List (ℝ × ℝ)} (h : vs.Perm ws) : sum2 k vs = sum2 k ws := by
  simp only [sum2, (h.map _).sum_eq]
theorem c17_sum3_perm (k0 : Az) (k1 : Lon) {vs ws : List (ℝ × ℝ × ℝ)} (h : vs.Perm ws) :
    sum3 k0 k1 vs = sum3 k0 k1 ws := by
  simp only [sum3, (h.map _).sum_eq]
theorem c17_sum4_perm (k0 : Az) (k1 : Lon) (k2 : Tmp) {vs ws : List (ℝ × ℝ × ℝ × ℝ)} (h : vs.Perm ws) :
    sum4 k0 k1 k2 vs = sum4 k0 k1 k2 ws := by
  simp only [sum4, (h.map _).sum_eq]

/-- satisfiable: a polar-stored and a θ/τ-stored array -/
example : sum2 .rhophi [(2, 0), (3, π)] = (-1, 0) := by
  rw [c17_sum2]; simp [cart2, xOf, yOf, add2]; norm_num
example : ∀ v ∈ [((3 : ℝ), (4 : ℝ), (1 : ℝ), (2 : ℝ))], Elem4OK .theta .tau v := by
  intro v hv
  rw [List.mem_singleton] at hv; subst hv
  exact ⟨ne_of_gt cos_one_pos, (sin_pos_of_pos_of_lt_pi one_pos (by linarith [two_le_pi])).ne',
    show (0 : ℝ) ≤ 2 by norm_num⟩

/-! ### 2. `count_nonzero` counts the elements that are not the zero vector -/

private theorem sq_add_sq_ne_zero_iff (x y : ℝ) : x ^ 2 + y ^ 2 ≠ 0 ↔ (x, y) ≠ (0, 0) := by
  rw [Ne, Ne, Prod.mk.injEq, not_iff_not]
  constructor
  · intro h; constructor <;> nlinarith [sq_nonneg x, sq_nonneg y]
  · rintro ⟨rfl, rfl⟩; norm_num

/-- 2D, every key, no hypotheses -/
theorem c17_nonzero2_iff (k : Az) (a b : ℝ) : nonzero2 k a b ↔ cart2 k a b ≠ (0, 0) := by
  unfold nonzero2 cart2
  rw [refine_planar_rho2, sq_add_sq_ne_zero_iff]

private theorem triple_ne_zero_iff (x y z : ℝ) : (x ^ 2 + y ^ 2 ≠ 0 ∨ z ≠ 0) ↔ (x, y, z) ≠ (0, 0, 0) := by
  rw [sq_add_sq_ne_zero_iff]
  simp only [Ne, Prod.mk.injEq]
  tauto

private theorem quad_ne_zero_iff (x y z t : ℝ) :
    ((x ^ 2 + y ^ 2 ≠ 0 ∨ z ≠ 0) ∨ t ^ 2 ≠ 0) ↔ (x, y, z, t) ≠ (0, 0, 0, 0) := by
  rw [sq_add_sq_ne_zero_iff]
  simp only [Ne, Prod.mk.injEq, pow_eq_zero_iff (two_ne_zero)]
  tauto

/-- 3D, every key: `rho2 != 0 | z != 0` iff the denotation is not the zero vector (`θ ≠ π/2` for θ storage) -/
theorem c17_nonzero3_iff (k0 : Az) (k1 : Lon) (a b c : ℝ) (h : TanOK k1 c) :
    nonzero3 k0 k1 a b c ↔ cart3 k0 k1 a b c ≠ (0, 0, 0) := by
  unfold nonzero3 cart3
  rw [refine_planar_rho2, refine_spatial_z _ _ _ _ _ h, triple_ne_zero_iff]

/-- the code's `t2` is the square of the denoted time component (`SinOK` instead of `CanonLon`) -/
private theorem t2_eq_tOf_sq (k0 : Az) (k1 : Lon) (k2 : Tmp) (a b c d : ℝ) (hs : SinOK k1 c) (hd : CanonTmp k2 d) :
    lorentz_t2.eval k0 k1 k2 a b c d = tOf k0 k1 k2 a b c d ^ 2 := by
  cases k2
  · cases k0 <;> cases k1 <;> rfl
  · have h0 : (0 : ℝ) ≤ d := hd
    have hm := refine_spatial_mag2 k0 k1 a b c hs
    have hm0 : 0 ≤ mag2Of k0 k1 a b c := by unfold mag2Of; positivity
    have hc : P.copysign (d ^ 2) d = d ^ 2 := by
      unfold P.copysign; rw [if_pos h0, abs_of_nonneg (by positivity)]
    have ht : tOf k0 k1 .tau a b c d ^ 2 = d ^ 2 + mag2Of k0 k1 a b c := by
      cases k0 <;> cases k1 <;> exact sq_sqrt (by positivity)
    rw [ht]
    cases k0 <;> cases k1 <;> simp only [spatial_mag2.eval] at hm <;>
      simp only [d_lorentz_t2, d_lorentz_tau2, hm, hc] <;> exact max_eq_left (by positivity)

/-- 4D, every key: `rho2 != 0 | z != 0 | t2 != 0` iff the denotation is not the zero 4-vector -/
theorem c17_nonzero4_iff (k0 : Az) (k1 : Lon) (k2 : Tmp) (a b c d : ℝ)
    (h : TanOK k1 c) (hs : SinOK k1 c) (hd : CanonTmp k2 d) :
    nonzero4 k0 k1 k2 a b c d ↔ cart4 k0 k1 k2 a b c d ≠ (0, 0, 0, 0) := by
  unfold nonzero4 cart4
  rw [refine_planar_rho2, refine_spatial_z _ _ _ _ _ h, t2_eq_tOf_sq _ _ _ _ _ _ _ hs hd, quad_ne_zero_iff]

/-- 4D for representable storage -/
theorem c17_nonzero4_iff_canon (k0 : Az) (k1 : Lon) (k2 : Tmp) (a b c d : ℝ)
    (hc : Canon4 k0 k1 k2 a b c d) (h : TanOK k1 c) :
    nonzero4 k0 k1 k2 a b c d ↔ cart4 k0 k1 k2 a b c d ≠ (0, 0, 0, 0) :=
  c17_nonzero4_iff k0 k1 k2 a b c d h (Spec.SinOK_of_canonLon hc.1.2) hc.2

/-! Hypothesis-free companions: `is_nonzero` holds exactly when the element's contribution to `sum` (the tuple of
accessor values `(a.x, a.y[, a.z[, a.t]])`) is not zero — for every key and every raw input, including
non-representable ones (τ < 0, θ = π/2): `count_nonzero` and `sum` are coherent with each other. -/

theorem c17_nonzero3_iff_acc (k0 : Az) (k1 : Lon) (a b c : ℝ) :
    nonzero3 k0 k1 a b c ↔
      (planar_x.eval k0 a b, planar_y.eval k0 a b, spatial_z.eval k0 k1 a b c) ≠ (0, 0, 0) := by
  unfold nonzero3
  rw [refine_planar_rho2, refine_planar_x, refine_planar_y, triple_ne_zero_iff]

private theorem t2_acc (k0 : Az) (k1 : Lon) (k2 : Tmp) (a b c d : ℝ) :
    lorentz_t2.eval k0 k1 k2 a b c d ≠ 0 ↔ lorentz_t.eval k0 k1 k2 a b c d ≠ 0 := by
  cases k2
  · have e : lorentz_t2.eval k0 k1 .t a b c d = lorentz_t.eval k0 k1 .t a b c d ^ 2 := by
      cases k0 <;> cases k1 <;> rfl
    rw [e, Ne, Ne, pow_eq_zero_iff two_ne_zero]
  · have e : lorentz_t.eval k0 k1 .tau a b c d = sqrt (lorentz_t2.eval k0 k1 .tau a b c d) := by
      cases k0 <;> cases k1 <;> rfl
    have h0 : 0 ≤ lorentz_t2.eval k0 k1 .tau a b c d := by
      cases k0 <;> cases k1 <;> simp only [d_lorentz_t2] <;> exact le_max_right _ _
    rw [e, Ne, Ne, sqrt_eq_zero h0]

theorem c17_nonzero4_iff_acc (k0 : Az) (k1 : Lon) (k2 : Tmp) (a b c d : ℝ) :
    nonzero4 k0 k1 k2 a b c d ↔
      (planar_x.eval k0 a b, planar_y.eval k0 a b, spatial_z.eval k0 k1 a b c,
        lorentz_t.eval k0 k1 k2 a b c d) ≠ (0, 0, 0, 0) := by
  unfold nonzero4
  rw [refine_planar_rho2, refine_planar_x, refine_planar_y, t2_acc, sq_add_sq_ne_zero_iff]
  simp only [Ne, Prod.mk.injEq]
  tauto

/-! `count_nonzero` = number of elements whose denotation is not the zero vector -/

open Classical in
theorem c17_countNonzero2 (k : Az) (vs : List (ℝ × ℝ)) :
    countNonzero2 k vs = (vs.filter fun v => decide (cart2 k v.1 v.2 ≠ (0, 0))).length := by
  unfold countNonzero2
  congr 1
  apply List.filter_congr
  intro v _
  exact decide_eq_decide.mpr (c17_nonzero2_iff k v.1 v.2)

open Classical in
theorem c17_countNonzero3 (k0 : Az) (k1 : Lon) (vs : List (ℝ × ℝ × ℝ)) (h : ∀ v ∈ vs, TanOK k1 v.2.2) :
    countNonzero3 k0 k1 vs = (vs.filter fun v => decide (cart3 k0 k1 v.1 v.2.1 v.2.2 ≠ (0, 0, 0))).length := by
  unfold countNonzero3
  congr 1
  apply List.filter_congr
  intro v hv
  exact decide_eq_decide.mpr (c17_nonzero3_iff k0 k1 v.1 v.2.1 v.2.2 (h v hv))

open Classical in
theorem c17_countNonzero4 (k0 : Az) (k1 : Lon) (k2 : Tmp) (vs : List (ℝ × ℝ × ℝ × ℝ))
    (h : ∀ v ∈ vs, Elem4OK k1 k2 v) :
    countNonzero4 k0 k1 k2 vs =
      (vs.filter fun v => decide (cart4 k0 k1 k2 v.1 v.2.1 v.2.2.1 v.2.2.2 ≠ (0, 0, 0, 0))).length := by
  unfold countNonzero4
  congr 1
  apply List.filter_congr
  intro v hv
  obtain ⟨h1, h2, h3⟩ := h v hv
  exact decide_eq_decide.mpr (c17_nonzero4_iff k0 k1 k2 v.1 v.2.1 v.2.2.1 v.2.2.2 h1 h2 h3)

/-- empty lists count 0; counts of concatenations add; a count never exceeds the length -/
theorem c17_countNonzero2_nil (k : Az) : countNonzero2 k [] = 0 := rfl
theorem c17_countNonzero3_nil (k0 : Az) (k1 : Lon) : countNonzero3 k0 k1 [] = 0 := rfl
theorem c17_countNonzero4_nil (k0 : Az) (k1 : Lon) (k2 : Tmp) : countNonzero4 k0 k1 k2 [] = 0 := rfl

theorem c17_countNonzero2_append (k : Az) (vs ws : List (ℝ × ℝ)) :
    countNonzero2 k (vs ++ ws) = countNonzero2 k vs + countNonzero2 k ws := by
  simp [countNonzero2]
theorem c17_countNonzero3_append (k0 : Az) (k1 : Lon) (vs ws : List (ℝ × ℝ × ℝ)) :
    countNonzero3 k0 k1 (vs ++ ws) = countNonzero3 k0 k1 vs + countNonzero3 k0 k1 ws := by
  simp [countNonzero3]
theorem c17_countNonzero4_append (k0 : Az) (k1 : Lon) (k2 : Tmp) (vs ws : List (ℝ × ℝ × ℝ × ℝ)) :
    countNonzero4 k0 k1 k2 (vs ++ ws) = countNonzero4 k0 k1 k2 vs + countNonzero4 k0 k1 k2 ws := by
  simp [countNonzero4]

theorem c17_countNonzero2_le (k : Az) (vs : List (ℝ × ℝ)) : countNonzero2 k vs ≤ vs.length :=
  List.length_filter_le _ _
theorem c17_countNonzero3_le (k0 : Az) (k1 : Lon) (vs : List (ℝ × ℝ × ℝ)) : countNonzero3 k0 k1 vs ≤ vs.length :=
  List.length_filter_le _ _
theorem c17_countNonzero4_le (k0 : Az) (k1 : Lon) (k2 : Tmp) (vs : List (ℝ × ℝ × ℝ × ℝ)) :
    countNonzero4 k0 k1 k2 vs ≤ vs.length :=
  List.length_filter_le _ _

/-- examples: a polar-stored zero (ρ = 0, any φ) is not counted, a τ-stored vector at rest with mass is -/
example : ¬ nonzero2 .rhophi 0 1 := by
  rw [c17_nonzero2_iff]; simp [cart2, xOf, yOf]
example : nonzero4 .xy .z .tau 0 0 0 5 := by
  rw [c17_nonzero4_iff .xy .z .tau 0 0 0 5 trivial trivial (show (0 : ℝ) ≤ 5 by norm_num)]
  simp only [cart4, tOf, mag2Of, xOf, yOf, zOf, Ne, Prod.mk.injEq, not_and]
  intro _ _ _ h
  have : sqrt ((5 : ℝ) ^ 2 + (0 ^ 2 + 0 ^ 2 + 0 ^ 2)) = 5 := by
    rw [show ((5 : ℝ) ^ 2 + (0 ^ 2 + 0 ^ 2 + 0 ^ 2)) = 5 ^ 2 by norm_num]; exact sqrt_sq (by norm_num)
  rw [this] at h; norm_num at h

/-- `CanonTmp` is needed for the statement about DENOTATIONS: the non-representable storage τ = −1 at rest is
"zero" for the code (its own `t` accessor is `√max(−τ², 0) = 0`, coherent with `c17_nonzero4_iff_acc`), while the
specification formula `t = √(τ² + |p|²)` would give 1.  Not a defect: τ < 0 is outside the representable domain. -/
example : ¬ nonzero4 .xy .z .tau 0 0 0 (-1) := by
  have hc : P.copysign (((-1 : ℝ)) ^ 2) (-1) = -1 := by
    unfold P.copysign; rw [if_neg (by norm_num)]; norm_num
  simp only [nonzero4, d_planar_rho2, d_spatial_z, d_lorentz_t2, d_lorentz_tau2, d_spatial_mag2, hc]
  norm_num

/-! ### 3. the flavor is kept (by construction of the reducer, see the header) -/

theorem c17_reduceSum_flavor (mom : Bool) (k0 : Az) (k1 : Lon) (k2 : Tmp)
    (v2 : List (ℝ × ℝ)) (v3 : List (ℝ × ℝ × ℝ)) (v4 : List (ℝ × ℝ × ℝ × ℝ)) :
    (reduceSum2 mom k0 v2).1 = mom ∧ (reduceSum3 mom k0 k1 v3).1 = mom ∧ (reduceSum4 mom k0 k1 k2 v4).1 = mom :=
  ⟨rfl, rfl, rfl⟩

end VR
