/-
Property C18, layout driver — what `Driver/Layout.lean` prints is covered by theorems.

The driver prints, for every request, the S-expression of `Layout.shape` of the model's result (`r`/`s`/`b` = a leaf,
`_` = a missing value, `[ … ]` = a list).  This file defines that rendering as a TOTAL function (`Layout.structure`,
`Layout.render`; the driver's `renderShape` is the same three equations) and the BROADCAST structure of two operands
(`Layout.bcast`), and proves, as corollaries of `Props/C18`:

* `c18l_unary_structure`      `render (arrayUnary f a) = render a`;
* `c18l_zipWith_shape`        the structure of two broadcast arrays depends only on the operands' structures:
                              `(zipWith f a b).shape = bcast a.shape b.shape`;
* `c18l_binary_structure`     `render (arrayBinary f a b) = structure (bcast a.shape b.shape)`;
* `c18l_scalar_structure`, `c18l_secondary_structure`   the same for the driver's liftings of array-valued scalar
                              arguments and of secondary vector operands (`boost_p4`, …);
* the laws of `bcast` the generator of `harness/layout.py` relies on: a single record / object / number is neutral
  (`c18l_bcast_leaf_left/right`), `bcast s s = s`, a missing value on either side wins, `bcast` is commutative, and
  a plain number as scalar argument makes the scalar lifting `arrayUnary` (`c18l_scalar_number`).
-/
import VectorModel.Props.C18

set_option linter.unusedVariables false
set_option linter.unusedSimpArgs false
namespace VG
open VK

/-! ### the rendering -/

mutual
/-- S-expression of a structure: `leaf` for a leaf, `_` for a missing value, `[ … ]` for a list -/
def Layout.structure (leaf : String) : Layout Unit → String
  | .leaf _ => leaf
  | .none => "_"
  | .list xs => "[" ++ " ".intercalate (Layout.structureL leaf xs) ++ "]"
def Layout.structureL (leaf : String) : List (Layout Unit) → List String
  | [] => []
  | x :: xs => Layout.structure leaf x :: Layout.structureL leaf xs
end

/-- what the driver prints for an array -/
def Layout.render {α : Type} (leaf : String) (l : Layout α) : String := l.shape.structure leaf

/-- the broadcast structure of two structures -/
def Layout.bcast (a b : Layout Unit) : Layout Unit := Layout.zipWith (fun _ _ => ()) a b

example : (Layout.list [.list [.leaf 1, .leaf 2], .list [], .list [.leaf 3, .none, .leaf 4]]).render "r"
    = "[[r r] [] [r _ r]]" := by decide

section
variable {α β γ : Type}

theorem c18l_shape_shape (l : Layout α) : l.shape.shape = l.shape := c18_map_shape _ l

theorem c18l_render_shape (leaf : String) (l : Layout α) : l.shape.render leaf = l.render leaf := by
  simp only [Layout.render, c18l_shape_shape]

/-- equal structures are printed equally -/
theorem c18l_render_congr (leaf : String) (a : Layout α) (b : Layout β) (h : a.shape = b.shape) :
    a.render leaf = b.render leaf := by
  simp only [Layout.render, h]

/-! ### the broadcast law -/

private theorem map_unit (f : α → β) (l : Layout α) : (l.map f).map (fun _ => ()) = l.map (fun _ => ()) := by
  rw [c18_map_map]

/-- a structure is its own structure -/
theorem c18l_shape_unit (l : Layout Unit) : l.shape = l := by
  have h : (fun _ : Unit => ()) = id := by funext u; rfl
  simp only [Layout.shape, h, c18_map_id]

mutual
/-- the structure of the result of an operation on two broadcast arrays depends only on the operands' structures -/
theorem c18l_zipWith_shape (f : α → β → γ) :
    ∀ (a : Layout α) (b : Layout β), (Layout.zipWith f a b).shape = Layout.bcast a.shape b.shape
  | .none, b => by cases b <;> simp [Layout.zipWith, Layout.shape, Layout.map, Layout.bcast]
  | .leaf a, .none => by simp [Layout.zipWith, Layout.shape, Layout.map, Layout.bcast]
  | .leaf a, .leaf b => by simp [Layout.zipWith, Layout.shape, Layout.map, Layout.bcast]
  | .leaf a, .list ys => by
      simp only [Layout.zipWith, Layout.shape, Layout.bcast, Layout.map]
      have h1 := map_unit (f a) (Layout.list ys)
      simp only [Layout.map] at h1
      rw [h1, c18_mapL_mapL]
  | .list xs, .none => by simp [Layout.zipWith, Layout.shape, Layout.map, Layout.bcast]
  | .list xs, .leaf b => by
      simp only [Layout.zipWith, Layout.shape, Layout.bcast, Layout.map]
      have h1 := map_unit (fun a => f a b) (Layout.list xs)
      simp only [Layout.map] at h1
      rw [h1, c18_mapL_mapL]
  | .list xs, .list ys => by
      simp only [Layout.zipWith, Layout.shape, Layout.bcast, Layout.map]
      exact congrArg Layout.list (c18l_zipWithL_shape f xs ys)
theorem c18l_zipWithL_shape (f : α → β → γ) :
    ∀ (xs : List (Layout α)) (ys : List (Layout β)),
      Layout.mapL (fun _ => ()) (Layout.zipWithL f xs ys) =
        Layout.zipWithL (fun _ _ => ()) (Layout.mapL (fun _ => ()) xs) (Layout.mapL (fun _ => ()) ys)
  | [], ys => by simp [Layout.zipWithL, Layout.mapL]
  | x :: xs, [] => by simp [Layout.zipWithL, Layout.mapL]
  | x :: xs, y :: ys => by
      have h := c18l_zipWith_shape f x y
      simp only [Layout.shape, Layout.bcast] at h
      simp only [Layout.zipWithL, Layout.mapL, h, c18l_zipWithL_shape f xs ys]
end

/-! ### laws of `bcast` -/

/-- a single record / object vector / plain number is neutral on the left … -/
theorem c18l_bcast_leaf_left (u : Unit) (s : Layout α) : Layout.bcast (.leaf u) s.shape = s.shape := by
  simp only [Layout.bcast, c18_zipWith_leaf_left]
  exact c18_map_shape _ s

/-- … and on the right -/
theorem c18l_bcast_leaf_right (s : Layout α) (u : Unit) : Layout.bcast s.shape (.leaf u) = s.shape := by
  simp only [Layout.bcast, c18_zipWith_leaf_right]
  exact c18_map_shape _ s

/-- two operands of one structure: that structure -/
theorem c18l_bcast_self (s : Layout α) : Layout.bcast s.shape s.shape = s.shape := by
  have := c18_zipWith_shape (fun (_ _ : Unit) => ()) s.shape s.shape rfl
  simpa only [c18l_shape_unit, Layout.bcast] using this

/-- a missing value on either side gives a missing value -/
theorem c18l_bcast_none_left (b : Layout Unit) : Layout.bcast .none b = .none := by
  cases b <;> simp [Layout.bcast, Layout.zipWith]

theorem c18l_bcast_none_right (a : Layout Unit) : Layout.bcast a .none = .none := by
  cases a <;> simp [Layout.bcast, Layout.zipWith]

mutual
/-- swapping the operands does not change the structure -/
theorem c18l_bcast_comm : ∀ a b : Layout Unit, Layout.bcast a b = Layout.bcast b a
  | .none, b => by rw [c18l_bcast_none_left, c18l_bcast_none_right]
  | .leaf a, .none => by rw [c18l_bcast_none_left, c18l_bcast_none_right]
  | .list xs, .none => by rw [c18l_bcast_none_left, c18l_bcast_none_right]
  | .leaf a, .leaf b => by simp [Layout.bcast, Layout.zipWith, Layout.map]
  | .leaf a, .list ys => by
      simp only [Layout.bcast, c18_zipWith_leaf_left, c18_zipWith_leaf_right]
  | .list xs, .leaf b => by
      simp only [Layout.bcast, c18_zipWith_leaf_left, c18_zipWith_leaf_right]
  | .list xs, .list ys => by
      simp only [Layout.bcast, Layout.zipWith]
      exact congrArg Layout.list (c18l_bcastL_comm xs ys)
theorem c18l_bcastL_comm : ∀ xs ys : List (Layout Unit),
    Layout.zipWithL (fun _ _ => ()) xs ys = Layout.zipWithL (fun _ _ => ()) ys xs
  | [], [] => rfl
  | [], y :: ys => by simp [Layout.zipWithL]
  | x :: xs, [] => by simp [Layout.zipWithL]
  | x :: xs, y :: ys => by
      have h := c18l_bcast_comm x y
      simp only [Layout.bcast] at h
      simp only [Layout.zipWithL, h, c18l_bcastL_comm xs ys]
end

end

/-! ### what the driver prints -/

section
variable {S B : Type}

/-- no second operand: the printed structure of the result is the printed structure of the operand -/
theorem c18l_unary_structure (f : Vec S → Except Err (Res S B)) (a : Layout (Rec S)) (out : Layout (RRes S B))
    (leaf : String) (h : arrayUnary f a = .ok out) : out.render leaf = a.render leaf :=
  c18l_render_congr leaf out a (c18_arrayUnary_shape f a out h)

/-- two vector operands on an equal footing: the printed structure is the broadcast structure of the operands -/
theorem c18l_binary_structure (f : Vec S → Vec S → Except Err (Res S B)) (a b : Layout (Rec S))
    (out : Layout (RRes S B)) (leaf : String) (h : arrayBinary f a b = .ok out) :
    out.shape = Layout.bcast a.shape b.shape ∧
    out.render leaf = (Layout.bcast a.shape b.shape).structure leaf := by
  have h1 : out.shape = Layout.bcast a.shape b.shape := by
    rw [c18_sequence_shape _ _ h, c18l_zipWith_shape]
  exact ⟨h1, by simp only [Layout.render, h1]⟩

/-- … in particular: equal structures give that structure, a single record / object gives the array's structure -/
theorem c18l_binary_structure_same (f : Vec S → Vec S → Except Err (Res S B)) (a b : Layout (Rec S))
    (out : Layout (RRes S B)) (leaf : String) (hs : a.shape = b.shape) (h : arrayBinary f a b = .ok out) :
    out.render leaf = a.render leaf :=
  c18l_render_congr leaf out a (c18_arrayBinary_shape f a b out hs h).1

theorem c18l_binary_structure_record_right (f : Vec S → Vec S → Except Err (Res S B)) (a : Layout (Rec S))
    (b : Rec S) (out : Layout (RRes S B)) (leaf : String) (h : arrayBinary f a (.leaf b) = .ok out) :
    out.render leaf = a.render leaf :=
  c18l_render_congr leaf out a (c18_arrayBinary_shape_broadcast f a b out h)

theorem c18l_binary_structure_record_left (f : Vec S → Vec S → Except Err (Res S B)) (a : Rec S)
    (b : Layout (Rec S)) (out : Layout (RRes S B)) (leaf : String) (h : arrayBinary f (.leaf a) b = .ok out) :
    out.render leaf = b.render leaf := by
  refine c18l_render_congr leaf out b ?_
  rw [c18_sequence_shape _ _ h, c18_zipWith_leaf_shape]

/-- the driver's lifting of an array-valued scalar argument (`rotateZ(angles)`, `scale(factors)`, boosts):
`g s` = the method with the scalar `s` -/
theorem c18l_scalar_structure (g : S → Vec S → Except Err (Res S B)) (a : Layout (Rec S)) (arg : Layout S)
    (out : Layout (RRes S B)) (leaf : String)
    (h : (Layout.zipWith (fun r s => unaryOp (g s) r) a arg).sequence = .ok out) :
    out.shape = Layout.bcast a.shape arg.shape ∧
    out.render leaf = (Layout.bcast a.shape arg.shape).structure leaf := by
  have h1 : out.shape = Layout.bcast a.shape arg.shape := by
    rw [c18_sequence_shape _ _ h, c18l_zipWith_shape]
  exact ⟨h1, by simp only [Layout.render, h1]⟩

/-- a plain number as the argument: the lifting is `arrayUnary` of the method with that number -/
theorem c18l_scalar_number (g : S → Vec S → Except Err (Res S B)) (a : Layout (Rec S)) (s : S) :
    (Layout.zipWith (fun r s => unaryOp (g s) r) a (.leaf s)).sequence = arrayUnary (g s) a := by
  rw [c18_zipWith_leaf_right]
  rfl

/-- the driver's lifting of a SECONDARY vector operand (`boost_p4`, `boost_beta3`, `rotate_axis`: `num_vecargs = 1`):
`op a b` = the record-level operation (any) -/
theorem c18l_secondary_structure (op : Rec S → Rec S → Except Err (RRes S B)) (a b : Layout (Rec S))
    (out : Layout (RRes S B)) (leaf : String) (h : (Layout.zipWith op a b).sequence = .ok out) :
    out.shape = Layout.bcast a.shape b.shape ∧
    out.render leaf = (Layout.bcast a.shape b.shape).structure leaf := by
  have h1 : out.shape = Layout.bcast a.shape b.shape := by
    rw [c18_sequence_shape _ _ h, c18l_zipWith_shape]
  exact ⟨h1, by simp only [Layout.render, h1]⟩

/-- the fields the driver prints for a unary / scalar-argument request: the operand's non-coordinate fields -/
theorem c18l_unary_extras (f : Vec S → Except Err (Res S B)) (r r' : Rec S) (h : unaryOp f r = .ok (.vrec r')) :
    r'.extra.map (·.1) = (carry r.extra).map (·.1) := by
  rw [(c18_unary_fields f r r' h).2.1]

/-- … and for a request with two vectors on an equal footing: none -/
theorem c18l_binary_extras (f : Vec S → Vec S → Except Err (Res S B)) (a b : Rec S) (res : RRes S B)
    (h : binaryOp f a b = .ok res) : res.extra.map (·.1) = [] := by
  rw [c18_binary_no_extra f a b res h]; rfl

/-- the hypotheses are satisfiable: a flat array against a jagged one, a missing record on the left, a missing
list on the right -/
example :
    Layout.bcast (Layout.list [.leaf (), .none, .leaf ()]) (.list [.list [.leaf (), .leaf ()], .list [], .none])
      = .list [.list [.leaf (), .leaf ()], .none, .none] := by
  simp [Layout.bcast, Layout.zipWith, Layout.zipWithL, Layout.map, Layout.mapL]

end
end VG
