/-
C17 (axes) — theorems about the executable AXIS model of the reducers (`Glue/Reduce.lean`; tied to the real `numpy.sum` /
`ndarray.sum` / `numpy.count_nonzero` / `ak.sum` / `ak.count_nonzero` / `ak.count` on vector arrays by `harness/reduce.py` through
`Driver/Reduce.lean`).  `Props/C17.lean` speaks about FLAT lists of stored coordinates; here: `axis`, `keepdims`, tuple and negative
axes, shapes with length-one / size-0 axes, jagged lists.  All statements hold for every element type `α` with the stated
monoid laws of (`zero`, `add`) as explicit hypotheses; the model itself imports nothing.

  c17a_shape, c17a_shape_drop, c17a_shape_keep, c17a_keepdims, c17a_wf          the result shape
  c17a_negative_axis, c17a_axis_out_of_range, c17a_none                           the axis argument
  red_hom, c17a_count_nonzero_eq_sum_indicator, c17a_count_eq_sum_ones, c17a_count_nonzero_le
  c17a_total                                                                      all axes = sum of all elements
  c17a_element                                                                    which input elements an output element sums
  c17a_axes_compose                                                               two steps = one step (commutative monoids)
  c17a_jagged_empty, c17a_jagged_last, c17a_jagged_negative_axis, c17a_jagged_axis0_length, c17a_jagged_count_nonzero,
  c17a_jagged_total                                                               Awkward
  c17a_flat_agrees, c17a_axis_agrees (+ 2D / 3D)                                  the link to `Props/C17` (`sum2/3/4` over ℝ)
-/
import VectorModel.Glue.Reduce
import VectorModel.Props.C17

set_option linter.unusedVariables false

namespace VRed

variable {α β : Type}

/-! ### helper lemmas (lists) -/

theorem length_rows (k n : Nat) (d : List α) : (rows k n d).length = n := by simp [rows]

theorem mem_rows_length {k n : Nat} {d : List α} (hd : d.length = n * k) : ∀ r ∈ rows k n d, r.length = k := by
  intro r hr
  simp only [rows, List.mem_map, List.mem_range] at hr
  obtain ⟨i, hi, rfl⟩ := hr
  have h1 : (i + 1) * k ≤ n * k := Nat.mul_le_mul_right k hi
  rw [Nat.succ_mul] at h1
  simp only [List.length_take, List.length_drop, hd]
  omega

theorem length_addRows (zero : α) (add : α → α → α) (len : Nat) (rs : List (List α))
    (h : ∀ r ∈ rs, r.length = len) : (addRows zero add len rs).length = len := by
  induction rs with
  | nil => simp [addRows]
  | cons r rs ih =>
    have h1 := h r List.mem_cons_self
    have h2 := ih fun r' hr' => h r' (List.mem_cons_of_mem _ hr')
    simp only [addRows, List.foldr_cons, List.length_zipWith] at h2 ⊢
    omega

theorem length_flatten_uniform (q : Nat) (l : List (List α)) (h : ∀ r ∈ l, r.length = q) :
    l.flatten.length = l.length * q := by
  induction l with
  | nil => simp
  | cons r l ih =>
    have h1 := h r List.mem_cons_self
    have h2 := ih fun r' hr' => h r' (List.mem_cons_of_mem _ hr')
    simp only [List.flatten_cons, List.length_append, List.length_cons, Nat.succ_mul, h1, h2]
    omega

/-! ### 1. the SHAPE of the result -/

/-- `keepdims=False`: exactly the axes that are not reduced are left, with their lengths — whatever these are (1 included) -/
theorem c17a_shape_drop (sh : List Nat) (m : List Bool) (h : m.length = sh.length) :
    outShape false sh m = ((sh.zip m).filter fun p => !p.2).map Prod.fst := by
  induction sh generalizing m with
  | nil => simp [outShape]
  | cons n sh ih =>
    cases m with
    | nil => simp at h
    | cons b m =>
      have h' : m.length = sh.length := by simpa using h
      cases b <;> simp [outShape, ih m h']

/-- `keepdims=True`: the reduced axes have length 1, all others are unchanged -/
theorem c17a_shape_keep (sh : List Nat) (m : List Bool) (h : m.length = sh.length) :
    outShape true sh m = (sh.zip m).map fun p => if p.2 then 1 else p.1 := by
  induction sh generalizing m with
  | nil => simp [outShape]
  | cons n sh ih =>
    cases m with
    | nil => simp at h
    | cons b m =>
      have h' : m.length = sh.length := by simpa using h
      cases b <;> simp [outShape, ih m h']

theorem length_maskOf (n : Nat) (axes : List Nat) : (maskOf n axes).length = n := by simp [maskOf]

/-- the mask of an axis list marks exactly the listed axes -/
theorem maskOf_get (n : Nat) (axes : List Nat) (i : Nat) (hi : i < n) : (maskOf n axes)[i]? = some (axes.contains i) := by
  simp [maskOf, hi]

/-- `c17a_shape`: the shape of `numpy.sum(a, axis=axes, keepdims=kd)` is the documented one -/
theorem c17a_shape (zero : α) (add : α → α → α) (axes : List Nat) (a : Arr α) :
    (reduceAxes zero add axes false a).shape
        = (((a.shape.zip (maskOf a.shape.length axes)).filter fun p => !p.2).map Prod.fst) ∧
      (reduceAxes zero add axes true a).shape
        = ((a.shape.zip (maskOf a.shape.length axes)).map fun p => if p.2 then 1 else p.1) :=
  ⟨c17a_shape_drop _ _ (length_maskOf _ _), c17a_shape_keep _ _ (length_maskOf _ _)⟩

/-- length-one axes that are not reduced stay (the `squeeze()` defect): concrete instances -/
example : (reduceAxes (0 : Int) (· + ·) [0] false ⟨[2, 1, 3], [1, 2, 3, 4, 5, 6]⟩).shape = [1, 3] := by decide
example : (reduceAxes (0 : Int) (· + ·) [1] false ⟨[1, 6], [1, 2, 3, 4, 5, 6]⟩).shape = [1] := by decide
example : (reduceAxes (0 : Int) (· + ·) [0, 2] true ⟨[2, 1, 3], [1, 2, 3, 4, 5, 6]⟩).shape = [1, 1, 1] := by decide

/-- the number of elements of the two shapes agree -/
theorem prod_outShape_keepdims (sh : List Nat) (m : List Bool) : prod (outShape true sh m) = prod (outShape false sh m) := by
  induction sh generalizing m with
  | nil => rfl
  | cons n sh ih =>
    cases h : m.headD false <;>
      simp only [outShape, h, if_true, Bool.false_eq_true, if_false, prod, ih, Nat.one_mul]

/-- `c17a_keepdims`: the `keepdims=True` result is the plain result reshaped: same C-order data, shapes with the same number of
elements (the extra axes all have length 1) -/
theorem c17a_keepdims (zero : α) (add : α → α → α) (axes : List Nat) (a : Arr α) :
    (reduceAxes zero add axes true a).data = (reduceAxes zero add axes false a).data ∧
      prod (reduceAxes zero add axes true a).shape = prod (reduceAxes zero add axes false a).shape :=
  ⟨rfl, prod_outShape_keepdims _ _⟩

/-- the result is well-formed: as many elements as its shape says -/
theorem length_red (zero : α) (add : α → α → α) (sh : List Nat) (m : List Bool) (d : List α) (hd : d.length = prod sh) :
    (red zero add sh m d).length = prod (outShape false sh m) := by
  induction sh generalizing m d with
  | nil => simpa [red, outShape] using hd
  | cons n sh ih =>
    have hrows := mem_rows_length (k := prod sh) (n := n) (d := d) (by simpa [prod] using hd)
    have hall : ∀ r ∈ (rows (prod sh) n d).map (red zero add sh m.tail), r.length = prod (outShape false sh m.tail) := by
      intro r hr
      simp only [List.mem_map] at hr
      obtain ⟨r0, hr0, rfl⟩ := hr
      exact ih m.tail r0 (hrows r0 hr0)
    cases h : m.headD false
    · simp only [red, outShape, h, Bool.false_eq_true, if_false, prod]
      rw [length_flatten_uniform _ _ hall]
      simp [length_rows]
    · simp only [red, outShape, h, if_true, Bool.false_eq_true, if_false]
      exact length_addRows _ _ _ _ hall

theorem c17a_wf (zero : α) (add : α → α → α) (axes : List Nat) (kd : Bool) (a : Arr α) (h : a.WF) :
    (reduceAxes zero add axes kd a).WF := by
  unfold Arr.WF reduceAxes reduceMask
  cases kd
  · exact length_red _ _ _ _ _ h
  · simp only [prod_outShape_keepdims]
    exact length_red _ _ _ _ _ h

/-! ### 2. the axis argument -/

/-- `c17a_negative_axis`: axis `-k` is axis `ndim - k` -/
theorem c17a_negative_axis (ndim k : Nat) (h1 : 1 ≤ k) (h2 : k ≤ ndim) :
    normAxis ndim (.one (-(k : Int))) = normAxis ndim (.one ((ndim - k : Nat) : Int)) ∧
      normAxis ndim (.one (-(k : Int))) = .ok [ndim - k] := by
  have e1 : normOne ndim (-(k : Int)) = some (ndim - k) := by
    unfold normOne
    rw [if_neg (by omega), if_pos (by omega)]
    congr 1
    omega
  have e2 : normOne ndim ((ndim - k : Nat) : Int) = some (ndim - k) := by
    unfold normOne
    rw [if_pos (by omega), if_pos (by omega)]
    congr 1
  simp [normAxis, e1, e2]

/-- out of range is an error (except NumPy's 0-d quirk) -/
theorem c17a_axis_out_of_range (ndim : Nat) (k : Int) (h : (ndim : Int) ≤ k ∨ k < -(ndim : Int)) (h0 : 0 < ndim) :
    normAxis ndim (.one k) = .error .axisError := by
  have e : normOne ndim k = none := by
    unfold normOne
    split
    · rw [if_neg (by omega)]
    · rw [if_neg (by omega)]
  simp only [normAxis, e]
  rw [if_neg (by omega)]

theorem maskOf_range (n : Nat) : maskOf n (List.range n) = List.replicate n true := by
  apply List.ext_getElem
  · simp [maskOf]
  · intro i h1 h2
    simp only [maskOf, List.length_map, List.length_range] at h1
    simp [maskOf, h1]

/-- `c17a_none`: `axis=None` is every axis: the shape is `()` (all ones with `keepdims`) -/
theorem c17a_none (zero : α) (add : α → α → α) (kd : Bool) (a : Arr α) :
    sumArr zero add .none kd a = .ok (reduceMask zero add (List.replicate a.shape.length true) kd a) := by
  simp [sumArr, normAxis, reduceAxes, maskOf_range]

theorem outShape_all (sh : List Nat) : outShape false sh (List.replicate sh.length true) = [] ∧
    outShape true sh (List.replicate sh.length true) = List.replicate sh.length 1 := by
  induction sh with
  | nil => simp [outShape]
  | cons n sh ih => simp [outShape, List.replicate_succ, ih.1, ih.2]

/-! ### 3. reductions commute with monoid homomorphisms; `count_nonzero` is the sum of the 0/1 indicator -/

theorem rows_map (f : α → β) (k n : Nat) (d : List α) : rows k n (d.map f) = (rows k n d).map (List.map f) := by
  simp [rows, List.map_drop, List.map_take]

theorem addRows_map (z : α) (add : α → α → α) (z' : β) (add' : β → β → β) (h : α → β) (hz : h z = z')
    (hadd : ∀ a b, h (add a b) = add' (h a) (h b)) (len : Nat) (rs : List (List α)) :
    (addRows z add len rs).map h = addRows z' add' len (rs.map (List.map h)) := by
  induction rs with
  | nil => simp [addRows, hz]
  | cons r rs ih =>
    simp only [addRows, List.foldr_cons, List.map_cons] at ih ⊢
    rw [← ih, List.map_zipWith, List.zipWith_map]
    simp only [hadd]

/-- `red` commutes with every monoid homomorphism `h` -/
theorem red_hom (z : α) (add : α → α → α) (z' : β) (add' : β → β → β) (h : α → β) (hz : h z = z')
    (hadd : ∀ a b, h (add a b) = add' (h a) (h b)) (sh : List Nat) (m : List Bool) (d : List α) :
    (red z add sh m d).map h = red z' add' sh m (d.map h) := by
  induction sh generalizing m d with
  | nil => simp [red]
  | cons n sh ih =>
    have e : (rows (prod sh) n (d.map h)).map (red z' add' sh m.tail)
        = ((rows (prod sh) n d).map (red z add sh m.tail)).map (List.map h) := by
      rw [rows_map, List.map_map, List.map_map]
      apply List.map_congr_left
      intro r _
      exact (ih m.tail r).symm
    cases hm : m.headD false
    · simp only [red, hm, Bool.false_eq_true, if_false, e, List.map_flatten]
    · simp only [red, hm, if_true, e]
      exact addRows_map z add z' add' h hz hadd _ _

/-- `c17a_count_nonzero_eq_sum_indicator`: `count_nonzero` (defined through the GROUPS of elements an output position covers) is the
sum, over the same axes, of the 0/1 indicator -/
theorem c17a_count_nonzero_eq_sum_indicator (p : α → Bool) (ax : AxisSpec) (kd : Bool) (a : Arr α) :
    countNonzeroArr p ax kd a = sumArr 0 (· + ·) ax kd (a.map (ind p)) := by
  unfold countNonzeroArr sumArr
  simp only [Arr.map]
  cases normAxis a.shape.length ax with
  | error e => rfl
  | ok axes =>
    simp only [groupsArr, reduceAxes, reduceMask, Arr.map, Except.ok.injEq, Arr.mk.injEq, true_and]
    rw [red_hom [] (· ++ ·) 0 (· + ·) (fun g => (g.filter p).length) rfl (by simp), List.map_map]
    congr 1
    apply List.map_congr_left
    intro x _
    simp only [Function.comp, ind, List.filter_cons, List.filter_nil]
    cases p x <;> rfl

/-- … and `count` the sum of ones -/
theorem c17a_count_eq_sum_ones (ax : AxisSpec) (kd : Bool) (a : Arr α) :
    countArr ax kd a = sumArr 0 (· + ·) ax kd (a.map fun _ => 1) := by
  unfold countArr sumArr
  simp only [Arr.map]
  cases normAxis a.shape.length ax with
  | error e => rfl
  | ok axes =>
    simp only [groupsArr, reduceAxes, reduceMask, Arr.map, Except.ok.injEq, Arr.mk.injEq, true_and]
    rw [red_hom [] (· ++ ·) 0 (· + ·) List.length rfl (by simp), List.map_map]
    congr 1

/-- `c17a_count_nonzero_le`: same errors, same shape, and at every output position the count of non-zero elements is at most the number of
elements covered -/
theorem c17a_count_nonzero_le (p : α → Bool) (ax : AxisSpec) (kd : Bool) (a : Arr α) :
    match countNonzeroArr p ax kd a, countArr ax kd a with
    | .ok c, .ok n => c.shape = n.shape ∧ c.data.length = n.data.length ∧ ∀ i, c.data.getD i 0 ≤ n.data.getD i 0
    | .error e, .error e' => e = e'
    | _, _ => False := by
  unfold countNonzeroArr countArr
  cases normAxis a.shape.length ax with
  | error e => simp
  | ok axes =>
    simp only [Arr.map, List.length_map, true_and]
    intro i
    simp only [List.getD_eq_getElem?_getD, List.getElem?_map]
    cases (groupsArr axes kd a).data[i]? with
    | none => simp
    | some g => simpa using List.length_filter_le p g

/-! ### 4. reducing over all axes is the sum of all elements -/

section monoid
variable (zero : α) (add : α → α → α) (hz : ∀ a, add zero a = a) (hz' : ∀ a, add a zero = a)
  (assoc : ∀ a b c, add (add a b) c = add a (add b c))
include hz assoc

theorem sum1_append (a b : List α) : sum1 zero add (a ++ b) = add (sum1 zero add a) (sum1 zero add b) := by
  induction a with
  | nil => simp [sum1, hz]
  | cons x a ih => simp only [sum1, List.cons_append, List.foldr_cons] at ih ⊢; rw [ih, assoc]

theorem sum1_flatten (l : List (List α)) : sum1 zero add l.flatten = sum1 zero add (l.map (sum1 zero add)) := by
  induction l with
  | nil => rfl
  | cons r l ih =>
    rw [List.flatten_cons, sum1_append zero add hz assoc, ih]
    rfl

omit hz assoc in
theorem flatten_rows (k n : Nat) (d : List α) : (rows k n d).flatten = d.take (n * k) := by
  induction n with
  | zero => simp [rows]
  | succ n ih =>
    have : rows k (n + 1) d = rows k n d ++ [(d.drop (n * k)).take k] := by
      simp [rows, List.range_succ]
    rw [this, List.flatten_append, ih, Nat.succ_mul, List.take_add]
    simp

omit hz assoc in
theorem addRows_singletons (f : List α → α) (l : List (List α)) :
    addRows zero add 1 (l.map fun r => [f r]) = [sum1 zero add (l.map f)] := by
  induction l with
  | nil => rfl
  | cons r l ih =>
    simp only [addRows, List.map_cons, List.foldr_cons] at ih ⊢
    rw [ih]
    rfl

include hz'

theorem red_all (sh : List Nat) (d : List α) (hd : d.length = prod sh) :
    red zero add sh (List.replicate sh.length true) d = [sum1 zero add d] := by
  induction sh generalizing d with
  | nil =>
    match d, hd with
    | [x], _ => simp [red, sum1, hz']
  | cons n sh ih =>
    have hd' : d.length = n * prod sh := by simpa [prod] using hd
    have hrows := mem_rows_length (k := prod sh) (n := n) (d := d) hd'
    have e : (rows (prod sh) n d).map (red zero add sh (List.replicate sh.length true))
        = (rows (prod sh) n d).map fun r => [sum1 zero add r] := by
      apply List.map_congr_left
      intro r hr
      exact ih r (hrows r hr)
    simp only [red, List.length_cons, List.replicate_succ, List.headD_cons, if_true, List.tail_cons, e, (outShape_all sh).1, prod]
    rw [addRows_singletons, ← sum1_flatten zero add hz assoc, flatten_rows, ← hd', List.take_length]

/-- `c17a_total`: `axis=None` gives the sum of all elements, as a 0-d array (`keepdims`: all axes of length one) -/
theorem c17a_total (a : Arr α) (h : a.WF) :
    sumArr zero add .none false a = .ok ⟨[], [sum1 zero add a.data]⟩ ∧
      sumArr zero add .none true a = .ok ⟨List.replicate a.shape.length 1, [sum1 zero add a.data]⟩ := by
  simp only [c17a_none, reduceMask, (outShape_all a.shape).1, (outShape_all a.shape).2,
    red_all zero add hz hz' assoc a.shape a.data h, and_self]

end monoid

/-! ### 5. jagged (Awkward) arrays -/

/-- `c17a_jagged_empty`: an empty list sums to zero, counts zero; an array without lists sums (position-wise) to the empty list -/
theorem c17a_jagged_empty (zero : α) (add : α → α → α) (p : α → Bool) :
    sum1 zero add [] = zero ∧ sumPos add ([] : List (List α)) = [] ∧
      akSum zero add (some (-1)) false (.d2 [[], []]) = .ok (.d1 [zero, zero]) ∧
      akSum zero add (some 0) false (.d2 [[], []]) = .ok (.d1 []) ∧
      akSum zero add none false (.d2 [[], []]) = .ok (.d0 zero) ∧
      akSum zero add (some (-1)) true (.d2 [[], []]) = .ok (.d2 [[zero], [zero]]) ∧
      akCountNonzero p (some (-1)) false (.d2 [[], []]) = .ok (.d1 [0, 0]) ∧
      akCount (some 1) false (.d2 ([[], []] : List (List α))) = .ok (.d1 [0, 0]) :=
  ⟨rfl, rfl, rfl, rfl, rfl, rfl, rfl, rfl⟩

/-- `axis=-1` of a jagged array: one sum per list, in order — empty lists give zero; `keepdims` wraps each in a length-one list -/
theorem c17a_jagged_last (zero : α) (add : α → α → α) (l : List (List α)) :
    akSum zero add (some (-1)) false (.d2 l) = .ok (.d1 (l.map (sum1 zero add))) ∧
      akSum zero add (some (-1)) true (.d2 l) = .ok (.d2 (l.map fun r => [sum1 zero add r])) ∧
      (∀ i : Nat, l[i]? = some [] → (l.map (sum1 zero add))[i]? = some zero) := by
  refine ⟨rfl, rfl, ?_⟩
  intro i h
  simp [h, sum1]

/-- negative axes of the jagged reductions: `-1` is the innermost axis, `-depth` is axis 0 -/
theorem c17a_jagged_negative_axis (zero : α) (add : α → α → α) (kd : Bool) (l2 : List (List α)) (l3 : List (List (List α))) :
    akSum zero add (some (-1)) kd (.d2 l2) = akSum zero add (some 1) kd (.d2 l2) ∧
      akSum zero add (some (-2)) kd (.d2 l2) = akSum zero add (some 0) kd (.d2 l2) ∧
      akSum zero add (some (-1)) kd (.d3 l3) = akSum zero add (some 2) kd (.d3 l3) ∧
      akSum zero add (some (-2)) kd (.d3 l3) = akSum zero add (some 1) kd (.d3 l3) ∧
      akSum zero add (some (-3)) kd (.d3 l3) = akSum zero add (some 0) kd (.d3 l3) ∧
      akSum zero add (some 2) kd (.d2 l2) = .error .valueError ∧ akSum zero add (some (-3)) kd (.d2 l2) = .error .valueError :=
  ⟨rfl, rfl, rfl, rfl, rfl, rfl, rfl⟩

theorem length_padZip (f : β → β → β) (a b : List β) : (padZip f a b).length = max a.length b.length := by
  induction a generalizing b with
  | nil => simp [padZip]
  | cons x a ih =>
    cases b with
    | nil => simp [padZip]
    | cons y b => simp only [padZip, List.length_cons, ih]; omega

/-- `axis=0` of a jagged array: nothing is padded in — the result is as long as the LONGEST list -/
theorem c17a_jagged_axis0_length (add : α → α → α) (l : List (List α)) :
    (sumPos add l).length = (l.map List.length).foldr max 0 := by
  induction l with
  | nil => rfl
  | cons r l ih => simp only [sumPos, List.foldr_cons, List.map_cons, length_padZip] at ih ⊢; rw [ih]

theorem sum1_ind (p : α → Bool) (r : List α) : sum1 0 (· + ·) (r.map (ind p)) = (r.filter p).length := by
  induction r with
  | nil => rfl
  | cons x r ih =>
    simp only [sum1, List.map_cons, List.foldr_cons, List.filter_cons] at ih ⊢
    rw [ih]
    cases h : p x
    · simp [ind, h]
    · simp [ind, h]; omega

theorem sum1_ones (r : List α) : sum1 0 (· + ·) (r.map fun _ => 1) = r.length := by
  induction r with
  | nil => rfl
  | cons x r ih =>
    simp only [sum1, List.map_cons, List.foldr_cons, List.length_cons] at ih ⊢
    rw [ih]; omega

/-- `ak.count_nonzero(axis=-1)` / `ak.count(axis=-1)`: per list the number of non-zero vectors / of vectors; the first never exceeds the second -/
theorem c17a_jagged_count_nonzero (p : α → Bool) (l : List (List α)) :
    akCountNonzero p (some (-1)) false (.d2 l) = .ok (.d1 (l.map fun r => (r.filter p).length)) ∧
      akCount (some (-1)) false (.d2 l) = .ok (.d1 (l.map List.length)) ∧
      ∀ r ∈ l, (r.filter p).length ≤ r.length := by
  refine ⟨?_, ?_, fun r _ => List.length_filter_le p r⟩
  · show Except.ok (JRes.d1 ((l.map (·.map (ind p))).map (sum1 0 (· + ·)))) = _
    simp only [List.map_map, Function.comp_def, sum1_ind]
  · show Except.ok (JRes.d1 ((l.map (·.map fun _ => 1)).map (sum1 0 (· + ·)))) = _
    simp only [List.map_map, Function.comp_def, sum1_ones]

section cmonoid
variable (zero : α) (add : α → α → α) (hz : ∀ a, add zero a = a) (hz' : ∀ a, add a zero = a)
  (assoc : ∀ a b c, add (add a b) c = add a (add b c)) (comm : ∀ a b, add a b = add b a)
include hz hz' assoc comm

theorem sum1_padZip (a b : List α) : sum1 zero add (padZip add a b) = add (sum1 zero add a) (sum1 zero add b) := by
  induction a generalizing b with
  | nil => simp [padZip, sum1, hz]
  | cons x a ih =>
    cases b with
    | nil => simp [padZip, sum1, hz']
    | cons y b =>
      have := ih b
      simp only [sum1, padZip, List.foldr_cons] at this ⊢
      rw [this, assoc x y, assoc x, ← assoc y, comm y, assoc _ y]

theorem sum1_sumPos (l : List (List α)) : sum1 zero add (sumPos add l) = sum1 zero add l.flatten := by
  induction l with
  | nil => rfl
  | cons r l ih =>
    rw [List.flatten_cons, sum1_append zero add hz assoc, ← ih]
    exact sum1_padZip zero add hz hz' assoc comm r _

/-- `c17a_jagged_total`: `axis=None` is the sum of all elements, and so is the sum of the `axis=-1` sums and the sum of the `axis=0` sums -/
theorem c17a_jagged_total (l : List (List α)) :
    akSum zero add none false (.d2 l) = .ok (.d0 (sum1 zero add l.flatten)) ∧
      sum1 zero add (l.map (sum1 zero add)) = sum1 zero add l.flatten ∧
      sum1 zero add (sumPos add l) = sum1 zero add l.flatten :=
  ⟨rfl, (sum1_flatten zero add hz assoc l).symm, sum1_sumPos zero add hz hz' assoc comm l⟩

end cmonoid

/-! ### 6. each output element is the sum of exactly the input elements whose index agrees on the kept axes -/

theorem getD_row (zero : α) (d : List α) (a k r : Nat) (hr : r < k) :
    ((d.drop a).take k).getD r zero = d.getD (a + r) zero := by
  simp [List.getD_eq_getElem?_getD, List.getElem?_drop, hr]

theorem ravel_lt (sh is : List Nat) (h : ValidIdx sh is) : ravel sh is < prod sh := by
  induction sh generalizing is with
  | nil => cases is <;> simp_all [ValidIdx, ravel, prod]
  | cons n sh ih =>
    cases is with
    | nil => simp [ValidIdx] at h
    | cons i is =>
      obtain ⟨h1, h2⟩ := h
      have := ih is h2
      have h3 : (i + 1) * prod sh ≤ n * prod sh := Nat.mul_le_mul_right _ h1
      rw [Nat.succ_mul] at h3
      simp only [ravel, prod]
      omega

theorem valid_of_mem_allIdx (sh is : List Nat) (h : is ∈ allIdx sh) : ValidIdx sh is := by
  induction sh generalizing is with
  | nil => simp [allIdx] at h; subst h; trivial
  | cons n sh ih =>
    simp only [allIdx, List.mem_flatMap, List.mem_range, List.mem_map] at h
    obtain ⟨i, hi, is', his', rfl⟩ := h
    exact ⟨hi, ih is' his'⟩

theorem getD_flatten_uniform (zero : α) (q : Nat) (l : List (List α)) (h : ∀ r ∈ l, r.length = q) (j t : Nat) (ht : t < q) :
    l.flatten.getD (j * q + t) zero = (l.getD j []).getD t zero := by
  induction l generalizing j with
  | nil => simp
  | cons r l ih =>
    have h1 := h r List.mem_cons_self
    have h2 := fun r' hr' => h r' (List.mem_cons_of_mem _ hr')
    cases j with
    | zero =>
      simp only [List.flatten_cons, Nat.zero_mul, Nat.zero_add, List.getD_cons_zero]
      simp only [List.getD_eq_getElem?_getD]
      rw [List.getElem?_append_left (by omega)]
    | succ j =>
      simp only [List.flatten_cons, List.getD_cons_succ]
      rw [← ih h2 j]
      simp only [List.getD_eq_getElem?_getD]
      rw [List.getElem?_append_right (by rw [h1, Nat.succ_mul]; omega)]
      congr 2
      rw [h1, Nat.succ_mul]; omega

section element
variable (zero : α) (add : α → α → α) (hz : ∀ a, add zero a = a) (hz' : ∀ a, add a zero = a)
  (assoc : ∀ a b c, add (add a b) c = add a (add b c))

theorem getD_addRows (q : Nat) (rs : List (List α)) (h : ∀ r ∈ rs, r.length = q) (t : Nat) (ht : t < q) :
    (addRows zero add q rs).getD t zero = sum1 zero add (rs.map fun r => r.getD t zero) := by
  induction rs with
  | nil => simp [addRows, sum1, List.getD_eq_getElem?_getD, ht]
  | cons r rs ih =>
    have h1 := h r List.mem_cons_self
    have h2 := fun r' hr' => h r' (List.mem_cons_of_mem _ hr')
    have hl := length_addRows zero add q rs h2
    have ih' := ih h2
    simp only [addRows, List.foldr_cons, List.map_cons, sum1] at ih' hl ⊢
    rw [← ih']
    have ht1 : t < r.length := by omega
    have ht2 : t < (List.foldr (List.zipWith add) (List.replicate q zero) rs).length := by omega
    simp only [List.getD_eq_getElem?_getD]
    rw [List.getElem?_eq_getElem (by simp only [List.length_zipWith]; omega), List.getElem_zipWith,
      List.getElem?_eq_getElem ht1, List.getElem?_eq_getElem ht2]
    rfl

include hz assoc in
theorem sum1_flatMap_filter {γ δ : Type} (l : List γ) (F : γ → List δ) (P : δ → Bool) (g : δ → α) :
    sum1 zero add (((l.flatMap F).filter P).map g) = sum1 zero add (l.map fun i => sum1 zero add (((F i).filter P).map g)) := by
  induction l with
  | nil => rfl
  | cons x l ih =>
    rw [List.flatMap_cons, List.filter_append, List.map_append, sum1_append zero add hz assoc, ih]
    rfl

include hz hz' in
theorem sum1_pick (l : List Nat) (hl : l.Nodup) (j0 : Nat) (S : Nat → α) :
    sum1 zero add (l.map fun i => if i = j0 then S i else zero) = if j0 ∈ l then S j0 else zero := by
  induction l with
  | nil => rfl
  | cons x l ih =>
    have hn := List.nodup_cons.mp hl
    have ih' := ih hn.2
    simp only [sum1, List.map_cons, List.foldr_cons] at ih' ⊢
    rw [ih']
    by_cases hx : x = j0
    · subst hx
      simp [hn.1, hz']
    · have : ¬ j0 = x := fun e => hx e.symm
      simp [hx, this, hz]

include hz hz' assoc in
/-- the element theorem on masks -/
theorem red_element (sh : List Nat) (m : List Bool) (d : List α) (hd : d.length = prod sh) (js : List Nat)
    (hj : ValidIdx (outShape false sh m) js) :
    (red zero add sh m d).getD (ravel (outShape false sh m) js) zero
      = sum1 zero add (((allIdx sh).filter fun is => decide (keepProj m is = js)).map fun is => d.getD (ravel sh is) zero) := by
  induction sh generalizing m d js with
  | nil =>
    cases js with
    | nil => simp [red, allIdx, keepProj, ravel, sum1, hz']
    | cons j js => simp [outShape, ValidIdx] at hj
  | cons n sh ih =>
    have hd' : d.length = n * prod sh := by simpa [prod] using hd
    have hrows := mem_rows_length (k := prod sh) (n := n) (d := d) hd'
    -- the right-hand side, row by row
    have rhs : ∀ (P : List Nat → Bool),
        sum1 zero add (((allIdx (n :: sh)).filter P).map fun is => d.getD (ravel (n :: sh) is) zero)
          = sum1 zero add ((List.range n).map fun i => sum1 zero add
              (((allIdx sh).filter fun is => P (i :: is)).map fun is =>
                ((d.drop (i * prod sh)).take (prod sh)).getD (ravel sh is) zero)) := by
      intro P
      rw [allIdx, sum1_flatMap_filter zero add hz assoc]
      congr 1
      apply List.map_congr_left
      intro i _
      rw [List.filter_map, List.map_map]
      congr 1
      apply List.map_congr_left
      intro is his
      have := ravel_lt sh is (valid_of_mem_allIdx sh is (List.mem_filter.mp his).1)
      simp only [Function.comp, ravel]
      rw [getD_row zero d _ _ _ this]
    have hall : ∀ r ∈ (rows (prod sh) n d).map (red zero add sh m.tail), r.length = prod (outShape false sh m.tail) := by
      intro r hr
      simp only [List.mem_map] at hr
      obtain ⟨r0, hr0, rfl⟩ := hr
      exact length_red zero add sh m.tail r0 (hrows r0 hr0)
    rw [rhs]
    cases hm : m.headD false
    · -- the leading axis is kept
      simp only [outShape, hm, Bool.false_eq_true, if_false] at hj ⊢
      cases js with
      | nil => simp [ValidIdx] at hj
      | cons j0 js =>
        obtain ⟨hj0, hjs⟩ := hj
        have ht := ravel_lt _ _ hjs
        simp only [red, hm, Bool.false_eq_true, if_false, ravel]
        rw [getD_flatten_uniform zero _ _ hall j0 _ ht]
        have e : ∀ i, sum1 zero add (((allIdx sh).filter fun is => decide (keepProj m (i :: is) = j0 :: js)).map fun is =>
              ((d.drop (i * prod sh)).take (prod sh)).getD (ravel sh is) zero)
            = if i = j0 then (fun i => sum1 zero add (((allIdx sh).filter fun is => decide (keepProj m.tail is = js)).map fun is =>
              ((d.drop (i * prod sh)).take (prod sh)).getD (ravel sh is) zero)) i else zero := by
          intro i
          have hm' : m.head?.getD false = false := by simpa using hm
          by_cases hi : i = j0
          · simp [keepProj, hm', hi]
          · have hf : ∀ l : List (List Nat), l.filter (fun _ => false) = [] := fun l => List.filter_eq_nil_iff.mpr (by simp)
            simp [keepProj, hm', hi, sum1, hf]
        simp only [e]
        rw [sum1_pick zero add hz hz' _ List.nodup_range, if_pos (List.mem_range.mpr hj0)]
        have hr0 : ((rows (prod sh) n d).map (red zero add sh m.tail)).getD j0 []
            = red zero add sh m.tail ((d.drop (j0 * prod sh)).take (prod sh)) := by
          simp [rows, List.getD_eq_getElem?_getD, hj0]
        rw [hr0]
        exact ih m.tail _ (hrows _ (by simp only [rows, List.mem_map, List.mem_range]; exact ⟨j0, hj0, rfl⟩)) js hjs
    · -- the leading axis is reduced
      simp only [outShape, hm, if_true, Bool.false_eq_true, if_false] at hj ⊢
      have ht := ravel_lt _ _ hj
      simp only [red, hm, if_true]
      rw [getD_addRows zero add _ _ hall _ ht]
      simp only [rows, List.map_map]
      congr 1
      apply List.map_congr_left
      intro i hi
      simp only [Function.comp, keepProj, hm, if_true]
      exact ih m.tail _ (hrows _ (by simp only [rows, List.mem_map]; exact ⟨i, hi, rfl⟩)) js hj

include hz hz' assoc in
/-- `c17a_element`: the element of `numpy.sum(a, axis=axes)` at the multi-index `js` is the sum of exactly the elements of `a` whose
multi-index, with the reduced axes struck out, is `js` -/
theorem c17a_element (a : Arr α) (h : a.WF) (axes : List Nat) (js : List Nat)
    (hj : ValidIdx (reduceAxes zero add axes false a).shape js) :
    (reduceAxes zero add axes false a).get zero js
      = sum1 zero add (((allIdx a.shape).filter fun is => decide (keepProj (maskOf a.shape.length axes) is = js)).map (a.get zero)) :=
  red_element zero add hz hz' assoc a.shape _ a.data h js hj

end element

/-- the index bookkeeping on an instance: shape (2, 1, 3), axis 0 — output index (0, 2) collects the inputs (0, 0, 2) and (1, 0, 2) -/
example : (allIdx [2, 1, 3]).filter (fun is => decide (keepProj (maskOf 3 [0]) is = [0, 2])) = [[0, 0, 2], [1, 0, 2]] := by decide

/-! ### 7. reducing in two steps: first the axes `A`, then the image of `B` among the remaining axes = reducing over `A ∪ B` -/

theorem outShape_combine (sh : List Nat) (m1 m2 : List Bool) (h : m1.length = sh.length) :
    outShape false sh (combine m1 m2) = outShape false (outShape false sh m1) m2 := by
  induction sh generalizing m1 m2 with
  | nil => simp [outShape]
  | cons n sh ih =>
    cases m1 with
    | nil => simp at h
    | cons b m1 =>
      have h' : m1.length = sh.length := by simpa using h
      cases b
      · cases hm : m2.headD false <;>
          simp only [combine, outShape, List.headD_cons, List.tail_cons, hm, Bool.false_eq_true, if_false, if_true, ih m1 m2.tail h']
      · simp only [combine, outShape, List.headD_cons, List.tail_cons, if_true, Bool.false_eq_true, if_false, ih m1 m2 h']

theorem rows_flatten (q : Nat) (L : List (List α)) (hL : ∀ r ∈ L, r.length = q) : rows q L.length L.flatten = L := by
  induction L with
  | nil => simp [rows]
  | cons r L ih =>
    have h1 := hL r List.mem_cons_self
    have h2 := ih fun r' hr' => hL r' (List.mem_cons_of_mem _ hr')
    have e : rows q (L.length + 1) (r ++ L.flatten) = r :: rows q L.length L.flatten := by
      simp only [rows, List.range_succ_eq_map, List.map_cons, List.map_map, Nat.zero_mul, List.drop_zero, List.take_left' h1]
      congr 1
      apply List.map_congr_left
      intro i _
      simp only [Function.comp, Nat.succ_mul]
      rw [Nat.add_comm, ← List.drop_drop, List.drop_left' h1]
    rw [List.length_cons, List.flatten_cons, e, h2]

section compose
variable (zero : α) (add : α → α → α) (hz : ∀ a, add zero a = a)
  (assoc : ∀ a b c, add (add a b) c = add a (add b c)) (comm : ∀ a b, add a b = add b a)

include assoc comm in
theorem medial (a b c d : α) : add (add a b) (add c d) = add (add a c) (add b d) := by
  rw [assoc a b, assoc a c, ← assoc b c d, comm b c, assoc c b d]

include hz assoc comm

/-- the reduction is additive -/
theorem red_zipWith (sh : List Nat) (m : List Bool) (a b : List α) (hab : a.length = b.length) :
    red zero add sh m (List.zipWith add a b) = List.zipWith add (red zero add sh m a) (red zero add sh m b) := by
  let addP : α × α → α × α → α × α := fun p q => (add p.1 q.1, add p.2 q.2)
  have e1 : List.zipWith add a b = (a.zip b).map (fun p => add p.1 p.2) := by
    rw [List.map_zip_eq_zipWith]; rfl
  have hf : (red (zero, zero) addP sh m (a.zip b)).map Prod.fst = red zero add sh m a := by
    rw [red_hom (zero, zero) addP zero add Prod.fst rfl (fun _ _ => rfl), List.map_fst_zip (by omega)]
  have hs : (red (zero, zero) addP sh m (a.zip b)).map Prod.snd = red zero add sh m b := by
    rw [red_hom (zero, zero) addP zero add Prod.snd rfl (fun _ _ => rfl), List.map_snd_zip (by omega)]
  rw [e1, ← red_hom (zero, zero) addP zero add (fun p => add p.1 p.2) (hz zero)
    (fun p q => medial add assoc comm p.1 q.1 p.2 q.2), ← hf, ← hs, List.zipWith_map, List.zipWith_self]

omit assoc comm in
theorem red_replicate_zero (sh : List Nat) (m : List Bool) :
    red zero add sh m (List.replicate (prod sh) zero) = List.replicate (prod (outShape false sh m)) zero := by
  have e : List.replicate (prod sh) zero = (List.replicate (prod sh) ()).map (fun _ => zero) := by simp
  have hl := length_red () (fun _ _ => ()) sh m (List.replicate (prod sh) ()) (by simp)
  rw [e, ← red_hom () (fun _ _ => ()) zero add (fun _ => zero) rfl (fun _ _ => (hz zero).symm),
    show red () (fun _ _ => ()) sh m (List.replicate (prod sh) ()) = List.replicate (prod (outShape false sh m)) ()
      from List.eq_replicate_iff.mpr ⟨hl, fun _ _ => rfl⟩]
  simp

theorem red_addRows (sh : List Nat) (m : List Bool) (L : List (List α)) (hL : ∀ r ∈ L, r.length = prod sh) :
    red zero add sh m (addRows zero add (prod sh) L)
      = addRows zero add (prod (outShape false sh m)) (L.map (red zero add sh m)) := by
  induction L with
  | nil => exact red_replicate_zero zero add hz sh m
  | cons r L ih =>
    have h1 := hL r List.mem_cons_self
    have h2 := fun r' hr' => hL r' (List.mem_cons_of_mem _ hr')
    have hl := length_addRows zero add (prod sh) L h2
    have ih' := ih h2
    simp only [addRows, List.foldr_cons, List.map_cons] at ih' hl ⊢
    rw [red_zipWith zero add hz assoc comm sh m _ _ (by omega), ih']

/-- the composition theorem on masks -/
theorem red_compose (sh : List Nat) (m1 m2 : List Bool) (d : List α) (hd : d.length = prod sh) (h : m1.length = sh.length) :
    red zero add (outShape false sh m1) m2 (red zero add sh m1 d) = red zero add sh (combine m1 m2) d := by
  induction sh generalizing m1 m2 d with
  | nil => simp [red, outShape]
  | cons n sh ih =>
    cases m1 with
    | nil => simp at h
    | cons b m1 =>
      have h' : m1.length = sh.length := by simpa using h
      have hd' : d.length = n * prod sh := by simpa [prod] using hd
      have hrows := mem_rows_length (k := prod sh) (n := n) (d := d) hd'
      have hall : ∀ r ∈ (rows (prod sh) n d).map (red zero add sh m1), r.length = prod (outShape false sh m1) := by
        intro r hr
        simp only [List.mem_map] at hr
        obtain ⟨r0, hr0, rfl⟩ := hr
        exact length_red zero add sh m1 r0 (hrows r0 hr0)
      have step : ∀ m2', ((rows (prod sh) n d).map (red zero add sh m1)).map (red zero add (outShape false sh m1) m2')
          = (rows (prod sh) n d).map (red zero add sh (combine m1 m2')) := by
        intro m2'
        rw [List.map_map]
        apply List.map_congr_left
        intro r hr
        exact ih m1 m2' r (hrows r hr) h'
      cases b
      · -- the leading axis survives the first step
        have hlen : ((rows (prod sh) n d).map (red zero add sh m1)).length = n := by simp [length_rows]
        have hrf := rows_flatten _ _ hall
        rw [hlen] at hrf
        simp only [combine, red, outShape, List.headD_cons, List.tail_cons, Bool.false_eq_true, if_false, hrf, step,
          outShape_combine sh m1 m2.tail h']
      · -- the leading axis is reduced in the first step
        simp only [combine, red, outShape, List.headD_cons, List.tail_cons, if_true, Bool.false_eq_true, if_false]
        rw [red_addRows zero add hz assoc comm _ m2 _ hall, step, outShape_combine sh m1 m2 h']

/-- `c17a_axes_compose`: summing over the axes `m1`, then over the axes `m2` of the result, is summing over both at once -/
theorem c17a_axes_compose (a : Arr α) (h : a.WF) (m1 m2 : List Bool) (h1 : m1.length = a.shape.length) :
    reduceMask zero add m2 false (reduceMask zero add m1 false a) = reduceMask zero add (combine m1 m2) false a := by
  simp only [reduceMask, Arr.mk.injEq]
  exact ⟨(outShape_combine _ _ _ h1).symm, red_compose zero add hz assoc comm _ _ _ _ h h1⟩

end compose

/-- first axis 0 of three, then axis 1 of the remaining two (originally axis 2) = axes 0 and 2 -/
example : combine [true, false, false] [false, true] = [true, false, true] := by decide
example : (reduceMask (0 : Int) (· + ·) [false, true] false (reduceMask 0 (· + ·) [true, false, false] false ⟨[2, 1, 3], [1, 2, 3, 4, 5, 6]⟩)).data
    = (reduceAxes 0 (· + ·) [0, 2] false ⟨[2, 1, 3], [1, 2, 3, 4, 5, 6]⟩).data := by decide

/-! ### 8. the link to `Props/C17`: with the Cartesian components (the generated accessors) as elements and component-wise
addition, the reduction over ALL axes is `sum2/3/4` of the flat list, and the reduction over ANY axes is, position by position,
`sum2/3/4` of the group of stored elements the position covers — so every theorem of `Props/C17` about `sum2/3/4` (`c17_sum4`: the
denotation of the result is the sum of the denotations, `_perm`, `_append`, `_flatten`) applies to every axis. -/

section link
open VR VK Spec

/-- the Cartesian components `(a.x, a.y[, a.z[, a.t]])` of a stored element, by the generated accessors -/
noncomputable def cart2of (k0 : Az) (v : ℝ × ℝ) : ℝ × ℝ := (planar_x.eval k0 v.1 v.2, planar_y.eval k0 v.1 v.2)
noncomputable def cart3of (k0 : Az) (k1 : Lon) (v : ℝ × ℝ × ℝ) : ℝ × ℝ × ℝ :=
  (planar_x.eval k0 v.1 v.2.1, planar_y.eval k0 v.1 v.2.1, spatial_z.eval k0 k1 v.1 v.2.1 v.2.2)
noncomputable def cart4of (k0 : Az) (k1 : Lon) (k2 : Tmp) (v : ℝ × ℝ × ℝ × ℝ) : ℝ × ℝ × ℝ × ℝ :=
  (planar_x.eval k0 v.1 v.2.1, planar_y.eval k0 v.1 v.2.1, spatial_z.eval k0 k1 v.1 v.2.1 v.2.2.1,
    lorentz_t.eval k0 k1 k2 v.1 v.2.1 v.2.2.1 v.2.2.2)

theorem add2_zero_left (a : ℝ × ℝ) : add2 (0, 0) a = a := by simp [add2]
theorem add2_zero_right (a : ℝ × ℝ) : add2 a (0, 0) = a := by simp [add2]
theorem add2_assoc (a b c : ℝ × ℝ) : add2 (add2 a b) c = add2 a (add2 b c) := by simp [add2, add_assoc]
theorem add2_comm (a b : ℝ × ℝ) : add2 a b = add2 b a := by simp [add2, add_comm]
theorem add3_zero_left (a : ℝ × ℝ × ℝ) : add3 (0, 0, 0) a = a := by simp [add3]
theorem add3_zero_right (a : ℝ × ℝ × ℝ) : add3 a (0, 0, 0) = a := by simp [add3]
theorem add3_assoc (a b c : ℝ × ℝ × ℝ) : add3 (add3 a b) c = add3 a (add3 b c) := by simp [add3, add_assoc]
theorem add3_comm (a b : ℝ × ℝ × ℝ) : add3 a b = add3 b a := by simp [add3, add_comm]
theorem add4_zero_left (a : ℝ × ℝ × ℝ × ℝ) : add4 (0, 0, 0, 0) a = a := by simp [add4]
theorem add4_zero_right (a : ℝ × ℝ × ℝ × ℝ) : add4 a (0, 0, 0, 0) = a := by simp [add4]
theorem add4_assoc (a b c : ℝ × ℝ × ℝ × ℝ) : add4 (add4 a b) c = add4 a (add4 b c) := by simp [add4, add_assoc]
theorem add4_comm (a b : ℝ × ℝ × ℝ × ℝ) : add4 a b = add4 b a := by simp [add4, add_comm]

theorem sum1_cart2 (k0 : Az) (vs : List (ℝ × ℝ)) : sum1 (0, 0) add2 (vs.map (cart2of k0)) = sum2 k0 vs := by
  induction vs with
  | nil => exact (c17_sum2_nil k0).symm
  | cons v vs ih => rw [c17_sum2_cons, ← ih]; rfl
theorem sum1_cart3 (k0 : Az) (k1 : Lon) (vs : List (ℝ × ℝ × ℝ)) : sum1 (0, 0, 0) add3 (vs.map (cart3of k0 k1)) = sum3 k0 k1 vs := by
  induction vs with
  | nil => exact (c17_sum3_nil k0 k1).symm
  | cons v vs ih => rw [c17_sum3_cons, ← ih]; rfl
theorem sum1_cart4 (k0 : Az) (k1 : Lon) (k2 : Tmp) (vs : List (ℝ × ℝ × ℝ × ℝ)) :
    sum1 (0, 0, 0, 0) add4 (vs.map (cart4of k0 k1 k2)) = sum4 k0 k1 k2 vs := by
  induction vs with
  | nil => exact (c17_sum4_nil k0 k1 k2).symm
  | cons v vs ih => rw [c17_sum4_cons, ← ih]; rfl

/-- `c17a_flat_agrees`: `numpy.sum(a)` (all axes) of an array of ANY shape is `Props/C17`'s `sum4` (`sum3`, `sum2`) of its flat list -/
theorem c17a_flat_agrees (k0 : Az) (k1 : Lon) (k2 : Tmp) (sh : List Nat) (vs : List (ℝ × ℝ × ℝ × ℝ)) (h : vs.length = prod sh) :
    sumArr (0, 0, 0, 0) add4 .none false ⟨sh, vs.map (cart4of k0 k1 k2)⟩ = .ok ⟨[], [sum4 k0 k1 k2 vs]⟩ := by
  rw [(c17a_total (0, 0, 0, 0) add4 add4_zero_left add4_zero_right add4_assoc ⟨sh, vs.map (cart4of k0 k1 k2)⟩
    (by simpa [Arr.WF] using h)).1, sum1_cart4]
theorem c17a_flat_agrees3 (k0 : Az) (k1 : Lon) (sh : List Nat) (vs : List (ℝ × ℝ × ℝ)) (h : vs.length = prod sh) :
    sumArr (0, 0, 0) add3 .none false ⟨sh, vs.map (cart3of k0 k1)⟩ = .ok ⟨[], [sum3 k0 k1 vs]⟩ := by
  rw [(c17a_total (0, 0, 0) add3 add3_zero_left add3_zero_right add3_assoc ⟨sh, vs.map (cart3of k0 k1)⟩
    (by simpa [Arr.WF] using h)).1, sum1_cart3]
theorem c17a_flat_agrees2 (k0 : Az) (sh : List Nat) (vs : List (ℝ × ℝ)) (h : vs.length = prod sh) :
    sumArr (0, 0) add2 .none false ⟨sh, vs.map (cart2of k0)⟩ = .ok ⟨[], [sum2 k0 vs]⟩ := by
  rw [(c17a_total (0, 0) add2 add2_zero_left add2_zero_right add2_assoc ⟨sh, vs.map (cart2of k0)⟩
    (by simpa [Arr.WF] using h)).1, sum1_cart2]

/-- `c17a_axis_agrees`: for EVERY axis set and `keepdims`, the sum is — position by position — `sum4` of the group of stored elements
that the position covers (`groupsArr`, characterised by `c17a_element` at the free monoid) -/
theorem c17a_axis_agrees (k0 : Az) (k1 : Lon) (k2 : Tmp) (axes : List Nat) (kd : Bool) (a : Arr (ℝ × ℝ × ℝ × ℝ)) :
    reduceAxes (0, 0, 0, 0) add4 axes kd (a.map (cart4of k0 k1 k2)) = (groupsArr axes kd a).map (sum4 k0 k1 k2) := by
  simp only [groupsArr, reduceAxes, reduceMask, Arr.map, Arr.mk.injEq, true_and]
  rw [red_hom [] (· ++ ·) (0, 0, 0, 0) add4 (sum4 k0 k1 k2) (c17_sum4_nil k0 k1 k2) (c17_sum4_append k0 k1 k2), List.map_map]
  congr 1
  apply List.map_congr_left
  intro v _
  simp only [Function.comp, c17_sum4_cons, c17_sum4_nil, add4_zero_right, cart4of]
theorem c17a_axis_agrees3 (k0 : Az) (k1 : Lon) (axes : List Nat) (kd : Bool) (a : Arr (ℝ × ℝ × ℝ)) :
    reduceAxes (0, 0, 0) add3 axes kd (a.map (cart3of k0 k1)) = (groupsArr axes kd a).map (sum3 k0 k1) := by
  simp only [groupsArr, reduceAxes, reduceMask, Arr.map, Arr.mk.injEq, true_and]
  rw [red_hom [] (· ++ ·) (0, 0, 0) add3 (sum3 k0 k1) (c17_sum3_nil k0 k1) (c17_sum3_append k0 k1), List.map_map]
  congr 1
  apply List.map_congr_left
  intro v _
  simp only [Function.comp, c17_sum3_cons, c17_sum3_nil, add3_zero_right, cart3of]
theorem c17a_axis_agrees2 (k0 : Az) (axes : List Nat) (kd : Bool) (a : Arr (ℝ × ℝ)) :
    reduceAxes (0, 0) add2 axes kd (a.map (cart2of k0)) = (groupsArr axes kd a).map (sum2 k0) := by
  simp only [groupsArr, reduceAxes, reduceMask, Arr.map, Arr.mk.injEq, true_and]
  rw [red_hom [] (· ++ ·) (0, 0) add2 (sum2 k0) (c17_sum2_nil k0) (c17_sum2_append k0), List.map_map]
  congr 1
  apply List.map_congr_left
  intro v _
  simp only [Function.comp, c17_sum2_cons, c17_sum2_nil, add2_zero_right, cart2of]

end link

end VRed
