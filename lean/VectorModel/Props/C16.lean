/-
Property C16 — "operations never modify their operands".

In the glue model every operation is a FUNCTION that returns a new value: `dispatch`, `getAcc`, `scaleN`, `binary`,
`toDim`, `toSystem`, `call`, `operator` have result type `Except Err (Res S B)` / `Except Err (Vec S)` — there is no
state in their output at all, so "the operands are not modified" is true BY CONSTRUCTION of the model (the
correspondence harness, which compares the model with the real objects before and after each call, is what ties this
to the code).  The theorems `c16_functions` and `c16_operand_not_in_output` below only spell that out and are
trivial (`rfl`).  The one operation WITH a state output is `step` (coordinate assignment and the in-place operators of
the object backend); the non-trivial statement is `c16_step_frame`: the state of the object changes only in a
successful assignment to a coordinate or a successful in-place operator — never in a read-only / plain-attribute
assignment, never when the step raises — and then only the object itself (`self`), never the other operand.
All statements hold for ALL `S B ev K A`.
-/
import VectorModel.Glue.Methods

set_option linter.unusedVariables false
set_option linter.constructorNameAsVariable false
namespace VG
open VK

section
variable {S B : Type}

/-- (trivial) the functional operations are functions of their operands: evaluating twice — before and after any other
evaluation — gives equal results.  True by `rfl`: the model has no hidden state they could read or write. -/
theorem c16_functions (ev : Ev S B) (K : Consts S) (m : ModuleId) (sc extra : List S) (ord : Option Ord)
    (ops counted : List (Vec S)) (b : Bin) (self o : Vec S) (zeroF : S) (n : Nat) (lk : List (Lon × S))
    (tk : List (Tmp × S)) (ok : Nat) (az : Az) (lon : Option Lon) (tmp : Option Tmp) (kl kt : Option S) :
    let r1 := (dispatch ev m sc ord ops counted, binary ev K b self o extra, toDim zeroF n self lk tk ok,
      toSystem ev zeroF self az lon tmp kl kt)
    let r2 := (dispatch ev m sc ord ops counted, binary ev K b self o extra, toDim zeroF n self lk tk ok,
      toSystem ev zeroF self az lon tmp kl kt)
    r1 = r2 := rfl

/-- (trivial) a "world" holding the two operands of a binary method: the method's effect on the world is the
identity — the only thing it produces is its result.  `callBinary` threads the world through the call the only way the
model's types allow. -/
def callBinary (ev : Ev S B) (K : Consts S) (b : Bin) (extra : List S) (w : Vec S × Vec S) :
    (Vec S × Vec S) × Except Err (Res S B) := (w, binary ev K b w.1 w.2 extra)

theorem c16_operand_not_in_output (ev : Ev S B) (K : Consts S) (b : Bin) (extra : List S) (w : Vec S × Vec S) :
    (callBinary ev K b extra w).1 = w ∧
      (callBinary ev K b extra (callBinary ev K b extra w).1).2 = (callBinary ev K b extra w).2 := ⟨rfl, rfl⟩

/-- the mutating steps: assignment to a coordinate name, in-place operators -/
def Step.mutating : Step S → Bool
  | .set _ _ | .iopV _ _ | .iopS _ _ => true
  | .setReadOnly | .setOther => false

/-- FRAME property of the only stateful operation: if `step` changes the state of the object, the step was a coordinate
assignment or an in-place operator, and it did not raise -/
theorem c16_step_frame {ev : Ev S B} {K : Consts S} {A : Arith S} {v : Vec S} {st : Step S}
    (h : (step ev K A v st).1 ≠ v) : st.mutating = true ∧ (step ev K A v st).2 = none := by
  cases hs : stepE ev K A v st with
  | error e => simp [step, hs] at h
  | ok v' =>
    refine ⟨?_, by simp [step, hs]⟩
    cases st with
    | setReadOnly => simp [stepE] at hs
    | setOther => simp [stepE] at hs; subst hs; simp [step, stepE] at h
    | set c a => rfl
    | iopV op o => rfl
    | iopS op f => rfl

/-- contrapositive, per case: a step that raises, an assignment to a read-only property or to any other attribute
name, and the ill-typed in-place operators (`*=`, `/=` with a vector, `+=`, `-=` with a scalar) leave the object as it was -/
theorem c16_step_unchanged (ev : Ev S B) (K : Consts S) (A : Arith S) (v o : Vec S) (f : S) :
    (∀ st e, (step ev K A v st).2 = some e → (step ev K A v st).1 = v) ∧
    (step ev K A v .setReadOnly).1 = v ∧ (step ev K A v .setOther).1 = v ∧
    (step ev K A v (.iopV .mul o)).1 = v ∧ (step ev K A v (.iopV .div o)).1 = v ∧
    (step ev K A v (.iopS .add f)).1 = v ∧ (step ev K A v (.iopS .sub f)).1 = v := by
  refine ⟨?_, rfl, rfl, rfl, rfl, rfl, rfl⟩
  intro st e h
  cases hs : stepE ev K A v st with
  | error e' => simp [step, hs]
  | ok v' => simp [step, hs] at h

/-- whole histories: without a mutating step the object never changes -/
theorem c16_runFinal_frame (ev : Ev S B) (K : Consts S) (A : Arith S) :
    ∀ (steps : List (Step S)) (v : Vec S), (∀ st ∈ steps, st.mutating = false) → runFinal ev K A v steps = v
  | [], v, _ => rfl
  | st :: rest, v, h => by
    have h1 : (step ev K A v st).1 = v := by
      have hm : st.mutating = false := h st (by simp)
      cases st <;> first | rfl | simp [Step.mutating] at hm
    rw [runFinal, h1]
    exact c16_runFinal_frame ev K A rest v (fun s hs => h s (by simp [hs]))

/-- the OTHER operand of an in-place operator is an input only: the step's output is the new state of `self` and the
error, and `self` is updated from the FUNCTIONAL result computed on the old `self` and `o` (so even `v += v` reads the
old value on both sides) -/
theorem c16_iop_reads_old (ev : Ev S B) (K : Consts S) (A : Arith S) (v o : Vec S) (r : Vec S)
    (h : binary ev K .add v o [] = .ok (.vec r)) :
    stepE ev K A v (.iopV .add o) = replaceData ev v r := by
  simp [stepE, iopResult, h]

end
end VG
