/-
Regular refinement: for EVERY compute module `<m>` (82 modules) one theorem

    regular_<m> : <m>.evalDom keys… args…  ∧  <conclusion of the module's main refinement theorem>

under the UNION of the hypotheses of the refinement theorem (`refine_<m>` / `refine_<m>_spec` / `refine_<m>_interp`,
`c12_…_isclose_same`, `c13_…_iff…`) and of the regularity theorem (`dom_<m>` / `dom_<m>_partial`).  On these hypotheses the
real code applies no partial primitive (`/`, `sqrt`, `tan`, `log`, `arccos`, `%`, `**`) at a singular point AND the value
it computes is the specified one: the refinement statement does not hold "by accident" through Lean's totalised
arithmetic (`x / 0 = 0`, `tan (π/2) = 0`, …).  Each proof is `⟨dom_…, refine_…⟩`; no new mathematics.

The table at the end of the file lists, per module, what regularity needed beyond the refinement hypotheses.
-/
import VectorModel.Dom.Basic
import VectorModel.Dom.Planar
import VectorModel.Dom.SpatialBin
import VectorModel.Dom.SpatialRot
import VectorModel.Dom.LorentzAcc
import VectorModel.Dom.LorentzBin
import VectorModel.Dom.LorentzBoost
import VectorModel.Refine.Planar
import VectorModel.Refine.SpatialZ
import VectorModel.Refine.SpatialAcc
import VectorModel.Refine.SpatialBin
import VectorModel.Refine.SpatialRot
import VectorModel.Refine.LorentzAcc
import VectorModel.Refine.LorentzBin
import VectorModel.Refine.Equal
import VectorModel.Props.C12
import VectorModel.Props.C13

namespace VR
open VK Spec Real

/-! ## planar (19 modules) -/

theorem regular_planar_x (k : Az) (a b : ℝ) :
    planar_x.evalDom k a b ∧ planar_x.eval k a b = xOf k a b :=
  ⟨dom_planar_x k a b, refine_planar_x k a b⟩

theorem regular_planar_y (k : Az) (a b : ℝ) :
    planar_y.evalDom k a b ∧ planar_y.eval k a b = yOf k a b :=
  ⟨dom_planar_y k a b, refine_planar_y k a b⟩

theorem regular_planar_rho (k : Az) (a b : ℝ) :
    planar_rho.evalDom k a b ∧ planar_rho.eval k a b = rhoOf k a b :=
  ⟨dom_planar_rho k a b, refine_planar_rho k a b⟩

theorem regular_planar_rho2 (k : Az) (a b : ℝ) :
    planar_rho2.evalDom k a b ∧ planar_rho2.eval k a b = xOf k a b ^ 2 + yOf k a b ^ 2 :=
  ⟨dom_planar_rho2 k a b, refine_planar_rho2 k a b⟩

theorem regular_planar_phi (k : Az) (a b : ℝ) (h : 0 < rhoOf k a b) (hp : CanonPhi k a b) :
    planar_phi.evalDom k a b ∧ planar_phi.eval k a b = P.arctan2 (yOf k a b) (xOf k a b) :=
  ⟨dom_planar_phi k a b h hp, refine_planar_phi k a b h hp⟩

theorem regular_planar_dot (k0 k1 : Az) (a0 a1 a2 a3 : ℝ) :
    planar_dot.evalDom k0 k1 a0 a1 a2 a3 ∧
    planar_dot.eval k0 k1 a0 a1 a2 a3 = dot2 (cart2 k0 a0 a1) (cart2 k1 a2 a3) :=
  ⟨dom_planar_dot k0 k1 a0 a1 a2 a3, refine_planar_dot k0 k1 a0 a1 a2 a3⟩

theorem regular_planar_add (k0 k1 : Az) (a0 a1 a2 a3 : ℝ) :
    planar_add.evalDom k0 k1 a0 a1 a2 a3 ∧
    interp2 (planar_add.ret k0 k1) (planar_add.eval k0 k1 a0 a1 a2 a3)
      = some (add2 (cart2 k0 a0 a1) (cart2 k1 a2 a3)) :=
  ⟨dom_planar_add k0 k1 a0 a1 a2 a3, refine_planar_add k0 k1 a0 a1 a2 a3⟩

theorem regular_planar_subtract (k0 k1 : Az) (a0 a1 a2 a3 : ℝ) :
    planar_subtract.evalDom k0 k1 a0 a1 a2 a3 ∧
    interp2 (planar_subtract.ret k0 k1) (planar_subtract.eval k0 k1 a0 a1 a2 a3)
      = some (sub2 (cart2 k0 a0 a1) (cart2 k1 a2 a3)) :=
  ⟨dom_planar_subtract k0 k1 a0 a1 a2 a3, refine_planar_subtract k0 k1 a0 a1 a2 a3⟩

theorem regular_planar_scale (k : Az) (f a b : ℝ) :
    planar_scale.evalDom k f a b ∧
    interp2 (planar_scale.ret k) (planar_scale.eval k f a b) = some (smul2 f (cart2 k a b)) :=
  ⟨dom_planar_scale k f a b, refine_planar_scale k f a b⟩

theorem regular_planar_rotateZ (k : Az) (ang a b : ℝ) :
    planar_rotateZ.evalDom k ang a b ∧
    interp2 (planar_rotateZ.ret k) (planar_rotateZ.eval k ang a b) = some (rotZ2 ang (cart2 k a b)) :=
  ⟨dom_planar_rotateZ k ang a b, refine_planar_rotateZ k ang a b⟩

theorem regular_planar_transform2D (k : Az) (xx xy yx yy a b : ℝ) :
    planar_transform2D.evalDom k xx xy yx yy a b ∧
    interp2 (planar_transform2D.ret k) (planar_transform2D.eval k xx xy yx yy a b)
      = some (xx * xOf k a b + xy * yOf k a b, yx * xOf k a b + yy * yOf k a b) :=
  ⟨dom_planar_transform2D k xx xy yx yy a b, refine_planar_transform2D k xx xy yx yy a b⟩

theorem regular_planar_unit (k : Az) (a b : ℝ) (h : 0 < rhoOf k a b) :
    planar_unit.evalDom k a b ∧
    interp2 (planar_unit.ret k) (planar_unit.eval k a b)
      = some (xOf k a b / rhoOf k a b, yOf k a b / rhoOf k a b) :=
  ⟨dom_planar_unit k a b h, refine_planar_unit k a b h⟩

theorem regular_planar_deltaphi (k0 k1 : Az) (a0 a1 a2 a3 : ℝ) :
    planar_deltaphi.evalDom k0 k1 a0 a1 a2 a3 ∧
    (let d := planar_deltaphi.eval k0 k1 a0 a1 a2 a3
     (-π ≤ d ∧ d < π) ∧ ∃ n : ℤ, d = planar_phi.eval k0 a0 a1 - planar_phi.eval k1 a2 a3 - n * (2 * π)) :=
  ⟨dom_planar_deltaphi k0 k1 a0 a1 a2 a3, refine_planar_deltaphi k0 k1 a0 a1 a2 a3⟩

theorem regular_planar_equal (k0 k1 : Az) (a0 a1 a2 a3 : ℝ) (h : planar_equal.eval k0 k1 a0 a1 a2 a3) :
    planar_equal.evalDom k0 k1 a0 a1 a2 a3 ∧ cart2 k0 a0 a1 = cart2 k1 a2 a3 :=
  ⟨dom_planar_equal k0 k1 a0 a1 a2 a3 h, refine_planar_equal k0 k1 a0 a1 a2 a3 h⟩

theorem regular_planar_not_equal (k0 k1 : Az) (a0 a1 a2 a3 : ℝ) (h : ¬ cart2 k0 a0 a1 = cart2 k1 a2 a3) :
    planar_not_equal.evalDom k0 k1 a0 a1 a2 a3 ∧ planar_not_equal.eval k0 k1 a0 a1 a2 a3 :=
  ⟨dom_planar_not_equal k0 k1 a0 a1 a2 a3 h, refine_planar_not_equal k0 k1 a0 a1 a2 a3 h⟩

/-- same-system characterisation (`c12_planar_isclose_same`) -/
theorem regular_planar_isclose (k : Az) (r t e a0 a1 b0 b1 : ℝ) :
    planar_isclose.evalDom k k r t e a0 a1 b0 b1 ∧
    (planar_isclose.eval k k r t e a0 a1 b0 b1 ↔
      (|a0 - b0| ≤ t + r * |b0| ∧ |a1 - b1| ≤ t + r * |b1|)) :=
  ⟨dom_planar_isclose k k r t e a0 a1 b0 b1, c12_planar_isclose_same k r t e a0 a1 b0 b1⟩

theorem regular_planar_is_parallel (k0 k1 : Az) (tol a0 a1 b0 b1 : ℝ) :
    planar_is_parallel.evalDom k0 k1 tol a0 a1 b0 b1 ∧
    (planar_is_parallel.eval k0 k1 tol a0 a1 b0 b1 ↔
      planar_dot.eval k0 k1 a0 a1 b0 b1 > (1 - |tol|) * planar_rho.eval k0 a0 a1 * planar_rho.eval k1 b0 b1) :=
  ⟨dom_planar_is_parallel k0 k1 tol a0 a1 b0 b1, c13_planar_is_parallel_iff k0 k1 tol a0 a1 b0 b1⟩

theorem regular_planar_is_antiparallel (k0 k1 : Az) (tol a0 a1 b0 b1 : ℝ) :
    planar_is_antiparallel.evalDom k0 k1 tol a0 a1 b0 b1 ∧
    (planar_is_antiparallel.eval k0 k1 tol a0 a1 b0 b1 ↔
      planar_dot.eval k0 k1 a0 a1 b0 b1 < (|tol| - 1) * planar_rho.eval k0 a0 a1 * planar_rho.eval k1 b0 b1) :=
  ⟨dom_planar_is_antiparallel k0 k1 tol a0 a1 b0 b1, c13_planar_is_antiparallel_iff k0 k1 tol a0 a1 b0 b1⟩

theorem regular_planar_is_perpendicular (k0 k1 : Az) (tol a0 a1 b0 b1 : ℝ) :
    planar_is_perpendicular.evalDom k0 k1 tol a0 a1 b0 b1 ∧
    (planar_is_perpendicular.eval k0 k1 tol a0 a1 b0 b1 ↔
      |planar_dot.eval k0 k1 a0 a1 b0 b1| < |tol| * planar_rho.eval k0 a0 a1 * planar_rho.eval k1 b0 b1) :=
  ⟨dom_planar_is_perpendicular k0 k1 tol a0 a1 b0 b1, c13_planar_is_perpendicular_iff k0 k1 tol a0 a1 b0 b1⟩

/-- non-vacuity (`regular_planar_phi`, polar storage `ρ = 2, φ = 1`) -/
example : 0 < rhoOf .rhophi 2 1 ∧ CanonPhi .rhophi 2 1 :=
  ⟨by norm_num [rhoOf], by linarith [Real.pi_pos], by linarith [Real.two_le_pi]⟩

/-! ## spatial accessors (7 modules) -/

theorem regular_spatial_z (k0 : Az) (k1 : Lon) (a b c : ℝ) (h : TanOK k1 c) (hs : SinOK k1 c) :
    spatial_z.evalDom k0 k1 a b c ∧ spatial_z.eval k0 k1 a b c = zOf k0 k1 a b c :=
  ⟨dom_spatial_z_partial k0 k1 a b c h hs, refine_spatial_z k0 k1 a b c h⟩

theorem regular_spatial_mag2 (k0 : Az) (k1 : Lon) (a b c : ℝ) (h : SinOK k1 c) :
    spatial_mag2.evalDom k0 k1 a b c ∧ spatial_mag2.eval k0 k1 a b c = mag2Of k0 k1 a b c :=
  ⟨dom_spatial_mag2 k0 k1 a b c h, refine_spatial_mag2 k0 k1 a b c h⟩

theorem regular_spatial_mag (k0 : Az) (k1 : Lon) (a b c : ℝ) (h2 : Canon2 k0 a b) (h : SinOK k1 c) :
    spatial_mag.evalDom k0 k1 a b c ∧ spatial_mag.eval k0 k1 a b c = sqrt (mag2Of k0 k1 a b c) :=
  ⟨dom_spatial_mag k0 k1 a b c h2 h, refine_spatial_mag k0 k1 a b c h2 h⟩

theorem regular_spatial_costheta (k0 : Az) (k1 : Lon) (a b c : ℝ) (h : Canon3 k0 k1 a b c)
    (hm : 0 < mag2Of k0 k1 a b c) :
    spatial_costheta.evalDom k0 k1 a b c ∧
    spatial_costheta.eval k0 k1 a b c = zOf k0 k1 a b c / sqrt (mag2Of k0 k1 a b c) :=
  ⟨dom_spatial_costheta k0 k1 a b c h hm, refine_spatial_costheta k0 k1 a b c h hm⟩

theorem regular_spatial_theta (k0 : Az) (k1 : Lon) (a b c : ℝ) (h : Canon3 k0 k1 a b c)
    (hm : 0 < mag2Of k0 k1 a b c) :
    spatial_theta.evalDom k0 k1 a b c ∧
    spatial_theta.eval k0 k1 a b c = arccos (zOf k0 k1 a b c / sqrt (mag2Of k0 k1 a b c)) :=
  ⟨dom_spatial_theta k0 k1 a b c h hm, refine_spatial_theta k0 k1 a b c h hm⟩

theorem regular_spatial_cottheta (k0 : Az) (k1 : Lon) (a b c : ℝ) (hr : 0 < rhoOf k0 a b) (ht : TanOK k1 c)
    (hs : SinOK k1 c) (he : k1 = .eta → c ≠ 0) :
    spatial_cottheta.evalDom k0 k1 a b c ∧
    spatial_cottheta.eval k0 k1 a b c = zOf k0 k1 a b c / rhoOf k0 a b :=
  ⟨dom_spatial_cottheta_partial k0 k1 a b c hr ht hs he, refine_spatial_cottheta k0 k1 a b c hr ht⟩

theorem regular_spatial_eta (k0 : Az) (k1 : Lon) (a b c : ℝ) (hr : 0 < rhoOf k0 a b)
    (h : CanonLon k0 k1 a b c) :
    spatial_eta.evalDom k0 k1 a b c ∧
    spatial_eta.eval k0 k1 a b c = arsinh (zOf k0 k1 a b c / rhoOf k0 a b) :=
  ⟨dom_spatial_eta k0 k1 a b c h hr, refine_spatial_eta k0 k1 a b c hr h⟩

/-- non-vacuity (`regular_spatial_cottheta`, key `(rhophi, theta)`, `ρ = 1, φ = 0, θ = 1`) -/
example : 0 < rhoOf .rhophi 1 0 ∧ TanOK .theta 1 ∧ SinOK .theta 1 ∧ ((Lon.theta = .eta) → (1 : ℝ) ≠ 0) :=
  ⟨by norm_num [rhoOf], Real.cos_one_pos.ne',
   (Real.sin_pos_of_pos_of_lt_pi one_pos (by linarith [Real.two_le_pi])).ne', fun _ => one_ne_zero⟩

/-! ## spatial binary / vector-valued (16 modules) -/

theorem regular_spatial_dot (k0 : Az) (k1 : Lon) (k2 : Az) (k3 : Lon) (a0 a1 a2 a3 a4 a5 : ℝ)
    (h1 : TanOK k1 a2) (h2 : TanOK k3 a5) (hs1 : SinOK k1 a2) (hs2 : SinOK k3 a5)
    (he : DotEtaOK k0 k1 k2 k3 a2 a5) :
    spatial_dot.evalDom k0 k1 k2 k3 a0 a1 a2 a3 a4 a5 ∧
    spatial_dot.eval k0 k1 k2 k3 a0 a1 a2 a3 a4 a5 = dot3 (cart3 k0 k1 a0 a1 a2) (cart3 k2 k3 a3 a4 a5) :=
  ⟨dom_spatial_dot_partial k0 k1 k2 k3 a0 a1 a2 a3 a4 a5 h1 h2 hs1 hs2 he,
   refine_spatial_dot k0 k1 k2 k3 a0 a1 a2 a3 a4 a5 h1 h2⟩

theorem regular_spatial_cross (k0 : Az) (k1 : Lon) (k2 : Az) (k3 : Lon) (a0 a1 a2 a3 a4 a5 : ℝ)
    (h1 : TanOK k1 a2) (h2 : TanOK k3 a5) (hs1 : SinOK k1 a2) (hs2 : SinOK k3 a5) :
    spatial_cross.evalDom k0 k1 k2 k3 a0 a1 a2 a3 a4 a5 ∧
    interp3 (spatial_cross.ret k0 k1 k2 k3) (spatial_cross.eval k0 k1 k2 k3 a0 a1 a2 a3 a4 a5)
      = some (cross3 (cart3 k0 k1 a0 a1 a2) (cart3 k2 k3 a3 a4 a5)) :=
  ⟨dom_spatial_cross_partial k0 k1 k2 k3 a0 a1 a2 a3 a4 a5 h1 h2 hs1 hs2,
   refine_spatial_cross k0 k1 k2 k3 a0 a1 a2 a3 a4 a5 h1 h2⟩

theorem regular_spatial_scale (k0 : Az) (k1 : Lon) (f a b c : ℝ) (h : ThetaRange k1 c) :
    spatial_scale.evalDom k0 k1 f a b c ∧
    interp3 (spatial_scale.ret k0 k1) (spatial_scale.eval k0 k1 f a b c) = some (smul3 f (cart3 k0 k1 a b c)) :=
  ⟨dom_spatial_scale k0 k1 f a b c h, refine_spatial_scale k0 k1 f a b c h⟩

theorem regular_spatial_add (k0 : Az) (k1 : Lon) (k2 : Az) (k3 : Lon) (a0 a1 a2 a3 a4 a5 : ℝ)
    (h1 : TanOK k1 a2) (h2 : TanOK k3 a5)
    (hrep : Representable3 (spatial_add.ret k0 k1 k2 k3) (add3 (cart3 k0 k1 a0 a1 a2) (cart3 k2 k3 a3 a4 a5)))
    (hs1 : SinOK k1 a2) (hs2 : SinOK k3 a5) :
    spatial_add.evalDom k0 k1 k2 k3 a0 a1 a2 a3 a4 a5 ∧
    interp3 (spatial_add.ret k0 k1 k2 k3) (spatial_add.eval k0 k1 k2 k3 a0 a1 a2 a3 a4 a5)
      = some (add3 (cart3 k0 k1 a0 a1 a2) (cart3 k2 k3 a3 a4 a5)) :=
  ⟨dom_spatial_add_partial k0 k1 k2 k3 a0 a1 a2 a3 a4 a5 h1 h2 hrep hs1 hs2,
   refine_spatial_add k0 k1 k2 k3 a0 a1 a2 a3 a4 a5 h1 h2 hrep⟩

theorem regular_spatial_subtract (k0 : Az) (k1 : Lon) (k2 : Az) (k3 : Lon) (a0 a1 a2 a3 a4 a5 : ℝ)
    (h1 : TanOK k1 a2) (h2 : TanOK k3 a5)
    (hrep : Representable3 (spatial_subtract.ret k0 k1 k2 k3) (sub3 (cart3 k0 k1 a0 a1 a2) (cart3 k2 k3 a3 a4 a5)))
    (hs1 : SinOK k1 a2) (hs2 : SinOK k3 a5) :
    spatial_subtract.evalDom k0 k1 k2 k3 a0 a1 a2 a3 a4 a5 ∧
    interp3 (spatial_subtract.ret k0 k1 k2 k3) (spatial_subtract.eval k0 k1 k2 k3 a0 a1 a2 a3 a4 a5)
      = some (sub3 (cart3 k0 k1 a0 a1 a2) (cart3 k2 k3 a3 a4 a5)) :=
  ⟨dom_spatial_subtract_partial k0 k1 k2 k3 a0 a1 a2 a3 a4 a5 h1 h2 hrep hs1 hs2,
   refine_spatial_subtract k0 k1 k2 k3 a0 a1 a2 a3 a4 a5 h1 h2 hrep⟩

theorem regular_spatial_unit (k0 : Az) (k1 : Lon) (a b c : ℝ) (h : Canon3 k0 k1 a b c) (hm : 0 < mag2Of k0 k1 a b c) :
    spatial_unit.evalDom k0 k1 a b c ∧
    interp3 (spatial_unit.ret k0 k1) (spatial_unit.eval k0 k1 a b c)
      = some (smul3 (1 / sqrt (mag2Of k0 k1 a b c)) (cart3 k0 k1 a b c)) :=
  ⟨dom_spatial_unit k0 k1 a b c h hm, refine_spatial_unit k0 k1 a b c h hm⟩

theorem regular_spatial_deltaangle (k0 : Az) (k1 : Lon) (k2 : Az) (k3 : Lon) (a b c d e f : ℝ)
    (hc1 : Canon2 k0 a b) (hc2 : Canon2 k2 d e) (ht1 : TanOK k1 c) (ht2 : TanOK k3 f)
    (hs1 : k1 = .theta → sin c ≠ 0) (hs2 : k3 = .theta → sin f ≠ 0)
    (hm1 : 0 < mag2Of k0 k1 a b c) (hm2 : 0 < mag2Of k2 k3 d e f) (he : DotEtaOK k0 k1 k2 k3 c f) :
    spatial_deltaangle.evalDom k0 k1 k2 k3 a b c d e f ∧
    spatial_deltaangle.eval k0 k1 k2 k3 a b c d e f
      = arccos (max (-1) (min 1 (dot3 (cart3 k0 k1 a b c) (cart3 k2 k3 d e f)
          / sqrt (mag2Of k0 k1 a b c) / sqrt (mag2Of k2 k3 d e f)))) :=
  ⟨dom_spatial_deltaangle_partial k0 k1 k2 k3 a b c d e f hc1 hc2 ht1 ht2 hs1 hs2 hm1 hm2 he,
   refine_spatial_deltaangle k0 k1 k2 k3 a b c d e f hc1 hc2 ht1 ht2 hs1 hs2⟩

theorem regular_spatial_deltaeta (k0 : Az) (k1 : Lon) (k2 : Az) (k3 : Lon) (a b c d e f : ℝ)
    (hr1 : 0 < rhoOf k0 a b) (hr2 : 0 < rhoOf k2 d e)
    (h1 : CanonLon k0 k1 a b c) (h2 : CanonLon k2 k3 d e f) :
    spatial_deltaeta.evalDom k0 k1 k2 k3 a b c d e f ∧
    spatial_deltaeta.eval k0 k1 k2 k3 a b c d e f
      = arsinh (zOf k0 k1 a b c / rhoOf k0 a b) - arsinh (zOf k2 k3 d e f / rhoOf k2 d e) :=
  ⟨dom_spatial_deltaeta k0 k1 k2 k3 a b c d e f hr1 hr2 h1 h2,
   refine_spatial_deltaeta k0 k1 k2 k3 a b c d e f hr1 hr2 h1 h2⟩

theorem regular_spatial_deltaR2 (k0 : Az) (k1 : Lon) (k2 : Az) (k3 : Lon) (a b c d e f : ℝ)
    (hr1 : 0 < rhoOf k0 a b) (hr2 : 0 < rhoOf k2 d e)
    (h1 : CanonLon k0 k1 a b c) (h2 : CanonLon k2 k3 d e f) :
    spatial_deltaR2.evalDom k0 k1 k2 k3 a b c d e f ∧
    spatial_deltaR2.eval k0 k1 k2 k3 a b c d e f
      = (P.mod (P.arctan2 (yOf k0 a b) (xOf k0 a b) - P.arctan2 (yOf k2 d e) (xOf k2 d e) + π) (2 * π) - π) ^ 2
        + (arsinh (zOf k0 k1 a b c / rhoOf k0 a b) - arsinh (zOf k2 k3 d e f / rhoOf k2 d e)) ^ 2 :=
  ⟨dom_spatial_deltaR2 k0 k1 k2 k3 a b c d e f hr1 hr2 h1 h2,
   refine_spatial_deltaR2 k0 k1 k2 k3 a b c d e f hr1 hr2 h1 h2⟩

/-- `refine_spatial_deltaR` (`deltaR = √deltaR2`, no hypotheses) composed with `refine_spatial_deltaR2`, so that the
conclusion is in terms of the specification -/
theorem regular_spatial_deltaR (k0 : Az) (k1 : Lon) (k2 : Az) (k3 : Lon) (a b c d e f : ℝ)
    (hr1 : 0 < rhoOf k0 a b) (hr2 : 0 < rhoOf k2 d e)
    (h1 : CanonLon k0 k1 a b c) (h2 : CanonLon k2 k3 d e f) :
    spatial_deltaR.evalDom k0 k1 k2 k3 a b c d e f ∧
    spatial_deltaR.eval k0 k1 k2 k3 a b c d e f
      = sqrt ((P.mod (P.arctan2 (yOf k0 a b) (xOf k0 a b) - P.arctan2 (yOf k2 d e) (xOf k2 d e) + π) (2 * π) - π) ^ 2
        + (arsinh (zOf k0 k1 a b c / rhoOf k0 a b) - arsinh (zOf k2 k3 d e f / rhoOf k2 d e)) ^ 2) :=
  ⟨dom_spatial_deltaR k0 k1 k2 k3 a b c d e f hr1 hr2 h1 h2, by
    rw [refine_spatial_deltaR k0 k1 k2 k3 a b c d e f, refine_spatial_deltaR2 k0 k1 k2 k3 a b c d e f hr1 hr2 h1 h2]⟩

theorem regular_spatial_equal (k0 : Az) (k1 : Lon) (k2 : Az) (k3 : Lon) (a0 a1 a2 a3 a4 a5 : ℝ)
    (c1 : Canon3 k0 k1 a0 a1 a2) (c2 : Canon3 k2 k3 a3 a4 a5) (t1 : TanOK k1 a2) (t2 : TanOK k3 a5)
    (h : spatial_equal.eval k0 k1 k2 k3 a0 a1 a2 a3 a4 a5) :
    spatial_equal.evalDom k0 k1 k2 k3 a0 a1 a2 a3 a4 a5 ∧
    cart3 k0 k1 a0 a1 a2 = cart3 k2 k3 a3 a4 a5 :=
  ⟨dom_spatial_equal k0 k1 k2 k3 a0 a1 a2 a3 a4 a5 c1 c2 t1 t2 h,
   refine_spatial_equal k0 k1 k2 k3 a0 a1 a2 a3 a4 a5 c1 c2 t1 t2 h⟩

theorem regular_spatial_not_equal (k0 : Az) (k1 : Lon) (k2 : Az) (k3 : Lon) (a0 a1 a2 a3 a4 a5 : ℝ)
    (c1 : Canon3 k0 k1 a0 a1 a2) (c2 : Canon3 k2 k3 a3 a4 a5) (t1 : TanOK k1 a2) (t2 : TanOK k3 a5)
    (h : ¬ cart3 k0 k1 a0 a1 a2 = cart3 k2 k3 a3 a4 a5) :
    spatial_not_equal.evalDom k0 k1 k2 k3 a0 a1 a2 a3 a4 a5 ∧
    spatial_not_equal.eval k0 k1 k2 k3 a0 a1 a2 a3 a4 a5 :=
  ⟨dom_spatial_not_equal k0 k1 k2 k3 a0 a1 a2 a3 a4 a5 c1 c2 t1 t2 h,
   refine_spatial_not_equal k0 k1 k2 k3 a0 a1 a2 a3 a4 a5 c1 c2 t1 t2 h⟩

/-- same-system characterisation (`c12_spatial_isclose_same`) -/
theorem regular_spatial_isclose (k0 : Az) (k1 : Lon) (r t e a0 a1 a2 b0 b1 b2 : ℝ) :
    spatial_isclose.evalDom k0 k1 k0 k1 r t e a0 a1 a2 b0 b1 b2 ∧
    (spatial_isclose.eval k0 k1 k0 k1 r t e a0 a1 a2 b0 b1 b2 ↔
      (|a0 - b0| ≤ t + r * |b0| ∧ |a1 - b1| ≤ t + r * |b1| ∧ |a2 - b2| ≤ t + r * |b2|)) :=
  ⟨dom_spatial_isclose_same k0 k1 r t e a0 a1 a2 b0 b1 b2, c12_spatial_isclose_same k0 k1 r t e a0 a1 a2 b0 b1 b2⟩

theorem regular_spatial_is_parallel (k0 : Az) (k1 : Lon) (k2 : Az) (k3 : Lon) (tol a0 a1 a2 b0 b1 b2 : ℝ)
    (h1 : TanOK k1 a2) (h2 : TanOK k3 b2) (hs1 : SinOK k1 a2) (hs2 : SinOK k3 b2) (he : DotEtaOK k0 k1 k2 k3 a2 b2) :
    spatial_is_parallel.evalDom k0 k1 k2 k3 tol a0 a1 a2 b0 b1 b2 ∧
    (spatial_is_parallel.eval k0 k1 k2 k3 tol a0 a1 a2 b0 b1 b2 ↔
      spatial_dot.eval k0 k1 k2 k3 a0 a1 a2 b0 b1 b2 >
        (1 - |tol|) * spatial_mag.eval k0 k1 a0 a1 a2 * spatial_mag.eval k2 k3 b0 b1 b2) :=
  ⟨dom_spatial_is_parallel_partial k0 k1 k2 k3 tol a0 a1 a2 b0 b1 b2 h1 h2 hs1 hs2 he,
   c13_spatial_is_parallel_iff k0 k1 k2 k3 tol a0 a1 a2 b0 b1 b2⟩

theorem regular_spatial_is_antiparallel (k0 : Az) (k1 : Lon) (k2 : Az) (k3 : Lon) (tol a0 a1 a2 b0 b1 b2 : ℝ)
    (h1 : TanOK k1 a2) (h2 : TanOK k3 b2) (hs1 : SinOK k1 a2) (hs2 : SinOK k3 b2) (he : DotEtaOK k0 k1 k2 k3 a2 b2) :
    spatial_is_antiparallel.evalDom k0 k1 k2 k3 tol a0 a1 a2 b0 b1 b2 ∧
    (spatial_is_antiparallel.eval k0 k1 k2 k3 tol a0 a1 a2 b0 b1 b2 ↔
      spatial_dot.eval k0 k1 k2 k3 a0 a1 a2 b0 b1 b2 <
        (|tol| - 1) * spatial_mag.eval k0 k1 a0 a1 a2 * spatial_mag.eval k2 k3 b0 b1 b2) :=
  ⟨dom_spatial_is_antiparallel_partial k0 k1 k2 k3 tol a0 a1 a2 b0 b1 b2 h1 h2 hs1 hs2 he,
   c13_spatial_is_antiparallel_iff k0 k1 k2 k3 tol a0 a1 a2 b0 b1 b2⟩

theorem regular_spatial_is_perpendicular (k0 : Az) (k1 : Lon) (k2 : Az) (k3 : Lon) (tol a0 a1 a2 b0 b1 b2 : ℝ)
    (h1 : TanOK k1 a2) (h2 : TanOK k3 b2) (hs1 : SinOK k1 a2) (hs2 : SinOK k3 b2) (he : DotEtaOK k0 k1 k2 k3 a2 b2) :
    spatial_is_perpendicular.evalDom k0 k1 k2 k3 tol a0 a1 a2 b0 b1 b2 ∧
    (spatial_is_perpendicular.eval k0 k1 k2 k3 tol a0 a1 a2 b0 b1 b2 ↔
      |spatial_dot.eval k0 k1 k2 k3 a0 a1 a2 b0 b1 b2| <
        |tol| * spatial_mag.eval k0 k1 a0 a1 a2 * spatial_mag.eval k2 k3 b0 b1 b2) :=
  ⟨dom_spatial_is_perpendicular_partial k0 k1 k2 k3 tol a0 a1 a2 b0 b1 b2 h1 h2 hs1 hs2 he,
   c13_spatial_is_perpendicular_iff k0 k1 k2 k3 tol a0 a1 a2 b0 b1 b2⟩

/-- non-vacuity (`regular_spatial_dot`, key `rhophi_eta × rhophi_theta`, `η₁ = 1`, `θ₂ = 1`: the key that needs `η ≠ 0`) -/
example : TanOK .eta 1 ∧ TanOK .theta 1 ∧ SinOK .eta 1 ∧ SinOK .theta 1 ∧ DotEtaOK .rhophi .eta .rhophi .theta 1 1 :=
  ⟨trivial, ne_of_gt cos_one_pos, trivial, (sin_pos_of_pos_of_lt_pi one_pos (by linarith [two_le_pi])).ne',
    one_ne_zero⟩

/-! ## spatial rotations / transforms (6 modules) -/

theorem regular_spatial_rotateX (k0 : Az) (k1 : Lon) (ang a b c : ℝ) (h : TanOK k1 c)
    (hs : k1 = .theta → sin c ≠ 0) :
    spatial_rotateX.evalDom k0 k1 ang a b c ∧
    interp3 (spatial_rotateX.ret k0 k1) (spatial_rotateX.eval k0 k1 ang a b c)
      = some (rotX ang (cart3 k0 k1 a b c)) :=
  ⟨dom_spatial_rotateX_partial k0 k1 ang a b c h hs, refine_spatial_rotateX k0 k1 ang a b c h⟩

theorem regular_spatial_rotateY (k0 : Az) (k1 : Lon) (ang a b c : ℝ) (h : TanOK k1 c)
    (hs : k1 = .theta → sin c ≠ 0) :
    spatial_rotateY.evalDom k0 k1 ang a b c ∧
    interp3 (spatial_rotateY.ret k0 k1) (spatial_rotateY.eval k0 k1 ang a b c)
      = some (rotY ang (cart3 k0 k1 a b c)) :=
  ⟨dom_spatial_rotateY_partial k0 k1 ang a b c h hs, refine_spatial_rotateY k0 k1 ang a b c h⟩

theorem regular_spatial_rotate_quaternion (k0 : Az) (k1 : Lon) (u i j k a b c : ℝ) (h : TanOK k1 c)
    (hs : k1 = .theta → sin c ≠ 0) :
    spatial_rotate_quaternion.evalDom k0 k1 u i j k a b c ∧
    spatial_rotate_quaternion.eval k0 k1 u i j k a b c
      = spatial_rotate_quaternion.eval .xy .z u i j k (xOf k0 a b) (yOf k0 a b) (zOf k0 k1 a b c) :=
  ⟨dom_spatial_rotate_quaternion_partial k0 k1 u i j k a b c h hs,
   refine_spatial_rotate_quaternion k0 k1 u i j k a b c h⟩

theorem regular_spatial_transform3D (k0 : Az) (k1 : Lon) (xx xy xz yx yy yz zx zy zz a b c : ℝ)
    (h : TanOK k1 c) (hs : k1 = .theta → sin c ≠ 0) :
    spatial_transform3D.evalDom k0 k1 xx xy xz yx yy yz zx zy zz a b c ∧
    interp3 (spatial_transform3D.ret k0 k1) (spatial_transform3D.eval k0 k1 xx xy xz yx yy yz zx zy zz a b c)
      = some (xx * xOf k0 a b + xy * yOf k0 a b + xz * zOf k0 k1 a b c,
              yx * xOf k0 a b + yy * yOf k0 a b + yz * zOf k0 k1 a b c,
              zx * xOf k0 a b + zy * yOf k0 a b + zz * zOf k0 k1 a b c) :=
  ⟨dom_spatial_transform3D_partial k0 k1 xx xy xz yx yy yz zx zy zz a b c h hs,
   refine_spatial_transform3D_interp k0 k1 xx xy xz yx yy yz zx zy zz a b c h⟩

theorem regular_spatial_rotate_euler (k0 : Az) (k1 : Lon) (o : Ord) (phi theta psi a b c : ℝ)
    (h : TanOK k1 c) (hs : k1 = .theta → sin c ≠ 0) :
    spatial_rotate_euler.evalDom k0 k1 o phi theta psi a b c ∧
    spatial_rotate_euler.eval k0 k1 o phi theta psi a b c
      = spatial_rotate_euler.eval .xy .z o phi theta psi (xOf k0 a b) (yOf k0 a b) (zOf k0 k1 a b c) :=
  ⟨dom_spatial_rotate_euler_partial k0 k1 o phi theta psi a b c h hs,
   refine_spatial_rotate_euler k0 k1 o phi theta psi a b c h⟩

theorem regular_spatial_rotate_axis (k0 : Az) (k1 : Lon) (k2 : Az) (k3 : Lon) (ang a b c d e f : ℝ)
    (h1 : TanOK k1 c) (h2 : TanOK k3 f)
    (hu : 0 < mag2Of k0 k1 a b c) (hs1 : k1 = .theta → sin c ≠ 0) (hs2 : k3 = .theta → sin f ≠ 0) :
    spatial_rotate_axis.evalDom k0 k1 k2 k3 ang a b c d e f ∧
    spatial_rotate_axis.eval k0 k1 k2 k3 ang a b c d e f
      = spatial_rotate_axis.eval .xy .z .xy .z ang (xOf k0 a b) (yOf k0 a b) (zOf k0 k1 a b c)
          (xOf k2 d e) (yOf k2 d e) (zOf k2 k3 d e f) :=
  ⟨dom_spatial_rotate_axis_partial k0 k1 k2 k3 ang a b c d e f h1 h2 hu hs1 hs2,
   refine_spatial_rotate_axis k0 k1 k2 k3 ang a b c d e f h1 h2⟩

/-- non-vacuity (`regular_spatial_rotate_axis`, η-stored axis `(ρ, φ, η) = (2, 1, 0)`, θ-stored vector with `θ = 1`) -/
example : TanOK .eta 0 ∧ TanOK .theta 1 ∧ 0 < mag2Of .rhophi .eta 2 1 0 ∧ ((Lon.eta = .theta) → sin (0 : ℝ) ≠ 0)
    ∧ ((Lon.theta = .theta) → sin (1 : ℝ) ≠ 0) := by
  refine ⟨trivial, ne_of_gt cos_one_pos, ?_, (fun h => by cases h),
    fun _ => (sin_pos_of_pos_of_lt_pi one_pos (by linarith [two_le_pi])).ne'⟩
  simp only [mag2Of, xOf, yOf, zOf, rhoOf, sinh_zero, mul_zero]
  have := cos_sq_add_sin_sq (1 : ℝ)
  nlinarith [sq_nonneg (cos (1:ℝ)), sq_nonneg (sin (1:ℝ))]

/-! ## lorentz accessors, predicates and unary vector-valued modules (18 modules) -/

theorem regular_lorentz_t2 (k0 : Az) (k1 : Lon) (k2 : Tmp) (a b c d : ℝ)
    (h : CanonLon k0 k1 a b c) (hd : CanonTmp k2 d) :
    lorentz_t2.evalDom k0 k1 k2 a b c d ∧ lorentz_t2.eval k0 k1 k2 a b c d = tOf k0 k1 k2 a b c d ^ 2 :=
  ⟨dom_lorentz_t2 k0 k1 k2 a b c d h hd, refine_lorentz_t2 k0 k1 k2 a b c d h hd⟩

theorem regular_lorentz_t (k0 : Az) (k1 : Lon) (k2 : Tmp) (a b c d : ℝ)
    (h : CanonLon k0 k1 a b c) (hd : CanonTmp k2 d) :
    lorentz_t.evalDom k0 k1 k2 a b c d ∧ lorentz_t.eval k0 k1 k2 a b c d = tOf k0 k1 k2 a b c d :=
  ⟨dom_lorentz_t k0 k1 k2 a b c d h hd, refine_lorentz_t k0 k1 k2 a b c d h hd⟩

theorem regular_lorentz_tau2 (k0 : Az) (k1 : Lon) (k2 : Tmp) (a b c d : ℝ)
    (h : CanonLon k0 k1 a b c) (hd : CanonTmp k2 d) :
    lorentz_tau2.evalDom k0 k1 k2 a b c d ∧
    lorentz_tau2.eval k0 k1 k2 a b c d = tOf k0 k1 k2 a b c d ^ 2 - mag2Of k0 k1 a b c :=
  ⟨dom_lorentz_tau2 k0 k1 k2 a b c d h hd, refine_lorentz_tau2 k0 k1 k2 a b c d h hd⟩

theorem regular_lorentz_tau (k0 : Az) (k1 : Lon) (k2 : Tmp) (a b c d : ℝ)
    (h : CanonLon k0 k1 a b c) (hd : CanonTmp k2 d) :
    lorentz_tau.evalDom k0 k1 k2 a b c d ∧
    lorentz_tau.eval k0 k1 k2 a b c d
      = Real.sign (tOf k0 k1 k2 a b c d ^ 2 - mag2Of k0 k1 a b c)
        * sqrt |tOf k0 k1 k2 a b c d ^ 2 - mag2Of k0 k1 a b c| :=
  ⟨dom_lorentz_tau k0 k1 k2 a b c d h hd, refine_lorentz_tau k0 k1 k2 a b c d h hd⟩

theorem regular_lorentz_beta (k0 : Az) (k1 : Lon) (k2 : Tmp) (a b c d : ℝ)
    (h : Canon3 k0 k1 a b c) (hd : CanonTmp k2 d) (ht : tOf k0 k1 k2 a b c d ≠ 0) :
    lorentz_beta.evalDom k0 k1 k2 a b c d ∧
    lorentz_beta.eval k0 k1 k2 a b c d = sqrt (mag2Of k0 k1 a b c) / tOf k0 k1 k2 a b c d :=
  ⟨dom_lorentz_beta k0 k1 k2 a b c d h hd ht, refine_lorentz_beta k0 k1 k2 a b c d h hd ht⟩

theorem regular_lorentz_gamma (k0 : Az) (k1 : Lon) (k2 : Tmp) (a b c d : ℝ)
    (h : CanonLon k0 k1 a b c) (hd : CanonTmp k2 d)
    (hs : 0 < tOf k0 k1 k2 a b c d ^ 2 - mag2Of k0 k1 a b c) :
    lorentz_gamma.evalDom k0 k1 k2 a b c d ∧
    lorentz_gamma.eval k0 k1 k2 a b c d
      = tOf k0 k1 k2 a b c d / sqrt (tOf k0 k1 k2 a b c d ^ 2 - mag2Of k0 k1 a b c) :=
  ⟨dom_lorentz_gamma k0 k1 k2 a b c d h hd hs, refine_lorentz_gamma k0 k1 k2 a b c d h hd hs⟩

theorem regular_lorentz_rapidity (k0 : Az) (k1 : Lon) (k2 : Tmp) (a b c d : ℝ)
    (h : CanonLon k0 k1 a b c) (htan : TanOK k1 c) (hd : CanonTmp k2 d)
    (hz : |zOf k0 k1 a b c| < tOf k0 k1 k2 a b c d) :
    lorentz_rapidity.evalDom k0 k1 k2 a b c d ∧
    lorentz_rapidity.eval k0 k1 k2 a b c d
      = 1 / 2 * Real.log ((tOf k0 k1 k2 a b c d + zOf k0 k1 a b c) / (tOf k0 k1 k2 a b c d - zOf k0 k1 a b c)) :=
  ⟨dom_lorentz_rapidity k0 k1 k2 a b c d h htan hd hz, refine_lorentz_rapidity k0 k1 k2 a b c d h htan hd hz⟩

theorem regular_lorentz_Et2 (k0 : Az) (k1 : Lon) (k2 : Tmp) (a b c d : ℝ)
    (h : CanonLon k0 k1 a b c) (hd : CanonTmp k2 d) (hm : 0 < mag2Of k0 k1 a b c) :
    lorentz_Et2.evalDom k0 k1 k2 a b c d ∧
    lorentz_Et2.eval k0 k1 k2 a b c d
      = tOf k0 k1 k2 a b c d ^ 2 * rhoOf k0 a b ^ 2 / mag2Of k0 k1 a b c :=
  ⟨dom_lorentz_Et2 k0 k1 k2 a b c d h hd hm, refine_lorentz_Et2 k0 k1 k2 a b c d h hd hm⟩

theorem regular_lorentz_Et (k0 : Az) (k1 : Lon) (k2 : Tmp) (a b c d : ℝ)
    (h : Canon3 k0 k1 a b c) (hd : CanonTmp k2 d) (hm : 0 < mag2Of k0 k1 a b c)
    (ht : 0 ≤ tOf k0 k1 k2 a b c d) :
    lorentz_Et.evalDom k0 k1 k2 a b c d ∧
    lorentz_Et.eval k0 k1 k2 a b c d
      = sqrt (tOf k0 k1 k2 a b c d ^ 2 * rhoOf k0 a b ^ 2 / mag2Of k0 k1 a b c) :=
  ⟨dom_lorentz_Et k0 k1 k2 a b c d h hd hm ht, refine_lorentz_Et k0 k1 k2 a b c d h hd hm ht⟩

theorem regular_lorentz_Mt2 (k0 : Az) (k1 : Lon) (k2 : Tmp) (a b c d : ℝ)
    (htan : TanOK k1 c) (hd : CanonTmp k2 d) (hsin : k2 = .t → SinOK k1 c) :
    lorentz_Mt2.evalDom k0 k1 k2 a b c d ∧
    lorentz_Mt2.eval k0 k1 k2 a b c d = tOf k0 k1 k2 a b c d ^ 2 - zOf k0 k1 a b c ^ 2 :=
  ⟨dom_lorentz_Mt2_partial k0 k1 k2 a b c d htan hd hsin, refine_lorentz_Mt2 k0 k1 k2 a b c d htan hd⟩

theorem regular_lorentz_Mt (k0 : Az) (k1 : Lon) (k2 : Tmp) (a b c d : ℝ)
    (htan : TanOK k1 c) (hd : CanonTmp k2 d)
    (hs : 0 ≤ tOf k0 k1 k2 a b c d ^ 2 - zOf k0 k1 a b c ^ 2) (hsin : k2 = .t → SinOK k1 c) :
    lorentz_Mt.evalDom k0 k1 k2 a b c d ∧
    lorentz_Mt.eval k0 k1 k2 a b c d = sqrt (tOf k0 k1 k2 a b c d ^ 2 - zOf k0 k1 a b c ^ 2) :=
  ⟨dom_lorentz_Mt_partial k0 k1 k2 a b c d htan hd hs hsin, refine_lorentz_Mt k0 k1 k2 a b c d htan hd hs⟩

theorem regular_lorentz_is_timelike (k0 : Az) (k1 : Lon) (k2 : Tmp) (tol a0 a1 a2 a3 : ℝ)
    (hθ : k1 = .theta → Real.sin a2 ≠ 0 ∧ Real.cos a2 ≠ 0) (htau : CanonTmp k2 a3) :
    lorentz_is_timelike.evalDom k0 k1 k2 tol a0 a1 a2 a3 ∧
    (lorentz_is_timelike.eval k0 k1 k2 tol a0 a1 a2 a3 ↔
      lorentz_dot.eval k0 k1 k2 k0 k1 k2 a0 a1 a2 a3 a0 a1 a2 a3 > |tol|) :=
  ⟨dom_lorentz_is_timelike k0 k1 k2 tol a0 a1 a2 a3 hθ htau, c13_is_timelike_iff_dot k0 k1 k2 tol a0 a1 a2 a3⟩

theorem regular_lorentz_is_lightlike (k0 : Az) (k1 : Lon) (k2 : Tmp) (tol a0 a1 a2 a3 : ℝ)
    (hθ : k1 = .theta → Real.sin a2 ≠ 0 ∧ Real.cos a2 ≠ 0) (htau : CanonTmp k2 a3) :
    lorentz_is_lightlike.evalDom k0 k1 k2 tol a0 a1 a2 a3 ∧
    (lorentz_is_lightlike.eval k0 k1 k2 tol a0 a1 a2 a3 ↔
      |lorentz_dot.eval k0 k1 k2 k0 k1 k2 a0 a1 a2 a3 a0 a1 a2 a3| < |tol|) :=
  ⟨dom_lorentz_is_lightlike k0 k1 k2 tol a0 a1 a2 a3 hθ htau, c13_is_lightlike_iff_dot k0 k1 k2 tol a0 a1 a2 a3⟩

theorem regular_lorentz_is_spacelike (k0 : Az) (k1 : Lon) (k2 : Tmp) (tol a0 a1 a2 a3 : ℝ)
    (hθ : k1 = .theta → Real.sin a2 ≠ 0 ∧ Real.cos a2 ≠ 0) (htau : CanonTmp k2 a3) :
    lorentz_is_spacelike.evalDom k0 k1 k2 tol a0 a1 a2 a3 ∧
    (lorentz_is_spacelike.eval k0 k1 k2 tol a0 a1 a2 a3 ↔
      lorentz_dot.eval k0 k1 k2 k0 k1 k2 a0 a1 a2 a3 a0 a1 a2 a3 < -|tol|) :=
  ⟨dom_lorentz_is_spacelike k0 k1 k2 tol a0 a1 a2 a3 hθ htau, c13_is_spacelike_iff_dot k0 k1 k2 tol a0 a1 a2 a3⟩

theorem regular_lorentz_to_beta3 (k0 : Az) (k1 : Lon) (k2 : Tmp) (a b c d : ℝ)
    (h : CanonLon k0 k1 a b c) (hd : CanonTmp k2 d) (ht : tOf k0 k1 k2 a b c d ≠ 0)
    (hpos : k0 = .xy → k1 = .z ∨ 0 < tOf k0 k1 k2 a b c d) :
    lorentz_to_beta3.evalDom k0 k1 k2 a b c d ∧
    interp3 (lorentz_to_beta3.ret k0 k1 k2) (lorentz_to_beta3.eval k0 k1 k2 a b c d)
      = some (xOf k0 a b / tOf k0 k1 k2 a b c d, yOf k0 a b / tOf k0 k1 k2 a b c d,
          zOf k0 k1 a b c / tOf k0 k1 k2 a b c d) :=
  ⟨dom_lorentz_to_beta3 k0 k1 k2 a b c d h hd ht hpos,
   refine_lorentz_to_beta3_ne_zero k0 k1 k2 a b c d h hd ht hpos⟩

theorem regular_lorentz_unit (k0 : Az) (k1 : Lon) (k2 : Tmp) (a b c d : ℝ) (hs : SinOK k1 c) (hd : CanonTmp k2 d)
    (hm : tOf k0 k1 k2 a b c d ^ 2 - mag2Of k0 k1 a b c ≠ 0) :
    lorentz_unit.evalDom k0 k1 k2 a b c d ∧
    interp4 (lorentz_unit.ret k0 k1 k2) (lorentz_unit.eval k0 k1 k2 a b c d)
      = some (smul4 (1 / sqrt |tOf k0 k1 k2 a b c d ^ 2 - mag2Of k0 k1 a b c|) (cart4 k0 k1 k2 a b c d)) :=
  ⟨dom_lorentz_unit k0 k1 k2 a b c d hs hd hm, refine_lorentz_unit k0 k1 k2 a b c d hs hd hm⟩

theorem regular_lorentz_scale (k0 : Az) (k1 : Lon) (k2 : Tmp) (f a b c d : ℝ) (h : ThetaRange k1 c)
    (hf : k2 = .tau → 0 ≤ f) :
    lorentz_scale.evalDom k0 k1 k2 f a b c d ∧
    interp4 (lorentz_scale.ret k0 k1 k2) (lorentz_scale.eval k0 k1 k2 f a b c d)
      = some (smul4 f (cart4 k0 k1 k2 a b c d)) :=
  ⟨dom_lorentz_scale k0 k1 k2 f a b c d h hf, refine_lorentz_scale_partial k0 k1 k2 f a b c d h hf⟩

theorem regular_lorentz_transform4D (k0 : Az) (k1 : Lon) (k2 : Tmp)
    (xx xy xz xt yx yy yz yt zx zy zz zt tx ty tz tt a b c d : ℝ)
    (h : TanOK k1 c) (hs : SinOK k1 c) (hd : CanonTmp k2 d) :
    lorentz_transform4D.evalDom k0 k1 k2 xx xy xz xt yx yy yz yt zx zy zz zt tx ty tz tt a b c d ∧
    interp4 (lorentz_transform4D.ret k0 k1 k2)
        (lorentz_transform4D.eval k0 k1 k2 xx xy xz xt yx yy yz yt zx zy zz zt tx ty tz tt a b c d)
      = some (transform4 xx xy xz xt yx yy yz yt zx zy zz zt tx ty tz tt (cart4 k0 k1 k2 a b c d)) :=
  ⟨dom_lorentz_transform4D k0 k1 k2 xx xy xz xt yx yy yz yt zx zy zz zt tx ty tz tt a b c d h hs hd,
   refine_lorentz_transform4D k0 k1 k2 xx xy xz xt yx yy yz yt zx zy zz zt tx ty tz tt a b c d h hs hd⟩

/-- non-vacuity (`regular_lorentz_Mt`, key `(xy, theta, t)`, `(x, y, θ, t) = (1, 0, 1, 3)`: the key that needs `sin θ ≠ 0`) -/
example : TanOK .theta 1 ∧ CanonTmp .t 3 ∧ 0 ≤ tOf .xy .theta .t 1 0 1 3 ^ 2 - zOf .xy .theta 1 0 1 ^ 2
    ∧ (Tmp.t = .t → SinOK .theta 1) := by
  have hs : 0 < sin (1 : ℝ) := sin_pos_of_pos_of_lt_pi one_pos (by linarith [two_le_pi])
  have hc : 0 < cos (1 : ℝ) := cos_one_pos
  refine ⟨hc.ne', trivial, ?_, fun _ => hs.ne'⟩
  -- `z = ρ cot θ` with `ρ = 1`; `cot 1 < 1 < 3` because `cos 1 ≤ sin 1` (as `π/4 ≤ 1`)
  have hle : cos (1 : ℝ) ≤ sin 1 := by
    have h1 : sin (π / 4) ≤ sin 1 :=
      sin_le_sin_of_le_of_le_pi_div_two (by linarith [pi_pos]) (by linarith [one_le_pi_div_two])
        (by linarith [pi_le_four])
    have h2 : cos 1 ≤ cos (π / 4) :=
      cos_le_cos_of_nonneg_of_le_pi (by linarith [pi_pos]) (by linarith [two_le_pi]) (by linarith [pi_le_four])
    rw [sin_pi_div_four] at h1; rw [cos_pi_div_four] at h2; linarith
  have hq : cos (1 : ℝ) / sin 1 ≤ 1 := (div_le_one hs).mpr hle
  have hq0 : 0 ≤ cos (1 : ℝ) / sin 1 := by positivity
  simp only [tOf, zOf, rhoOf]
  have hr : sqrt ((1 : ℝ) ^ 2 + 0 ^ 2) = 1 := by norm_num
  rw [hr]
  nlinarith

/-! ## lorentz binary (8 modules, 144 keys each) -/

theorem regular_lorentz_dot (k0 : Az) (k1 : Lon) (k2 : Tmp) (k3 : Az) (k4 : Lon) (k5 : Tmp)
    (a0 a1 a2 a3 a4 a5 a6 a7 : ℝ) (h1 : TanOK k1 a2) (h2 : TanOK k4 a6) (hs1 : SinOK k1 a2) (hs2 : SinOK k4 a6)
    (hd1 : CanonTmp k2 a3) (hd2 : CanonTmp k5 a7) (he : LB.DotEtaOK k0 k1 k3 k4 a2 a6) :
    lorentz_dot.evalDom k0 k1 k2 k3 k4 k5 a0 a1 a2 a3 a4 a5 a6 a7 ∧
    lorentz_dot.eval k0 k1 k2 k3 k4 k5 a0 a1 a2 a3 a4 a5 a6 a7
      = mdot (cart4 k0 k1 k2 a0 a1 a2 a3) (cart4 k3 k4 k5 a4 a5 a6 a7) :=
  ⟨dom_lorentz_dot_partial k0 k1 k2 k3 k4 k5 a0 a1 a2 a3 a4 a5 a6 a7 h1 h2 hs1 hs2 hd1 hd2 he,
   refine_lorentz_dot k0 k1 k2 k3 k4 k5 a0 a1 a2 a3 a4 a5 a6 a7 h1 h2 hs1 hs2 hd1 hd2⟩

theorem regular_lorentz_add (k0 : Az) (k1 : Lon) (k2 : Tmp) (k3 : Az) (k4 : Lon) (k5 : Tmp) (a0 a1 a2 a3 a4 a5 a6 a7 : ℝ)
    (h1 : TanOK k1 a2) (h2 : TanOK k4 a6) (hs1 : SinOK k1 a2) (hs2 : SinOK k4 a6)
    (hd1 : CanonTmp k2 a3) (hd2 : CanonTmp k5 a7)
    (hrep : Representable3 (spatial_add.ret k0 k1 k3 k4) (add3 (cart3 k0 k1 a0 a1 a2) (cart3 k3 k4 a4 a5 a6))) :
    lorentz_add.evalDom k0 k1 k2 k3 k4 k5 a0 a1 a2 a3 a4 a5 a6 a7 ∧
    interp4 (lorentz_add.ret k0 k1 k2 k3 k4 k5) (lorentz_add.eval k0 k1 k2 k3 k4 k5 a0 a1 a2 a3 a4 a5 a6 a7)
      = some (add4 (cart4 k0 k1 k2 a0 a1 a2 a3) (cart4 k3 k4 k5 a4 a5 a6 a7)) :=
  ⟨dom_lorentz_add k0 k1 k2 k3 k4 k5 a0 a1 a2 a3 a4 a5 a6 a7 h1 h2 hs1 hs2 hd1 hd2 hrep,
   refine_lorentz_add k0 k1 k2 k3 k4 k5 a0 a1 a2 a3 a4 a5 a6 a7 h1 h2 hs1 hs2 hd1 hd2 hrep⟩

theorem regular_lorentz_subtract (k0 : Az) (k1 : Lon) (k2 : Tmp) (k3 : Az) (k4 : Lon) (k5 : Tmp)
    (a0 a1 a2 a3 a4 a5 a6 a7 : ℝ)
    (h1 : TanOK k1 a2) (h2 : TanOK k4 a6) (hs1 : SinOK k1 a2) (hs2 : SinOK k4 a6)
    (hd1 : CanonTmp k2 a3) (hd2 : CanonTmp k5 a7)
    (hrep : Representable3 (spatial_subtract.ret k0 k1 k3 k4) (sub3 (cart3 k0 k1 a0 a1 a2) (cart3 k3 k4 a4 a5 a6)))
    (hc : k2 = .tau → k5 = .tau →
      0 ≤ tOf k0 k1 k2 a0 a1 a2 a3 - tOf k3 k4 k5 a4 a5 a6 a7 ∧
      (xOf k0 a0 a1 - xOf k3 a4 a5) ^ 2 + (yOf k0 a0 a1 - yOf k3 a4 a5) ^ 2 + (zOf k0 k1 a0 a1 a2 - zOf k3 k4 a4 a5 a6) ^ 2
        ≤ (tOf k0 k1 k2 a0 a1 a2 a3 - tOf k3 k4 k5 a4 a5 a6 a7) ^ 2) :
    lorentz_subtract.evalDom k0 k1 k2 k3 k4 k5 a0 a1 a2 a3 a4 a5 a6 a7 ∧
    interp4 (lorentz_subtract.ret k0 k1 k2 k3 k4 k5) (lorentz_subtract.eval k0 k1 k2 k3 k4 k5 a0 a1 a2 a3 a4 a5 a6 a7)
      = some (sub4 (cart4 k0 k1 k2 a0 a1 a2 a3) (cart4 k3 k4 k5 a4 a5 a6 a7)) :=
  ⟨dom_lorentz_subtract k0 k1 k2 k3 k4 k5 a0 a1 a2 a3 a4 a5 a6 a7 h1 h2 hs1 hs2 hd1 hd2 hrep hc,
   refine_lorentz_subtract k0 k1 k2 k3 k4 k5 a0 a1 a2 a3 a4 a5 a6 a7 h1 h2 hs1 hs2 hd1 hd2 hrep hc⟩

theorem regular_lorentz_equal (k0 : Az) (k1 : Lon) (k2 : Tmp) (k3 : Az) (k4 : Lon) (k5 : Tmp)
    (a0 a1 a2 a3 a4 a5 a6 a7 : ℝ)
    (c1 : Canon4 k0 k1 k2 a0 a1 a2 a3) (c2 : Canon4 k3 k4 k5 a4 a5 a6 a7) (t1 : TanOK k1 a2) (t2 : TanOK k4 a6)
    (h : lorentz_equal.eval k0 k1 k2 k3 k4 k5 a0 a1 a2 a3 a4 a5 a6 a7) :
    lorentz_equal.evalDom k0 k1 k2 k3 k4 k5 a0 a1 a2 a3 a4 a5 a6 a7 ∧
    cart4 k0 k1 k2 a0 a1 a2 a3 = cart4 k3 k4 k5 a4 a5 a6 a7 :=
  ⟨dom_lorentz_equal k0 k1 k2 k3 k4 k5 a0 a1 a2 a3 a4 a5 a6 a7 c1 c2 t1 t2 h,
   refine_lorentz_equal k0 k1 k2 k3 k4 k5 a0 a1 a2 a3 a4 a5 a6 a7 c1 c2 t1 t2 h⟩

theorem regular_lorentz_not_equal (k0 : Az) (k1 : Lon) (k2 : Tmp) (k3 : Az) (k4 : Lon) (k5 : Tmp)
    (a0 a1 a2 a3 a4 a5 a6 a7 : ℝ)
    (c1 : Canon4 k0 k1 k2 a0 a1 a2 a3) (c2 : Canon4 k3 k4 k5 a4 a5 a6 a7) (t1 : TanOK k1 a2) (t2 : TanOK k4 a6)
    (h : ¬ cart4 k0 k1 k2 a0 a1 a2 a3 = cart4 k3 k4 k5 a4 a5 a6 a7) :
    lorentz_not_equal.evalDom k0 k1 k2 k3 k4 k5 a0 a1 a2 a3 a4 a5 a6 a7 ∧
    lorentz_not_equal.eval k0 k1 k2 k3 k4 k5 a0 a1 a2 a3 a4 a5 a6 a7 :=
  ⟨dom_lorentz_not_equal k0 k1 k2 k3 k4 k5 a0 a1 a2 a3 a4 a5 a6 a7 c1 c2 t1 t2 h,
   refine_lorentz_not_equal k0 k1 k2 k3 k4 k5 a0 a1 a2 a3 a4 a5 a6 a7 c1 c2 t1 t2 h⟩

/-- same-system characterisation (`c12_lorentz_isclose_same`) -/
theorem regular_lorentz_isclose (k0 : Az) (k1 : Lon) (k2 : Tmp) (r t e a0 a1 a2 a3 b0 b1 b2 b3 : ℝ) :
    lorentz_isclose.evalDom k0 k1 k2 k0 k1 k2 r t e a0 a1 a2 a3 b0 b1 b2 b3 ∧
    (lorentz_isclose.eval k0 k1 k2 k0 k1 k2 r t e a0 a1 a2 a3 b0 b1 b2 b3 ↔
      (|a0 - b0| ≤ t + r * |b0| ∧ |a1 - b1| ≤ t + r * |b1| ∧ |a2 - b2| ≤ t + r * |b2| ∧
        |a3 - b3| ≤ t + r * |b3|)) :=
  ⟨dom_lorentz_isclose_same k0 k1 k2 r t e a0 a1 a2 a3 b0 b1 b2 b3,
   c12_lorentz_isclose_same k0 k1 k2 r t e a0 a1 a2 a3 b0 b1 b2 b3⟩

theorem regular_lorentz_deltaRapidityPhi2 (k0 : Az) (k1 : Lon) (k2 : Tmp) (k3 : Az) (k4 : Lon) (k5 : Tmp)
    (a0 a1 a2 a3 a4 a5 a6 a7 : ℝ)
    (h1 : TanOK k1 a2) (h2 : TanOK k4 a6) (hs1 : SinOK k1 a2) (hs2 : SinOK k4 a6)
    (hd1 : CanonTmp k2 a3) (hd2 : CanonTmp k5 a7)
    (hz1 : |zOf k0 k1 a0 a1 a2| < tOf k0 k1 k2 a0 a1 a2 a3) (hz2 : |zOf k3 k4 a4 a5 a6| < tOf k3 k4 k5 a4 a5 a6 a7) :
    lorentz_deltaRapidityPhi2.evalDom k0 k1 k2 k3 k4 k5 a0 a1 a2 a3 a4 a5 a6 a7 ∧
    lorentz_deltaRapidityPhi2.eval k0 k1 k2 k3 k4 k5 a0 a1 a2 a3 a4 a5 a6 a7
      = planar_deltaphi.eval k0 k3 a0 a1 a4 a5 ^ 2
        + (rapidityOf (cart4 k0 k1 k2 a0 a1 a2 a3) - rapidityOf (cart4 k3 k4 k5 a4 a5 a6 a7)) ^ 2 :=
  ⟨dom_lorentz_deltaRapidityPhi2 k0 k1 k2 k3 k4 k5 a0 a1 a2 a3 a4 a5 a6 a7 h1 h2 hs1 hs2 hd1 hd2 hz1 hz2,
   refine_lorentz_deltaRapidityPhi2 k0 k1 k2 k3 k4 k5 a0 a1 a2 a3 a4 a5 a6 a7 h1 h2 hs1 hs2 hd1 hd2 hz1 hz2⟩

theorem regular_lorentz_deltaRapidityPhi (k0 : Az) (k1 : Lon) (k2 : Tmp) (k3 : Az) (k4 : Lon) (k5 : Tmp)
    (a0 a1 a2 a3 a4 a5 a6 a7 : ℝ)
    (h1 : TanOK k1 a2) (h2 : TanOK k4 a6) (hs1 : SinOK k1 a2) (hs2 : SinOK k4 a6)
    (hd1 : CanonTmp k2 a3) (hd2 : CanonTmp k5 a7)
    (hz1 : |zOf k0 k1 a0 a1 a2| < tOf k0 k1 k2 a0 a1 a2 a3) (hz2 : |zOf k3 k4 a4 a5 a6| < tOf k3 k4 k5 a4 a5 a6 a7) :
    lorentz_deltaRapidityPhi.evalDom k0 k1 k2 k3 k4 k5 a0 a1 a2 a3 a4 a5 a6 a7 ∧
    lorentz_deltaRapidityPhi.eval k0 k1 k2 k3 k4 k5 a0 a1 a2 a3 a4 a5 a6 a7
      = sqrt (planar_deltaphi.eval k0 k3 a0 a1 a4 a5 ^ 2
        + (rapidityOf (cart4 k0 k1 k2 a0 a1 a2 a3) - rapidityOf (cart4 k3 k4 k5 a4 a5 a6 a7)) ^ 2) :=
  ⟨dom_lorentz_deltaRapidityPhi k0 k1 k2 k3 k4 k5 a0 a1 a2 a3 a4 a5 a6 a7 h1 h2 hs1 hs2 hd1 hd2 hz1 hz2,
   refine_lorentz_deltaRapidityPhi k0 k1 k2 k3 k4 k5 a0 a1 a2 a3 a4 a5 a6 a7 h1 h2 hs1 hs2 hd1 hd2 hz1 hz2⟩

/-- non-vacuity (`regular_lorentz_dot`, key `(rhophi, eta, tau) × (rhophi, theta, t)`, `η₁ = 1`, `τ₁ = 2`, `θ₂ = 1`, `t₂ = 5`) -/
example : TanOK .eta 1 ∧ TanOK .theta 1 ∧ SinOK .eta 1 ∧ SinOK .theta 1 ∧ CanonTmp .tau 2 ∧ CanonTmp .t 5
    ∧ LB.DotEtaOK .rhophi .eta .rhophi .theta 1 1 :=
  ⟨trivial, ne_of_gt cos_one_pos, trivial, (sin_pos_of_pos_of_lt_pi one_pos (by linarith [two_le_pi])).ne',
    (by show (0 : ℝ) ≤ 2; norm_num), trivial, one_ne_zero⟩

/-! ## boosts (8 modules) -/

theorem regular_lorentz_boostX_beta (k0 : Az) (k1 : Lon) (k2 : Tmp) (β a b c d : ℝ)
    (h : TanOK k1 c) (hs : SinOK k1 c) (hd : CanonTmp k2 d) (hβ : |β| < 1) :
    lorentz_boostX_beta.evalDom k0 k1 k2 β a b c d ∧
    interp4 (lorentz_boostX_beta.ret k0 k1 k2) (lorentz_boostX_beta.eval k0 k1 k2 β a b c d)
      = some (boostX (P.rpow (1 - β ^ 2) (-0.5)) (β * P.rpow (1 - β ^ 2) (-0.5)) (cart4 k0 k1 k2 a b c d)) :=
  ⟨dom_lorentz_boostX_beta k0 k1 k2 β a b c d h hs hd hβ, refine_lorentz_boostX_beta_spec k0 k1 k2 β a b c d h hs hd hβ⟩

theorem regular_lorentz_boostY_beta (k0 : Az) (k1 : Lon) (k2 : Tmp) (β a b c d : ℝ)
    (h : TanOK k1 c) (hs : SinOK k1 c) (hd : CanonTmp k2 d) (hβ : |β| < 1) :
    lorentz_boostY_beta.evalDom k0 k1 k2 β a b c d ∧
    interp4 (lorentz_boostY_beta.ret k0 k1 k2) (lorentz_boostY_beta.eval k0 k1 k2 β a b c d)
      = some (boostY (P.rpow (1 - β ^ 2) (-0.5)) (β * P.rpow (1 - β ^ 2) (-0.5)) (cart4 k0 k1 k2 a b c d)) :=
  ⟨dom_lorentz_boostY_beta k0 k1 k2 β a b c d h hs hd hβ, refine_lorentz_boostY_beta_spec k0 k1 k2 β a b c d h hs hd hβ⟩

theorem regular_lorentz_boostZ_beta (k0 : Az) (k1 : Lon) (k2 : Tmp) (β a b c d : ℝ)
    (h : TanOK k1 c) (hs : SinOK k1 c) (hd : CanonTmp k2 d) (hβ : |β| < 1) :
    lorentz_boostZ_beta.evalDom k0 k1 k2 β a b c d ∧
    interp4 (lorentz_boostZ_beta.ret k0 k1 k2) (lorentz_boostZ_beta.eval k0 k1 k2 β a b c d)
      = some (boostZ (P.rpow (1 - β ^ 2) (-0.5)) (β * P.rpow (1 - β ^ 2) (-0.5)) (cart4 k0 k1 k2 a b c d)) :=
  ⟨dom_lorentz_boostZ_beta k0 k1 k2 β a b c d h hs hd hβ, refine_lorentz_boostZ_beta_spec k0 k1 k2 β a b c d h hs hd hβ⟩

theorem regular_lorentz_boostX_gamma (k0 : Az) (k1 : Lon) (k2 : Tmp) (γ a b c d : ℝ)
    (h : TanOK k1 c) (hs : SinOK k1 c) (hd : CanonTmp k2 d) (hγ : 1 ≤ |γ|) :
    lorentz_boostX_gamma.evalDom k0 k1 k2 γ a b c d ∧
    interp4 (lorentz_boostX_gamma.ret k0 k1 k2) (lorentz_boostX_gamma.eval k0 k1 k2 γ a b c d)
      = some (boostX |γ| (P.copysign (sqrt (|γ| ^ 2 - 1)) γ) (cart4 k0 k1 k2 a b c d)) :=
  ⟨dom_lorentz_boostX_gamma k0 k1 k2 γ a b c d h hs hd hγ, refine_lorentz_boostX_gamma_spec k0 k1 k2 γ a b c d h hs hd hγ⟩

theorem regular_lorentz_boostY_gamma (k0 : Az) (k1 : Lon) (k2 : Tmp) (γ a b c d : ℝ)
    (h : TanOK k1 c) (hs : SinOK k1 c) (hd : CanonTmp k2 d) (hγ : 1 ≤ |γ|) :
    lorentz_boostY_gamma.evalDom k0 k1 k2 γ a b c d ∧
    interp4 (lorentz_boostY_gamma.ret k0 k1 k2) (lorentz_boostY_gamma.eval k0 k1 k2 γ a b c d)
      = some (boostY |γ| (P.copysign (sqrt (|γ| ^ 2 - 1)) γ) (cart4 k0 k1 k2 a b c d)) :=
  ⟨dom_lorentz_boostY_gamma k0 k1 k2 γ a b c d h hs hd hγ, refine_lorentz_boostY_gamma_spec k0 k1 k2 γ a b c d h hs hd hγ⟩

theorem regular_lorentz_boostZ_gamma (k0 : Az) (k1 : Lon) (k2 : Tmp) (γ a b c d : ℝ)
    (h : TanOK k1 c) (hs : SinOK k1 c) (hd : CanonTmp k2 d) (hγ : 1 ≤ |γ|) :
    lorentz_boostZ_gamma.evalDom k0 k1 k2 γ a b c d ∧
    interp4 (lorentz_boostZ_gamma.ret k0 k1 k2) (lorentz_boostZ_gamma.eval k0 k1 k2 γ a b c d)
      = some (boostZ |γ| (P.copysign (sqrt (|γ| ^ 2 - 1)) γ) (cart4 k0 k1 k2 a b c d)) :=
  ⟨dom_lorentz_boostZ_gamma k0 k1 k2 γ a b c d h hs hd hγ, refine_lorentz_boostZ_gamma_spec k0 k1 k2 γ a b c d h hs hd hγ⟩

theorem regular_lorentz_boost_beta3 (k0 : Az) (k1 : Lon) (k2 : Tmp) (k3 : Az) (k4 : Lon) (a0 a1 a2 a3 a4 a5 a6 : ℝ)
    (h1 : TanOK k1 a2) (h2 : TanOK k4 a6) (hd : CanonTmp k2 a3) (hβ : mag2Of k3 k4 a4 a5 a6 < 1)
    (hs1 : SinOK k1 a2) (hs2 : SinOK k4 a6) :
    lorentz_boost_beta3.evalDom k0 k1 k2 k3 k4 a0 a1 a2 a3 a4 a5 a6 ∧
    interp4 (lorentz_boost_beta3.ret k0 k1 k2 k3 k4) (lorentz_boost_beta3.eval k0 k1 k2 k3 k4 a0 a1 a2 a3 a4 a5 a6)
      = some (boostU (1 / sqrt (1 - mag2Of k3 k4 a4 a5 a6)) (1 / sqrt (1 - mag2Of k3 k4 a4 a5 a6) * xOf k3 a4 a5)
          (1 / sqrt (1 - mag2Of k3 k4 a4 a5 a6) * yOf k3 a4 a5) (1 / sqrt (1 - mag2Of k3 k4 a4 a5 a6) * zOf k3 k4 a4 a5 a6)
          (cart4 k0 k1 k2 a0 a1 a2 a3)) :=
  ⟨dom_lorentz_boost_beta3_partial k0 k1 k2 k3 k4 a0 a1 a2 a3 a4 a5 a6 h1 h2 hd hβ hs1 hs2,
   refine_lorentz_boost_beta3_spec k0 k1 k2 k3 k4 a0 a1 a2 a3 a4 a5 a6 h1 h2 hd hβ⟩

theorem regular_lorentz_boost_p4 (k0 : Az) (k1 : Lon) (k2 : Tmp) (k3 : Az) (k4 : Lon) (k5 : Tmp)
    (a0 a1 a2 a3 a4 a5 a6 a7 : ℝ) (h1 : TanOK k1 a2) (h2 : TanOK k4 a6) (hs2 : SinOK k4 a6)
    (hd1 : CanonTmp k2 a3) (hd2 : CanonTmp k5 a7)
    (hm : 0 < tOf k3 k4 k5 a4 a5 a6 a7 ^ 2 - mag2Of k3 k4 a4 a5 a6) (ht : 0 < tOf k3 k4 k5 a4 a5 a6 a7)
    (hs1 : SinOK k1 a2) :
    lorentz_boost_p4.evalDom k0 k1 k2 k3 k4 k5 a0 a1 a2 a3 a4 a5 a6 a7 ∧
    interp4 (lorentz_boost_p4.ret k0 k1 k2 k3 k4 k5) (lorentz_boost_p4.eval k0 k1 k2 k3 k4 k5 a0 a1 a2 a3 a4 a5 a6 a7)
      = some (boostU (tOf k3 k4 k5 a4 a5 a6 a7 / sqrt (tOf k3 k4 k5 a4 a5 a6 a7 ^ 2 - mag2Of k3 k4 a4 a5 a6))
          (xOf k3 a4 a5 / sqrt (tOf k3 k4 k5 a4 a5 a6 a7 ^ 2 - mag2Of k3 k4 a4 a5 a6))
          (yOf k3 a4 a5 / sqrt (tOf k3 k4 k5 a4 a5 a6 a7 ^ 2 - mag2Of k3 k4 a4 a5 a6))
          (zOf k3 k4 a4 a5 a6 / sqrt (tOf k3 k4 k5 a4 a5 a6 a7 ^ 2 - mag2Of k3 k4 a4 a5 a6))
          (cart4 k0 k1 k2 a0 a1 a2 a3)) :=
  ⟨dom_lorentz_boost_p4_partial k0 k1 k2 k3 k4 k5 a0 a1 a2 a3 a4 a5 a6 a7 h1 h2 hs2 hd1 hd2 hm ht hs1,
   refine_lorentz_boost_p4_spec k0 k1 k2 k3 k4 k5 a0 a1 a2 a3 a4 a5 a6 a7 h1 h2 hs2 hd1 hd2 hm ht⟩

/-- non-vacuity (`regular_lorentz_boost_beta3`, θ-stored τ-vector `(·, ·, θ = 1, τ = 1)` boosted by the Cartesian velocity
`β = (1/2, 0, 0)`) -/
example : TanOK .theta 1 ∧ TanOK .z 0 ∧ CanonTmp .tau 1 ∧ mag2Of .xy .z (1 / 2) 0 0 < 1 ∧ SinOK .theta 1 ∧ SinOK .z 0 :=
  ⟨ne_of_gt cos_one_pos, trivial, (by show (0 : ℝ) ≤ 1; norm_num), by norm_num [mag2Of, xOf, yOf, zOf],
    (sin_pos_of_pos_of_lt_pi one_pos (by linarith [two_le_pi])).ne', trivial⟩

/-!
## Table: what regularity (H') needed beyond the refinement hypotheses (H)

"same" = `regular_<m>` has exactly the hypotheses of the refinement theorem.  `SinOK k c` is `sin c ≠ 0` for θ storage
(`True` otherwise); `TanOK k c` is `cos c ≠ 0` for θ storage; `DotEtaOK` is `η ≠ 0` for the η operand of the key pairs
`rhophi_eta × rhophi_theta` and `rhophi_theta × rhophi_eta`.

| module                      | refinement theorem                     | H' vs H |
|-----------------------------|----------------------------------------|---------|
| planar_x, y, rho, rho2      | refine_planar_…                        | same (no hypotheses) |
| planar_phi                  | refine_planar_phi                      | same |
| planar_dot, add, subtract   | refine_planar_…                        | same (no hypotheses) |
| planar_scale, rotateZ, transform2D, deltaphi | refine_planar_…       | same (no hypotheses) |
| planar_unit                 | refine_planar_unit                     | same (`0 < ρ`) |
| planar_equal, not_equal     | refine_planar_equal / _not_equal       | same |
| planar_isclose              | c12_planar_isclose_same                | same (no hypotheses; regular for all key pairs) |
| planar_is_parallel, is_antiparallel, is_perpendicular | c13_planar_is_…_iff | same (no hypotheses) |
| spatial_z                   | refine_spatial_z                       | + SinOK for θ keys (`ρ / tan θ` at θ = 0, π) |
| spatial_mag2, mag           | refine_spatial_mag2 / _mag             | same (SinOK already in H) |
| spatial_costheta, theta     | refine_spatial_costheta / _theta       | same (`Canon3`, `0 < |p|²`) |
| spatial_cottheta            | refine_spatial_cottheta                | + SinOK for θ keys; + η ≠ 0 for η keys (`1 / tan (2 arctan e^{-η})`) |
| spatial_eta                 | refine_spatial_eta                     | same |
| spatial_dot                 | refine_spatial_dot                     | + SinOK for θ operands; + η ≠ 0 for the ρφη×ρφθ / ρφθ×ρφη keys |
| spatial_cross               | refine_spatial_cross                   | + SinOK for θ operands |
| spatial_scale               | refine_spatial_scale                   | same |
| spatial_add, subtract       | refine_spatial_add / _subtract         | + SinOK for θ operands |
| spatial_unit                | refine_spatial_unit                    | same |
| spatial_deltaangle          | refine_spatial_deltaangle              | + operands ≠ 0 (`0 < |p₁|²`, `0 < |p₂|²`, all keys); + η ≠ 0 for the ρφη×ρφθ keys |
| spatial_deltaeta, deltaR2   | refine_spatial_deltaeta / _deltaR2     | same |
| spatial_deltaR              | refine_spatial_deltaR ∘ refine_spatial_deltaR2 | hypotheses of `refine_spatial_deltaR2` (`refine_spatial_deltaR` alone, `= √deltaR2`, has none: + `0 < ρ`, `CanonLon` for both operands) |
| spatial_equal, not_equal    | refine_spatial_equal / _not_equal      | same |
| spatial_isclose             | c12_spatial_isclose_same               | same (no hypotheses, same-system keys; mixed keys need `Canon3`, `TanOK`: `dom_spatial_isclose_partial`) |
| spatial_is_parallel, is_antiparallel, is_perpendicular | c13_spatial_is_…_iff | + TanOK and SinOK for θ operands; + η ≠ 0 for the ρφη×ρφθ keys (H is empty) |
| spatial_rotateX, rotateY    | refine_spatial_rotateX / Y             | + sin θ ≠ 0 for θ keys |
| spatial_rotate_quaternion, rotate_euler | refine_spatial_rotate_…    | + sin θ ≠ 0 for θ keys |
| spatial_transform3D         | refine_spatial_transform3D_interp      | + sin θ ≠ 0 for θ keys |
| spatial_rotate_axis         | refine_spatial_rotate_axis             | + axis ≠ 0 (`0 < |u|²`, all keys); + sin θ ≠ 0 for θ-stored axis / vector |
| lorentz_t2, t, tau2, tau    | refine_lorentz_…                       | same |
| lorentz_beta, gamma, rapidity | refine_lorentz_…                     | same |
| lorentz_Et2, Et             | refine_lorentz_Et2 / _Et               | same |
| lorentz_Mt2, Mt             | refine_lorentz_Mt2 / _Mt               | + SinOK for the `(·, θ, t)` keys (`z = ρ / tan θ`) |
| lorentz_is_timelike, is_lightlike, is_spacelike | c13_is_…_iff_dot   | + `sin θ ≠ 0 ∧ cos θ ≠ 0` for θ keys, `0 ≤ τ` for τ keys (H is empty; these are the hypotheses of `c13_causal_classes_t_keys` / `_tau_keys`) |
| lorentz_to_beta3            | refine_lorentz_to_beta3_ne_zero        | same |
| lorentz_unit                | refine_lorentz_unit                    | same |
| lorentz_scale               | refine_lorentz_scale_partial           | same |
| lorentz_transform4D         | refine_lorentz_transform4D             | same (SinOK already in H) |
| lorentz_dot                 | refine_lorentz_dot                     | + η ≠ 0 for the `(ρφ, η, ·) × (ρφ, θ, ·)` / `(ρφ, θ, ·) × (ρφ, η, ·)` keys |
| lorentz_add, subtract       | refine_lorentz_add / _subtract         | same (SinOK already in H) |
| lorentz_equal, not_equal    | refine_lorentz_equal / _not_equal      | same |
| lorentz_isclose             | c12_lorentz_isclose_same               | same (no hypotheses, same-system keys; mixed keys need `Canon4`, `TanOK`: `dom_lorentz_isclose_partial`) |
| lorentz_deltaRapidityPhi2, deltaRapidityPhi | refine_lorentz_…       | same |
| lorentz_boostX/Y/Z_beta, boostX/Y/Z_gamma | refine_lorentz_boost…_spec | same (SinOK already in H) |
| lorentz_boost_beta3         | refine_lorentz_boost_beta3_spec        | + SinOK for a θ-stored vector and a θ-stored velocity |
| lorentz_boost_p4            | refine_lorentz_boost_p4_spec           | + SinOK for a θ-stored FIRST operand (booster already has it) |
-/

end VR
