/-
C12 — equality, inequality and closeness are coherent.
Theorems about the *generated* real-number model of
`_compute/{planar,spatial,lorentz}/{equal,not_equal,isclose}.py`, for every
coordinate-system key pair (4 / 36 / 144) at once.
-/
import VectorModel.Gen.Real.planar_equal
import VectorModel.Gen.Real.planar_not_equal
import VectorModel.Gen.Real.planar_isclose
import VectorModel.Gen.Real.spatial_equal
import VectorModel.Gen.Real.spatial_not_equal
import VectorModel.Gen.Real.spatial_isclose
import VectorModel.Gen.Real.lorentz_equal
import VectorModel.Gen.Real.lorentz_not_equal
import VectorModel.Gen.Real.lorentz_isclose
import Mathlib.Tactic.Tauto
import VectorModel.Lemmas.Prim

namespace VR
open VK

/-! ### `!=` is the logical negation of `==`, for every pairing of coordinate systems -/

theorem c12_planar_ne_iff_not_eq (k0 k1 : Az) (a0 a1 a2 a3 : ℝ) :
    planar_not_equal.eval k0 k1 a0 a1 a2 a3 ↔ ¬ planar_equal.eval k0 k1 a0 a1 a2 a3 := by
  cases k0 <;> cases k1 <;> simp only [d_planar_not_equal, d_planar_equal] <;> tauto

theorem c12_spatial_ne_iff_not_eq (k0 : Az) (k1 : Lon) (k2 : Az) (k3 : Lon) (a0 a1 a2 a3 a4 a5 : ℝ) :
    spatial_not_equal.eval k0 k1 k2 k3 a0 a1 a2 a3 a4 a5 ↔ ¬ spatial_equal.eval k0 k1 k2 k3 a0 a1 a2 a3 a4 a5 := by
  cases k0 <;> cases k1 <;> cases k2 <;> cases k3 <;>
    simp only [d_spatial_not_equal, d_spatial_equal] <;> tauto

theorem c12_lorentz_ne_iff_not_eq (k0 : Az) (k1 : Lon) (k2 : Tmp) (k3 : Az) (k4 : Lon) (k5 : Tmp)
    (a0 a1 a2 a3 a4 a5 a6 a7 : ℝ) :
    lorentz_not_equal.eval k0 k1 k2 k3 k4 k5 a0 a1 a2 a3 a4 a5 a6 a7 ↔
      ¬ lorentz_equal.eval k0 k1 k2 k3 k4 k5 a0 a1 a2 a3 a4 a5 a6 a7 := by
  cases k0 <;> cases k1 <;> cases k2 <;> cases k3 <;> cases k4 <;> cases k5 <;>
    simp only [d_lorentz_not_equal, d_lorentz_equal, d_spatial_not_equal, d_spatial_equal] <;> tauto

/-! ### `==` is reflexive and symmetric (symmetry relates key `(k₁,k₂)` to `(k₂,k₁)`) -/

theorem c12_planar_eq_refl (k : Az) (a0 a1 : ℝ) : planar_equal.eval k k a0 a1 a0 a1 := by
  induction k <;> simp only [d_planar_equal] <;> trivial

theorem c12_planar_eq_symm (k0 k1 : Az) (a0 a1 a2 a3 : ℝ) :
    planar_equal.eval k0 k1 a0 a1 a2 a3 ↔ planar_equal.eval k1 k0 a2 a3 a0 a1 := by
  cases k0 <;> cases k1 <;> simp only [d_planar_equal] <;>
    constructor <;> rintro ⟨h1, h2⟩ <;> exact ⟨h1.symm, h2.symm⟩

theorem c12_spatial_eq_refl (k0 : Az) (k1 : Lon) (a0 a1 a2 : ℝ) :
    spatial_equal.eval k0 k1 k0 k1 a0 a1 a2 a0 a1 a2 := by
  induction k0 <;> induction k1 <;> simp only [d_spatial_equal] <;> trivial

theorem c12_spatial_eq_symm (k0 : Az) (k1 : Lon) (k2 : Az) (k3 : Lon) (a0 a1 a2 a3 a4 a5 : ℝ) :
    spatial_equal.eval k0 k1 k2 k3 a0 a1 a2 a3 a4 a5 ↔ spatial_equal.eval k2 k3 k0 k1 a3 a4 a5 a0 a1 a2 := by
  cases k0 <;> cases k1 <;> cases k2 <;> cases k3 <;> simp only [d_spatial_equal] <;>
    constructor <;> rintro ⟨⟨h1, h2⟩, h3⟩ <;> exact ⟨⟨h1.symm, h2.symm⟩, h3.symm⟩

theorem c12_lorentz_eq_refl (k0 : Az) (k1 : Lon) (k2 : Tmp) (a0 a1 a2 a3 : ℝ) :
    lorentz_equal.eval k0 k1 k2 k0 k1 k2 a0 a1 a2 a3 a0 a1 a2 a3 := by
  induction k0 <;> induction k1 <;> induction k2 <;>
    simp only [d_lorentz_equal, d_spatial_equal] <;> trivial

theorem c12_lorentz_eq_symm (k0 : Az) (k1 : Lon) (k2 : Tmp) (k3 : Az) (k4 : Lon) (k5 : Tmp)
    (a0 a1 a2 a3 a4 a5 a6 a7 : ℝ) :
    lorentz_equal.eval k0 k1 k2 k3 k4 k5 a0 a1 a2 a3 a4 a5 a6 a7 ↔
      lorentz_equal.eval k3 k4 k5 k0 k1 k2 a4 a5 a6 a7 a0 a1 a2 a3 := by
  cases k0 <;> cases k1 <;> cases k2 <;> cases k3 <;> cases k4 <;> cases k5 <;>
    simp only [d_lorentz_equal, d_spatial_equal] <;>
    constructor <;> rintro ⟨h0, ⟨h1, h2⟩, h3⟩ <;> exact ⟨h0.symm, ⟨h1.symm, h2.symm⟩, h3.symm⟩

/-! ### same-system operands: `==` ⇔ all stored coordinates equal; `isclose` ⇔ every stored
coordinate within `atol + rtol * |other|` -/

theorem c12_planar_eq_same (k : Az) (a0 a1 b0 b1 : ℝ) :
    planar_equal.eval k k a0 a1 b0 b1 ↔ (a0 = b0 ∧ a1 = b1) := by
  induction k <;> simp only [d_planar_equal]

theorem c12_spatial_eq_same (k0 : Az) (k1 : Lon) (a0 a1 a2 b0 b1 b2 : ℝ) :
    spatial_equal.eval k0 k1 k0 k1 a0 a1 a2 b0 b1 b2 ↔ (a0 = b0 ∧ a1 = b1 ∧ a2 = b2) := by
  induction k0 <;> induction k1 <;> simp only [d_spatial_equal, and_assoc]

theorem c12_lorentz_eq_same (k0 : Az) (k1 : Lon) (k2 : Tmp) (a0 a1 a2 a3 b0 b1 b2 b3 : ℝ) :
    lorentz_equal.eval k0 k1 k2 k0 k1 k2 a0 a1 a2 a3 b0 b1 b2 b3 ↔ (a0 = b0 ∧ a1 = b1 ∧ a2 = b2 ∧ a3 = b3) := by
  induction k0 <;> induction k1 <;> induction k2 <;>
    simp only [d_lorentz_equal, d_spatial_equal] <;> tauto

theorem c12_planar_isclose_same (k : Az) (r t e a0 a1 b0 b1 : ℝ) :
    planar_isclose.eval k k r t e a0 a1 b0 b1 ↔
      (|a0 - b0| ≤ t + r * |b0| ∧ |a1 - b1| ≤ t + r * |b1|) := by
  induction k <;> simp only [d_planar_isclose, P.isclose_iff]

theorem c12_spatial_isclose_same (k0 : Az) (k1 : Lon) (r t e a0 a1 a2 b0 b1 b2 : ℝ) :
    spatial_isclose.eval k0 k1 k0 k1 r t e a0 a1 a2 b0 b1 b2 ↔
      (|a0 - b0| ≤ t + r * |b0| ∧ |a1 - b1| ≤ t + r * |b1| ∧ |a2 - b2| ≤ t + r * |b2|) := by
  induction k0 <;> induction k1 <;> simp only [d_spatial_isclose, P.isclose_iff, and_assoc]

theorem c12_lorentz_isclose_same (k0 : Az) (k1 : Lon) (k2 : Tmp) (r t e a0 a1 a2 a3 b0 b1 b2 b3 : ℝ) :
    lorentz_isclose.eval k0 k1 k2 k0 k1 k2 r t e a0 a1 a2 a3 b0 b1 b2 b3 ↔
      (|a0 - b0| ≤ t + r * |b0| ∧ |a1 - b1| ≤ t + r * |b1| ∧ |a2 - b2| ≤ t + r * |b2| ∧
        |a3 - b3| ≤ t + r * |b3|) := by
  induction k0 <;> induction k1 <;> induction k2 <;>
    simp only [d_lorentz_isclose, d_spatial_isclose, P.isclose_iff] <;> tauto

/-! ### `isclose` is reflexive, implied by `==`, and never stricter when a tolerance grows
(for every pairing of coordinate systems) -/

theorem c12_planar_isclose_refl (k : Az) (r t e a0 a1 : ℝ) (hr : 0 ≤ r) (ht : 0 ≤ t) :
    planar_isclose.eval k k r t e a0 a1 a0 a1 := by
  induction k <;> simp only [d_planar_isclose] <;> exact ⟨P.isclose_refl hr ht _ _, P.isclose_refl hr ht _ _⟩

theorem c12_spatial_isclose_refl (k0 : Az) (k1 : Lon) (r t e a0 a1 a2 : ℝ) (hr : 0 ≤ r) (ht : 0 ≤ t) :
    spatial_isclose.eval k0 k1 k0 k1 r t e a0 a1 a2 a0 a1 a2 := by
  induction k0 <;> induction k1 <;> simp only [d_spatial_isclose] <;>
    exact ⟨⟨P.isclose_refl hr ht _ _, P.isclose_refl hr ht _ _⟩, P.isclose_refl hr ht _ _⟩

theorem c12_lorentz_isclose_refl (k0 : Az) (k1 : Lon) (k2 : Tmp) (r t e a0 a1 a2 a3 : ℝ)
    (hr : 0 ≤ r) (ht : 0 ≤ t) :
    lorentz_isclose.eval k0 k1 k2 k0 k1 k2 r t e a0 a1 a2 a3 a0 a1 a2 a3 := by
  induction k0 <;> induction k1 <;> induction k2 <;>
    simp only [d_lorentz_isclose, d_spatial_isclose] <;>
    exact ⟨P.isclose_refl hr ht _ _, ⟨P.isclose_refl hr ht _ _, P.isclose_refl hr ht _ _⟩, P.isclose_refl hr ht _ _⟩

theorem c12_planar_isclose_of_eq (k0 k1 : Az) (r t e a0 a1 a2 a3 : ℝ) (hr : 0 ≤ r) (ht : 0 ≤ t)
    (h : planar_equal.eval k0 k1 a0 a1 a2 a3) : planar_isclose.eval k0 k1 r t e a0 a1 a2 a3 := by
  revert h
  cases k0 <;> cases k1 <;> simp only [d_planar_isclose, d_planar_equal] <;>
    rintro ⟨h1, h2⟩ <;> exact ⟨P.isclose_of_eq h1 hr ht _, P.isclose_of_eq h2 hr ht _⟩

theorem c12_spatial_isclose_of_eq (k0 : Az) (k1 : Lon) (k2 : Az) (k3 : Lon) (r t e a0 a1 a2 a3 a4 a5 : ℝ)
    (hr : 0 ≤ r) (ht : 0 ≤ t) (h : spatial_equal.eval k0 k1 k2 k3 a0 a1 a2 a3 a4 a5) :
    spatial_isclose.eval k0 k1 k2 k3 r t e a0 a1 a2 a3 a4 a5 := by
  revert h
  cases k0 <;> cases k1 <;> cases k2 <;> cases k3 <;> simp only [d_spatial_isclose, d_spatial_equal] <;>
    rintro ⟨⟨h1, h2⟩, h3⟩ <;>
    exact ⟨⟨P.isclose_of_eq h1 hr ht _, P.isclose_of_eq h2 hr ht _⟩, P.isclose_of_eq h3 hr ht _⟩

theorem c12_lorentz_isclose_of_eq (k0 : Az) (k1 : Lon) (k2 : Tmp) (k3 : Az) (k4 : Lon) (k5 : Tmp)
    (r t e a0 a1 a2 a3 a4 a5 a6 a7 : ℝ) (hr : 0 ≤ r) (ht : 0 ≤ t)
    (h : lorentz_equal.eval k0 k1 k2 k3 k4 k5 a0 a1 a2 a3 a4 a5 a6 a7) :
    lorentz_isclose.eval k0 k1 k2 k3 k4 k5 r t e a0 a1 a2 a3 a4 a5 a6 a7 := by
  revert h
  cases k0 <;> cases k1 <;> cases k2 <;> cases k3 <;> cases k4 <;> cases k5 <;>
    simp only [d_lorentz_isclose, d_spatial_isclose, d_lorentz_equal, d_spatial_equal] <;>
    rintro ⟨h0, ⟨h1, h2⟩, h3⟩ <;>
    exact ⟨P.isclose_of_eq h0 hr ht _, ⟨P.isclose_of_eq h1 hr ht _, P.isclose_of_eq h2 hr ht _⟩,
      P.isclose_of_eq h3 hr ht _⟩

theorem c12_planar_isclose_mono (k0 k1 : Az) (r t r' t' e a0 a1 a2 a3 : ℝ) (hr : r ≤ r') (ht : t ≤ t')
    (h : planar_isclose.eval k0 k1 r t e a0 a1 a2 a3) : planar_isclose.eval k0 k1 r' t' e a0 a1 a2 a3 := by
  revert h
  cases k0 <;> cases k1 <;> simp only [d_planar_isclose] <;>
    rintro ⟨h1, h2⟩ <;> exact ⟨P.isclose_mono h1 hr ht, P.isclose_mono h2 hr ht⟩

theorem c12_spatial_isclose_mono (k0 : Az) (k1 : Lon) (k2 : Az) (k3 : Lon) (r t r' t' e a0 a1 a2 a3 a4 a5 : ℝ)
    (hr : r ≤ r') (ht : t ≤ t') (h : spatial_isclose.eval k0 k1 k2 k3 r t e a0 a1 a2 a3 a4 a5) :
    spatial_isclose.eval k0 k1 k2 k3 r' t' e a0 a1 a2 a3 a4 a5 := by
  revert h
  cases k0 <;> cases k1 <;> cases k2 <;> cases k3 <;> simp only [d_spatial_isclose] <;>
    rintro ⟨⟨h1, h2⟩, h3⟩ <;>
    exact ⟨⟨P.isclose_mono h1 hr ht, P.isclose_mono h2 hr ht⟩, P.isclose_mono h3 hr ht⟩

theorem c12_lorentz_isclose_mono (k0 : Az) (k1 : Lon) (k2 : Tmp) (k3 : Az) (k4 : Lon) (k5 : Tmp)
    (r t r' t' e a0 a1 a2 a3 a4 a5 a6 a7 : ℝ) (hr : r ≤ r') (ht : t ≤ t')
    (h : lorentz_isclose.eval k0 k1 k2 k3 k4 k5 r t e a0 a1 a2 a3 a4 a5 a6 a7) :
    lorentz_isclose.eval k0 k1 k2 k3 k4 k5 r' t' e a0 a1 a2 a3 a4 a5 a6 a7 := by
  revert h
  cases k0 <;> cases k1 <;> cases k2 <;> cases k3 <;> cases k4 <;> cases k5 <;>
    simp only [d_lorentz_isclose, d_spatial_isclose] <;>
    rintro ⟨h0, ⟨h1, h2⟩, h3⟩ <;>
    exact ⟨P.isclose_mono h0 hr ht, ⟨P.isclose_mono h1 hr ht, P.isclose_mono h2 hr ht⟩,
      P.isclose_mono h3 hr ht⟩

/-! non-vacuity: a concrete pair meeting the hypotheses -/
example : planar_equal.eval .xy .xy 1 2 1 2 ∧ (0:ℝ) ≤ 1e-5 := by
  simp only [d_planar_equal]; norm_num

end VR
