/-
Property C05 (last sentence: "an operator gives the same value and type as the method it stands for") / C03 for the four
NumPy-ufunc ROUTING TABLES (model: `Glue/Ufunc.lean`; registry lemmas: `Lemmas/UfuncTable.lean`), for ALL ufuncs, operand-kind
lists (any length; dimensions 2-4, both flavors, all backends), outputs, scalar types `S`, compute layers `ev`.

0. closed forms: `c05u_obj_closed`, `c05u_np_closed`, `c05u_sym_closed`, `c05u_chain_closed` (the three `__array_ufunc__` chains
   are ONE chain `chain` behind one prologue `guard`, up to the backend and the error of `power(…, out=…)`), `c05u_ak_closed`
   (the Awkward lookup over the registry's closed form `akSpec`), `c05u_route_closed` (the WHOLE routing without `out=`:
   `route = closedRoute`, checked on the complete finite lattice by kernel evaluation and extended to lists of any length).
1. `c05u_tables_agree` (object = NumPy = SymPy on every request other than `power` with `out=`), `c05u_tables_agree_ak`
   (Awkward = the chains wherever these accept, other than `power`); every difference with a witness: `c05u_diff_power_out`,
   `c05u_diff_power_two` (+ `c05u_diff_power_two_value`), `c05u_diff_power_array`, `c05u_diff_refusal`, `c05u_diff_ak_out`,
   `c05u_diff_ak_sympy`, `c05u_diff_ak_cast_flavor` (+ `c05u_diff_ak_cast_flavor_value`), `c05u_pyop_pow_differs`.
2. every accepted route is the operator of `VG.operator` the ufunc stands for, applied to the vector operand(s) in the documented
   order, one theorem per ufunc, all backends: `c05u_add`, `c05u_subtract`, `c05u_matmul`, `c05u_equal`, `c05u_not_equal`,
   `c05u_multiply_vk`, `c05u_multiply_kv`, `c05u_multiply_array`, `c05u_true_divide`, `c05u_negative`, `c05u_positive`,
   `c05u_absolute`, `c05u_square`, `c05u_sqrt`, `c05u_cbrt`, `c05u_power_ak`, `c05u_power_chain`; summaries
   `c05u_route_is_operator`, `c05u_route_is_operator_vv`; `c05u_seen_id`, `c05u_seen_cast`, `c05u_handler_is_handlerOf`.
3. `c05u_rejected` (the exact accepted set, ONE statement for the four backends, and which exception the caller sees),
   `c05u_mixed_dims_not_rejected` / `c05u_mixed_dims_method_rejects` (mixed dimensions pass the tables; the METHOD refuses).
4. `out=`: `c05u_out` (+ `c05u_out_chain`, `c05u_out_rejected`), `c05u_out_wrong_class`, `c05u_out_ak`,
   `c05u_out_positive_ignored`.
5. deferral: `c05u_defer_lower`, `c05u_defer` (NumPy's ask-everybody protocol = "the table of the highest-priority operand").
6. completeness of the Awkward key table: `c05u_ak_complete_unary`, `c05u_ak_complete_binary` (36 name pairings + 27 with an
   object class), `c05u_ak_complete_real`, `c05u_ak_nothing_else` (420 keys, none twice, every key of an accepted shape).
7. the Python operators: `c05u_pyop_is_ufunc`, `c05u_pyop_unary`, `c05u_pyop_reflected`, `c05u_pyop_pow_differs`,
   `c05u_pyop_inplace`.
8. the two value-level differences evaluated on a toy compute layer: `c05u_diff_power_two_value`,
   `c05u_diff_ak_cast_flavor_value`.
-/
import VectorModel.Lemmas.UfuncTable

set_option linter.unusedVariables false
set_option linter.unusedSimpArgs false
set_option linter.constructorNameAsVariable false
namespace VU
open VG

/-! ## 0. closed forms -/

/-- the same request with every vector operand moved to backend `b` -/
def relabel (b : Backend) : OpK → OpK
  | .vec _ d m => .vec b d m
  | k => k

/-- dimension 2, 3 or 4 (every `Vector` is `Vector2D`, `Vector3D` or `Vector4D`) -/
def OpK.dimOk : OpK → Bool
  | .vec _ d _ => 2 ≤ d && d ≤ 4
  | _ => true

/-- the ONE chain the three `__array_ufunc__` are instances of; `powOut`: what `power` does when outputs are given;
`n`: number of outputs -/
def chain (powOut : Route) (u : Ufunc) (ins : List OpK) (n : Nat) : Route :=
  match u, ins with
  | .absolute, [a] =>
    if a.isVec then (if n != 0 then .typeError else
      match normOf (dimOf a) with | some acc => .valueOf acc 0 | none => .returnsNone) else .notImplemented
  | .add, [a, b] => if a.isVec && b.isVec then .call .add 0 [.input 1] n else .notImplemented
  | .subtract, [a, b] => if a.isVec && b.isVec then .call .subtract 0 [.input 1] n else .notImplemented
  | .multiply, [a, b] =>
    if a.isVec && !b.isVec then .call .scale 0 [.input 1] n
    else if !a.isVec && b.isVec then .call .scale 1 [.input 0] n
    else .notImplemented
  | .negative, [a] => if a.isVec then .call .scale 0 [.negOne] n else .notImplemented
  | .positive, [a] => if a.isVec then .identity 0 else .notImplemented
  | .true_divide, [a, b] => if a.isVec && !b.isVec then .call .scale 0 [.inv 1] n else .notImplemented
  | .power, [a, b] =>
    if a.isVec && !b.isVec then
      match normOf (dimOf a) with
      | some acc => if n != 0 then powOut else .valuePow acc 0 (.input 1)
      | none => .typeError
    else .notImplemented
  | .square, [a] =>
    if a.isVec then (if n != 0 then .typeError else
      match norm2Of (dimOf a) with | some acc => .valueOf acc 0 | none => .returnsNone) else .notImplemented
  | .sqrt, [a] =>
    if a.isVec then (if n != 0 then .typeError else
      match norm2Of (dimOf a) with | some acc => .valuePow acc 0 .quarter | none => .returnsNone) else .notImplemented
  | .cbrt, [a] =>
    if a.isVec then (if n != 0 then .typeError else
      match norm2Of (dimOf a) with | some acc => .valuePow acc 0 .sixth | none => .returnsNone) else .notImplemented
  | .matmul, [a, b] =>
    if a.isVec && b.isVec then (if n != 0 then .typeError else .call .dot 0 [.input 1] 0) else .notImplemented
  | .equal, [a, b] =>
    if a.isVec && b.isVec then (if n != 0 then .typeError else .call .equal 0 [.input 1] 0) else .notImplemented
  | .not_equal, [a, b] =>
    if a.isVec && b.isVec then (if n != 0 then .typeError else .call .not_equal 0 [.input 1] 0) else .notImplemented
  | _, _ => .notImplemented

/-- the prologue of the three `__array_ufunc__`: handler check, `out=` check -/
def guard (b : Backend) (ins outs : List OpK) (r : Route) : Route :=
  match handlerBe ins with
  | none => .assertionError
  | some h => if h != b then .notImplemented else if outs.any (fun o => !o.isBe b) then .typeError else r

/-- what `power(v, k, out=…)` raises -/
def powOutOf : Backend → Route | .np => .indexError | _ => .typeError

theorem c05u_obj_closed (u : Ufunc) (ins outs : List OpK) :
    routeObj u ins outs = guard .obj ins outs (chain .typeError u ins outs.length) := by
  unfold routeObj guard
  cases handlerBe ins with
  | none => rfl
  | some h =>
    simp only
    split
    · rfl
    · split
      · rfl
      · cases u <;> rcases ins with _ | ⟨a, _ | ⟨b, _ | ⟨c, rest⟩⟩⟩ <;>
          (try simp only [chain, absObj]) <;> (try rfl) <;>
          first
            | (cases normOf (dimOf a) <;> rfl)
            | (cases norm2Of (dimOf a) <;> rfl)

theorem c05u_np_closed (u : Ufunc) (ins outs : List OpK) :
    routeNp u ins outs = guard .np ins outs (chain .indexError u ins outs.length) := by
  unfold routeNp guard
  cases handlerBe ins with
  | none => rfl
  | some h =>
    simp only
    split
    · rfl
    · split
      · rfl
      · cases u <;> rcases ins with _ | ⟨a, _ | ⟨b, _ | ⟨c, rest⟩⟩⟩ <;>
          (try simp only [chain, absNp]) <;> (try rfl) <;>
          first
            | (cases normOf (dimOf a) <;> rfl)
            | (cases norm2Of (dimOf a) <;> rfl)

theorem c05u_sym_closed (u : Ufunc) (ins outs : List OpK) :
    routeSym u ins outs = guard .sym ins outs (chain .typeError u ins outs.length) := by
  unfold routeSym guard
  cases handlerBe ins with
  | none => rfl
  | some h =>
    simp only
    split
    · rfl
    · split
      · rfl
      · cases u <;> rcases ins with _ | ⟨a, _ | ⟨b, _ | ⟨c, rest⟩⟩⟩ <;>
          (try simp only [chain, absSym]) <;> (try rfl) <;>
          first
            | (cases normOf (dimOf a) <;> rfl)
            | (cases norm2Of (dimOf a) <;> rfl)

/-- the three chains in one statement -/
theorem c05u_chain_closed (b : Backend) (hb : b ≠ .ak) (u : Ufunc) (ins outs : List OpK) :
    tableOf b u ins outs = guard b ins outs (chain (powOutOf b) u ins outs.length) := by
  cases b
  · exact c05u_obj_closed u ins outs
  · exact c05u_np_closed u ins outs
  · exact c05u_sym_closed u ins outs
  · exact absurd rfl hb

/-! ### the Awkward lookup in closed form (dimensions 2-4) -/

/-- `routeAk` without outputs, with the registry replaced by its closed form `akSpec` -/
def routeAkS (u : Ufunc) (ins : List OpK) : Route := routeAkWith akSpec u ins []

theorem c05u_ak_closed (u : Ufunc) (ins : List OpK) (h : ∀ k ∈ ins, k.dimOk = true) : routeAk u ins [] = routeAkS u ins := by
  have hs : ∀ e ∈ ins.map sigEl, e ∈ els := by
    intro e he
    obtain ⟨k, hk, rfl⟩ := List.mem_map.1 he
    refine sigEl_mem_els k (fun b d m hkk => ?_)
    have := h k hk
    subst hkk
    simpa [OpK.dimOk] using this
  have he := akFind_eq_spec u _ hs
  unfold routeAk routeAkS routeAkWith
  simp only [he]

/-- `out=` is refused by Awkward before anything else -/
theorem c05u_ak_out (u : Ufunc) (ins outs : List OpK) (h : outs ≠ []) : routeAk u ins outs = .notImplemented := by
  unfold routeAk routeAkWith
  cases outs with
  | nil => exact absurd rfl h
  | cons o os => simp

/-- the finite lattice of operand kinds: 4 backends x dimensions 2-4 x 2 flavors, a number, a plain array -/
def lat : List OpK :=
  [.vec .obj 2 false, .vec .obj 2 true, .vec .obj 3 false, .vec .obj 3 true, .vec .obj 4 false, .vec .obj 4 true,
   .vec .np 2 false, .vec .np 2 true, .vec .np 3 false, .vec .np 3 true, .vec .np 4 false, .vec .np 4 true,
   .vec .sym 2 false, .vec .sym 2 true, .vec .sym 3 false, .vec .sym 3 true, .vec .sym 4 false, .vec .sym 4 true,
   .vec .ak 2 false, .vec .ak 2 true, .vec .ak 3 false, .vec .ak 3 true, .vec .ak 4 false, .vec .ak 4 true,
   .scalar, .array]

theorem mem_lat (k : OpK) (h : k.dimOk = true) : k ∈ lat := by
  rcases k with ⟨b, d, m⟩ | _ | _
  · simp only [OpK.dimOk, Bool.and_eq_true, decide_eq_true_eq] at h
    have : d = 2 ∨ d = 3 ∨ d = 4 := by omega
    rcases this with rfl | rfl | rfl <;> cases b <;> cases m <;> decide
  · decide
  · decide

theorem lat_dimOk : ∀ k ∈ lat, k.dimOk = true := by decide

/-! ## 1. the tables agree -/

@[simp] theorem isVec_relabel (b : Backend) (k : OpK) : (relabel b k).isVec = k.isVec := by cases k <;> rfl
@[simp] theorem dimOf_relabel (b : Backend) (k : OpK) : dimOf (relabel b k) = dimOf k := by cases k <;> rfl
@[simp] theorem dimOk_relabel (b : Backend) (k : OpK) : (relabel b k).dimOk = k.dimOk := by cases k <;> rfl
theorem isBe_relabel (b b' : Backend) (k : OpK) : (relabel b k).isBe b' = (k.isVec && b == b') := by
  cases k <;> simp [relabel, OpK.isBe, OpK.isVec]

theorem any_isBe_relabel (b b' : Backend) (ins : List OpK) :
    (ins.map (relabel b)).any (·.isBe b') = (ins.any OpK.isVec && b == b') := by
  induction ins with
  | nil => simp
  | cons k ks ih => simp only [List.map_cons, List.any_cons, ih, isBe_relabel]; cases k.isVec <;> cases (b == b') <;> simp

theorem handlerBe_relabel (b : Backend) (ins : List OpK) :
    handlerBe (ins.map (relabel b)) = if ins.any OpK.isVec then some b else none := by
  unfold handlerBe
  simp only [any_isBe_relabel]
  cases ins.any OpK.isVec <;> cases b <;> simp

theorem any_not_isBe_relabel (b : Backend) (outs : List OpK) :
    (outs.map (relabel b)).any (fun o => !o.isBe b) = outs.any (fun o => !o.isVec) := by
  induction outs with
  | nil => simp
  | cons k ks ih => simp only [List.map_cons, List.any_cons, ih, isBe_relabel]; simp

theorem chain_relabel (e : Route) (b : Backend) (u : Ufunc) (ins : List OpK) (n : Nat) :
    chain e u (ins.map (relabel b)) n = chain e u ins n := by
  cases u <;> rcases ins with _ | ⟨a, _ | ⟨c, _ | ⟨d, rest⟩⟩⟩ <;>
    simp only [chain, List.map_cons, List.map_nil, isVec_relabel, dimOf_relabel]

/-- only `power` with outputs looks at the backend -/
theorem chain_powOut (e1 e2 : Route) (u : Ufunc) (ins : List OpK) (n : Nat) (h : u ≠ .power ∨ n = 0) :
    chain e1 u ins n = chain e2 u ins n := by
  cases u <;> rcases ins with _ | ⟨a, _ | ⟨c, _ | ⟨d, rest⟩⟩⟩ <;> try rfl
  rcases h with h | h
  · exact absurd rfl h
  · subst h; simp only [chain]; rfl

/-- every request to a vector backend, moved to backend `b`, in closed form -/
theorem tableOf_relabel (b : Backend) (hb : b ≠ .ak) (u : Ufunc) (ins outs : List OpK) :
    tableOf b u (ins.map (relabel b)) (outs.map (relabel b)) =
      if ins.any OpK.isVec then
        (if outs.any (fun o => !o.isVec) then .typeError else chain (powOutOf b) u ins outs.length)
      else .assertionError := by
  rw [c05u_chain_closed b hb, guard, handlerBe_relabel, any_not_isBe_relabel, chain_relabel, List.length_map]
  cases ins.any OpK.isVec <;> simp

/-- **the object, NumPy and SymPy tables are the same table**: the same request (every vector operand and output moved to the
backend asked) gets the same route — same method, same `self`, same argument sources, same number of filled outputs, same
refusal — for EVERY ufunc, operand list (any length) and output list, except `power` with `out=` -/
theorem c05u_tables_agree (b1 b2 : Backend) (h1 : b1 ≠ .ak) (h2 : b2 ≠ .ak) (u : Ufunc) (ins outs : List OpK)
    (h : u ≠ .power ∨ outs = []) :
    tableOf b1 u (ins.map (relabel b1)) (outs.map (relabel b1)) = tableOf b2 u (ins.map (relabel b2)) (outs.map (relabel b2)) := by
  rw [tableOf_relabel b1 h1, tableOf_relabel b2 h2,
    chain_powOut (powOutOf b1) (powOutOf b2) u ins outs.length (by rcases h with h | h; exact Or.inl h; exact Or.inr (by simp [h]))]

/-- DIFFERENCE 1 (`power` with `out=`): the object and SymPy tables raise `TypeError` (`_replace_data` refuses a number), the
NumPy table raises `IndexError` (`result[name]` on an array of numbers); nobody fills the output -/
theorem c05u_diff_power_out :
    routeObj .power [.vec .obj 2 false, .scalar] [.vec .obj 2 false] = .typeError ∧
    routeSym .power [.vec .sym 2 false, .scalar] [.vec .sym 2 false] = .typeError ∧
    routeNp .power [.vec .np 2 false, .scalar] [.vec .np 2 false] = .indexError := by decide

/-! ### Awkward against the chain -/

/-- what the Awkward registry + lookup make of a request, given what the chain of the other three backends makes of it:
the same route, except that `power` tests `expo == 2` first (and chokes on an array exponent), and that a refusal is an
exception (`TypeError`, or `ValueError` when a plain array is among the inputs) instead of `NotImplemented` -/
def akView (ins : List OpK) (r : Route) : Route :=
  match r with
  | .valuePow a i (.input j) =>                     -- only `power` has this shape
    if ins[j]? == some .array then .valueError
    else match norm2Of (dimOf (ins[i]?.getD .scalar)) with
      | some a2 => .ifTwo j false (.valueOf a2 i) r
      | none => r
  | .notImplemented => if ins.any (· == .array) then .valueError else .typeError
  | r => r

/-- THE CLOSED FORM of `route` (no outputs): one chain for everybody, seen through `akView` by Awkward, which knows no SymPy -/
def closedRoute (u : Ufunc) (ins : List OpK) : Route :=
  match handlerBe ins with
  | none => .plain
  | some .ak =>
    if ins.any (·.isBe .sym) then (if ins.any (· == .array) then .valueError else .typeError)
    else (akView ins (chain .typeError u ins 0)).surface
  | some _ => (chain .typeError u ins 0).surface

/-- `route` with the registry in closed form (cheap to evaluate) -/
def routeS (u : Ufunc) (ins : List OpK) : Route :=
  match handlerBe ins with
  | some .ak => (routeAkS u ins).surface
  | some h => (tableOf h u ins []).surface
  | none => .plain

theorem route_eq_routeS (u : Ufunc) (ins : List OpK) (h : ∀ k ∈ ins, k.dimOk = true) : route u ins [] = routeS u ins := by
  unfold route routeS
  cases hh : handlerBe ins with
  | none => rfl
  | some b =>
    cases b
    · rfl
    · rfl
    · rfl
    · simp only [tableOf, c05u_ak_closed u ins h]

set_option maxRecDepth 100000 in
private theorem routeS_lat1 : ∀ u ∈ Ufunc.all, ∀ a ∈ lat, routeS u [a] = closedRoute u [a] := by decide +kernel

set_option maxRecDepth 100000 in
private theorem routeS_lat2 : ∀ u ∈ Ufunc.all, ∀ a ∈ lat, ∀ b ∈ lat, routeS u [a, b] = closedRoute u [a, b] := by
  decide +kernel

private theorem chain_len (e : Route) (u : Ufunc) (ins : List OpK) (n : Nat) (h : ins.length ≠ 1 ∧ ins.length ≠ 2) :
    chain e u ins n = .notImplemented := by
  rcases ins with _ | ⟨a, _ | ⟨b, _ | ⟨c, rest⟩⟩⟩
  · cases u <;> rfl
  · simp at h
  · simp at h
  · cases u <;> rfl

private theorem routeAkS_len (u : Ufunc) (ins : List OpK) (h : ins.length ≠ 1 ∧ ins.length ≠ 2) (h0 : ins ≠ []) :
    routeAkS u ins = if ins.any (· == .array) then .valueError else .typeError := by
  unfold routeAkS routeAkWith
  have : akSpec u (ins.map sigEl) = none := akSpec_len u _ (by simpa using h)
  simp only [this, ite_self]
  cases ins with
  | nil => exact absurd rfl h0
  | cons a t => simp

/-- **closed form of the whole routing** (no `out=`): for every ufunc and every operand list of any length over dimensions 2-4 -/
theorem c05u_route_closed (u : Ufunc) (ins : List OpK) (h : ∀ k ∈ ins, k.dimOk = true) : route u ins [] = closedRoute u ins := by
  rw [route_eq_routeS u ins h]
  rcases ins with _ | ⟨a, _ | ⟨b, _ | ⟨c, rest⟩⟩⟩
  · rfl
  · exact routeS_lat1 u (Ufunc.mem_all u) a (mem_lat a (h a (by simp)))
  · exact routeS_lat2 u (Ufunc.mem_all u) a (mem_lat a (h a (by simp))) b (mem_lat b (h b (by simp)))
  · have hl : (a :: b :: c :: rest).length ≠ 1 ∧ (a :: b :: c :: rest).length ≠ 2 := by simp
    unfold routeS closedRoute
    cases hh : handlerBe (a :: b :: c :: rest) with
    | none => rfl
    | some be =>
      cases be
      · simp only [c05u_obj_closed, tableOf, guard, hh, chain_len _ u _ _ hl]; simp
      · simp only [c05u_np_closed, tableOf, guard, hh, chain_len _ u _ _ hl]; simp
      · simp only [c05u_sym_closed, tableOf, guard, hh, chain_len _ u _ _ hl]; simp
      · simp only [routeAkS_len u _ hl (by simp), chain_len _ u _ _ hl, akView]
        split <;> split <;> simp_all [Route.surface]

/-- no SymPy operand next to an Awkward one (Awkward knows no SymPy: `c05u_diff_ak_sympy`) -/
def okSym (ins : List OpK) : Bool := handlerBe ins != some .ak || !ins.any (·.isBe .sym)

/-- a route the chain produces for a ufunc other than `power` is left alone by `akView` when it is accepted -/
private theorem akView_lat2 : ∀ u ∈ Ufunc.all, u ≠ .power → ∀ a ∈ lat, ∀ b ∈ lat,
    (chain .typeError u [a, b] 0).accepted = true → akView [a, b] (chain .typeError u [a, b] 0) = chain .typeError u [a, b] 0 := by
  decide +kernel

private theorem akView_lat1 : ∀ u ∈ Ufunc.all, u ≠ .power → ∀ a ∈ lat,
    (chain .typeError u [a] 0).accepted = true → akView [a] (chain .typeError u [a] 0) = chain .typeError u [a] 0 := by
  decide +kernel

private theorem surface_accepted (r : Route) (h : r.accepted = true) : r.surface = r := by
  cases r <;> first | rfl | (simp [Route.accepted] at h)

private theorem accepted_len (e : Route) (u : Ufunc) (ins : List OpK) (n : Nat) (h : (chain e u ins n).accepted = true) :
    ins.length = 1 ∨ ins.length = 2 := by
  by_cases hl : ins.length ≠ 1 ∧ ins.length ≠ 2
  · rw [chain_len e u ins n hl] at h; simp [Route.accepted] at h
  · omega

/-- **the Awkward table agrees with the other three**: a request made of Awkward operands gets from the Awkward registry the
route the same request made of object / NumPy / SymPy operands gets from `__array_ufunc__`, wherever the latter accept it — for
every ufunc other than `power`, every operand list over dimensions 2-4 -/
theorem c05u_tables_agree_ak (b : Backend) (hb : b ≠ .ak) (u : Ufunc) (hu : u ≠ .power) (ins : List OpK)
    (hd : ∀ k ∈ ins, k.dimOk = true) (hacc : (tableOf b u (ins.map (relabel b)) []).accepted = true) :
    routeAk u (ins.map (relabel .ak)) [] = tableOf b u (ins.map (relabel b)) [] := by
  have hT := tableOf_relabel b hb u ins []
  simp only [List.map_nil, List.any_nil, Bool.false_eq_true, if_false, List.length_nil] at hT
  rw [hT] at hacc ⊢
  by_cases hv : ins.any OpK.isVec = true
  · simp only [hv, if_true] at hacc ⊢
    rw [chain_powOut (powOutOf b) .typeError u ins 0 (Or.inl hu)] at hacc ⊢
    have hd' : ∀ k ∈ ins.map (relabel .ak), k.dimOk = true := by
      intro k hk; obtain ⟨k0, hk0, rfl⟩ := List.mem_map.1 hk; simpa using hd k0 hk0
    have hh : handlerBe (ins.map (relabel .ak)) = some .ak := by rw [handlerBe_relabel, hv]; rfl
    have hns : (ins.map (relabel .ak)).any (·.isBe .sym) = false := by
      rw [any_isBe_relabel]; simp
    have hr := c05u_route_closed u (ins.map (relabel .ak)) hd'
    unfold route closedRoute at hr
    simp only [hh, hns, tableOf, Bool.false_eq_true, if_false, chain_relabel] at hr
    -- the chain's route is accepted: `akView` leaves it alone, and `surface` too
    have hav : akView (ins.map (relabel .ak)) (chain .typeError u ins 0) = chain .typeError u ins 0 := by
      have hc := chain_relabel .typeError .ak u ins 0
      rcases accepted_len _ u ins 0 hacc with hl | hl
      · rcases ins with _ | ⟨a, _ | ⟨c, rest⟩⟩ <;> simp at hl
        have := akView_lat1 u (Ufunc.mem_all u) hu (relabel .ak a) (mem_lat _ (hd' _ (by simp)))
        simp only [List.map_cons, List.map_nil] at hc ⊢
        rw [hc] at this
        exact this hacc
      · rcases ins with _ | ⟨a, _ | ⟨c, _ | ⟨d, rest⟩⟩⟩ <;> simp at hl
        have := akView_lat2 u (Ufunc.mem_all u) hu (relabel .ak a) (mem_lat _ (hd' _ (by simp)))
          (relabel .ak c) (mem_lat _ (hd' _ (by simp)))
        simp only [List.map_cons, List.map_nil] at hc ⊢
        rw [hc] at this
        exact this hacc
    rw [hav, surface_accepted _ hacc] at hr
    -- `routeAk` itself (not only its surface) is that route
    have hne : routeAk u (ins.map (relabel .ak)) [] ≠ .notImplemented := by
      intro h; rw [h] at hr; rw [← hr] at hacc; simp [Route.surface, Route.accepted] at hacc
    have hs : (routeAk u (ins.map (relabel .ak)) []).surface = routeAk u (ins.map (relabel .ak)) [] := by
      cases hq : routeAk u (ins.map (relabel .ak)) [] <;> first | rfl | exact absurd hq hne
    rw [← hs]; exact hr
  · simp only [hv, Bool.false_eq_true, if_false] at hacc
    simp [Route.accepted] at hacc

/-- DIFFERENCE 2 (`power`): the Awkward registration tests `expo == 2` and then returns `rho2 | mag2 | tau2`, the three chains
compute `numpy.absolute(v) ** expo` whatever the exponent -/
theorem c05u_diff_power_two : ∀ d ∈ [2, 3, 4], ∀ m ∈ [false, true],
    routeAk .power [.vec .ak d m, .scalar] [] = .ifTwo 1 false (.valueOf (norm2Acc d) 0) (.valuePow (normAcc d) 0 (.input 1)) ∧
    routeNp .power [.vec .np d m, .scalar] [] = .valuePow (normAcc d) 0 (.input 1) ∧
    routeObj .power [.vec .obj d m, .scalar] [] = .valuePow (normAcc d) 0 (.input 1) ∧
    routeSym .power [.vec .sym d m, .scalar] [] = .valuePow (normAcc d) 0 (.input 1) := by decide +kernel

/-- DIFFERENCE 3 (`power` with an array exponent): Awkward's `expo == 2` has no truth value (`ValueError`); the chains accept -/
theorem c05u_diff_power_array :
    routeAk .power [.vec .ak 2 false, .array] [] = .valueError ∧
    routeNp .power [.vec .np 2 false, .array] [] = .valuePow .rho 0 (.input 1) := by decide +kernel

/-- DIFFERENCE 4 (refusals): the chains return `NotImplemented` (NumPy then raises `TypeError`); Awkward raises `TypeError`
itself, or `ValueError` when a plain array is among the inputs -/
theorem c05u_diff_refusal :
    routeNp .add [.vec .np 2 false, .scalar] [] = .notImplemented ∧
    routeAk .add [.vec .ak 2 false, .scalar] [] = .typeError ∧
    routeNp .add [.vec .np 2 false, .array] [] = .notImplemented ∧
    routeAk .add [.vec .ak 2 false, .array] [] = .valueError := by decide +kernel

/-- DIFFERENCE 5 (`out=`): honoured by the chains, refused by Awkward -/
theorem c05u_diff_ak_out :
    routeNp .add [.vec .np 2 false, .vec .np 2 false] [.vec .np 2 false] = .call .add 0 [.input 1] 1 ∧
    routeAk .add [.vec .ak 2 false, .vec .ak 2 false] [.vec .ak 2 false] = .notImplemented := by decide +kernel

/-- DIFFERENCE 6 (partners): the Awkward registry knows Awkward records, object classes and (through `__cast__`) NumPy vector
arrays, but no SymPy vector; the chains accept ANY `Vector` next to their own (the METHOD then refuses libraries that do not mix) -/
theorem c05u_diff_ak_sympy :
    routeAk .add [.vec .ak 2 false, .vec .sym 2 false] [] = .typeError ∧
    routeSym .add [.vec .sym 2 false, .vec .obj 2 false] [] = .call .add 0 [.input 1] 0 ∧
    routeSym .add [.vec .sym 2 false, .vec .np 2 false] [] = .call .add 0 [.input 1] 0 := by decide +kernel

/-- DIFFERENCE 7 (flavor): Awkward sees a NumPy vector array through `vector.Array(v)`, whose record name is the GENERIC one -/
theorem c05u_diff_ak_cast_flavor (d : Nat) : sigEl (.vec .np d true) = .name false d ∧ akCastK (.vec .np d true) = .vec .ak d false :=
  ⟨rfl, rfl⟩

/-! ## 3. what is rejected -/

/-- the accepted requests, by the SHAPE of the operand list only (vector / not a vector; dimensions and flavors play no role) -/
def acceptSpec (u : Ufunc) (ins : List OpK) : Bool :=
  match u, ins with
  | .absolute, [a] | .negative, [a] | .positive, [a] | .square, [a] | .sqrt, [a] | .cbrt, [a] => a.isVec
  | .add, [a, b] | .subtract, [a, b] | .matmul, [a, b] | .equal, [a, b] | .not_equal, [a, b] => a.isVec && b.isVec
  | .multiply, [a, b] => a.isVec != b.isVec
  | .true_divide, [a, b] | .power, [a, b] => a.isVec && !b.isVec
  | _, _ => false

/-- Awkward's two extra refusals: a SymPy partner, an array exponent -/
def akOk (u : Ufunc) (ins : List OpK) : Bool :=
  handlerBe ins != some .ak || (!ins.any (·.isBe .sym) && !(u == .power && ins[1]? == some .array))

private theorem rejected_lat1 : ∀ u ∈ Ufunc.all, ∀ a ∈ lat, handlerBe [a] ≠ none →
    (closedRoute u [a]).accepted = (acceptSpec u [a] && akOk u [a]) ∧
    ((closedRoute u [a]).accepted = false →
      closedRoute u [a] = if handlerBe [a] == some .ak && [a].any (· == .array) then .valueError else .typeError) := by
  decide +kernel

set_option maxRecDepth 100000 in
private theorem rejected_lat2 : ∀ u ∈ Ufunc.all, ∀ a ∈ lat, ∀ b ∈ lat, handlerBe [a, b] ≠ none →
    (closedRoute u [a, b]).accepted = (acceptSpec u [a, b] && akOk u [a, b]) ∧
    ((closedRoute u [a, b]).accepted = false →
      closedRoute u [a, b] = if handlerBe [a, b] == some .ak && [a, b].any (· == .array) then .valueError else .typeError) := by
  decide +kernel

private theorem acceptSpec_len (u : Ufunc) (ins : List OpK) (h : ins.length ≠ 1 ∧ ins.length ≠ 2) : acceptSpec u ins = false := by
  rcases ins with _ | ⟨a, _ | ⟨b, _ | ⟨c, rest⟩⟩⟩
  · cases u <;> rfl
  · simp at h
  · simp at h
  · cases u <;> rfl

private theorem closedRoute_len (u : Ufunc) (ins : List OpK) (hl : ins.length ≠ 1 ∧ ins.length ≠ 2) (be : Backend)
    (hq : handlerBe ins = some be) :
    closedRoute u ins = if be == .ak && ins.any (· == .array) then .valueError else .typeError := by
  unfold closedRoute
  rw [hq]
  cases be
  · simp [chain_len _ u _ _ hl, Route.surface]
  · simp [chain_len _ u _ _ hl, Route.surface]
  · simp [chain_len _ u _ _ hl, Route.surface]
  · simp only [chain_len _ u _ _ hl, akView]
    by_cases h1 : ins.any (·.isBe .sym) = true <;> by_cases h2 : ins.any (· == .array) = true <;>
      simp [h1, h2, Route.surface]

/-- **the exact set of rejected combinations**, the same for every backend: a request with at least one vector operand
(dimensions 2-4) is accepted iff its SHAPE is one of

    unary ufuncs (absolute negative positive square sqrt cbrt):  [vector]
    add subtract matmul equal not_equal:                         [vector, vector]
    multiply:                                                    [vector, non-vector] or [non-vector, vector]
    true_divide, power:                                          [vector, non-vector]

— so `scalar / vector`, `vector * vector`, `vector ** vector`, any `other` ufunc, any wrong arity are refused —, and, when the
answering table is Awkward's, no operand is a SymPy vector and the exponent of `power` is not an array.  MIXED DIMENSIONS and
mixed libraries are NOT rejected here (`c05u_mixed_dims_not_rejected`): the method does that.  What the caller sees of a refusal
is `TypeError`, except Awkward with a plain array among the inputs: `ValueError`. -/
theorem c05u_rejected (u : Ufunc) (ins : List OpK) (hd : ∀ k ∈ ins, k.dimOk = true) (hh : handlerBe ins ≠ none) :
    (route u ins []).accepted = (acceptSpec u ins && akOk u ins) ∧
    ((route u ins []).accepted = false →
      route u ins [] = if handlerBe ins == some .ak && ins.any (· == .array) then .valueError else .typeError) := by
  rw [c05u_route_closed u ins hd]
  rcases ins with _ | ⟨a, _ | ⟨b, _ | ⟨c, rest⟩⟩⟩
  · exact absurd rfl hh
  · exact rejected_lat1 u (Ufunc.mem_all u) a (mem_lat a (hd a (by simp))) hh
  · exact rejected_lat2 u (Ufunc.mem_all u) a (mem_lat a (hd a (by simp))) b (mem_lat b (hd b (by simp))) hh
  · have hl : (a :: b :: c :: rest).length ≠ 1 ∧ (a :: b :: c :: rest).length ≠ 2 := by simp
    rw [acceptSpec_len u _ hl]
    cases hq : handlerBe (a :: b :: c :: rest) with
    | none => exact absurd hq hh
    | some be =>
      rw [closedRoute_len u _ hl be hq]
      have hbe : (some be == some Backend.ak) = (be == Backend.ak) := by cases be <;> rfl
      rw [hbe]
      constructor
      · split <;> simp [Route.accepted]
      · intro _; rfl

/-! ## 2. every accepted route is the operator the ufunc stands for -/

private theorem shape_vv : ∀ a ∈ lat, ∀ b ∈ lat, a.isVec = true → b.isVec = true → okSym [a, b] = true →
    closedRoute .add [a, b] = .call .add 0 [.input 1] 0 ∧
    closedRoute .subtract [a, b] = .call .subtract 0 [.input 1] 0 ∧
    closedRoute .matmul [a, b] = .call .dot 0 [.input 1] 0 ∧
    closedRoute .equal [a, b] = .call .equal 0 [.input 1] 0 ∧
    closedRoute .not_equal [a, b] = .call .not_equal 0 [.input 1] 0 := by decide +kernel

private theorem shape_vk : ∀ a ∈ lat, ∀ k ∈ [OpK.scalar, OpK.array], a.isVec = true →
    closedRoute .multiply [a, k] = .call .scale 0 [.input 1] 0 ∧
    closedRoute .multiply [k, a] = .call .scale 1 [.input 0] 0 ∧
    closedRoute .true_divide [a, k] = .call .scale 0 [.inv 1] 0 := by decide +kernel

private theorem shape_v : ∀ a ∈ lat, a.isVec = true →
    closedRoute .negative [a] = .call .scale 0 [.negOne] 0 ∧
    closedRoute .positive [a] = .identity 0 ∧
    closedRoute .absolute [a] = .valueOf (normAcc (dimOf a)) 0 ∧
    closedRoute .square [a] = .valueOf (norm2Acc (dimOf a)) 0 ∧
    closedRoute .sqrt [a] = .valuePow (norm2Acc (dimOf a)) 0 .quarter ∧
    closedRoute .cbrt [a] = .valuePow (norm2Acc (dimOf a)) 0 .sixth := by decide +kernel

private theorem shape_pow : ∀ a ∈ lat, a.isVec = true →
    closedRoute .power [a, .scalar] =
      if a.isBe .ak then .ifTwo 1 false (.valueOf (norm2Acc (dimOf a)) 0) (.valuePow (normAcc (dimOf a)) 0 (.input 1))
      else .valuePow (normAcc (dimOf a)) 0 (.input 1) := by decide +kernel

section
variable {S B : Type} (ev : Ev S B) (K : Consts S) (A : Arith S)

theorem dim_cases (t : VT) : t.dim = 2 ∨ t.dim = 3 ∨ t.dim = 4 := by
  unfold VT.dim; cases t.lon <;> cases t.tmp <;> simp

/-- the kind of a vector value -/
def kv (v : Vec S) : OpK := .vec v.ty.be v.ty.dim v.ty.mom

theorem kindOf_v (v : Vec S) : kindOf (.v v) = kv v := rfl
theorem kindOf_sc (k : S) : kindOf (Arg.sc k : Arg S) = .scalar := rfl

theorem kv_dimOk (v : Vec S) : (kv v).dimOk = true := by
  rcases dim_cases v.ty with h | h | h <;> simp [kv, OpK.dimOk, h]

theorem kv_mem (v : Vec S) : kv v ∈ lat := mem_lat _ (kv_dimOk v)

/-- the vector as the registered Awkward function receives it: a NumPy vector array has been CAST, generic flavor -/
def akCastVec (w : Vec S) : Vec S := if w.ty.be == .np then ⟨{ w.ty with be := .ak, mom := false }, w.c⟩ else w

theorem akCastArg_v (w : Vec S) : akCastArg (.v w) = .v (akCastVec w) := by
  show (if w.ty.be == .np then Arg.v _ else Arg.v w) = _
  unfold akCastVec
  by_cases h : (w.ty.be == Backend.np) = true <;> simp [h]

/-- the vector operand as the table that answers the request `ks` sees it -/
def seenV (ks : List OpK) (w : Vec S) : Vec S := if handlerBe ks == some .ak then akCastVec w else w

theorem c05u_seen_id (ks : List OpK) (w : Vec S) (h : handlerBe ks ≠ some .ak ∨ w.ty.be ≠ .np) : seenV ks w = w := by
  unfold seenV akCastVec
  rcases h with h | h
  · have : (handlerBe ks == some .ak) = false := by simpa using h
    simp [this]
  · have : (w.ty.be == .np) = false := by simpa using h
    simp [this]

/-- the cast keeps the coordinates and the dimension, and drops the flavor -/
theorem c05u_seen_cast (ks : List OpK) (w : Vec S) (h : handlerBe ks = some .ak) (hw : w.ty.be = .np) :
    (seenV ks w).c = w.c ∧ (seenV ks w).ty = { w.ty with be := .ak, mom := false } := by
  unfold seenV akCastVec; simp [h, hw]

private theorem hd2 (a b : OpK) (ha : a.dimOk = true) (hb : b.dimOk = true) : ∀ k ∈ [a, b], k.dimOk = true := by
  intro k hk; simp at hk; rcases hk with rfl | rfl <;> assumption

private theorem hd1 (a : OpK) (ha : a.dimOk = true) : ∀ k ∈ [a], k.dimOk = true := by
  intro k hk; simp at hk; subst hk; exact ha

/-- `numpy.add(v, w)`, `v + w`  ↦  `operator "add" v [w]` — all backends -/
theorem c05u_add (v w : Vec S) (hs : okSym [kv v, kv w] = true) :
    evalRoute ev K A (route .add [kv v, kv w] []) [.v (seenV [kv v, kv w] v), .v (seenV [kv v, kv w] w)] =
      operator ev K A "add" (seenV [kv v, kv w] v) [.v (seenV [kv v, kv w] w)] := by
  rw [c05u_route_closed _ _ (hd2 _ _ (kv_dimOk v) (kv_dimOk w)), (shape_vv _ (kv_mem v) _ (kv_mem w) rfl rfl hs).1]
  rfl

/-- `numpy.subtract(v, w)`, `v - w`  ↦  `operator "sub" v [w]` -/
theorem c05u_subtract (v w : Vec S) (hs : okSym [kv v, kv w] = true) :
    evalRoute ev K A (route .subtract [kv v, kv w] []) [.v (seenV [kv v, kv w] v), .v (seenV [kv v, kv w] w)] =
      operator ev K A "sub" (seenV [kv v, kv w] v) [.v (seenV [kv v, kv w] w)] := by
  rw [c05u_route_closed _ _ (hd2 _ _ (kv_dimOk v) (kv_dimOk w)), (shape_vv _ (kv_mem v) _ (kv_mem w) rfl rfl hs).2.1]
  rfl

/-- `numpy.matmul(v, w)`, `v @ w`  ↦  `operator "matmul" v [w]` (= `v.dot(w)`) -/
theorem c05u_matmul (v w : Vec S) (hs : okSym [kv v, kv w] = true) :
    evalRoute ev K A (route .matmul [kv v, kv w] []) [.v (seenV [kv v, kv w] v), .v (seenV [kv v, kv w] w)] =
      operator ev K A "matmul" (seenV [kv v, kv w] v) [.v (seenV [kv v, kv w] w)] := by
  rw [c05u_route_closed _ _ (hd2 _ _ (kv_dimOk v) (kv_dimOk w)), (shape_vv _ (kv_mem v) _ (kv_mem w) rfl rfl hs).2.2.1]
  rfl

/-- `numpy.equal(v, w)`, `v == w`  ↦  `operator "eq" v [w]` -/
theorem c05u_equal (v w : Vec S) (hs : okSym [kv v, kv w] = true) :
    evalRoute ev K A (route .equal [kv v, kv w] []) [.v (seenV [kv v, kv w] v), .v (seenV [kv v, kv w] w)] =
      operator ev K A "eq" (seenV [kv v, kv w] v) [.v (seenV [kv v, kv w] w)] := by
  rw [c05u_route_closed _ _ (hd2 _ _ (kv_dimOk v) (kv_dimOk w)), (shape_vv _ (kv_mem v) _ (kv_mem w) rfl rfl hs).2.2.2.1]
  rfl

/-- `numpy.not_equal(v, w)`, `v != w`  ↦  `operator "ne" v [w]` -/
theorem c05u_not_equal (v w : Vec S) (hs : okSym [kv v, kv w] = true) :
    evalRoute ev K A (route .not_equal [kv v, kv w] []) [.v (seenV [kv v, kv w] v), .v (seenV [kv v, kv w] w)] =
      operator ev K A "ne" (seenV [kv v, kv w] v) [.v (seenV [kv v, kv w] w)] := by
  rw [c05u_route_closed _ _ (hd2 _ _ (kv_dimOk v) (kv_dimOk w)), (shape_vv _ (kv_mem v) _ (kv_mem w) rfl rfl hs).2.2.2.2]
  rfl

/-- `numpy.multiply(v, k)`, `v * k`  ↦  `operator "mul" v [k]` — all backends, `k` a number (route: also a plain array) -/
theorem c05u_multiply_vk (v : Vec S) (k : S) :
    evalRoute ev K A (route .multiply [kv v, .scalar] []) [.v v, .sc k] = operator ev K A "mul" v [.sc k] := by
  rw [c05u_route_closed _ _ (hd2 _ _ (kv_dimOk v) rfl), (shape_vk _ (kv_mem v) .scalar (by simp) rfl).1]
  rfl

/-- `numpy.multiply(k, v)`, `k * v`  ↦  `operator "mul" v [k]` (= `operator "rmul" v [k]`): the vector is `self` although it
comes second -/
theorem c05u_multiply_kv (v : Vec S) (k : S) :
    evalRoute ev K A (route .multiply [.scalar, kv v] []) [.sc k, .v v] = operator ev K A "mul" v [.sc k] ∧
    evalRoute ev K A (route .multiply [.scalar, kv v] []) [.sc k, .v v] = operator ev K A "rmul" v [.sc k] := by
  rw [c05u_route_closed _ _ (hd2 _ _ rfl (kv_dimOk v)), (shape_vk _ (kv_mem v) .scalar (by simp) rfl).2.1]
  exact ⟨rfl, rfl⟩

/-- `numpy.true_divide(v, k)`, `v / k`  ↦  `operator "truediv" v [k]` (the table calls `v.scale(1 / k)`) -/
theorem c05u_true_divide (v : Vec S) (k : S) :
    evalRoute ev K A (route .true_divide [kv v, .scalar] []) [.v v, .sc k] = operator ev K A "truediv" v [.sc k] := by
  rw [c05u_route_closed _ _ (hd2 _ _ (kv_dimOk v) rfl), (shape_vk _ (kv_mem v) .scalar (by simp) rfl).2.2]
  rfl

/-- the same three with a plain array in the place of the number: same routes -/
theorem c05u_multiply_array (v : Vec S) :
    route .multiply [kv v, .array] [] = route .multiply [kv v, .scalar] [] ∧
    route .multiply [.array, kv v] [] = route .multiply [.scalar, kv v] [] ∧
    route .true_divide [kv v, .array] [] = route .true_divide [kv v, .scalar] [] := by
  have h1 := shape_vk _ (kv_mem v) .scalar (by simp) rfl
  have h2 := shape_vk _ (kv_mem v) .array (by simp) rfl
  refine ⟨?_, ?_, ?_⟩
  · rw [c05u_route_closed _ _ (hd2 _ _ (kv_dimOk v) rfl), c05u_route_closed _ _ (hd2 _ _ (kv_dimOk v) rfl), h1.1, h2.1]
  · rw [c05u_route_closed _ _ (hd2 _ _ rfl (kv_dimOk v)), c05u_route_closed _ _ (hd2 _ _ rfl (kv_dimOk v)), h1.2.1, h2.2.1]
  · rw [c05u_route_closed _ _ (hd2 _ _ (kv_dimOk v) rfl), c05u_route_closed _ _ (hd2 _ _ (kv_dimOk v) rfl), h1.2.2, h2.2.2]

/-- `numpy.negative(v)`, `-v`  ↦  `operator "neg" v []` (the table calls `v.scale(-1)`) -/
theorem c05u_negative (v : Vec S) :
    evalRoute ev K A (route .negative [kv v] []) [.v v] = operator ev K A "neg" v [] := by
  rw [c05u_route_closed _ _ (hd1 _ (kv_dimOk v)), (shape_v _ (kv_mem v) rfl).1]
  rfl

/-- `numpy.positive(v)`, `+v`  ↦  `operator "pos" v []` (the vector itself) -/
theorem c05u_positive (v : Vec S) :
    evalRoute ev K A (route .positive [kv v] []) [.v v] = operator ev K A "pos" v [] := by
  rw [c05u_route_closed _ _ (hd1 _ (kv_dimOk v)), (shape_v _ (kv_mem v) rfl).2.1]
  rfl

/-- `numpy.absolute(v)`, `abs(v)`  ↦  `operator "abs" v []` (`rho`, `mag` or `tau` by dimension) -/
theorem c05u_absolute (v : Vec S) :
    evalRoute ev K A (route .absolute [kv v] []) [.v v] = operator ev K A "abs" v [] := by
  rw [c05u_route_closed _ _ (hd1 _ (kv_dimOk v)), (shape_v _ (kv_mem v) rfl).2.2.1]
  rfl

/-- `numpy.square(v)`  ↦  `operator "square" v []` (`rho2`, `mag2` or `tau2`) -/
theorem c05u_square (v : Vec S) :
    evalRoute ev K A (route .square [kv v] []) [.v v] = operator ev K A "square" v [] := by
  rw [c05u_route_closed _ _ (hd1 _ (kv_dimOk v)), (shape_v _ (kv_mem v) rfl).2.2.2.1]
  rfl

/-- `numpy.sqrt(v)`  ↦  `operator "sqrt" v []` (`rho2 ** 0.25` …) -/
theorem c05u_sqrt (v : Vec S) :
    evalRoute ev K A (route .sqrt [kv v] []) [.v v] = operator ev K A "sqrt" v [] := by
  rw [c05u_route_closed _ _ (hd1 _ (kv_dimOk v)), (shape_v _ (kv_mem v) rfl).2.2.2.2.1]
  rfl

/-- `numpy.cbrt(v)`  ↦  `operator "cbrt" v []` (`rho2 ** 0.1666…` …) -/
theorem c05u_cbrt (v : Vec S) :
    evalRoute ev K A (route .cbrt [kv v] []) [.v v] = operator ev K A "cbrt" v [] := by
  rw [c05u_route_closed _ _ (hd1 _ (kv_dimOk v)), (shape_v _ (kv_mem v) rfl).2.2.2.2.2]
  rfl

/-- `numpy.power(v, k)` on the AWKWARD backend  ↦  `operator "pow" v [k]` exactly (`rho2 | mag2 | tau2` for `k == 2`) -/
theorem c05u_power_ak (v : Vec S) (k : S) (hb : v.ty.be = .ak) :
    evalRoute ev K A (route .power [kv v, .scalar] []) [.v v, .sc k] = operator ev K A "pow" v [.sc k] := by
  rw [c05u_route_closed _ _ (hd2 _ _ (kv_dimOk v) rfl), shape_pow _ (kv_mem v) rfl]
  have : (kv v).isBe .ak = true := by simp [kv, OpK.isBe, hb]
  rw [if_pos this]
  simp only [evalRoute, operator, dimOf, kv]
  by_cases h2 : A.isTwo k = true
  · simp [h2, evalRoute]
  · simp [h2, evalRoute, expoOf]
    rfl

/-- `numpy.power(v, k)` on the OBJECT / NUMPY / SYMPY backends: the `else` branch of `operator "pow"` whatever `k`, i.e.
`operator "pow" v [k]` for every `k` that is not 2 (`c05u_diff_power_two_value`: for `k == 2` the values can differ) -/
theorem c05u_power_chain (v : Vec S) (k : S) (hb : v.ty.be ≠ .ak) :
    evalRoute ev K A (route .power [kv v, .scalar] []) [.v v, .sc k] =
      (match getAcc ev (normAcc v.ty.dim) v with
       | .ok (.scalar s) => .ok (.scalar (A.pow s k))
       | r => r) ∧
    (A.isTwo k = false →
      evalRoute ev K A (route .power [kv v, .scalar] []) [.v v, .sc k] = operator ev K A "pow" v [.sc k]) := by
  rw [c05u_route_closed _ _ (hd2 _ _ (kv_dimOk v) rfl), shape_pow _ (kv_mem v) rfl]
  have : ((kv v).isBe .ak) = false := by
    cases hq : v.ty.be <;> simp_all [kv, OpK.isBe]
  rw [this]
  refine ⟨rfl, fun h2 => ?_⟩
  simp only [Bool.false_eq_true, if_false, operator, h2]
  rfl

/-- hypotheses are satisfiable: an Awkward momentum vector and a NumPy one -/
example : okSym [kv (⟨{ be := .ak, mom := true, az := .xy, lon := none, tmp := none }, [1, 2]⟩ : Vec Nat),
                 kv (⟨{ be := .np, mom := true, az := .rhophi, lon := none, tmp := none }, [1, 2]⟩ : Vec Nat)] = true := by decide

/-! ### mixed dimensions: not the tables' business -/

theorem seenV_dim (ks : List OpK) (w : Vec S) : (seenV ks w).ty.dim = w.ty.dim := by
  unfold seenV akCastVec
  split
  · split <;> rfl
  · rfl

/-- `numpy.add(v, w)` of vectors of DIFFERENT dimensions is routed to `v.add(w)` like any other pair … -/
theorem c05u_mixed_dims_not_rejected (v w : Vec S) (hs : okSym [kv v, kv w] = true) :
    route .add [kv v, kv w] [] = .call .add 0 [.input 1] 0 := by
  rw [c05u_route_closed _ _ (hd2 _ _ (kv_dimOk v) (kv_dimOk w)), (shape_vv _ (kv_mem v) _ (kv_mem w) rfl rfl hs).1]

/-- … and it is the METHOD that raises `TypeError` -/
theorem c05u_mixed_dims_method_rejects (v w : Vec S) (hs : okSym [kv v, kv w] = true) (h : v.ty.dim ≠ w.ty.dim) :
    evalRoute ev K A (route .add [kv v, kv w] []) [.v (seenV [kv v, kv w] v), .v (seenV [kv v, kv w] w)] = .error .typeError := by
  rw [c05u_mixed_dims_not_rejected v w hs]
  have h' : ((seenV [kv v, kv w] w).ty.dim != (seenV [kv v, kv w] v).ty.dim) = true := by
    rw [seenV_dim, seenV_dim]; simpa using fun e => h e.symm
  show binary ev K .add _ _ [] = _
  unfold binary
  simp only [h', if_true]

end

/-! ## 4. `out=` -/

/-- the ufuncs whose value is a vector COMPUTED by a method -/
def Ufunc.vectorValued : Ufunc → Bool
  | .add | .subtract | .multiply | .negative | .true_divide => true
  | _ => false

/-- the same call, `n` outputs filled -/
def withFills (r : Route) (n : Nat) : Route :=
  match r with
  | .call m i a _ => .call m i a n
  | r => r

private theorem normOf_ok (d : Nat) (h : (2 ≤ d && d ≤ 4) = true) : normOf d = some (normAcc d) := by
  simp only [Bool.and_eq_true, decide_eq_true_eq] at h
  have : d = 2 ∨ d = 3 ∨ d = 4 := by omega
  rcases this with rfl | rfl | rfl <;> rfl

/-- what the chain does with `n ≥ 1` outputs (all of the right class), for an accepted shape -/
theorem c05u_out_chain (e : Route) (u : Ufunc) (ins : List OpK) (n : Nat) (hn : n ≠ 0) (hd : ∀ k ∈ ins, k.dimOk = true)
    (ha : acceptSpec u ins = true) :
    chain e u ins n =
      if u.vectorValued then withFills (chain e u ins 0) n
      else if u == .positive then .identity 0
      else if u == .power then e
      else .typeError := by
  have hn' : (n != 0) = true := by simpa using hn
  cases u <;> rcases ins with _ | ⟨a, _ | ⟨b, _ | ⟨c, rest⟩⟩⟩ <;> simp only [acceptSpec, Bool.false_eq_true] at ha <;>
    simp only [chain, hn', Ufunc.vectorValued, withFills, if_true, ha, Bool.false_eq_true, if_false] <;>
    (try simp_all [withFills])
  -- `multiply`, `power`
  · rcases a with ⟨ba, da, ma⟩ | _ | _ <;> rcases b with ⟨bb, db, mb⟩ | _ | _ <;> simp_all [OpK.isVec, withFills]
  · rcases a with ⟨ba, da, ma⟩ | _ | _ <;> simp_all [OpK.isVec]
    have := hd.1
    simp only [OpK.dimOk] at this
    simp [dimOf, normOf_ok da (by simpa using this)]

/-- a refused shape stays refused with outputs -/
theorem c05u_out_rejected (e : Route) (u : Ufunc) (ins : List OpK) (n : Nat) (ha : acceptSpec u ins = false) :
    chain e u ins n = .notImplemented := by
  cases u <;> rcases ins with _ | ⟨a, _ | ⟨b, _ | ⟨c, rest⟩⟩⟩ <;> simp only [acceptSpec] at ha <;>
    simp only [chain] <;> (try rfl) <;> simp_all

/-- **`out=`, object / NumPy / SymPy backends**: with every output a vector of the table's own backend, an accepted request

* of a vector-valued ufunc (`add subtract multiply negative true_divide`): the same call, EVERY output overwritten with the result;
* `positive`: returns the input, the outputs are silently left untouched;
* of a scalar-valued ufunc (`absolute square sqrt cbrt matmul equal not_equal`): `TypeError`;
* `power`: the value is computed and then cannot be stored — `TypeError` (object, SymPy) / `IndexError` (NumPy). -/
theorem c05u_out (b : Backend) (hb : b ≠ .ak) (u : Ufunc) (ins outs : List OpK) (hh : handlerBe ins = some b)
    (ho : outs ≠ []) (hob : ∀ o ∈ outs, o.isBe b = true) (hd : ∀ k ∈ ins, k.dimOk = true) (ha : acceptSpec u ins = true) :
    tableOf b u ins outs =
      if u.vectorValued then withFills (tableOf b u ins []) outs.length
      else if u == .positive then .identity 0
      else if u == .power then powOutOf b
      else .typeError := by
  have hany : outs.any (fun o => !o.isBe b) = false := by
    rw [List.any_eq_false]; intro o ho'; simp [hob o ho']
  have hbb : (b != b) = false := by simp
  rw [c05u_chain_closed b hb, c05u_chain_closed b hb]
  simp only [guard, hh, hbb, hany, Bool.false_eq_true, if_false, List.any_nil, List.length_nil]
  exact c05u_out_chain _ u ins outs.length (by simpa using ho) hd ha

/-- an output that is not a vector of the table's backend: `TypeError`, whatever the ufunc (even an unsupported one) -/
theorem c05u_out_wrong_class (b : Backend) (hb : b ≠ .ak) (u : Ufunc) (ins outs : List OpK) (hh : handlerBe ins = some b)
    (o : OpK) (ho : o ∈ outs) (hob : o.isBe b = false) : tableOf b u ins outs = .typeError := by
  have hany : outs.any (fun o => !o.isBe b) = true := List.any_eq_true.2 ⟨o, ho, by simp [hob]⟩
  have hbb : (b != b) = false := by simp
  rw [c05u_chain_closed b hb]
  simp only [guard, hh, hbb, hany, Bool.false_eq_true, if_false, if_true]

/-- **`out=`, Awkward backend**: always declined (`NotImplemented`, so `TypeError` for the caller) — also `v += w` -/
theorem c05u_out_ak (u : Ufunc) (ins outs : List OpK) (h : outs ≠ []) : tableOf .ak u ins outs = .notImplemented :=
  c05u_ak_out u ins outs h

/-- SURPRISE: `numpy.positive(v, out=w)` returns `v` and never writes `w` (all three chains) -/
theorem c05u_out_positive_ignored (b : Backend) (hb : b ≠ .ak) (d : Nat) (m : Bool) (o : OpK) (ho : o.isBe b = true) :
    tableOf b .positive [.vec b d m] [o] = .identity 0 ∧ (tableOf b .positive [.vec b d m] [o]).fills = 0 := by
  have : tableOf b .positive [.vec b d m] [o] = .identity 0 := by
    rw [c05u_chain_closed b hb]
    cases b <;> simp_all [guard, handlerBe, OpK.isBe, chain, OpK.isVec]
  rw [this]; exact ⟨rfl, rfl⟩

/-! ## 5. deferral to the higher-priority backend -/

/-- a chain asked about operands whose handler is ANOTHER backend (higher priority: NumPy / SymPy / Awkward operand present; or
lower: the table's own backend only among the outputs) answers `NotImplemented` — numpy.py L914-916 and its two siblings -/
theorem c05u_defer_lower (b : Backend) (hb : b ≠ .ak) (u : Ufunc) (ins outs : List OpK) (h : Backend)
    (hh : handlerBe ins = some h) (hne : h ≠ b) : tableOf b u ins outs = .notImplemented := by
  rw [c05u_chain_closed b hb]
  have : (h != b) = true := by simpa using hne
  simp only [guard, hh, this, if_true]

private theorem find_first (T : Backend → Route) (h : Backend) : ∀ (xs : List Backend),
    (∀ b ∈ xs, b ≠ h → T b = .notImplemented) →
    (xs.map T).find? (· != .notImplemented) = if h ∈ xs ∧ T h ≠ .notImplemented then some (T h) else none := by
  intro xs
  induction xs with
  | nil => intro _; simp
  | cons x xs ih =>
    intro hall
    have ih' := ih (fun b hb hne => hall b (List.mem_cons_of_mem _ hb) hne)
    by_cases hx : x = h
    · subst hx
      by_cases ht : T x = .notImplemented
      · simp [List.find?, ht] at ih' ⊢
        simpa [ht] using ih'
      · simp [List.find?, ht]
    · have hT : T x = .notImplemented := hall x (List.mem_cons_self ..) hx
      have hx' : ¬ h = x := fun e => hx e.symm
      simp only [List.map_cons, List.find?, hT, bne_self_eq_false, ih', List.mem_cons, hx', false_or]

private theorem handler_mem (ins : List OpK) (h : Backend) (hh : handlerBe ins = some h) : h ∈ ins.filterMap OpK.be? := by
  have key : ∀ b : Backend, ins.any (·.isBe b) = true → b ∈ ins.filterMap OpK.be? := by
    intro b hb
    obtain ⟨k, hk, hkb⟩ := List.any_eq_true.1 hb
    rcases k with ⟨b', d, m⟩ | _ | _ <;> simp [OpK.isBe] at hkb
    subst hkb
    exact List.mem_filterMap.2 ⟨_, hk, rfl⟩
  unfold handlerBe at hh
  split at hh
  · cases hh; exact key _ ‹_›
  · split at hh
    · cases hh; exact key _ ‹_›
    · split at hh
      · cases hh; exact key _ ‹_›
      · split at hh
        · cases hh; exact key _ ‹_›
        · cases hh

private theorem ak_mem_handler (ins : List OpK) (h : Backend.ak ∈ ins.filterMap OpK.be?) : handlerBe ins = some .ak := by
  obtain ⟨k, hk, hkb⟩ := List.mem_filterMap.1 h
  have : ins.any (·.isBe .ak) = true := by
    refine List.any_eq_true.2 ⟨k, hk, ?_⟩
    rcases k with ⟨b', d, m⟩ | _ | _ <;> simp [OpK.be?] at hkb
    subst hkb; rfl
  unfold handlerBe; simp [this]

/-- **NumPy's protocol = "the highest-priority operand decides"**: with at least one vector among the inputs, asking every
operand (inputs then outputs) in turn and taking the first answer other than `NotImplemented` gives exactly the answer of the
table of the HANDLER's backend (`TypeError` when that one declines too): every other table declines. -/
theorem c05u_defer (u : Ufunc) (ins outs : List OpK) (h : Backend) (hh : handlerBe ins = some h) :
    numpyDispatch u ins outs = (tableOf h u ins outs).surface ∧ numpyDispatch u ins outs = route u ins outs := by
  have hmem : h ∈ (ins ++ outs).filterMap OpK.be? := by
    rw [List.filterMap_append]; exact List.mem_append_left _ (handler_mem ins h hh)
  have hall : ∀ b ∈ (ins ++ outs).filterMap OpK.be?, b ≠ h → tableOf b u ins outs = .notImplemented := by
    intro b hb hne
    by_cases hbak : b = .ak
    · subst hbak
      refine c05u_ak_out u ins outs ?_
      intro ho
      subst ho
      rw [List.append_nil] at hb
      have := ak_mem_handler ins hb
      rw [hh] at this
      exact hne (Option.some.inj this).symm
    · exact c05u_defer_lower b hbak u ins outs h hh (fun e => hne e.symm)
  have hne : ((ins ++ outs).filterMap OpK.be?).isEmpty = false := by
    cases hq : (ins ++ outs).filterMap OpK.be? with
    | nil => rw [hq] at hmem; simp at hmem
    | cons x xs => rfl
  have hnd : numpyDispatch u ins outs = (tableOf h u ins outs).surface := by
    unfold numpyDispatch
    simp only [hne, Bool.false_eq_true, if_false]
    rw [find_first (fun b => tableOf b u ins outs) h _ hall]
    by_cases ht : tableOf h u ins outs = .notImplemented
    · simp [ht, Route.surface]
    · simp only [hmem, ht, ne_eq, not_false_eq_true, and_self, if_true]
      cases hq : tableOf h u ins outs <;> first | rfl | exact absurd hq ht
  refine ⟨hnd, ?_⟩
  rw [hnd]; unfold route; rw [hh]

/-- with operands of two backends: the lower one declines, the higher one answers (here NumPy array + object, both orders) -/
example : tableOf .obj .add [.vec .obj 3 false, .vec .np 3 true] [] = .notImplemented ∧
    tableOf .np .add [.vec .obj 3 false, .vec .np 3 true] [] = .call .add 0 [.input 1] 0 ∧
    numpyDispatch .add [.vec .obj 3 false, .vec .np 3 true] [] = .call .add 0 [.input 1] 0 ∧
    numpyDispatch .add [.vec .np 3 true, .vec .obj 3 false] [] = .call .add 0 [.input 1] 0 := by decide

/-! ## 6. completeness of the Awkward key table -/

private theorem recNames_els : ∀ n ∈ recNames, n ∈ els := by decide
private theorem binOperands_els : ∀ n ∈ binOperands, n ∈ els := by decide

private theorem spec_unary : ∀ u ∈ [Ufunc.absolute, .negative, .positive, .square, .sqrt, .cbrt], ∀ n ∈ recNames,
    (akSpec u [n]).isSome = true := by decide

private theorem spec_binary : ∀ u ∈ [Ufunc.add, .subtract, .matmul, .equal, .not_equal], ∀ l ∈ binOperands, ∀ r ∈ binOperands,
    (akSpec u [l, r]).isSome = (l.isName || r.isName) := by decide

private theorem spec_real : ∀ n ∈ recNames,
    (akSpec .multiply [n, .real]).isSome = true ∧ (akSpec .multiply [.real, n]).isSome = true ∧
    (akSpec .true_divide [n, .real]).isSome = true ∧ (akSpec .power [n, .real]).isSome = true ∧
    (akSpec .true_divide [.real, n]).isSome = false ∧ (akSpec .power [.real, n]).isSome = false := by decide

/-- every unary ufunc the chains accept is registered for all 6 record names -/
theorem c05u_ak_complete_unary : ∀ u ∈ [Ufunc.absolute, .negative, .positive, .square, .sqrt, .cbrt], ∀ n ∈ recNames,
    (akFind u [n]).isSome = true := by
  intro u hu n hn
  rw [akFind_eq_spec u [n] (by intro e he; simp at he; rw [he]; exact recNames_els n hn)]
  exact spec_unary u hu n hn

/-- every vector-vector ufunc the chains accept is registered for all 36 pairings of record names, and for a record name paired
with an object class on either side (27 more pairings); object-object is left to the object backend -/
theorem c05u_ak_complete_binary : ∀ u ∈ [Ufunc.add, .subtract, .matmul, .equal, .not_equal], ∀ l ∈ binOperands, ∀ r ∈ binOperands,
    (akFind u [l, r]).isSome = (l.isName || r.isName) := by
  intro u hu l hl r hr
  rw [akFind_eq_spec u [l, r] (by
    intro e he; simp at he; rcases he with rfl | rfl
    · exact binOperands_els _ hl
    · exact binOperands_els _ hr)]
  exact spec_binary u hu l hl r hr

/-- `multiply` (both orders), `true_divide`, `power` with `numbers.Real` are registered for all 6 record names — and
`Real / vector`, `Real ** vector` are not -/
theorem c05u_ak_complete_real : ∀ n ∈ recNames,
    (akFind .multiply [n, .real]).isSome = true ∧ (akFind .multiply [.real, n]).isSome = true ∧
    (akFind .true_divide [n, .real]).isSome = true ∧ (akFind .power [n, .real]).isSome = true ∧
    (akFind .true_divide [.real, n]).isSome = false ∧ (akFind .power [.real, n]).isSome = false := by
  intro n hn
  have h1 : ∀ e ∈ [n, KeyEl.real], e ∈ els := by
    intro e he; simp at he; rcases he with rfl | rfl
    · exact recNames_els _ hn
    · decide
  have h2 : ∀ e ∈ [KeyEl.real, n], e ∈ els := by
    intro e he; simp at he; rcases he with rfl | rfl
    · decide
    · exact recNames_els _ hn
  simp only [akFind_eq_spec _ _ h1, akFind_eq_spec _ _ h2]
  exact spec_real n hn

/-- nothing ELSE is registered: every key has one of the accepted shapes (record names and object classes are vectors,
`Real` is not), 420 keys in all, no key twice -/
theorem c05u_ak_nothing_else :
    (∀ e ∈ akTable, acceptSpec e.1 (e.2.1.map fun k => match k with
        | .name m d => OpK.vec .ak d m | .objCls d => .vec .obj d false | _ => .scalar) = true) ∧
    akKeys.length = 420 ∧ akKeys.Nodup :=
  ⟨by decide +kernel, akKeys_length, akKeys_nodup⟩

/-! ## 7. the Python operators -/

/-- `x <op> y` with a vector on the left is `numpy.<ufunc>(x, y)` — the operands in WRITTEN order — for every operator other than
`**` and the in-place forms, every backend -/
theorem c05u_pyop_is_ufunc (op : PyOp) (hi : op.inplace = false) (hu : op.unary = false) (hp : op ≠ .pow)
    (b : Backend) (d : Nat) (m : Bool) (y : OpK) :
    pyRoute op [.vec b d m, y] = numpyDispatch op.ufunc [.vec b d m, y] [] := by
  cases op <;> first | rfl | exact absurd rfl hp | exact absurd hi (by decide) | exact absurd hu (by decide)

/-- `abs(x)`, `-x`, `+x` are `numpy.absolute / negative / positive (x)` -/
theorem c05u_pyop_unary (op : PyOp) (hu : op.unary = true) (b : Backend) (d : Nat) (m : Bool) :
    pyRoute op [.vec b d m] = numpyDispatch op.ufunc [.vec b d m] [] := by
  cases op <;> first | rfl | exact absurd hu (by decide)

private theorem pyop_reflected_lat : ∀ k ∈ lat, k.isVec = true →
    pyRoute .mul [.scalar, k] = .call .scale 1 [.input 0] 0 ∧
    pyRoute .sub [.scalar, k] = .typeError ∧
    pyRoute .truediv [.scalar, k] = .typeError ∧
    pyRoute .add [.scalar, k] = .typeError ∧
    pyRoute .pow [.scalar, k] = .typeError ∧
    pyRoute .matmul [.scalar, k] = .typeError := by decide +kernel

/-- `k <op> v` with a number on the left reaches the REFLECTED method of the vector, which keeps the written order:
`k * v` is `numpy.multiply(k, v)`, hence `v.scale(k)`; `k - v`, `k / v`, `k + v` are refused by the tables; `k ** v`, `k @ v`
have no reflected method on the object / SymPy classes and are refused by the tables of the others -/
theorem c05u_pyop_reflected (b : Backend) (d : Nat) (m : Bool) (hd : (2 ≤ d && d ≤ 4) = true) :
    pyRoute .mul [.scalar, .vec b d m] = .call .scale 1 [.input 0] 0 ∧
    pyRoute .sub [.scalar, .vec b d m] = .typeError ∧
    pyRoute .truediv [.scalar, .vec b d m] = .typeError ∧
    pyRoute .add [.scalar, .vec b d m] = .typeError ∧
    pyRoute .pow [.scalar, .vec b d m] = .typeError ∧
    pyRoute .matmul [.scalar, .vec b d m] = .typeError :=
  pyop_reflected_lat _ (mem_lat (.vec b d m) hd) rfl

/-- DIFFERENCE 8 (`**`): `VectorObject.__pow__` is `numpy.square(self) if other == 2 else numpy.power(self, other)`,
`VectorSympy.__pow__` is `numpy.power(self, other)` always, NumPy arrays go through `ndarray.__pow__` (`square` for the PYTHON
number 2 only), Awkward arrays through `numpy.power` and the registered `expo == 2` test -/
theorem c05u_pyop_pow_differs :
    pyRoute .pow [.vec .obj 4 false, .scalar] = .ifTwo 1 false (.valueOf .tau2 0) (.valuePow .tau 0 (.input 1)) ∧
    pyRoute .pow [.vec .sym 4 false, .scalar] = .valuePow .tau 0 (.input 1) ∧
    pyRoute .pow [.vec .np 4 false, .scalar] = .ifTwo 1 true (.valueOf .tau2 0) (.valuePow .tau 0 (.input 1)) ∧
    pyRoute .pow [.vec .ak 4 false, .scalar] = .ifTwo 1 false (.valueOf .tau2 0) (.valuePow .tau 0 (.input 1)) ∧
    pyRoute .pow [.vec .obj 4 false, .array] = .valueError ∧
    pyRoute .pow [.vec .np 4 false, .array] = .valuePow .tau 0 (.input 1) := by decide +kernel

/-- the in-place forms: object / SymPy overwrite `self` with the result (`_replace_data`), which must be a vector of the same
backend; NumPy arrays are `ufunc(x, y, out=(x,))`; Awkward arrays are immutable (`out=` refused) -/
theorem c05u_pyop_inplace :
    pyRoute .iadd [.vec .obj 2 false, .vec .obj 2 true] = .call .add 0 [.input 1] 1 ∧
    pyRoute .iadd [.vec .obj 2 false, .vec .np 2 true] = .typeError ∧
    pyRoute .imul [.vec .sym 3 false, .scalar] = .call .scale 0 [.input 1] 1 ∧
    pyRoute .itruediv [.vec .np 3 false, .scalar] = .call .scale 0 [.inv 1] 1 ∧
    pyRoute .isub [.vec .np 2 false, .vec .obj 2 true] = .call .subtract 0 [.input 1] 1 ∧
    pyRoute .iadd [.vec .ak 2 false, .vec .ak 2 true] = .typeError ∧
    pyRoute .imul [.scalar, .vec .obj 2 false] = .call .scale 1 [.input 0] 0 := by decide +kernel

/-! ### summary of section 2, and the handler -/

section
variable {S B : Type} (ev : Ev S B) (K : Consts S) (A : Arith S)

/-- **every accepted route is the operator the ufunc stands for** — the one-vector requests, all backends, all `S`, `ev` -/
theorem c05u_route_is_operator (v : Vec S) (k : S) :
    evalRoute ev K A (route .absolute [kv v] []) [.v v] = operator ev K A "abs" v [] ∧
    evalRoute ev K A (route .negative [kv v] []) [.v v] = operator ev K A "neg" v [] ∧
    evalRoute ev K A (route .positive [kv v] []) [.v v] = operator ev K A "pos" v [] ∧
    evalRoute ev K A (route .square [kv v] []) [.v v] = operator ev K A "square" v [] ∧
    evalRoute ev K A (route .sqrt [kv v] []) [.v v] = operator ev K A "sqrt" v [] ∧
    evalRoute ev K A (route .cbrt [kv v] []) [.v v] = operator ev K A "cbrt" v [] ∧
    evalRoute ev K A (route .multiply [kv v, .scalar] []) [.v v, .sc k] = operator ev K A "mul" v [.sc k] ∧
    evalRoute ev K A (route .multiply [.scalar, kv v] []) [.sc k, .v v] = operator ev K A "mul" v [.sc k] ∧
    evalRoute ev K A (route .true_divide [kv v, .scalar] []) [.v v, .sc k] = operator ev K A "truediv" v [.sc k] ∧
    ((v.ty.be = .ak ∨ A.isTwo k = false) →
      evalRoute ev K A (route .power [kv v, .scalar] []) [.v v, .sc k] = operator ev K A "pow" v [.sc k]) := by
  refine ⟨c05u_absolute ev K A v, c05u_negative ev K A v, c05u_positive ev K A v, c05u_square ev K A v, c05u_sqrt ev K A v,
    c05u_cbrt ev K A v, c05u_multiply_vk ev K A v k, (c05u_multiply_kv ev K A v k).1, c05u_true_divide ev K A v k, ?_⟩
  intro h
  by_cases hb : v.ty.be = .ak
  · exact c05u_power_ak ev K A v k hb
  · rcases h with h | h
    · exact absurd h hb
    · exact (c05u_power_chain ev K A v k hb).2 h

/-- … and the two-vector requests (operands as the answering table sees them: `seenV`, the identity unless Awkward answers and
the operand is a NumPy vector array) -/
theorem c05u_route_is_operator_vv (v w : Vec S) (hs : okSym [kv v, kv w] = true) :
    let ks := [kv v, kv w]
    let v' := seenV ks v
    let w' := seenV ks w
    evalRoute ev K A (route .add ks []) [.v v', .v w'] = operator ev K A "add" v' [.v w'] ∧
    evalRoute ev K A (route .subtract ks []) [.v v', .v w'] = operator ev K A "sub" v' [.v w'] ∧
    evalRoute ev K A (route .matmul ks []) [.v v', .v w'] = operator ev K A "matmul" v' [.v w'] ∧
    evalRoute ev K A (route .equal ks []) [.v v', .v w'] = operator ev K A "eq" v' [.v w'] ∧
    evalRoute ev K A (route .not_equal ks []) [.v v', .v w'] = operator ev K A "ne" v' [.v w'] :=
  ⟨c05u_add ev K A v w hs, c05u_subtract ev K A v w hs, c05u_matmul ev K A v w hs, c05u_equal ev K A v w hs,
   c05u_not_equal ev K A v w hs⟩

/-- the handler of the tables (`handlerBe`, on kinds) is the backend of the handler `Glue/Core.lean` uses for the result
(`handlerOf`, on values): one and two vectors -/
theorem c05u_handler_is_handlerOf (v w : Vec S) :
    (handlerOf [v]).map (·.ty.be) = handlerBe [kv v] ∧ (handlerOf [v, w]).map (·.ty.be) = handlerBe [kv v, kv w] := by
  constructor
  · cases hv : v.ty.be <;> simp [handlerOf, handlerBe, kv, OpK.isBe, hv]
  · cases hv : v.ty.be <;> cases hw : w.ty.be <;> simp [handlerOf, handlerBe, kv, OpK.isBe, Backend.prio, hv, hw]

end

/-! ## 8. the two value-level differences, evaluated on a toy compute layer -/

/-- scalar value of a result, if it is one -/
def resScalar {S B : Type} : Except Err (Res S B) → Option S
  | .ok (.scalar s) => some s
  | _ => none

/-- flavor of a vector result -/
def resMom {S B : Type} : Except Err (Res S B) → Option Bool
  | .ok (.vec v) => some v.ty.mom
  | _ => none

open VK in
/-- a toy compute layer: `tau2 = -9`, `tau = -3` (a spacelike vector: `tau = -sqrt(|tau2|)`), `add` of two planar vectors -/
def wEv : Ev Int Bool := fun m _ _ =>
  match m with
  | .lorentz_tau2 => some (.vals [-9], .float)
  | .lorentz_tau => some (.vals [-3], .float)
  | .planar_add => some (.vals [0, 0], .vec [.az .xy])
  | _ => none
def wA : Arith Int := { inv := id, pow := fun a b => a ^ b.toNat, quarter := 0, sixth := 0, isTwo := fun p => p == 2 }
def wK : Consts Int := { negOne := -1, zeroF := 0, zeroI := 0, tol := 0, rtol := 0, atol := 0, bFalse := 0 }
def wV (b : Backend) : Vec Int := ⟨{ be := b, mom := false, az := .xy, lon := some .z, tmp := some .t }, [3, 0, 0, 0]⟩
def wP (b : Backend) (mom : Bool) : Vec Int := ⟨{ be := b, mom := mom, az := .xy, lon := none, tmp := none }, [1, 2]⟩

/-- DIFFERENCE 2, evaluated: with `tau2 = -9`, `tau = -3` the ufunc `numpy.power(v, 2)` of the object / NumPy / SymPy tables is
`tau ** 2 = 9`, while the operator `v ** 2` it is documented to stand for (`operator "pow"`: `tau2` for the exponent 2) — and the
Awkward table — give `-9` -/
theorem c05u_diff_power_two_value :
    wA.isTwo 2 = true ∧
    resScalar (operator wEv wK wA "pow" (wV .obj) [.sc 2]) = some (-9) ∧
    resScalar (evalRoute wEv wK wA (route .power [kv (wV .obj), .scalar] []) [.v (wV .obj), .sc 2]) = some 9 ∧
    resScalar (evalRoute wEv wK wA (route .power [kv (wV .np), .scalar] []) [.v (wV .np), .sc 2]) = some 9 ∧
    resScalar (evalRoute wEv wK wA (route .power [kv (wV .sym), .scalar] []) [.v (wV .sym), .sc 2]) = some 9 ∧
    resScalar (evalRoute wEv wK wA (route .power [kv (wV .ak), .scalar] []) [.v (wV .ak), .sc 2]) = some (-9) := by
  decide +kernel

/-- DIFFERENCE 7, evaluated (known finding `operator-flavor-awkward-numpy`): `awkward_generic + numpy_momentum` through the ufunc
is a GENERIC vector (the NumPy operand was cast), through the method `add` it is a MOMENTUM vector; with an object or Awkward
momentum partner both agree -/
theorem c05u_diff_ak_cast_flavor_value :
    resMom (operator wEv wK wA "add" (wP .ak false) [.v (wP .np true)]) = some true ∧
    resMom (evalRoute wEv wK wA (route .add [kv (wP .ak false), kv (wP .np true)] [])
      [.v (seenV [kv (wP .ak false), kv (wP .np true)] (wP .ak false)),
       .v (seenV [kv (wP .ak false), kv (wP .np true)] (wP .np true))]) = some false ∧
    resMom (evalRoute wEv wK wA (route .add [kv (wP .ak false), kv (wP .obj true)] [])
      [.v (seenV [kv (wP .ak false), kv (wP .obj true)] (wP .ak false)),
       .v (seenV [kv (wP .ak false), kv (wP .obj true)] (wP .obj true))]) = some true := by
  decide +kernel

end VU
