/-
What the NumPy FUNCTION FORMS (`numpy.add(v, w)`, `v + w`, `numpy.multiply(k, v)`, `abs(v)`, …) DENOTE over the reals, for every
backend (object, NumPy, Awkward; SymPy where `okSym` allows), both flavors and every storage pairing.  Prefix `c05d_`.

A COROLLARY file: it composes

* layer 1, routing (`Props/C05Ufunc.lean`, model `Glue/Ufunc.lean`): every accepted route of the four ufunc tables is the operator
  of `VG.operator` the ufunc stands for (`c05u_add` … `c05u_power_chain`), applied to the operands as the answering table sees
  them (`seenV`: the identity, except that Awkward sees a NumPy vector array through `vector.Array(v)`: backend `ak`, generic
  flavor, SAME storage and coordinates), and
* layer 2, the method-level theorems over the reals (`Props/MethodBin.lean` `c11m_*`, `Props/MethodOps.lean` `c12m_*`; glue
  instantiated at `S := ℝ` with the GENERATED real compute layer `evR`),

and adds no new model and no compute-level fact.  The hypotheses are those of layer 2, verbatim, on the ORIGINAL operands: they
only look at the storage (`az lon tmp`) and the stored coordinates, which `seenV` keeps (`c05d_seen_*`).

0. `c05d_seen_wfv`, `c05d_seen_denote`, `c05d_seen_storage`, `c05d_seen_handler`
1. `c05d_add`, `c05d_subtract`
2. `c05d_matmul`
3. `c05d_multiply`, `c05d_multiply_comm`, `c05d_true_divide`, `c05d_negative`, `c05d_positive`
4. `c05d_absolute` (+ `c05d_absolute_dims`), `c05d_square` (+ `c05d_square_dims`), `c05d_sqrt`, `c05d_cbrt`, `c05d_power_ak`,
   `c05d_power_chain`
5. `c05d_equal`, `c05d_not_equal`, `c05d_equal_value`, `c05d_equal_denote`
6. `c05d_backend_independent`, `c05d_backend_independent_unary`
7. examples: a (ρ, φ, η) NumPy momentum operand and an (x, y, θ) Awkward operand satisfy every hypothesis (Awkward answers and
   CASTS the NumPy operand), and the theorems instantiated on this pair.
-/
import VectorModel.Props.C05Ufunc
import VectorModel.Props.C01Method
import VectorModel.Props.MethodBin
import VectorModel.Props.MethodOps
import VectorModel.Glue.Arrays

set_option linter.unusedVariables false
set_option linter.unusedSimpArgs false
set_option linter.constructorNameAsVariable false
set_option maxRecDepth 4096

namespace VR
namespace C05D
open VK VG VU Spec Real C01M
open C11M (SinOKV CanonTmpV RepAdd RepSub SubCausal tmpRes? ThetaRangeV dotL)
open C12M (EqP NeP CanonV NormOK Norm2OK normS norm2S)

/-! ## 0. what the answering table sees of an operand (`seenV`) keeps storage and coordinates -/

/-- the same stored vector under another backend tag and flavor -/
def retag (b : Backend) (m : Bool) (v : Vec ℝ) : Vec ℝ := ⟨{ v.ty with be := b, mom := m }, v.c⟩

theorem seenV_retag (ks : List OpK) (v : Vec ℝ) : ∃ b m, seenV ks v = retag b m v := by
  obtain ⟨⟨be, mom, az, lon, tmp⟩, c⟩ := v
  unfold seenV akCastVec
  split
  · split
    · exact ⟨.ak, false, rfl⟩
    · exact ⟨be, mom, rfl⟩
  · exact ⟨be, mom, rfl⟩

theorem setBe_retag (b : Backend) (v : Vec ℝ) : v.setBe b = retag b v.ty.mom v := rfl

/-- a hypothesis that only looks at storage and stored coordinates (not at backend or flavor) -/
def StorageOnly (P : Vec ℝ → Prop) : Prop := ∀ b m v, P (retag b m v) = P v
def StorageOnly2 (P : Vec ℝ → Vec ℝ → Prop) : Prop := ∀ b m b' m' v w, P (retag b m v) (retag b' m' w) = P v w

theorem seen_eq {P : Vec ℝ → Prop} (hP : StorageOnly P) (ks : List OpK) (v : Vec ℝ) : P (seenV ks v) = P v := by
  obtain ⟨b, m, e⟩ := seenV_retag ks v
  rw [e]; exact hP b m v

theorem seen_eq2 {P : Vec ℝ → Vec ℝ → Prop} (hP : StorageOnly2 P) (ks ks' : List OpK) (v w : Vec ℝ) :
    P (seenV ks v) (seenV ks' w) = P v w := by
  obtain ⟨b, m, e⟩ := seenV_retag ks v
  obtain ⟨b', m', e'⟩ := seenV_retag ks' w
  rw [e, e']; exact hP b m b' m' v w

theorem so_wfv : StorageOnly C01M.WFV := fun _ _ _ => rfl
theorem so_tan : StorageOnly TanOKV := fun _ _ _ => rfl
theorem so_sin : StorageOnly SinOKV := fun _ _ _ => rfl
theorem so_ctmp : StorageOnly CanonTmpV := fun _ _ _ => rfl
theorem so_theta : StorageOnly ThetaRangeV := fun _ _ _ => rfl
theorem so_norm : StorageOnly NormOK := fun _ _ _ => rfl
theorem so_norm2 : StorageOnly Norm2OK := fun _ _ _ => rfl
theorem so_canon : StorageOnly CanonV := fun _ _ _ => rfl
theorem so_repAdd : StorageOnly2 RepAdd := fun _ _ _ _ _ _ => rfl
theorem so_repSub : StorageOnly2 RepSub := fun _ _ _ _ _ _ => rfl
theorem so_causal : StorageOnly2 SubCausal := fun _ _ _ _ _ _ => rfl
theorem so_eqP : StorageOnly2 EqP := fun _ _ _ _ _ _ => rfl
theorem so_neP : StorageOnly2 NeP := fun _ _ _ _ _ _ => rfl

/-- **`seenV` keeps well-formedness** -/
theorem c05d_seen_wfv (ks : List OpK) (v : Vec ℝ) : C01M.WFV (seenV ks v) ↔ C01M.WFV v := by rw [seen_eq so_wfv]

/-- **`seenV` keeps the denotation** (the cast `vector.Array(v)` of a NumPy vector array keeps every stored coordinate) -/
theorem c05d_seen_denote (ks : List OpK) (v : Vec ℝ) : denote (seenV ks v) = denote v := by
  obtain ⟨b, m, e⟩ := seenV_retag ks v
  rw [e]; rfl

/-- **`seenV` keeps the storage** (coordinate system, dimension, stored coordinates) -/
theorem c05d_seen_storage (ks : List OpK) (v : Vec ℝ) :
    (seenV ks v).ty.az = v.ty.az ∧ (seenV ks v).ty.lon = v.ty.lon ∧ (seenV ks v).ty.tmp = v.ty.tmp ∧
      (seenV ks v).ty.dim = v.ty.dim ∧ (seenV ks v).c = v.c := by
  obtain ⟨b, m, e⟩ := seenV_retag ks v
  rw [e]; exact ⟨rfl, rfl, rfl, rfl, rfl⟩

/-- the backend of the result of a two-vector method on the operands as seen (`C11M.hbe`: higher priority, first wins ties)
is the backend whose table answered -/
theorem c05d_seen_handler (v w : Vec ℝ) :
    handlerBe [kv v, kv w] = some (C11M.hbe (seenV [kv v, kv w] v).ty.be (seenV [kv v, kv w] w).ty.be) := by
  obtain ⟨⟨be1, mom1, az1, lon1, tmp1⟩, c1⟩ := v
  obtain ⟨⟨be2, mom2, az2, lon2, tmp2⟩, c2⟩ := w
  cases be1 <;> cases be2 <;>
    simp [handlerBe, kv, OpK.isBe, seenV, akCastVec, C11M.hbe, Backend.prio]

theorem denote_some {v : Vec ℝ} (hv : C01M.WFV v) : ∃ p, denote v = some p := by
  rcases wfv_cases hv with ⟨be, mom, az, a, b, rfl⟩ | ⟨be, mom, az, l, a, b, c, rfl⟩ |
    ⟨be, mom, az, l, t, a, b, c, d, rfl⟩ <;> exact ⟨_, rfl⟩

section
variable (K : Consts ℝ) (A : Arith ℝ)

/-! ## 1. `numpy.add(v, w)` / `v + w`, `numpy.subtract(v, w)` / `v - w` -/

/-- **`numpy.add(v, w)`, every backend pairing (`okSym`: no SymPy operand next to an Awkward one), every storage pairing
(2D: 4, 3D: 36, 4D: 144), both flavors**: a vector of the same dimension, of the backend whose table answered, denoting the
component-wise sum of the Cartesian denotations.  Hypotheses: those of `c11m_add`, on the operands themselves. -/
theorem c05d_add (v w : Vec ℝ) (hs : okSym [kv v, kv w] = true) (hv : C01M.WFV v) (hw : C01M.WFV w) (hd : v.ty.dim = w.ty.dim)
    (hT1 : TanOKV v) (hT2 : TanOKV w) (hS1 : SinOKV v) (hS2 : SinOKV w) (hC1 : CanonTmpV v) (hC2 : CanonTmpV w)
    (hrep : RepAdd v w) :
    ∃ r p q, evalRoute evR K A (route .add [kv v, kv w] []) [.v (seenV [kv v, kv w] v), .v (seenV [kv v, kv w] w)] =
        .ok (.vec r) ∧ C01M.WFV r ∧ r.ty.dim = v.ty.dim ∧ handlerBe [kv v, kv w] = some r.ty.be ∧
      r.ty.mom = ((seenV [kv v, kv w] v).ty.mom || (seenV [kv v, kv w] w).ty.mom) ∧
      r.ty.tmp = tmpRes? v.ty.tmp w.ty.tmp ∧
      denote v = some p ∧ denote w = some q ∧ denote r = some (List.zipWith (· + ·) p q) := by
  have sv := c05d_seen_storage [kv v, kv w] v
  have sw := c05d_seen_storage [kv v, kv w] w
  obtain ⟨r, p, q, h1, h2, h3, h4, h5, h6, h7, h8, h9⟩ :=
    C11M.c11m_add K A (seenV [kv v, kv w] v) (seenV [kv v, kv w] w)
      ((c05d_seen_wfv _ v).2 hv) ((c05d_seen_wfv _ w).2 hw) (by rw [sv.2.2.2.1, sw.2.2.2.1, hd])
      ((seen_eq so_tan _ v).mpr hT1) ((seen_eq so_tan _ w).mpr hT2) ((seen_eq so_sin _ v).mpr hS1)
      ((seen_eq so_sin _ w).mpr hS2) ((seen_eq so_ctmp _ v).mpr hC1) ((seen_eq so_ctmp _ w).mpr hC2)
      ((seen_eq2 so_repAdd _ _ v w).mpr hrep)
  refine ⟨r, p, q, ?_, h2, h3.trans sv.2.2.2.1, ?_, h4, ?_, (c05d_seen_denote _ v).symm.trans h7,
    (c05d_seen_denote _ w).symm.trans h8, h9⟩
  · rw [c05u_add evR K A v w hs, (C11M.c11m_operators evR K A _ _).1]; exact h1
  · rw [c05d_seen_handler v w, h5]
  · rw [h6, sv.2.2.1, sw.2.2.1]

/-- **`numpy.subtract(v, w)`** likewise: the component-wise difference (hypotheses of `c11m_subtract`: for τ,τ-stored 4D
operands the exact difference must be representable in τ storage, `SubCausal`) -/
theorem c05d_subtract (v w : Vec ℝ) (hs : okSym [kv v, kv w] = true) (hv : C01M.WFV v) (hw : C01M.WFV w) (hd : v.ty.dim = w.ty.dim)
    (hT1 : TanOKV v) (hT2 : TanOKV w) (hS1 : SinOKV v) (hS2 : SinOKV w) (hC1 : CanonTmpV v) (hC2 : CanonTmpV w)
    (hrep : RepSub v w) (hcaus : SubCausal v w) :
    ∃ r p q, evalRoute evR K A (route .subtract [kv v, kv w] []) [.v (seenV [kv v, kv w] v), .v (seenV [kv v, kv w] w)] =
        .ok (.vec r) ∧ C01M.WFV r ∧ r.ty.dim = v.ty.dim ∧ handlerBe [kv v, kv w] = some r.ty.be ∧
      r.ty.mom = ((seenV [kv v, kv w] v).ty.mom || (seenV [kv v, kv w] w).ty.mom) ∧
      r.ty.tmp = tmpRes? v.ty.tmp w.ty.tmp ∧
      denote v = some p ∧ denote w = some q ∧ denote r = some (List.zipWith (· - ·) p q) := by
  have sv := c05d_seen_storage [kv v, kv w] v
  have sw := c05d_seen_storage [kv v, kv w] w
  obtain ⟨r, p, q, h1, h2, h3, h4, h5, h6, h7, h8, h9⟩ :=
    C11M.c11m_subtract K A (seenV [kv v, kv w] v) (seenV [kv v, kv w] w)
      ((c05d_seen_wfv _ v).2 hv) ((c05d_seen_wfv _ w).2 hw) (by rw [sv.2.2.2.1, sw.2.2.2.1, hd])
      ((seen_eq so_tan _ v).mpr hT1) ((seen_eq so_tan _ w).mpr hT2) ((seen_eq so_sin _ v).mpr hS1)
      ((seen_eq so_sin _ w).mpr hS2) ((seen_eq so_ctmp _ v).mpr hC1) ((seen_eq so_ctmp _ w).mpr hC2)
      ((seen_eq2 so_repSub _ _ v w).mpr hrep) ((seen_eq2 so_causal _ _ v w).mpr hcaus)
  refine ⟨r, p, q, ?_, h2, h3.trans sv.2.2.2.1, ?_, h4, ?_, (c05d_seen_denote _ v).symm.trans h7,
    (c05d_seen_denote _ w).symm.trans h8, h9⟩
  · rw [c05u_subtract evR K A v w hs, (C11M.c11m_operators evR K A _ _).2.1]; exact h1
  · rw [c05d_seen_handler v w, h5]
  · rw [h6, sv.2.2.1, sw.2.2.1]

/-! ## 2. `numpy.matmul(v, w)` / `v @ w` -/

/-- **`numpy.matmul(v, w)`** is the Euclidean (2D / 3D) resp. Minkowski (4D, `t₁t₂ − x₁x₂ − y₁y₂ − z₁z₂`) product of the
denotations (`C11M.dotL`), every backend and storage pairing (hypotheses of `c11m_dot`) -/
theorem c05d_matmul (v w : Vec ℝ) (hs : okSym [kv v, kv w] = true) (hv : C01M.WFV v) (hw : C01M.WFV w) (hd : v.ty.dim = w.ty.dim)
    (hT1 : TanOKV v) (hT2 : TanOKV w) (hS1 : SinOKV v) (hS2 : SinOKV w) (hC1 : CanonTmpV v) (hC2 : CanonTmpV w) :
    ∃ p q, denote v = some p ∧ denote w = some q ∧
      evalRoute evR K A (route .matmul [kv v, kv w] []) [.v (seenV [kv v, kv w] v), .v (seenV [kv v, kv w] w)] =
        .ok (.scalar (dotL p q)) := by
  have sv := c05d_seen_storage [kv v, kv w] v
  have sw := c05d_seen_storage [kv v, kv w] w
  obtain ⟨p, q, h1, h2, h3⟩ :=
    C11M.c11m_dot K A (seenV [kv v, kv w] v) (seenV [kv v, kv w] w)
      ((c05d_seen_wfv _ v).2 hv) ((c05d_seen_wfv _ w).2 hw) (by rw [sv.2.2.2.1, sw.2.2.2.1, hd])
      ((seen_eq so_tan _ v).mpr hT1) ((seen_eq so_tan _ w).mpr hT2) ((seen_eq so_sin _ v).mpr hS1)
      ((seen_eq so_sin _ w).mpr hS2) ((seen_eq so_ctmp _ v).mpr hC1) ((seen_eq so_ctmp _ w).mpr hC2)
  refine ⟨p, q, (c05d_seen_denote _ v).symm.trans h1, (c05d_seen_denote _ w).symm.trans h2, ?_⟩
  rw [c05u_matmul evR K A v w hs, (C11M.c11m_operators evR K A _ _).2.2.1]; exact h3

/-! ## 3. `multiply`, `true_divide`, `negative`, `positive` -/

/-- **`numpy.multiply(v, k)` AND `numpy.multiply(k, v)`** (`v * k`, `k * v`), every backend and storage: both return the same
vector, of the type of `v`, denoting `k •` the denotation of `v` (hypotheses of `c11m_scale`: stored θ in `[0, π]`; for
τ-stored 4D vectors `0 ≤ k`) -/
theorem c05d_multiply (v : Vec ℝ) (hv : C01M.WFV v) (k : ℝ) (hθ : ThetaRangeV v) (hf : v.ty.tmp = some .tau → 0 ≤ k) :
    ∃ r p, evalRoute evR K A (route .multiply [kv v, .scalar] []) [.v v, .sc k] = .ok (.vec r) ∧
      evalRoute evR K A (route .multiply [.scalar, kv v] []) [.sc k, .v v] = .ok (.vec r) ∧
      r.ty = v.ty ∧ C01M.WFV r ∧ denote v = some p ∧ denote r = some (p.map (k * ·)) := by
  obtain ⟨r, p, h1, h2, h3, h4, h5⟩ := C11M.c11m_scale K A v hv k hθ hf
  refine ⟨r, p, ?_, ?_, h2, h3, h4, h5⟩
  · rw [c05u_multiply_vk evR K A v k, (C11M.c11m_neg evR K A v k).2.1]; exact h1
  · rw [(c05u_multiply_kv evR K A v k).1, (C11M.c11m_neg evR K A v k).2.1]; exact h1

/-- **the two operand orders of `multiply` give the SAME result value** — any vector, any scalar type, any compute layer -/
theorem c05d_multiply_comm {S B : Type} (ev : Ev S B) (K : Consts S) (A : Arith S) (v : Vec S) (k : S) :
    evalRoute ev K A (route .multiply [kv v, .scalar] []) [.v v, .sc k] =
      evalRoute ev K A (route .multiply [.scalar, kv v] []) [.sc k, .v v] := by
  rw [c05u_multiply_vk ev K A v k, (c05u_multiply_kv ev K A v k).1]

/-- **`numpy.true_divide(v, k)`** (`v / k`), `k ≠ 0`, with an arithmetic whose `1 / k` is the real inverse: a vector of the type
of `v` denoting `k⁻¹ •` the denotation (for τ-stored 4D vectors `0 ≤ k`) -/
theorem c05d_true_divide (v : Vec ℝ) (hv : C01M.WFV v) (k : ℝ) (hk : k ≠ 0) (hA : A.inv k = k⁻¹) (hθ : ThetaRangeV v)
    (hf : v.ty.tmp = some .tau → 0 ≤ k) :
    ∃ r p, evalRoute evR K A (route .true_divide [kv v, .scalar] []) [.v v, .sc k] = .ok (.vec r) ∧
      r.ty = v.ty ∧ C01M.WFV r ∧ denote v = some p ∧ denote r = some (p.map (k⁻¹ * ·)) := by
  obtain ⟨r, p, h1, h2, h3, h4, h5⟩ := C11M.c11m_scale K A v hv k⁻¹ hθ (fun e => inv_nonneg.mpr (hf e))
  refine ⟨r, p, ?_, h2, h3, h4, h5⟩
  rw [c05u_true_divide evR K A v k, (C11M.c11m_neg evR K A v k).2.2.2, hA]; exact h1

/-- the real arithmetic of `Props/MethodOps.lean` satisfies the hypothesis on `A.inv` -/
example (k : ℝ) : C12M.realArith.inv k = k⁻¹ := one_div k

/-- **`numpy.negative(v)`** (`-v`): a vector of the type of `v` denoting the negated denotation — every storage except
τ-stored 4D vectors (`c11m_neg_tau_discrepancy`: known finding) -/
theorem c05d_negative (hK : K.negOne = -1) (v : Vec ℝ) (hv : C01M.WFV v) (hθ : ThetaRangeV v) (hτ : v.ty.tmp ≠ some .tau) :
    ∃ r p, evalRoute evR K A (route .negative [kv v] []) [.v v] = .ok (.vec r) ∧ r.ty = v.ty ∧
      denote v = some p ∧ denote r = some (p.map (fun x => -x)) := by
  obtain ⟨r, p, h1, h2, h3, h4⟩ := C11M.c11m_neg_denote K A hK v hv hθ hτ
  exact ⟨r, p, (c05u_negative evR K A v).trans h1, h2, h3, h4⟩

/-- **`numpy.positive(v)`** (`+v`) returns `v` itself — any vector, any scalar type, any compute layer -/
theorem c05d_positive {S B : Type} (ev : Ev S B) (K : Consts S) (A : Arith S) (v : Vec S) :
    evalRoute ev K A (route .positive [kv v] []) [.v v] = .ok (.vec v) := by
  rw [c05u_positive ev K A v]; rfl

/-! ## 4. `absolute`, `square`, `sqrt`, `cbrt`, `power` -/

/-- **`numpy.absolute(v)`** (`abs(v)`), every backend and storage (2 + 6 + 12): the norm of the denotation (`C12M.normS`:
Euclidean in 2D / 3D, the signed `tau` in 4D); hypotheses of `c12m_abs` -/
theorem c05d_absolute (v : Vec ℝ) (hv : C01M.WFV v) (hc : NormOK v) (p : List ℝ) (h : denote v = some p) :
    evalRoute evR K A (route .absolute [kv v] []) [.v v] = .ok (.scalar (normS p)) :=
  (c05u_absolute evR K A v).trans (C12M.c12m_abs K A v hv hc p h)

/-- … spelled out per dimension: `√(x²+y²)`, `√(x²+y²+z²)`, and for `s = t² − (x²+y²+z²)` the signed `sign(s)·√|s|`, which is
`√s` for a time-like or light-like vector -/
theorem c05d_absolute_dims (v : Vec ℝ) (hv : C01M.WFV v) (hc : NormOK v) :
    (∀ x y, denote v = some [x, y] →
      evalRoute evR K A (route .absolute [kv v] []) [.v v] = .ok (.scalar (sqrt (x ^ 2 + y ^ 2)))) ∧
    (∀ x y z, denote v = some [x, y, z] →
      evalRoute evR K A (route .absolute [kv v] []) [.v v] = .ok (.scalar (sqrt (x ^ 2 + y ^ 2 + z ^ 2)))) ∧
    (∀ x y z t, denote v = some [x, y, z, t] →
      evalRoute evR K A (route .absolute [kv v] []) [.v v] =
        .ok (.scalar (Real.sign (t ^ 2 - (x ^ 2 + y ^ 2 + z ^ 2)) * sqrt |t ^ 2 - (x ^ 2 + y ^ 2 + z ^ 2)|))) ∧
    (∀ x y z t, denote v = some [x, y, z, t] → 0 ≤ t ^ 2 - (x ^ 2 + y ^ 2 + z ^ 2) →
      evalRoute evR K A (route .absolute [kv v] []) [.v v] = .ok (.scalar (sqrt (t ^ 2 - (x ^ 2 + y ^ 2 + z ^ 2))))) := by
  refine ⟨fun x y h => c05d_absolute K A v hv hc _ h, fun x y z h => c05d_absolute K A v hv hc _ h,
    fun x y z t h => c05d_absolute K A v hv hc _ h, fun x y z t h h0 => ?_⟩
  rw [c05d_absolute K A v hv hc _ h, C12M.normS_eq_sqrt _ (show 0 ≤ norm2S [x, y, z, t] from h0)]; rfl

/-- **`numpy.square(v)`**: the squared norm of the denotation (`C12M.norm2S`); hypotheses of `c12m_square` -/
theorem c05d_square (v : Vec ℝ) (hv : C01M.WFV v) (hc : Norm2OK v) (p : List ℝ) (h : denote v = some p) :
    evalRoute evR K A (route .square [kv v] []) [.v v] = .ok (.scalar (norm2S p)) :=
  (c05u_square evR K A v).trans (C12M.c12m_square K A v hv hc p h)

/-- … spelled out per dimension: `x²+y²`, `x²+y²+z²`, `t² − (x²+y²+z²)` -/
theorem c05d_square_dims (v : Vec ℝ) (hv : C01M.WFV v) (hc : Norm2OK v) :
    (∀ x y, denote v = some [x, y] →
      evalRoute evR K A (route .square [kv v] []) [.v v] = .ok (.scalar (x ^ 2 + y ^ 2))) ∧
    (∀ x y z, denote v = some [x, y, z] →
      evalRoute evR K A (route .square [kv v] []) [.v v] = .ok (.scalar (x ^ 2 + y ^ 2 + z ^ 2))) ∧
    (∀ x y z t, denote v = some [x, y, z, t] →
      evalRoute evR K A (route .square [kv v] []) [.v v] = .ok (.scalar (t ^ 2 - (x ^ 2 + y ^ 2 + z ^ 2)))) :=
  ⟨fun x y h => c05d_square K A v hv hc _ h, fun x y z h => c05d_square K A v hv hc _ h,
    fun x y z t h => c05d_square K A v hv hc _ h⟩

/-- **`numpy.sqrt(v)`** = `(norm²) ** 0.25` -/
theorem c05d_sqrt (v : Vec ℝ) (hv : C01M.WFV v) (hc : Norm2OK v) (p : List ℝ) (h : denote v = some p) :
    evalRoute evR K A (route .sqrt [kv v] []) [.v v] = .ok (.scalar (A.pow (norm2S p) A.quarter)) :=
  (c05u_sqrt evR K A v).trans (C12M.c12m_sqrt K A v hv hc p h)

/-- **`numpy.cbrt(v)`** = `(norm²) ** 0.1666…` -/
theorem c05d_cbrt (v : Vec ℝ) (hv : C01M.WFV v) (hc : Norm2OK v) (p : List ℝ) (h : denote v = some p) :
    evalRoute evR K A (route .cbrt [kv v] []) [.v v] = .ok (.scalar (A.pow (norm2S p) A.sixth)) :=
  (c05u_cbrt evR K A v).trans (C12M.c12m_cbrt K A v hv hc p h)

/-- **`numpy.power(v, k)` on the Awkward backend**: the squared norm for `k == 2`, `norm ** k` otherwise -/
theorem c05d_power_ak (v : Vec ℝ) (hb : v.ty.be = .ak) (hv : C01M.WFV v) (hc : NormOK v) (p : List ℝ) (h : denote v = some p)
    (k : ℝ) :
    evalRoute evR K A (route .power [kv v, .scalar] []) [.v v, .sc k] =
      .ok (.scalar (if A.isTwo k then norm2S p else A.pow (normS p) k)) := by
  rw [c05u_power_ak evR K A v k hb]
  by_cases h2 : A.isTwo k = true
  · rw [if_pos h2]; exact C12M.c12m_pow_two K A v hv (C12M.norm2OK_of_normOK hv hc) p h k h2
  · rw [if_neg h2]; exact C12M.c12m_pow K A v hv hc p h k (by simpa using h2)

/-- **`numpy.power(v, k)` on the object / NumPy / SymPy backends**: `norm ** k` for EVERY `k`, also `k == 2` (so for a
space-like 4D vector `numpy.power(v, 2) = tau² = |tau2| ≠ tau2 = v ** 2`: `c05u_diff_power_two_value`, known finding) -/
theorem c05d_power_chain (v : Vec ℝ) (hb : v.ty.be ≠ .ak) (hv : C01M.WFV v) (hc : NormOK v) (p : List ℝ) (h : denote v = some p)
    (k : ℝ) :
    evalRoute evR K A (route .power [kv v, .scalar] []) [.v v, .sc k] = .ok (.scalar (A.pow (normS p) k)) := by
  rw [(c05u_power_chain evR K A v k hb).1, C12M.getAcc_norm K A v hv hc p h]

/-! ## 5. `equal`, `not_equal` -/

/-- **`numpy.equal(v, w)`** (`v == w`) is the method `equal` — any scalar type and compute layer, every backend pairing -/
theorem c05d_equal {S B : Type} (ev : Ev S B) (K : Consts S) (A : Arith S) (v w : Vec S) (hs : okSym [kv v, kv w] = true) :
    evalRoute ev K A (route .equal [kv v, kv w] []) [.v (seenV [kv v, kv w] v), .v (seenV [kv v, kv w] w)] =
      call ev K A "equal" (seenV [kv v, kv w] v) [.v (seenV [kv v, kv w] w)] := by
  rw [c05u_equal ev K A v w hs, (C11M.c11m_operators ev K A _ _).2.2.2.1]

/-- **`numpy.not_equal(v, w)`** (`v != w`) is the method `not_equal` -/
theorem c05d_not_equal {S B : Type} (ev : Ev S B) (K : Consts S) (A : Arith S) (v w : Vec S)
    (hs : okSym [kv v, kv w] = true) :
    evalRoute ev K A (route .not_equal [kv v, kv w] []) [.v (seenV [kv v, kv w] v), .v (seenV [kv v, kv w] w)] =
      call ev K A "not_equal" (seenV [kv v, kv w] v) [.v (seenV [kv v, kv w] w)] := by
  rw [c05u_not_equal ev K A v w hs, (C11M.c11m_operators ev K A _ _).2.2.2.2]

/-- over the reals: the answers of the compute functions behind `equal` / `not_equal` on the ORIGINAL operands
(`C12M.EqP`, `C12M.NeP`), and `!=` is the negation of `==` -/
theorem c05d_equal_value (v w : Vec ℝ) (hs : okSym [kv v, kv w] = true) (hv : C01M.WFV v) (hw : C01M.WFV w)
    (hd : v.ty.dim = w.ty.dim) :
    evalRoute evR K A (route .equal [kv v, kv w] []) [.v (seenV [kv v, kv w] v), .v (seenV [kv v, kv w] w)] =
      .ok (.truth (EqP v w)) ∧
    evalRoute evR K A (route .not_equal [kv v, kv w] []) [.v (seenV [kv v, kv w] v), .v (seenV [kv v, kv w] w)] =
      .ok (.truth (NeP v w)) ∧
    (NeP v w ↔ ¬ EqP v w) := by
  have sv := c05d_seen_storage [kv v, kv w] v
  have sw := c05d_seen_storage [kv v, kv w] w
  have hv' := (c05d_seen_wfv [kv v, kv w] v).2 hv
  have hw' := (c05d_seen_wfv [kv v, kv w] w).2 hw
  have hd' : (seenV [kv v, kv w] v).ty.dim = (seenV [kv v, kv w] w).ty.dim := by rw [sv.2.2.2.1, sw.2.2.2.1, hd]
  have e1 := C12M.equal_eval K A _ _ hv' hw' hd'
  have e2 := C12M.not_equal_eval K A _ _ hv' hw' hd'
  rw [seen_eq2 so_eqP] at e1
  rw [seen_eq2 so_neP] at e2
  refine ⟨(c05d_equal evR K A v w hs).trans e1, (c05d_not_equal evR K A v w hs).trans e2, ?_⟩
  obtain ⟨p, q, h1, h2, h3⟩ := C12M.c12m_ne_iff_not_eq K A v w hv hw hd
  rw [C12M.not_equal_eval K A v w hv hw hd] at h1
  rw [C12M.equal_eval K A v w hv hw hd] at h2
  cases h1; cases h2
  exact h3

/-- **soundness of the function forms w.r.t. the denotation** (`c12m_eq_denote_partial`; only this direction holds, by design:
the comparison is on stored coordinates): operands for which `numpy.equal` answers true denote the same Cartesian vector;
operands denoting different vectors get `numpy.not_equal` true -/
theorem c05d_equal_denote (v w : Vec ℝ) (hs : okSym [kv v, kv w] = true) (hv : C01M.WFV v) (hw : C01M.WFV w)
    (hd : v.ty.dim = w.ty.dim) (hcv : CanonV v) (hcw : CanonV w) :
    ∃ p q, evalRoute evR K A (route .not_equal [kv v, kv w] []) [.v (seenV [kv v, kv w] v), .v (seenV [kv v, kv w] w)] =
        .ok (.truth p) ∧
      evalRoute evR K A (route .equal [kv v, kv w] []) [.v (seenV [kv v, kv w] v), .v (seenV [kv v, kv w] w)] =
        .ok (.truth q) ∧
      (p ↔ ¬ q) ∧ (q → denote v = denote w) ∧ (denote v ≠ denote w → p) := by
  obtain ⟨e1, e2, e3⟩ := c05d_equal_value K A v w hs hv hw hd
  obtain ⟨p, q, h1, h2, h3, h4⟩ := C12M.c12m_eq_denote_partial K A v w hv hw hd hcv hcw
  rw [C12M.not_equal_eval K A v w hv hw hd] at h1
  rw [C12M.equal_eval K A v w hv hw hd] at h2
  cases h1; cases h2
  exact ⟨_, _, e2, e1, e3, h3, h4⟩

/-! ## 6. the denotation of the result does not depend on the backends of the operands -/

/-- **backend independence, two-vector ufuncs**: the same two stored vectors under ANY two backend taggings (`Vec.setBe`;
each tagging without a SymPy operand next to an Awkward one) — the routes of the answering tables evaluate to sums /
differences with the same denotation and dimension, and to the same `matmul` value -/
theorem c05d_backend_independent (v w : Vec ℝ) (b1 b1' b2 b2' : Backend)
    (hs1 : okSym [kv (v.setBe b1), kv (w.setBe b1')] = true) (hs2 : okSym [kv (v.setBe b2), kv (w.setBe b2')] = true)
    (hv : C01M.WFV v) (hw : C01M.WFV w) (hd : v.ty.dim = w.ty.dim)
    (hT1 : TanOKV v) (hT2 : TanOKV w) (hS1 : SinOKV v) (hS2 : SinOKV w) (hC1 : CanonTmpV v) (hC2 : CanonTmpV w)
    (hrep : RepAdd v w) (hrepS : RepSub v w) (hcaus : SubCausal v w) :
    let v1 := v.setBe b1; let w1 := w.setBe b1'; let v2 := v.setBe b2; let w2 := w.setBe b2'
    let ks1 := [kv v1, kv w1]; let ks2 := [kv v2, kv w2]
    (∃ r1 r2, evalRoute evR K A (route .add ks1 []) [.v (seenV ks1 v1), .v (seenV ks1 w1)] = .ok (.vec r1) ∧
      evalRoute evR K A (route .add ks2 []) [.v (seenV ks2 v2), .v (seenV ks2 w2)] = .ok (.vec r2) ∧
      denote r1 = denote r2 ∧ r1.ty.dim = r2.ty.dim) ∧
    (∃ r1 r2, evalRoute evR K A (route .subtract ks1 []) [.v (seenV ks1 v1), .v (seenV ks1 w1)] = .ok (.vec r1) ∧
      evalRoute evR K A (route .subtract ks2 []) [.v (seenV ks2 v2), .v (seenV ks2 w2)] = .ok (.vec r2) ∧
      denote r1 = denote r2 ∧ r1.ty.dim = r2.ty.dim) ∧
    evalRoute evR K A (route .matmul ks1 []) [.v (seenV ks1 v1), .v (seenV ks1 w1)] =
      evalRoute evR K A (route .matmul ks2 []) [.v (seenV ks2 v2), .v (seenV ks2 w2)] := by
  intro v1 w1 v2 w2 ks1 ks2
  refine ⟨?_, ?_, ?_⟩
  · obtain ⟨r1, p, q, e1, -, d1, -, -, -, hp, hq, h1⟩ :=
      c05d_add K A v1 w1 hs1 hv hw hd hT1 hT2 hS1 hS2 hC1 hC2 hrep
    obtain ⟨r2, p', q', e2, -, d2, -, -, -, hp', hq', h2⟩ :=
      c05d_add K A v2 w2 hs2 hv hw hd hT1 hT2 hS1 hS2 hC1 hC2 hrep
    have ep : some p = some p' := hp.symm.trans hp'
    have eq : some q = some q' := hq.symm.trans hq'
    cases ep; cases eq
    exact ⟨r1, r2, e1, e2, h1.trans h2.symm, d1.trans d2.symm⟩
  · obtain ⟨r1, p, q, e1, -, d1, -, -, -, hp, hq, h1⟩ :=
      c05d_subtract K A v1 w1 hs1 hv hw hd hT1 hT2 hS1 hS2 hC1 hC2 hrepS hcaus
    obtain ⟨r2, p', q', e2, -, d2, -, -, -, hp', hq', h2⟩ :=
      c05d_subtract K A v2 w2 hs2 hv hw hd hT1 hT2 hS1 hS2 hC1 hC2 hrepS hcaus
    have ep : some p = some p' := hp.symm.trans hp'
    have eq : some q = some q' := hq.symm.trans hq'
    cases ep; cases eq
    exact ⟨r1, r2, e1, e2, h1.trans h2.symm, d1.trans d2.symm⟩
  · obtain ⟨p, q, hp, hq, e1⟩ := c05d_matmul K A v1 w1 hs1 hv hw hd hT1 hT2 hS1 hS2 hC1 hC2
    obtain ⟨p', q', hp', hq', e2⟩ := c05d_matmul K A v2 w2 hs2 hv hw hd hT1 hT2 hS1 hS2 hC1 hC2
    have ep : some p = some p' := hp.symm.trans hp'
    have eq : some q = some q' := hq.symm.trans hq'
    cases ep; cases eq
    rw [e1, e2]

/-- **backend independence, one-vector ufuncs**: `multiply` (both orders) and `true_divide` give vectors with the same
denotation, `absolute` and `square` the same value, whatever the backend tag of the operand -/
theorem c05d_backend_independent_unary (v : Vec ℝ) (b1 b2 : Backend) (hv : C01M.WFV v) (k : ℝ) (hθ : ThetaRangeV v)
    (hf : v.ty.tmp = some .tau → 0 ≤ k) (hc : NormOK v) :
    let v1 := v.setBe b1; let v2 := v.setBe b2
    (∃ r1 r2, evalRoute evR K A (route .multiply [kv v1, .scalar] []) [.v v1, .sc k] = .ok (.vec r1) ∧
      evalRoute evR K A (route .multiply [.scalar, kv v2] []) [.sc k, .v v2] = .ok (.vec r2) ∧
      denote r1 = denote r2 ∧ r1.ty.dim = r2.ty.dim) ∧
    evalRoute evR K A (route .absolute [kv v1] []) [.v v1] = evalRoute evR K A (route .absolute [kv v2] []) [.v v2] ∧
    evalRoute evR K A (route .square [kv v1] []) [.v v1] = evalRoute evR K A (route .square [kv v2] []) [.v v2] := by
  intro v1 v2
  obtain ⟨p0, hp0⟩ := denote_some hv
  refine ⟨?_, ?_, ?_⟩
  · obtain ⟨r1, p, e1, -, t1, -, hp, h1⟩ := c05d_multiply K A v1 hv k hθ hf
    obtain ⟨r2, p', -, e2, t2, -, hp', h2⟩ := c05d_multiply K A v2 hv k hθ hf
    have ep : some p = some p' := hp.symm.trans hp'
    cases ep
    exact ⟨r1, r2, e1, e2, h1.trans h2.symm, by rw [t1, t2]; rfl⟩
  · rw [c05d_absolute K A v1 hv hc p0 hp0, c05d_absolute K A v2 hv hc p0 hp0]
  · rw [c05d_square K A v1 hv (C12M.norm2OK_of_normOK hv hc) p0 hp0,
      c05d_square K A v2 hv (C12M.norm2OK_of_normOK hv hc) p0 hp0]

end

/-! ## 7. the hypotheses are satisfiable -/

/-- a (ρ, φ, η)-stored NumPy momentum operand … -/
noncomputable abbrev exNp : Vec ℝ := C11M.V3 .np true .rhophi .eta 2 1 (1 / 2)
/-- … and an (x, y, θ)-stored generic Awkward operand -/
noncomputable abbrev exAk : Vec ℝ := C11M.V3 .ak false .xy .theta 1 2 1

/-- the Awkward table answers (in both operand orders) and sees the NumPy operand CAST: backend `ak`, generic flavor, same
storage and coordinates -/
example : okSym [kv exNp, kv exAk] = true ∧ okSym [kv exAk, kv exNp] = true ∧
    handlerBe [kv exNp, kv exAk] = some .ak ∧
    seenV [kv exNp, kv exAk] exNp = C11M.V3 .ak false .rhophi .eta 2 1 (1 / 2) ∧ seenV [kv exNp, kv exAk] exAk = exAk :=
  ⟨rfl, rfl, rfl, rfl, rfl⟩

theorem ex_hyps : C01M.WFV exNp ∧ C01M.WFV exAk ∧ exNp.ty.dim = exAk.ty.dim ∧ TanOKV exNp ∧ TanOKV exAk ∧ SinOKV exNp ∧ SinOKV exAk ∧
    CanonTmpV exNp ∧ CanonTmpV exAk ∧ RepAdd exNp exAk ∧ RepAdd exAk exNp ∧ RepSub exNp exAk ∧ RepSub exAk exNp ∧
    SubCausal exNp exAk ∧ ThetaRangeV exNp ∧ ThetaRangeV exAk ∧ NormOK exNp ∧ NormOK exAk ∧ Norm2OK exNp ∧ Norm2OK exAk ∧
    CanonV exNp ∧ CanonV exAk ∧ (exNp.ty.tmp = some .tau → (0 : ℝ) ≤ 3) ∧ exNp.ty.tmp ≠ some .tau := by
  have hpi : (1 : ℝ) < π := by linarith [two_le_pi]
  have hs1 : sin 1 ≠ 0 := (sin_pos_of_pos_of_lt_pi one_pos hpi).ne'
  have hc1 : cos 1 ≠ 0 := ne_of_gt cos_one_pos
  refine ⟨⟨by simp, rfl⟩, ⟨by simp, rfl⟩, rfl, trivial, hc1, (fun h => by cases h), (fun h => by cases h), trivial, trivial,
    fun _ => Or.inl rfl, fun _ => Or.inl rfl, fun _ => Or.inl rfl, fun _ => Or.inl rfl, (fun h => by cases h), trivial,
    show (0 : ℝ) ≤ 1 ∧ (1 : ℝ) ≤ π from ⟨by norm_num, hpi.le⟩,
    show (0 : ℝ) ≤ 2 ∧ True from ⟨by norm_num, trivial⟩, show True ∧ sin 1 ≠ 0 from ⟨trivial, hs1⟩, trivial, hs1,
    show ((0 : ℝ) ≤ 2 ∧ (0 : ℝ) < 2) ∧ True from ⟨⟨by norm_num, by norm_num⟩, trivial⟩,
    show (True ∧ (0 < sqrt ((1 : ℝ) ^ 2 + 2 ^ 2) ∧ (0 : ℝ) < 1 ∧ (1 : ℝ) < π)) ∧ cos 1 ≠ 0 from
      ⟨⟨trivial, sqrt_pos.mpr (by norm_num), one_pos, hpi⟩, hc1⟩,
    fun _ => by norm_num, fun h => by cases h⟩

/-- the theorems instantiated on this pair: `numpy.add(np, ak)`, `numpy.matmul(np, ak)`, `numpy.multiply(3, np)`,
`numpy.absolute(ak)` -/
example (K : Consts ℝ) (A : Arith ℝ) :
    (∃ r p q, evalRoute evR K A (route .add [kv exNp, kv exAk] [])
        [.v (seenV [kv exNp, kv exAk] exNp), .v (seenV [kv exNp, kv exAk] exAk)] = .ok (.vec r) ∧
      r.ty.dim = 3 ∧ r.ty.be = .ak ∧ r.ty.mom = false ∧
      denote exNp = some p ∧ denote exAk = some q ∧ denote r = some (List.zipWith (· + ·) p q)) ∧
    (∃ p q, denote exNp = some p ∧ denote exAk = some q ∧
      evalRoute evR K A (route .matmul [kv exNp, kv exAk] [])
        [.v (seenV [kv exNp, kv exAk] exNp), .v (seenV [kv exNp, kv exAk] exAk)] = .ok (.scalar (dotL p q))) ∧
    (∃ r p, evalRoute evR K A (route .multiply [.scalar, kv exNp] []) [.sc 3, .v exNp] = .ok (.vec r) ∧
      r.ty = exNp.ty ∧ denote exNp = some p ∧ denote r = some (p.map (3 * ·))) ∧
    evalRoute evR K A (route .absolute [kv exAk] []) [.v exAk] =
      .ok (.scalar (sqrt (1 ^ 2 + 2 ^ 2 + (sqrt ((1 : ℝ) ^ 2 + 2 ^ 2) * (cos 1 / sin 1)) ^ 2))) := by
  obtain ⟨h1, h2, h3, h4, h5, h6, h7, h8, h9, h10, h11, h12, h13, h14, h15, h16, h17, h18, h19, h20, h21, h22, h23, h24⟩ :=
    ex_hyps
  refine ⟨?_, c05d_matmul K A exNp exAk rfl h1 h2 h3 h4 h5 h6 h7 h8 h9, ?_, ?_⟩
  · obtain ⟨r, p, q, e, -, d, hb, hm, -, hp, hq, hr⟩ := c05d_add K A exNp exAk rfl h1 h2 h3 h4 h5 h6 h7 h8 h9 h10
    refine ⟨r, p, q, e, d, ?_, hm, hp, hq, hr⟩
    have : some Backend.ak = some r.ty.be := hb
    exact (Option.some.inj this).symm
  · obtain ⟨r, p, -, e, t, -, hp, hr⟩ := c05d_multiply K A exNp h1 3 h15 h23
    exact ⟨r, p, e, t, hp, hr⟩
  · exact (c05d_absolute_dims K A exAk h2 h18).2.1 _ _ _ rfl

end C05D
end VR
