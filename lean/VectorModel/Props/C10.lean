/-
C10 — rotations are proper rotations and their spellings agree.
Theorems about the *generated* real-number model of
`_compute/planar/rotateZ.py` and `_compute/spatial/{rotateX,rotateY,rotate_axis,rotate_euler,rotate_quaternion}.py`
(Cartesian variants; every other coordinate system is, by construction of the code, the Cartesian
variant composed with the coordinate accessors).
-/
import VectorModel.Gen.Real.planar_rotateZ
import VectorModel.Gen.Real.spatial_rotateX
import VectorModel.Gen.Real.spatial_rotateY
import VectorModel.Gen.Real.spatial_rotate_axis
import VectorModel.Gen.Real.spatial_rotate_euler
import VectorModel.Gen.Real.spatial_rotate_quaternion
import Mathlib.Tactic.Ring
import Mathlib.Tactic.Linarith
import Mathlib.Tactic.FieldSimp
import Mathlib.Tactic.NormNum
import Mathlib.Tactic.Positivity
import Mathlib.Tactic.LinearCombination

namespace VR
open VK

/-! ## Specification: the three active right-handed axis rotations of ℝ³ -/
namespace Spec10

/-- a point / vector of ℝ³ as the generated code returns it -/
abbrev V3 := ℝ × ℝ × ℝ

/-- active right-handed rotation by `a` about the x axis -/
noncomputable def Rx (a : ℝ) (v : V3) : V3 :=
  (v.1, v.2.1 * Real.cos a - v.2.2 * Real.sin a, v.2.1 * Real.sin a + v.2.2 * Real.cos a)
/-- active right-handed rotation by `a` about the y axis -/
noncomputable def Ry (a : ℝ) (v : V3) : V3 :=
  (v.1 * Real.cos a + v.2.2 * Real.sin a, v.2.1, -v.1 * Real.sin a + v.2.2 * Real.cos a)
/-- active right-handed rotation by `a` about the z axis -/
noncomputable def Rz (a : ℝ) (v : V3) : V3 :=
  (v.1 * Real.cos a - v.2.1 * Real.sin a, v.1 * Real.sin a + v.2.1 * Real.cos a, v.2.2)

def dot3 (a b : V3) : ℝ := a.1 * b.1 + a.2.1 * b.2.1 + a.2.2 * b.2.2
def cross3 (a b : V3) : V3 :=
  (a.2.1 * b.2.2 - a.2.2 * b.2.1, a.2.2 * b.1 - a.1 * b.2.2, a.1 * b.2.1 - a.2.1 * b.1)

/-- coordinate axes -/
inductive Axis | x | y | z

/-- rotation about a coordinate axis -/
noncomputable def R : Axis → ℝ → V3 → V3
  | .x => Rx | .y => Ry | .z => Rz

/-- the three letters of an Euler order, left to right -/
def axes : Ord → Axis × Axis × Axis
  | .xzx => (.x, .z, .x) | .xyx => (.x, .y, .x) | .yxy => (.y, .x, .y) | .yzy => (.y, .z, .y)
  | .zyz => (.z, .y, .z) | .zxz => (.z, .x, .z) | .xzy => (.x, .z, .y) | .xyz => (.x, .y, .z)
  | .yxz => (.y, .x, .z) | .yzx => (.y, .z, .x) | .zyx => (.z, .y, .x) | .zxy => (.z, .x, .y)

/-- the reversed Euler order -/
def rev : Ord → Ord
  | .xzx => .xzx | .xyx => .xyx | .yxy => .yxy | .yzy => .yzy | .zyz => .zyz | .zxz => .zxz
  | .xzy => .yzx | .xyz => .zyx | .yxz => .zxy | .yzx => .xzy | .zyx => .xyz | .zxy => .yxz

/-- apply a generated three-argument function to a triple -/
def ap (f : ℝ → ℝ → ℝ → V3) (v : V3) : V3 := f v.1 v.2.1 v.2.2

/-- Rodrigues' formula about the unit vector `(e1,e2,e3)` with `c = cos a`, `s = sin a`: the polynomial normal
form of `rotate_axis` (see `c10_rotate_axis_eq_rod`). -/
def rod (e1 e2 e3 c s x y z : ℝ) : V3 :=
  ((c + e1 ^ 2 * (1 - c)) * x + (e1 * e2 * (1 - c) - e3 * s) * y + (e1 * e3 * (1 - c) + e2 * s) * z,
   (e1 * e2 * (1 - c) + e3 * s) * x + (c + e2 ^ 2 * (1 - c)) * y + (e2 * e3 * (1 - c) - e1 * s) * z,
   (e1 * e3 * (1 - c) - e2 * s) * x + (e2 * e3 * (1 - c) + e1 * s) * y + (c + e3 ^ 2 * (1 - c)) * z)

end Spec10
open Spec10

/-! ## 1. rotateX / rotateY / rotateZ are the axis rotations -/

theorem c10_rotateX_eq_Rx (a x y z : ℝ) : spatial_rotateX.xy_z a x y z = Rx a (x, y, z) := by
  simp only [d_spatial_rotateX, Rx]
  refine Prod.ext ?_ (Prod.ext ?_ ?_) <;> simp only <;> ring

theorem c10_rotateY_eq_Ry (a x y z : ℝ) : spatial_rotateY.xy_z a x y z = Ry a (x, y, z) := by
  simp only [d_spatial_rotateY, Ry]
  refine Prod.ext ?_ (Prod.ext ?_ ?_) <;> simp only <;> ring

theorem c10_rotateZ_eq_Rz (a x y z : ℝ) :
    planar_rotateZ.xy a x y = ((Rz a (x, y, z)).1, (Rz a (x, y, z)).2.1) ∧ (Rz a (x, y, z)).2.2 = z := by
  simp only [d_planar_rotateZ, Rz]
  refine ⟨Prod.ext ?_ ?_, trivial⟩ <;> simp only <;> ring

/-! ## 2. rotate_euler

The single rule implemented by all twelve `cartesian_<o₁o₂o₃>` functions (ROOT's convention: arguments in the
order φ, θ, ψ, every angle taken with the opposite sign of the Wikipedia matrices `O₁(α₁) O₂(α₂) O₃(α₃)`):

  `rotate_euler(φ, θ, ψ, order = o₁o₂o₃) v = R_{o₁}(-ψ) (R_{o₂}(-θ) (R_{o₃}(-φ) v))`

i.e. first rotate by `-φ` about the LAST letter, then by `-θ` about the middle one, then by `-ψ` about the first. -/

theorem c10_euler_xzx (phi theta psi x y z : ℝ) :
    spatial_rotate_euler.cartesian_xzx phi theta psi x y z =
      Rx (-psi) (Rz (-theta) (Rx (-phi) (x, y, z))) := by
  simp only [spatial_rotate_euler.cartesian_xzx, Rx, Rz, Real.cos_neg, Real.sin_neg]
  refine Prod.ext ?_ (Prod.ext ?_ ?_) <;> simp only <;> ring

theorem c10_euler_xyx (phi theta psi x y z : ℝ) :
    spatial_rotate_euler.cartesian_xyx phi theta psi x y z =
      Rx (-psi) (Ry (-theta) (Rx (-phi) (x, y, z))) := by
  simp only [spatial_rotate_euler.cartesian_xyx, Rx, Ry, Real.cos_neg, Real.sin_neg]
  refine Prod.ext ?_ (Prod.ext ?_ ?_) <;> simp only <;> ring

theorem c10_euler_yxy (phi theta psi x y z : ℝ) :
    spatial_rotate_euler.cartesian_yxy phi theta psi x y z =
      Ry (-psi) (Rx (-theta) (Ry (-phi) (x, y, z))) := by
  simp only [spatial_rotate_euler.cartesian_yxy, Rx, Ry, Real.cos_neg, Real.sin_neg]
  refine Prod.ext ?_ (Prod.ext ?_ ?_) <;> simp only <;> ring

theorem c10_euler_yzy (phi theta psi x y z : ℝ) :
    spatial_rotate_euler.cartesian_yzy phi theta psi x y z =
      Ry (-psi) (Rz (-theta) (Ry (-phi) (x, y, z))) := by
  simp only [spatial_rotate_euler.cartesian_yzy, Ry, Rz, Real.cos_neg, Real.sin_neg]
  refine Prod.ext ?_ (Prod.ext ?_ ?_) <;> simp only <;> ring

theorem c10_euler_zyz (phi theta psi x y z : ℝ) :
    spatial_rotate_euler.cartesian_zyz phi theta psi x y z =
      Rz (-psi) (Ry (-theta) (Rz (-phi) (x, y, z))) := by
  simp only [spatial_rotate_euler.cartesian_zyz, Ry, Rz, Real.cos_neg, Real.sin_neg]
  refine Prod.ext ?_ (Prod.ext ?_ ?_) <;> simp only <;> ring

theorem c10_euler_zxz (phi theta psi x y z : ℝ) :
    spatial_rotate_euler.cartesian_zxz phi theta psi x y z =
      Rz (-psi) (Rx (-theta) (Rz (-phi) (x, y, z))) := by
  simp only [spatial_rotate_euler.cartesian_zxz, Rx, Rz, Real.cos_neg, Real.sin_neg]
  refine Prod.ext ?_ (Prod.ext ?_ ?_) <;> simp only <;> ring

theorem c10_euler_xzy (phi theta psi x y z : ℝ) :
    spatial_rotate_euler.cartesian_xzy phi theta psi x y z =
      Rx (-psi) (Rz (-theta) (Ry (-phi) (x, y, z))) := by
  simp only [spatial_rotate_euler.cartesian_xzy, Rx, Ry, Rz, Real.cos_neg, Real.sin_neg]
  refine Prod.ext ?_ (Prod.ext ?_ ?_) <;> simp only <;> ring

theorem c10_euler_xyz (phi theta psi x y z : ℝ) :
    spatial_rotate_euler.cartesian_xyz phi theta psi x y z =
      Rx (-psi) (Ry (-theta) (Rz (-phi) (x, y, z))) := by
  simp only [spatial_rotate_euler.cartesian_xyz, Rx, Ry, Rz, Real.cos_neg, Real.sin_neg]
  refine Prod.ext ?_ (Prod.ext ?_ ?_) <;> simp only <;> ring

theorem c10_euler_yxz (phi theta psi x y z : ℝ) :
    spatial_rotate_euler.cartesian_yxz phi theta psi x y z =
      Ry (-psi) (Rx (-theta) (Rz (-phi) (x, y, z))) := by
  simp only [spatial_rotate_euler.cartesian_yxz, Rx, Ry, Rz, Real.cos_neg, Real.sin_neg]
  refine Prod.ext ?_ (Prod.ext ?_ ?_) <;> simp only <;> ring

theorem c10_euler_yzx (phi theta psi x y z : ℝ) :
    spatial_rotate_euler.cartesian_yzx phi theta psi x y z =
      Ry (-psi) (Rz (-theta) (Rx (-phi) (x, y, z))) := by
  simp only [spatial_rotate_euler.cartesian_yzx, Rx, Ry, Rz, Real.cos_neg, Real.sin_neg]
  refine Prod.ext ?_ (Prod.ext ?_ ?_) <;> simp only <;> ring

theorem c10_euler_zyx (phi theta psi x y z : ℝ) :
    spatial_rotate_euler.cartesian_zyx phi theta psi x y z =
      Rz (-psi) (Ry (-theta) (Rx (-phi) (x, y, z))) := by
  simp only [spatial_rotate_euler.cartesian_zyx, Rx, Ry, Rz, Real.cos_neg, Real.sin_neg]
  refine Prod.ext ?_ (Prod.ext ?_ ?_) <;> simp only <;> ring

theorem c10_euler_zxy (phi theta psi x y z : ℝ) :
    spatial_rotate_euler.cartesian_zxy phi theta psi x y z =
      Rz (-psi) (Rx (-theta) (Ry (-phi) (x, y, z))) := by
  simp only [spatial_rotate_euler.cartesian_zxy, Rx, Ry, Rz, Real.cos_neg, Real.sin_neg]
  refine Prod.ext ?_ (Prod.ext ?_ ?_) <;> simp only <;> ring

/-- master statement over the whole `Ord` key of the dispatcher (Cartesian input). -/
theorem c10_euler_eval (o : Ord) (phi theta psi x y z : ℝ) :
    spatial_rotate_euler.eval .xy .z o phi theta psi x y z =
      R (axes o).1 (-psi) (R (axes o).2.1 (-theta) (R (axes o).2.2 (-phi) (x, y, z))) := by
  cases o <;> simp only [spatial_rotate_euler.eval, axes, R]
  · exact c10_euler_xzx phi theta psi x y z
  · exact c10_euler_xyx phi theta psi x y z
  · exact c10_euler_yxy phi theta psi x y z
  · exact c10_euler_yzy phi theta psi x y z
  · exact c10_euler_zyz phi theta psi x y z
  · exact c10_euler_zxz phi theta psi x y z
  · exact c10_euler_xzy phi theta psi x y z
  · exact c10_euler_xyz phi theta psi x y z
  · exact c10_euler_yxz phi theta psi x y z
  · exact c10_euler_yzx phi theta psi x y z
  · exact c10_euler_zyx phi theta psi x y z
  · exact c10_euler_zxy phi theta psi x y z

/-- `rotate_nautical(yaw, pitch, roll)` is *defined* in the method layer as
`rotate_euler.dispatch(roll, pitch, yaw, "zyx", v)`; in terms of axis rotations that call is
`Rz(-yaw) ∘ Ry(-pitch) ∘ Rx(-roll)`. -/
theorem c10_nautical_zyx (yaw pitch roll x y z : ℝ) :
    spatial_rotate_euler.eval .xy .z .zyx roll pitch yaw x y z =
      Rz (-yaw) (Ry (-pitch) (Rx (-roll) (x, y, z))) :=
  c10_euler_zyx roll pitch yaw x y z

/-! ## 4. rotate_axis: normal form, coordinate axes, independence of the axis length, quaternion spelling -/

/-- `rotate_axis` is Rodrigues' formula about the normalised axis (no hypothesis: purely syntactic). -/
theorem c10_rotate_axis_eq_rod (a ux uy uz x y z : ℝ) :
    spatial_rotate_axis.cartesian a ux uy uz x y z =
      rod (ux / Real.sqrt (ux ^ 2 + uy ^ 2 + uz ^ 2)) (uy / Real.sqrt (ux ^ 2 + uy ^ 2 + uz ^ 2))
        (uz / Real.sqrt (ux ^ 2 + uy ^ 2 + uz ^ 2)) (Real.cos a) (Real.sin a) x y z := by
  simp only [spatial_rotate_axis.cartesian, rod]

/-- the normalised axis is a unit vector as soon as the axis is not the zero vector -/
private theorem unit_axis {ux uy uz : ℝ} (h : 0 < ux ^ 2 + uy ^ 2 + uz ^ 2) :
    (ux / Real.sqrt (ux ^ 2 + uy ^ 2 + uz ^ 2)) ^ 2 + (uy / Real.sqrt (ux ^ 2 + uy ^ 2 + uz ^ 2)) ^ 2 +
      (uz / Real.sqrt (ux ^ 2 + uy ^ 2 + uz ^ 2)) ^ 2 = 1 := by
  have hn : Real.sqrt (ux ^ 2 + uy ^ 2 + uz ^ 2) ^ 2 = ux ^ 2 + uy ^ 2 + uz ^ 2 := Real.sq_sqrt h.le
  have hpos : 0 < Real.sqrt (ux ^ 2 + uy ^ 2 + uz ^ 2) := Real.sqrt_pos.mpr h
  rw [div_pow, div_pow, div_pow, ← add_div, ← add_div, hn]
  exact div_self h.ne'

private theorem rod_dot (e1 e2 e3 c s x y z x2 y2 z2 : ℝ) (he : e1 ^ 2 + e2 ^ 2 + e3 ^ 2 = 1)
    (hcs : c ^ 2 + s ^ 2 = 1) :
    dot3 (rod e1 e2 e3 c s x y z) (rod e1 e2 e3 c s x2 y2 z2) = dot3 (x, y, z) (x2, y2, z2) := by
  simp only [rod, dot3]
  linear_combination (c^2*e1^2*x*x2 + c^2*e1*e2*x*y2 + c^2*e1*e2*x2*y + c^2*e1*e3*x*z2 + c^2*e1*e3*x2*z + c^2*e2^2*y*y2 + c^2*e2*e3*y*z2 + c^2*e2*e3*y2*z + c^2*e3^2*z*z2 - c^2*x*x2 - 2*c*e1^2*x*x2 - 2*c*e1*e2*x*y2 - 2*c*e1*e2*x2*y - 2*c*e1*e3*x*z2 - 2*c*e1*e3*x2*z - 2*c*e2^2*y*y2 - 2*c*e2*e3*y*z2 - 2*c*e2*e3*y2*z - 2*c*e3^2*z*z2 + e1^2*x*x2 + e1*e2*x*y2 + e1*e2*x2*y + e1*e3*x*z2 + e1*e3*x2*z + e2^2*y*y2 + e2*e3*y*z2 + e2*e3*y2*z + e3^2*z*z2 + s^2*y*y2 + s^2*z*z2 + x*x2) * he + (-e1*e2*x*y2 - e1*e2*x2*y - e1*e3*x*z2 - e1*e3*x2*z + e2^2*x*x2 - e2^2*y*y2 - e2*e3*y*z2 - e2*e3*y2*z + e3^2*x*x2 - e3^2*z*z2 + y*y2 + z*z2) * hcs

private theorem rod_cross (e1 e2 e3 c s x y z x2 y2 z2 : ℝ) (he : e1 ^ 2 + e2 ^ 2 + e3 ^ 2 = 1)
    (hcs : c ^ 2 + s ^ 2 = 1) :
    ap (rod e1 e2 e3 c s) (cross3 (x, y, z) (x2, y2, z2)) =
      cross3 (rod e1 e2 e3 c s x y z) (rod e1 e2 e3 c s x2 y2 z2) := by
  simp only [rod, cross3, ap]
  refine Prod.ext ?_ (Prod.ext ?_ ?_) <;> simp only
  · linear_combination (c*e2*s*x*y2 - c*e2*s*x2*y + c*e3*s*x*z2 - c*e3*s*x2*z - c*y*z2 + c*y2*z - e2*s*x*y2 + e2*s*x2*y - e3*s*x*z2 + e3*s*x2*z - s^2*y*z2 + s^2*y2*z + y*z2 - y2*z) * he + (e1*e2*x*z2 - e1*e2*x2*z - e1*e3*x*y2 + e1*e3*x2*y + e2^2*y*z2 - e2^2*y2*z + e3^2*y*z2 - e3^2*y2*z - y*z2 + y2*z) * hcs
  · linear_combination (-c^2*x*z2 + c^2*x2*z - c*e1*s*x*y2 + c*e1*s*x2*y + c*e3*s*y*z2 - c*e3*s*y2*z + c*x*z2 - c*x2*z + e1*s*x*y2 - e1*s*x2*y - e3*s*y*z2 + e3*s*y2*z) * he + (-e1*e2*y*z2 + e1*e2*y2*z + e2^2*x*z2 - e2^2*x2*z - e2*e3*x*y2 + e2*e3*x2*y) * hcs
  · linear_combination (c^2*x*y2 - c^2*x2*y - c*e1*s*x*z2 + c*e1*s*x2*z - c*e2*s*y*z2 + c*e2*s*y2*z - c*x*y2 + c*x2*y + e1*s*x*z2 - e1*s*x2*z + e2*s*y*z2 - e2*s*y2*z) * he + (-e1*e3*y*z2 + e1*e3*y2*z + e2*e3*x*z2 - e2*e3*x2*z - e3^2*x*y2 + e3^2*x2*y) * hcs

private theorem rod_add (e1 e2 e3 ca sa cb sb x y z : ℝ) (he : e1 ^ 2 + e2 ^ 2 + e3 ^ 2 = 1) :
    rod e1 e2 e3 (ca * cb - sa * sb) (sa * cb + ca * sb) x y z =
      ap (rod e1 e2 e3 ca sa) (rod e1 e2 e3 cb sb x y z) := by
  simp only [rod, ap]
  refine Prod.ext ?_ (Prod.ext ?_ ?_) <;> simp only
  · linear_combination (-ca*cb*e1^2*x - ca*cb*e1*e2*y - ca*cb*e1*e3*z + ca*e1^2*x + ca*e1*e2*y + ca*e1*e3*z + cb*e1^2*x + cb*e1*e2*y + cb*e1*e3*z - e1^2*x - e1*e2*y - e1*e3*z + sa*sb*x) * he
  · linear_combination (-ca*cb*e1*e2*x - ca*cb*e2^2*y - ca*cb*e2*e3*z + ca*e1*e2*x + ca*e2^2*y + ca*e2*e3*z + cb*e1*e2*x + cb*e2^2*y + cb*e2*e3*z - e1*e2*x - e2^2*y - e2*e3*z + sa*sb*y) * he
  · linear_combination (-ca*cb*e1*e3*x - ca*cb*e2*e3*y - ca*cb*e3^2*z + ca*e1*e3*x + ca*e2*e3*y + ca*e3^2*z + cb*e1*e3*x + cb*e2*e3*y + cb*e3^2*z - e1*e3*x - e2*e3*y - e3^2*z + sa*sb*z) * he

private theorem rod_inv (e1 e2 e3 c s x y z : ℝ) (he : e1 ^ 2 + e2 ^ 2 + e3 ^ 2 = 1)
    (hcs : c ^ 2 + s ^ 2 = 1) :
    ap (rod e1 e2 e3 c (-s)) (rod e1 e2 e3 c s x y z) = (x, y, z) := by
  simp only [rod, ap]
  refine Prod.ext ?_ (Prod.ext ?_ ?_) <;> simp only
  · linear_combination (c^2*e1^2*x + c^2*e1*e2*y + c^2*e1*e3*z - c^2*x - 2*c*e1^2*x - 2*c*e1*e2*y - 2*c*e1*e3*z + e1^2*x + e1*e2*y + e1*e3*z + x) * he + (-e1*e2*y - e1*e3*z + e2^2*x + e3^2*x) * hcs
  · linear_combination (c^2*e1*e2*x + c^2*e2^2*y + c^2*e2*e3*z - 2*c*e1*e2*x - 2*c*e2^2*y - 2*c*e2*e3*z + e1*e2*x + e2^2*y + e2*e3*z + s^2*y) * he + (-e1*e2*x - e2^2*y - e2*e3*z + y) * hcs
  · linear_combination (c^2*e1*e3*x + c^2*e2*e3*y + c^2*e3^2*z - 2*c*e1*e3*x - 2*c*e2*e3*y - 2*c*e3^2*z + e1*e3*x + e2*e3*y + e3^2*z + s^2*z) * he + (-e1*e3*x - e2*e3*y - e3^2*z + z) * hcs

private theorem rod_axis (e1 e2 e3 c s t : ℝ) (he : e1 ^ 2 + e2 ^ 2 + e3 ^ 2 = 1) :
    rod e1 e2 e3 c s (t * e1) (t * e2) (t * e3) = (t * e1, t * e2, t * e3) := by
  simp only [rod]
  refine Prod.ext ?_ (Prod.ext ?_ ?_) <;> simp only
  · linear_combination t * (-c*e1 + e1) * he
  · linear_combination t * (-c*e2 + e2) * he
  · linear_combination t * (-c*e3 + e3) * he


/-! ### rotate_axis about a coordinate axis is rotateX / rotateY / rotateZ (any positive axis length) -/

private theorem sqrt_k00 {k : ℝ} (hk : 0 < k) : Real.sqrt (k ^ 2 + 0 ^ 2 + 0 ^ 2) = k := by
  rw [show k ^ 2 + 0 ^ 2 + 0 ^ 2 = k ^ 2 by ring]; exact Real.sqrt_sq hk.le
private theorem sqrt_0k0 {k : ℝ} (hk : 0 < k) : Real.sqrt (0 ^ 2 + k ^ 2 + 0 ^ 2) = k := by
  rw [show 0 ^ 2 + k ^ 2 + 0 ^ 2 = k ^ 2 by ring]; exact Real.sqrt_sq hk.le
private theorem sqrt_00k {k : ℝ} (hk : 0 < k) : Real.sqrt (0 ^ 2 + 0 ^ 2 + k ^ 2) = k := by
  rw [show 0 ^ 2 + 0 ^ 2 + k ^ 2 = k ^ 2 by ring]; exact Real.sqrt_sq hk.le

theorem c10_rotate_axis_ex (a k x y z : ℝ) (hk : 0 < k) :
    spatial_rotate_axis.cartesian a k 0 0 x y z = spatial_rotateX.xy_z a x y z := by
  simp only [spatial_rotate_axis.cartesian, spatial_rotateX.xy_z, sqrt_k00 hk, div_self hk.ne', zero_div]
  refine Prod.ext ?_ (Prod.ext ?_ ?_) <;> simp only <;> ring

theorem c10_rotate_axis_ey (a k x y z : ℝ) (hk : 0 < k) :
    spatial_rotate_axis.cartesian a 0 k 0 x y z = spatial_rotateY.xy_z a x y z := by
  simp only [spatial_rotate_axis.cartesian, spatial_rotateY.xy_z, sqrt_0k0 hk, div_self hk.ne', zero_div]
  refine Prod.ext ?_ (Prod.ext ?_ ?_) <;> simp only <;> ring

/-- the spatial `rotateZ` is the planar `rotateZ` on `(x, y)` with `z` carried along -/
theorem c10_rotate_axis_ez (a k x y z : ℝ) (hk : 0 < k) :
    spatial_rotate_axis.cartesian a 0 0 k x y z =
      ((planar_rotateZ.xy a x y).1, (planar_rotateZ.xy a x y).2, z) := by
  simp only [spatial_rotate_axis.cartesian, planar_rotateZ.xy, sqrt_00k hk, div_self hk.ne', zero_div]
  refine Prod.ext ?_ (Prod.ext ?_ ?_) <;> simp only <;> ring

example : spatial_rotate_axis.cartesian 1 1 0 0 1 2 3 = spatial_rotateX.xy_z 1 1 2 3 :=
  c10_rotate_axis_ex 1 1 1 2 3 one_pos

/-! ### the axis length is ignored; reversing the axis reverses the angle -/

theorem c10_rotate_axis_scale (a k ux uy uz x y z : ℝ) (hk : 0 < k) (_hu : 0 < ux ^ 2 + uy ^ 2 + uz ^ 2) :
    spatial_rotate_axis.cartesian a (k * ux) (k * uy) (k * uz) x y z =
      spatial_rotate_axis.cartesian a ux uy uz x y z := by
  have hs : Real.sqrt ((k * ux) ^ 2 + (k * uy) ^ 2 + (k * uz) ^ 2) = k * Real.sqrt (ux ^ 2 + uy ^ 2 + uz ^ 2) := by
    rw [show (k * ux) ^ 2 + (k * uy) ^ 2 + (k * uz) ^ 2 = k ^ 2 * (ux ^ 2 + uy ^ 2 + uz ^ 2) by ring,
      Real.sqrt_mul (sq_nonneg k), Real.sqrt_sq hk.le]
  simp only [spatial_rotate_axis.cartesian, hs, mul_div_mul_left _ _ hk.ne']

theorem c10_rotate_axis_neg_axis (a ux uy uz x y z : ℝ) (_hu : 0 < ux ^ 2 + uy ^ 2 + uz ^ 2) :
    spatial_rotate_axis.cartesian a (-ux) (-uy) (-uz) x y z =
      spatial_rotate_axis.cartesian (-a) ux uy uz x y z := by
  simp only [spatial_rotate_axis.cartesian, neg_sq, Real.cos_neg, Real.sin_neg, neg_div]
  refine Prod.ext ?_ (Prod.ext ?_ ?_) <;> simp only <;> ring

example : spatial_rotate_axis.cartesian 1 (2 * 1) (2 * 2) (2 * 3) 1 0 0 = spatial_rotate_axis.cartesian 1 1 2 3 1 0 0 :=
  c10_rotate_axis_scale 1 2 1 2 3 1 0 0 two_pos (by norm_num)

/-! ### rotate_quaternion with `(cos(a/2), n̂ sin(a/2))` is rotate_axis `(n, a)` -/

private theorem quat_eq_rod (e1 e2 e3 ch sh x y z : ℝ) (he : e1 ^ 2 + e2 ^ 2 + e3 ^ 2 = 1)
    (hh : ch ^ 2 + sh ^ 2 = 1) :
    spatial_rotate_quaternion.cartesian ch (e1 * sh) (e2 * sh) (e3 * sh) x y z =
      rod e1 e2 e3 (ch ^ 2 - sh ^ 2) (2 * sh * ch) x y z := by
  simp only [spatial_rotate_quaternion.cartesian, rod]
  refine Prod.ext ?_ (Prod.ext ?_ ?_) <;> simp only
  · linear_combination (ch^2*x - x) * he + (e1*e2*y + e1*e3*z - e2^2*x - e3^2*x + x) * hh
  · linear_combination (-sh^2*y) * he + (e1*e2*x + e2^2*y + e2*e3*z) * hh
  · linear_combination (-sh^2*z) * he + (e1*e3*x + e2*e3*y + e3^2*z) * hh
theorem c10_quaternion_eq_rotate_axis (a n1 n2 n3 x y z : ℝ) (hn : 0 < n1 ^ 2 + n2 ^ 2 + n3 ^ 2) :
    spatial_rotate_quaternion.cartesian (Real.cos (a / 2))
        (n1 / Real.sqrt (n1 ^ 2 + n2 ^ 2 + n3 ^ 2) * Real.sin (a / 2))
        (n2 / Real.sqrt (n1 ^ 2 + n2 ^ 2 + n3 ^ 2) * Real.sin (a / 2))
        (n3 / Real.sqrt (n1 ^ 2 + n2 ^ 2 + n3 ^ 2) * Real.sin (a / 2)) x y z =
      spatial_rotate_axis.cartesian a n1 n2 n3 x y z := by
  have hh := Real.cos_sq_add_sin_sq (a / 2)
  have hc : Real.cos a = Real.cos (a / 2) ^ 2 - Real.sin (a / 2) ^ 2 := by
    have h := Real.cos_two_mul (a / 2)
    rw [show 2 * (a / 2) = a by ring] at h
    linarith
  have hs : Real.sin a = 2 * Real.sin (a / 2) * Real.cos (a / 2) := by
    have h := Real.sin_two_mul (a / 2)
    rw [show 2 * (a / 2) = a by ring] at h
    exact h
  rw [c10_rotate_axis_eq_rod, hc, hs]
  exact quat_eq_rod _ _ _ _ _ x y z (unit_axis hn) hh

/-- the same for an axis that is already a unit vector -/
theorem c10_quaternion_eq_rotate_axis_unit (a n1 n2 n3 x y z : ℝ) (hn : n1 ^ 2 + n2 ^ 2 + n3 ^ 2 = 1) :
    spatial_rotate_quaternion.cartesian (Real.cos (a / 2)) (n1 * Real.sin (a / 2)) (n2 * Real.sin (a / 2))
        (n3 * Real.sin (a / 2)) x y z =
      spatial_rotate_axis.cartesian a n1 n2 n3 x y z := by
  have h := c10_quaternion_eq_rotate_axis a n1 n2 n3 x y z (by rw [hn]; exact one_pos)
  rw [hn, Real.sqrt_one] at h
  simpa only [div_one] using h

/-- the quaternion of the statement above is a unit quaternion -/
theorem c10_axis_angle_quaternion_unit (a n1 n2 n3 : ℝ) (hn : n1 ^ 2 + n2 ^ 2 + n3 ^ 2 = 1) :
    Real.cos (a / 2) ^ 2 + (n1 * Real.sin (a / 2)) ^ 2 + (n2 * Real.sin (a / 2)) ^ 2 +
      (n3 * Real.sin (a / 2)) ^ 2 = 1 := by
  linear_combination (Real.sin (a / 2) ^ 2) * hn + Real.cos_sq_add_sin_sq (a / 2)

/-- `q` and `-q` are the same rotation -/
theorem c10_quaternion_neg (u i j k x y z : ℝ) :
    spatial_rotate_quaternion.cartesian (-u) (-i) (-j) (-k) x y z =
      spatial_rotate_quaternion.cartesian u i j k x y z := by
  simp only [spatial_rotate_quaternion.cartesian, neg_mul_neg]

example : spatial_rotate_quaternion.cartesian (Real.cos (1 / 2)) (0 * Real.sin (1 / 2)) (0 * Real.sin (1 / 2))
    (1 * Real.sin (1 / 2)) 1 2 3 = spatial_rotate_axis.cartesian 1 0 0 1 1 2 3 :=
  c10_quaternion_eq_rotate_axis_unit 1 0 0 1 1 2 3 (by norm_num)

/-! ## 3. proper rotations: dot product (hence length) and cross product (handedness) are preserved,
angles about a fixed axis add, the opposite angle inverts -/

/-! ### the specification rotations themselves -/

theorem c10_R_dot (ax : Axis) (a : ℝ) (v w : V3) : dot3 (R ax a v) (R ax a w) = dot3 v w := by
  obtain ⟨x, y, z⟩ := v
  obtain ⟨x2, y2, z2⟩ := w
  cases ax <;> simp only [R, Rx, Ry, Rz, dot3]
  · linear_combination (y * y2 + z * z2) * Real.cos_sq_add_sin_sq a
  · linear_combination (x * x2 + z * z2) * Real.cos_sq_add_sin_sq a
  · linear_combination (x * x2 + y * y2) * Real.cos_sq_add_sin_sq a

theorem c10_R_cross (ax : Axis) (a : ℝ) (v w : V3) : R ax a (cross3 v w) = cross3 (R ax a v) (R ax a w) := by
  obtain ⟨x, y, z⟩ := v
  obtain ⟨x2, y2, z2⟩ := w
  cases ax <;> simp only [R, Rx, Ry, Rz, cross3] <;> refine Prod.ext ?_ (Prod.ext ?_ ?_) <;> simp only
  · linear_combination (-(y * z2 - z * y2)) * Real.cos_sq_add_sin_sq a
  · ring
  · ring
  · ring
  · linear_combination (-(z * x2 - x * z2)) * Real.cos_sq_add_sin_sq a
  · ring
  · ring
  · ring
  · linear_combination (-(x * y2 - y * x2)) * Real.cos_sq_add_sin_sq a

theorem c10_R_add (ax : Axis) (a b : ℝ) (v : V3) : R ax (a + b) v = R ax a (R ax b v) := by
  obtain ⟨x, y, z⟩ := v
  cases ax <;> simp only [R, Rx, Ry, Rz, Real.cos_add, Real.sin_add] <;>
    refine Prod.ext ?_ (Prod.ext ?_ ?_) <;> simp only <;> ring

theorem c10_R_zero (ax : Axis) (v : V3) : R ax 0 v = v := by
  obtain ⟨x, y, z⟩ := v
  cases ax <;> simp only [R, Rx, Ry, Rz, Real.cos_zero, Real.sin_zero] <;>
    refine Prod.ext ?_ (Prod.ext ?_ ?_) <;> simp only <;> ring

theorem c10_R_inv (ax : Axis) (a : ℝ) (v : V3) : R ax (-a) (R ax a v) = v := by
  rw [← c10_R_add, neg_add_cancel, c10_R_zero]

theorem c10_R_inv' (ax : Axis) (a : ℝ) (v : V3) : R ax a (R ax (-a) v) = v := by
  rw [← c10_R_add, add_neg_cancel, c10_R_zero]

/-! ### rotateX, rotateY (generated code) -/

theorem c10_rotateX_ap (a : ℝ) (v : V3) : ap (spatial_rotateX.xy_z a) v = R .x a v :=
  c10_rotateX_eq_Rx a v.1 v.2.1 v.2.2
theorem c10_rotateY_ap (a : ℝ) (v : V3) : ap (spatial_rotateY.xy_z a) v = R .y a v :=
  c10_rotateY_eq_Ry a v.1 v.2.1 v.2.2

theorem c10_rotateX_dot (a : ℝ) (v w : V3) :
    dot3 (ap (spatial_rotateX.xy_z a) v) (ap (spatial_rotateX.xy_z a) w) = dot3 v w := by
  simp only [c10_rotateX_ap, c10_R_dot]
theorem c10_rotateX_cross (a : ℝ) (v w : V3) :
    ap (spatial_rotateX.xy_z a) (cross3 v w) =
      cross3 (ap (spatial_rotateX.xy_z a) v) (ap (spatial_rotateX.xy_z a) w) := by
  simp only [c10_rotateX_ap, c10_R_cross]
theorem c10_rotateX_add (a b : ℝ) (v : V3) :
    ap (spatial_rotateX.xy_z (a + b)) v = ap (spatial_rotateX.xy_z a) (ap (spatial_rotateX.xy_z b) v) := by
  simp only [c10_rotateX_ap, c10_R_add]
theorem c10_rotateX_inv (a : ℝ) (v : V3) :
    ap (spatial_rotateX.xy_z (-a)) (ap (spatial_rotateX.xy_z a) v) = v := by
  simp only [c10_rotateX_ap, c10_R_inv]

theorem c10_rotateY_dot (a : ℝ) (v w : V3) :
    dot3 (ap (spatial_rotateY.xy_z a) v) (ap (spatial_rotateY.xy_z a) w) = dot3 v w := by
  simp only [c10_rotateY_ap, c10_R_dot]
theorem c10_rotateY_cross (a : ℝ) (v w : V3) :
    ap (spatial_rotateY.xy_z a) (cross3 v w) =
      cross3 (ap (spatial_rotateY.xy_z a) v) (ap (spatial_rotateY.xy_z a) w) := by
  simp only [c10_rotateY_ap, c10_R_cross]
theorem c10_rotateY_add (a b : ℝ) (v : V3) :
    ap (spatial_rotateY.xy_z (a + b)) v = ap (spatial_rotateY.xy_z a) (ap (spatial_rotateY.xy_z b) v) := by
  simp only [c10_rotateY_ap, c10_R_add]
theorem c10_rotateY_inv (a : ℝ) (v : V3) :
    ap (spatial_rotateY.xy_z (-a)) (ap (spatial_rotateY.xy_z a) v) = v := by
  simp only [c10_rotateY_ap, c10_R_inv]

/-! ### rotateZ (generated planar code; the spatial method applies it to `(x, y)` and keeps the longitudinal
coordinate): planar dot product and orientation (2×2 determinant), additivity, inverse -/

theorem c10_rotateZ_dot (a x y x2 y2 : ℝ) :
    (planar_rotateZ.xy a x y).1 * (planar_rotateZ.xy a x2 y2).1 +
      (planar_rotateZ.xy a x y).2 * (planar_rotateZ.xy a x2 y2).2 = x * x2 + y * y2 := by
  simp only [planar_rotateZ.xy]
  linear_combination (x * x2 + y * y2) * Real.cos_sq_add_sin_sq a

theorem c10_rotateZ_det (a x y x2 y2 : ℝ) :
    (planar_rotateZ.xy a x y).1 * (planar_rotateZ.xy a x2 y2).2 -
      (planar_rotateZ.xy a x y).2 * (planar_rotateZ.xy a x2 y2).1 = x * y2 - y * x2 := by
  simp only [planar_rotateZ.xy]
  linear_combination (x * y2 - y * x2) * Real.cos_sq_add_sin_sq a

theorem c10_rotateZ_add (a b x y : ℝ) :
    planar_rotateZ.xy (a + b) x y =
      planar_rotateZ.xy a (planar_rotateZ.xy b x y).1 (planar_rotateZ.xy b x y).2 := by
  simp only [planar_rotateZ.xy, Real.cos_add, Real.sin_add]
  refine Prod.ext ?_ ?_ <;> simp only <;> ring

theorem c10_rotateZ_inv (a x y : ℝ) :
    planar_rotateZ.xy (-a) (planar_rotateZ.xy a x y).1 (planar_rotateZ.xy a x y).2 = (x, y) := by
  simp only [planar_rotateZ.xy, Real.cos_neg, Real.sin_neg]
  refine Prod.ext ?_ ?_ <;> simp only
  · linear_combination x * Real.cos_sq_add_sin_sq a
  · linear_combination y * Real.cos_sq_add_sin_sq a

/-- the spatial rotateZ (planar rotateZ on the azimuthal part, `z` kept) as a map of ℝ³, for all the 3D laws -/
theorem c10_rotateZ_ap (a : ℝ) (v : V3) :
    ((planar_rotateZ.xy a v.1 v.2.1).1, (planar_rotateZ.xy a v.1 v.2.1).2, v.2.2) = R .z a v := by
  simp only [planar_rotateZ.xy, R, Rz]
  refine Prod.ext ?_ (Prod.ext ?_ ?_) <;> simp only <;> ring

/-! ### rotate_euler (all twelve orders at once) -/

theorem c10_euler_dot (o : Ord) (phi theta psi : ℝ) (v w : V3) :
    dot3 (ap (spatial_rotate_euler.eval .xy .z o phi theta psi) v)
      (ap (spatial_rotate_euler.eval .xy .z o phi theta psi) w) = dot3 v w := by
  simp only [ap, c10_euler_eval, c10_R_dot]

theorem c10_euler_cross (o : Ord) (phi theta psi : ℝ) (v w : V3) :
    ap (spatial_rotate_euler.eval .xy .z o phi theta psi) (cross3 v w) =
      cross3 (ap (spatial_rotate_euler.eval .xy .z o phi theta psi) v)
        (ap (spatial_rotate_euler.eval .xy .z o phi theta psi) w) := by
  simp only [ap, c10_euler_eval, Prod.mk.eta, c10_R_cross]

/-- the inverse of an Euler rotation: opposite angles, roles of φ and ψ exchanged, axis order reversed -/
theorem c10_euler_inv (o : Ord) (phi theta psi : ℝ) (v : V3) :
    ap (spatial_rotate_euler.eval .xy .z (rev o) (-psi) (-theta) (-phi))
      (ap (spatial_rotate_euler.eval .xy .z o phi theta psi) v) = v := by
  cases o <;> simp only [ap, c10_euler_eval, rev, axes, neg_neg, Prod.mk.eta, c10_R_inv']

/-! ### rotate_axis -/

theorem c10_rotate_axis_dot (a ux uy uz : ℝ) (hu : 0 < ux ^ 2 + uy ^ 2 + uz ^ 2) (v w : V3) :
    dot3 (ap (spatial_rotate_axis.cartesian a ux uy uz) v) (ap (spatial_rotate_axis.cartesian a ux uy uz) w) =
      dot3 v w := by
  simp only [ap, c10_rotate_axis_eq_rod]
  exact rod_dot _ _ _ _ _ _ _ _ _ _ _ (unit_axis hu) (Real.cos_sq_add_sin_sq a)

theorem c10_rotate_axis_cross (a ux uy uz : ℝ) (hu : 0 < ux ^ 2 + uy ^ 2 + uz ^ 2) (v w : V3) :
    ap (spatial_rotate_axis.cartesian a ux uy uz) (cross3 v w) =
      cross3 (ap (spatial_rotate_axis.cartesian a ux uy uz) v) (ap (spatial_rotate_axis.cartesian a ux uy uz) w) := by
  have h := rod_cross _ _ _ (Real.cos a) (Real.sin a) v.1 v.2.1 v.2.2 w.1 w.2.1 w.2.2 (unit_axis hu)
    (Real.cos_sq_add_sin_sq a)
  simpa only [ap, c10_rotate_axis_eq_rod, Prod.mk.eta] using h

theorem c10_rotate_axis_add (a b ux uy uz : ℝ) (hu : 0 < ux ^ 2 + uy ^ 2 + uz ^ 2) (v : V3) :
    ap (spatial_rotate_axis.cartesian (a + b) ux uy uz) v =
      ap (spatial_rotate_axis.cartesian a ux uy uz) (ap (spatial_rotate_axis.cartesian b ux uy uz) v) := by
  simp only [ap, c10_rotate_axis_eq_rod, Real.cos_add, Real.sin_add]
  exact rod_add _ _ _ _ _ _ _ _ _ _ (unit_axis hu)

theorem c10_rotate_axis_inv (a ux uy uz : ℝ) (hu : 0 < ux ^ 2 + uy ^ 2 + uz ^ 2) (v : V3) :
    ap (spatial_rotate_axis.cartesian (-a) ux uy uz) (ap (spatial_rotate_axis.cartesian a ux uy uz) v) = v := by
  simp only [ap, c10_rotate_axis_eq_rod, Real.cos_neg, Real.sin_neg]
  exact rod_inv _ _ _ _ _ _ _ _ (unit_axis hu) (Real.cos_sq_add_sin_sq a)

/-- the axis itself is fixed -/
theorem c10_rotate_axis_fixes_axis (a ux uy uz : ℝ) (hu : 0 < ux ^ 2 + uy ^ 2 + uz ^ 2) :
    spatial_rotate_axis.cartesian a ux uy uz ux uy uz = (ux, uy, uz) := by
  have hpos : 0 < Real.sqrt (ux ^ 2 + uy ^ 2 + uz ^ 2) := Real.sqrt_pos.mpr hu
  have h := rod_axis _ _ _ (Real.cos a) (Real.sin a) (Real.sqrt (ux ^ 2 + uy ^ 2 + uz ^ 2)) (unit_axis hu)
  rw [mul_div_cancel₀ _ hpos.ne', mul_div_cancel₀ _ hpos.ne', mul_div_cancel₀ _ hpos.ne'] at h
  rw [c10_rotate_axis_eq_rod]
  exact h

example : dot3 (ap (spatial_rotate_axis.cartesian 1 1 2 3) (1, 0, 0)) (ap (spatial_rotate_axis.cartesian 1 1 2 3) (0, 1, 0)) =
    dot3 (1, 0, 0) (0, 1, 0) := c10_rotate_axis_dot 1 1 2 3 (by norm_num) _ _

/-! ### rotate_quaternion (unit quaternions) -/


theorem c10_quaternion_dot (u i j k : ℝ) (hq : u ^ 2 + i ^ 2 + j ^ 2 + k ^ 2 = 1) (v w : V3) :
    dot3 (ap (spatial_rotate_quaternion.cartesian u i j k) v) (ap (spatial_rotate_quaternion.cartesian u i j k) w) = dot3 v w := by
  obtain ⟨x, y, z⟩ := v
  obtain ⟨x2, y2, z2⟩ := w
  simp only [spatial_rotate_quaternion.cartesian, dot3, ap]
  linear_combination (i^2*x*x2 + i^2*y*y2 + i^2*z*z2 + j^2*x*x2 + j^2*y*y2 + j^2*z*z2 + k^2*x*x2 + k^2*y*y2 + k^2*z*z2 + u^2*x*x2 + u^2*y*y2 + u^2*z*z2 + x*x2 + y*y2 + z*z2) * hq

theorem c10_quaternion_cross (u i j k : ℝ) (hq : u ^ 2 + i ^ 2 + j ^ 2 + k ^ 2 = 1) (v w : V3) :
    ap (spatial_rotate_quaternion.cartesian u i j k) (cross3 v w) = cross3 (ap (spatial_rotate_quaternion.cartesian u i j k) v) (ap (spatial_rotate_quaternion.cartesian u i j k) w) := by
  obtain ⟨x, y, z⟩ := v
  obtain ⟨x2, y2, z2⟩ := w
  simp only [spatial_rotate_quaternion.cartesian, cross3, ap]
  refine Prod.ext ?_ (Prod.ext ?_ ?_) <;> simp only
  · linear_combination (-i^2*y*z2 + i^2*y2*z + 2*i*j*x*z2 - 2*i*j*x2*z - 2*i*k*x*y2 + 2*i*k*x2*y + j^2*y*z2 - j^2*y2*z - 2*j*u*x*y2 + 2*j*u*x2*y + k^2*y*z2 - k^2*y2*z - 2*k*u*x*z2 + 2*k*u*x2*z - u^2*y*z2 + u^2*y2*z) * hq
  · linear_combination (-i^2*x*z2 + i^2*x2*z - 2*i*j*y*z2 + 2*i*j*y2*z + 2*i*u*x*y2 - 2*i*u*x2*y + j^2*x*z2 - j^2*x2*z - 2*j*k*x*y2 + 2*j*k*x2*y - k^2*x*z2 + k^2*x2*z - 2*k*u*y*z2 + 2*k*u*y2*z + u^2*x*z2 - u^2*x2*z) * hq
  · linear_combination (i^2*x*y2 - i^2*x2*y - 2*i*k*y*z2 + 2*i*k*y2*z + 2*i*u*x*z2 - 2*i*u*x2*z + j^2*x*y2 - j^2*x2*y + 2*j*k*x*z2 - 2*j*k*x2*z + 2*j*u*y*z2 - 2*j*u*y2*z - k^2*x*y2 + k^2*x2*y - u^2*x*y2 + u^2*x2*y) * hq


example : dot3 (ap (spatial_rotate_quaternion.cartesian 1 0 0 0) (1, 2, 3))
    (ap (spatial_rotate_quaternion.cartesian 1 0 0 0) (4, 5, 6)) = dot3 (1, 2, 3) (4, 5, 6) :=
  c10_quaternion_dot 1 0 0 0 (by norm_num) _ _

/-- without the unit hypothesis the quaternion map is a rotation times the factor `|q|²` (so the hypothesis
`u²+i²+j²+k² = 1` of the two theorems above is necessary, not an artefact). -/
theorem c10_quaternion_dot_general (u i j k : ℝ) (v w : V3) :
    dot3 (ap (spatial_rotate_quaternion.cartesian u i j k) v) (ap (spatial_rotate_quaternion.cartesian u i j k) w) =
      (u ^ 2 + i ^ 2 + j ^ 2 + k ^ 2) ^ 2 * dot3 v w := by
  obtain ⟨x, y, z⟩ := v
  obtain ⟨x2, y2, z2⟩ := w
  simp only [spatial_rotate_quaternion.cartesian, dot3, ap]
  ring

/-! ## 5. every coordinate system: each non-Cartesian dispatch entry is the Cartesian formula applied to the
Cartesian components of its arguments, so all the statements above hold for all keys -/

/-- Cartesian components (computed by the generated accessors) of a vector given in coordinate system `(k0,k1)` -/
noncomputable def Spec10.cart (k0 : Az) (k1 : Lon) (c1 c2 c3 : ℝ) : V3 :=
  (planar_x.eval k0 c1 c2, planar_y.eval k0 c1 c2, spatial_z.eval k0 k1 c1 c2 c3)

theorem c10_rotateX_eval (k0 : Az) (k1 : Lon) (a c1 c2 c3 : ℝ) :
    spatial_rotateX.eval k0 k1 a c1 c2 c3 = R .x a (cart k0 k1 c1 c2 c3) := by
  rw [← c10_rotateX_ap]; cases k0 <;> cases k1 <;> rfl

theorem c10_rotateY_eval (k0 : Az) (k1 : Lon) (a c1 c2 c3 : ℝ) :
    spatial_rotateY.eval k0 k1 a c1 c2 c3 = R .y a (cart k0 k1 c1 c2 c3) := by
  rw [← c10_rotateY_ap]; cases k0 <;> cases k1 <;> rfl

theorem c10_rotate_axis_eval (k0 : Az) (k1 : Lon) (k2 : Az) (k3 : Lon) (a u1 u2 u3 c1 c2 c3 : ℝ) :
    spatial_rotate_axis.eval k0 k1 k2 k3 a u1 u2 u3 c1 c2 c3 =
      ap (spatial_rotate_axis.cartesian a (cart k0 k1 u1 u2 u3).1 (cart k0 k1 u1 u2 u3).2.1
        (cart k0 k1 u1 u2 u3).2.2) (cart k2 k3 c1 c2 c3) := by
  cases k0 <;> cases k1 <;> cases k2 <;> cases k3 <;> rfl

theorem c10_euler_eval_all (k0 : Az) (k1 : Lon) (o : Ord) (phi theta psi c1 c2 c3 : ℝ) :
    spatial_rotate_euler.eval k0 k1 o phi theta psi c1 c2 c3 =
      R (axes o).1 (-psi) (R (axes o).2.1 (-theta) (R (axes o).2.2 (-phi) (cart k0 k1 c1 c2 c3))) := by
  have h : spatial_rotate_euler.eval k0 k1 o phi theta psi c1 c2 c3 =
      ap (spatial_rotate_euler.eval .xy .z o phi theta psi) (cart k0 k1 c1 c2 c3) := by
    cases k0 <;> cases k1 <;> cases o <;> rfl
  rw [h, ap, c10_euler_eval]

theorem c10_quaternion_eval (k0 : Az) (k1 : Lon) (u i j k c1 c2 c3 : ℝ) :
    spatial_rotate_quaternion.eval k0 k1 u i j k c1 c2 c3 =
      ap (spatial_rotate_quaternion.cartesian u i j k) (cart k0 k1 c1 c2 c3) := by
  cases k0 <;> cases k1 <;> rfl

/-- e.g. rotateX preserves the dot product of two vectors given in two arbitrary coordinate systems -/
theorem c10_rotateX_eval_dot (k0 : Az) (k1 : Lon) (k2 : Az) (k3 : Lon) (a c1 c2 c3 d1 d2 d3 : ℝ) :
    dot3 (spatial_rotateX.eval k0 k1 a c1 c2 c3) (spatial_rotateX.eval k2 k3 a d1 d2 d3) =
      dot3 (cart k0 k1 c1 c2 c3) (cart k2 k3 d1 d2 d3) := by
  simp only [c10_rotateX_eval, c10_R_dot]

theorem c10_rotateY_eval_dot (k0 : Az) (k1 : Lon) (k2 : Az) (k3 : Lon) (a c1 c2 c3 d1 d2 d3 : ℝ) :
    dot3 (spatial_rotateY.eval k0 k1 a c1 c2 c3) (spatial_rotateY.eval k2 k3 a d1 d2 d3) =
      dot3 (cart k0 k1 c1 c2 c3) (cart k2 k3 d1 d2 d3) := by
  simp only [c10_rotateY_eval, c10_R_dot]

theorem c10_euler_eval_dot (k0 : Az) (k1 : Lon) (k2 : Az) (k3 : Lon) (o : Ord)
    (phi theta psi c1 c2 c3 d1 d2 d3 : ℝ) :
    dot3 (spatial_rotate_euler.eval k0 k1 o phi theta psi c1 c2 c3)
        (spatial_rotate_euler.eval k2 k3 o phi theta psi d1 d2 d3) =
      dot3 (cart k0 k1 c1 c2 c3) (cart k2 k3 d1 d2 d3) := by
  simp only [c10_euler_eval_all, c10_R_dot]

/-- rotate_axis preserves the dot product, whatever the coordinate systems of the axis and of the two vectors -/
theorem c10_rotate_axis_eval_dot (k0 : Az) (k1 : Lon) (k2 : Az) (k3 : Lon) (k4 : Az) (k5 : Lon)
    (a u1 u2 u3 c1 c2 c3 d1 d2 d3 : ℝ)
    (hu : 0 < (cart k0 k1 u1 u2 u3).1 ^ 2 + (cart k0 k1 u1 u2 u3).2.1 ^ 2 + (cart k0 k1 u1 u2 u3).2.2 ^ 2) :
    dot3 (spatial_rotate_axis.eval k0 k1 k2 k3 a u1 u2 u3 c1 c2 c3)
        (spatial_rotate_axis.eval k0 k1 k4 k5 a u1 u2 u3 d1 d2 d3) =
      dot3 (cart k2 k3 c1 c2 c3) (cart k4 k5 d1 d2 d3) := by
  simp only [c10_rotate_axis_eval]
  exact c10_rotate_axis_dot a _ _ _ hu _ _

theorem c10_quaternion_eval_dot (k0 : Az) (k1 : Lon) (k2 : Az) (k3 : Lon) (u i j k c1 c2 c3 d1 d2 d3 : ℝ)
    (hq : u ^ 2 + i ^ 2 + j ^ 2 + k ^ 2 = 1) :
    dot3 (spatial_rotate_quaternion.eval k0 k1 u i j k c1 c2 c3)
        (spatial_rotate_quaternion.eval k2 k3 u i j k d1 d2 d3) =
      dot3 (cart k0 k1 c1 c2 c3) (cart k2 k3 d1 d2 d3) := by
  simp only [c10_quaternion_eval]
  exact c10_quaternion_dot u i j k hq _ _

example : dot3 (spatial_rotate_axis.eval .rhophi .z .xy .z 1 1 0 2 1 2 3)
    (spatial_rotate_axis.eval .rhophi .z .rhophi .eta 1 1 0 2 1 2 3) =
    dot3 (cart .xy .z 1 2 3) (cart .rhophi .eta 1 2 3) :=
  c10_rotate_axis_eval_dot _ _ _ _ _ _ _ _ _ _ _ _ _ _ _ _ (by
    simp only [cart, d_planar_x, d_planar_y, d_spatial_z]; positivity)

/-! ### planar rotateZ in polar coordinates agrees with the Cartesian formula -/

private theorem rectify_eq (phi : ℝ) :
    planar_rotateZ.rectify phi = phi - (⌊(phi + Real.pi) / (2 * Real.pi)⌋ : ℤ) * (2 * Real.pi) := by
  simp only [planar_rotateZ.rectify, P.mod]; ring

theorem c10_cos_rectify (phi : ℝ) : Real.cos (planar_rotateZ.rectify phi) = Real.cos phi := by
  rw [rectify_eq]; exact Real.cos_sub_int_mul_two_pi _ _

theorem c10_sin_rectify (phi : ℝ) : Real.sin (planar_rotateZ.rectify phi) = Real.sin phi := by
  rw [rectify_eq]; exact Real.sin_sub_int_mul_two_pi _ _

/-- for both azimuthal coordinate systems: the Cartesian components of the rotated vector are the Cartesian
rotation of the Cartesian components -/
theorem c10_rotateZ_eval (k : Az) (a c1 c2 : ℝ) :
    (planar_x.eval k (planar_rotateZ.eval k a c1 c2).1 (planar_rotateZ.eval k a c1 c2).2,
     planar_y.eval k (planar_rotateZ.eval k a c1 c2).1 (planar_rotateZ.eval k a c1 c2).2) =
      planar_rotateZ.xy a (planar_x.eval k c1 c2) (planar_y.eval k c1 c2) := by
  induction k
  · rfl
  · simp only [planar_rotateZ.eval, planar_rotateZ.rhophi, planar_x.eval, planar_y.eval, planar_x.rhophi,
      planar_y.rhophi, planar_rotateZ.xy, c10_cos_rectify, c10_sin_rectify, Real.cos_add, Real.sin_add]
    refine Prod.ext ?_ ?_ <;> simp only <;> ring

/-! ## 6. time / proper time (and, for rotateZ, the longitudinal coordinate) are untouched:
the compute functions return only the rotated spatial (azimuthal) part — the declared result type has no other
component, so the wrapper keeps the remaining coordinates of the input vector as they are -/

theorem c10_rotateZ_ret (k : Az) : planar_rotateZ.ret k = Ret.vec [RP.az k] := by
  cases k <;> rfl
theorem c10_rotateX_ret (k0 : Az) (k1 : Lon) : spatial_rotateX.ret k0 k1 = Ret.vec [RP.az .xy, RP.lon .z] := by
  cases k0 <;> cases k1 <;> rfl
theorem c10_rotateY_ret (k0 : Az) (k1 : Lon) : spatial_rotateY.ret k0 k1 = Ret.vec [RP.az .xy, RP.lon .z] := by
  cases k0 <;> cases k1 <;> rfl
theorem c10_rotate_axis_ret (k0 : Az) (k1 : Lon) (k2 : Az) (k3 : Lon) :
    spatial_rotate_axis.ret k0 k1 k2 k3 = Ret.vec [RP.az .xy, RP.lon .z] := by
  cases k0 <;> cases k1 <;> cases k2 <;> cases k3 <;> rfl
theorem c10_euler_ret (k0 : Az) (k1 : Lon) (o : Ord) :
    spatial_rotate_euler.ret k0 k1 o = Ret.vec [RP.az .xy, RP.lon .z] := by
  cases k0 <;> cases k1 <;> cases o <;> rfl
theorem c10_quaternion_ret (k0 : Az) (k1 : Lon) :
    spatial_rotate_quaternion.ret k0 k1 = Ret.vec [RP.az .xy, RP.lon .z] := by
  cases k0 <;> cases k1 <;> rfl

end VR
