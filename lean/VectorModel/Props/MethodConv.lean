/-
Coordinate conversions (`to_<system>()`) and the angular/distance binary methods at the level of PUBLIC METHODS:
glue ∘ compute, instantiated with the generated real compute layer `evR` (prefix `c04m_`).
-/
import VectorModel.Props.C01Method
import VectorModel.Props.C04
import VectorModel.Props.C13
import VectorModel.Refine.SpatialBin

set_option linter.unusedVariables false
set_option linter.constructorNameAsVariable false
set_option maxRecDepth 8192

namespace VR
namespace C04M
open VK VG Spec Real C01M

/-! ### the converted coordinates (what `toSystem` computes, accessor by accessor) -/

/-- azimuthal coordinates of the target system `az` read from storage `az0` -/
noncomputable def conv2 (az0 az : Az) (a b : ℝ) : ℝ × ℝ :=
  match az with
  | .xy => (planar_x.eval az0 a b, planar_y.eval az0 a b)
  | .rhophi => (planar_rho.eval az0 a b, planar_phi.eval az0 a b)

/-- longitudinal coordinate of the target system `l` read from storage `(az0, l0)` -/
noncomputable def convLon (az0 : Az) (l0 l : Lon) (a b c : ℝ) : ℝ :=
  match l with
  | .z => spatial_z.eval az0 l0 a b c
  | .theta => spatial_theta.eval az0 l0 a b c
  | .eta => spatial_eta.eval az0 l0 a b c

/-- temporal coordinate of the target system `tm` read from storage `(az0, l0, t0)` -/
noncomputable def convTmp (az0 : Az) (l0 : Lon) (t0 tm : Tmp) (a b c d : ℝ) : ℝ :=
  match tm with
  | .t => lorentz_t.eval az0 l0 t0 a b c d
  | .tau => lorentz_tau.eval az0 l0 t0 a b c d

/-! ### evaluation of `toSystem` on the three shapes of vectors -/

theorem toSystem_eval2 (z : ℝ) (be mom az0 az) (a b : ℝ) (kl kt : Option ℝ) :
    toSystem evR z ⟨⟨be, mom, az0, none, none⟩, [a, b]⟩ az none none kl kt =
      .ok ⟨⟨be, mom, az, none, none⟩, [(conv2 az0 az a b).1, (conv2 az0 az a b).2]⟩ := by
  cases az0 <;> cases az <;> rfl

theorem toSystem_eval3 (z : ℝ) (be mom az0 l0 az l) (a b c : ℝ) (kl kt : Option ℝ) :
    toSystem evR z ⟨⟨be, mom, az0, some l0, none⟩, [a, b, c]⟩ az (some l) none kl kt =
      .ok ⟨⟨be, mom, az, some l, none⟩, [(conv2 az0 az a b).1, (conv2 az0 az a b).2, convLon az0 l0 l a b c]⟩ := by
  cases az0 <;> cases l0 <;> cases az <;> cases l <;> rfl

theorem toSystem_eval4 (z : ℝ) (be mom az0 l0 t0 az l tm) (a b c d : ℝ) (kl kt : Option ℝ) :
    toSystem evR z ⟨⟨be, mom, az0, some l0, some t0⟩, [a, b, c, d]⟩ az (some l) (some tm) kl kt =
      .ok ⟨⟨be, mom, az, some l, some tm⟩,
        [(conv2 az0 az a b).1, (conv2 az0 az a b).2, convLon az0 l0 l a b c, convTmp az0 l0 t0 tm a b c d]⟩ := by
  cases az0 <;> cases l0 <;> cases t0 <;> cases az <;> cases l <;> cases tm <;> rfl

/-- 2D operand, 3D target: the longitudinal coordinate is the keyword value or `0.0` -/
theorem toSystem_eval23 (z : ℝ) (be mom az0 az l) (a b : ℝ) (kl kt : Option ℝ) :
    toSystem evR z ⟨⟨be, mom, az0, none, none⟩, [a, b]⟩ az (some l) none kl kt =
      .ok ⟨⟨be, mom, az, some l, none⟩, [(conv2 az0 az a b).1, (conv2 az0 az a b).2, kl.getD z]⟩ := by
  cases az0 <;> cases az <;> rfl

/-- 2D operand, 4D target -/
theorem toSystem_eval24 (z : ℝ) (be mom az0 az l tm) (a b : ℝ) (kl kt : Option ℝ) :
    toSystem evR z ⟨⟨be, mom, az0, none, none⟩, [a, b]⟩ az (some l) (some tm) kl kt =
      .ok ⟨⟨be, mom, az, some l, some tm⟩, [(conv2 az0 az a b).1, (conv2 az0 az a b).2, kl.getD z, kt.getD z]⟩ := by
  cases az0 <;> cases az <;> rfl

/-- 3D operand, 4D target -/
theorem toSystem_eval34 (z : ℝ) (be mom az0 l0 az l tm) (a b c : ℝ) (kl kt : Option ℝ) :
    toSystem evR z ⟨⟨be, mom, az0, some l0, none⟩, [a, b, c]⟩ az (some l) (some tm) kl kt =
      .ok ⟨⟨be, mom, az, some l, some tm⟩,
        [(conv2 az0 az a b).1, (conv2 az0 az a b).2, convLon az0 l0 l a b c, kt.getD z]⟩ := by
  cases az0 <;> cases l0 <;> cases az <;> cases l <;> rfl

/-- higher-dimensional operand, 2D target: projection -/
theorem toSystem_eval32 (z : ℝ) (be mom az0 l0 az) (a b c : ℝ) (kl kt : Option ℝ) :
    toSystem evR z ⟨⟨be, mom, az0, some l0, none⟩, [a, b, c]⟩ az none none kl kt =
      .ok ⟨⟨be, mom, az, none, none⟩, [(conv2 az0 az a b).1, (conv2 az0 az a b).2]⟩ := by
  cases az0 <;> cases az <;> rfl

theorem toSystem_eval42 (z : ℝ) (be mom az0 l0 t0 az) (a b c d : ℝ) (kl kt : Option ℝ) :
    toSystem evR z ⟨⟨be, mom, az0, some l0, some t0⟩, [a, b, c, d]⟩ az none none kl kt =
      .ok ⟨⟨be, mom, az, none, none⟩, [(conv2 az0 az a b).1, (conv2 az0 az a b).2]⟩ := by
  cases az0 <;> cases az <;> rfl

theorem toSystem_eval43 (z : ℝ) (be mom az0 l0 t0 az l) (a b c d : ℝ) (kl kt : Option ℝ) :
    toSystem evR z ⟨⟨be, mom, az0, some l0, some t0⟩, [a, b, c, d]⟩ az (some l) none kl kt =
      .ok ⟨⟨be, mom, az, some l, none⟩, [(conv2 az0 az a b).1, (conv2 az0 az a b).2, convLon az0 l0 l a b c]⟩ := by
  cases az0 <;> cases l0 <;> cases az <;> cases l <;> rfl

/-! ### what the converted coordinates denote -/

/-- the `x` denoted by the converted azimuthal pair — no hypothesis (also at the origin, where `arctan2` is arbitrary) -/
theorem conv2_x (az0 az : Az) (a b : ℝ) :
    xOf az (conv2 az0 az a b).1 (conv2 az0 az a b).2 = xOf az0 a b := by
  cases az0 <;> cases az
  · rfl
  · exact L.sqrt_mul_cos_arctan2 a b
  · rfl
  · rfl

theorem conv2_y (az0 az : Az) (a b : ℝ) :
    yOf az (conv2 az0 az a b).1 (conv2 az0 az a b).2 = yOf az0 a b := by
  cases az0 <;> cases az
  · rfl
  · exact L.sqrt_mul_sin_arctan2 a b
  · rfl
  · rfl

/-- the transverse length is preserved when the stored `ρ` is non-negative -/
theorem conv2_rho (az0 az : Az) (a b : ℝ) (h : Canon2 az0 a b) :
    rhoOf az (conv2 az0 az a b).1 (conv2 az0 az a b).2 = rhoOf az0 a b := by
  cases az0 <;> cases az
  · rfl
  · rfl
  · have e := Spec.sq_xOf_add_sq_yOf .rhophi a b
    show sqrt (xOf .rhophi a b ^ 2 + yOf .rhophi a b ^ 2) = a
    rw [e]; exact sqrt_sq h
  · rfl

theorem canon2_of_pos {az0 : Az} {a b : ℝ} (h : 0 < rhoOf az0 a b) : Canon2 az0 a b := by
  cases az0
  · trivial
  · exact le_of_lt h

/-- hypothesis under which the longitudinal coordinate `l` read from storage `(az0, l0)` denotes the same `z` -/
def LonOK (az0 : Az) (l0 l : Lon) (a b c : ℝ) : Prop :=
  match l with
  | .z => TanOK l0 c
  | .theta => 0 < rhoOf az0 a b
  | .eta => 0 < rhoOf az0 a b ∧ CanonLon az0 l0 a b c

theorem convLon_z (az0 az : Az) (l0 l : Lon) (a b c : ℝ) (h : LonOK az0 l0 l a b c) :
    zOf az l (conv2 az0 az a b).1 (conv2 az0 az a b).2 (convLon az0 l0 l a b c) = zOf az0 l0 a b c := by
  cases l
  · simp only [zOf, convLon]
    exact refine_spatial_z az0 l0 a b c h
  · have hr : 0 < rhoOf az0 a b := h
    have e := refine_spatial_theta_zOf az0 l0 a b c hr
    simp only [zOf, convLon] at e ⊢
    rw [conv2_rho _ _ _ _ (canon2_of_pos hr)]; exact e
  · have hr : 0 < rhoOf az0 a b := h.1
    have e := refine_spatial_eta_zOf az0 l0 a b c hr h.2
    simp only [zOf, convLon] at e ⊢
    rw [conv2_rho _ _ _ _ (canon2_of_pos hr)]; exact e

theorem conv_mag2 (az0 az : Az) (l0 l : Lon) (a b c : ℝ) (h : LonOK az0 l0 l a b c) :
    mag2Of az l (conv2 az0 az a b).1 (conv2 az0 az a b).2 (convLon az0 l0 l a b c) = mag2Of az0 l0 a b c := by
  simp only [mag2Of, conv2_x, conv2_y, convLon_z _ _ _ _ _ _ _ h]

/-- hypothesis under which the temporal coordinate `tm` read from storage `(az0, l0, t0)` denotes the same `t` -/
def TmpOK (az0 : Az) (l0 : Lon) (t0 tm : Tmp) (a b c d : ℝ) : Prop :=
  match t0, tm with
  | .t, .t => True
  | .tau, .tau => True
  | .tau, .t => CanonLon az0 l0 a b c ∧ 0 ≤ d
  | .t, .tau => CanonLon az0 l0 a b c ∧ 0 ≤ d ∧ mag2Of az0 l0 a b c ≤ d ^ 2

theorem sign_mul_sqrt_abs_sq (s : ℝ) : (Real.sign s * sqrt |s|) ^ 2 = |s| := by
  rcases lt_trichotomy s 0 with hs | hs | hs
  · rw [Real.sign_of_neg hs, mul_pow, sq_sqrt (abs_nonneg s)]; ring
  · subst hs; simp
  · rw [Real.sign_of_pos hs, mul_pow, sq_sqrt (abs_nonneg s)]; ring

theorem convTmp_t (az0 az : Az) (l0 l : Lon) (t0 tm : Tmp) (a b c d : ℝ) (h : LonOK az0 l0 l a b c)
    (ht : TmpOK az0 l0 t0 tm a b c d) :
    tOf az l tm (conv2 az0 az a b).1 (conv2 az0 az a b).2 (convLon az0 l0 l a b c) (convTmp az0 l0 t0 tm a b c d)
      = tOf az0 l0 t0 a b c d := by
  have hM := conv_mag2 az0 az l0 l a b c h
  cases t0 <;> cases tm
  · simp only [tOf, convTmp]
    cases az0 <;> cases l0 <;> rfl
  · obtain ⟨hc, hd, hm⟩ := ht
    simp only [tOf, convTmp, hM]
    rw [refine_lorentz_tau az0 l0 .t a b c d hc trivial, sign_mul_sqrt_abs_sq]
    simp only [tOf]
    rw [abs_of_nonneg (by linarith), sub_add_cancel, sqrt_sq hd]
  · obtain ⟨hc, hd⟩ := ht
    simp only [tOf, convTmp]
    exact refine_lorentz_t az0 l0 .tau a b c d hc hd
  · simp only [tOf, convTmp, hM, refine_lorentz_tau_of_tau]

/-! ### Part A.1 — `to_<system>()` on a vector of the target's dimension: same denotation -/

/-- representability hypotheses of converting `v` to the longitudinal / temporal systems `lon`, `tmp`
(none for the azimuthal part; none when the target has the group in the stored system… see `LonOK`, `TmpOK`) -/
def FwdOK (v : Vec ℝ) (lon : Option Lon) (tmp : Option Tmp) : Prop :=
  match v.ty.lon, v.ty.tmp, v.c, lon, tmp with
  | some l0, none, [a, b, c], some l, _ => LonOK v.ty.az l0 l a b c
  | some l0, some t0, [a, b, c, d], some l, none => LonOK v.ty.az l0 l a b c
  | some l0, some t0, [a, b, c, d], some l, some tm => LonOK v.ty.az l0 l a b c ∧ TmpOK v.ty.az l0 t0 tm a b c d
  | _, _, _, _, _ => True

/-- **`toSystem` on a vector of the dimension of the target system, every storage → every system**: the result has the
backend and flavor of `v`, the requested coordinate systems, and denotes the same Cartesian components -/
theorem c04m_toSystem_denote (z : ℝ) (v : Vec ℝ) (hv : C01M.WFV v) (az : Az) (lon : Option Lon) (tmp : Option Tmp)
    (hl : lon.isSome = v.ty.lon.isSome) (ht : tmp.isSome = v.ty.tmp.isSome) (h : FwdOK v lon tmp) (kl kt : Option ℝ) :
    ∃ r, toSystem evR z v az lon tmp kl kt = .ok r ∧ r.ty = { v.ty with az := az, lon := lon, tmp := tmp } ∧ C01M.WFV r ∧
      denote r = denote v := by
  rcases wfv_cases hv with ⟨be, mom, az0, a, b, rfl⟩ | ⟨be, mom, az0, l0, a, b, c, rfl⟩ |
    ⟨be, mom, az0, l0, t0, a, b, c, d, rfl⟩
  · rcases lon with _ | l <;> rcases tmp with _ | tm <;> simp at hl ht
    refine ⟨_, toSystem_eval2 z be mom az0 az a b kl kt, rfl, ⟨by simp, rfl⟩, ?_⟩
    simp only [denote, conv2_x, conv2_y]
  · rcases lon with _ | l <;> rcases tmp with _ | tm <;> simp at hl ht
    refine ⟨_, toSystem_eval3 z be mom az0 l0 az l a b c kl kt, rfl, ⟨by simp, rfl⟩, ?_⟩
    have h' : LonOK az0 l0 l a b c := h
    simp only [denote, conv2_x, conv2_y, convLon_z _ _ _ _ _ _ _ h']
  · rcases lon with _ | l <;> rcases tmp with _ | tm <;> simp at hl ht
    refine ⟨_, toSystem_eval4 z be mom az0 l0 t0 az l tm a b c d kl kt, rfl, ⟨by simp, rfl⟩, ?_⟩
    have h' : LonOK az0 l0 l a b c ∧ TmpOK az0 l0 t0 tm a b c d := h
    simp only [denote, conv2_x, conv2_y, convLon_z _ _ _ _ _ _ _ h'.1, convTmp_t _ _ _ _ _ _ _ _ _ _ h'.1 h'.2]

/-- every entry of the table of the 40 conversions is found under its own name -/
theorem toTable_find : ∀ e ∈ toTable, toTable.find? (·.1 == e.1) = some e := by decide

/-- **all 40 `to_<system>()` methods** (generic and momentum spellings) on a vector of the dimension of the target, in
every storage: `Ok` of a vector with the backend and flavor of `v`, stored in the target system, with THE SAME denotation -/
theorem c04m_to_denote (K : Consts ℝ) (A : Arith ℝ) (e : String × Az × Option Lon × Option Tmp × String × String)
    (he : e ∈ toTable) (v : Vec ℝ) (hv : C01M.WFV v) (hl : e.2.2.1.isSome = v.ty.lon.isSome)
    (ht : e.2.2.2.1.isSome = v.ty.tmp.isSome) (h : FwdOK v e.2.2.1 e.2.2.2.1) :
    ∃ r, call evR K A e.1 v [] = .ok (.vec r) ∧
      r.ty = { v.ty with az := e.2.1, lon := e.2.2.1, tmp := e.2.2.2.1 } ∧ C01M.WFV r ∧ denote r = denote v := by
  obtain ⟨r, h1, h2, h3, h4⟩ := c04m_toSystem_denote K.zeroF v hv e.2.1 e.2.2.1 e.2.2.2.1 hl ht h none none
  refine ⟨r, ?_, h2, h3, h4⟩
  rw [c04_call_to evR K A e.1 v e (toTable_find e he), h1]; rfl

theorem wfv_iff (v : Vec ℝ) : C01M.WFV v ↔ VG.WFV v := Iff.rfl

/-- the real compute layer satisfies the identity laws of Props/C15, C04 (so `c04_call_to_id`, `c04_toSystem_id` apply) -/
theorem c04m_idLaws : IdLaws evR where
  x := fun a b => rfl
  y := fun a b => rfl
  rho := fun a b => rfl
  phi := fun a b => rfl
  z := fun az a b c => by cases az <;> rfl
  theta := fun az a b c => by cases az <;> rfl
  eta := fun az a b c => by cases az <;> rfl
  t := fun az lon a b c d => by cases az <;> cases lon <;> rfl
  tau := fun az lon a b c d => by cases az <;> cases lon <;> rfl

/-- the same by method NAME: any of the 40 names `n` whose target system (`C04.toTarget`, the table lookup) is
`(az, lon, tmp)` — e.g. `"to_rhophieta"` and its momentum spelling `"to_ptphieta"` (`c04_toTable_synonyms`) -/
theorem c04m_to_denote_name (K : Consts ℝ) (A : Arith ℝ) (n : String) (az : Az) (lon : Option Lon) (tmp : Option Tmp)
    (hn : C04.toTarget n = some (az, lon, tmp)) (v : Vec ℝ) (hv : C01M.WFV v) (hl : lon.isSome = v.ty.lon.isSome)
    (ht : tmp.isSome = v.ty.tmp.isSome) (h : FwdOK v lon tmp) :
    ∃ r, call evR K A n v [] = .ok (.vec r) ∧ r.ty = { v.ty with az := az, lon := lon, tmp := tmp } ∧ C01M.WFV r ∧
      denote r = denote v := by
  unfold C04.toTarget at hn
  cases he : toTable.find? (·.1 == n) with
  | none => simp [he] at hn
  | some e =>
    have hmem := List.mem_of_find?_eq_some he
    have hname : e.1 = n := by simpa using List.find?_some he
    simp only [he, Option.map_some, Option.some.injEq, Prod.mk.injEq] at hn
    obtain ⟨rfl, rfl, rfl⟩ := hn
    rw [← hname]
    exact c04m_to_denote K A e hmem v hv hl ht h

/-- `Vector2D(x=3, y=4).to_ptphi()` … on a momentum vector: polar storage, same point -/
example (K : Consts ℝ) (A : Arith ℝ) :
    ∃ r, call evR K A "to_ptphi" ⟨⟨.obj, true, .xy, none, none⟩, [3, 4]⟩ [] = .ok (.vec r) ∧
      r.ty = ⟨.obj, true, .rhophi, none, none⟩ ∧ denote r = some [3, 4] := by
  obtain ⟨r, h1, h2, _, h4⟩ := c04m_to_denote K A ("to_ptphi", .rhophi, none, none, "", "") (by decide)
    ⟨⟨.obj, true, .xy, none, none⟩, [3, 4]⟩ ⟨by simp, rfl⟩ rfl rfl trivial
  exact ⟨r, h1, h2, by rw [h4]; rfl⟩

/-- `MomentumObject4D(px=3, py=4, pz=1, E=13).to_ptphietamass()`: the hypotheses (`0 < ρ`; `0 ≤ E`, `|p|² ≤ E²`) hold -/
example (K : Consts ℝ) (A : Arith ℝ) :
    ∃ r, call evR K A "to_ptphietamass" ⟨⟨.obj, true, .xy, some .z, some .t⟩, [3, 4, 1, 13]⟩ [] = .ok (.vec r) ∧
      r.ty = ⟨.obj, true, .rhophi, some .eta, some .tau⟩ ∧ denote r = some [3, 4, 1, 13] := by
  have hr : 0 < rhoOf .xy 3 4 := L.sqrt_sumsq_pos (Or.inl (by norm_num))
  have hF : FwdOK ⟨⟨.obj, true, .xy, some .z, some .t⟩, [3, 4, 1, 13]⟩ (some .eta) (some .tau) := by
    show LonOK .xy .z .eta 3 4 1 ∧ TmpOK .xy .z .t .tau 3 4 1 13
    exact ⟨⟨hr, trivial⟩, trivial, by norm_num, by simp only [mag2Of, xOf, yOf, zOf]; norm_num⟩
  obtain ⟨r, h1, h2, _, h4⟩ := c04m_to_denote K A ("to_ptphietamass", .rhophi, some .eta, some .tau, "eta", "mass")
    (by decide) ⟨⟨.obj, true, .xy, some .z, some .t⟩, [3, 4, 1, 13]⟩ ⟨by simp, rfl⟩ rfl rfl hF
  exact ⟨r, h1, h2, by rw [h4]; rfl⟩

/-! ### Part A.2 — round trips -/

/-- polar storage canonical and off the origin: `0 < ρ`, `-π < φ ≤ π` (nothing for Cartesian storage) -/
def PolarOK : Az → ℝ → ℝ → Prop
  | .xy, _, _ => True
  | .rhophi, r, p => 0 < r ∧ -π < p ∧ p ≤ π

theorem canon2_of_polarOK {az0 : Az} {a b : ℝ} (h : PolarOK az0 a b) : Canon2 az0 a b := by
  cases az0
  · trivial
  · exact le_of_lt h.1

theorem conv2_roundtrip (az0 az : Az) (a b : ℝ) (h : PolarOK az0 a b) :
    conv2 az az0 (conv2 az0 az a b).1 (conv2 az0 az a b).2 = (a, b) := by
  cases az0 <;> cases az
  · rfl
  · exact Prod.ext (L.sqrt_mul_cos_arctan2 a b) (L.sqrt_mul_sin_arctan2 a b)
  · refine Prod.ext ?_ ?_
    · exact conv2_rho .rhophi .xy a b (le_of_lt h.1)
    · exact L.arctan2_polar h.1 h.2.1 h.2.2
  · rfl

theorem convLon_self (az : Az) (l : Lon) (a b c : ℝ) : convLon az l l a b c = c := by
  cases az <;> cases l <;> rfl

theorem convTmp_self (az : Az) (l : Lon) (t : Tmp) (a b c d : ℝ) : convTmp az l t t a b c d = d := by
  cases az <;> cases l <;> cases t <;> rfl

/-- the converted longitudinal coordinate is canonical -/
theorem conv_canonLon (az0 az : Az) (l0 l : Lon) (a b c : ℝ)
    (h : l = .z ∨ (0 < rhoOf az0 a b ∧ CanonLon az0 l0 a b c)) :
    CanonLon az l (conv2 az0 az a b).1 (conv2 az0 az a b).2 (convLon az0 l0 l a b c) := by
  rcases h with rfl | ⟨hr, hc⟩
  · trivial
  · have hr' : 0 < rhoOf az (conv2 az0 az a b).1 (conv2 az0 az a b).2 := by
      rw [conv2_rho _ _ _ _ (canon2_of_pos hr)]; exact hr
    cases l
    · trivial
    · exact ⟨hr', refine_spatial_theta_mem az0 l0 a b c hr hc⟩
    · exact hr'

/-- hypothesis of the longitudinal round trip `l0 → l → l0`: nothing when `l = l0`; otherwise off the z axis, canonical
(`0 < θ < π`), and off the plane `z = 0` where a θ meets `tan θ` (θ stored: `cos θ ≠ 0`; z ↔ θ: `z ≠ 0`) -/
def LonRT (az0 : Az) (l0 l : Lon) (a b c : ℝ) : Prop :=
  l = l0 ∨ (0 < rhoOf az0 a b ∧ CanonLon az0 l0 a b c ∧ TanOK l0 c ∧ (l0 = .z → l = .theta → c ≠ 0))

theorem lonOK_of_RT {az0 : Az} {l0 l : Lon} {a b c : ℝ} (hr : 0 < rhoOf az0 a b) (hc : CanonLon az0 l0 a b c)
    (ht : TanOK l0 c) : LonOK az0 l0 l a b c := by
  cases l
  · exact ht
  · exact hr
  · exact ⟨hr, hc⟩

theorem convLon_roundtrip (az0 az : Az) (l0 l : Lon) (a b c : ℝ) (h2 : Canon2 az0 a b) (h : LonRT az0 l0 l a b c) :
    convLon az l l0 (conv2 az0 az a b).1 (conv2 az0 az a b).2 (convLon az0 l0 l a b c) = c := by
  rcases h with rfl | ⟨hr, hc, ht, hz⟩
  · rw [convLon_self, convLon_self]
  · have hL : LonOK az0 l0 l a b c := lonOK_of_RT hr hc ht
    have hZ := convLon_z az0 az l0 l a b c hL
    have hR := conv2_rho az0 az a b h2
    have hM := conv_mag2 az0 az l0 l a b c hL
    have hc' := conv_canonLon az0 az l0 l a b c (Or.inr ⟨hr, hc⟩)
    have hm : 0 < mag2Of az0 l0 a b c := by rw [Spec.mag2Of_eq]; positivity
    have hr' : 0 < rhoOf az (conv2 az0 az a b).1 (conv2 az0 az a b).2 := by rw [hR]; exact hr
    cases l0
    · have hT : TanOK l (convLon az0 .z l a b c) := by
        cases l
        · trivial
        · show cos (spatial_theta.eval az0 .z a b c) ≠ 0
          rw [refine_spatial_cos_theta az0 .z a b c h2 hr hc]
          have hc0 : c ≠ 0 := hz rfl rfl
          have : zOf az0 .z a b c = c := by simp only [zOf]
          rw [this]
          exact div_ne_zero hc0 (sqrt_pos.mpr hm).ne'
        · trivial
      show spatial_z.eval az l _ _ _ = c
      rw [refine_spatial_z az l _ _ _ hT, hZ]
      simp only [zOf]
    · show spatial_theta.eval az l _ _ _ = c
      rw [refine_spatial_theta az l _ _ _ ⟨canon2_of_pos hr', hc'⟩ (by rw [hM]; exact hm), hZ, hM,
        ← refine_spatial_theta az0 .theta a b c ⟨h2, hc⟩ hm]
      cases az0 <;> rfl
    · show spatial_eta.eval az l _ _ _ = c
      rw [refine_spatial_eta az l _ _ _ hr' hc', hZ, hR, ← refine_spatial_eta az0 .eta a b c hr hc]
      cases az0 <;> rfl

/-- hypothesis of the temporal round trip `t0 → tm → t0`: nothing when `tm = t0`; otherwise the hypotheses under which
the spatial part and the time are converted faithfully (`0 ≤ τ`; `0 ≤ t`, `|p|² ≤ t²` for t → τ) and the converted
longitudinal coordinate is canonical -/
def TmpRT (az0 : Az) (l0 l : Lon) (t0 tm : Tmp) (a b c d : ℝ) : Prop :=
  tm = t0 ∨ (LonOK az0 l0 l a b c ∧ TmpOK az0 l0 t0 tm a b c d ∧
    (l = .z ∨ (0 < rhoOf az0 a b ∧ CanonLon az0 l0 a b c)))

theorem sign_mul_sqrt_abs_nonneg {s : ℝ} (h : 0 ≤ s) : 0 ≤ Real.sign s * sqrt |s| := by
  rcases eq_or_lt_of_le h with hs | hs
  · rw [← hs]; simp
  · rw [Real.sign_of_pos hs, one_mul]; exact sqrt_nonneg _

theorem convTmp_roundtrip (az0 az : Az) (l0 l : Lon) (t0 tm : Tmp) (a b c d : ℝ)
    (h : TmpRT az0 l0 l t0 tm a b c d) :
    convTmp az l tm t0 (conv2 az0 az a b).1 (conv2 az0 az a b).2 (convLon az0 l0 l a b c)
      (convTmp az0 l0 t0 tm a b c d) = d := by
  rcases h with rfl | ⟨hL, hT, hc⟩
  · rw [convTmp_self, convTmp_self]
  · have hc' := conv_canonLon az0 az l0 l a b c hc
    have hM := conv_mag2 az0 az l0 l a b c hL
    have hF := convTmp_t az0 az l0 l t0 tm a b c d hL hT
    cases t0 <;> cases tm
    · rw [convTmp_self, convTmp_self]
    · obtain ⟨hcl, hd, hm⟩ := hT
      have hτ : 0 ≤ convTmp az0 l0 .t .tau a b c d := by
        show 0 ≤ lorentz_tau.eval az0 l0 .t a b c d
        rw [refine_lorentz_tau az0 l0 .t a b c d hcl trivial]
        apply sign_mul_sqrt_abs_nonneg
        simp only [tOf]; linarith
      show lorentz_t.eval az l .tau _ _ _ _ = d
      rw [refine_lorentz_t az l .tau _ _ _ _ hc' hτ, hF]
      simp only [tOf]
    · obtain ⟨hcl, hd⟩ := hT
      show lorentz_tau.eval az l .t _ _ _ _ = d
      rw [refine_lorentz_tau az l .t _ _ _ _ hc' trivial, hM]
      have e : tOf az l .t (conv2 az0 az a b).1 (conv2 az0 az a b).2 (convLon az0 l0 l a b c)
          (convTmp az0 l0 .tau .t a b c d) = sqrt (d ^ 2 + mag2Of az0 l0 a b c) := by
        rw [hF]; simp only [tOf]
      have hm0 : 0 ≤ mag2Of az0 l0 a b c := by unfold mag2Of; positivity
      rw [e, sq_sqrt (by positivity), add_sub_cancel_right, abs_of_nonneg (sq_nonneg d), sqrt_sq hd]
      rcases eq_or_lt_of_le hd with h0 | h0
      · rw [← h0]; simp
      · rw [Real.sign_of_pos (by positivity)]; ring
    · rw [convTmp_self, convTmp_self]

/-- hypotheses of the round trip of `v` through the systems `lon`, `tmp` (any azimuthal target) -/
def RtOK (v : Vec ℝ) (lon : Option Lon) (tmp : Option Tmp) : Prop :=
  match v.ty.lon, v.ty.tmp, v.c, lon, tmp with
  | none, none, [a, b], _, _ => PolarOK v.ty.az a b
  | some l0, none, [a, b, c], some l, _ => PolarOK v.ty.az a b ∧ LonRT v.ty.az l0 l a b c
  | some l0, some t0, [a, b, c, d], some l, some tm =>
    PolarOK v.ty.az a b ∧ LonRT v.ty.az l0 l a b c ∧ TmpRT v.ty.az l0 l t0 tm a b c d
  | _, _, _, _, _ => True

/-- **round trip at the level of `toSystem`**, every storage of `v`, every target system of the same dimension:
converting to `(az, lon, tmp)` and back to the stored system of `v` returns `v` itself (same type, the stored
coordinates exactly) -/
theorem c04m_toSystem_roundtrip (z z' : ℝ) (v : Vec ℝ) (hv : C01M.WFV v) (az : Az) (lon : Option Lon)
    (tmp : Option Tmp) (hl : lon.isSome = v.ty.lon.isSome) (ht : tmp.isSome = v.ty.tmp.isSome) (h : RtOK v lon tmp)
    (kl kt kl' kt' : Option ℝ) :
    ∃ w, toSystem evR z v az lon tmp kl kt = .ok w ∧ w.ty = { v.ty with az := az, lon := lon, tmp := tmp } ∧
      toSystem evR z' w v.ty.az v.ty.lon v.ty.tmp kl' kt' = .ok v := by
  rcases wfv_cases hv with ⟨be, mom, az0, a, b, rfl⟩ | ⟨be, mom, az0, l0, a, b, c, rfl⟩ |
    ⟨be, mom, az0, l0, t0, a, b, c, d, rfl⟩
  · rcases lon with _ | l <;> rcases tmp with _ | tm <;> simp at hl ht
    have h' : PolarOK az0 a b := h
    refine ⟨_, toSystem_eval2 z be mom az0 az a b kl kt, rfl, ?_⟩
    rw [toSystem_eval2, conv2_roundtrip az0 az a b h']
  · rcases lon with _ | l <;> rcases tmp with _ | tm <;> simp at hl ht
    have h' : PolarOK az0 a b ∧ LonRT az0 l0 l a b c := h
    refine ⟨_, toSystem_eval3 z be mom az0 l0 az l a b c kl kt, rfl, ?_⟩
    rw [toSystem_eval3, conv2_roundtrip az0 az a b h'.1,
      convLon_roundtrip az0 az l0 l a b c (canon2_of_polarOK h'.1) h'.2]
  · rcases lon with _ | l <;> rcases tmp with _ | tm <;> simp at hl ht
    have h' : PolarOK az0 a b ∧ LonRT az0 l0 l a b c ∧ TmpRT az0 l0 l t0 tm a b c d := h
    refine ⟨_, toSystem_eval4 z be mom az0 l0 t0 az l tm a b c d kl kt, rfl, ?_⟩
    rw [toSystem_eval4, conv2_roundtrip az0 az a b h'.1,
      convLon_roundtrip az0 az l0 l a b c (canon2_of_polarOK h'.1) h'.2.1,
      convTmp_roundtrip az0 az l0 l t0 tm a b c d h'.2.2]

/-- **round trip through the public methods**: for every conversion `e` of the table (all 40 names) of the dimension of
`v`, and every name `e'` of the system `v` is stored in: `v.<e>().<e'>() = v` -/
theorem c04m_roundtrip (K : Consts ℝ) (A : Arith ℝ) (e e' : String × Az × Option Lon × Option Tmp × String × String)
    (he : e ∈ toTable) (he' : e' ∈ toTable) (v : Vec ℝ) (hv : C01M.WFV v)
    (hl : e.2.2.1.isSome = v.ty.lon.isSome) (ht : e.2.2.2.1.isSome = v.ty.tmp.isSome)
    (hs : (e'.2.1, e'.2.2.1, e'.2.2.2.1) = (v.ty.az, v.ty.lon, v.ty.tmp)) (h : RtOK v e.2.2.1 e.2.2.2.1) :
    ∃ w, call evR K A e.1 v [] = .ok (.vec w) ∧
      w.ty = { v.ty with az := e.2.1, lon := e.2.2.1, tmp := e.2.2.2.1 } ∧
      call evR K A e'.1 w [] = .ok (.vec v) := by
  obtain ⟨w, h1, h2, h3⟩ :=
    c04m_toSystem_roundtrip K.zeroF K.zeroF v hv e.2.1 e.2.2.1 e.2.2.2.1 hl ht h none none none none
  simp only [Prod.mk.injEq] at hs
  obtain ⟨s1, s2, s3⟩ := hs
  refine ⟨w, ?_, h2, ?_⟩
  · rw [c04_call_to evR K A e.1 v e (toTable_find e he), h1]; rfl
  · rw [c04_call_to evR K A e'.1 w e' (toTable_find e' he'), s1, s2, s3, h3]; rfl

/-- `(ρ=2, φ=1, θ=1, τ=3).to_xyzt().to_rhophithetatau()` returns the vector itself -/
example (K : Consts ℝ) (A : Arith ℝ) :
    let v : Vec ℝ := ⟨⟨.obj, false, .rhophi, some .theta, some .tau⟩, [2, 1, 1, 3]⟩
    ∃ w, call evR K A "to_xyzt" v [] = .ok (.vec w) ∧ call evR K A "to_rhophithetatau" w [] = .ok (.vec v) := by
  intro v
  have hr : 0 < rhoOf .rhophi 2 1 := by norm_num [rhoOf]
  have hpi : (1 : ℝ) < π := by linarith [two_le_pi]
  have hcl : CanonLon .rhophi .theta 2 1 1 := ⟨hr, one_pos, hpi⟩
  have hR : RtOK v (some .z) (some .t) := by
    show PolarOK .rhophi 2 1 ∧ LonRT .rhophi .theta .z 2 1 1 ∧ TmpRT .rhophi .theta .z .tau .t 2 1 1 3
    refine ⟨⟨by norm_num, by linarith [pi_pos], hpi.le⟩, Or.inr ⟨hr, hcl, ne_of_gt cos_one_pos, fun h => nomatch h⟩,
      Or.inr ⟨ne_of_gt cos_one_pos, ⟨hcl, by norm_num⟩, Or.inl rfl⟩⟩
  obtain ⟨w, h1, _, h3⟩ := c04m_roundtrip K A ("to_xyzt", .xy, some .z, some .t, "z", "t")
    ("to_rhophithetatau", .rhophi, some .theta, some .tau, "theta", "tau") (by decide) (by decide) v ⟨by simp [v], rfl⟩
    rfl rfl rfl hR
  exact ⟨w, h1, h3⟩

/-! ### Part A.3 — `to_<system>(…)` on a LOWER-dimensional vector: imputation from the keywords -/

theorem toTable_kw_ne : ∀ e ∈ toTable, e.2.2.1.isSome → e.2.2.2.2.1 ≠ e.2.2.2.2.2 := by decide
theorem toTable_tmp_lon : ∀ e ∈ toTable, e.2.2.2.1.isSome → e.2.2.1.isSome := by decide
theorem toTable_not_mom : ∀ e ∈ toTable, momAccOfName e.1 = none := by decide

/-- the keyword arguments of a conversion: `kl` under the entry's longitudinal keyword, `kt` under its temporal one -/
def kwArgs {S : Type} (e : String × Az × Option Lon × Option Tmp × String × String) (kl kt : Option S) : List (Arg S) :=
  (kl.map (Arg.kw e.2.2.2.2.1 ·)).toList ++ (kt.map (Arg.kw e.2.2.2.2.2 ·)).toList

/-- a `to_<system>(kw…)` call with (some of) the keywords the table entry accepts is `toSystem` with those values
(any scalar type, any compute layer; extends `c04_call_to`) -/
theorem c04m_call_to_kw {S B : Type} (ev : Ev S B) (K : Consts S) (A : Arith S)
    (e : String × Az × Option Lon × Option Tmp × String × String) (he : e ∈ toTable) (v : Vec S)
    (kl kt : Option S) (hkl : kl.isSome → e.2.2.1.isSome) (hkt : kt.isSome → e.2.2.2.1.isSome) :
    call ev K A e.1 v (kwArgs e kl kt) = (toSystem ev K.zeroF v e.2.1 e.2.2.1 e.2.2.2.1 kl kt).map .vec := by
  have hf := toTable_find e he
  have hm := toTable_not_mom e he
  have hne := toTable_kw_ne e he
  have htl := toTable_tmp_lon e he
  obtain ⟨n, az, lon, tmp, sl, st⟩ := e
  simp only at hf hm hne htl hkl hkt
  unfold call
  simp only [hm, hf]
  rcases kl with _ | s <;> rcases kt with _ | u
  · simp [kwArgs, kwargs]
  · have h1 := hkt rfl
    have h2 := htl h1
    have h3 := hne h2
    simp [kwArgs, kwargs, h1, h2, h3.symm]
  · have h2 := hkl rfl
    have h3 := hne h2
    simp [kwArgs, kwargs, h2, h3]
  · have h1 := hkt rfl
    have h2 := hkl rfl
    have h3 := hne h2
    simp [kwArgs, kwargs, h1, h2, h3, h3.symm]

/-- **2D vector, 3D or 4D target (all 36 such names)**: the longitudinal (and temporal) coordinate of the result is the
keyword's value, or `0.0`, VERBATIM in the target's coordinate type; the azimuthal pair denotes the same `(x, y)` -/
theorem c04m_lower_dim_2 (K : Consts ℝ) (A : Arith ℝ) (e : String × Az × Option Lon × Option Tmp × String × String)
    (he : e ∈ toTable) (v : Vec ℝ) (hv : C01M.WFV v) (hd : v.ty.dim = 2) (hlon : e.2.2.1.isSome) (kl kt : Option ℝ)
    (hkt : kt.isSome → e.2.2.2.1.isSome) :
    ∃ r, call evR K A e.1 v (kwArgs e kl kt) = .ok (.vec r) ∧
      r.ty = { v.ty with az := e.2.1, lon := e.2.2.1, tmp := e.2.2.2.1 } ∧ C01M.WFV r ∧
      r.c.drop 2 = kl.getD K.zeroF :: (if e.2.2.2.1.isSome then [kt.getD K.zeroF] else []) ∧
      denote ⟨{ v.ty with az := e.2.1 }, r.c.take 2⟩ = denote v := by
  rw [c04m_call_to_kw evR K A e he v kl kt (fun _ => hlon) hkt]
  obtain ⟨n, az, lon, tmp, sl, st⟩ := e
  rcases wfv_cases hv with ⟨be, mom, az0, a, b, rfl⟩ | ⟨be, mom, az0, l0, a, b, c, rfl⟩ |
    ⟨be, mom, az0, l0, t0, a, b, c, d, rfl⟩
  · rcases lon with _ | l
    · simp at hlon
    rcases tmp with _ | tm
    · refine ⟨_, by rw [toSystem_eval23]; rfl, rfl, ⟨by simp, rfl⟩, rfl, ?_⟩
      simp only [denote, List.take, conv2_x, conv2_y]
    · refine ⟨_, by rw [toSystem_eval24]; rfl, rfl, ⟨by simp, rfl⟩, rfl, ?_⟩
      simp only [denote, List.take, conv2_x, conv2_y]
  · simp [VT.dim] at hd
  · simp [VT.dim] at hd

/-- **3D vector, 4D target (all 24 such names)**: the temporal coordinate of the result is the keyword's value, or `0.0`,
VERBATIM in the target's coordinate type (`t` or `tau`); the spatial part denotes the same `(x, y, z)` -/
theorem c04m_lower_dim_3 (K : Consts ℝ) (A : Arith ℝ) (e : String × Az × Option Lon × Option Tmp × String × String)
    (he : e ∈ toTable) (v : Vec ℝ) (hv : C01M.WFV v) (hd : v.ty.dim = 3) (htmp : e.2.2.2.1.isSome)
    (h : FwdOK v e.2.2.1 e.2.2.2.1) (kt : Option ℝ) :
    ∃ r, call evR K A e.1 v (kwArgs e none kt) = .ok (.vec r) ∧
      r.ty = { v.ty with az := e.2.1, lon := e.2.2.1, tmp := e.2.2.2.1 } ∧ C01M.WFV r ∧
      r.c.drop 3 = [kt.getD K.zeroF] ∧
      denote ⟨{ v.ty with az := e.2.1, lon := e.2.2.1 }, r.c.take 3⟩ = denote v := by
  rw [c04m_call_to_kw evR K A e he v none kt (fun h => nomatch h) (fun _ => htmp)]
  have hlon := toTable_tmp_lon e he htmp
  obtain ⟨n, az, lon, tmp, sl, st⟩ := e
  rcases wfv_cases hv with ⟨be, mom, az0, a, b, rfl⟩ | ⟨be, mom, az0, l0, a, b, c, rfl⟩ |
    ⟨be, mom, az0, l0, t0, a, b, c, d, rfl⟩
  · simp [VT.dim] at hd
  · rcases lon with _ | l
    · simp at hlon
    rcases tmp with _ | tm
    · simp at htmp
    have h' : LonOK az0 l0 l a b c := h
    refine ⟨_, by rw [toSystem_eval34]; rfl, rfl, ⟨by simp, rfl⟩, rfl, ?_⟩
    simp only [denote, List.take, conv2_x, conv2_y, convLon_z _ _ _ _ _ _ _ h']
  · simp [VT.dim] at hd

/-- **Part A.3 in one statement**: `c04m_lower_dim_2` and `c04m_lower_dim_3` -/
theorem c04m_lower_dim (K : Consts ℝ) (A : Arith ℝ) (e : String × Az × Option Lon × Option Tmp × String × String)
    (he : e ∈ toTable) (v : Vec ℝ) (hv : C01M.WFV v) :
    (v.ty.dim = 2 → e.2.2.1.isSome → ∀ kl kt : Option ℝ, (kt.isSome → e.2.2.2.1.isSome) →
      ∃ r, call evR K A e.1 v (kwArgs e kl kt) = .ok (.vec r) ∧
        r.ty = { v.ty with az := e.2.1, lon := e.2.2.1, tmp := e.2.2.2.1 } ∧ C01M.WFV r ∧
        r.c.drop 2 = kl.getD K.zeroF :: (if e.2.2.2.1.isSome then [kt.getD K.zeroF] else []) ∧
        denote ⟨{ v.ty with az := e.2.1 }, r.c.take 2⟩ = denote v) ∧
    (v.ty.dim = 3 → e.2.2.2.1.isSome → FwdOK v e.2.2.1 e.2.2.2.1 → ∀ kt : Option ℝ,
      ∃ r, call evR K A e.1 v (kwArgs e none kt) = .ok (.vec r) ∧
        r.ty = { v.ty with az := e.2.1, lon := e.2.2.1, tmp := e.2.2.2.1 } ∧ C01M.WFV r ∧
        r.c.drop 3 = [kt.getD K.zeroF] ∧
        denote ⟨{ v.ty with az := e.2.1, lon := e.2.2.1 }, r.c.take 3⟩ = denote v) :=
  ⟨fun hd hlon kl kt hkt => c04m_lower_dim_2 K A e he v hv hd hlon kl kt hkt,
   fun hd htmp h kt => c04m_lower_dim_3 K A e he v hv hd htmp h kt⟩

/-- **higher-dimensional vector, lower-dimensional target** (`to_xy` on 3D/4D, `to_rhophieta` on 4D, …): the result
denotes the prefix of the denotation -/
theorem c04m_to_project (K : Consts ℝ) (A : Arith ℝ) (e : String × Az × Option Lon × Option Tmp × String × String)
    (he : e ∈ toTable) (v : Vec ℝ) (hv : C01M.WFV v) (htmp : e.2.2.2.1 = none) (hl : e.2.2.1.isSome → v.ty.lon.isSome)
    (h : FwdOK v e.2.2.1 e.2.2.2.1) :
    ∃ r, call evR K A e.1 v [] = .ok (.vec r) ∧
      r.ty = { v.ty with az := e.2.1, lon := e.2.2.1, tmp := e.2.2.2.1 } ∧ C01M.WFV r ∧
      denote r = (denote v).map (List.take r.ty.dim) := by
  rw [c04_call_to evR K A e.1 v e (toTable_find e he)]
  obtain ⟨n, az, lon, tmp, sl, st⟩ := e
  simp only at htmp hl h ⊢
  subst htmp
  rcases wfv_cases hv with ⟨be, mom, az0, a, b, rfl⟩ | ⟨be, mom, az0, l0, a, b, c, rfl⟩ |
    ⟨be, mom, az0, l0, t0, a, b, c, d, rfl⟩
  · rcases lon with _ | l
    · refine ⟨_, by rw [toSystem_eval2]; rfl, rfl, ⟨by simp, rfl⟩, ?_⟩
      simp only [denote, conv2_x, conv2_y, VT.dim]; rfl
    · simp at hl
  · rcases lon with _ | l
    · refine ⟨_, by rw [toSystem_eval32]; rfl, rfl, ⟨by simp, rfl⟩, ?_⟩
      simp only [denote, conv2_x, conv2_y, VT.dim]; rfl
    · have h' : LonOK az0 l0 l a b c := h
      refine ⟨_, by rw [toSystem_eval3]; rfl, rfl, ⟨by simp, rfl⟩, ?_⟩
      simp only [denote, conv2_x, conv2_y, convLon_z _ _ _ _ _ _ _ h', VT.dim]; rfl
  · rcases lon with _ | l
    · refine ⟨_, by rw [toSystem_eval42]; rfl, rfl, ⟨by simp, rfl⟩, ?_⟩
      simp only [denote, conv2_x, conv2_y, VT.dim]; rfl
    · have h' : LonOK az0 l0 l a b c := h
      refine ⟨_, by rw [toSystem_eval43]; rfl, rfl, ⟨by simp, rfl⟩, ?_⟩
      simp only [denote, conv2_x, conv2_y, convLon_z _ _ _ _ _ _ _ h', VT.dim]; rfl

/-- `Vector2D(rho=2, phi=1).to_xyzt(z=5)`: third coordinate `5`, fourth `0.0`, both verbatim -/
example (K : Consts ℝ) (A : Arith ℝ) :
    ∃ r, call evR K A "to_xyzt" ⟨⟨.obj, false, .rhophi, none, none⟩, [2, 1]⟩ [.kw "z" 5] = .ok (.vec r) ∧
      r.ty = ⟨.obj, false, .xy, some .z, some .t⟩ ∧ r.c.drop 2 = [5, K.zeroF] := by
  obtain ⟨r, h1, h2, _, h4, _⟩ := c04m_lower_dim_2 K A ("to_xyzt", .xy, some .z, some .t, "z", "t") (by decide)
    ⟨⟨.obj, false, .rhophi, none, none⟩, [2, 1]⟩ ⟨by simp, rfl⟩ rfl rfl (some 5) none (fun h => nomatch h)
  exact ⟨r, h1, h2, h4⟩

/-! ## Part B — angular / distance binary methods, every storage pairing, mixed dimensions -/

/-! ### evaluation through `call` → `binary` → `dispatch`

The result class of `dispatch` depends on the backends of the operands (`handlerOf`); for scalar / truth results it does not
matter, so `dispatch` is factored into the part before `_wrap_result` (`rawEval`, computed by `rfl` per storage) and the wrap. -/

/-- the part of `dispatch` before `_wrap_result`: key construction and the compute call -/
def rawEval {S B : Type} (ev : Ev S B) (m : ModuleId) (scalars : List S) (ops : List (Vec S)) :
    Except Err (Out S B × Ret) :=
  if (operandSlots m.info.shape).length != ops.length then .error .assertionError else
  match (ops.zip (operandSlots m.info.shape)).mapM (fun (v, n) => operandKey v n) with
  | none => .error .attributeError
  | some parts =>
    match ev m ((parts.map (·.1)).flatten ++ []) (scalars ++ (parts.map (·.2)).flatten) with
    | none => .error .typeError
    | some r => .ok r

theorem dispatch_eq_raw {S B : Type} (ev : Ev S B) (m : ModuleId) (sc : List S) (ops counted : List (Vec S)) :
    dispatch ev m sc none ops counted =
      match rawEval ev m sc ops with
      | .error e => .error e
      | .ok (out, ret) =>
        match handlerOf counted with
        | none => .error .assertionError
        | some h => wrapResult h h.ty.be (counted.any (·.ty.mom)) out ret := by
  unfold dispatch rawEval
  dsimp only
  by_cases h1 : ((operandSlots m.info.shape).length != ops.length) = true
  · rw [if_pos h1, if_pos h1]
  · rw [if_neg h1, if_neg h1]
    generalize List.mapM (fun x : Vec S × Nat => operandKey x.1 x.2) (ops.zip (operandSlots m.info.shape)) = X
    cases X with
    | none => rfl
    | some parts =>
      dsimp only
      generalize ev m ((List.map (fun x => x.1) parts).flatten ++ []) (sc ++ (List.map (fun x => x.2) parts).flatten) = Y
      cases Y <;> rfl

theorem handlerOf_two {S : Type} (v o : Vec S) : ∃ h, handlerOf [v, o] = some h := by
  simp only [handlerOf, List.foldl]
  split <;> exact ⟨_, rfl⟩

theorem dispatch2_scalar {S B : Type} (ev : Ev S B) (m : ModuleId) (sc : List S) (v o : Vec S) (s : S)
    (h : rawEval ev m sc [v, o] = .ok (.vals [s], .float)) :
    dispatch ev m sc none [v, o] [v, o] = .ok (.scalar s) := by
  obtain ⟨hd, hh⟩ := handlerOf_two v o
  rw [dispatch_eq_raw, h]
  simp only [hh]
  rfl

theorem dispatch2_truth {S B : Type} (ev : Ev S B) (m : ModuleId) (sc : List S) (v o : Vec S) (b : B)
    (h : rawEval ev m sc [v, o] = .ok (.truth b, .bool)) :
    dispatch ev m sc none [v, o] [v, o] = .ok (.truth b) := by
  obtain ⟨hd, hh⟩ := handlerOf_two v o
  rw [dispatch_eq_raw, h]
  simp only [hh]
  rfl

/-- the two shapes of vectors with a longitudinal coordinate -/
theorem wfv_cases3 {v : Vec ℝ} (hv : C01M.WFV v) (hd : 3 ≤ v.ty.dim) :
    (∃ be mom az l a b c, v = ⟨⟨be, mom, az, some l, none⟩, [a, b, c]⟩) ∨
    (∃ be mom az l t a b c d, v = ⟨⟨be, mom, az, some l, some t⟩, [a, b, c, d]⟩) := by
  rcases wfv_cases hv with ⟨be, mom, az, a, b, rfl⟩ | h | h
  · simp [VT.dim] at hd
  · exact Or.inl h
  · exact Or.inr h

/-! ### 4. deltaphi -/

theorem call_deltaphi {S B : Type} (ev : Ev S B) (K : Consts S) (A : Arith S) (v o : Vec S) :
    call ev K A "deltaphi" v [.v o] = dispatch ev .planar_deltaphi [] none [v, o] [v, o] := rfl

theorem deltaphi_eval (K : Consts ℝ) (A : Arith ℝ) (v o : Vec ℝ) (hv : C01M.WFV v) (ho : C01M.WFV o) :
    call evR K A "deltaphi" v [.v o] =
      .ok (.scalar (planar_deltaphi.eval v.ty.az o.ty.az (c3 v).1 (c3 v).2.1 (c3 o).1 (c3 o).2.1)) := by
  rw [call_deltaphi]
  apply dispatch2_scalar
  rcases wfv_cases hv with ⟨be, mom, az, a, b, rfl⟩ | ⟨be, mom, az, l, a, b, c, rfl⟩ |
    ⟨be, mom, az, l, t, a, b, c, d, rfl⟩ <;>
  rcases wfv_cases ho with ⟨be', mom', az', a', b', rfl⟩ | ⟨be', mom', az', l', a', b', c', rfl⟩ |
    ⟨be', mom', az', l', t', a', b', c', d', rfl⟩ <;>
  cases az <;> cases az' <;> rfl

/-- **deltaphi, operands of ANY dimensions (2D/3D/4D, mixed) and storages**, no hypothesis: the result lies in `[-π, π)`
and is the difference of the two `phi` accessors up to a multiple of 2π -/
theorem c04m_deltaphi_acc (K : Consts ℝ) (A : Arith ℝ) (v o : Vec ℝ) (hv : C01M.WFV v) (ho : C01M.WFV o) :
    ∃ d p₁ p₂, call evR K A "deltaphi" v [.v o] = .ok (.scalar d) ∧ call evR K A "phi" v [] = .ok (.scalar p₁) ∧
      call evR K A "phi" o [] = .ok (.scalar p₂) ∧ (-π ≤ d ∧ d < π) ∧ ∃ n : ℤ, d = p₁ - p₂ + 2 * π * n := by
  obtain ⟨hm, n, hn⟩ := refine_planar_deltaphi v.ty.az o.ty.az (c3 v).1 (c3 v).2.1 (c3 o).1 (c3 o).2.1
  refine ⟨_, _, _, deltaphi_eval K A v o hv ho, acc_phi_eval K A v hv, acc_phi_eval K A o ho, hm, -n, ?_⟩
  rw [hn]; push_cast; ring

/-- **deltaphi in terms of the denotations**: for operands off the z axis (`0 < ρ`; the stored φ need not be canonical),
`d ∈ [-π, π)` and `d = φ₁ − φ₂ + 2πn` with `φᵢ = arctan2(yᵢ, xᵢ)` the azimuth of the DENOTED points -/
theorem c04m_deltaphi (K : Consts ℝ) (A : Arith ℝ) (v o : Vec ℝ) (hv : C01M.WFV v) (ho : C01M.WFV o)
    (hr : Stored2 (fun k a b => 0 < rhoOf k a b) v) (hr' : Stored2 (fun k a b => 0 < rhoOf k a b) o)
    (x₁ y₁ x₂ y₂ : ℝ) (r₁ r₂ : List ℝ) (h₁ : denote v = some (x₁ :: y₁ :: r₁)) (h₂ : denote o = some (x₂ :: y₂ :: r₂)) :
    ∃ d, call evR K A "deltaphi" v [.v o] = .ok (.scalar d) ∧ (-π ≤ d ∧ d ≤ π) ∧
      ∃ n : ℤ, d = P.arctan2 y₁ x₁ - P.arctan2 y₂ x₂ + 2 * π * n := by
  refine ⟨_, deltaphi_eval K A v o hv ho, ?_⟩
  rw [refine_spatial_deltaphi_key _ _ _ _ _ _ hr hr', ← (denote_planar hv h₁).1, ← (denote_planar hv h₁).2,
    ← (denote_planar ho h₂).1, ← (denote_planar ho h₂).2]
  obtain ⟨hm, n, hn⟩ := refine_planar_deltaphi .xy .xy x₁ y₁ x₂ y₂
  refine ⟨⟨hm.1, hm.2.le⟩, -n, ?_⟩
  rw [hn]; push_cast
  show P.arctan2 y₁ x₁ - P.arctan2 y₂ x₂ - n * (2 * π) = _
  ring

/-! ### 5. deltaeta, deltaR2, deltaR, deltaangle on 3D/4D operands (mixed dimensions allowed) -/

theorem call_deltaeta {S B : Type} (ev : Ev S B) (K : Consts S) (A : Arith S) (v o : Vec S) :
    call ev K A "deltaeta" v [.v o] =
      if v.ty.dim < 3 then .error .attributeError else
      if o.ty.dim != 3 && o.ty.dim != 4 then .error .typeError else
      dispatch ev .spatial_deltaeta [] none [v, o] [v, o] := rfl

theorem deltaeta_eval (K : Consts ℝ) (A : Arith ℝ) (v o : Vec ℝ) (hv : C01M.WFV v) (ho : C01M.WFV o)
    (hd : 3 ≤ v.ty.dim) (hd' : 3 ≤ o.ty.dim) :
    call evR K A "deltaeta" v [.v o] =
      .ok (.scalar (spatial_deltaeta.eval v.ty.az (lonOf v) o.ty.az (lonOf o) (c3 v).1 (c3 v).2.1 (c3 v).2.2
        (c3 o).1 (c3 o).2.1 (c3 o).2.2)) := by
  have h4 : o.ty.dim = 3 ∨ o.ty.dim = 4 := by
    have : o.ty.dim ≤ 4 := by unfold VT.dim; split <;> split <;> simp
    omega
  rw [call_deltaeta, if_neg (by omega), if_neg (by rcases h4 with h | h <;> simp [h])]
  apply dispatch2_scalar
  rcases wfv_cases3 hv hd with ⟨be, mom, az, l, a, b, c, rfl⟩ | ⟨be, mom, az, l, t, a, b, c, d, rfl⟩ <;>
  rcases wfv_cases3 ho hd' with ⟨be', mom', az', l', a', b', c', rfl⟩ | ⟨be', mom', az', l', t', a', b', c', d', rfl⟩ <;>
  cases az <;> cases l <;> cases az' <;> cases l' <;> rfl

theorem call_deltaR2 {S B : Type} (ev : Ev S B) (K : Consts S) (A : Arith S) (v o : Vec S) :
    call ev K A "deltaR2" v [.v o] =
      if v.ty.dim < 3 then .error .attributeError else
      if o.ty.dim != 3 && o.ty.dim != 4 then .error .typeError else
      dispatch ev .spatial_deltaR2 [] none [v, o] [v, o] := rfl

theorem deltaR2_eval (K : Consts ℝ) (A : Arith ℝ) (v o : Vec ℝ) (hv : C01M.WFV v) (ho : C01M.WFV o)
    (hd : 3 ≤ v.ty.dim) (hd' : 3 ≤ o.ty.dim) :
    call evR K A "deltaR2" v [.v o] =
      .ok (.scalar (spatial_deltaR2.eval v.ty.az (lonOf v) o.ty.az (lonOf o) (c3 v).1 (c3 v).2.1 (c3 v).2.2
        (c3 o).1 (c3 o).2.1 (c3 o).2.2)) := by
  have h4 : o.ty.dim = 3 ∨ o.ty.dim = 4 := by
    have : o.ty.dim ≤ 4 := by unfold VT.dim; split <;> split <;> simp
    omega
  rw [call_deltaR2, if_neg (by omega), if_neg (by rcases h4 with h | h <;> simp [h])]
  apply dispatch2_scalar
  rcases wfv_cases3 hv hd with ⟨be, mom, az, l, a, b, c, rfl⟩ | ⟨be, mom, az, l, t, a, b, c, d, rfl⟩ <;>
  rcases wfv_cases3 ho hd' with ⟨be', mom', az', l', a', b', c', rfl⟩ | ⟨be', mom', az', l', t', a', b', c', d', rfl⟩ <;>
  cases az <;> cases l <;> cases az' <;> cases l' <;> rfl

theorem call_deltaR {S B : Type} (ev : Ev S B) (K : Consts S) (A : Arith S) (v o : Vec S) :
    call ev K A "deltaR" v [.v o] =
      if v.ty.dim < 3 then .error .attributeError else
      if o.ty.dim != 3 && o.ty.dim != 4 then .error .typeError else
      dispatch ev .spatial_deltaR [] none [v, o] [v, o] := rfl

theorem deltaR_eval (K : Consts ℝ) (A : Arith ℝ) (v o : Vec ℝ) (hv : C01M.WFV v) (ho : C01M.WFV o)
    (hd : 3 ≤ v.ty.dim) (hd' : 3 ≤ o.ty.dim) :
    call evR K A "deltaR" v [.v o] =
      .ok (.scalar (spatial_deltaR.eval v.ty.az (lonOf v) o.ty.az (lonOf o) (c3 v).1 (c3 v).2.1 (c3 v).2.2
        (c3 o).1 (c3 o).2.1 (c3 o).2.2)) := by
  have h4 : o.ty.dim = 3 ∨ o.ty.dim = 4 := by
    have : o.ty.dim ≤ 4 := by unfold VT.dim; split <;> split <;> simp
    omega
  rw [call_deltaR, if_neg (by omega), if_neg (by rcases h4 with h | h <;> simp [h])]
  apply dispatch2_scalar
  rcases wfv_cases3 hv hd with ⟨be, mom, az, l, a, b, c, rfl⟩ | ⟨be, mom, az, l, t, a, b, c, d, rfl⟩ <;>
  rcases wfv_cases3 ho hd' with ⟨be', mom', az', l', a', b', c', rfl⟩ | ⟨be', mom', az', l', t', a', b', c', d', rfl⟩ <;>
  cases az <;> cases l <;> cases az' <;> cases l' <;> rfl

theorem call_deltaangle {S B : Type} (ev : Ev S B) (K : Consts S) (A : Arith S) (v o : Vec S) :
    call ev K A "deltaangle" v [.v o] =
      if v.ty.dim < 3 then .error .attributeError else
      if o.ty.dim != 3 && o.ty.dim != 4 then .error .typeError else
      dispatch ev .spatial_deltaangle [] none [v, o] [v, o] := rfl

theorem deltaangle_eval (K : Consts ℝ) (A : Arith ℝ) (v o : Vec ℝ) (hv : C01M.WFV v) (ho : C01M.WFV o)
    (hd : 3 ≤ v.ty.dim) (hd' : 3 ≤ o.ty.dim) :
    call evR K A "deltaangle" v [.v o] =
      .ok (.scalar (spatial_deltaangle.eval v.ty.az (lonOf v) o.ty.az (lonOf o) (c3 v).1 (c3 v).2.1 (c3 v).2.2
        (c3 o).1 (c3 o).2.1 (c3 o).2.2)) := by
  have h4 : o.ty.dim = 3 ∨ o.ty.dim = 4 := by
    have : o.ty.dim ≤ 4 := by unfold VT.dim; split <;> split <;> simp
    omega
  rw [call_deltaangle, if_neg (by omega), if_neg (by rcases h4 with h | h <;> simp [h])]
  apply dispatch2_scalar
  rcases wfv_cases3 hv hd with ⟨be, mom, az, l, a, b, c, rfl⟩ | ⟨be, mom, az, l, t, a, b, c, d, rfl⟩ <;>
  rcases wfv_cases3 ho hd' with ⟨be', mom', az', l', a', b', c', rfl⟩ | ⟨be', mom', az', l', t', a', b', c', d', rfl⟩ <;>
  cases az <;> cases l <;> cases az' <;> cases l' <;> rfl

/-- hypothesis of the pseudorapidity-based methods on a 3D/4D operand: off the z axis (`0 < ρ`), stored θ in `(0, π)` -/
def EtaOKV (v : Vec ℝ) : Prop := Stored3 (fun k l a b c => 0 < rhoOf k a b ∧ CanonLon k l a b c) v

/-- hypothesis of `deltaangle` on a 3D/4D operand: `0 ≤ ρ` for polar storage, `cos θ ≠ 0` and `sin θ ≠ 0` for θ storage -/
def AngleOKV (v : Vec ℝ) : Prop := Stored3 (fun k l a b c => Canon2 k a b ∧ TanOK l c ∧ SinOK l c) v

theorem sinOK_imp {l : Lon} {c : ℝ} (h : SinOK l c) : l = .theta → sin c ≠ 0 := by
  rintro rfl; exact h

/-- **deltaeta on 3D/4D operands (mixed allowed), every storage pairing**: `arsinh(z₁/ρ₁) − arsinh(z₂/ρ₂)` of the denotations -/
theorem c04m_deltaeta (K : Consts ℝ) (A : Arith ℝ) (v o : Vec ℝ) (hv : C01M.WFV v) (ho : C01M.WFV o)
    (hc : EtaOKV v) (hc' : EtaOKV o) (x₁ y₁ z₁ x₂ y₂ z₂ : ℝ) (r₁ r₂ : List ℝ)
    (h₁ : denote v = some (x₁ :: y₁ :: z₁ :: r₁)) (h₂ : denote o = some (x₂ :: y₂ :: z₂ :: r₂)) :
    call evR K A "deltaeta" v [.v o] =
      .ok (.scalar (arsinh (z₁ / sqrt (x₁ ^ 2 + y₁ ^ 2)) - arsinh (z₂ / sqrt (x₂ ^ 2 + y₂ ^ 2)))) := by
  obtain ⟨hd, hx, hy, hz⟩ := denote_spatial hv h₁
  obtain ⟨hd', hx', hy', hz'⟩ := denote_spatial ho h₂
  rw [deltaeta_eval K A v o hv ho hd hd', refine_spatial_deltaeta _ _ _ _ _ _ _ _ _ _ hc.1 hc'.1 hc.2 hc'.2,
    hx, hy, hz, hx', hy', hz', rhoOf_eq_sqrt (canon2_of_pos hc.1), rhoOf_eq_sqrt (canon2_of_pos hc'.1)]

/-- **deltaR2**: `Δφ² + Δη²`, `Δφ` the rectified difference of the azimuths `arctan2(y, x)`, `Δη` as in `deltaeta` -/
theorem c04m_deltaR2 (K : Consts ℝ) (A : Arith ℝ) (v o : Vec ℝ) (hv : C01M.WFV v) (ho : C01M.WFV o)
    (hc : EtaOKV v) (hc' : EtaOKV o) (x₁ y₁ z₁ x₂ y₂ z₂ : ℝ) (r₁ r₂ : List ℝ)
    (h₁ : denote v = some (x₁ :: y₁ :: z₁ :: r₁)) (h₂ : denote o = some (x₂ :: y₂ :: z₂ :: r₂)) :
    call evR K A "deltaR2" v [.v o] =
      .ok (.scalar ((P.mod (P.arctan2 y₁ x₁ - P.arctan2 y₂ x₂ + π) (2 * π) - π) ^ 2
        + (arsinh (z₁ / sqrt (x₁ ^ 2 + y₁ ^ 2)) - arsinh (z₂ / sqrt (x₂ ^ 2 + y₂ ^ 2))) ^ 2)) := by
  obtain ⟨hd, hx, hy, hz⟩ := denote_spatial hv h₁
  obtain ⟨hd', hx', hy', hz'⟩ := denote_spatial ho h₂
  rw [deltaR2_eval K A v o hv ho hd hd', refine_spatial_deltaR2 _ _ _ _ _ _ _ _ _ _ hc.1 hc'.1 hc.2 hc'.2,
    hx, hy, hz, hx', hy', hz', rhoOf_eq_sqrt (canon2_of_pos hc.1), rhoOf_eq_sqrt (canon2_of_pos hc'.1)]

/-- **deltaR** `= √(Δφ² + Δη²)` -/
theorem c04m_deltaR (K : Consts ℝ) (A : Arith ℝ) (v o : Vec ℝ) (hv : C01M.WFV v) (ho : C01M.WFV o)
    (hc : EtaOKV v) (hc' : EtaOKV o) (x₁ y₁ z₁ x₂ y₂ z₂ : ℝ) (r₁ r₂ : List ℝ)
    (h₁ : denote v = some (x₁ :: y₁ :: z₁ :: r₁)) (h₂ : denote o = some (x₂ :: y₂ :: z₂ :: r₂)) :
    call evR K A "deltaR" v [.v o] =
      .ok (.scalar (sqrt ((P.mod (P.arctan2 y₁ x₁ - P.arctan2 y₂ x₂ + π) (2 * π) - π) ^ 2
        + (arsinh (z₁ / sqrt (x₁ ^ 2 + y₁ ^ 2)) - arsinh (z₂ / sqrt (x₂ ^ 2 + y₂ ^ 2))) ^ 2))) := by
  obtain ⟨hd, hx, hy, hz⟩ := denote_spatial hv h₁
  obtain ⟨hd', hx', hy', hz'⟩ := denote_spatial ho h₂
  rw [deltaR_eval K A v o hv ho hd hd', refine_spatial_deltaR,
    refine_spatial_deltaR2 _ _ _ _ _ _ _ _ _ _ hc.1 hc'.1 hc.2 hc'.2,
    hx, hy, hz, hx', hy', hz', rhoOf_eq_sqrt (canon2_of_pos hc.1), rhoOf_eq_sqrt (canon2_of_pos hc'.1)]

/-- **deltaangle**: `arccos` of the clamped normalised scalar product of the spatial parts of the denotations -/
theorem c04m_deltaangle (K : Consts ℝ) (A : Arith ℝ) (v o : Vec ℝ) (hv : C01M.WFV v) (ho : C01M.WFV o)
    (hc : AngleOKV v) (hc' : AngleOKV o) (x₁ y₁ z₁ x₂ y₂ z₂ : ℝ) (r₁ r₂ : List ℝ)
    (h₁ : denote v = some (x₁ :: y₁ :: z₁ :: r₁)) (h₂ : denote o = some (x₂ :: y₂ :: z₂ :: r₂)) :
    call evR K A "deltaangle" v [.v o] =
      .ok (.scalar (arccos (max (-1) (min 1 ((x₁ * x₂ + y₁ * y₂ + z₁ * z₂)
        / sqrt (x₁ ^ 2 + y₁ ^ 2 + z₁ ^ 2) / sqrt (x₂ ^ 2 + y₂ ^ 2 + z₂ ^ 2)))))) := by
  obtain ⟨hd, hx, hy, hz⟩ := denote_spatial hv h₁
  obtain ⟨hd', hx', hy', hz'⟩ := denote_spatial ho h₂
  rw [deltaangle_eval K A v o hv ho hd hd',
    refine_spatial_deltaangle _ _ _ _ _ _ _ _ _ _ hc.1 hc'.1 hc.2.1 hc'.2.1 (sinOK_imp hc.2.2) (sinOK_imp hc'.2.2),
    hx, hy, hz, hx', hy', hz']
  rfl

/-- **guards of the four methods** (any scalar type / compute layer): a 2D `self` has no such method (`AttributeError`);
a 2D argument is a `TypeError` -/
theorem c04m_delta_guards {S B : Type} (ev : Ev S B) (K : Consts S) (A : Arith S) (v o : Vec S) :
    (v.ty.dim < 3 →
      call ev K A "deltaeta" v [.v o] = .error .attributeError ∧ call ev K A "deltaR2" v [.v o] = .error .attributeError ∧
      call ev K A "deltaR" v [.v o] = .error .attributeError ∧
      call ev K A "deltaangle" v [.v o] = .error .attributeError) ∧
    (3 ≤ v.ty.dim → o.ty.dim = 2 →
      call ev K A "deltaeta" v [.v o] = .error .typeError ∧ call ev K A "deltaR2" v [.v o] = .error .typeError ∧
      call ev K A "deltaR" v [.v o] = .error .typeError ∧ call ev K A "deltaangle" v [.v o] = .error .typeError) := by
  refine ⟨fun h => ?_, fun h h' => ?_⟩
  · rw [call_deltaeta, call_deltaR2, call_deltaR, call_deltaangle]
    simp [h]
  · rw [call_deltaeta, call_deltaR2, call_deltaR, call_deltaangle]
    have : ¬ v.ty.dim < 3 := by omega
    simp [this, h']

/-! ### 6. is_parallel / is_antiparallel / is_perpendicular (same dimension required; 3D and 4D through the spatial modules) -/

theorem planar_rho_denote {k : Az} {a b : ℝ} (h : Canon2 k a b) :
    planar_rho.eval k a b = sqrt (xOf k a b ^ 2 + yOf k a b ^ 2) := by
  rw [refine_planar_rho, rhoOf_eq_sqrt h]

theorem wfv_cases2 {v : Vec ℝ} (hv : C01M.WFV v) (hd : v.ty.dim = 2) :
    ∃ be mom az a b, v = ⟨⟨be, mom, az, none, none⟩, [a, b]⟩ := by
  rcases wfv_cases hv with h | ⟨be, mom, az, l, a, b, c, rfl⟩ | ⟨be, mom, az, l, t, a, b, c, d, rfl⟩
  · exact h
  · simp [VT.dim] at hd
  · simp [VT.dim] at hd

/-- hypothesis of the spatial angle predicates on a 3D/4D operand: `0 ≤ ρ`, `cos θ ≠ 0`, `sin θ ≠ 0` -/
def PredOKV (v : Vec ℝ) : Prop := AngleOKV v

theorem call_is_parallel {S B : Type} (ev : Ev S B) (K : Consts S) (A : Arith S) (v o : Vec S) (t : S) :
    (call ev K A "is_parallel" v [.v o] =
      if o.ty.dim != v.ty.dim then .error .typeError else
      match Bin.sameDimMod .is_parallel v.ty.dim with
      | some m => dispatch ev m [K.tol] none [v, o] [v, o]
      | none => .error .assertionError) ∧
    (call ev K A "is_parallel" v [.v o, .sc t] =
      if o.ty.dim != v.ty.dim then .error .typeError else
      match Bin.sameDimMod .is_parallel v.ty.dim with
      | some m => dispatch ev m [t] none [v, o] [v, o]
      | none => .error .assertionError) := ⟨rfl, rfl⟩

theorem is_parallel_raw2 (tol : ℝ) (v o : Vec ℝ) (hv : C01M.WFV v) (ho : C01M.WFV o) (hd : v.ty.dim = 2) (hd' : o.ty.dim = 2) :
    dispatch evR .planar_is_parallel [tol] none [v, o] [v, o] =
      .ok (.truth (planar_is_parallel.eval v.ty.az o.ty.az tol (c3 v).1 (c3 v).2.1 (c3 o).1 (c3 o).2.1)) := by
  apply dispatch2_truth
  obtain ⟨be, mom, az, a, b, rfl⟩ := wfv_cases2 hv hd
  obtain ⟨be', mom', az', a', b', rfl⟩ := wfv_cases2 ho hd'
  cases az <;> cases az' <;> rfl

theorem is_parallel_raw3 (tol : ℝ) (v o : Vec ℝ) (hv : C01M.WFV v) (ho : C01M.WFV o) (hd : 3 ≤ v.ty.dim)
    (hd' : 3 ≤ o.ty.dim) :
    dispatch evR .spatial_is_parallel [tol] none [v, o] [v, o] =
      .ok (.truth (spatial_is_parallel.eval v.ty.az (lonOf v) o.ty.az (lonOf o) tol (c3 v).1 (c3 v).2.1 (c3 v).2.2
        (c3 o).1 (c3 o).2.1 (c3 o).2.2)) := by
  apply dispatch2_truth
  rcases wfv_cases3 hv hd with ⟨be, mom, az, l, a, b, c, rfl⟩ | ⟨be, mom, az, l, t, a, b, c, d, rfl⟩ <;>
  rcases wfv_cases3 ho hd' with ⟨be', mom', az', l', a', b', c', rfl⟩ | ⟨be', mom', az', l', t', a', b', c', d', rfl⟩ <;>
  cases az <;> cases l <;> cases az' <;> cases l' <;> rfl

/-- **is_parallel on 2D operands, every storage pairing** (default tolerance `1e-5` = `K.tol`, or explicit): `.truth` of the
documented test on the DENOTED points -/
theorem c04m_is_parallel_2D (K : Consts ℝ) (A : Arith ℝ) (v o : Vec ℝ) (hv : C01M.WFV v) (ho : C01M.WFV o)
    (hd : v.ty.dim = 2) (hd' : o.ty.dim = 2) (hc : Stored2 Canon2 v) (hc' : Stored2 Canon2 o)
    (x₁ y₁ x₂ y₂ : ℝ) (h₁ : denote v = some [x₁, y₁]) (h₂ : denote o = some [x₂, y₂]) :
    (∃ p : Prop, call evR K A "is_parallel" v [.v o] = .ok (.truth p) ∧
      (p ↔ let tol := K.tol; (x₁ * x₂ + y₁ * y₂) > (1 - |tol|) * sqrt (x₁ ^ 2 + y₁ ^ 2) * sqrt (x₂ ^ 2 + y₂ ^ 2))) ∧
    ∀ tol : ℝ, ∃ p : Prop, call evR K A "is_parallel" v [.v o, .sc tol] = .ok (.truth p) ∧
      (p ↔ (x₁ * x₂ + y₁ * y₂) > (1 - |tol|) * sqrt (x₁ ^ 2 + y₁ ^ 2) * sqrt (x₂ ^ 2 + y₂ ^ 2)) := by
  have key : ∀ tol : ℝ, planar_is_parallel.eval v.ty.az o.ty.az tol (c3 v).1 (c3 v).2.1 (c3 o).1 (c3 o).2.1 ↔
      (x₁ * x₂ + y₁ * y₂) > (1 - |tol|) * sqrt (x₁ ^ 2 + y₁ ^ 2) * sqrt (x₂ ^ 2 + y₂ ^ 2) := by
    intro tol
    rw [c13_planar_is_parallel_iff, refine_planar_dot, planar_rho_denote hc, planar_rho_denote hc',
      (denote_planar hv h₁).1, (denote_planar hv h₁).2, (denote_planar ho h₂).1, (denote_planar ho h₂).2]
    rfl
  refine ⟨⟨_, ?_, key K.tol⟩, fun tol => ⟨_, ?_, key tol⟩⟩
  · rw [(call_is_parallel evR K A v o 0).1, if_neg (by simp [hd, hd']), hd]
    exact is_parallel_raw2 K.tol v o hv ho hd hd'
  · rw [(call_is_parallel evR K A v o tol).2, if_neg (by simp [hd, hd']), hd]
    exact is_parallel_raw2 tol v o hv ho hd hd'

/-- **is_parallel on 3D–3D and 4D–4D operands, every storage pairing**: the spatial modules on the spatial parts (a stored
t/τ is ignored): `.truth` of the documented test on the DENOTED spatial parts -/
theorem c04m_is_parallel_3D (K : Consts ℝ) (A : Arith ℝ) (v o : Vec ℝ) (hv : C01M.WFV v) (ho : C01M.WFV o)
    (hdim : o.ty.dim = v.ty.dim) (hc : PredOKV v) (hc' : PredOKV o)
    (x₁ y₁ z₁ x₂ y₂ z₂ : ℝ) (r₁ r₂ : List ℝ)
    (h₁ : denote v = some (x₁ :: y₁ :: z₁ :: r₁)) (h₂ : denote o = some (x₂ :: y₂ :: z₂ :: r₂)) :
    (∃ p : Prop, call evR K A "is_parallel" v [.v o] = .ok (.truth p) ∧
      (p ↔ let tol := K.tol; (x₁ * x₂ + y₁ * y₂ + z₁ * z₂) > (1 - |tol|) * sqrt (x₁ ^ 2 + y₁ ^ 2 + z₁ ^ 2) * sqrt (x₂ ^ 2 + y₂ ^ 2 + z₂ ^ 2))) ∧
    ∀ tol : ℝ, ∃ p : Prop, call evR K A "is_parallel" v [.v o, .sc tol] = .ok (.truth p) ∧
      (p ↔ (x₁ * x₂ + y₁ * y₂ + z₁ * z₂) > (1 - |tol|) * sqrt (x₁ ^ 2 + y₁ ^ 2 + z₁ ^ 2) * sqrt (x₂ ^ 2 + y₂ ^ 2 + z₂ ^ 2)) := by
  obtain ⟨hd, hx, hy, hz⟩ := denote_spatial hv h₁
  obtain ⟨hd', hx', hy', hz'⟩ := denote_spatial ho h₂
  have key : ∀ tol : ℝ, spatial_is_parallel.eval v.ty.az (lonOf v) o.ty.az (lonOf o) tol (c3 v).1 (c3 v).2.1 (c3 v).2.2
      (c3 o).1 (c3 o).2.1 (c3 o).2.2 ↔ (x₁ * x₂ + y₁ * y₂ + z₁ * z₂) > (1 - |tol|) * sqrt (x₁ ^ 2 + y₁ ^ 2 + z₁ ^ 2) * sqrt (x₂ ^ 2 + y₂ ^ 2 + z₂ ^ 2) := by
    intro tol
    rw [c13_spatial_is_parallel_iff, refine_spatial_dot _ _ _ _ _ _ _ _ _ _ hc.2.1 hc'.2.1,
      refine_spatial_mag _ _ _ _ _ hc.1 hc.2.2, refine_spatial_mag _ _ _ _ _ hc'.1 hc'.2.2, hx, hy, hz, hx', hy', hz']
    rfl
  have hm : Bin.sameDimMod .is_parallel v.ty.dim = some .spatial_is_parallel := by
    have : v.ty.dim ≤ 4 := by unfold VT.dim; split <;> split <;> simp
    have h34 : v.ty.dim = 3 ∨ v.ty.dim = 4 := by omega
    rcases h34 with h | h <;> rw [h] <;> rfl
  refine ⟨⟨_, ?_, key K.tol⟩, fun tol => ⟨_, ?_, key tol⟩⟩
  · rw [(call_is_parallel evR K A v o 0).1, if_neg (by simp [hdim]), hm]
    exact is_parallel_raw3 K.tol v o hv ho hd hd'
  · rw [(call_is_parallel evR K A v o tol).2, if_neg (by simp [hdim]), hm]
    exact is_parallel_raw3 tol v o hv ho hd hd'

theorem call_is_antiparallel {S B : Type} (ev : Ev S B) (K : Consts S) (A : Arith S) (v o : Vec S) (t : S) :
    (call ev K A "is_antiparallel" v [.v o] =
      if o.ty.dim != v.ty.dim then .error .typeError else
      match Bin.sameDimMod .is_antiparallel v.ty.dim with
      | some m => dispatch ev m [K.tol] none [v, o] [v, o]
      | none => .error .assertionError) ∧
    (call ev K A "is_antiparallel" v [.v o, .sc t] =
      if o.ty.dim != v.ty.dim then .error .typeError else
      match Bin.sameDimMod .is_antiparallel v.ty.dim with
      | some m => dispatch ev m [t] none [v, o] [v, o]
      | none => .error .assertionError) := ⟨rfl, rfl⟩

theorem is_antiparallel_raw2 (tol : ℝ) (v o : Vec ℝ) (hv : C01M.WFV v) (ho : C01M.WFV o) (hd : v.ty.dim = 2) (hd' : o.ty.dim = 2) :
    dispatch evR .planar_is_antiparallel [tol] none [v, o] [v, o] =
      .ok (.truth (planar_is_antiparallel.eval v.ty.az o.ty.az tol (c3 v).1 (c3 v).2.1 (c3 o).1 (c3 o).2.1)) := by
  apply dispatch2_truth
  obtain ⟨be, mom, az, a, b, rfl⟩ := wfv_cases2 hv hd
  obtain ⟨be', mom', az', a', b', rfl⟩ := wfv_cases2 ho hd'
  cases az <;> cases az' <;> rfl

theorem is_antiparallel_raw3 (tol : ℝ) (v o : Vec ℝ) (hv : C01M.WFV v) (ho : C01M.WFV o) (hd : 3 ≤ v.ty.dim)
    (hd' : 3 ≤ o.ty.dim) :
    dispatch evR .spatial_is_antiparallel [tol] none [v, o] [v, o] =
      .ok (.truth (spatial_is_antiparallel.eval v.ty.az (lonOf v) o.ty.az (lonOf o) tol (c3 v).1 (c3 v).2.1 (c3 v).2.2
        (c3 o).1 (c3 o).2.1 (c3 o).2.2)) := by
  apply dispatch2_truth
  rcases wfv_cases3 hv hd with ⟨be, mom, az, l, a, b, c, rfl⟩ | ⟨be, mom, az, l, t, a, b, c, d, rfl⟩ <;>
  rcases wfv_cases3 ho hd' with ⟨be', mom', az', l', a', b', c', rfl⟩ | ⟨be', mom', az', l', t', a', b', c', d', rfl⟩ <;>
  cases az <;> cases l <;> cases az' <;> cases l' <;> rfl

/-- **is_antiparallel on 2D operands, every storage pairing** (default tolerance `1e-5` = `K.tol`, or explicit): `.truth` of the
documented test on the DENOTED points -/
theorem c04m_is_antiparallel_2D (K : Consts ℝ) (A : Arith ℝ) (v o : Vec ℝ) (hv : C01M.WFV v) (ho : C01M.WFV o)
    (hd : v.ty.dim = 2) (hd' : o.ty.dim = 2) (hc : Stored2 Canon2 v) (hc' : Stored2 Canon2 o)
    (x₁ y₁ x₂ y₂ : ℝ) (h₁ : denote v = some [x₁, y₁]) (h₂ : denote o = some [x₂, y₂]) :
    (∃ p : Prop, call evR K A "is_antiparallel" v [.v o] = .ok (.truth p) ∧
      (p ↔ let tol := K.tol; (x₁ * x₂ + y₁ * y₂) < (|tol| - 1) * sqrt (x₁ ^ 2 + y₁ ^ 2) * sqrt (x₂ ^ 2 + y₂ ^ 2))) ∧
    ∀ tol : ℝ, ∃ p : Prop, call evR K A "is_antiparallel" v [.v o, .sc tol] = .ok (.truth p) ∧
      (p ↔ (x₁ * x₂ + y₁ * y₂) < (|tol| - 1) * sqrt (x₁ ^ 2 + y₁ ^ 2) * sqrt (x₂ ^ 2 + y₂ ^ 2)) := by
  have key : ∀ tol : ℝ, planar_is_antiparallel.eval v.ty.az o.ty.az tol (c3 v).1 (c3 v).2.1 (c3 o).1 (c3 o).2.1 ↔
      (x₁ * x₂ + y₁ * y₂) < (|tol| - 1) * sqrt (x₁ ^ 2 + y₁ ^ 2) * sqrt (x₂ ^ 2 + y₂ ^ 2) := by
    intro tol
    rw [c13_planar_is_antiparallel_iff, refine_planar_dot, planar_rho_denote hc, planar_rho_denote hc',
      (denote_planar hv h₁).1, (denote_planar hv h₁).2, (denote_planar ho h₂).1, (denote_planar ho h₂).2]
    rfl
  refine ⟨⟨_, ?_, key K.tol⟩, fun tol => ⟨_, ?_, key tol⟩⟩
  · rw [(call_is_antiparallel evR K A v o 0).1, if_neg (by simp [hd, hd']), hd]
    exact is_antiparallel_raw2 K.tol v o hv ho hd hd'
  · rw [(call_is_antiparallel evR K A v o tol).2, if_neg (by simp [hd, hd']), hd]
    exact is_antiparallel_raw2 tol v o hv ho hd hd'

/-- **is_antiparallel on 3D–3D and 4D–4D operands, every storage pairing**: the spatial modules on the spatial parts (a stored
t/τ is ignored): `.truth` of the documented test on the DENOTED spatial parts -/
theorem c04m_is_antiparallel_3D (K : Consts ℝ) (A : Arith ℝ) (v o : Vec ℝ) (hv : C01M.WFV v) (ho : C01M.WFV o)
    (hdim : o.ty.dim = v.ty.dim) (hc : PredOKV v) (hc' : PredOKV o)
    (x₁ y₁ z₁ x₂ y₂ z₂ : ℝ) (r₁ r₂ : List ℝ)
    (h₁ : denote v = some (x₁ :: y₁ :: z₁ :: r₁)) (h₂ : denote o = some (x₂ :: y₂ :: z₂ :: r₂)) :
    (∃ p : Prop, call evR K A "is_antiparallel" v [.v o] = .ok (.truth p) ∧
      (p ↔ let tol := K.tol; (x₁ * x₂ + y₁ * y₂ + z₁ * z₂) < (|tol| - 1) * sqrt (x₁ ^ 2 + y₁ ^ 2 + z₁ ^ 2) * sqrt (x₂ ^ 2 + y₂ ^ 2 + z₂ ^ 2))) ∧
    ∀ tol : ℝ, ∃ p : Prop, call evR K A "is_antiparallel" v [.v o, .sc tol] = .ok (.truth p) ∧
      (p ↔ (x₁ * x₂ + y₁ * y₂ + z₁ * z₂) < (|tol| - 1) * sqrt (x₁ ^ 2 + y₁ ^ 2 + z₁ ^ 2) * sqrt (x₂ ^ 2 + y₂ ^ 2 + z₂ ^ 2)) := by
  obtain ⟨hd, hx, hy, hz⟩ := denote_spatial hv h₁
  obtain ⟨hd', hx', hy', hz'⟩ := denote_spatial ho h₂
  have key : ∀ tol : ℝ, spatial_is_antiparallel.eval v.ty.az (lonOf v) o.ty.az (lonOf o) tol (c3 v).1 (c3 v).2.1 (c3 v).2.2
      (c3 o).1 (c3 o).2.1 (c3 o).2.2 ↔ (x₁ * x₂ + y₁ * y₂ + z₁ * z₂) < (|tol| - 1) * sqrt (x₁ ^ 2 + y₁ ^ 2 + z₁ ^ 2) * sqrt (x₂ ^ 2 + y₂ ^ 2 + z₂ ^ 2) := by
    intro tol
    rw [c13_spatial_is_antiparallel_iff, refine_spatial_dot _ _ _ _ _ _ _ _ _ _ hc.2.1 hc'.2.1,
      refine_spatial_mag _ _ _ _ _ hc.1 hc.2.2, refine_spatial_mag _ _ _ _ _ hc'.1 hc'.2.2, hx, hy, hz, hx', hy', hz']
    rfl
  have hm : Bin.sameDimMod .is_antiparallel v.ty.dim = some .spatial_is_antiparallel := by
    have : v.ty.dim ≤ 4 := by unfold VT.dim; split <;> split <;> simp
    have h34 : v.ty.dim = 3 ∨ v.ty.dim = 4 := by omega
    rcases h34 with h | h <;> rw [h] <;> rfl
  refine ⟨⟨_, ?_, key K.tol⟩, fun tol => ⟨_, ?_, key tol⟩⟩
  · rw [(call_is_antiparallel evR K A v o 0).1, if_neg (by simp [hdim]), hm]
    exact is_antiparallel_raw3 K.tol v o hv ho hd hd'
  · rw [(call_is_antiparallel evR K A v o tol).2, if_neg (by simp [hdim]), hm]
    exact is_antiparallel_raw3 tol v o hv ho hd hd'

theorem call_is_perpendicular {S B : Type} (ev : Ev S B) (K : Consts S) (A : Arith S) (v o : Vec S) (t : S) :
    (call ev K A "is_perpendicular" v [.v o] =
      if o.ty.dim != v.ty.dim then .error .typeError else
      match Bin.sameDimMod .is_perpendicular v.ty.dim with
      | some m => dispatch ev m [K.tol] none [v, o] [v, o]
      | none => .error .assertionError) ∧
    (call ev K A "is_perpendicular" v [.v o, .sc t] =
      if o.ty.dim != v.ty.dim then .error .typeError else
      match Bin.sameDimMod .is_perpendicular v.ty.dim with
      | some m => dispatch ev m [t] none [v, o] [v, o]
      | none => .error .assertionError) := ⟨rfl, rfl⟩

theorem is_perpendicular_raw2 (tol : ℝ) (v o : Vec ℝ) (hv : C01M.WFV v) (ho : C01M.WFV o) (hd : v.ty.dim = 2) (hd' : o.ty.dim = 2) :
    dispatch evR .planar_is_perpendicular [tol] none [v, o] [v, o] =
      .ok (.truth (planar_is_perpendicular.eval v.ty.az o.ty.az tol (c3 v).1 (c3 v).2.1 (c3 o).1 (c3 o).2.1)) := by
  apply dispatch2_truth
  obtain ⟨be, mom, az, a, b, rfl⟩ := wfv_cases2 hv hd
  obtain ⟨be', mom', az', a', b', rfl⟩ := wfv_cases2 ho hd'
  cases az <;> cases az' <;> rfl

theorem is_perpendicular_raw3 (tol : ℝ) (v o : Vec ℝ) (hv : C01M.WFV v) (ho : C01M.WFV o) (hd : 3 ≤ v.ty.dim)
    (hd' : 3 ≤ o.ty.dim) :
    dispatch evR .spatial_is_perpendicular [tol] none [v, o] [v, o] =
      .ok (.truth (spatial_is_perpendicular.eval v.ty.az (lonOf v) o.ty.az (lonOf o) tol (c3 v).1 (c3 v).2.1 (c3 v).2.2
        (c3 o).1 (c3 o).2.1 (c3 o).2.2)) := by
  apply dispatch2_truth
  rcases wfv_cases3 hv hd with ⟨be, mom, az, l, a, b, c, rfl⟩ | ⟨be, mom, az, l, t, a, b, c, d, rfl⟩ <;>
  rcases wfv_cases3 ho hd' with ⟨be', mom', az', l', a', b', c', rfl⟩ | ⟨be', mom', az', l', t', a', b', c', d', rfl⟩ <;>
  cases az <;> cases l <;> cases az' <;> cases l' <;> rfl

/-- **is_perpendicular on 2D operands, every storage pairing** (default tolerance `1e-5` = `K.tol`, or explicit): `.truth` of the
documented test on the DENOTED points -/
theorem c04m_is_perpendicular_2D (K : Consts ℝ) (A : Arith ℝ) (v o : Vec ℝ) (hv : C01M.WFV v) (ho : C01M.WFV o)
    (hd : v.ty.dim = 2) (hd' : o.ty.dim = 2) (hc : Stored2 Canon2 v) (hc' : Stored2 Canon2 o)
    (x₁ y₁ x₂ y₂ : ℝ) (h₁ : denote v = some [x₁, y₁]) (h₂ : denote o = some [x₂, y₂]) :
    (∃ p : Prop, call evR K A "is_perpendicular" v [.v o] = .ok (.truth p) ∧
      (p ↔ let tol := K.tol; |(x₁ * x₂ + y₁ * y₂)| < |tol| * sqrt (x₁ ^ 2 + y₁ ^ 2) * sqrt (x₂ ^ 2 + y₂ ^ 2))) ∧
    ∀ tol : ℝ, ∃ p : Prop, call evR K A "is_perpendicular" v [.v o, .sc tol] = .ok (.truth p) ∧
      (p ↔ |(x₁ * x₂ + y₁ * y₂)| < |tol| * sqrt (x₁ ^ 2 + y₁ ^ 2) * sqrt (x₂ ^ 2 + y₂ ^ 2)) := by
  have key : ∀ tol : ℝ, planar_is_perpendicular.eval v.ty.az o.ty.az tol (c3 v).1 (c3 v).2.1 (c3 o).1 (c3 o).2.1 ↔
      |(x₁ * x₂ + y₁ * y₂)| < |tol| * sqrt (x₁ ^ 2 + y₁ ^ 2) * sqrt (x₂ ^ 2 + y₂ ^ 2) := by
    intro tol
    rw [c13_planar_is_perpendicular_iff, refine_planar_dot, planar_rho_denote hc, planar_rho_denote hc',
      (denote_planar hv h₁).1, (denote_planar hv h₁).2, (denote_planar ho h₂).1, (denote_planar ho h₂).2]
    rfl
  refine ⟨⟨_, ?_, key K.tol⟩, fun tol => ⟨_, ?_, key tol⟩⟩
  · rw [(call_is_perpendicular evR K A v o 0).1, if_neg (by simp [hd, hd']), hd]
    exact is_perpendicular_raw2 K.tol v o hv ho hd hd'
  · rw [(call_is_perpendicular evR K A v o tol).2, if_neg (by simp [hd, hd']), hd]
    exact is_perpendicular_raw2 tol v o hv ho hd hd'

/-- **is_perpendicular on 3D–3D and 4D–4D operands, every storage pairing**: the spatial modules on the spatial parts (a stored
t/τ is ignored): `.truth` of the documented test on the DENOTED spatial parts -/
theorem c04m_is_perpendicular_3D (K : Consts ℝ) (A : Arith ℝ) (v o : Vec ℝ) (hv : C01M.WFV v) (ho : C01M.WFV o)
    (hdim : o.ty.dim = v.ty.dim) (hc : PredOKV v) (hc' : PredOKV o)
    (x₁ y₁ z₁ x₂ y₂ z₂ : ℝ) (r₁ r₂ : List ℝ)
    (h₁ : denote v = some (x₁ :: y₁ :: z₁ :: r₁)) (h₂ : denote o = some (x₂ :: y₂ :: z₂ :: r₂)) :
    (∃ p : Prop, call evR K A "is_perpendicular" v [.v o] = .ok (.truth p) ∧
      (p ↔ let tol := K.tol; |(x₁ * x₂ + y₁ * y₂ + z₁ * z₂)| < |tol| * sqrt (x₁ ^ 2 + y₁ ^ 2 + z₁ ^ 2) * sqrt (x₂ ^ 2 + y₂ ^ 2 + z₂ ^ 2))) ∧
    ∀ tol : ℝ, ∃ p : Prop, call evR K A "is_perpendicular" v [.v o, .sc tol] = .ok (.truth p) ∧
      (p ↔ |(x₁ * x₂ + y₁ * y₂ + z₁ * z₂)| < |tol| * sqrt (x₁ ^ 2 + y₁ ^ 2 + z₁ ^ 2) * sqrt (x₂ ^ 2 + y₂ ^ 2 + z₂ ^ 2)) := by
  obtain ⟨hd, hx, hy, hz⟩ := denote_spatial hv h₁
  obtain ⟨hd', hx', hy', hz'⟩ := denote_spatial ho h₂
  have key : ∀ tol : ℝ, spatial_is_perpendicular.eval v.ty.az (lonOf v) o.ty.az (lonOf o) tol (c3 v).1 (c3 v).2.1 (c3 v).2.2
      (c3 o).1 (c3 o).2.1 (c3 o).2.2 ↔ |(x₁ * x₂ + y₁ * y₂ + z₁ * z₂)| < |tol| * sqrt (x₁ ^ 2 + y₁ ^ 2 + z₁ ^ 2) * sqrt (x₂ ^ 2 + y₂ ^ 2 + z₂ ^ 2) := by
    intro tol
    rw [c13_spatial_is_perpendicular_iff, refine_spatial_dot _ _ _ _ _ _ _ _ _ _ hc.2.1 hc'.2.1,
      refine_spatial_mag _ _ _ _ _ hc.1 hc.2.2, refine_spatial_mag _ _ _ _ _ hc'.1 hc'.2.2, hx, hy, hz, hx', hy', hz']
    rfl
  have hm : Bin.sameDimMod .is_perpendicular v.ty.dim = some .spatial_is_perpendicular := by
    have : v.ty.dim ≤ 4 := by unfold VT.dim; split <;> split <;> simp
    have h34 : v.ty.dim = 3 ∨ v.ty.dim = 4 := by omega
    rcases h34 with h | h <;> rw [h] <;> rfl
  refine ⟨⟨_, ?_, key K.tol⟩, fun tol => ⟨_, ?_, key tol⟩⟩
  · rw [(call_is_perpendicular evR K A v o 0).1, if_neg (by simp [hdim]), hm]
    exact is_perpendicular_raw3 K.tol v o hv ho hd hd'
  · rw [(call_is_perpendicular evR K A v o tol).2, if_neg (by simp [hdim]), hm]
    exact is_perpendicular_raw3 tol v o hv ho hd hd'

/-- operands of different dimensions are rejected by all three predicates (any scalar type / compute layer) -/
theorem c04m_pred_guards {S B : Type} (ev : Ev S B) (K : Consts S) (A : Arith S) (v o : Vec S) (h : o.ty.dim ≠ v.ty.dim) :
    call ev K A "is_parallel" v [.v o] = .error .typeError ∧ call ev K A "is_antiparallel" v [.v o] = .error .typeError ∧
    call ev K A "is_perpendicular" v [.v o] = .error .typeError := by
  rw [(call_is_parallel ev K A v o K.tol).1, (call_is_antiparallel ev K A v o K.tol).1,
    (call_is_perpendicular ev K A v o K.tol).1]
  simp [h]

/-- the three tests above ARE the documented cosine tests: for operands of non-zero length `m₁, m₂` and scalar product `d`,
`cos∠ = d / (m₁ m₂)`; `is_parallel ⇔ cos∠ > 1 − |tol|`, `is_antiparallel ⇔ cos∠ < |tol| − 1`, `is_perpendicular ⇔ |cos∠| < |tol|`
(the product form used in the theorems is also meaningful for zero-length operands, where every test is `False`) -/
theorem c04m_cosine_form (d tol m₁ m₂ : ℝ) (h₁ : 0 < m₁) (h₂ : 0 < m₂) :
    (d > (1 - |tol|) * m₁ * m₂ ↔ d / (m₁ * m₂) > 1 - |tol|) ∧
    (d < (|tol| - 1) * m₁ * m₂ ↔ d / (m₁ * m₂) < |tol| - 1) ∧
    (|d| < |tol| * m₁ * m₂ ↔ |d / (m₁ * m₂)| < |tol|) := by
  have hm : 0 < m₁ * m₂ := mul_pos h₁ h₂
  refine ⟨?_, ?_, ?_⟩
  · rw [gt_iff_lt, gt_iff_lt, lt_div_iff₀ hm, mul_assoc]
  · rw [div_lt_iff₀ hm, mul_assoc]
  · rw [abs_div, abs_of_pos hm, div_lt_iff₀ hm, mul_assoc]

/-- for zero-length operands all three tests are `False` (strict inequalities against `0`) -/
example (tol : ℝ) : ¬ ((0 : ℝ) > (1 - |tol|) * 0 * 0) ∧ ¬ ((0 : ℝ) < (|tol| - 1) * 0 * 0) ∧ ¬ (|(0 : ℝ)| < |tol| * 0 * 0) := by
  simp

/-! ### a limit of the representation: `t < 0` does not survive a round trip through `tau` -/

/-- `Vector4D(x=0, y=0, z=0, t=-2).to_xyztau().to_xyzt()` has `t = +2`: the τ representation (`t = √(τ² + |p|²)`) cannot
hold a negative time component; this is why `c04m_roundtrip` asks `0 ≤ t` (and `|p|² ≤ t²`) for t → τ → t -/
theorem c04m_roundtrip_negative_t (K : Consts ℝ) (A : Arith ℝ) :
    ∃ w, call evR K A "to_xyztau" ⟨⟨.obj, false, .xy, some .z, some .t⟩, [0, 0, 0, -2]⟩ [] = .ok (.vec w) ∧
      call evR K A "to_xyzt" w [] = .ok (.vec ⟨⟨.obj, false, .xy, some .z, some .t⟩, [0, 0, 0, 2]⟩) := by
  have e1 : convTmp .xy .z .t .tau 0 0 0 (-2) = 2 := by
    show lorentz_tau.eval .xy .z .t 0 0 0 (-2) = 2
    rw [refine_lorentz_tau .xy .z .t 0 0 0 (-2) trivial trivial]
    have : tOf .xy .z .t 0 0 0 (-2) ^ 2 - mag2Of .xy .z 0 0 0 = 2 ^ 2 := by
      simp only [tOf, mag2Of, xOf, yOf, zOf]; norm_num
    rw [this, Real.sign_of_pos (by norm_num), abs_of_pos (by norm_num), sqrt_sq (by norm_num)]; ring
  have e2 : convTmp .xy .z .tau .t 0 0 0 2 = 2 := by
    show lorentz_t.eval .xy .z .tau 0 0 0 2 = 2
    rw [refine_lorentz_t .xy .z .tau 0 0 0 2 trivial (by show (0 : ℝ) ≤ 2; norm_num)]
    simp only [tOf, mag2Of, xOf, yOf, zOf]
    rw [show (2 : ℝ) ^ 2 + (0 ^ 2 + 0 ^ 2 + 0 ^ 2) = 2 ^ 2 by norm_num, sqrt_sq (by norm_num)]
  refine ⟨⟨⟨.obj, false, .xy, some .z, some .tau⟩, [0, 0, 0, 2]⟩, ?_, ?_⟩
  · rw [c04_call_to evR K A "to_xyztau" _ ("to_xyztau", .xy, some .z, some .tau, "z", "tau")
        (toTable_find ("to_xyztau", .xy, some .z, some .tau, "z", "tau") (by decide)),
      toSystem_eval4, e1]
    rfl
  · rw [c04_call_to evR K A "to_xyzt" _ ("to_xyzt", .xy, some .z, some .t, "z", "t")
        (toTable_find ("to_xyzt", .xy, some .z, some .t, "z", "t") (by decide)),
      toSystem_eval4, e2]
    rfl

/-! ### non-vacuity of the hypotheses of Part B -/

/-- a 4D vector stored as (ρ, φ, θ, τ) satisfies every hypothesis used in Part B -/
example : let v : Vec ℝ := ⟨⟨.obj, true, .rhophi, some .theta, some .tau⟩, [2, 1, 1, 3]⟩
    C01M.WFV v ∧ EtaOKV v ∧ AngleOKV v ∧ PredOKV v ∧ Stored2 (fun k a b => 0 < rhoOf k a b) v ∧ Stored2 Canon2 v := by
  intro v
  have hr : 0 < rhoOf .rhophi 2 1 := by norm_num [rhoOf]
  have hpi : (1 : ℝ) < π := by linarith [two_le_pi]
  have hs : sin (1 : ℝ) ≠ 0 := (sin_pos_of_pos_of_lt_pi one_pos hpi).ne'
  have hA : AngleOKV v := ⟨hr.le, ne_of_gt cos_one_pos, hs⟩
  exact ⟨⟨by simp [v], rfl⟩, ⟨hr, hr, one_pos, hpi⟩, hA, hA, hr, hr.le⟩

/-- `Vector2D(x=1, y=0).is_perpendicular(Vector2D(rho=2, phi=π/2), 0.5)` is `True`, `is_parallel` is `False` -/
example (K : Consts ℝ) (A : Arith ℝ) :
    let v : Vec ℝ := ⟨⟨.obj, false, .xy, none, none⟩, [1, 0]⟩
    let o : Vec ℝ := ⟨⟨.obj, false, .rhophi, none, none⟩, [2, π / 2]⟩
    (∃ p : Prop, call evR K A "is_perpendicular" v [.v o, .sc 0.5] = .ok (.truth p) ∧ p) ∧
    (∃ p : Prop, call evR K A "is_parallel" v [.v o, .sc 0.5] = .ok (.truth p) ∧ ¬ p) := by
  intro v o
  have hv : C01M.WFV v := ⟨by simp [v], rfl⟩
  have ho : C01M.WFV o := ⟨by simp [o], rfl⟩
  have h₁ : denote v = some [1, 0] := rfl
  have h₂ : denote o = some [0, 2] := by
    simp only [o, denote, xOf, yOf, cos_pi_div_two, sin_pi_div_two, mul_zero, mul_one]
  have hc' : Stored2 Canon2 o := by show (0 : ℝ) ≤ 2; norm_num
  have e1 : sqrt ((1 : ℝ) ^ 2 + 0 ^ 2) = 1 := by norm_num
  have e2 : sqrt ((0 : ℝ) ^ 2 + 2 ^ 2) = 2 := by
    rw [show (0 : ℝ) ^ 2 + 2 ^ 2 = 2 ^ 2 by norm_num, sqrt_sq (by norm_num)]
  constructor
  · obtain ⟨p, hp, hiff⟩ := (c04m_is_perpendicular_2D K A v o hv ho rfl rfl trivial hc' 1 0 0 2 h₁ h₂).2 0.5
    refine ⟨p, hp, hiff.mpr ?_⟩
    rw [e1, e2]; norm_num [abs_of_pos]
  · obtain ⟨p, hp, hiff⟩ := (c04m_is_parallel_2D K A v o hv ho rfl rfl trivial hc' 1 0 0 2 h₁ h₂).2 0.5
    refine ⟨p, hp, fun h => ?_⟩
    have := hiff.mp h
    rw [e1, e2] at this; norm_num [abs_of_pos] at this

end C04M
end VR
