/-
C11 — vector-space laws, for ALL signature combinations (every pairing of coordinate systems of the operands).

The laws are stated about the generated model through `eval`, at the level of DENOTATIONS: the raw result of a
vector-valued operation is interpreted through its declared result type (`interp2/3/4 (ret k…)`); when a result is fed
to a further operation it is fed as stored, under the coordinate-system key its declared result type names
(`azOfRet / lonOfRet / tmpOfRet (ret k…)`).  Each law is a corollary of the refinement theorems
(`VectorModel/Refine/*.lean`: every variant computes `Spec.op` of the denotations of its operands) and of the same
law of arithmetic on ℝ², ℝ³, ℝ⁴ (`add2_comm`, … proved here by `ring`).

Hypotheses = the hypotheses of the refinement theorems, for every operation application that occurs in the law
(bundled as `AddOK3`, `SubOK3`, `Arg4`, …): `TanOK` (`cos θ ≠ 0`), `SinOK` (`sin θ ≠ 0`), `CanonTmp` (`0 ≤ τ`),
`ThetaRange` (`0 ≤ θ ≤ π`), and the exact result representable in the declared result system (`Representable3`).
No hypotheses at all are needed in 2D.

4D `scale` of a τ-stored vector is a law only for factors `0 ≤ f` (the code stores `τ·f`; see
`Findings/C01.lean`, `refine_lorentz_scale_defect`), so the 4D scaling laws carry `k = τ → 0 ≤ f` and are named `…_partial`.
-/
import VectorModel.Refine.Planar
import VectorModel.Refine.SpatialZ
import VectorModel.Refine.SpatialAcc
import VectorModel.Refine.SpatialBin
import VectorModel.Refine.LorentzAcc
import VectorModel.Refine.LorentzBin
import Mathlib.Tactic.Ring
import Mathlib.Tactic.Linarith
import Mathlib.Tactic.FieldSimp
import Mathlib.Tactic.Positivity

namespace VR
open VK Spec Real

/-! ## arithmetic on ℝ², ℝ³, ℝ⁴ (the specification operations of `Spec/Basic.lean`) -/
namespace Spec

theorem add2_comm (p q : ℝ × ℝ) : add2 p q = add2 q p := by
  simp only [add2, Prod.mk.injEq]; exact ⟨by ring, by ring⟩
theorem add2_assoc (p q r : ℝ × ℝ) : add2 (add2 p q) r = add2 p (add2 q r) := by
  simp only [add2, Prod.mk.injEq]; exact ⟨by ring, by ring⟩
theorem sub2_add2_cancel (p q : ℝ × ℝ) : sub2 (add2 p q) q = p := by
  simp only [add2, sub2]; exact Prod.ext (by simp) (by simp)
theorem add2_sub2_cancel (p q : ℝ × ℝ) : add2 (sub2 p q) q = p := by
  simp only [add2, sub2]; exact Prod.ext (by simp) (by simp)
theorem sub2_eq_add2_neg (p q : ℝ × ℝ) : sub2 p q = add2 p (smul2 (-1) q) := by
  simp only [add2, sub2, smul2, Prod.mk.injEq]; exact ⟨by ring, by ring⟩
theorem smul2_add2 (f : ℝ) (p q : ℝ × ℝ) : smul2 f (add2 p q) = add2 (smul2 f p) (smul2 f q) := by
  simp only [add2, smul2, Prod.mk.injEq]; exact ⟨by ring, by ring⟩
theorem add_smul2 (f g : ℝ) (p : ℝ × ℝ) : smul2 (f + g) p = add2 (smul2 f p) (smul2 g p) := by
  simp only [add2, smul2, Prod.mk.injEq]; exact ⟨by ring, by ring⟩
theorem smul2_smul2 (f g : ℝ) (p : ℝ × ℝ) : smul2 f (smul2 g p) = smul2 (f * g) p := by
  simp only [smul2, Prod.mk.injEq]; exact ⟨by ring, by ring⟩
theorem one_smul2 (p : ℝ × ℝ) : smul2 1 p = p := by
  simp only [smul2]; exact Prod.ext (by simp) (by simp)
theorem neg_one_smul2 (p : ℝ × ℝ) : smul2 (-1) p = (-p.1, -p.2) := by
  simp only [smul2, Prod.mk.injEq]; exact ⟨by ring, by ring⟩
theorem dot2_comm (p q : ℝ × ℝ) : dot2 p q = dot2 q p := by simp only [dot2]; ring
theorem dot2_add2_left (p q r : ℝ × ℝ) : dot2 (add2 p q) r = dot2 p r + dot2 q r := by simp only [dot2, add2]; ring
theorem dot2_smul2_left (f : ℝ) (p q : ℝ × ℝ) : dot2 (smul2 f p) q = f * dot2 p q := by simp only [dot2, smul2]; ring

theorem add3_comm (p q : ℝ × ℝ × ℝ) : add3 p q = add3 q p := by
  simp only [add3, Prod.mk.injEq]; exact ⟨by ring, by ring, by ring⟩
theorem add3_assoc (p q r : ℝ × ℝ × ℝ) : add3 (add3 p q) r = add3 p (add3 q r) := by
  simp only [add3, Prod.mk.injEq]; exact ⟨by ring, by ring, by ring⟩
theorem sub3_add3_cancel (p q : ℝ × ℝ × ℝ) : sub3 (add3 p q) q = p := by
  simp only [add3, sub3]; exact Prod.ext (by simp) (Prod.ext (by simp) (by simp))
theorem add3_sub3_cancel (p q : ℝ × ℝ × ℝ) : add3 (sub3 p q) q = p := by
  simp only [add3, sub3]; exact Prod.ext (by simp) (Prod.ext (by simp) (by simp))
theorem sub3_eq_add3_neg (p q : ℝ × ℝ × ℝ) : sub3 p q = add3 p (smul3 (-1) q) := by
  simp only [add3, sub3, smul3, Prod.mk.injEq]; exact ⟨by ring, by ring, by ring⟩
theorem smul3_add3 (f : ℝ) (p q : ℝ × ℝ × ℝ) : smul3 f (add3 p q) = add3 (smul3 f p) (smul3 f q) := by
  simp only [add3, smul3, Prod.mk.injEq]; exact ⟨by ring, by ring, by ring⟩
theorem add_smul3 (f g : ℝ) (p : ℝ × ℝ × ℝ) : smul3 (f + g) p = add3 (smul3 f p) (smul3 g p) := by
  simp only [add3, smul3, Prod.mk.injEq]; exact ⟨by ring, by ring, by ring⟩
theorem smul3_smul3 (f g : ℝ) (p : ℝ × ℝ × ℝ) : smul3 f (smul3 g p) = smul3 (f * g) p := by
  simp only [smul3, Prod.mk.injEq]; exact ⟨by ring, by ring, by ring⟩
theorem one_smul3 (p : ℝ × ℝ × ℝ) : smul3 1 p = p := by
  simp only [smul3]; exact Prod.ext (by simp) (Prod.ext (by simp) (by simp))
theorem neg_one_smul3 (p : ℝ × ℝ × ℝ) : smul3 (-1) p = (-p.1, -p.2.1, -p.2.2) := by
  simp only [smul3, Prod.mk.injEq]; exact ⟨by ring, by ring, by ring⟩
theorem dot3_comm (p q : ℝ × ℝ × ℝ) : dot3 p q = dot3 q p := by simp only [dot3]; ring
theorem dot3_add3_left (p q r : ℝ × ℝ × ℝ) : dot3 (add3 p q) r = dot3 p r + dot3 q r := by
  simp only [dot3, add3]; ring
theorem dot3_smul3_left (f : ℝ) (p q : ℝ × ℝ × ℝ) : dot3 (smul3 f p) q = f * dot3 p q := by
  simp only [dot3, smul3]; ring
theorem cross3_anticomm (p q : ℝ × ℝ × ℝ) : cross3 p q = smul3 (-1) (cross3 q p) := by
  simp only [cross3, smul3, Prod.mk.injEq]; exact ⟨by ring, by ring, by ring⟩
theorem cross3_self (p : ℝ × ℝ × ℝ) : cross3 p p = (0, 0, 0) := by
  simp only [cross3, Prod.mk.injEq]; exact ⟨by ring, by ring, by ring⟩
theorem cross3_add3_left (p q r : ℝ × ℝ × ℝ) : cross3 (add3 p q) r = add3 (cross3 p r) (cross3 q r) := by
  simp only [cross3, add3, Prod.mk.injEq]; exact ⟨by ring, by ring, by ring⟩
theorem cross3_add3_right (p q r : ℝ × ℝ × ℝ) : cross3 p (add3 q r) = add3 (cross3 p q) (cross3 p r) := by
  simp only [cross3, add3, Prod.mk.injEq]; exact ⟨by ring, by ring, by ring⟩
theorem cross3_smul3_left (f : ℝ) (p q : ℝ × ℝ × ℝ) : cross3 (smul3 f p) q = smul3 f (cross3 p q) := by
  simp only [cross3, smul3, Prod.mk.injEq]; exact ⟨by ring, by ring, by ring⟩
theorem cross3_smul3_right (f : ℝ) (p q : ℝ × ℝ × ℝ) : cross3 p (smul3 f q) = smul3 f (cross3 p q) := by
  simp only [cross3, smul3, Prod.mk.injEq]; exact ⟨by ring, by ring, by ring⟩
theorem dot3_cross3_left (p q : ℝ × ℝ × ℝ) : dot3 (cross3 p q) p = 0 := by simp only [dot3, cross3]; ring
theorem dot3_cross3_right (p q : ℝ × ℝ × ℝ) : dot3 (cross3 p q) q = 0 := by simp only [dot3, cross3]; ring
/-- Lagrange's identity `|p × q|² = |p|² |q|² − (p·q)²` -/
theorem lagrange3 (p q : ℝ × ℝ × ℝ) :
    dot3 (cross3 p q) (cross3 p q) = dot3 p p * dot3 q q - dot3 p q ^ 2 := by
  simp only [dot3, cross3]; ring

theorem add4_comm (p q : ℝ × ℝ × ℝ × ℝ) : add4 p q = add4 q p := by
  simp only [add4, Prod.mk.injEq]; exact ⟨by ring, by ring, by ring, by ring⟩
theorem add4_assoc (p q r : ℝ × ℝ × ℝ × ℝ) : add4 (add4 p q) r = add4 p (add4 q r) := by
  simp only [add4, Prod.mk.injEq]; exact ⟨by ring, by ring, by ring, by ring⟩
theorem sub4_add4_cancel (p q : ℝ × ℝ × ℝ × ℝ) : sub4 (add4 p q) q = p := by
  simp only [add4, sub4]; exact Prod.ext (by simp) (Prod.ext (by simp) (Prod.ext (by simp) (by simp)))
theorem sub4_eq_add4_neg (p q : ℝ × ℝ × ℝ × ℝ) : sub4 p q = add4 p (smul4 (-1) q) := by
  simp only [add4, sub4, smul4, Prod.mk.injEq]; exact ⟨by ring, by ring, by ring, by ring⟩
theorem smul4_add4 (f : ℝ) (p q : ℝ × ℝ × ℝ × ℝ) : smul4 f (add4 p q) = add4 (smul4 f p) (smul4 f q) := by
  simp only [add4, smul4, Prod.mk.injEq]; exact ⟨by ring, by ring, by ring, by ring⟩
theorem add_smul4 (f g : ℝ) (p : ℝ × ℝ × ℝ × ℝ) : smul4 (f + g) p = add4 (smul4 f p) (smul4 g p) := by
  simp only [add4, smul4, Prod.mk.injEq]; exact ⟨by ring, by ring, by ring, by ring⟩
theorem smul4_smul4 (f g : ℝ) (p : ℝ × ℝ × ℝ × ℝ) : smul4 f (smul4 g p) = smul4 (f * g) p := by
  simp only [smul4, Prod.mk.injEq]; exact ⟨by ring, by ring, by ring, by ring⟩
theorem one_smul4 (p : ℝ × ℝ × ℝ × ℝ) : smul4 1 p = p := by
  simp only [smul4]; exact Prod.ext (by simp) (Prod.ext (by simp) (Prod.ext (by simp) (by simp)))
theorem neg_one_smul4 (p : ℝ × ℝ × ℝ × ℝ) : smul4 (-1) p = (-p.1, -p.2.1, -p.2.2.1, -p.2.2.2) := by
  simp only [smul4, Prod.mk.injEq]; exact ⟨by ring, by ring, by ring, by ring⟩
theorem mdot_comm (p q : ℝ × ℝ × ℝ × ℝ) : mdot p q = mdot q p := by simp only [mdot]; ring
theorem mdot_add4_left (p q r : ℝ × ℝ × ℝ × ℝ) : mdot (add4 p q) r = mdot p r + mdot q r := by
  simp only [mdot, add4]; ring
theorem mdot_smul4_left (f : ℝ) (p q : ℝ × ℝ × ℝ × ℝ) : mdot (smul4 f p) q = f * mdot p q := by
  simp only [mdot, smul4]; ring

end Spec

/-! ## the system in which a raw result is stored, and its denotation -/

/-- declared temporal system of a result type (`azOfRet`, `lonOfRet` are in `Refine/LorentzBin.lean`) -/
def tmpOfRet (r : Ret) : Tmp := (retTmp r).getD .t

theorem cart2_of_interp2 {r : Ret} {v p : ℝ × ℝ} (h : interp2 r v = some p) : cart2 (azOfRet r) v.1 v.2 = p := by
  unfold interp2 at h
  unfold azOfRet
  cases hr : retAz r <;> rw [hr] at h <;> simp at h ⊢
  exact h

theorem cart3_of_interp3 {r : Ret} {v p : ℝ × ℝ × ℝ} (h : interp3 r v = some p) :
    cart3 (azOfRet r) (lonOfRet r) v.1 v.2.1 v.2.2 = p := by
  unfold interp3 at h
  unfold azOfRet lonOfRet
  cases hr : retAz r <;> cases hl : retLon r <;> rw [hr, hl] at h <;> simp at h ⊢
  exact h

theorem cart4_of_interp4 {r : Ret} {v p : ℝ × ℝ × ℝ × ℝ} (h : interp4 r v = some p) :
    cart4 (azOfRet r) (lonOfRet r) (tmpOfRet r) v.1 v.2.1 v.2.2.1 v.2.2.2 = p := by
  unfold interp4 at h
  unfold azOfRet lonOfRet tmpOfRet
  cases hr : retAz r <;> cases hl : retLon r <;> cases ht : retTmp r <;> rw [hr, hl, ht] at h <;> simp at h ⊢
  exact h

/-! ## 2D (no hypotheses except for `unit`) -/

theorem c11_planar_add_comm (k0 k1 : Az) (a0 a1 b0 b1 : ℝ) :
    interp2 (planar_add.ret k0 k1) (planar_add.eval k0 k1 a0 a1 b0 b1)
      = interp2 (planar_add.ret k1 k0) (planar_add.eval k1 k0 b0 b1 a0 a1) := by
  rw [refine_planar_add, refine_planar_add, add2_comm]

theorem c11_planar_add_assoc (k0 k1 k2 : Az) (a0 a1 b0 b1 c0 c1 : ℝ) :
    let ab := planar_add.eval k0 k1 a0 a1 b0 b1
    let kab := azOfRet (planar_add.ret k0 k1)
    let bc := planar_add.eval k1 k2 b0 b1 c0 c1
    let kbc := azOfRet (planar_add.ret k1 k2)
    interp2 (planar_add.ret kab k2) (planar_add.eval kab k2 ab.1 ab.2 c0 c1)
      = interp2 (planar_add.ret k0 kbc) (planar_add.eval k0 kbc a0 a1 bc.1 bc.2) := by
  intro ab kab bc kbc
  have e1 : cart2 kab ab.1 ab.2 = _ := cart2_of_interp2 (refine_planar_add k0 k1 a0 a1 b0 b1)
  have e2 : cart2 kbc bc.1 bc.2 = _ := cart2_of_interp2 (refine_planar_add k1 k2 b0 b1 c0 c1)
  rw [refine_planar_add, refine_planar_add, e1, e2, add2_assoc]

/-- `subtract` inverts `add`: `(a + b) − b = a` -/
theorem c11_planar_add_sub_cancel (k0 k1 : Az) (a0 a1 b0 b1 : ℝ) :
    let ab := planar_add.eval k0 k1 a0 a1 b0 b1
    let kab := azOfRet (planar_add.ret k0 k1)
    interp2 (planar_subtract.ret kab k1) (planar_subtract.eval kab k1 ab.1 ab.2 b0 b1) = some (cart2 k0 a0 a1) := by
  intro ab kab
  have e1 : cart2 kab ab.1 ab.2 = _ := cart2_of_interp2 (refine_planar_add k0 k1 a0 a1 b0 b1)
  rw [refine_planar_subtract, e1, sub2_add2_cancel]

/-- `(a − b) + b = a` -/
theorem c11_planar_sub_add_cancel (k0 k1 : Az) (a0 a1 b0 b1 : ℝ) :
    let ab := planar_subtract.eval k0 k1 a0 a1 b0 b1
    let kab := azOfRet (planar_subtract.ret k0 k1)
    interp2 (planar_add.ret kab k1) (planar_add.eval kab k1 ab.1 ab.2 b0 b1) = some (cart2 k0 a0 a1) := by
  intro ab kab
  have e1 : cart2 kab ab.1 ab.2 = _ := cart2_of_interp2 (refine_planar_subtract k0 k1 a0 a1 b0 b1)
  rw [refine_planar_add, e1, add2_sub2_cancel]

/-- `a − b = a + (−1)·b` -/
theorem c11_planar_sub_eq_add_neg (k0 k1 : Az) (a0 a1 b0 b1 : ℝ) :
    let nb := planar_scale.eval k1 (-1) b0 b1
    let knb := azOfRet (planar_scale.ret k1)
    interp2 (planar_subtract.ret k0 k1) (planar_subtract.eval k0 k1 a0 a1 b0 b1)
      = interp2 (planar_add.ret k0 knb) (planar_add.eval k0 knb a0 a1 nb.1 nb.2) := by
  intro nb knb
  have e1 : cart2 knb nb.1 nb.2 = _ := cart2_of_interp2 (refine_planar_scale k1 (-1) b0 b1)
  rw [refine_planar_subtract, refine_planar_add, e1, sub2_eq_add2_neg]

/-- negation is `scale` by `−1`: it denotes `(−x, −y)` -/
theorem c11_planar_neg (k : Az) (a0 a1 : ℝ) :
    interp2 (planar_scale.ret k) (planar_scale.eval k (-1) a0 a1) = some (-xOf k a0 a1, -yOf k a0 a1) := by
  rw [refine_planar_scale, neg_one_smul2]; rfl

/-- `f·(a + b) = f·a + f·b` -/
theorem c11_planar_scale_add (k0 k1 : Az) (f a0 a1 b0 b1 : ℝ) :
    let ab := planar_add.eval k0 k1 a0 a1 b0 b1
    let kab := azOfRet (planar_add.ret k0 k1)
    let fa := planar_scale.eval k0 f a0 a1
    let kfa := azOfRet (planar_scale.ret k0)
    let fb := planar_scale.eval k1 f b0 b1
    let kfb := azOfRet (planar_scale.ret k1)
    interp2 (planar_scale.ret kab) (planar_scale.eval kab f ab.1 ab.2)
      = interp2 (planar_add.ret kfa kfb) (planar_add.eval kfa kfb fa.1 fa.2 fb.1 fb.2) := by
  intro ab kab fa kfa fb kfb
  have e1 : cart2 kab ab.1 ab.2 = _ := cart2_of_interp2 (refine_planar_add k0 k1 a0 a1 b0 b1)
  have e2 : cart2 kfa fa.1 fa.2 = _ := cart2_of_interp2 (refine_planar_scale k0 f a0 a1)
  have e3 : cart2 kfb fb.1 fb.2 = _ := cart2_of_interp2 (refine_planar_scale k1 f b0 b1)
  rw [refine_planar_scale, refine_planar_add, e1, e2, e3, smul2_add2]

/-- `(f + g)·a = f·a + g·a` -/
theorem c11_planar_add_scale (k : Az) (f g a0 a1 : ℝ) :
    let fa := planar_scale.eval k f a0 a1
    let ga := planar_scale.eval k g a0 a1
    let ks := azOfRet (planar_scale.ret k)
    interp2 (planar_scale.ret k) (planar_scale.eval k (f + g) a0 a1)
      = interp2 (planar_add.ret ks ks) (planar_add.eval ks ks fa.1 fa.2 ga.1 ga.2) := by
  intro fa ga ks
  have e2 : cart2 ks fa.1 fa.2 = _ := cart2_of_interp2 (refine_planar_scale k f a0 a1)
  have e3 : cart2 ks ga.1 ga.2 = _ := cart2_of_interp2 (refine_planar_scale k g a0 a1)
  rw [refine_planar_scale, refine_planar_add, e2, e3, add_smul2]

/-- `f·(g·a) = (f g)·a` -/
theorem c11_planar_scale_scale (k : Az) (f g a0 a1 : ℝ) :
    let ga := planar_scale.eval k g a0 a1
    let ks := azOfRet (planar_scale.ret k)
    interp2 (planar_scale.ret ks) (planar_scale.eval ks f ga.1 ga.2)
      = interp2 (planar_scale.ret k) (planar_scale.eval k (f * g) a0 a1) := by
  intro ga ks
  have e : cart2 ks ga.1 ga.2 = _ := cart2_of_interp2 (refine_planar_scale k g a0 a1)
  rw [refine_planar_scale, refine_planar_scale, e, smul2_smul2]

/-- `1·a = a` -/
theorem c11_planar_one_scale (k : Az) (a0 a1 : ℝ) :
    interp2 (planar_scale.ret k) (planar_scale.eval k 1 a0 a1) = some (cart2 k a0 a1) := by
  rw [refine_planar_scale, one_smul2]

theorem c11_planar_dot_comm (k0 k1 : Az) (a0 a1 b0 b1 : ℝ) :
    planar_dot.eval k0 k1 a0 a1 b0 b1 = planar_dot.eval k1 k0 b0 b1 a0 a1 := by
  rw [refine_planar_dot, refine_planar_dot, dot2_comm]

/-- `(a + b)·c = a·c + b·c` -/
theorem c11_planar_dot_add (k0 k1 k2 : Az) (a0 a1 b0 b1 c0 c1 : ℝ) :
    let ab := planar_add.eval k0 k1 a0 a1 b0 b1
    let kab := azOfRet (planar_add.ret k0 k1)
    planar_dot.eval kab k2 ab.1 ab.2 c0 c1
      = planar_dot.eval k0 k2 a0 a1 c0 c1 + planar_dot.eval k1 k2 b0 b1 c0 c1 := by
  intro ab kab
  have e1 : cart2 kab ab.1 ab.2 = _ := cart2_of_interp2 (refine_planar_add k0 k1 a0 a1 b0 b1)
  rw [refine_planar_dot, refine_planar_dot, refine_planar_dot, e1, dot2_add2_left]

/-- `(f·a)·b = f (a·b)` -/
theorem c11_planar_dot_scale (k0 k1 : Az) (f a0 a1 b0 b1 : ℝ) :
    let fa := planar_scale.eval k0 f a0 a1
    let kfa := azOfRet (planar_scale.ret k0)
    planar_dot.eval kfa k1 fa.1 fa.2 b0 b1 = f * planar_dot.eval k0 k1 a0 a1 b0 b1 := by
  intro fa kfa
  have e1 : cart2 kfa fa.1 fa.2 = _ := cart2_of_interp2 (refine_planar_scale k0 f a0 a1)
  rw [refine_planar_dot, refine_planar_dot, e1, dot2_smul2_left]

/-- `a·a = ρ²` -/
theorem c11_planar_dot_self (k : Az) (a0 a1 : ℝ) : planar_dot.eval k k a0 a1 a0 a1 = planar_rho2.eval k a0 a1 := by
  rw [refine_planar_dot, refine_planar_rho2]; simp only [dot2, cart2]; ring

/-- `unit` is parallel to its operand (positive multiple) … -/
theorem c11_planar_unit_parallel (k : Az) (a0 a1 : ℝ) (h : 0 < rhoOf k a0 a1) :
    interp2 (planar_unit.ret k) (planar_unit.eval k a0 a1) = some (smul2 (1 / rhoOf k a0 a1) (cart2 k a0 a1))
      ∧ 0 < 1 / rhoOf k a0 a1 := by
  refine ⟨?_, by positivity⟩
  rw [refine_planar_unit k a0 a1 h]
  simp only [smul2, cart2, Option.some.injEq, Prod.mk.injEq]
  exact ⟨by ring, by ring⟩

/-- … and has norm one: `û·û = 1` -/
theorem c11_planar_unit_norm (k : Az) (a0 a1 : ℝ) (h : 0 < rhoOf k a0 a1) :
    let u := planar_unit.eval k a0 a1
    let ku := azOfRet (planar_unit.ret k)
    planar_dot.eval ku ku u.1 u.2 u.1 u.2 = 1 := by
  intro u ku
  have e : cart2 ku u.1 u.2 = _ := cart2_of_interp2 (c11_planar_unit_parallel k a0 a1 h).1
  have hr := Spec.sq_xOf_add_sq_yOf k a0 a1
  have h0 : rhoOf k a0 a1 ≠ 0 := h.ne'
  rw [refine_planar_dot, e]
  simp only [dot2, smul2, cart2]
  field_simp
  linear_combination hr

example : 0 < rhoOf .rhophi 2 1 := by norm_num [rhoOf]

/-! ## 3D -/

/-- one application of 3D `add` is admissible: `cos θ ≠ 0` for θ-stored operands and the exact sum is representable in the
declared result system (off the z axis when that system has a θ/η coordinate) -/
def AddOK3 (k0 : Az) (k1 : Lon) (k2 : Az) (k3 : Lon) (a0 a1 a2 a3 a4 a5 : ℝ) : Prop :=
  TanOK k1 a2 ∧ TanOK k3 a5 ∧
    Representable3 (spatial_add.ret k0 k1 k2 k3) (add3 (cart3 k0 k1 a0 a1 a2) (cart3 k2 k3 a3 a4 a5))

def SubOK3 (k0 : Az) (k1 : Lon) (k2 : Az) (k3 : Lon) (a0 a1 a2 a3 a4 a5 : ℝ) : Prop :=
  TanOK k1 a2 ∧ TanOK k3 a5 ∧
    Representable3 (spatial_subtract.ret k0 k1 k2 k3) (sub3 (cart3 k0 k1 a0 a1 a2) (cart3 k2 k3 a3 a4 a5))

theorem spatial_add_ok {k0 : Az} {k1 : Lon} {k2 : Az} {k3 : Lon} {a0 a1 a2 a3 a4 a5 : ℝ}
    (h : AddOK3 k0 k1 k2 k3 a0 a1 a2 a3 a4 a5) :
    interp3 (spatial_add.ret k0 k1 k2 k3) (spatial_add.eval k0 k1 k2 k3 a0 a1 a2 a3 a4 a5)
      = some (add3 (cart3 k0 k1 a0 a1 a2) (cart3 k2 k3 a3 a4 a5)) :=
  refine_spatial_add k0 k1 k2 k3 a0 a1 a2 a3 a4 a5 h.1 h.2.1 h.2.2

theorem spatial_sub_ok {k0 : Az} {k1 : Lon} {k2 : Az} {k3 : Lon} {a0 a1 a2 a3 a4 a5 : ℝ}
    (h : SubOK3 k0 k1 k2 k3 a0 a1 a2 a3 a4 a5) :
    interp3 (spatial_subtract.ret k0 k1 k2 k3) (spatial_subtract.eval k0 k1 k2 k3 a0 a1 a2 a3 a4 a5)
      = some (sub3 (cart3 k0 k1 a0 a1 a2) (cart3 k2 k3 a3 a4 a5)) :=
  refine_spatial_subtract k0 k1 k2 k3 a0 a1 a2 a3 a4 a5 h.1 h.2.1 h.2.2

/-- all declared results of `cross` are Cartesian -/
theorem spatial_cross_ret_sys (k0 : Az) (k1 : Lon) (k2 : Az) (k3 : Lon) :
    azOfRet (spatial_cross.ret k0 k1 k2 k3) = .xy ∧ lonOfRet (spatial_cross.ret k0 k1 k2 k3) = .z := by
  cases k0 <;> cases k1 <;> cases k2 <;> cases k3 <;> exact ⟨rfl, rfl⟩

/-- the raw result of `cross` is the Cartesian cross product of the denotations -/
theorem spatial_cross_den (k0 : Az) (k1 : Lon) (k2 : Az) (k3 : Lon) (a0 a1 a2 a3 a4 a5 : ℝ)
    (h1 : TanOK k1 a2) (h2 : TanOK k3 a5) :
    cart3 .xy .z (spatial_cross.eval k0 k1 k2 k3 a0 a1 a2 a3 a4 a5).1 (spatial_cross.eval k0 k1 k2 k3 a0 a1 a2 a3 a4 a5).2.1
        (spatial_cross.eval k0 k1 k2 k3 a0 a1 a2 a3 a4 a5).2.2
      = cross3 (cart3 k0 k1 a0 a1 a2) (cart3 k2 k3 a3 a4 a5) := by
  have e := cart3_of_interp3 (refine_spatial_cross k0 k1 k2 k3 a0 a1 a2 a3 a4 a5 h1 h2)
  rw [(spatial_cross_ret_sys k0 k1 k2 k3).1, (spatial_cross_ret_sys k0 k1 k2 k3).2] at e
  exact e

theorem c11_spatial_add_comm (k0 : Az) (k1 : Lon) (k2 : Az) (k3 : Lon) (a0 a1 a2 b0 b1 b2 : ℝ)
    (h : AddOK3 k0 k1 k2 k3 a0 a1 a2 b0 b1 b2) (h' : AddOK3 k2 k3 k0 k1 b0 b1 b2 a0 a1 a2) :
    interp3 (spatial_add.ret k0 k1 k2 k3) (spatial_add.eval k0 k1 k2 k3 a0 a1 a2 b0 b1 b2)
      = interp3 (spatial_add.ret k2 k3 k0 k1) (spatial_add.eval k2 k3 k0 k1 b0 b1 b2 a0 a1 a2) := by
  rw [spatial_add_ok h, spatial_add_ok h', add3_comm]

theorem c11_spatial_add_assoc (k0 : Az) (k1 : Lon) (k2 : Az) (k3 : Lon) (k4 : Az) (k5 : Lon)
    (a0 a1 a2 b0 b1 b2 c0 c1 c2 : ℝ) :
    let ab := spatial_add.eval k0 k1 k2 k3 a0 a1 a2 b0 b1 b2
    let kab := azOfRet (spatial_add.ret k0 k1 k2 k3)
    let lab := lonOfRet (spatial_add.ret k0 k1 k2 k3)
    let bc := spatial_add.eval k2 k3 k4 k5 b0 b1 b2 c0 c1 c2
    let kbc := azOfRet (spatial_add.ret k2 k3 k4 k5)
    let lbc := lonOfRet (spatial_add.ret k2 k3 k4 k5)
    (h1 : AddOK3 k0 k1 k2 k3 a0 a1 a2 b0 b1 b2) → (h2 : AddOK3 kab lab k4 k5 ab.1 ab.2.1 ab.2.2 c0 c1 c2) →
    (h3 : AddOK3 k2 k3 k4 k5 b0 b1 b2 c0 c1 c2) → (h4 : AddOK3 k0 k1 kbc lbc a0 a1 a2 bc.1 bc.2.1 bc.2.2) →
    interp3 (spatial_add.ret kab lab k4 k5) (spatial_add.eval kab lab k4 k5 ab.1 ab.2.1 ab.2.2 c0 c1 c2)
      = interp3 (spatial_add.ret k0 k1 kbc lbc) (spatial_add.eval k0 k1 kbc lbc a0 a1 a2 bc.1 bc.2.1 bc.2.2) := by
  intro ab kab lab bc kbc lbc h1 h2 h3 h4
  have e1 : cart3 kab lab ab.1 ab.2.1 ab.2.2 = _ := cart3_of_interp3 (spatial_add_ok h1)
  have e3 : cart3 kbc lbc bc.1 bc.2.1 bc.2.2 = _ := cart3_of_interp3 (spatial_add_ok h3)
  rw [spatial_add_ok h2, spatial_add_ok h4, e1, e3, add3_assoc]

/-- `subtract` inverts `add`: `(a + b) − b = a` -/
theorem c11_spatial_add_sub_cancel (k0 : Az) (k1 : Lon) (k2 : Az) (k3 : Lon) (a0 a1 a2 b0 b1 b2 : ℝ) :
    let ab := spatial_add.eval k0 k1 k2 k3 a0 a1 a2 b0 b1 b2
    let kab := azOfRet (spatial_add.ret k0 k1 k2 k3)
    let lab := lonOfRet (spatial_add.ret k0 k1 k2 k3)
    (h1 : AddOK3 k0 k1 k2 k3 a0 a1 a2 b0 b1 b2) → (h2 : SubOK3 kab lab k2 k3 ab.1 ab.2.1 ab.2.2 b0 b1 b2) →
    interp3 (spatial_subtract.ret kab lab k2 k3) (spatial_subtract.eval kab lab k2 k3 ab.1 ab.2.1 ab.2.2 b0 b1 b2)
      = some (cart3 k0 k1 a0 a1 a2) := by
  intro ab kab lab h1 h2
  have e1 : cart3 kab lab ab.1 ab.2.1 ab.2.2 = _ := cart3_of_interp3 (spatial_add_ok h1)
  rw [spatial_sub_ok h2, e1, sub3_add3_cancel]

/-- `(a − b) + b = a` -/
theorem c11_spatial_sub_add_cancel (k0 : Az) (k1 : Lon) (k2 : Az) (k3 : Lon) (a0 a1 a2 b0 b1 b2 : ℝ) :
    let ab := spatial_subtract.eval k0 k1 k2 k3 a0 a1 a2 b0 b1 b2
    let kab := azOfRet (spatial_subtract.ret k0 k1 k2 k3)
    let lab := lonOfRet (spatial_subtract.ret k0 k1 k2 k3)
    (h1 : SubOK3 k0 k1 k2 k3 a0 a1 a2 b0 b1 b2) → (h2 : AddOK3 kab lab k2 k3 ab.1 ab.2.1 ab.2.2 b0 b1 b2) →
    interp3 (spatial_add.ret kab lab k2 k3) (spatial_add.eval kab lab k2 k3 ab.1 ab.2.1 ab.2.2 b0 b1 b2)
      = some (cart3 k0 k1 a0 a1 a2) := by
  intro ab kab lab h1 h2
  have e1 : cart3 kab lab ab.1 ab.2.1 ab.2.2 = _ := cart3_of_interp3 (spatial_sub_ok h1)
  rw [spatial_add_ok h2, e1, add3_sub3_cancel]

/-- negation is `scale` by `−1`: it denotes `(−x, −y, −z)` -/
theorem c11_spatial_neg (k0 : Az) (k1 : Lon) (a0 a1 a2 : ℝ) (h : ThetaRange k1 a2) :
    interp3 (spatial_scale.ret k0 k1) (spatial_scale.eval k0 k1 (-1) a0 a1 a2)
      = some (-xOf k0 a0 a1, -yOf k0 a0 a1, -zOf k0 k1 a0 a1 a2) := by
  rw [refine_spatial_scale k0 k1 (-1) a0 a1 a2 h, neg_one_smul3]; rfl

/-- `a − b = a + (−1)·b` -/
theorem c11_spatial_sub_eq_add_neg (k0 : Az) (k1 : Lon) (k2 : Az) (k3 : Lon) (a0 a1 a2 b0 b1 b2 : ℝ) :
    let nb := spatial_scale.eval k2 k3 (-1) b0 b1 b2
    let knb := azOfRet (spatial_scale.ret k2 k3)
    let lnb := lonOfRet (spatial_scale.ret k2 k3)
    (h1 : SubOK3 k0 k1 k2 k3 a0 a1 a2 b0 b1 b2) → (hb : ThetaRange k3 b2) →
    (h2 : AddOK3 k0 k1 knb lnb a0 a1 a2 nb.1 nb.2.1 nb.2.2) →
    interp3 (spatial_subtract.ret k0 k1 k2 k3) (spatial_subtract.eval k0 k1 k2 k3 a0 a1 a2 b0 b1 b2)
      = interp3 (spatial_add.ret k0 k1 knb lnb) (spatial_add.eval k0 k1 knb lnb a0 a1 a2 nb.1 nb.2.1 nb.2.2) := by
  intro nb knb lnb h1 hb h2
  have e : cart3 knb lnb nb.1 nb.2.1 nb.2.2 = _ := cart3_of_interp3 (refine_spatial_scale k2 k3 (-1) b0 b1 b2 hb)
  rw [spatial_sub_ok h1, spatial_add_ok h2, e, sub3_eq_add3_neg]

/-- `f·(a + b) = f·a + f·b` -/
theorem c11_spatial_scale_add (k0 : Az) (k1 : Lon) (k2 : Az) (k3 : Lon) (f a0 a1 a2 b0 b1 b2 : ℝ) :
    let ab := spatial_add.eval k0 k1 k2 k3 a0 a1 a2 b0 b1 b2
    let kab := azOfRet (spatial_add.ret k0 k1 k2 k3)
    let lab := lonOfRet (spatial_add.ret k0 k1 k2 k3)
    let fa := spatial_scale.eval k0 k1 f a0 a1 a2
    let kfa := azOfRet (spatial_scale.ret k0 k1)
    let lfa := lonOfRet (spatial_scale.ret k0 k1)
    let fb := spatial_scale.eval k2 k3 f b0 b1 b2
    let kfb := azOfRet (spatial_scale.ret k2 k3)
    let lfb := lonOfRet (spatial_scale.ret k2 k3)
    (h1 : AddOK3 k0 k1 k2 k3 a0 a1 a2 b0 b1 b2) → (hab : ThetaRange lab ab.2.2) →
    (ha : ThetaRange k1 a2) → (hb : ThetaRange k3 b2) →
    (h2 : AddOK3 kfa lfa kfb lfb fa.1 fa.2.1 fa.2.2 fb.1 fb.2.1 fb.2.2) →
    interp3 (spatial_scale.ret kab lab) (spatial_scale.eval kab lab f ab.1 ab.2.1 ab.2.2)
      = interp3 (spatial_add.ret kfa lfa kfb lfb)
          (spatial_add.eval kfa lfa kfb lfb fa.1 fa.2.1 fa.2.2 fb.1 fb.2.1 fb.2.2) := by
  intro ab kab lab fa kfa lfa fb kfb lfb h1 hab ha hb h2
  have e1 : cart3 kab lab ab.1 ab.2.1 ab.2.2 = _ := cart3_of_interp3 (spatial_add_ok h1)
  have e2 : cart3 kfa lfa fa.1 fa.2.1 fa.2.2 = _ := cart3_of_interp3 (refine_spatial_scale k0 k1 f a0 a1 a2 ha)
  have e3 : cart3 kfb lfb fb.1 fb.2.1 fb.2.2 = _ := cart3_of_interp3 (refine_spatial_scale k2 k3 f b0 b1 b2 hb)
  rw [refine_spatial_scale kab lab f ab.1 ab.2.1 ab.2.2 hab, spatial_add_ok h2, e1, e2, e3, smul3_add3]

/-- `(f + g)·a = f·a + g·a` -/
theorem c11_spatial_add_scale (k0 : Az) (k1 : Lon) (f g a0 a1 a2 : ℝ) :
    let fa := spatial_scale.eval k0 k1 f a0 a1 a2
    let ga := spatial_scale.eval k0 k1 g a0 a1 a2
    let ks := azOfRet (spatial_scale.ret k0 k1)
    let ls := lonOfRet (spatial_scale.ret k0 k1)
    (ha : ThetaRange k1 a2) → (h2 : AddOK3 ks ls ks ls fa.1 fa.2.1 fa.2.2 ga.1 ga.2.1 ga.2.2) →
    interp3 (spatial_scale.ret k0 k1) (spatial_scale.eval k0 k1 (f + g) a0 a1 a2)
      = interp3 (spatial_add.ret ks ls ks ls) (spatial_add.eval ks ls ks ls fa.1 fa.2.1 fa.2.2 ga.1 ga.2.1 ga.2.2) := by
  intro fa ga ks ls ha h2
  have e2 : cart3 ks ls fa.1 fa.2.1 fa.2.2 = _ := cart3_of_interp3 (refine_spatial_scale k0 k1 f a0 a1 a2 ha)
  have e3 : cart3 ks ls ga.1 ga.2.1 ga.2.2 = _ := cart3_of_interp3 (refine_spatial_scale k0 k1 g a0 a1 a2 ha)
  rw [refine_spatial_scale k0 k1 (f + g) a0 a1 a2 ha, spatial_add_ok h2, e2, e3, add_smul3]

/-- the code flips θ to `|θ − π|` (negative factor) or `|θ − π/2|` (zero factor): still in `[0, π]` -/
private theorem flip_range (f θ : ℝ) (h0 : 0 ≤ θ) (h1 : θ ≤ π) :
    0 ≤ |θ + 0.5 * (P.sign f - 1) * π| ∧ |θ + 0.5 * (P.sign f - 1) * π| ≤ π := by
  refine ⟨abs_nonneg _, ?_⟩
  rw [abs_le]
  have hp := pi_pos
  rcases lt_trichotomy f 0 with hf | hf | hf
  · have hs : P.sign f = -1 := by simp [P.sign, Real.sign_of_neg hf]
    have e : θ + 0.5 * (P.sign f - 1) * π = θ - π := by rw [hs]; ring
    rw [e]; constructor <;> linarith
  · have hs : P.sign f = 0 := by subst hf; simp [P.sign]
    have e : θ + 0.5 * (P.sign f - 1) * π = θ - π / 2 := by rw [hs]; ring
    rw [e]; constructor <;> linarith
  · have hs : P.sign f = 1 := by simp [P.sign, Real.sign_of_pos hf]
    have e : θ + 0.5 * (P.sign f - 1) * π = θ := by rw [hs]; ring
    rw [e]; constructor <;> linarith

/-- the θ stored in a scaled vector is again in `[0, π]` -/
theorem c11_spatial_scale_thetaRange (k0 : Az) (k1 : Lon) (f a0 a1 a2 : ℝ) (h : ThetaRange k1 a2) :
    ThetaRange (lonOfRet (spatial_scale.ret k0 k1)) (spatial_scale.eval k0 k1 f a0 a1 a2).2.2 := by
  cases k0 <;> cases k1 <;> first
    | trivial
    | exact flip_range f a2 h.1 h.2

/-- `f·(g·a) = (f g)·a` -/
theorem c11_spatial_scale_scale (k0 : Az) (k1 : Lon) (f g a0 a1 a2 : ℝ) :
    let ga := spatial_scale.eval k0 k1 g a0 a1 a2
    let ks := azOfRet (spatial_scale.ret k0 k1)
    let ls := lonOfRet (spatial_scale.ret k0 k1)
    (ha : ThetaRange k1 a2) →
    interp3 (spatial_scale.ret ks ls) (spatial_scale.eval ks ls f ga.1 ga.2.1 ga.2.2)
      = interp3 (spatial_scale.ret k0 k1) (spatial_scale.eval k0 k1 (f * g) a0 a1 a2) := by
  intro ga ks ls ha
  have hga : ThetaRange ls ga.2.2 := c11_spatial_scale_thetaRange k0 k1 g a0 a1 a2 ha
  have e : cart3 ks ls ga.1 ga.2.1 ga.2.2 = _ := cart3_of_interp3 (refine_spatial_scale k0 k1 g a0 a1 a2 ha)
  rw [refine_spatial_scale ks ls f ga.1 ga.2.1 ga.2.2 hga, refine_spatial_scale k0 k1 (f * g) a0 a1 a2 ha, e,
    smul3_smul3]

/-- `1·a = a` -/
theorem c11_spatial_one_scale (k0 : Az) (k1 : Lon) (a0 a1 a2 : ℝ) (ha : ThetaRange k1 a2) :
    interp3 (spatial_scale.ret k0 k1) (spatial_scale.eval k0 k1 1 a0 a1 a2) = some (cart3 k0 k1 a0 a1 a2) := by
  rw [refine_spatial_scale k0 k1 1 a0 a1 a2 ha, one_smul3]

theorem c11_spatial_dot_comm (k0 : Az) (k1 : Lon) (k2 : Az) (k3 : Lon) (a0 a1 a2 b0 b1 b2 : ℝ)
    (ha : TanOK k1 a2) (hb : TanOK k3 b2) :
    spatial_dot.eval k0 k1 k2 k3 a0 a1 a2 b0 b1 b2 = spatial_dot.eval k2 k3 k0 k1 b0 b1 b2 a0 a1 a2 := by
  rw [refine_spatial_dot k0 k1 k2 k3 a0 a1 a2 b0 b1 b2 ha hb, refine_spatial_dot k2 k3 k0 k1 b0 b1 b2 a0 a1 a2 hb ha,
    dot3_comm]

/-- `(a + b)·c = a·c + b·c` -/
theorem c11_spatial_dot_add (k0 : Az) (k1 : Lon) (k2 : Az) (k3 : Lon) (k4 : Az) (k5 : Lon)
    (a0 a1 a2 b0 b1 b2 c0 c1 c2 : ℝ) :
    let ab := spatial_add.eval k0 k1 k2 k3 a0 a1 a2 b0 b1 b2
    let kab := azOfRet (spatial_add.ret k0 k1 k2 k3)
    let lab := lonOfRet (spatial_add.ret k0 k1 k2 k3)
    (h1 : AddOK3 k0 k1 k2 k3 a0 a1 a2 b0 b1 b2) → (hab : TanOK lab ab.2.2) → (hc : TanOK k5 c2) →
    spatial_dot.eval kab lab k4 k5 ab.1 ab.2.1 ab.2.2 c0 c1 c2
      = spatial_dot.eval k0 k1 k4 k5 a0 a1 a2 c0 c1 c2 + spatial_dot.eval k2 k3 k4 k5 b0 b1 b2 c0 c1 c2 := by
  intro ab kab lab h1 hab hc
  have e1 : cart3 kab lab ab.1 ab.2.1 ab.2.2 = _ := cart3_of_interp3 (spatial_add_ok h1)
  rw [refine_spatial_dot kab lab k4 k5 ab.1 ab.2.1 ab.2.2 c0 c1 c2 hab hc,
    refine_spatial_dot k0 k1 k4 k5 a0 a1 a2 c0 c1 c2 h1.1 hc, refine_spatial_dot k2 k3 k4 k5 b0 b1 b2 c0 c1 c2 h1.2.1 hc,
    e1, dot3_add3_left]

/-- `(f·a)·b = f (a·b)` -/
theorem c11_spatial_dot_scale (k0 : Az) (k1 : Lon) (k2 : Az) (k3 : Lon) (f a0 a1 a2 b0 b1 b2 : ℝ) :
    let fa := spatial_scale.eval k0 k1 f a0 a1 a2
    let kfa := azOfRet (spatial_scale.ret k0 k1)
    let lfa := lonOfRet (spatial_scale.ret k0 k1)
    (hr : ThetaRange k1 a2) → (ha : TanOK k1 a2) → (hfa : TanOK lfa fa.2.2) → (hb : TanOK k3 b2) →
    spatial_dot.eval kfa lfa k2 k3 fa.1 fa.2.1 fa.2.2 b0 b1 b2 = f * spatial_dot.eval k0 k1 k2 k3 a0 a1 a2 b0 b1 b2 := by
  intro fa kfa lfa hr ha hfa hb
  have e : cart3 kfa lfa fa.1 fa.2.1 fa.2.2 = _ := cart3_of_interp3 (refine_spatial_scale k0 k1 f a0 a1 a2 hr)
  rw [refine_spatial_dot kfa lfa k2 k3 fa.1 fa.2.1 fa.2.2 b0 b1 b2 hfa hb,
    refine_spatial_dot k0 k1 k2 k3 a0 a1 a2 b0 b1 b2 ha hb, e, dot3_smul3_left]

/-- `a·a = |a|²` -/
theorem c11_spatial_dot_self (k0 : Az) (k1 : Lon) (a0 a1 a2 : ℝ) (ha : TanOK k1 a2) (hs : SinOK k1 a2) :
    spatial_dot.eval k0 k1 k0 k1 a0 a1 a2 a0 a1 a2 = spatial_mag2.eval k0 k1 a0 a1 a2 := by
  rw [refine_spatial_dot k0 k1 k0 k1 a0 a1 a2 a0 a1 a2 ha ha, refine_spatial_mag2 k0 k1 a0 a1 a2 hs]
  simp only [dot3, cart3, mag2Of]; ring

/-- `a × b = −(b × a)` (the result of `cross` is stored Cartesian) -/
theorem c11_spatial_cross_anticomm (k0 : Az) (k1 : Lon) (k2 : Az) (k3 : Lon) (a0 a1 a2 b0 b1 b2 : ℝ)
    (ha : TanOK k1 a2) (hb : TanOK k3 b2) :
    let ba := spatial_cross.eval k2 k3 k0 k1 b0 b1 b2 a0 a1 a2
    interp3 (spatial_cross.ret k0 k1 k2 k3) (spatial_cross.eval k0 k1 k2 k3 a0 a1 a2 b0 b1 b2)
      = interp3 (spatial_scale.ret .xy .z) (spatial_scale.eval .xy .z (-1) ba.1 ba.2.1 ba.2.2) := by
  intro ba
  have e : cart3 .xy .z ba.1 ba.2.1 ba.2.2 = _ := spatial_cross_den k2 k3 k0 k1 b0 b1 b2 a0 a1 a2 hb ha
  rw [refine_spatial_cross k0 k1 k2 k3 a0 a1 a2 b0 b1 b2 ha hb, refine_spatial_scale .xy .z (-1) ba.1 ba.2.1 ba.2.2 trivial,
    e, cross3_anticomm]

/-- `a × a = 0` -/
theorem c11_spatial_cross_self (k0 : Az) (k1 : Lon) (a0 a1 a2 : ℝ) (ha : TanOK k1 a2) :
    interp3 (spatial_cross.ret k0 k1 k0 k1) (spatial_cross.eval k0 k1 k0 k1 a0 a1 a2 a0 a1 a2) = some (0, 0, 0) := by
  rw [refine_spatial_cross k0 k1 k0 k1 a0 a1 a2 a0 a1 a2 ha ha, cross3_self]

/-- `(a + b) × c = a × c + b × c` -/
theorem c11_spatial_cross_add (k0 : Az) (k1 : Lon) (k2 : Az) (k3 : Lon) (k4 : Az) (k5 : Lon)
    (a0 a1 a2 b0 b1 b2 c0 c1 c2 : ℝ) :
    let ab := spatial_add.eval k0 k1 k2 k3 a0 a1 a2 b0 b1 b2
    let kab := azOfRet (spatial_add.ret k0 k1 k2 k3)
    let lab := lonOfRet (spatial_add.ret k0 k1 k2 k3)
    let ac := spatial_cross.eval k0 k1 k4 k5 a0 a1 a2 c0 c1 c2
    let bc := spatial_cross.eval k2 k3 k4 k5 b0 b1 b2 c0 c1 c2
    (h1 : AddOK3 k0 k1 k2 k3 a0 a1 a2 b0 b1 b2) → (hab : TanOK lab ab.2.2) → (hc : TanOK k5 c2) →
    interp3 (spatial_cross.ret kab lab k4 k5) (spatial_cross.eval kab lab k4 k5 ab.1 ab.2.1 ab.2.2 c0 c1 c2)
      = interp3 (spatial_add.ret .xy .z .xy .z)
          (spatial_add.eval .xy .z .xy .z ac.1 ac.2.1 ac.2.2 bc.1 bc.2.1 bc.2.2) := by
  intro ab kab lab ac bc h1 hab hc
  have e1 : cart3 kab lab ab.1 ab.2.1 ab.2.2 = _ := cart3_of_interp3 (spatial_add_ok h1)
  have e2 : cart3 .xy .z ac.1 ac.2.1 ac.2.2 = _ := spatial_cross_den k0 k1 k4 k5 a0 a1 a2 c0 c1 c2 h1.1 hc
  have e3 : cart3 .xy .z bc.1 bc.2.1 bc.2.2 = _ := spatial_cross_den k2 k3 k4 k5 b0 b1 b2 c0 c1 c2 h1.2.1 hc
  rw [refine_spatial_cross kab lab k4 k5 ab.1 ab.2.1 ab.2.2 c0 c1 c2 hab hc,
    refine_spatial_add .xy .z .xy .z ac.1 ac.2.1 ac.2.2 bc.1 bc.2.1 bc.2.2 trivial trivial (Or.inl rfl),
    e1, e2, e3, cross3_add3_left]

/-- `(f·a) × b = f·(a × b)` -/
theorem c11_spatial_cross_scale (k0 : Az) (k1 : Lon) (k2 : Az) (k3 : Lon) (f a0 a1 a2 b0 b1 b2 : ℝ) :
    let fa := spatial_scale.eval k0 k1 f a0 a1 a2
    let kfa := azOfRet (spatial_scale.ret k0 k1)
    let lfa := lonOfRet (spatial_scale.ret k0 k1)
    let ab := spatial_cross.eval k0 k1 k2 k3 a0 a1 a2 b0 b1 b2
    (hr : ThetaRange k1 a2) → (ha : TanOK k1 a2) → (hfa : TanOK lfa fa.2.2) → (hb : TanOK k3 b2) →
    interp3 (spatial_cross.ret kfa lfa k2 k3) (spatial_cross.eval kfa lfa k2 k3 fa.1 fa.2.1 fa.2.2 b0 b1 b2)
      = interp3 (spatial_scale.ret .xy .z) (spatial_scale.eval .xy .z f ab.1 ab.2.1 ab.2.2) := by
  intro fa kfa lfa ab hr ha hfa hb
  have e1 : cart3 kfa lfa fa.1 fa.2.1 fa.2.2 = _ := cart3_of_interp3 (refine_spatial_scale k0 k1 f a0 a1 a2 hr)
  have e2 : cart3 .xy .z ab.1 ab.2.1 ab.2.2 = _ := spatial_cross_den k0 k1 k2 k3 a0 a1 a2 b0 b1 b2 ha hb
  rw [refine_spatial_cross kfa lfa k2 k3 fa.1 fa.2.1 fa.2.2 b0 b1 b2 hfa hb,
    refine_spatial_scale .xy .z f ab.1 ab.2.1 ab.2.2 trivial, e1, e2, cross3_smul3_left]

/-- `a × b` is orthogonal to both factors -/
theorem c11_spatial_cross_orthogonal (k0 : Az) (k1 : Lon) (k2 : Az) (k3 : Lon) (a0 a1 a2 b0 b1 b2 : ℝ)
    (ha : TanOK k1 a2) (hb : TanOK k3 b2) :
    let ab := spatial_cross.eval k0 k1 k2 k3 a0 a1 a2 b0 b1 b2
    spatial_dot.eval .xy .z k0 k1 ab.1 ab.2.1 ab.2.2 a0 a1 a2 = 0
      ∧ spatial_dot.eval .xy .z k2 k3 ab.1 ab.2.1 ab.2.2 b0 b1 b2 = 0 := by
  intro ab
  have e : cart3 .xy .z ab.1 ab.2.1 ab.2.2 = _ := spatial_cross_den k0 k1 k2 k3 a0 a1 a2 b0 b1 b2 ha hb
  rw [refine_spatial_dot .xy .z k0 k1 ab.1 ab.2.1 ab.2.2 a0 a1 a2 trivial ha,
    refine_spatial_dot .xy .z k2 k3 ab.1 ab.2.1 ab.2.2 b0 b1 b2 trivial hb, e]
  exact ⟨dot3_cross3_left _ _, dot3_cross3_right _ _⟩

/-- Lagrange's identity `|a × b|² = |a|² |b|² − (a·b)²` -/
theorem c11_spatial_cross_lagrange (k0 : Az) (k1 : Lon) (k2 : Az) (k3 : Lon) (a0 a1 a2 b0 b1 b2 : ℝ)
    (ha : TanOK k1 a2) (hb : TanOK k3 b2) (sa : SinOK k1 a2) (sb : SinOK k3 b2) :
    let ab := spatial_cross.eval k0 k1 k2 k3 a0 a1 a2 b0 b1 b2
    spatial_mag2.eval .xy .z ab.1 ab.2.1 ab.2.2
      = spatial_mag2.eval k0 k1 a0 a1 a2 * spatial_mag2.eval k2 k3 b0 b1 b2
        - spatial_dot.eval k0 k1 k2 k3 a0 a1 a2 b0 b1 b2 ^ 2 := by
  intro ab
  have e : cart3 .xy .z ab.1 ab.2.1 ab.2.2 = _ := spatial_cross_den k0 k1 k2 k3 a0 a1 a2 b0 b1 b2 ha hb
  have m : ∀ (k0 : Az) (k1 : Lon) (a b c : ℝ), mag2Of k0 k1 a b c = dot3 (cart3 k0 k1 a b c) (cart3 k0 k1 a b c) := by
    intro k0 k1 a b c; simp only [mag2Of, dot3, cart3]; ring
  rw [refine_spatial_mag2 .xy .z ab.1 ab.2.1 ab.2.2 trivial, refine_spatial_mag2 k0 k1 a0 a1 a2 sa,
    refine_spatial_mag2 k2 k3 b0 b1 b2 sb, refine_spatial_dot k0 k1 k2 k3 a0 a1 a2 b0 b1 b2 ha hb, m, m, m, e, lagrange3]

/-- `unit` is parallel to its operand (positive multiple) … -/
theorem c11_spatial_unit_parallel (k0 : Az) (k1 : Lon) (a0 a1 a2 : ℝ) (h : Canon3 k0 k1 a0 a1 a2)
    (hm : 0 < mag2Of k0 k1 a0 a1 a2) :
    interp3 (spatial_unit.ret k0 k1) (spatial_unit.eval k0 k1 a0 a1 a2)
        = some (smul3 (1 / sqrt (mag2Of k0 k1 a0 a1 a2)) (cart3 k0 k1 a0 a1 a2))
      ∧ 0 < 1 / sqrt (mag2Of k0 k1 a0 a1 a2) :=
  ⟨refine_spatial_unit k0 k1 a0 a1 a2 h hm, by have := Real.sqrt_pos.mpr hm; positivity⟩

/-- … and has norm one: `|û|² = 1` -/
theorem c11_spatial_unit_norm (k0 : Az) (k1 : Lon) (a0 a1 a2 : ℝ) (h : Canon3 k0 k1 a0 a1 a2)
    (hm : 0 < mag2Of k0 k1 a0 a1 a2) :
    let u := spatial_unit.eval k0 k1 a0 a1 a2
    let ku := azOfRet (spatial_unit.ret k0 k1)
    let lu := lonOfRet (spatial_unit.ret k0 k1)
    (hu : SinOK lu u.2.2) → spatial_mag2.eval ku lu u.1 u.2.1 u.2.2 = 1 := by
  intro u ku lu hu
  have e : cart3 ku lu u.1 u.2.1 u.2.2 = _ := cart3_of_interp3 (refine_spatial_unit k0 k1 a0 a1 a2 h hm)
  have m : ∀ (k0 : Az) (k1 : Lon) (a b c : ℝ), mag2Of k0 k1 a b c = dot3 (cart3 k0 k1 a b c) (cart3 k0 k1 a b c) := by
    intro k0 k1 a b c; simp only [mag2Of, dot3, cart3]; ring
  have hs : sqrt (mag2Of k0 k1 a0 a1 a2) ^ 2 = mag2Of k0 k1 a0 a1 a2 := Real.sq_sqrt hm.le
  have h0 : sqrt (mag2Of k0 k1 a0 a1 a2) ≠ 0 := (Real.sqrt_pos.mpr hm).ne'
  rw [refine_spatial_mag2 ku lu u.1 u.2.1 u.2.2 hu, m, e, dot3_smul3_left, dot3_comm, dot3_smul3_left, ← m]
  field_simp
  linear_combination -hs

example : AddOK3 .xy .theta .rhophi .eta 1 0 1 1 0 1 ∧ ThetaRange .theta 1 ∧ TanOK .theta 1 ∧ SinOK .theta 1 := by
  have hc : cos (1 : ℝ) ≠ 0 := ne_of_gt cos_one_pos
  refine ⟨⟨hc, trivial, Or.inr ?_⟩, ⟨by norm_num, by linarith [two_le_pi]⟩, hc,
    (sin_pos_of_pos_of_lt_pi one_pos (by linarith [two_le_pi])).ne'⟩
  norm_num [add3, cart3, xOf, yOf]

/-- the hypotheses of a nested law are satisfiable (mixed azimuthal systems) -/
example : True := by
  have := c11_spatial_add_assoc .rhophi .z .xy .z .rhophi .z 1 2 3 4 5 6 7 8 9
    ⟨trivial, trivial, Or.inl rfl⟩ ⟨trivial, trivial, Or.inl rfl⟩ ⟨trivial, trivial, Or.inl rfl⟩
    ⟨trivial, trivial, Or.inl rfl⟩
  trivial

/-! ## 4D (Minkowski metric (−,−,−,+)) -/

/-- one 4D operand is admissible: `cos θ ≠ 0`, `sin θ ≠ 0` for θ storage, `0 ≤ τ` for τ storage -/
def Arg4 (k1 : Lon) (k2 : Tmp) (c d : ℝ) : Prop := TanOK k1 c ∧ SinOK k1 c ∧ CanonTmp k2 d

/-- one application of 4D `add` is admissible (operands admissible, exact spatial sum representable) -/
def AddOK4 (k0 : Az) (k1 : Lon) (k2 : Tmp) (k3 : Az) (k4 : Lon) (k5 : Tmp) (a0 a1 a2 a3 a4 a5 a6 a7 : ℝ) : Prop :=
  Arg4 k1 k2 a2 a3 ∧ Arg4 k4 k5 a6 a7 ∧
    Representable3 (spatial_add.ret k0 k1 k3 k4) (add3 (cart3 k0 k1 a0 a1 a2) (cart3 k3 k4 a4 a5 a6))

/-- one application of 4D `subtract` is admissible; for two τ-stored operands the exact difference must be future-directed
and causal (representable in τ storage) -/
def SubOK4 (k0 : Az) (k1 : Lon) (k2 : Tmp) (k3 : Az) (k4 : Lon) (k5 : Tmp) (a0 a1 a2 a3 a4 a5 a6 a7 : ℝ) : Prop :=
  Arg4 k1 k2 a2 a3 ∧ Arg4 k4 k5 a6 a7 ∧
    Representable3 (spatial_subtract.ret k0 k1 k3 k4) (sub3 (cart3 k0 k1 a0 a1 a2) (cart3 k3 k4 a4 a5 a6)) ∧
    (k2 = .tau → k5 = .tau →
      0 ≤ tOf k0 k1 k2 a0 a1 a2 a3 - tOf k3 k4 k5 a4 a5 a6 a7 ∧
      (xOf k0 a0 a1 - xOf k3 a4 a5) ^ 2 + (yOf k0 a0 a1 - yOf k3 a4 a5) ^ 2 + (zOf k0 k1 a0 a1 a2 - zOf k3 k4 a4 a5 a6) ^ 2
        ≤ (tOf k0 k1 k2 a0 a1 a2 a3 - tOf k3 k4 k5 a4 a5 a6 a7) ^ 2)

/-- one application of 4D `scale` is admissible: `0 ≤ θ ≤ π`, and `0 ≤ f` for τ storage -/
def ScaleOK4 (k1 : Lon) (k2 : Tmp) (f c : ℝ) : Prop := ThetaRange k1 c ∧ (k2 = .tau → 0 ≤ f)

theorem lorentz_add_ok {k0 : Az} {k1 : Lon} {k2 : Tmp} {k3 : Az} {k4 : Lon} {k5 : Tmp} {a0 a1 a2 a3 a4 a5 a6 a7 : ℝ}
    (h : AddOK4 k0 k1 k2 k3 k4 k5 a0 a1 a2 a3 a4 a5 a6 a7) :
    interp4 (lorentz_add.ret k0 k1 k2 k3 k4 k5) (lorentz_add.eval k0 k1 k2 k3 k4 k5 a0 a1 a2 a3 a4 a5 a6 a7)
      = some (add4 (cart4 k0 k1 k2 a0 a1 a2 a3) (cart4 k3 k4 k5 a4 a5 a6 a7)) :=
  refine_lorentz_add k0 k1 k2 k3 k4 k5 a0 a1 a2 a3 a4 a5 a6 a7 h.1.1 h.2.1.1 h.1.2.1 h.2.1.2.1 h.1.2.2 h.2.1.2.2 h.2.2

theorem lorentz_sub_ok {k0 : Az} {k1 : Lon} {k2 : Tmp} {k3 : Az} {k4 : Lon} {k5 : Tmp} {a0 a1 a2 a3 a4 a5 a6 a7 : ℝ}
    (h : SubOK4 k0 k1 k2 k3 k4 k5 a0 a1 a2 a3 a4 a5 a6 a7) :
    interp4 (lorentz_subtract.ret k0 k1 k2 k3 k4 k5) (lorentz_subtract.eval k0 k1 k2 k3 k4 k5 a0 a1 a2 a3 a4 a5 a6 a7)
      = some (sub4 (cart4 k0 k1 k2 a0 a1 a2 a3) (cart4 k3 k4 k5 a4 a5 a6 a7)) :=
  refine_lorentz_subtract k0 k1 k2 k3 k4 k5 a0 a1 a2 a3 a4 a5 a6 a7 h.1.1 h.2.1.1 h.1.2.1 h.2.1.2.1 h.1.2.2 h.2.1.2.2
    h.2.2.1 h.2.2.2

theorem lorentz_scale_ok {k0 : Az} {k1 : Lon} {k2 : Tmp} {f a b c d : ℝ} (h : ScaleOK4 k1 k2 f c) :
    interp4 (lorentz_scale.ret k0 k1 k2) (lorentz_scale.eval k0 k1 k2 f a b c d)
      = some (smul4 f (cart4 k0 k1 k2 a b c d)) :=
  refine_lorentz_scale_partial k0 k1 k2 f a b c d h.1 h.2

theorem lorentz_dot_ok (k0 : Az) (k1 : Lon) (k2 : Tmp) (k3 : Az) (k4 : Lon) (k5 : Tmp) (a0 a1 a2 a3 a4 a5 a6 a7 : ℝ)
    (h1 : Arg4 k1 k2 a2 a3) (h2 : Arg4 k4 k5 a6 a7) :
    lorentz_dot.eval k0 k1 k2 k3 k4 k5 a0 a1 a2 a3 a4 a5 a6 a7
      = mdot (cart4 k0 k1 k2 a0 a1 a2 a3) (cart4 k3 k4 k5 a4 a5 a6 a7) :=
  refine_lorentz_dot k0 k1 k2 k3 k4 k5 a0 a1 a2 a3 a4 a5 a6 a7 h1.1 h2.1 h1.2.1 h2.2.1 h1.2.2 h2.2.2

theorem c11_lorentz_add_comm (k0 : Az) (k1 : Lon) (k2 : Tmp) (k3 : Az) (k4 : Lon) (k5 : Tmp)
    (a0 a1 a2 a3 b0 b1 b2 b3 : ℝ)
    (h : AddOK4 k0 k1 k2 k3 k4 k5 a0 a1 a2 a3 b0 b1 b2 b3) (h' : AddOK4 k3 k4 k5 k0 k1 k2 b0 b1 b2 b3 a0 a1 a2 a3) :
    interp4 (lorentz_add.ret k0 k1 k2 k3 k4 k5) (lorentz_add.eval k0 k1 k2 k3 k4 k5 a0 a1 a2 a3 b0 b1 b2 b3)
      = interp4 (lorentz_add.ret k3 k4 k5 k0 k1 k2) (lorentz_add.eval k3 k4 k5 k0 k1 k2 b0 b1 b2 b3 a0 a1 a2 a3) := by
  rw [lorentz_add_ok h, lorentz_add_ok h', add4_comm]

theorem c11_lorentz_add_assoc (k0 : Az) (k1 : Lon) (k2 : Tmp) (k3 : Az) (k4 : Lon) (k5 : Tmp) (k6 : Az) (k7 : Lon)
    (k8 : Tmp) (a0 a1 a2 a3 b0 b1 b2 b3 c0 c1 c2 c3 : ℝ) :
    let ab := lorentz_add.eval k0 k1 k2 k3 k4 k5 a0 a1 a2 a3 b0 b1 b2 b3
    let kab := azOfRet (lorentz_add.ret k0 k1 k2 k3 k4 k5)
    let lab := lonOfRet (lorentz_add.ret k0 k1 k2 k3 k4 k5)
    let tab := tmpOfRet (lorentz_add.ret k0 k1 k2 k3 k4 k5)
    let bc := lorentz_add.eval k3 k4 k5 k6 k7 k8 b0 b1 b2 b3 c0 c1 c2 c3
    let kbc := azOfRet (lorentz_add.ret k3 k4 k5 k6 k7 k8)
    let lbc := lonOfRet (lorentz_add.ret k3 k4 k5 k6 k7 k8)
    let tbc := tmpOfRet (lorentz_add.ret k3 k4 k5 k6 k7 k8)
    (h1 : AddOK4 k0 k1 k2 k3 k4 k5 a0 a1 a2 a3 b0 b1 b2 b3) →
    (h2 : AddOK4 kab lab tab k6 k7 k8 ab.1 ab.2.1 ab.2.2.1 ab.2.2.2 c0 c1 c2 c3) →
    (h3 : AddOK4 k3 k4 k5 k6 k7 k8 b0 b1 b2 b3 c0 c1 c2 c3) →
    (h4 : AddOK4 k0 k1 k2 kbc lbc tbc a0 a1 a2 a3 bc.1 bc.2.1 bc.2.2.1 bc.2.2.2) →
    interp4 (lorentz_add.ret kab lab tab k6 k7 k8)
        (lorentz_add.eval kab lab tab k6 k7 k8 ab.1 ab.2.1 ab.2.2.1 ab.2.2.2 c0 c1 c2 c3)
      = interp4 (lorentz_add.ret k0 k1 k2 kbc lbc tbc)
        (lorentz_add.eval k0 k1 k2 kbc lbc tbc a0 a1 a2 a3 bc.1 bc.2.1 bc.2.2.1 bc.2.2.2) := by
  intro ab kab lab tab bc kbc lbc tbc h1 h2 h3 h4
  have e1 : cart4 kab lab tab ab.1 ab.2.1 ab.2.2.1 ab.2.2.2 = _ := cart4_of_interp4 (lorentz_add_ok h1)
  have e3 : cart4 kbc lbc tbc bc.1 bc.2.1 bc.2.2.1 bc.2.2.2 = _ := cart4_of_interp4 (lorentz_add_ok h3)
  rw [lorentz_add_ok h2, lorentz_add_ok h4, e1, e3, add4_assoc]

/-- `subtract` inverts `add`: `(a + b) − b = a` -/
theorem c11_lorentz_add_sub_cancel (k0 : Az) (k1 : Lon) (k2 : Tmp) (k3 : Az) (k4 : Lon) (k5 : Tmp)
    (a0 a1 a2 a3 b0 b1 b2 b3 : ℝ) :
    let ab := lorentz_add.eval k0 k1 k2 k3 k4 k5 a0 a1 a2 a3 b0 b1 b2 b3
    let kab := azOfRet (lorentz_add.ret k0 k1 k2 k3 k4 k5)
    let lab := lonOfRet (lorentz_add.ret k0 k1 k2 k3 k4 k5)
    let tab := tmpOfRet (lorentz_add.ret k0 k1 k2 k3 k4 k5)
    (h1 : AddOK4 k0 k1 k2 k3 k4 k5 a0 a1 a2 a3 b0 b1 b2 b3) →
    (h2 : SubOK4 kab lab tab k3 k4 k5 ab.1 ab.2.1 ab.2.2.1 ab.2.2.2 b0 b1 b2 b3) →
    interp4 (lorentz_subtract.ret kab lab tab k3 k4 k5)
        (lorentz_subtract.eval kab lab tab k3 k4 k5 ab.1 ab.2.1 ab.2.2.1 ab.2.2.2 b0 b1 b2 b3)
      = some (cart4 k0 k1 k2 a0 a1 a2 a3) := by
  intro ab kab lab tab h1 h2
  have e1 : cart4 kab lab tab ab.1 ab.2.1 ab.2.2.1 ab.2.2.2 = _ := cart4_of_interp4 (lorentz_add_ok h1)
  rw [lorentz_sub_ok h2, e1, sub4_add4_cancel]

/-- negation is `scale` by `−1` (`t` storage; a τ-stored vector cannot represent the negated vector) -/
theorem c11_lorentz_neg (k0 : Az) (k1 : Lon) (a0 a1 a2 a3 : ℝ) (h : ThetaRange k1 a2) :
    interp4 (lorentz_scale.ret k0 k1 .t) (lorentz_scale.eval k0 k1 .t (-1) a0 a1 a2 a3)
      = some (-xOf k0 a0 a1, -yOf k0 a0 a1, -zOf k0 k1 a0 a1 a2, -a3) := by
  rw [lorentz_scale_ok (k2 := .t) ⟨h, fun e => nomatch e⟩, neg_one_smul4]
  simp only [cart4, tOf_t]

/-- `a − b = a + (−1)·b` (`b` stored with `t`) -/
theorem c11_lorentz_sub_eq_add_neg (k0 : Az) (k1 : Lon) (k2 : Tmp) (k3 : Az) (k4 : Lon)
    (a0 a1 a2 a3 b0 b1 b2 b3 : ℝ) :
    let nb := lorentz_scale.eval k3 k4 .t (-1) b0 b1 b2 b3
    let knb := azOfRet (lorentz_scale.ret k3 k4 .t)
    let lnb := lonOfRet (lorentz_scale.ret k3 k4 .t)
    let tnb := tmpOfRet (lorentz_scale.ret k3 k4 .t)
    (h1 : SubOK4 k0 k1 k2 k3 k4 .t a0 a1 a2 a3 b0 b1 b2 b3) → (hb : ThetaRange k4 b2) →
    (h2 : AddOK4 k0 k1 k2 knb lnb tnb a0 a1 a2 a3 nb.1 nb.2.1 nb.2.2.1 nb.2.2.2) →
    interp4 (lorentz_subtract.ret k0 k1 k2 k3 k4 .t) (lorentz_subtract.eval k0 k1 k2 k3 k4 .t a0 a1 a2 a3 b0 b1 b2 b3)
      = interp4 (lorentz_add.ret k0 k1 k2 knb lnb tnb)
          (lorentz_add.eval k0 k1 k2 knb lnb tnb a0 a1 a2 a3 nb.1 nb.2.1 nb.2.2.1 nb.2.2.2) := by
  intro nb knb lnb tnb h1 hb h2
  have e : cart4 knb lnb tnb nb.1 nb.2.1 nb.2.2.1 nb.2.2.2 = _ :=
    cart4_of_interp4 (lorentz_scale_ok (k0 := k3) (a := b0) (b := b1) (d := b3) ⟨hb, fun e => nomatch e⟩)
  rw [lorentz_sub_ok h1, lorentz_add_ok h2, e, sub4_eq_add4_neg]

/-- `f·(a + b) = f·a + f·b` (for τ-stored operands / results: `0 ≤ f`) -/
theorem c11_lorentz_scale_add_partial (k0 : Az) (k1 : Lon) (k2 : Tmp) (k3 : Az) (k4 : Lon) (k5 : Tmp)
    (f a0 a1 a2 a3 b0 b1 b2 b3 : ℝ) :
    let ab := lorentz_add.eval k0 k1 k2 k3 k4 k5 a0 a1 a2 a3 b0 b1 b2 b3
    let kab := azOfRet (lorentz_add.ret k0 k1 k2 k3 k4 k5)
    let lab := lonOfRet (lorentz_add.ret k0 k1 k2 k3 k4 k5)
    let tab := tmpOfRet (lorentz_add.ret k0 k1 k2 k3 k4 k5)
    let fa := lorentz_scale.eval k0 k1 k2 f a0 a1 a2 a3
    let kfa := azOfRet (lorentz_scale.ret k0 k1 k2)
    let lfa := lonOfRet (lorentz_scale.ret k0 k1 k2)
    let tfa := tmpOfRet (lorentz_scale.ret k0 k1 k2)
    let fb := lorentz_scale.eval k3 k4 k5 f b0 b1 b2 b3
    let kfb := azOfRet (lorentz_scale.ret k3 k4 k5)
    let lfb := lonOfRet (lorentz_scale.ret k3 k4 k5)
    let tfb := tmpOfRet (lorentz_scale.ret k3 k4 k5)
    (h1 : AddOK4 k0 k1 k2 k3 k4 k5 a0 a1 a2 a3 b0 b1 b2 b3) → (hab : ScaleOK4 lab tab f ab.2.2.1) →
    (ha : ScaleOK4 k1 k2 f a2) → (hb : ScaleOK4 k4 k5 f b2) →
    (h2 : AddOK4 kfa lfa tfa kfb lfb tfb fa.1 fa.2.1 fa.2.2.1 fa.2.2.2 fb.1 fb.2.1 fb.2.2.1 fb.2.2.2) →
    interp4 (lorentz_scale.ret kab lab tab) (lorentz_scale.eval kab lab tab f ab.1 ab.2.1 ab.2.2.1 ab.2.2.2)
      = interp4 (lorentz_add.ret kfa lfa tfa kfb lfb tfb)
          (lorentz_add.eval kfa lfa tfa kfb lfb tfb fa.1 fa.2.1 fa.2.2.1 fa.2.2.2 fb.1 fb.2.1 fb.2.2.1 fb.2.2.2) := by
  intro ab kab lab tab fa kfa lfa tfa fb kfb lfb tfb h1 hab ha hb h2
  have e1 : cart4 kab lab tab ab.1 ab.2.1 ab.2.2.1 ab.2.2.2 = _ := cart4_of_interp4 (lorentz_add_ok h1)
  have e2 : cart4 kfa lfa tfa fa.1 fa.2.1 fa.2.2.1 fa.2.2.2 = _ :=
    cart4_of_interp4 (lorentz_scale_ok (k0 := k0) (a := a0) (b := a1) (d := a3) ha)
  have e3 : cart4 kfb lfb tfb fb.1 fb.2.1 fb.2.2.1 fb.2.2.2 = _ :=
    cart4_of_interp4 (lorentz_scale_ok (k0 := k3) (a := b0) (b := b1) (d := b3) hb)
  rw [lorentz_scale_ok hab, lorentz_add_ok h2, e1, e2, e3, smul4_add4]

/-- `(f + g)·a = f·a + g·a` -/
theorem c11_lorentz_add_scale_partial (k0 : Az) (k1 : Lon) (k2 : Tmp) (f g a0 a1 a2 a3 : ℝ) :
    let fa := lorentz_scale.eval k0 k1 k2 f a0 a1 a2 a3
    let ga := lorentz_scale.eval k0 k1 k2 g a0 a1 a2 a3
    let ks := azOfRet (lorentz_scale.ret k0 k1 k2)
    let ls := lonOfRet (lorentz_scale.ret k0 k1 k2)
    let ts := tmpOfRet (lorentz_scale.ret k0 k1 k2)
    (hf : ScaleOK4 k1 k2 f a2) → (hg : ScaleOK4 k1 k2 g a2) → (hfg : ScaleOK4 k1 k2 (f + g) a2) →
    (h2 : AddOK4 ks ls ts ks ls ts fa.1 fa.2.1 fa.2.2.1 fa.2.2.2 ga.1 ga.2.1 ga.2.2.1 ga.2.2.2) →
    interp4 (lorentz_scale.ret k0 k1 k2) (lorentz_scale.eval k0 k1 k2 (f + g) a0 a1 a2 a3)
      = interp4 (lorentz_add.ret ks ls ts ks ls ts)
          (lorentz_add.eval ks ls ts ks ls ts fa.1 fa.2.1 fa.2.2.1 fa.2.2.2 ga.1 ga.2.1 ga.2.2.1 ga.2.2.2) := by
  intro fa ga ks ls ts hf hg hfg h2
  have e2 : cart4 ks ls ts fa.1 fa.2.1 fa.2.2.1 fa.2.2.2 = _ :=
    cart4_of_interp4 (lorentz_scale_ok (k0 := k0) (a := a0) (b := a1) (d := a3) hf)
  have e3 : cart4 ks ls ts ga.1 ga.2.1 ga.2.2.1 ga.2.2.2 = _ :=
    cart4_of_interp4 (lorentz_scale_ok (k0 := k0) (a := a0) (b := a1) (d := a3) hg)
  rw [lorentz_scale_ok hfg, lorentz_add_ok h2, e2, e3, add_smul4]

/-- `f·(g·a) = (f g)·a` -/
theorem c11_lorentz_scale_scale_partial (k0 : Az) (k1 : Lon) (k2 : Tmp) (f g a0 a1 a2 a3 : ℝ) :
    let ga := lorentz_scale.eval k0 k1 k2 g a0 a1 a2 a3
    let ks := azOfRet (lorentz_scale.ret k0 k1 k2)
    let ls := lonOfRet (lorentz_scale.ret k0 k1 k2)
    let ts := tmpOfRet (lorentz_scale.ret k0 k1 k2)
    (hg : ScaleOK4 k1 k2 g a2) → (hf : ScaleOK4 ls ts f ga.2.2.1) → (hfg : ScaleOK4 k1 k2 (f * g) a2) →
    interp4 (lorentz_scale.ret ks ls ts) (lorentz_scale.eval ks ls ts f ga.1 ga.2.1 ga.2.2.1 ga.2.2.2)
      = interp4 (lorentz_scale.ret k0 k1 k2) (lorentz_scale.eval k0 k1 k2 (f * g) a0 a1 a2 a3) := by
  intro ga ks ls ts hg hf hfg
  have e : cart4 ks ls ts ga.1 ga.2.1 ga.2.2.1 ga.2.2.2 = _ :=
    cart4_of_interp4 (lorentz_scale_ok (k0 := k0) (a := a0) (b := a1) (d := a3) hg)
  rw [lorentz_scale_ok hf, lorentz_scale_ok hfg, e, smul4_smul4]

/-- `1·a = a` -/
theorem c11_lorentz_one_scale (k0 : Az) (k1 : Lon) (k2 : Tmp) (a0 a1 a2 a3 : ℝ) (h : ThetaRange k1 a2) :
    interp4 (lorentz_scale.ret k0 k1 k2) (lorentz_scale.eval k0 k1 k2 1 a0 a1 a2 a3)
      = some (cart4 k0 k1 k2 a0 a1 a2 a3) := by
  rw [lorentz_scale_ok ⟨h, fun _ => zero_le_one⟩, one_smul4]

theorem c11_lorentz_dot_comm (k0 : Az) (k1 : Lon) (k2 : Tmp) (k3 : Az) (k4 : Lon) (k5 : Tmp)
    (a0 a1 a2 a3 b0 b1 b2 b3 : ℝ) (ha : Arg4 k1 k2 a2 a3) (hb : Arg4 k4 k5 b2 b3) :
    lorentz_dot.eval k0 k1 k2 k3 k4 k5 a0 a1 a2 a3 b0 b1 b2 b3
      = lorentz_dot.eval k3 k4 k5 k0 k1 k2 b0 b1 b2 b3 a0 a1 a2 a3 := by
  rw [lorentz_dot_ok _ _ _ _ _ _ _ _ _ _ _ _ _ _ ha hb, lorentz_dot_ok _ _ _ _ _ _ _ _ _ _ _ _ _ _ hb ha, mdot_comm]

/-- `(a + b)·c = a·c + b·c` -/
theorem c11_lorentz_dot_add (k0 : Az) (k1 : Lon) (k2 : Tmp) (k3 : Az) (k4 : Lon) (k5 : Tmp) (k6 : Az) (k7 : Lon)
    (k8 : Tmp) (a0 a1 a2 a3 b0 b1 b2 b3 c0 c1 c2 c3 : ℝ) :
    let ab := lorentz_add.eval k0 k1 k2 k3 k4 k5 a0 a1 a2 a3 b0 b1 b2 b3
    let kab := azOfRet (lorentz_add.ret k0 k1 k2 k3 k4 k5)
    let lab := lonOfRet (lorentz_add.ret k0 k1 k2 k3 k4 k5)
    let tab := tmpOfRet (lorentz_add.ret k0 k1 k2 k3 k4 k5)
    (h1 : AddOK4 k0 k1 k2 k3 k4 k5 a0 a1 a2 a3 b0 b1 b2 b3) → (hab : Arg4 lab tab ab.2.2.1 ab.2.2.2) →
    (hc : Arg4 k7 k8 c2 c3) →
    lorentz_dot.eval kab lab tab k6 k7 k8 ab.1 ab.2.1 ab.2.2.1 ab.2.2.2 c0 c1 c2 c3
      = lorentz_dot.eval k0 k1 k2 k6 k7 k8 a0 a1 a2 a3 c0 c1 c2 c3
        + lorentz_dot.eval k3 k4 k5 k6 k7 k8 b0 b1 b2 b3 c0 c1 c2 c3 := by
  intro ab kab lab tab h1 hab hc
  have e1 : cart4 kab lab tab ab.1 ab.2.1 ab.2.2.1 ab.2.2.2 = _ := cart4_of_interp4 (lorentz_add_ok h1)
  rw [lorentz_dot_ok _ _ _ _ _ _ _ _ _ _ _ _ _ _ hab hc, lorentz_dot_ok _ _ _ _ _ _ _ _ _ _ _ _ _ _ h1.1 hc,
    lorentz_dot_ok _ _ _ _ _ _ _ _ _ _ _ _ _ _ h1.2.1 hc, e1, mdot_add4_left]

/-- `(f·a)·b = f (a·b)` -/
theorem c11_lorentz_dot_scale_partial (k0 : Az) (k1 : Lon) (k2 : Tmp) (k3 : Az) (k4 : Lon) (k5 : Tmp)
    (f a0 a1 a2 a3 b0 b1 b2 b3 : ℝ) :
    let fa := lorentz_scale.eval k0 k1 k2 f a0 a1 a2 a3
    let kfa := azOfRet (lorentz_scale.ret k0 k1 k2)
    let lfa := lonOfRet (lorentz_scale.ret k0 k1 k2)
    let tfa := tmpOfRet (lorentz_scale.ret k0 k1 k2)
    (hs : ScaleOK4 k1 k2 f a2) → (ha : Arg4 k1 k2 a2 a3) → (hfa : Arg4 lfa tfa fa.2.2.1 fa.2.2.2) →
    (hb : Arg4 k4 k5 b2 b3) →
    lorentz_dot.eval kfa lfa tfa k3 k4 k5 fa.1 fa.2.1 fa.2.2.1 fa.2.2.2 b0 b1 b2 b3
      = f * lorentz_dot.eval k0 k1 k2 k3 k4 k5 a0 a1 a2 a3 b0 b1 b2 b3 := by
  intro fa kfa lfa tfa hs ha hfa hb
  have e : cart4 kfa lfa tfa fa.1 fa.2.1 fa.2.2.1 fa.2.2.2 = _ :=
    cart4_of_interp4 (lorentz_scale_ok (k0 := k0) (a := a0) (b := a1) (d := a3) hs)
  rw [lorentz_dot_ok _ _ _ _ _ _ _ _ _ _ _ _ _ _ hfa hb, lorentz_dot_ok _ _ _ _ _ _ _ _ _ _ _ _ _ _ ha hb, e, mdot_smul4_left]

/-- `a·a = τ²` (`= t² − |p|²`) -/
theorem c11_lorentz_dot_self (k0 : Az) (k1 : Lon) (k2 : Tmp) (a0 a1 a2 a3 : ℝ) (hl : CanonLon k0 k1 a0 a1 a2)
    (ht : TanOK k1 a2) (hd : CanonTmp k2 a3) :
    lorentz_dot.eval k0 k1 k2 k0 k1 k2 a0 a1 a2 a3 a0 a1 a2 a3 = lorentz_tau2.eval k0 k1 k2 a0 a1 a2 a3 := by
  have ha : Arg4 k1 k2 a2 a3 := ⟨ht, Spec.SinOK_of_canonLon hl, hd⟩
  rw [lorentz_dot_ok _ _ _ _ _ _ _ _ _ _ _ _ _ _ ha ha, refine_lorentz_tau2 k0 k1 k2 a0 a1 a2 a3 hl hd]
  simp only [mdot, cart4, mag2Of]; ring

/-- `unit` is parallel to its operand (positive multiple) … -/
theorem c11_lorentz_unit_parallel (k0 : Az) (k1 : Lon) (k2 : Tmp) (a0 a1 a2 a3 : ℝ) (hs : SinOK k1 a2)
    (hd : CanonTmp k2 a3) (hm : tOf k0 k1 k2 a0 a1 a2 a3 ^ 2 - mag2Of k0 k1 a0 a1 a2 ≠ 0) :
    interp4 (lorentz_unit.ret k0 k1 k2) (lorentz_unit.eval k0 k1 k2 a0 a1 a2 a3)
        = some (smul4 (1 / sqrt |tOf k0 k1 k2 a0 a1 a2 a3 ^ 2 - mag2Of k0 k1 a0 a1 a2|) (cart4 k0 k1 k2 a0 a1 a2 a3))
      ∧ 0 < 1 / sqrt |tOf k0 k1 k2 a0 a1 a2 a3 ^ 2 - mag2Of k0 k1 a0 a1 a2| :=
  ⟨refine_lorentz_unit k0 k1 k2 a0 a1 a2 a3 hs hd hm, by
    have := Real.sqrt_pos.mpr (abs_pos.mpr hm); positivity⟩

/-- … and has Minkowski norm `±1`: `û·û = sign(t² − |p|²)` -/
theorem c11_lorentz_unit_norm (k0 : Az) (k1 : Lon) (k2 : Tmp) (a0 a1 a2 a3 : ℝ) (hs : SinOK k1 a2)
    (hd : CanonTmp k2 a3) (hm : tOf k0 k1 k2 a0 a1 a2 a3 ^ 2 - mag2Of k0 k1 a0 a1 a2 ≠ 0) :
    let u := lorentz_unit.eval k0 k1 k2 a0 a1 a2 a3
    let ku := azOfRet (lorentz_unit.ret k0 k1 k2)
    let lu := lonOfRet (lorentz_unit.ret k0 k1 k2)
    let tu := tmpOfRet (lorentz_unit.ret k0 k1 k2)
    (hu : Arg4 lu tu u.2.2.1 u.2.2.2) →
    lorentz_dot.eval ku lu tu ku lu tu u.1 u.2.1 u.2.2.1 u.2.2.2 u.1 u.2.1 u.2.2.1 u.2.2.2
      = Real.sign (tOf k0 k1 k2 a0 a1 a2 a3 ^ 2 - mag2Of k0 k1 a0 a1 a2) := by
  intro u ku lu tu hu
  have e : cart4 ku lu tu u.1 u.2.1 u.2.2.1 u.2.2.2 = _ :=
    cart4_of_interp4 (refine_lorentz_unit k0 k1 k2 a0 a1 a2 a3 hs hd hm)
  have m : mdot (cart4 k0 k1 k2 a0 a1 a2 a3) (cart4 k0 k1 k2 a0 a1 a2 a3)
      = tOf k0 k1 k2 a0 a1 a2 a3 ^ 2 - mag2Of k0 k1 a0 a1 a2 := by
    simp only [mdot, cart4, mag2Of]; ring
  rw [lorentz_dot_ok _ _ _ _ _ _ _ _ _ _ _ _ _ _ hu hu, e, mdot_smul4_left, mdot_comm, mdot_smul4_left, m]
  generalize tOf k0 k1 k2 a0 a1 a2 a3 ^ 2 - mag2Of k0 k1 a0 a1 a2 = s at hm
  have hpos : 0 < |s| := abs_pos.mpr hm
  have hsq : sqrt |s| ^ 2 = |s| := Real.sq_sqrt hpos.le
  have h0 : sqrt |s| ≠ 0 := (Real.sqrt_pos.mpr hpos).ne'
  have key : 1 / sqrt |s| * (1 / sqrt |s| * s) = s / |s| := by
    have : 1 / sqrt |s| * (1 / sqrt |s| * s) = s / sqrt |s| ^ 2 := by field_simp
    rw [this, hsq]
  rw [key]
  rcases lt_or_gt_of_ne hm with hneg | hpos'
  · rw [abs_of_neg hneg, Real.sign_of_neg hneg]; field_simp
  · rw [abs_of_pos hpos', Real.sign_of_pos hpos']; field_simp

example : AddOK4 .xy .theta .tau .rhophi .eta .t 1 0 1 2 1 0 1 3 ∧ ScaleOK4 .theta .tau 2 1 ∧ Arg4 .theta .tau 1 2 := by
  have hc : cos (1 : ℝ) ≠ 0 := ne_of_gt cos_one_pos
  have hs : sin (1 : ℝ) ≠ 0 := (sin_pos_of_pos_of_lt_pi one_pos (by linarith [two_le_pi])).ne'
  have h2 : CanonTmp .tau 2 := by show (0 : ℝ) ≤ 2; norm_num
  refine ⟨⟨⟨hc, hs, h2⟩, ⟨trivial, trivial, trivial⟩, Or.inr ?_⟩,
    ⟨⟨by norm_num, by linarith [two_le_pi]⟩, fun _ => by norm_num⟩, ⟨hc, hs, h2⟩⟩
  norm_num [add3, cart3, xOf, yOf]

/-- the hypotheses of a nested 4D law are satisfiable (mixed azimuthal and temporal systems) -/
example : True := by
  have h2 : CanonTmp .tau 2 := by show (0 : ℝ) ≤ 2; norm_num
  have := c11_lorentz_add_assoc .rhophi .z .tau .xy .z .t .rhophi .z .t 1 2 3 2 4 5 6 7 7 8 9 10
    ⟨⟨trivial, trivial, h2⟩, ⟨trivial, trivial, trivial⟩, Or.inl rfl⟩
    ⟨⟨trivial, trivial, trivial⟩, ⟨trivial, trivial, trivial⟩, Or.inl rfl⟩
    ⟨⟨trivial, trivial, trivial⟩, ⟨trivial, trivial, trivial⟩, Or.inl rfl⟩
    ⟨⟨trivial, trivial, h2⟩, ⟨trivial, trivial, trivial⟩, Or.inl rfl⟩
  trivial

end VR
