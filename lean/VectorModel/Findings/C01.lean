/-
Machine-checked WITNESSES of known findings (known_findings.json) and of the necessity of hypotheses.
These theorems state that the unchanged code VIOLATES a full-strength statement at a concrete input.  They are kept apart
from the property theorems and are OPTIONAL obligations: if the library is repaired they stop being provable, which must
not turn a check red (DESIGN.md 3.8) — the check then simply drops the finding.
-/
import VectorModel.Refine.LorentzAcc
import VectorModel.Refine.LorentzBin

namespace VR
open VK Spec Real

/-- FINDING: for `t < 0` the value of `Et` depends on the coordinate system in which the SAME vector
`(x, y, z, t) = (1, 0, 0, -1)` is stored: `xy_z_t` computes `√Et2 = |t| ρ/|p|`, all other variants `t ρ/|p|`. -/
theorem lorentz_Et_neg_t_key_dependent :
    cart4 .xy .z .t 1 0 0 (-1) = cart4 .rhophi .z .t 1 0 0 (-1)
    ∧ lorentz_Et.eval .xy .z .t 1 0 0 (-1) = 1 ∧ lorentz_Et.eval .rhophi .z .t 1 0 0 (-1) = -1 := by
  refine ⟨?_, ?_, ?_⟩
  · simp [cart4, xOf, yOf, zOf, tOf]
  · simp [d_lorentz_Et, d_lorentz_Et2]
  · simp [d_lorentz_Et]

/-- FINDING: with `t < 0` the `xy_eta_t` variant returns the wrong vector: for the representable input
`(x, y, η, t) = (1, 0, 1, -1)` the result `(-1, 0, η = 1)` denotes `z = sinh 1`, but `z / t = -sinh 1`. -/
theorem lorentz_to_beta3_neg_t_fails :
    Canon4 .xy .eta .t 1 0 1 (-1) ∧ tOf .xy .eta .t 1 0 1 (-1) ≠ 0 ∧
    interp3 (lorentz_to_beta3.ret .xy .eta .t) (lorentz_to_beta3.eval .xy .eta .t 1 0 1 (-1))
      ≠ some (xOf .xy 1 0 / tOf .xy .eta .t 1 0 1 (-1), yOf .xy 1 0 / tOf .xy .eta .t 1 0 1 (-1),
          zOf .xy .eta 1 0 1 / tOf .xy .eta .t 1 0 1 (-1)) := by
  refine ⟨?_, ?_, ?_⟩
  · simp [Canon4, Canon3, Canon2, CanonLon, CanonTmp, rhoOf]
  · simp [tOf]
  · simp only [d_lorentz_to_beta3, interp3, retAz, retLon, cart3, xOf, yOf, zOf, rhoOf, tOf,
      Option.some.injEq, Prod.mk.injEq, ne_eq, not_and]
    intro _ _ h3
    have hs : 0 < sinh (1 : ℝ) := Real.sinh_pos_iff.mpr one_pos
    norm_num at h3
    linarith

/-- for τ storage and a negative factor the result does NOT denote `f·(p, t)`: the code stores `τ·f < 0`, whose time
component is read back as `√max(−τ²f² + f²|p|², 0)`; e.g. `−1 · (0,0,0; τ=1)` should have `t = −1` but
`lorentz_t` of the result is `0` (and the denotation `√(τ'² + |p'|²)` is `+1`). -/
theorem refine_lorentz_scale_defect :
    interp4 (lorentz_scale.ret .xy .z .tau) (lorentz_scale.eval .xy .z .tau (-1) 0 0 0 1)
        ≠ some (smul4 (-1) (cart4 .xy .z .tau 0 0 0 1))
      ∧ lorentz_t.eval .xy .z .tau (lorentz_scale.eval .xy .z .tau (-1) 0 0 0 1).1
          (lorentz_scale.eval .xy .z .tau (-1) 0 0 0 1).2.1 (lorentz_scale.eval .xy .z .tau (-1) 0 0 0 1).2.2.1
          (lorentz_scale.eval .xy .z .tau (-1) 0 0 0 1).2.2.2 = 0 := by
  constructor
  · simp only [d_lorentz_scale, d_spatial_scale, interp4, retAz, retLon, retTmp, cart4, smul4, tOf, mag2Of, xOf, yOf, zOf]
    norm_num
  · simp only [d_lorentz_scale, d_spatial_scale, d_lorentz_t, d_lorentz_t2, d_lorentz_tau2, d_spatial_mag2, P.copysign]
    norm_num

/-- without `hc` the τ,τ keys fail: `(0,0,0; τ=1) − (0,0,0; τ=2)` is stored as `τ' = −1` (denoting `t = +1`, and read back
by `lorentz_t` as `0`), the exact difference has `t = −1` -/
theorem refine_lorentz_subtract_defect :
    interp4 (lorentz_subtract.ret .xy .z .tau .xy .z .tau) (lorentz_subtract.eval .xy .z .tau .xy .z .tau 0 0 0 1 0 0 0 2)
      ≠ some (sub4 (cart4 .xy .z .tau 0 0 0 1) (cart4 .xy .z .tau 0 0 0 2)) := by
  simp only [d_lorentz_subtract, d_spatial_subtract, d_lorentz_t, d_lorentz_t2, d_lorentz_tau, d_lorentz_tau2, d_spatial_mag2,
    interp4, retAz, retLon, retTmp, cart4, sub4, tOf, mag2Of, xOf, yOf, zOf, P.copysign]
  norm_num
  have h4 : sqrt 4 = 2 := by rw [show (4 : ℝ) = 2 ^ 2 by norm_num, sqrt_sq (by norm_num)]
  rw [h4]; norm_num

end VR
