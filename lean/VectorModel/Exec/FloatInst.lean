/-
`Scalar Float`: IEEE-double instance of the executable copy, following NumPy's
semantics for the primitives of the compute layer (including `nan_to_num`,
NaN-propagating `maximum`/`minimum`, Python `%`, `copysign`, `isclose`).
Used only by the numeric correspondence (never by a theorem).
-/
import VectorModel.Prim.Exec

namespace VE

def fInf : Float := 1.0 / 0.0
def fNaN : Float := 0.0 / 0.0
def fMax : Float := 1.7976931348623157e308

def fSignBit (a : Float) : Bool := (a.toBits >>> 63) == 1

def fCopysign (a b : Float) : Float :=
  let m := a.toBits &&& 0x7FFFFFFFFFFFFFFF
  Float.ofBits (if fSignBit b then m ||| 0x8000000000000000 else m)

def fSign (a : Float) : Float :=
  if a.isNaN then a else if a > 0 then 1.0 else if a < 0 then -1.0 else 0.0

/-- numpy.maximum: propagates NaN -/
def fMaximum (a b : Float) : Float :=
  if a.isNaN then a else if b.isNaN then b else if a ≥ b then a else b
def fMinimum (a b : Float) : Float :=
  if a.isNaN then a else if b.isNaN then b else if a ≤ b then a else b

/-- numpy `%` (Python semantics: result has the sign of the divisor) -/
def fMod (a m : Float) : Float :=
  if m == 0 then fNaN else
  let r := a - m * Float.floor (a / m)
  if r == m then 0.0 else r

def fNanToNum (e : Float) (n p q : Option Float) : Float :=
  if e.isNaN then n.getD 0.0
  else if e == fInf then p.getD fMax
  else if e == -fInf then q.getD (-fMax)
  else e

def fIsclose (a b rtol atol equalNan : Float) : Bool :=
  if a.isNaN || b.isNaN then (equalNan != 0 && a.isNaN && b.isNaN)
  else if a == b then true
  else if a.isInf || b.isInf then false
  else Float.abs (a - b) ≤ atol + rtol * Float.abs b

def fNpow (a : Float) : Nat → Float
  | 0 => 1.0
  | 1 => a
  | n + 2 => a * fNpow a (n + 1)

instance : Scalar Float where
  B := Bool
  ofNat n := Float.ofNat n
  ofSci m s e := Float.ofScientific m s e
  pi := 3.141592653589793
  libInf := fInf
  inf := fInf
  nan := fNaN
  neg a := -a
  add a b := a + b
  sub a b := a - b
  mul a b := a * b
  div a b := a / b
  npow a n := fNpow a n
  rpow a b := Float.pow a b
  mod a b := fMod a b
  eq a b := a == b
  ne a b := a != b
  lt a b := a < b
  gt a b := a > b
  le a b := a ≤ b
  ge a b := a ≥ b
  and a b := a && b
  or a b := a || b
  b2s a := if a then 1.0 else 0.0
  sqrt := Float.sqrt
  sin := Float.sin
  cos := Float.cos
  tan := Float.tan
  exp := Float.exp
  log := Float.log
  sinh := Float.sinh
  arcsinh := Float.asinh
  arctan := Float.atan
  arccos := Float.acos
  abs := Float.abs
  sign := fSign
  arctan2 := Float.atan2
  copysign := fCopysign
  max := fMaximum
  min := fMinimum
  nanToNum := fNanToNum
  isclose := fIsclose

end VE
