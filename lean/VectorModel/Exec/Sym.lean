/-
`Sym`: a deep embedding of scalar expressions.  Instantiating the executable
copy of the generated model at `Sym` yields, for every compute function, the
expression tree it builds — compared as a string with the tree obtained by
*executing* the real Python function on tracer scalars (tools/tracer.py).
-/
import VectorModel.Prim.Exec

namespace VE

inductive Sym where
  | var (s : String)
  | nat (n : Nat)
  | sci (m : Nat) (neg : Bool) (e : Nat)
  | special (s : String)          -- inf / nan (math.inf, math.nan)
  | app (f : String) (args : List Sym)
  deriving Inhabited, BEq

/-- canonical decimal: strip trailing zeros of the mantissa -/
partial def canonSci (m : Nat) (e : Int) : Nat × Int :=
  if m == 0 then (0, 0) else if m % 10 == 0 then canonSci (m / 10) (e + 1) else (m, e)

def sciStr (sign : String) (m : Nat) (s : Bool) (e : Nat) : String :=
  let (m', e') := canonSci m (if s then -(e : Int) else (e : Int))
  s!"f{sign}{m'}e{e'}"

partial def Sym.str : Sym → String
  | .var s => s
  | .nat n => s!"i{n}"
  | .sci m s e => sciStr "" m s e
  | .special s => s!"f{s}"
  | .app "neg" [.nat n] => s!"i-{n}"
  | .app "neg" [.sci m s e] => sciStr "-" m s e
  | .app "neg" [.special s] => s!"f-{s}"
  | .app f [] => f
  | .app f args => f ++ "(" ++ ",".intercalate (args.map Sym.str) ++ ")"

instance : Scalar Sym where
  B := Sym
  ofNat n := .nat n
  ofSci m s e := .sci m s e
  pi := .app "pi" []
  libInf := .app "libinf" []
  inf := .special "inf"
  nan := .special "nan"
  neg a := .app "neg" [a]
  add a b := .app "add" [a, b]
  sub a b := .app "sub" [a, b]
  mul a b := .app "mul" [a, b]
  div a b := .app "div" [a, b]
  npow a n := .app "pow" [a, .nat n]
  rpow a b := .app "pow" [a, b]
  mod a b := .app "mod" [a, b]
  eq a b := .app "eq" [a, b]
  ne a b := .app "ne" [a, b]
  lt a b := .app "lt" [a, b]
  gt a b := .app "gt" [a, b]
  le a b := .app "le" [a, b]
  ge a b := .app "ge" [a, b]
  and a b := .app "and" [a, b]
  or a b := .app "or" [a, b]
  b2s a := a
  sqrt a := .app "sqrt" [a]
  sin a := .app "sin" [a]
  cos a := .app "cos" [a]
  tan a := .app "tan" [a]
  exp a := .app "exp" [a]
  log a := .app "log" [a]
  sinh a := .app "sinh" [a]
  arcsinh a := .app "arcsinh" [a]
  arctan a := .app "arctan" [a]
  arccos a := .app "arccos" [a]
  abs a := .app "absolute" [a]
  sign a := .app "sign" [a]
  arctan2 a b := .app "arctan2" [a, b]
  copysign a b := .app "copysign" [a, b]
  max a b := .app "maximum" [a, b]
  min a b := .app "minimum" [a, b]
  nanToNum a n p q := .app "nan_to_num" ([a]
    ++ (match n with | some x => [Sym.app "kw_nan" [x]] | none => [])
    ++ (match q with | some x => [Sym.app "kw_neginf" [x]] | none => [])
    ++ (match p with | some x => [Sym.app "kw_posinf" [x]] | none => []))
  isclose a b r t e := .app "isclose" [a, b, r, t, e]

end VE
