/- Reusable real-analysis lemmas behind the refinement proofs. -/
import VectorModel.Prim.Real
import Mathlib.Analysis.Complex.Norm
import Mathlib.Tactic.Ring
import Mathlib.Tactic.Linarith
import Mathlib.Tactic.Positivity
import Mathlib.Tactic.FieldSimp
import Mathlib.Tactic.LinearCombination

namespace VR
namespace L
open Real

/-- `rectify φ = φ - n·2π` for an integer `n` (the code's `(φ + π) % 2π - π`). -/
theorem rectify_eq (p : ℝ) : P.mod (p + π) (2 * π) - π = p - ((⌊(p + π) / (2 * π)⌋ : ℤ) : ℝ) * (2 * π) := by
  unfold P.mod; ring

theorem cos_rectify (p : ℝ) : cos (P.mod (p + π) (2 * π) - π) = cos p := by
  rw [rectify_eq, cos_sub_int_mul_two_pi]

theorem sin_rectify (p : ℝ) : sin (P.mod (p + π) (2 * π) - π) = sin p := by
  rw [rectify_eq, sin_sub_int_mul_two_pi]

/-- the code's rectify lands in `[-π, π)` -/
theorem rectify_mem (p : ℝ) : -π ≤ P.mod (p + π) (2 * π) - π ∧ P.mod (p + π) (2 * π) - π < π := by
  have h2 : (0 : ℝ) < 2 * π := by positivity
  unfold P.mod
  have hf := Int.floor_le ((p + π) / (2 * π))
  have hl := Int.lt_floor_add_one ((p + π) / (2 * π))
  rw [le_div_iff₀ h2] at hf
  rw [div_lt_iff₀ h2] at hl
  constructor <;> nlinarith

/-- `|w| cos(arg w) = Re w`, `|w| sin(arg w) = Im w` in the form the code produces: `sqrt(a²+b²)`, `arctan2 b a`. -/
theorem sqrt_mul_cos_arctan2 (a b : ℝ) : sqrt (a ^ 2 + b ^ 2) * cos (P.arctan2 b a) = a := by
  have := Complex.norm_mul_cos_arg ⟨a, b⟩
  rw [Complex.norm_eq_sqrt_sq_add_sq] at this
  simpa [P.arctan2] using this

theorem sqrt_mul_sin_arctan2 (a b : ℝ) : sqrt (a ^ 2 + b ^ 2) * sin (P.arctan2 b a) = b := by
  have := Complex.norm_mul_sin_arg ⟨a, b⟩
  rw [Complex.norm_eq_sqrt_sq_add_sq] at this
  simpa [P.arctan2] using this

/-- `arg (r cos p + i r sin p) = p` for `0 < r`, `-π < p ≤ π` -/
theorem arctan2_polar {r p : ℝ} (hr : 0 < r) (h1 : -π < p) (h2 : p ≤ π) :
    P.arctan2 (r * sin p) (r * cos p) = p := by
  unfold P.arctan2
  have : (⟨r * cos p, r * sin p⟩ : ℂ) = (r : ℂ) * (Complex.cos p + Complex.sin p * Complex.I) := by
    apply Complex.ext <;> simp [Complex.cos_ofReal_re, Complex.sin_ofReal_re, Complex.cos_ofReal_im, Complex.sin_ofReal_im]
  rw [this]
  exact Complex.arg_mul_cos_add_sin_mul_I hr ⟨h1, h2⟩

theorem sq_sqrt_sumsq (a b : ℝ) : sqrt (a ^ 2 + b ^ 2) ^ 2 = a ^ 2 + b ^ 2 :=
  Real.sq_sqrt (by positivity)

theorem sqrt_sumsq_pos {a b : ℝ} (h : a ≠ 0 ∨ b ≠ 0) : 0 < sqrt (a ^ 2 + b ^ 2) := by
  apply Real.sqrt_pos.mpr
  rcases h with h | h
  · have := sq_pos_of_ne_zero h; positivity
  · have := sq_pos_of_ne_zero h; positivity

end L
end VR
