/- Helper lemmas about the real-number prelude (`Prim/Real.lean`). -/
import VectorModel.Prim.Real

namespace VR
namespace P

theorem isclose_iff (a b r t e : ℝ) : isclose a b r t e ↔ |a - b| ≤ t + r * |b| := Iff.rfl

theorem isclose_refl {r t : ℝ} (hr : 0 ≤ r) (ht : 0 ≤ t) (a e : ℝ) : isclose a a r t e := by
  unfold isclose
  rw [sub_self, abs_zero]
  exact add_nonneg ht (mul_nonneg hr (abs_nonneg a))

theorem isclose_of_eq {a b r t : ℝ} (h : a = b) (hr : 0 ≤ r) (ht : 0 ≤ t) (e : ℝ) : isclose a b r t e := by
  subst h; exact isclose_refl hr ht a e

theorem isclose_mono {a b r t r' t' e e' : ℝ} (h : isclose a b r t e) (hr : r ≤ r') (ht : t ≤ t') :
    isclose a b r' t' e' := by
  unfold isclose at *
  have := mul_le_mul_of_nonneg_right hr (abs_nonneg b)
  linarith

end P
end VR
