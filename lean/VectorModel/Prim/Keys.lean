/-
Coordinate-system keys of the dispatch tables (import-free; shared by the real
and the executable copy of the generated model).
-/
namespace VK

inductive Az | xy | rhophi
  deriving DecidableEq, Repr, Inhabited
inductive Lon | z | theta | eta
  deriving DecidableEq, Repr, Inhabited
inductive Tmp | t | tau
  deriving DecidableEq, Repr, Inhabited
/-- the twelve Euler-angle axis orders of `rotate_euler` -/
inductive Ord | xzx | xyx | yxy | yzy | zyz | zxz | xzy | xyz | yxz | yzx | zyx | zxy
  deriving DecidableEq, Repr, Inhabited

/-- kind of one key slot (shape of a module's dispatch key) -/
inductive KS | az | lon | tmp | ord
  deriving DecidableEq, Repr, Inhabited

/-- one element of a dispatch key, untyped (used by the list-based `evalL`). -/
inductive KA | az (c : Az) | lon (c : Lon) | tmp (c : Tmp) | ord (c : Ord)
  deriving DecidableEq, Repr, Inhabited

def KA.az? : KA → Option Az | .az a => some a | _ => none
def KA.lon? : KA → Option Lon | .lon a => some a | _ => none
def KA.tmp? : KA → Option Tmp | .tmp a => some a | _ => none
def KA.ord? : KA → Option Ord | .ord a => some a | _ => none

/-- one declared result coordinate type (`None` = "no such coordinate in the result"). -/
inductive RP | az (c : Az) | lon (c : Lon) | tmp (c : Tmp) | none
  deriving DecidableEq, Repr, Inhabited

/-- declared result of a dispatch entry -/
inductive Ret | float | bool | vec (parts : List RP)
  deriving DecidableEq, Repr, Inhabited

/-- raw result of a compute function -/
inductive Out (S B : Type) | vals (l : List S) | truth (b : B)

def Az.all : List Az := [.xy, .rhophi]
def Lon.all : List Lon := [.z, .theta, .eta]
def Tmp.all : List Tmp := [.t, .tau]
def Ord.all : List Ord := [.xzx, .xyx, .yxy, .yzy, .zyz, .zxz, .xzy, .xyz, .yxz, .yzx, .zyx, .zxy]

def Az.str : Az → String | .xy => "xy" | .rhophi => "rhophi"
def Lon.str : Lon → String | .z => "z" | .theta => "theta" | .eta => "eta"
def Tmp.str : Tmp → String | .t => "t" | .tau => "tau"
def Ord.str : Ord → String
  | .xzx => "xzx" | .xyx => "xyx" | .yxy => "yxy" | .yzy => "yzy" | .zyz => "zyz" | .zxz => "zxz"
  | .xzy => "xzy" | .xyz => "xyz" | .yxz => "yxz" | .yzx => "yzx" | .zyx => "zyx" | .zxy => "zxy"
def KA.str : KA → String | .az a => a.str | .lon a => a.str | .tmp a => a.str | .ord a => a.str
def RP.str : RP → String | .az a => a.str | .lon a => a.str | .tmp a => a.str | .none => "None"
def Ret.str : Ret → String | .float => "float" | .bool => "bool" | .vec ps => ",".intercalate (ps.map RP.str)

def Az.names : Az → List String | .xy => ["x", "y"] | .rhophi => ["rho", "phi"]
def KA.names : KA → List String
  | .az a => a.names | .lon a => [a.str] | .tmp a => [a.str] | .ord _ => []

end VK
