/-
Real-number prelude: the ONLY place where a NumPy primitive of the compute
layer is given its real-number meaning (DESIGN.md 3.4).  The generated bodies
(`Gen/Real/*.lean`) are byte-identical to the executable bodies
(`Gen/Exec/*.lean`); they mention only the tokens defined here.
-/
import Mathlib.Analysis.SpecialFunctions.Trigonometric.Basic
import Mathlib.Analysis.SpecialFunctions.Trigonometric.Inverse
import Mathlib.Analysis.SpecialFunctions.Trigonometric.Arctan
import Mathlib.Analysis.SpecialFunctions.Complex.Arg
import Mathlib.Analysis.SpecialFunctions.Arsinh
import Mathlib.Analysis.SpecialFunctions.Log.Basic
import Mathlib.Analysis.SpecialFunctions.Pow.Real
import Mathlib.Analysis.SpecialFunctions.Sqrt
import Mathlib.Data.Real.Sign

namespace VR

/-- scalar type of the real copy -/
abbrev S := ℝ
/-- truth-value type of the real copy -/
abbrev B (_ : Type) : Type := Prop

namespace P
open Classical

/-- `numpy.arctan2(y, x)`: the argument of `x + i y`, in `(-π, π]`. -/
noncomputable def arctan2 (y x : ℝ) : ℝ := Complex.arg ⟨x, y⟩
/-- `numpy.sign` -/
noncomputable def sign (a : ℝ) : ℝ := Real.sign a
/-- `numpy.copysign(a, b)`; signed zeros are not modelled. -/
noncomputable def copysign (a b : ℝ) : ℝ := if 0 ≤ b then |a| else -|a|
/-- Python/NumPy `%` with the sign of the divisor. -/
noncomputable def mod (a m : ℝ) : ℝ := a - m * (⌊a / m⌋ : ℤ)
/-- `numpy.nan_to_num`: identity on finite values; the replacement values have no real meaning. -/
def nanToNum (e : ℝ) (_nan _posinf _neginf : Option ℝ) : ℝ := e
/-- `numpy.isclose(a, b, rtol, atol, equal_nan)` on finite values. -/
def isclose (a b rtol atol _equal_nan : ℝ) : Prop := |a - b| ≤ atol + rtol * |b|
/-- `a ** c` for a non-integer literal exponent. -/
noncomputable def rpow (a c : ℝ) : ℝ := Real.rpow a c
/-- Python `bool * float` coercion. -/
noncomputable def b2s (p : Prop) : ℝ := if p then 1 else 0
/-- junk constants: only ever occur inside `nan_to_num` replacement arguments (checked by the translator). -/
def inf : ℝ := 0
def nan : ℝ := 0

@[simp] theorem nanToNum_eq (e : ℝ) (a b c : Option ℝ) : nanToNum e a b c = e := rfl

end P

scoped notation "pSqrt" => Real.sqrt
scoped notation "pSin" => Real.sin
scoped notation "pCos" => Real.cos
scoped notation "pTan" => Real.tan
scoped notation "pExp" => Real.exp
scoped notation "pLog" => Real.log
scoped notation "pSinh" => Real.sinh
scoped notation "pArcsinh" => Real.arsinh
scoped notation "pArctan" => Real.arctan
scoped notation "pArccos" => Real.arccos
scoped notation "pAbs" => abs
scoped notation "pMax" => max
scoped notation "pMin" => min
scoped notation "pPi" => Real.pi
scoped notation "pArctan2" => P.arctan2
scoped notation "pSign" => P.sign
scoped notation "pCopysign" => P.copysign
scoped notation "pMod" => P.mod
scoped notation "pNanToNum" => P.nanToNum
scoped notation "pIsclose" => P.isclose
scoped notation "pRpow" => P.rpow
scoped notation "pB2S" => P.b2s
scoped notation "pInf" => P.inf
scoped notation "pNaN" => P.nan
scoped notation "pLibInf" => P.inf
scoped notation "pEq" => Eq
scoped notation "pNe" => Ne
scoped notation "pLt" => LT.lt
scoped notation "pGt" => GT.gt
scoped notation "pLe" => LE.le
scoped notation "pGe" => GE.ge
scoped notation "pAnd" => And
scoped notation "pOr" => Or

end VR

-- scalar / truth-value types of the third generated copy (`Gen/Sym`: the functions as SympyLib evaluates them)
namespace VS
abbrev S := ℝ
abbrev B (_ : Type) : Type := Prop
end VS
