/-
Executable prelude (import-free).  The generated bodies in `Gen/Exec/*.lean`
are byte-identical to those in `Gen/Real/*.lean`; here the tokens are bound to
the operations of a small `Scalar` class, instantiated at
* `Sym`   — a deep embedding that builds expression trees (translator
            validation and exact symbolic correspondence), and
* `Float` — IEEE double (numeric correspondence).
-/
namespace VE

class Scalar (S : Type) where
  B : Type
  ofNat : Nat → S
  ofSci : Nat → Bool → Nat → S
  pi : S
  libInf : S
  inf : S
  nan : S
  neg : S → S
  add : S → S → S
  sub : S → S → S
  mul : S → S → S
  div : S → S → S
  npow : S → Nat → S
  rpow : S → S → S
  mod : S → S → S
  eq : S → S → B
  ne : S → S → B
  lt : S → S → B
  gt : S → S → B
  le : S → S → B
  ge : S → S → B
  and : B → B → B
  or : B → B → B
  b2s : B → S
  sqrt : S → S
  sin : S → S
  cos : S → S
  tan : S → S
  exp : S → S
  log : S → S
  sinh : S → S
  arcsinh : S → S
  arctan : S → S
  arccos : S → S
  abs : S → S
  sign : S → S
  arctan2 : S → S → S
  copysign : S → S → S
  max : S → S → S
  min : S → S → S
  nanToNum : S → Option S → Option S → Option S → S
  isclose : S → S → S → S → S → B

variable {S : Type} [Scalar S]

scoped instance : Add S := ⟨Scalar.add⟩
scoped instance : Sub S := ⟨Scalar.sub⟩
scoped instance : Mul S := ⟨Scalar.mul⟩
scoped instance : Div S := ⟨Scalar.div⟩
scoped instance : Neg S := ⟨Scalar.neg⟩
scoped instance : HPow S Nat S := ⟨Scalar.npow⟩
scoped instance (n : Nat) : OfNat S n := ⟨Scalar.ofNat n⟩
scoped instance : OfScientific S := ⟨Scalar.ofSci⟩

/-- truth-value type of the executable copy -/
abbrev B (S : Type) [Scalar S] : Type := Scalar.B S
scoped notation "pSqrt" => Scalar.sqrt
scoped notation "pSin" => Scalar.sin
scoped notation "pCos" => Scalar.cos
scoped notation "pTan" => Scalar.tan
scoped notation "pExp" => Scalar.exp
scoped notation "pLog" => Scalar.log
scoped notation "pSinh" => Scalar.sinh
scoped notation "pArcsinh" => Scalar.arcsinh
scoped notation "pArctan" => Scalar.arctan
scoped notation "pArccos" => Scalar.arccos
scoped notation "pAbs" => Scalar.abs
scoped notation "pMax" => Scalar.max
scoped notation "pMin" => Scalar.min
scoped notation "pPi" => Scalar.pi
scoped notation "pArctan2" => Scalar.arctan2
scoped notation "pSign" => Scalar.sign
scoped notation "pCopysign" => Scalar.copysign
scoped notation "pMod" => Scalar.mod
scoped notation "pNanToNum" => Scalar.nanToNum
scoped notation "pIsclose" => Scalar.isclose
scoped notation "pRpow" => Scalar.rpow
scoped notation "pB2S" => Scalar.b2s
scoped notation "pInf" => Scalar.inf
scoped notation "pNaN" => Scalar.nan
scoped notation "pLibInf" => Scalar.libInf
scoped notation "pEq" => Scalar.eq
scoped notation "pNe" => Scalar.ne
scoped notation "pLt" => Scalar.lt
scoped notation "pGt" => Scalar.gt
scoped notation "pLe" => Scalar.le
scoped notation "pGe" => Scalar.ge
scoped notation "pAnd" => Scalar.and
scoped notation "pOr" => Scalar.or

end VE
