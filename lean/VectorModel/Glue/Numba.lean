/-
Hand-written executable model of what NUMBA-COMPILED code returns for the object vectors
(`backends/_numba_object.py`): for every property / method that has an `overload_attribute` /
`overload_method`, the decisions its overload takes AT TYPING TIME from the numba types of the operands —
which vector classes carry the method, the compute group (planar / spatial / lorentz), the dispatch
signature, the function looked up in the SAME `dispatch_map` tables the interpreter uses
(`numba_modules[group][name]` is `vector._compute.<group>.<name>.dispatch_map`), the result class
(`flavor_of`, `instance_class`) and how stored coordinates are passed through.

The model is written after the numba code branch by branch, INCLUDING the places where it deviates from the
interpreter (`Glue/Methods.lean`):
* `flavor_of`: momentum only if BOTH operands are momentum vectors (interpreter: ANY);
* `add_binary_method`: operands of different dimension are computed in the group of the MINIMUM dimension
  (`equal` / `not_equal` raise); the result is a vector of that dimension;
* `add_tolerance_method`: a 2D operand paired with a 3D/4D one is lifted with `to_Vector3D()` and then
  `is_parallel` is called WHATEVER the method's name; 3D paired with 4D is computed in the spatial group;
* `cross` accepts 4D operands (`to_Vector3D()` first);
* `boost_p4`, `boost_beta3`, `boost`, `boostCM_of*`: the result has the class of `self` alone; `boost_beta3`
  accepts a 4D "beta3" (its spatial part is used);
* `rotate_axis` accepts a 4D axis;
* `rotate_euler`: the order string is used literally (no `.lower()`);
* conversions take no keyword arguments; only the generic spellings exist; several momentum aliases are missing.

Errors: every compile-time rejection of a supported name (unknown attribute on that vector class, `TypingError`,
an exception inside the overload, no matching signature) is `.typeError`; names that numba does not define on
any vector class, and operands that are not object vectors, are `.unmodelled`.
-/
import VectorModel.Glue.Methods

set_option linter.constructorNameAsVariable false
set_option linter.unusedVariables false
namespace VG
open VK

section
variable {S B : Type}

/-! ### typing-time lookup and construction of the result -/

/-- `_from_signature(name, numba_modules[group][name], signature)`: every operand contributes the key atoms of its
first `n` coordinate groups (`numba_aztype`, `numba_ltype`, `numba_ttype`) and the stored coordinates of those groups
(`getcoord1`/`getcoord2`); `none` = the overload fails (an operand's numba type has no such group, or the signature is
not in the dispatch map) -/
def nbLookup (ev : Ev S B) (m : ModuleId) (scalars : List S) (ord : Option Ord) (ops : List (Vec S × Nat)) :
    Option (Out S B × Ret) :=
  match ops.mapM (fun (v, n) => operandKey v n) with
  | none => none
  | some parts =>
    ev m ((parts.map (·.1)).flatten ++ (match ord with | some o => [KA.ord o] | none => []))
      (scalars ++ (parts.map (·.2)).flatten)

/-- the compiled code returns the value of the compute function as it is (`returns` is `[float]` or `[bool]`) -/
def nbScalarRes (out : Out S B) (ret : Ret) : Except Err (Res S B) :=
  match ret, out with
  | .float, .vals [s] => .ok (.scalar s)
  | .bool, .truth b => .ok (.truth b)
  | _, _ => .error .assertionError

/-- `instance_class(azcoords(out1, out2)[, lcoords(out3)][, tcoords(out4)][, v.longitudinal][, v.temporal])` with
`azcoords = _coord_object_type[returns[0]]`, `lcoords = _coord_object_type[returns[1]]`, … taken POSITIONALLY from the
declared result: the first `k` coordinate groups are computed; with `pass` the remaining stored groups of `v` are passed
through, without it the result has exactly `k` groups. -/
def nbWrap (v : Vec S) (mom : Bool) (k : Nat) (pass : Bool) (raw : List S) (parts : List RP) : Except Err (Vec S) :=
  match k, parts with
  | 1, .az a :: _ =>
    if pass then .ok ⟨{ be := .obj, mom, az := a, lon := v.ty.lon, tmp := v.ty.tmp }, raw.take 2 ++ v.lonEl ++ v.tmpEl⟩
    else .ok ⟨{ be := .obj, mom, az := a, lon := none, tmp := none }, raw.take 2⟩
  | 2, .az a :: .lon l :: _ =>
    if pass then .ok ⟨{ be := .obj, mom, az := a, lon := some l, tmp := v.ty.tmp }, raw.take 3 ++ v.tmpEl⟩
    else .ok ⟨{ be := .obj, mom, az := a, lon := some l, tmp := none }, raw.take 3⟩
  | 3, .az a :: .lon l :: .tmp t :: _ =>
    .ok ⟨{ be := .obj, mom, az := a, lon := some l, tmp := some t }, raw.take 4⟩
  | _, _ => .error .typeError

def nbVecRes (v : Vec S) (mom : Bool) (k : Nat) (pass : Bool) (out : Out S B) (ret : Ret) : Except Err (Res S B) :=
  match ret, out with
  | .vec parts, .vals raw => (nbWrap v mom k pass raw parts).map .vec
  | _, _ => .error .typeError

/-- `flavor_of(v1, v2)`: the momentum class only if BOTH are momentum vectors -/
def nbFlavor (v1 v2 : Vec S) : Bool := v1.ty.mom && v2.ty.mom

/-! ### properties -/

/-- `add_planar_property` (2D, 3D, 4D classes), `add_spatial_property` (3D, 4D), `add_lorentz_property` (4D;
`Et`, `Et2`, `Mt`, `Mt2` on `MomentumObject4DType` only) -/
def nbProp (ev : Ev S B) (a : Acc) (v : Vec S) : Except Err (Res S B) :=
  if v.ty.dim < a.need || (a.momOnly && !v.ty.mom) then .error .typeError
  else match nbLookup ev a.mod [] none [(v, a.need - 1)] with
    | none => .error .typeError
    | some (out, ret) => nbScalarRes out ret

def nbGetS (ev : Ev S B) (a : Acc) (v : Vec S) : Except Err S :=
  match nbProp ev a v with
  | .ok (.scalar s) => .ok s
  | .ok _ => .error .assertionError
  | .error e => .error e

/-! ### methods whose result has the class of `self` (`instance_class = v.instance_class`) -/

/-- one vector operand, `k` coordinate groups computed, the others passed through -/
def nbSelf (ev : Ev S B) (m : ModuleId) (scalars : List S) (ord : Option Ord) (v : Vec S) (k : Nat) :
    Except Err (Res S B) :=
  match nbLookup ev m scalars ord [(v, k)] with
  | none => .error .typeError
  | some (out, ret) => nbVecRes v v.ty.mom k true out ret

/-- `scale2D` (all classes), `scale3D` (3D, 4D), `scale4D` (4D); `scale` is the one of the vector's own dimension -/
def nbScaleN (ev : Ev S B) (n : Nat) (f : S) (v : Vec S) : Except Err (Res S B) :=
  if v.ty.dim < n then .error .typeError else nbSelf ev (scaleMod n) [f] none v (n - 1)

/-- `neg2D`, `neg3D`, `neg4D`: `v.scale<n>D(-1)` -/
def nbNegN (ev : Ev S B) (K : Consts S) (n : Nat) (v : Vec S) : Except Err (Res S B) := nbScaleN ev n K.negOne v

/-- `to_Vector2D/3D/4D` (no arguments): stored groups kept verbatim, missing ones are `LongitudinalObjectZ(0.0)` /
`TemporalObjectT(0.0)`; same flavor -/
def nbToVector (zeroF : S) (n : Nat) (v : Vec S) : Except Err (Vec S) := toDim zeroF n v [] [] 0

/-- `add_coordinate_change`: every output coordinate is the PROPERTY of that name (`make_coordobject`), a group the
vector class does not have is `0.0`; same flavor -/
def nbToSystem (ev : Ev S B) (zeroF : S) (v : Vec S) (az : Az) (lon : Option Lon) (tmp : Option Tmp) :
    Except Err (Vec S) := do
  let d := v.ty.dim
  let azv ← (azCNames az).mapM (fun n => nbGetS ev n.acc v)
  let lonv ← match lon with
    | none => pure []
    | some l => if d ≥ 3 then (do let s ← nbGetS ev (lonCName l).acc v; pure [s]) else pure [zeroF]
  let tmpv ← match tmp with
    | none => pure []
    | some t => if d ≥ 4 then (do let s ← nbGetS ev (tmpCName t).acc v; pure [s]) else pure [zeroF]
  pure ⟨{ v.ty with az := az, lon := lon, tmp := tmp }, azv ++ lonv ++ tmpv⟩

/-! ### binary methods -/

/-- `add_binary_method(vectortype, gn, methodname)`: `some (some g)` = registered with the fixed group of `g` coordinate
groups on the classes of dimension `> g`; `some none` = the general methods (group from the minimum dimension) -/
def Bin.nbGroup : Bin → Option (Option Nat)
  | .deltaphi => some (some 1)
  | .deltaangle | .deltaeta | .deltaR | .deltaR2 => some (some 2)
  | .deltaRapidityPhi | .deltaRapidityPhi2 => some (some 3)
  | .dot | .add | .subtract | .equal | .not_equal => some none
  | _ => none

/-- `numba_modules[groupname][methodname]` for `g` coordinate groups -/
def Bin.nbMod : Bin → Nat → Option ModuleId
  | .deltaphi, 1 => some .planar_deltaphi
  | .deltaangle, 2 => some .spatial_deltaangle
  | .deltaeta, 2 => some .spatial_deltaeta
  | .deltaR, 2 => some .spatial_deltaR
  | .deltaR2, 2 => some .spatial_deltaR2
  | .deltaRapidityPhi, 3 => some .lorentz_deltaRapidityPhi
  | .deltaRapidityPhi2, 3 => some .lorentz_deltaRapidityPhi2
  | .dot, g => Bin.dot.sameDimMod (g + 1)
  | .add, g => Bin.add.sameDimMod (g + 1)
  | .subtract, g => Bin.subtract.sameDimMod (g + 1)
  | .equal, g => Bin.equal.sameDimMod (g + 1)
  | .not_equal, g => Bin.not_equal.sameDimMod (g + 1)
  | _, _ => none

/-- the overloads made by `add_binary_method` -/
def nbBinaryG (ev : Ev S B) (b : Bin) (v1 v2 : Vec S) : Except Err (Res S B) :=
  let d1 := v1.ty.dim
  let d2 := v2.ty.dim
  match b.nbGroup with
  | none => .error .assertionError
  | some gn =>
    -- a fixed-group method is an attribute of the classes that have the group
    if (match gn with | some g => decide (d1 < g + 1) | none => false) then .error .typeError else
    if (b == .equal || b == .not_equal) && d1 != d2 then .error .typeError else
    let g := match gn with | some g => g | none => min d1 d2 - 1
    match b.nbMod g with
    | none => .error .assertionError
    | some m =>
      match nbLookup ev m [] none [(v1, g), (v2, g)] with
      | none => .error .typeError
      | some (out, ret) =>
        match ret with
        | .float | .bool => nbScalarRes out ret
        | .vec _ => nbVecRes v1 (nbFlavor v1 v2) g false out ret

/-- the part of `add_tolerance_method` after the 2D special cases: planar on the 2D class, spatial on the 3D and 4D
classes -/
def nbTolCore (ev : Ev S B) (b : Bin) (v1 v2 : Vec S) (tol : S) : Except Err (Res S B) :=
  let g := if v1.ty.dim == 2 then 1 else 2
  match b.sameDimMod (g + 1) with
  | none => .error .assertionError
  | some m =>
    match nbLookup ev m [tol] none [(v1, g), (v2, g)] with
    | none => .error .typeError
    | some (out, ret) => nbScalarRes out ret

/-- `add_tolerance_method`: `is_parallel`, `is_antiparallel`, `is_perpendicular`.  In the two mixed 2D cases the
compiled implementation is `v1.to_Vector3D().is_parallel(v2, tolerance)` / `v1.is_parallel(v2.to_Vector3D(), tolerance)`
— `is_parallel`, whichever of the three methods was called. -/
def nbTol (ev : Ev S B) (K : Consts S) (b : Bin) (v1 v2 : Vec S) (tol : S) : Except Err (Res S B) :=
  let d1 := v1.ty.dim
  let d2 := v2.ty.dim
  if d1 == 2 && d2 != 2 then
    match nbToVector K.zeroF 3 v1 with
    | .ok w => nbTolCore ev .is_parallel w v2 tol
    | .error e => .error e
  else if d1 != 2 && d2 == 2 then
    match nbToVector K.zeroF 3 v2 with
    | .ok w => nbTolCore ev .is_parallel v1 w tol
    | .error e => .error e
  else nbTolCore ev b v1 v2 tol

/-- `add_isclose_method`: both 2D, both 3D or both 4D -/
def nbIsclose (ev : Ev S B) (v1 v2 : Vec S) (scalars : List S) : Except Err (Res S B) :=
  let d := v1.ty.dim
  if v2.ty.dim != d then .error .typeError else
  match Bin.isclose.sameDimMod d with
  | none => .error .assertionError
  | some m =>
    match nbLookup ev m scalars none [(v1, d - 1), (v2, d - 1)] with
    | none => .error .typeError
    | some (out, ret) => nbScalarRes out ret

/-- `cross` (3D and 4D classes): 4D operands go through `to_Vector3D()`; result `flavor_of(v1, v2).ProjectionClass3D` -/
def nbCross (ev : Ev S B) (K : Consts S) (v1 v2 : Vec S) : Except Err (Res S B) :=
  if v1.ty.dim < 3 || v2.ty.dim < 3 then .error .typeError else
  match nbToVector K.zeroF 3 v1, nbToVector K.zeroF 3 v2 with
  | .ok a, .ok b =>
    match nbLookup ev .spatial_cross [] none [(a, 2), (b, 2)] with
    | none => .error .typeError
    | some (out, ret) => nbVecRes a (nbFlavor a b) 2 false out ret
  | _, _ => .error .assertionError

/-- `boost_p4` (4D class): signature from all three groups of both; result class `v.instance_class` -/
def nbBoostP4 (ev : Ev S B) (v p4 : Vec S) : Except Err (Res S B) :=
  if v.ty.dim < 4 then .error .typeError else
  match nbLookup ev .lorentz_boost_p4 [] none [(v, 3), (p4, 3)] with
  | none => .error .typeError
  | some (out, ret) => nbVecRes v v.ty.mom 3 true out ret

/-- `boost_beta3` (4D class): azimuthal and longitudinal group of `beta3`, whatever its dimension -/
def nbBoostBeta3 (ev : Ev S B) (v beta3 : Vec S) : Except Err (Res S B) :=
  if v.ty.dim < 4 then .error .typeError else
  match nbLookup ev .lorentz_boost_beta3 [] none [(v, 3), (beta3, 2)] with
  | none => .error .typeError
  | some (out, ret) => nbVecRes v v.ty.mom 3 true out ret

/-- `rotate_axis` (3D and 4D classes): azimuthal and longitudinal group of `axis`, whatever its dimension -/
def nbRotateAxis (ev : Ev S B) (v axis : Vec S) (angle : S) : Except Err (Res S B) :=
  if v.ty.dim < 3 then .error .typeError else
  match nbLookup ev .spatial_rotate_axis [angle] none [(axis, 2), (v, 2)] with
  | none => .error .typeError
  | some (out, ret) => nbVecRes v v.ty.mom 2 true out ret

/-- every two-vector method, by the `Bin` enumeration; `extra` as in `binary` -/
def nbBin (ev : Ev S B) (K : Consts S) (b : Bin) (self o : Vec S) (extra : List S) : Except Err (Res S B) :=
  match b with
  | .add | .subtract | .dot | .equal | .not_equal | .deltaphi | .deltaangle | .deltaeta | .deltaR | .deltaR2
  | .deltaRapidityPhi | .deltaRapidityPhi2 => nbBinaryG ev b self o
  | .isclose => nbIsclose ev self o (if extra.isEmpty then [K.rtol, K.atol, K.bFalse] else extra)
  | .is_parallel | .is_antiparallel | .is_perpendicular =>
    match (if extra.isEmpty then [K.tol] else extra) with
    | [t] => nbTol ev K b self o t
    | _ => .error .typeError
  | .cross => nbCross ev K self o
  | .boost_p4 => nbBoostP4 ev self o
  | .boost_beta3 => nbBoostBeta3 ev self o
  | .boost =>
    if self.ty.dim < 4 then .error .typeError else
    if o.ty.dim == 3 then nbBoostBeta3 ev self o
    else if o.ty.dim == 4 then nbBoostP4 ev self o
    else .error .typeError
  | .boostCM_of_p4 =>
    -- `v.boost_p4(p4.neg3D)`
    if self.ty.dim < 4 then .error .typeError else
    match nbNegN ev K 3 o with
    | .ok (.vec n) => nbBoostP4 ev self n
    | .ok _ => .error .typeError
    | .error e => .error e
  | .boostCM_of_beta3 =>
    -- `v.boost_beta3(beta3.neg3D)`
    if self.ty.dim < 4 then .error .typeError else
    match nbNegN ev K 3 o with
    | .ok (.vec n) => nbBoostBeta3 ev self n
    | .ok _ => .error .typeError
    | .error e => .error e
  | .boostCM_of =>
    if self.ty.dim < 4 then .error .typeError else
    if o.ty.dim != 3 && o.ty.dim != 4 then .error .typeError else
    match nbNegN ev K 3 o with
    | .ok (.vec n) => if o.ty.dim == 3 then nbBoostBeta3 ev self n else nbBoostP4 ev self n
    | .ok _ => .error .typeError
    | .error e => .error e

/-! ### parsing layer: the names numba defines -/

/-- momentum spellings that have an `overload_attribute` (on the momentum classes of sufficient dimension) -/
def nbMomAccOfName : String → Option Acc
  | "px" => some .x | "py" => some .y | "pt" => some .rho | "pt2" => some .rho2
  | "pz" => some .z | "pseudorapidity" => some .eta | "p" => some .mag | "p2" => some .mag2
  | "E" => some .t | "energy" => some .t | "E2" => some .t2 | "energy2" => some .t2
  | "M" => some .tau | "mass" => some .tau | "M2" => some .tau2 | "mass2" => some .tau2
  | "transverse_energy" => some .Et | "transverse_energy2" => some .Et2
  | "transverse_mass" => some .Mt | "transverse_mass2" => some .Mt2
  | _ => none

/-- the 20 coordinate changes made by `add_coordinate_change` (generic spellings only) -/
def nbToTable : List (String × Az × Option Lon × Option Tmp) :=
  let az : List (String × Az) := [("xy", .xy), ("rhophi", .rhophi)]
  let lon : List (String × Lon) := [("z", .z), ("theta", .theta), ("eta", .eta)]
  let tmp : List (String × Tmp) := [("t", .t), ("tau", .tau)]
  (az.map fun (g, a) => (s!"to_{g}", a, none, none)) ++
  (az.flatMap fun (g, a) => lon.map fun (lg, l) => (s!"to_{g}{lg}", a, some l, none)) ++
  (az.flatMap fun (g, a) => lon.flatMap fun (lg, l) => tmp.map fun (tg, t) => (s!"to_{g}{lg}{tg}", a, some l, some t))

/-- every attribute name numba defines on some vector class (besides `azimuthal`, `longitudinal`, `temporal`) -/
def nbSupported : List String :=
  ["x", "y", "rho", "rho2", "phi", "z", "theta", "eta", "costheta", "cottheta", "mag", "mag2",
   "t", "t2", "tau", "tau2", "beta", "gamma", "rapidity", "Et", "Et2", "Mt", "Mt2",
   "px", "py", "pt", "pt2", "pz", "pseudorapidity", "p", "p2", "E", "energy", "E2", "energy2",
   "M", "mass", "M2", "mass2", "transverse_energy", "transverse_energy2", "transverse_mass", "transverse_mass2",
   "neg2D", "neg3D", "neg4D", "to_Vector2D", "to_Vector3D", "to_Vector4D"] ++
  nbToTable.map (·.1) ++
  ["deltaphi", "deltaangle", "deltaeta", "deltaR", "deltaR2", "deltaRapidityPhi", "deltaRapidityPhi2",
   "dot", "add", "subtract", "equal", "not_equal", "is_parallel", "is_antiparallel", "is_perpendicular", "isclose",
   "rotateZ", "transform2D", "unit", "scale", "scale2D", "scale3D", "scale4D", "cross",
   "rotateX", "rotateY", "rotate_axis", "rotate_euler", "rotate_nautical", "rotate_quaternion", "transform3D",
   "boost_p4", "boost_beta3", "boost", "boostCM_of_p4", "boostCM_of_beta3", "boostCM_of",
   "boostX", "boostY", "boostZ", "to_beta3", "transform4D", "is_timelike", "is_spacelike", "is_lightlike"]

/-- the order string of `rotate_euler` is used literally in the signature -/
def nbOrdOf (s : String) : Option Ord := Ord.all.find? (fun o => o.str == s)

def Arg.isObj : Arg S → Bool
  | .v w => w.ty.be == .obj
  | _ => true

/-- what the compiled code returns for `self.<meth>(args…)` (a property when `args = []`) -/
def numbaCall (ev : Ev S B) (K : Consts S) (A : Arith S) (meth : String) (self : Vec S) (args : List (Arg S)) :
    Except Err (Res S B) :=
  let d := self.ty.dim
  -- `u`: method of the classes of dimension ≥ need, result of the class of `self`, `k` groups computed
  let u (m : ModuleId) (k : Nat) (sc : List S) (ord : Option Ord := none) : Except Err (Res S B) :=
    if d < k + 1 then .error .typeError else nbSelf ev m sc ord self k
  -- predicate of the 4D class
  let p (m : ModuleId) (sc : List S) : Except Err (Res S B) :=
    if d < 4 then .error .typeError else
    match nbLookup ev m sc none [(self, 3)] with
    | none => .error .typeError
    | some (out, ret) => nbScalarRes out ret
  let transform (m : ModuleId) (n k : Nat) : Except Err (Res S B) :=
    if d < k + 1 then .error .typeError else
    let sc := args.filterMap fun a => match a with | .sc s => some s | _ => none
    if sc.length != n || args.length != n then .error .typeError else nbSelf ev m sc none self k
  let toVec (n : Nat) : Except Err (Res S B) :=
    if !args.isEmpty then .error .typeError else (nbToVector K.zeroF n self).map .vec
  if self.ty.be != .obj || !args.all Arg.isObj then .error .unmodelled else
  match nbMomAccOfName meth with
  | some a =>
    if !self.ty.mom then .error .typeError else
    if !args.isEmpty then .error .typeError else nbProp ev a self
  | none =>
  match nbToTable.find? (·.1 == meth) with
  | some (_, az, lon, tmp) =>
    if !args.isEmpty then .error .typeError else (nbToSystem ev K.zeroF self az lon tmp).map .vec
  | none =>
  match accOfName meth with
  | some a => if args.isEmpty then nbProp ev a self else .error .typeError
  | none =>
  match meth, args with
  | "neg2D", [] => nbNegN ev K 2 self
  | "neg3D", [] => nbNegN ev K 3 self
  | "neg4D", [] => nbNegN ev K 4 self
  | "to_Vector2D", _ => toVec 2
  | "to_Vector3D", _ => toVec 3
  | "to_Vector4D", _ => toVec 4
  | "unit", [] => u (unitMod d) (d - 1) []
  | "to_beta3", [] =>
    if d < 4 then .error .typeError else
    match nbLookup ev .lorentz_to_beta3 [] none [(self, 3)] with
    | none => .error .typeError
    | some (out, ret) => nbVecRes self self.ty.mom 2 false out ret
  | "rotateZ", [.sc a] => u .planar_rotateZ 1 [a]
  | "rotateX", [.sc a] => u .spatial_rotateX 2 [a]
  | "rotateY", [.sc a] => u .spatial_rotateY 2 [a]
  | "rotate_euler", [.sc p, .sc t, .sc q] => u .spatial_rotate_euler 2 [p, t, q] (some .zxz)
  | "rotate_euler", [.sc p, .sc t, .sc q, .str o] =>
    if d < 3 then .error .typeError else
    match nbOrdOf o with
    | some o => u .spatial_rotate_euler 2 [p, t, q] (some o)
    | none => .error .typeError
  | "rotate_nautical", [.sc yaw, .sc pitch, .sc roll] => u .spatial_rotate_euler 2 [roll, pitch, yaw] (some .zyx)
  | "rotate_quaternion", [.sc q0, .sc q1, .sc q2, .sc q3] => u .spatial_rotate_quaternion 2 [q0, q1, q2, q3]
  | "rotate_axis", [.v axis, .sc a] => nbRotateAxis ev self axis a
  | "scale", [.sc f] => nbScaleN ev d f self
  | "scale2D", [.sc f] => nbScaleN ev 2 f self
  | "scale3D", [.sc f] => nbScaleN ev 3 f self
  | "scale4D", [.sc f] => nbScaleN ev 4 f self
  | "is_timelike", [] => p .lorentz_is_timelike [K.zeroI]
  | "is_spacelike", [] => p .lorentz_is_spacelike [K.zeroI]
  | "is_lightlike", [] => p .lorentz_is_lightlike [K.tol]
  | "is_timelike", [.sc t] => p .lorentz_is_timelike [t]
  | "is_spacelike", [.sc t] => p .lorentz_is_spacelike [t]
  | "is_lightlike", [.sc t] => p .lorentz_is_lightlike [t]
  | "boostX", [.kw "beta" s] => u .lorentz_boostX_beta 3 [s]
  | "boostY", [.kw "beta" s] => u .lorentz_boostY_beta 3 [s]
  | "boostZ", [.kw "beta" s] => u .lorentz_boostZ_beta 3 [s]
  | "boostX", [.kw "gamma" s] => u .lorentz_boostX_gamma 3 [s]
  | "boostY", [.kw "gamma" s] => u .lorentz_boostY_gamma 3 [s]
  | "boostZ", [.kw "gamma" s] => u .lorentz_boostZ_gamma 3 [s]
  | "boostX", [.sc s] => u .lorentz_boostX_beta 3 [s]
  | "boostY", [.sc s] => u .lorentz_boostY_beta 3 [s]
  | "boostZ", [.sc s] => u .lorentz_boostZ_beta 3 [s]
  | "transform2D", _ => transform .planar_transform2D 4 1
  | "transform3D", _ => transform .spatial_transform3D 9 2
  | "transform4D", _ => transform .lorentz_transform4D 16 3
  | m, [.v o] => match binOfName m with
    | some b => nbBin ev K b self o []
    | none => if nbSupported.contains m then .error .typeError else .error .unmodelled
  | m, [.v o, .sc t] => match binOfName m with
    | some b => if b == .is_parallel || b == .is_antiparallel || b == .is_perpendicular then nbBin ev K b self o [t]
                else .error .typeError
    | none => if nbSupported.contains m then .error .typeError else .error .unmodelled
  | m, _ => if nbSupported.contains m then .error .typeError else .error .unmodelled

end
end VG
