/-
A HEAP model of NumPy vector arrays (properties C19 and C16): buffers, views, copies, pickles, writes through aliases.

The functional array model (`Glue/Arrays.lean`) identifies an array with its columns and cannot say that two Python
variables show THE SAME memory.  Here

* a `Heap α` is a list of BUFFERS, a buffer a list of RECORDS, a record a list of scalars (one per dtype field, in dtype
  order).  The scalar type `α` is a parameter: the model only MOVES values;
* a `Ref` (what a Python variable holding a `VectorNumpy*D` / `MomentumNumpy*D` is) = a buffer id + an index map (which
  buffer rows, in order, the array shows: slices, steps and views are reindexings of the SAME buffer) + the vector type
  (flavor and dtype field names — the field names ARE the coordinate system and the dimension);
* a `State α` = heap + environment of named variables.  Several variables may share a buffer id: aliases.

What is modelled of `/repo/src/vector/backends/numpy.py`:
  `_getitem` (string index: `array.view(numpy.ndarray)[generic name]`, momentum spellings resolved through
  `_repr_momentum_to_generic` on momentum classes only; integer index: a detached OBJECT of the same flavor / coordinate
  system; everything else `numpy.ndarray.__getitem__`: basic slices are VIEWS, boolean / integer-array indices are COPIES),
  `_setitem` (string index: a column write THROUGH the view; other index: `tofill = array[where]` then, field by field over
  the right-hand side's dtype names, `tofill[generic] = what[name]` — a missing field raises AFTER the earlier fields were
  written), `__array_finalize__` (views / slices / copies keep class and generic dtype names), `__reduce__`/`__setstate__`
  (a pickle round trip is a fresh buffer with the same records and the same class), `ndarray.view(cls)`, `ndarray.copy`,
  `copy.deepcopy`, Python's slice-index arithmetic (`slice.indices`), negative integer indices, NumPy's length-1 broadcast
  on assignment.

`step s op = (apply s eff, out)` where `(eff, out) = eval s op`: `eval` reads the state and decides the EFFECT
(nothing / bind a view / bind a fresh buffer / column writes into one buffer / unbind); `apply` performs it.
The file imports nothing.
-/

set_option linter.unusedVariables false

namespace VH

/-! ### types -/

/-- the vector type of an array: flavor + dtype field names (generic spelling, dtype order).  The field names are the
coordinate system; their number is the dimension. -/
structure VTy where
  mom : Bool
  fields : List String
deriving DecidableEq, Repr, Inhabited

def VTy.dim (t : VTy) : Nat := t.fields.length

/-- class name of the NumPy array class -/
def VTy.tag (t : VTy) : String := (if t.mom then "Momentum" else "Vector") ++ "Numpy" ++ toString t.dim ++ "D"

/-- class name of the element (object backend) class -/
def VTy.objTag (t : VTy) : String := (if t.mom then "Momentum" else "Vector") ++ "Object" ++ toString t.dim ++ "D"

/-- the coordinate systems `vector` knows: azimuthal pair, then optionally a longitudinal, then optionally a temporal name -/
def validFields : List String → Bool
  | [a, b] => (a, b) == ("x", "y") || (a, b) == ("rho", "phi")
  | [a, b, l] => ((a, b) == ("x", "y") || (a, b) == ("rho", "phi")) && (l == "z" || l == "theta" || l == "eta")
  | [a, b, l, t] => ((a, b) == ("x", "y") || (a, b) == ("rho", "phi")) && (l == "z" || l == "theta" || l == "eta")
      && (t == "t" || t == "tau")
  | _ => false

/-- `_repr_momentum_to_generic` -/
def momToGeneric : String → String
  | "px" => "x" | "py" => "y" | "pt" => "rho" | "pz" => "z"
  | "E" => "t" | "e" => "t" | "energy" => "t"
  | "M" => "tau" | "m" => "tau" | "mass" => "tau"
  | s => s

/-- the field a name index addresses: momentum classes translate momentum spellings, generic classes do not -/
def generic (mom : Bool) (n : String) : String := if mom then momToGeneric n else n

/-- every spelling under which field `f` can be addressed -/
def spellings (mom : Bool) (f : String) : List String :=
  if mom then
    match f with
    | "x" => ["x", "px"] | "y" => ["y", "py"] | "rho" => ["rho", "pt"] | "z" => ["z", "pz"]
    | "t" => ["t", "E", "e", "energy"] | "tau" => ["tau", "M", "m", "mass"]
    | s => [s]
  else [f]

/-- position of field `n` in the dtype -/
def pos (n : String) : List String → Option Nat
  | [] => none
  | f :: fs => if f = n then some 0 else (pos n fs).map (· + 1)

abbrev Record (α : Type) := List α
abbrev Buffer (α : Type) := List (Record α)
abbrev Heap (α : Type) := List (Buffer α)

/-- a live array: which buffer, which rows of it (in order), and its vector type -/
structure Ref where
  buf : Nat
  idx : List Nat
  ty : VTy
deriving DecidableEq, Repr, Inhabited

abbrev Env := List (String × Ref)

structure State (α : Type) where
  heap : Heap α
  env : Env

def State.empty {α : Type} : State α := ⟨[], []⟩

/-! ### reading -/

def find (v : String) : Env → Option Ref
  | [] => none
  | (k, r) :: e => if k = v then some r else find v e

def unbind (v : String) (e : Env) : Env := e.filter (fun p => p.1 != v)

def bind (e : Env) (w : String) (r : Ref) : Env := (w, r) :: unbind w e

/-- row `i` of buffer `b` (the empty record outside the heap: never reached from a well-formed state) -/
def rowAt {α : Type} (h : Heap α) (b i : Nat) : Record α := ((h[b]?.getD [])[i]?).getD []

/-- the records an array shows, in its own order -/
def sees {α : Type} (h : Heap α) (r : Ref) : List (Record α) := r.idx.map (rowAt h r.buf)

/-- reindexing: the entries of `l` at positions `ps`, in the order of `ps` -/
def pick {β : Type} (l : List β) (ps : List Nat) : List β := ps.filterMap (l[·]?)

/-- column `p` of a list of records (`none` where a record has no field `p`: never in a well-formed state) -/
def col {α : Type} (p : Nat) (recs : List (Record α)) : List (Option α) := recs.map (·[p]?)

/-! ### Python index arithmetic -/

/-- `range(n)[lo:hi:stp]` (`slice.indices`): `none` for step 0 (ValueError) -/
def slicePos (lo hi stp : Option Int) (n : Nat) : Option (List Nat) :=
  let step : Int := stp.getD 1
  if step = 0 then none else
  let N : Int := n
  let lower : Int := if step > 0 then 0 else -1
  let upper : Int := if step > 0 then N else N - 1
  let clamp : Int → Int := fun x => if x < 0 then max (x + N) lower else min x upper
  let start : Int := match lo with
    | none => if step > 0 then lower else upper
    | some x => clamp x
  let stop : Int := match hi with
    | none => if step > 0 then upper else lower
    | some x => clamp x
  if step > 0 then
    some ((List.range n).filter fun (i : Nat) =>
      decide (start ≤ (i : Int) ∧ (i : Int) < stop ∧ ((i : Int) - start) % step = 0))
  else
    some (((List.range n).filter fun (i : Nat) =>
      decide (stop < (i : Int) ∧ (i : Int) ≤ start ∧ (start - (i : Int)) % (-step) = 0)).reverse)

/-- integer index with Python's negative indices: `none` = IndexError -/
def normIdx (i : Int) (n : Nat) : Option Nat :=
  if 0 ≤ i ∧ i < (n : Int) then some i.toNat
  else if -(n : Int) ≤ i ∧ i < 0 then some (i + n).toNat
  else none

def normIdxs (is : List Int) (n : Nat) : Option (List Nat) := is.mapM (normIdx · n)

/-- positions selected by a boolean mask -/
def maskPos : List Bool → Nat → List Nat
  | [], _ => []
  | b :: bs, k => if b then k :: maskPos bs (k + 1) else maskPos bs (k + 1)

/-- NumPy's broadcast of a 1-d right-hand side against `n` target rows: same length, or length one -/
def bcast {β : Type} (n : Nat) (vals : List β) : Option (List β) :=
  if vals.length = n then some vals
  else match vals with
    | [x] => some (List.replicate n x)
    | _ => none

/-! ### writing -/

/-- the value paired with row `j` -/
def assoc {β : Type} : List Nat → List β → Nat → Option β
  | i :: is, x :: xs, j => if i = j then some x else assoc is xs j
  | _, _, _ => none

/-- write `vals` into field `p` of rows `idx` of buffer `b`; nothing else changes.  (The index map of a view never repeats a
row, so which of two values for the same row wins is unobservable.) -/
def writeCol {α : Type} (h : Heap α) (b : Nat) (idx : List Nat) (p : Nat) (vals : List α) : Heap α :=
  h.mapIdx fun b' buffer =>
    if b' = b then
      buffer.mapIdx fun i rec => match assoc idx vals i with
        | some x => rec.set p x
        | none => rec
    else buffer

def writeCols {α : Type} (h : Heap α) (b : Nat) (idx : List Nat) (ws : List (Nat × List α)) : Heap α :=
  ws.foldl (fun h pw => writeCol h b idx pw.1 pw.2) h

/-! ### operations -/

inductive Err | NameError | IndexError | ValueError
deriving DecidableEq, Repr

def Err.str : Err → String
  | .NameError => "NameError" | .IndexError => "IndexError" | .ValueError => "ValueError"

inductive Op (α : Type)
  /-- `v = vector.array(...)`: a fresh buffer -/
  | new (v : String) (ty : VTy) (recs : List (Record α))
  /-- `w = v[lo:hi:stp]` — a VIEW -/
  | slice (v w : String) (lo hi stp : Option Int)
  /-- `w = v[boolean array]` — a COPY -/
  | mask (v w : String) (bits : List Bool)
  /-- `w = v[[i, j, …]]` — a COPY -/
  | fancy (v w : String) (idxs : List Int)
  /-- `w = v.view(type(v))` -/
  | view (v w : String)
  | copy (v w : String)
  | deepcopy (v w : String)
  /-- `w = pickle.loads(pickle.dumps(v))` -/
  | pickle (v w : String)
  /-- `v[i]`: a detached object -/
  | intIndex (v : String) (i : Int)
  /-- `v[name]` -/
  | getName (v : String) (name : String)
  /-- `v[name] = vals` -/
  | setName (v : String) (name : String) (vals : List α)
  /-- `v[lo:hi] = v[srcLo : srcLo + (hi - lo)]` -/
  | setSlice (v : String) (lo hi srcLo : Int)
  /-- `v[lo:hi] = w[slo:shi]` -/
  | setElems (v : String) (lo hi : Option Int) (w : String) (slo shi : Option Int)
  | del (v : String)
  | dump

/-- what a variable shows, as printed by `dump` -/
structure Shown (α : Type) where
  name : String
  ty : VTy
  recs : List (Record α)
  /-- every name index that works on it, with the column it returns -/
  cols : List (String × List (Option α))

inductive Out (α : Type)
  | ok
  | vals (l : List (Option α))
  | elem (ty : VTy) (rec : Record α)
  | dump (vars : List (Shown α)) (shares : List (String × String))
  | err (e : Err)

inductive Eff (α : Type)
  | none
  /-- bind `w` to a reference into an EXISTING buffer -/
  | bindView (w : String) (r : Ref)
  /-- allocate a buffer holding `recs` and bind `w` to all of it -/
  | bindFresh (w : String) (ty : VTy) (recs : List (Record α))
  /-- column writes `(field position, values)` into rows `idx` of buffer `b` -/
  | writes (b : Nat) (idx : List Nat) (ws : List (Nat × List α))
  | del (v : String)

def apply {α : Type} (s : State α) : Eff α → State α
  | .none => s
  | .bindView w r => { s with env := bind s.env w r }
  | .bindFresh w ty recs =>
    { heap := s.heap ++ [recs], env := bind s.env w ⟨s.heap.length, List.range recs.length, ty⟩ }
  | .writes b idx ws => { s with heap := writeCols s.heap b idx ws }
  | .del v => { s with env := unbind v s.env }

/-- the column writes of `tofill[generic] = what[name]` for the names of the right-hand side, in order, up to the first
name the target does not have; the flag says whether all names were found -/
def fieldWrites {α : Type} (tfields : List String) (n : Nat) (sfields : List String) (srecs : List (Record α)) :
    List String → List (Nat × List α) × Bool
  | [] => ([], true)
  | nm :: rest =>
    match pos nm tfields, pos nm sfields with
    | some p, some q =>
      match bcast n (srecs.filterMap (·[q]?)) with
      | some vals => let (ws, ok) := fieldWrites tfields n sfields srecs rest; ((p, vals) :: ws, ok)
      | none => ([], false)
    | _, _ => ([], false)

/-- `rt[tlo:thi] = rs[slo:shi]` -/
def assignRows {α : Type} (s : State α) (rt : Ref) (tlo thi : Option Int) (rs : Ref) (slo shi : Option Int) :
    Eff α × Out α :=
  match slicePos tlo thi none rt.idx.length, slicePos slo shi none rs.idx.length with
  | some tp, some sp =>
    let tidx := pick rt.idx tp
    let srecs := pick (sees s.heap rs) sp
    if srecs.length = tidx.length ∨ srecs.length = 1 then
      let (ws, ok) := fieldWrites rt.ty.fields tidx.length rs.ty.fields srecs rs.ty.fields
      (.writes rt.buf tidx ws, if ok then .ok else .err .ValueError)
    else (.none, .err .ValueError)
  | _, _ => (.none, .err .ValueError)

def sharesOf (e : Env) : List (String × String) :=
  e.flatMap fun (a, ra) => e.filterMap fun (b, rb) =>
    if a < b ∧ ra.buf = rb.buf ∧ ra.idx.any (rb.idx.contains ·) then some (a, b) else none

def shown {α : Type} (h : Heap α) (name : String) (r : Ref) : Shown α :=
  let recs := sees h r
  { name := name, ty := r.ty, recs := recs,
    cols := r.ty.fields.flatMap fun f => (spellings r.ty.mom f).filterMap fun sp =>
      (pos (generic r.ty.mom sp) r.ty.fields).map fun p => (sp, col p recs) }

def sortEnv (e : Env) : Env := e.mergeSort (fun a b => !decide (b.1 < a.1))

/-- with a source variable -/
def withVar {α : Type} (s : State α) (v : String) (k : Ref → Eff α × Out α) : Eff α × Out α :=
  match find v s.env with
  | none => (.none, .err .NameError)
  | some r => k r

def eval {α : Type} (s : State α) : Op α → Eff α × Out α
  | .new v ty recs =>
    if validFields ty.fields && recs.all (·.length == ty.fields.length) then (.bindFresh v ty recs, .ok)
    else (.none, .err .ValueError)
  | .slice v w lo hi stp => withVar s v fun r =>
    match slicePos lo hi stp r.idx.length with
    | none => (.none, .err .ValueError)
    | some ps => (.bindView w ⟨r.buf, pick r.idx ps, r.ty⟩, .ok)
  | .view v w => withVar s v fun r => (.bindView w r, .ok)
  | .mask v w bits => withVar s v fun r =>
    -- (NumPy accepts a boolean index of length 0 on an array of any length: it selects nothing)
    if bits.length = r.idx.length ∨ bits = [] then (.bindFresh w r.ty (pick (sees s.heap r) (maskPos bits 0)), .ok)
    else (.none, .err .IndexError)
  | .fancy v w idxs => withVar s v fun r =>
    match normIdxs idxs r.idx.length with
    | none => (.none, .err .IndexError)
    | some ps => (.bindFresh w r.ty (pick (sees s.heap r) ps), .ok)
  | .copy v w => withVar s v fun r => (.bindFresh w r.ty (sees s.heap r), .ok)
  | .deepcopy v w => withVar s v fun r => (.bindFresh w r.ty (sees s.heap r), .ok)
  | .pickle v w => withVar s v fun r => (.bindFresh w r.ty (sees s.heap r), .ok)
  | .intIndex v i => withVar s v fun r =>
    match normIdx i r.idx.length with
    | none => (.none, .err .IndexError)
    | some k => (.none, .elem r.ty ((sees s.heap r)[k]?.getD []))
  | .getName v name => withVar s v fun r =>
    match pos (generic r.ty.mom name) r.ty.fields with
    | none => (.none, .err .ValueError)
    | some p => (.none, .vals (col p (sees s.heap r)))
  | .setName v name vals => withVar s v fun r =>
    match pos (generic r.ty.mom name) r.ty.fields with
    | none => (.none, .err .ValueError)
    | some p =>
      match bcast r.idx.length vals with
      | none => (.none, .err .ValueError)
      | some vs => (.writes r.buf r.idx [(p, vs)], .ok)
  | .setSlice v lo hi srcLo => withVar s v fun r =>
    assignRows s r (some lo) (some hi) r (some srcLo) (some (srcLo + (hi - lo)))
  | .setElems v lo hi w slo shi => withVar s v fun rt => withVar s w fun rs => assignRows s rt lo hi rs slo shi
  | .del v => withVar s v fun _ => (.del v, .ok)
  | .dump => (.none, .dump ((sortEnv s.env).map fun (n, r) => shown s.heap n r) (sharesOf (sortEnv s.env)))

def step {α : Type} (s : State α) (op : Op α) : State α × Out α :=
  let r := eval s op
  (apply s r.1, r.2)

def run {α : Type} (s : State α) (ops : List (Op α)) : State α := ops.foldl (fun s op => (step s op).1) s

/-- the variable an operation (re)binds or unbinds -/
def Op.target {α : Type} : Op α → Option String
  | .new v _ _ => some v
  | .slice _ w _ _ _ => some w
  | .mask _ w _ => some w
  | .fancy _ w _ => some w
  | .view _ w => some w
  | .copy _ w => some w
  | .deepcopy _ w => some w
  | .pickle _ w => some w
  | .del v => some v
  | _ => none

/-- the variable an operation writes THROUGH -/
def Op.writeVar {α : Type} : Op α → Option String
  | .setName v _ _ => some v
  | .setSlice v _ _ _ => some v
  | .setElems v _ _ _ _ _ => some v
  | _ => none

/-- the buffer an operation writes into, in state `s` -/
def writeBuf {α : Type} (s : State α) (op : Op α) : Option Nat :=
  op.writeVar.bind fun v => (find v s.env).map (·.buf)

end VH
