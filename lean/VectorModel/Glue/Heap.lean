/-
A HEAP model of NumPy vector arrays (properties C19 and C16): buffers, views, copies, pickles, writes through aliases,
n-dimensional shapes (reshape / transpose / partial and full integer indices / 0-d views), dtypes whose fields come in ANY
order and with extra (non-coordinate) fields, in-place arithmetic.

The functional array model (`Glue/Arrays.lean`) identifies an array with its columns and cannot say that two Python
variables show THE SAME memory.  Here

* a `Heap α` is a list of BUFFERS, a buffer a list of RECORDS, a record a list of scalars (one per dtype field, in dtype
  order).  The scalar type `α` is a parameter: the model only MOVES values (in-place arithmetic takes the arithmetic as a
  function argument);
* a `Ref` (what a Python variable holding a `VectorNumpy*D` / `MomentumNumpy*D` is) = a buffer id + an index map (which
  buffer rows the array shows, in C order of its SHAPE: slices, steps, transposes, reshapes and views are reindexings of the
  SAME buffer) + its shape (product = length of the index map) + the vector type (flavor and ALL dtype field names in dtype
  order — the coordinate names among them, whatever their order and whatever else stands between them, ARE the coordinate
  system and the dimension);
* a `State α` = heap + environment of named variables.  Several variables may share a buffer id: aliases.

What is modelled of `/repo/src/vector/backends/numpy.py`:
  `_getitem` (string index: `array.view(numpy.ndarray)[generic name]`, momentum spellings resolved through
  `_repr_momentum_to_generic` on momentum classes only; an index whose result is a `numpy.void` — a FULL integer tuple, and only
  that: `v[i, ...]` is a 0-d ARRAY — becomes a detached OBJECT of the same flavor / coordinate system whose coordinates are the
  record's fields BY NAME; everything else `numpy.ndarray.__getitem__`: basic slices, partial integer tuples are VIEWS,
  boolean / integer-array indices are COPIES),
  `_setitem` (string index: a column write THROUGH the view; other index: `tofill = array[where]` then, field by field over
  the right-hand side's dtype names, `tofill[generic] = what[name]` — a missing field raises AFTER the earlier fields were
  written), `__array_finalize__` (views / slices / copies keep class and generic dtype names), `__reduce__`/`__setstate__`
  (a pickle round trip is a fresh buffer with the same records, shape and class), `ndarray.view(cls)`, `ndarray.copy`,
  `copy.deepcopy`, `ndarray.reshape` (a view exactly when the index map is STRIDED under the new shape, else a C-order copy),
  `ndarray.T`, the memory layout of fresh arrays (`copy`: C order; `deepcopy`: NumPy's "K" order; pickle: Fortran order for
  Fortran-contiguous arrays, else C order — observable through later reshapes), `__array_ufunc__` with `out=` (`v *= k`,
  `v += w`, `v -= w`: `result = v.scale(k)` …, then `out[name] = result[name]` for the dtype names of `out` IN ORDER — an extra
  field raises after the coordinates before it were written — and the statement REBINDS `v` to `result`, a fresh array with the
  canonical field order), Python's slice-index arithmetic (`slice.indices`), negative integer indices, NumPy's broadcasting on
  assignment.

`step s op = (apply s eff, out)` where `(eff, out) = eval s op`: `eval` reads the state and decides the EFFECT
(nothing / bind a view / bind a fresh buffer / column writes into one buffer / such writes and a fresh buffer / unbind);
`apply` performs it.  The file imports nothing.
-/

set_option linter.unusedVariables false

namespace VH

/-! ### types -/

/-- the vector type of an array: flavor + ALL dtype field names (generic spelling, dtype order, extras included) -/
structure VTy where
  mom : Bool
  fields : List String
deriving DecidableEq, Repr, Inhabited

/-- the coordinate names, in `vector`'s canonical order -/
def coordOrder : List String := ["x", "y", "rho", "phi", "z", "theta", "eta", "t", "tau"]

def isCoord (f : String) : Bool := coordOrder.contains f

/-- the coordinate system: the coordinate names among the fields, in canonical order (NOT in dtype order) -/
def VTy.coords (t : VTy) : List String := coordOrder.filter (t.fields.contains ·)

def VTy.dim (t : VTy) : Nat := t.coords.length

/-- class name of the NumPy array class -/
def VTy.tag (t : VTy) : String := (if t.mom then "Momentum" else "Vector") ++ "Numpy" ++ toString t.dim ++ "D"

/-- class name of the element (object backend) class -/
def VTy.objTag (t : VTy) : String := (if t.mom then "Momentum" else "Vector") ++ "Object" ++ toString t.dim ++ "D"

/-- the coordinate systems `vector` knows: azimuthal pair, then optionally a longitudinal, then optionally a temporal name -/
def validSystem : List String → Bool
  | [a, b] => (a, b) == ("x", "y") || (a, b) == ("rho", "phi")
  | [a, b, l] => ((a, b) == ("x", "y") || (a, b) == ("rho", "phi")) && (l == "z" || l == "theta" || l == "eta")
  | [a, b, l, t] => ((a, b) == ("x", "y") || (a, b) == ("rho", "phi")) && (l == "z" || l == "theta" || l == "eta")
      && (t == "t" || t == "tau")
  | _ => false

/-- `_repr_momentum_to_generic` -/
def momToGeneric : String → String
  | "px" => "x" | "py" => "y" | "pt" => "rho" | "pz" => "z"
  | "E" => "t" | "e" => "t" | "energy" => "t"
  | "M" => "tau" | "m" => "tau" | "mass" => "tau"
  | s => s

def nodupB : List String → Bool
  | [] => true
  | f :: fs => !fs.contains f && nodupB fs

/-- a dtype the model accepts: distinct generic names whose coordinate names form exactly one coordinate system -/
def validFields (fs : List String) : Bool :=
  validSystem (coordOrder.filter (fs.contains ·)) && nodupB fs && fs.all (fun f => momToGeneric f == f)

/-- the field a name index addresses: momentum classes translate momentum spellings, generic classes do not -/
def generic (mom : Bool) (n : String) : String := if mom then momToGeneric n else n

/-- every spelling under which field `f` can be addressed -/
def spellings (mom : Bool) (f : String) : List String :=
  if mom then
    match f with
    | "x" => ["x", "px"] | "y" => ["y", "py"] | "rho" => ["rho", "pt"] | "z" => ["z", "pz"]
    | "t" => ["t", "E", "e", "energy"] | "tau" => ["tau", "M", "m", "mass"]
    | s => [s]
  else [f]

/-- position of field `n` in the dtype -/
def pos (n : String) : List String → Option Nat
  | [] => none
  | f :: fs => if f = n then some 0 else (pos n fs).map (· + 1)

abbrev Record (α : Type) := List α
abbrev Buffer (α : Type) := List (Record α)
abbrev Heap (α : Type) := List (Buffer α)

/-- a live array: which buffer, which rows of it (in C order of `shape`), its vector type, its shape -/
structure Ref where
  buf : Nat
  idx : List Nat
  ty : VTy
  shape : List Nat
deriving DecidableEq, Repr, Inhabited

abbrev Env := List (String × Ref)

structure State (α : Type) where
  heap : Heap α
  env : Env

def State.empty {α : Type} : State α := ⟨[], []⟩

/-! ### reading -/

def find (v : String) : Env → Option Ref
  | [] => none
  | (k, r) :: e => if k = v then some r else find v e

def unbind (v : String) (e : Env) : Env := e.filter (fun p => p.1 != v)

def bind (e : Env) (w : String) (r : Ref) : Env := (w, r) :: unbind w e

/-- row `i` of buffer `b` (the empty record outside the heap: never reached from a well-formed state) -/
def rowAt {α : Type} (h : Heap α) (b i : Nat) : Record α := ((h[b]?.getD [])[i]?).getD []

/-- the records an array shows, in C order of its shape -/
def sees {α : Type} (h : Heap α) (r : Ref) : List (Record α) := r.idx.map (rowAt h r.buf)

/-- reindexing: the entries of `l` at positions `ps`, in the order of `ps` -/
def pick {β : Type} (l : List β) (ps : List Nat) : List β := ps.filterMap (l[·]?)

/-- column `p` of a list of records (`none` where a record has no field `p`: never in a well-formed state) -/
def col {α : Type} (p : Nat) (recs : List (Record α)) : List (Option α) := recs.map (·[p]?)

/-- the coordinates of a record BY NAME, in the canonical order of the coordinate system (extra fields are dropped) -/
def coordsOf {α : Type} (ty : VTy) (rec : Record α) : Record α :=
  ty.coords.filterMap fun c => (pos c ty.fields).bind (rec[·]?)

/-! ### shapes and strides -/

def prod : List Nat → Nat
  | [] => 1
  | d :: ds => d * prod ds

/-- C-order strides (in records) of a shape -/
def cstrides : List Nat → List Int
  | [] => []
  | _ :: ds => (prod ds : Int) :: cstrides ds

/-- the positions `o + Σ nₖ·sₖ` for all multi-indices `n` of `shape`, in C order -/
def enum : List Nat → List Int → Int → List Int
  | [], _, o => [o]
  | d :: ds, ss, o => (List.range d).flatMap fun (i : Nat) => enum ds ss.tail (o + (i : Int) * ss.headD 0)

def nats (l : List Int) : List Nat := l.map Int.toNat

/-- `v.T`: for each element of the transposed array (C order of the reversed shape) its C-order position in `v` -/
def transposePs (sh : List Nat) : List Nat := nats (enum sh.reverse (cstrides sh).reverse 0)

/-- Fortran layout of a fresh array of shape `sh`: for each element (C order) its position in memory -/
def fLayout (sh : List Nat) : List Nat := nats (enum sh (cstrides sh.reverse).reverse 0)

/-- the stride of an index map along each axis of `sh` (0 along axes of length ≤ 1, where it does not matter) -/
def stridesOf (sh : List Nat) (idx : List Nat) : List Int :=
  (sh.zip (cstrides sh)).map fun (d, c) => if d > 1 then ((idx[c.toNat]?.getD 0 : Nat) : Int) - (idx.headD 0 : Nat) else 0

/-- the index map is STRIDED under shape `sh`: NumPy can show these rows with this shape without copying -/
def strided (sh : List Nat) (idx : List Nat) : Bool :=
  idx.map Int.ofNat == enum sh (stridesOf sh idx) (idx.headD 0 : Nat)

/-- consecutive rows -/
def contig (idx : List Nat) : Bool := idx == (List.range idx.length).map (· + idx.headD 0)

/-- memory layout of `copy.deepcopy(v)` (NumPy's order "K"): the axes keep the ORDER of their strides' absolute values -/
def kLayout (sh : List Nat) (idx : List Nat) : List Nat :=
  let st := stridesOf sh idx
  let axes := (List.range sh.length).filter fun k => sh[k]?.getD 1 > 1
  let sorted := axes.mergeSort fun a b => decide ((st[a]?.getD 0).natAbs ≥ (st[b]?.getD 0).natAbs)
  let ns := sorted.foldr (fun k (acc : List (Nat × Int) × Int) => ((k, acc.2) :: acc.1, acc.2 * (sh[k]?.getD 1 : Nat))) ([], 1)
  nats (enum sh ((List.range sh.length).map fun k => (List.lookup k ns.1).getD 0) 0)

/-- memory layout of a pickle round trip: Fortran order for arrays that are Fortran- but not C-contiguous, else C order -/
def pickleLayout (sh : List Nat) (idx : List Nat) : List Nat :=
  if !contig idx && contig (pick idx (transposePs sh)) then fLayout sh else List.range idx.length

/-! ### Python index arithmetic -/

/-- `range(n)[lo:hi:stp]` (`slice.indices`): `none` for step 0 (ValueError) -/
def slicePos (lo hi stp : Option Int) (n : Nat) : Option (List Nat) :=
  let step : Int := stp.getD 1
  if step = 0 then none else
  let N : Int := n
  let lower : Int := if step > 0 then 0 else -1
  let upper : Int := if step > 0 then N else N - 1
  let clamp : Int → Int := fun x => if x < 0 then max (x + N) lower else min x upper
  let start : Int := match lo with
    | none => if step > 0 then lower else upper
    | some x => clamp x
  let stop : Int := match hi with
    | none => if step > 0 then upper else lower
    | some x => clamp x
  if step > 0 then
    some ((List.range n).filter fun (i : Nat) =>
      decide (start ≤ (i : Int) ∧ (i : Int) < stop ∧ ((i : Int) - start) % step = 0))
  else
    some (((List.range n).filter fun (i : Nat) =>
      decide (stop < (i : Int) ∧ (i : Int) ≤ start ∧ (start - (i : Int)) % (-step) = 0)).reverse)

/-- integer index with Python's negative indices: `none` = IndexError -/
def normIdx (i : Int) (n : Nat) : Option Nat :=
  if 0 ≤ i ∧ i < (n : Int) then some i.toNat
  else if -(n : Int) ≤ i ∧ i < 0 then some (i + n).toNat
  else none

def normIdxs (is : List Int) (n : Nat) : Option (List Nat) := is.mapM (normIdx · n)

/-- positions selected by a boolean mask -/
def maskPos : List Bool → Nat → List Nat
  | [], _ => []
  | b :: bs, k => if b then k :: maskPos bs (k + 1) else maskPos bs (k + 1)

/-- positions into an index map as computed by the shape arithmetic below: they never repeat a position.  (Checked HERE, so that
no theorem depends on that arithmetic; were it ever wrong the array would show nothing and the correspondence harness would
report it.) -/
def distinct (ps : List Nat) : List Nat := if ps.Nodup then ps else []

/-- a slice along the FIRST axis: the new shape and, for each element of the result, its C-order position in the source
(`none`: a 0-d array cannot be sliced, or step 0) -/
def sliceAxis0 (sh : List Nat) (lo hi stp : Option Int) : Option (List Nat × List Nat) :=
  match sh with
  | [] => none
  | d :: rest =>
    match slicePos lo hi stp d with
    | none => none
    | some fp => some (fp.length :: rest, fp.flatMap fun i => (List.range (prod rest)).map (· + i * prod rest))

/-- an integer tuple `is` against the leading axes of `sh`: the C-order position of the first selected element and the
remaining shape (`none` = IndexError: too many indices, or one out of bounds) -/
def tupleOffset : List Nat → List Int → Option (Nat × List Nat)
  | sh, [] => some (0, sh)
  | [], _ :: _ => none
  | d :: rest, i :: is =>
    match normIdx i d, tupleOffset rest is with
    | some k, some (o, sh') => some (k * prod rest + o, sh')
    | _, _ => none

/-- NumPy's broadcast of a 1-d right-hand side against `n` target rows: same length, or length one -/
def bcast {β : Type} (n : Nat) (vals : List β) : Option (List β) :=
  if vals.length = n then some vals
  else match vals with
    | [x] => some (List.replicate n x)
    | _ => none

/-- broadcast of equally long shapes: for each target element (C order) the C-order position of the source element -/
def bmap : List Nat → List Nat → Option (List Nat)
  | [], [] => some [0]
  | s :: ss, t :: ts =>
    match bmap ss ts with
    | none => none
    | some inner =>
      if s = t then some ((List.range t).flatMap fun i => inner.map (· + i * prod ss))
      else if s = 1 then some ((List.range t).flatMap fun _ => inner)
      else none
  | _, _ => none

/-- NumPy's broadcast of a source of shape `ss` on ASSIGNMENT to a target of shape `ts`: surplus leading axes of the source
must have length one and are dropped; missing leading axes are added with length one -/
def bcastIdx (ss ts : List Nat) : Option (List Nat) :=
  if ss.length ≤ ts.length then bmap (List.replicate (ts.length - ss.length) 1 ++ ss) ts
  else if (ss.take (ss.length - ts.length)).all (· == 1) then bmap (ss.drop (ss.length - ts.length)) ts
  else none

/-! ### writing -/

/-- the value paired with row `j` -/
def assoc {β : Type} : List Nat → List β → Nat → Option β
  | i :: is, x :: xs, j => if i = j then some x else assoc is xs j
  | _, _, _ => none

/-- write `vals` into field `p` of rows `idx` of buffer `b`; nothing else changes.  (The index map of a view never repeats a
row, so which of two values for the same row wins is unobservable.) -/
def writeCol {α : Type} (h : Heap α) (b : Nat) (idx : List Nat) (p : Nat) (vals : List α) : Heap α :=
  h.mapIdx fun b' buffer =>
    if b' = b then
      buffer.mapIdx fun i rec => match assoc idx vals i with
        | some x => rec.set p x
        | none => rec
    else buffer

def writeCols {α : Type} (h : Heap α) (b : Nat) (idx : List Nat) (ws : List (Nat × List α)) : Heap α :=
  ws.foldl (fun h pw => writeCol h b idx pw.1 pw.2) h

/-! ### operations -/

inductive Err | NameError | IndexError | ValueError | Unmodelled
deriving DecidableEq, Repr

def Err.str : Err → String
  | .NameError => "NameError" | .IndexError => "IndexError" | .ValueError => "ValueError" | .Unmodelled => "unmodelled"

inductive Op (α : Type)
  /-- `v = vector.array(records, dtype=[…])` of the given shape: a fresh buffer -/
  | new (v : String) (ty : VTy) (shape : List Nat) (recs : List (Record α))
  /-- `w = v[lo:hi:stp]` (first axis) — a VIEW -/
  | slice (v w : String) (lo hi stp : Option Int)
  /-- `w = v[boolean array]` — a COPY (1-d arrays) -/
  | mask (v w : String) (bits : List Bool)
  /-- `w = v[[i, j, …]]` — a COPY (1-d arrays) -/
  | fancy (v w : String) (idxs : List Int)
  /-- `w = v.view(type(v))` -/
  | view (v w : String)
  | copy (v w : String)
  | deepcopy (v w : String)
  /-- `w = pickle.loads(pickle.dumps(v))` -/
  | pickle (v w : String)
  /-- `w = v.reshape(dims)`: a VIEW when the rows `v` shows are strided under the new shape, else a COPY -/
  | reshape (v w : String) (dims : List Nat)
  /-- `w = v.T` — a VIEW -/
  | transpose (v w : String)
  /-- `w = v[i, j]` (fewer indices than axes: a sub-array VIEW) or, with `ell`, `w = v[i, j, ...]` (a VIEW, 0-d for a full
  tuple) -/
  | sub (v w : String) (is : List Int) (ell : Bool)
  /-- `v[i, j, …]`: with a full tuple a detached OBJECT, with a partial one an array (not bound) -/
  | intIndex (v : String) (is : List Int)
  /-- `v[name]` -/
  | getName (v : String) (name : String)
  /-- `v[name] = vals` (as many values as `v` has elements, in C order, or one) -/
  | setName (v : String) (name : String) (vals : List α)
  /-- `v[lo:hi] = v[srcLo : srcLo + (hi - lo)]` -/
  | setSlice (v : String) (lo hi srcLo : Int)
  /-- `v[lo:hi] = w[slo:shi]` -/
  | setElems (v : String) (lo hi : Option Int) (w : String) (slo shi : Option Int)
  /-- `v ∘= k` on a Cartesian array (`v *= k` is `imap v (· * k)`) -/
  | imap (v : String) (f : α → α)
  /-- `v ∘= w` on Cartesian arrays of the same system and shape (`v += w` is `izip v w (· + ·)`) -/
  | izip (v w : String) (g : α → α → α)
  | del (v : String)
  | dump

/-- what a variable shows, as printed by `dump` -/
structure Shown (α : Type) where
  name : String
  ty : VTy
  shape : List Nat
  recs : List (Record α)
  /-- every name index that works on it, with the column it returns -/
  cols : List (String × List (Option α))

inductive Out (α : Type)
  | ok
  | vals (l : List (Option α))
  /-- an element object: its type (flavor, coordinate system) and its coordinates in the canonical order of the system -/
  | elem (ty : VTy) (coords : Record α)
  /-- an (unbound) array result -/
  | arr (ty : VTy) (shape : List Nat)
  | dump (vars : List (Shown α)) (shares : List (String × String))
  | err (e : Err)

inductive Eff (α : Type)
  | none
  /-- bind `w` to a reference into an EXISTING buffer -/
  | bindView (w : String) (r : Ref)
  /-- allocate a buffer for the records `recs` (given in C order of `shape`) with memory layout `lay` and bind `w` to it -/
  | bindFresh (w : String) (ty : VTy) (shape : List Nat) (lay : List Nat) (recs : List (Record α))
  /-- column writes `(field position, values)` into rows `idx` of buffer `b` -/
  | writes (b : Nat) (idx : List Nat) (ws : List (Nat × List α))
  /-- such writes, then `w` is REBOUND to a fresh C-order buffer holding `recs` -/
  | writesFresh (b : Nat) (idx : List Nat) (ws : List (Nat × List α)) (w : String) (ty : VTy) (shape : List Nat)
      (recs : List (Record α))
  | del (v : String)

/-- a memory layout for `n` records: a permutation of `0 … n-1` -/
def IsPerm (lay : List Nat) (n : Nat) : Prop := lay.length = n ∧ lay.Nodup ∧ ∀ i ∈ lay, i < n

instance (lay : List Nat) (n : Nat) : Decidable (IsPerm lay n) := by unfold IsPerm; infer_instance

/-- the layout used: the requested one (always a permutation — checked here so that no theorem depends on it), else C order -/
def layoutOr (lay : List Nat) (n : Nat) : List Nat := if IsPerm lay n then lay else List.range n

/-- allocate: memory cell `m` of the new buffer holds the record whose layout position is `m` -/
def alloc {α : Type} (s : State α) (w : String) (ty : VTy) (shape : List Nat) (lay : List Nat) (recs : List (Record α)) :
    State α :=
  let lay' := layoutOr lay recs.length
  { heap := s.heap ++ [(List.range recs.length).map fun m => (assoc lay' recs m).getD []],
    env := bind s.env w ⟨s.heap.length, lay', ty, shape⟩ }

def apply {α : Type} (s : State α) : Eff α → State α
  | .none => s
  | .bindView w r => { s with env := bind s.env w r }
  | .bindFresh w ty shape lay recs => alloc s w ty shape lay recs
  | .writes b idx ws => { s with heap := writeCols s.heap b idx ws }
  | .writesFresh b idx ws w ty shape recs =>
    alloc { s with heap := writeCols s.heap b idx ws } w ty shape (List.range recs.length) recs
  | .del v => { s with env := unbind v s.env }

/-- the column writes of `tofill[generic] = what[name]` for the names of the right-hand side, in order, up to the first
name the target does not have; the flag says whether all names were found.  `bm`: for each target element the position of
the source element (broadcast) -/
def fieldWrites {α : Type} (tfields : List String) (bm : List Nat) (sfields : List String) (srecs : List (Record α)) :
    List String → List (Nat × List α) × Bool
  | [] => ([], true)
  | nm :: rest =>
    match pos nm tfields, pos nm sfields with
    | some p, some q =>
      let (ws, ok) := fieldWrites tfields bm sfields srecs rest
      ((p, pick (srecs.filterMap (·[q]?)) bm) :: ws, ok)
    | _, _ => ([], false)

/-- the rows of `r`'s index map that `r[lo:hi]` addresses -/
def sliceRows (r : Ref) (lo hi : Option Int) : List Nat :=
  match sliceAxis0 r.shape lo hi none with
  | some (_, ps) => pick r.idx ps
  | none => []

/-- `rt[tlo:thi] = rs[slo:shi]` -/
def assignRows {α : Type} (s : State α) (rt : Ref) (tlo thi : Option Int) (rs : Ref) (slo shi : Option Int) :
    Eff α × Out α :=
  match sliceAxis0 rt.shape tlo thi none, sliceAxis0 rs.shape slo shi none with
  | some (tsh, tp), some (ssh, sp) =>
    match bcastIdx ssh tsh with
    | some bm =>
      let (ws, ok) := fieldWrites rt.ty.fields bm rs.ty.fields (pick (sees s.heap rs) sp) rs.ty.fields
      (.writes rt.buf (sliceRows rt tlo thi) ws, if ok then .ok else .err .ValueError)
    | none => (.none, .err .ValueError)
  | _, _ => (.none, .err .IndexError)

def sharesOf (e : Env) : List (String × String) :=
  e.flatMap fun (a, ra) => e.filterMap fun (b, rb) =>
    if a < b ∧ ra.buf = rb.buf ∧ ra.idx.any (rb.idx.contains ·) then some (a, b) else none

def shown {α : Type} (h : Heap α) (name : String) (r : Ref) : Shown α :=
  let recs := sees h r
  { name := name, ty := r.ty, shape := r.shape, recs := recs,
    cols := r.ty.fields.flatMap fun f => (spellings r.ty.mom f).filterMap fun sp =>
      (pos (generic r.ty.mom sp) r.ty.fields).map fun p => (sp, col p recs) }

def sortEnv (e : Env) : Env := e.mergeSort (fun a b => !decide (b.1 < a.1))

/-- with a source variable -/
def withVar {α : Type} (s : State α) (v : String) (k : Ref → Eff α × Out α) : Eff α × Out α :=
  match find v s.env with
  | none => (.none, .err .NameError)
  | some r => k r

/-- the systems in-place arithmetic is modelled for: Cartesian coordinates (scaling and adding are column-wise there) -/
def cartesian (ty : VTy) : Bool := ty.coords.all fun c => c == "x" || c == "y" || c == "z" || c == "t"

/-- the dtype names before the first extra field: `out[name] = result[name]` succeeds for exactly these -/
def coordPrefix (ty : VTy) : Nat := (ty.fields.takeWhile isCoord).length

/-- the effect of `numpy.<ufunc>(v, …, out=v)` and of the rebinding of `v`, given `result` — column-wise (`cols p`: the values
of `result[name]` for the `p`-th dtype name of `v`) and record-wise (`res`: one record per element, canonical field order):
`out[name] = result[name]` for the dtype names IN ORDER; the first extra field raises -/
def inplace {α : Type} (v : String) (r : Ref) (cols : Nat → List α) (res : List (Record α)) : Eff α × Out α :=
  let rty : VTy := ⟨r.ty.mom, r.ty.coords⟩
  let ws := (List.range (coordPrefix r.ty)).map fun p => (p, cols p)
  if coordPrefix r.ty = r.ty.fields.length then
    (.writesFresh r.buf r.idx ws v rty (if r.shape = [] then [1] else r.shape) res, .ok)
  else (.writes r.buf r.idx ws, .err .ValueError)

def eval {α : Type} (s : State α) : Op α → Eff α × Out α
  | .new v ty shape recs =>
    if validFields ty.fields && recs.all (·.length == ty.fields.length) && prod shape == recs.length then
      (.bindFresh v ty shape (List.range recs.length) recs, .ok)
    else (.none, .err .ValueError)
  | .slice v w lo hi stp => withVar s v fun r =>
    if r.shape = [] then (.none, .err .IndexError) else      -- "too many indices for array" comes before the step check
    match sliceAxis0 r.shape lo hi stp with
    | none => (.none, .err .ValueError)
    | some (sh, ps) => (.bindView w ⟨r.buf, pick r.idx (distinct ps), r.ty, sh⟩, .ok)
  | .view v w => withVar s v fun r => (.bindView w r, .ok)
  | .mask v w bits => withVar s v fun r =>
    if r.shape.length ≠ 1 then (.none, .err .Unmodelled) else
    -- (NumPy accepts a boolean index of length 0 on an array of any length: it selects nothing)
    if bits.length = r.idx.length ∨ bits = [] then
      let recs := pick (sees s.heap r) (maskPos bits 0)
      (.bindFresh w r.ty [recs.length] (List.range recs.length) recs, .ok)
    else (.none, .err .IndexError)
  | .fancy v w idxs => withVar s v fun r =>
    if r.shape.length ≠ 1 then (.none, .err .Unmodelled) else
    match normIdxs idxs r.idx.length with
    | none => (.none, .err .IndexError)
    | some ps =>
      let recs := pick (sees s.heap r) ps
      (.bindFresh w r.ty [recs.length] (List.range recs.length) recs, .ok)
  | .copy v w => withVar s v fun r => (.bindFresh w r.ty r.shape (List.range r.idx.length) (sees s.heap r), .ok)
  | .deepcopy v w => withVar s v fun r => (.bindFresh w r.ty r.shape (kLayout r.shape r.idx) (sees s.heap r), .ok)
  | .pickle v w => withVar s v fun r => (.bindFresh w r.ty r.shape (pickleLayout r.shape r.idx) (sees s.heap r), .ok)
  | .reshape v w dims => withVar s v fun r =>
    if prod dims ≠ r.idx.length then (.none, .err .ValueError)
    else if strided dims r.idx then (.bindView w ⟨r.buf, r.idx, r.ty, dims⟩, .ok)
    else (.bindFresh w r.ty dims (List.range r.idx.length) (sees s.heap r), .ok)
  | .transpose v w => withVar s v fun r =>
    (.bindView w ⟨r.buf, pick r.idx (distinct (transposePs r.shape)), r.ty, r.shape.reverse⟩, .ok)
  | .sub v w is ell => withVar s v fun r =>
    match tupleOffset r.shape is with
    | none => (.none, .err .IndexError)
    | some (o, sh) =>
      if is.length = r.shape.length ∧ ell = false then (.none, .err .Unmodelled)   -- an element object, not an array
      else (.bindView w ⟨r.buf, pick r.idx (distinct ((List.range (prod sh)).map (· + o))), r.ty, sh⟩, .ok)
  | .intIndex v is => withVar s v fun r =>
    match tupleOffset r.shape is with
    | none => (.none, .err .IndexError)
    | some (o, sh) =>
      if is.length = r.shape.length then (.none, .elem r.ty (coordsOf r.ty ((sees s.heap r)[o]?.getD [])))
      else (.none, .arr r.ty sh)
  | .getName v name => withVar s v fun r =>
    match pos (generic r.ty.mom name) r.ty.fields with
    | none => (.none, .err .ValueError)
    | some p => (.none, .vals (col p (sees s.heap r)))
  | .setName v name vals => withVar s v fun r =>
    match pos (generic r.ty.mom name) r.ty.fields with
    | none => (.none, .err .ValueError)
    | some p =>
      match bcast r.idx.length vals with
      | none => (.none, .err .ValueError)
      | some vs => (.writes r.buf r.idx [(p, vs)], .ok)
  | .setSlice v lo hi srcLo => withVar s v fun r =>
    assignRows s r (some lo) (some hi) r (some srcLo) (some (srcLo + (hi - lo)))
  | .setElems v lo hi w slo shi => withVar s v fun rt => withVar s w fun rs => assignRows s rt lo hi rs slo shi
  | .imap v f => withVar s v fun r =>
    if cartesian r.ty then
      inplace v r (fun p => ((sees s.heap r).filterMap (·[p]?)).map f) ((sees s.heap r).map fun rec => (coordsOf r.ty rec).map f)
    else (.none, .err .Unmodelled)
  | .izip v w g => withVar s v fun r => withVar s w fun rw =>
    if cartesian r.ty ∧ rw.ty.coords = r.ty.coords ∧ rw.shape = r.shape then
      inplace v r
        (fun p => List.zipWith g ((sees s.heap r).filterMap (·[p]?))
          ((sees s.heap rw).filterMap fun rec => (pos (r.ty.fields[p]?.getD "") rw.ty.fields).bind (rec[·]?)))
        (List.zipWith (fun a b => List.zipWith g (coordsOf r.ty a) (coordsOf rw.ty b)) (sees s.heap r) (sees s.heap rw))
    else (.none, .err .Unmodelled)
  | .del v => withVar s v fun _ => (.del v, .ok)
  | .dump => (.none, .dump ((sortEnv s.env).map fun (n, r) => shown s.heap n r) (sharesOf (sortEnv s.env)))

def step {α : Type} (s : State α) (op : Op α) : State α × Out α :=
  let r := eval s op
  (apply s r.1, r.2)

def run {α : Type} (s : State α) (ops : List (Op α)) : State α := ops.foldl (fun s op => (step s op).1) s

/-- `v *= k`, `v += w`, `v -= w` at integer scalars -/
def Op.iscale (v : String) (k : Int) : Op Int := .imap v (· * k)
def Op.iadd (v w : String) : Op Int := .izip v w (· + ·)
def Op.isub (v w : String) : Op Int := .izip v w (· - ·)

/-- the variable an operation (re)binds or unbinds -/
def Op.target {α : Type} : Op α → Option String
  | .new v _ _ _ => some v
  | .slice _ w _ _ _ => some w
  | .mask _ w _ => some w
  | .fancy _ w _ => some w
  | .view _ w => some w
  | .copy _ w => some w
  | .deepcopy _ w => some w
  | .pickle _ w => some w
  | .reshape _ w _ => some w
  | .transpose _ w => some w
  | .sub _ w _ _ => some w
  | .imap v _ => some v
  | .izip v _ _ => some v
  | .del v => some v
  | _ => none

/-- the variable an operation writes THROUGH -/
def Op.writeVar {α : Type} : Op α → Option String
  | .setName v _ _ => some v
  | .setSlice v _ _ _ => some v
  | .setElems v _ _ _ _ _ => some v
  | .imap v _ => some v
  | .izip v _ _ => some v
  | _ => none

/-- the buffer an operation writes into, in state `s` -/
def writeBuf {α : Type} (s : State α) (op : Op α) : Option Nat :=
  op.writeVar.bind fun v => (find v s.env).map (·.buf)

end VH
