/-
Hand-written executable model of vector's GLUE: the method layer
(`_methods.py`: which compute module a public method uses, its dimension
guards, argument order), `dispatch()` (key construction, handler and flavor of
the result) and `_wrap_result` (re-labelling the raw tuple, pass-through of
stored longitudinal/temporal coordinates, result class).

The model only MOVES scalars, so it is polymorphic in the scalar type and takes
the compute layer as a parameter `ev` (instantiated with the generated
`Compute.eval` at `Sym`/`Float` by the drivers).  It is written after the
DOCUMENTED rules (property C05 / C04), not branch by branch after the code; the
correspondence harness (harness/symobj.py) compares it with the real public API
on the complete object-backend lattice.
-/
import VectorModel.Prim.Keys
import VectorModel.Gen.Tables

set_option linter.constructorNameAsVariable false
set_option linter.unusedVariables false
namespace VG
open VK

/-- backends in `_handler_priority` order (object < numpy < sympy < awkward) -/
inductive Backend | obj | np | sym | ak
  deriving DecidableEq, Repr, Inhabited

def Backend.prio : Backend → Nat | .obj => 0 | .np => 1 | .sym => 2 | .ak => 3

/-- static type of a vector value -/
structure VT where
  be : Backend := .obj
  mom : Bool
  az : Az
  lon : Option Lon
  tmp : Option Tmp
  deriving DecidableEq, Repr, Inhabited

def VT.dim (t : VT) : Nat := 2 + (if t.lon.isSome then 1 else 0) + (if t.tmp.isSome then 1 else 0)

/-- a vector value: type + stored coordinates (azimuthal pair, longitudinal, temporal) -/
structure Vec (S : Type) where
  ty : VT
  c : List S
  deriving Inhabited

def Vec.azEl {S} (v : Vec S) : List S := v.c.take 2
def Vec.lonEl {S} (v : Vec S) : List S := if v.ty.lon.isSome then (v.c.drop 2).take 1 else []
def Vec.tmpEl {S} (v : Vec S) : List S := if v.ty.tmp.isSome then (v.c.drop 3).take 1 else []

inductive Err | typeError | attributeError | assertionError | unmodelled
  deriving DecidableEq, Repr, Inhabited

def Err.str : Err → String
  | .typeError => "TypeError" | .attributeError => "AttributeError"
  | .assertionError => "AssertionError" | .unmodelled => "Unmodelled"

inductive Res (S B : Type) | scalar (s : S) | truth (b : B) | vec (v : Vec S)

/-- method arguments -/
inductive Arg (S : Type) | sc (s : S) | v (v : Vec S) | str (s : String) | kw (k : String) (s : S)

section
variable {S B : Type}

/-- the compute layer, as the glue sees it -/
abbrev Ev (S B : Type) := ModuleId → List KA → List S → Option (Out S B × Ret)

/-- literal constants the method layer passes to compute functions -/
structure Consts (S : Type) where
  negOne : S        -- `-1` in neg2D/3D/4D
  zeroF : S         -- `0.0` default of imputed coordinates
  zeroI : S         -- `0` default tolerance of is_timelike/is_spacelike
  tol : S           -- `1e-5`
  rtol : S          -- `1e-05`
  atol : S          -- `1e-08`
  bFalse : S        -- `equal_nan=False`

/-! ### `_wrap_result`, as the documented rule -/

/-- result vector type and coordinates from the declared result `ret`, the raw tuple and the handler `self`:
* only an azimuthal type declared  → same dimension as `self`, stored longitudinal/temporal passed through;
* `(az, None)` → 2D;  `(az, lon)` → 3D, or 4D keeping `self`'s temporal coordinate when `self` is 4D;
* `(az, lon, None)` → 3D;  `(az, lon, tmp)` → 4D. -/
def wrapVec (self : Vec S) (be : Backend) (mom : Bool) (raw : List S) (parts : List RP) : Except Err (Vec S) :=
  match parts with
  | [.az a] =>
    .ok ⟨{ be, mom, az := a, lon := self.ty.lon, tmp := self.ty.tmp }, raw.take 2 ++ self.lonEl ++ self.tmpEl⟩
  | [.az a, .none] => .ok ⟨{ be, mom, az := a, lon := none, tmp := none }, raw.take 2⟩
  | [.az a, .lon l] =>
    if self.ty.dim == 4 then .ok ⟨{ be, mom, az := a, lon := some l, tmp := self.ty.tmp }, raw.take 3 ++ self.tmpEl⟩
    else .ok ⟨{ be, mom, az := a, lon := some l, tmp := none }, raw.take 3⟩
  | [.az a, .lon l, .none] => .ok ⟨{ be, mom, az := a, lon := some l, tmp := none }, raw.take 3⟩
  | [.az a, .lon l, .tmp t] => .ok ⟨{ be, mom, az := a, lon := some l, tmp := some t }, raw.take 4⟩
  | _ => .error .assertionError

def wrapResult (self : Vec S) (be : Backend) (mom : Bool) (out : Out S B) (ret : Ret) : Except Err (Res S B) :=
  match ret, out with
  | .float, .vals [s] => .ok (.scalar s)
  | .bool, .truth b => .ok (.truth b)
  | .vec parts, .vals raw => (wrapVec self be mom raw parts).map .vec
  | _, _ => .error .assertionError

/-! ### `dispatch()` -/

/-- key atoms and coordinate arguments contributed by one vector operand for `n` key slots (1, 2 or 3) -/
def operandKey (v : Vec S) (n : Nat) : Option (List KA × List S) :=
  match n, v.ty.lon, v.ty.tmp with
  | 1, _, _ => some ([.az v.ty.az], v.azEl)
  | 2, some l, _ => some ([.az v.ty.az, .lon l], v.azEl ++ v.lonEl)
  | 3, some l, some t => some ([.az v.ty.az, .lon l, .tmp t], v.azEl ++ v.lonEl ++ v.tmpEl)
  | _, _, _ => none

/-- number of key slots of each vector operand, from the module's key shape -/
def operandSlotsGo (s : List KS) (cur : Nat) (acc : List Nat) : List Nat :=
  match s with
  | [] => if cur > 0 then acc ++ [cur] else acc
  | .az :: r => operandSlotsGo r 1 (if cur > 0 then acc ++ [cur] else acc)
  | .ord :: r => operandSlotsGo r cur acc
  | _ :: r => operandSlotsGo r (cur + 1) acc
def operandSlots (shape : List KS) : List Nat := operandSlotsGo shape 0 []

/-- handler = operand of highest backend priority (first wins ties) -/
def handlerOf (vs : List (Vec S)) : Option (Vec S) :=
  vs.foldl (fun h v => match h with
    | none => some v
    | some h => if v.ty.be.prio > h.ty.be.prio then some v else some h) none

/-- generic `dispatch()`: `scalars` precede the coordinates; `counted` = operands that count for handler and flavor -/
def dispatch (ev : Ev S B) (m : ModuleId) (scalars : List S) (ord : Option Ord) (ops : List (Vec S))
    (counted : List (Vec S)) : Except Err (Res S B) :=
  let slots := operandSlots m.info.shape
  if slots.length != ops.length then .error .assertionError else
  match (ops.zip slots).mapM (fun (v, n) => operandKey v n) with
  | none => .error .attributeError         -- operand lacks a coordinate group the module needs
  | some parts =>
    let key := (parts.map (·.1)).flatten ++ (match ord with | some o => [KA.ord o] | none => [])
    let args := scalars ++ (parts.map (·.2)).flatten
    match ev m key args with
    | none => .error .typeError            -- `_from_signature`: no such signature
    | some (out, ret) =>
      match handlerOf counted with
      | none => .error .assertionError
      | some h => wrapResult h h.ty.be (counted.any (·.ty.mom)) out ret

end
end VG
