/-
Arrays of vectors, as the glue sees them (properties C03, C19).

The glue model (`Glue/Core.lean`, `Glue/Methods.lean`) is polymorphic in the scalar type `S`: it only MOVES
scalars.  An ARRAY of vectors stored column-wise (the NumPy backend: one structured array, one column per
coordinate; the Awkward backend: one record array, one field per coordinate) is the same glue instantiated at a
COLUMN type `ι → X` (`ι` = the index set of the array — any shape, flat, n-dimensional or ragged —, `X` = the
element scalar type).  This file defines

* the functorial action of a scalar map `f : S → T` on everything the glue handles
  (`Vec.map`, `Res.map`, `Out.map`, `Consts.map`, `Step.map`),
* `Ev.Natural f g ev ev'`: the compute layer commutes with `f` (on scalars) and `g` (on truth values) —
  for the projections `f := (· i)`, `g := (· i)` this is NumPy's ufunc contract "the compute functions act
  element by element"; it is an explicit HYPOTHESIS of the theorems in `Props/C03.lean`,
* the array view: `index`, `reindex`, `column`, `asArray`, `bcast`.

Nothing here changes the model files; the definitions are what the theorems of `Props/C03.lean` and
`Props/C19.lean` are stated with.
-/
import VectorModel.Glue.Methods
import VectorModel.Prim.Exec

set_option linter.unusedVariables false
set_option linter.constructorNameAsVariable false

namespace VK

/-- action of a scalar map `f` and a truth-value map `g` on a raw compute result -/
def Out.map {S T B C : Type} (f : S → T) (g : B → C) : Out S B → Out T C
  | .vals l => .vals (l.map f)
  | .truth b => .truth (g b)

end VK

namespace VG
open VK

section
variable {S T U B C D : Type}

/-! ### functorial action of a scalar map -/

/-- apply `f` to every stored coordinate; the vector type (backend, flavor, coordinate system) is untouched -/
@[reducible] def Vec.map (f : S → T) (v : Vec S) : Vec T := ⟨v.ty, v.c.map f⟩

/-- apply `f` to scalars / coordinates and `g` to truth values of a result -/
def Res.map (f : S → T) (g : B → C) : Res S B → Res T C
  | .scalar s => .scalar (f s)
  | .truth b => .truth (g b)
  | .vec v => .vec (v.map f)

def Consts.map (f : S → T) (K : Consts S) : Consts T :=
  ⟨f K.negOne, f K.zeroF, f K.zeroI, f K.tol, f K.rtol, f K.atol, f K.bFalse⟩

def Step.map (f : S → T) : Step S → Step T
  | .set c a => .set c (f a)
  | .setReadOnly => .setReadOnly
  | .setOther => .setOther
  | .iopV op o => .iopV op (o.map f)
  | .iopS op s => .iopS op (f s)

/-- the compute layer `ev` (at scalars `S`, truth values `B`) and the compute layer `ev'` (at `T`, `C`) commute with
the maps `f : S → T`, `g : B → C`: same signatures, same declared result, values related by `f` / `g`.
With `S := ι → X`, `f := (· i)` this says "the compute functions act element-wise" (NumPy's ufunc contract). -/
def Ev.Natural (f : S → T) (g : B → C) (ev : Ev S B) (ev' : Ev T C) : Prop :=
  ∀ m k a, ev' m k (a.map f) = (ev m k a).map (Prod.map (Out.map f g) id)

@[simp] theorem Vec.map_ty (f : S → T) (v : Vec S) : (v.map f).ty = v.ty := rfl
@[simp] theorem Vec.map_c (f : S → T) (v : Vec S) : (v.map f).c = v.c.map f := rfl

@[simp] theorem Vec.map_id (v : Vec S) : v.map id = v := by
  cases v; simp [Vec.map]

theorem Vec.map_id' (v : Vec S) : v.map (fun s => s) = v := Vec.map_id v

@[simp] theorem Vec.map_map (f : S → T) (h : T → U) (v : Vec S) : (v.map f).map h = v.map (h ∘ f) := by
  cases v; simp [Vec.map]

@[simp] theorem Vec.map_azEl (f : S → T) (v : Vec S) : (v.map f).azEl = v.azEl.map f := by
  simp [Vec.azEl, List.map_take]

@[simp] theorem Vec.map_lonEl (f : S → T) (v : Vec S) : (v.map f).lonEl = v.lonEl.map f := by
  simp only [Vec.lonEl]
  split <;> simp [*, List.map_take, List.map_drop]

@[simp] theorem Vec.map_tmpEl (f : S → T) (v : Vec S) : (v.map f).tmpEl = v.tmpEl.map f := by
  simp only [Vec.tmpEl]
  split <;> simp [*, List.map_take, List.map_drop]

theorem Vec.ext' {v w : Vec S} (h1 : v.ty = w.ty) (h2 : v.c = w.c) : v = w := by
  cases v; cases w; simp_all

@[simp] theorem Res.map_id (r : Res S B) : r.map id id = r := by
  cases r <;> simp [Res.map]

@[simp] theorem Res.map_map (f : S → T) (g : B → C) (f' : T → U) (g' : C → D) (r : Res S B) :
    (r.map f g).map f' g' = r.map (f' ∘ f) (g' ∘ g) := by
  cases r <;> simp [Res.map]

/-- naturality composes: arrays of arrays, slices of arrays, … -/
theorem Ev.Natural.comp {f : S → T} {g : B → C} {f' : T → U} {g' : C → D} {ev : Ev S B} {ev' : Ev T C}
    {ev'' : Ev U D} (h : Ev.Natural f g ev ev') (h' : Ev.Natural f' g' ev' ev'') :
    Ev.Natural (f' ∘ f) (g' ∘ g) ev ev'' := by
  intro m k a
  have := h' m k (a.map f)
  rw [List.map_map] at this
  rw [this, h m k a]
  cases ev m k a with
  | none => rfl
  | some p =>
    obtain ⟨o, r⟩ := p
    cases o <;> simp [Out.map]

/-- every compute layer is natural with respect to the identity maps -/
theorem Ev.Natural.id (ev : Ev S B) : Ev.Natural (fun s => s) (fun b => b) ev ev := by
  intro m k a
  simp only [List.map_id']
  cases ev m k a with
  | none => rfl
  | some p =>
    obtain ⟨o, r⟩ := p
    cases o <;> simp [Out.map]

end

/-! ### the array view

An array of vectors with index set `ι` over element scalars `X` is a `Vec (ι → X)`: ONE vector type (all elements of
a NumPy / Awkward vector array share backend, flavor and coordinate system) and one COLUMN `ι → X` per stored
coordinate.  The index set is part of the type: every operation of the glue at `S := ι → X` returns columns over the
same `ι`, i.e. the shape / list structure of the array is preserved by construction. -/

section
variable {ι κ X : Type}

/-- integer (or tuple-of-integers) index: element `i` of the array, as a single vector -/
def index (a : Vec (ι → X)) (i : ι) : Vec X := a.map (· i)

/-- slices, masks, fancy indices, reshapes, transposes, views, copies: `r` maps every position of the NEW array to the
position of the old array it shows -/
def reindex (r : κ → ι) (a : Vec (ι → X)) : Vec (κ → X) := a.map (· ∘ r)

/-- a single vector as a one-element array (`ι := Unit`) -/
def asArray (v : Vec X) : Vec (Unit → X) := v.map (fun x _ => x)

/-- broadcasting a single vector object against an array with index set `ι`: the constant-column vector -/
def bcast (ι : Type) (v : Vec X) : Vec (ι → X) := v.map (fun x _ => x)

/-- broadcasting a scalar: the constant column -/
def bcastS (ι : Type) (s : X) : ι → X := fun _ => s

/-- position in the stored coordinate list of the coordinate NAMED `c`, if a vector of type `ty` stores it -/
def colPos (ty : VT) : CName → Option Nat
  | .x => if ty.az = .xy then some 0 else none
  | .y => if ty.az = .xy then some 1 else none
  | .rho => if ty.az = .rhophi then some 0 else none
  | .phi => if ty.az = .rhophi then some 1 else none
  | .z => if ty.lon = some .z then some 2 else none
  | .theta => if ty.lon = some .theta then some 2 else none
  | .eta => if ty.lon = some .eta then some 2 else none
  | .t => if ty.tmp = some .t then some 3 else none
  | .tau => if ty.tmp = some .tau then some 3 else none

/-- the STORED coordinate named `c` of a vector (none if the vector's coordinate system has no such coordinate) -/
def Vec.stored {S : Type} (v : Vec S) (c : CName) : Option S := (colPos v.ty c).bind (v.c[·]?)

/-- name index `a["x"]` of an array: the stored COLUMN of that name (the same definition, at the column type) -/
def column (a : Vec (ι → X)) (c : CName) : Option (ι → X) := a.stored c

variable {Bx : Type}

/-- element `i` of an array result: a column of scalars / truth values, or an array of vectors -/
def Res.at (r : Res (ι → X) (ι → Bx)) (i : ι) : Res X Bx := r.map (· i) (· i)

/-- the literal constants of the method layer, broadcast: constant columns -/
def Consts.bcast (ι : Type) (K : Consts X) : Consts (ι → X) := K.map (fun x _ => x)

/-- NumPy's ufunc contract: the compute layer `ev` on columns acts element by element, as `evo` does on elements -/
def Ev.Elementwise (ev : Ev (ι → X) (ι → Bx)) (evo : Ev X Bx) : Prop :=
  ∀ i : ι, Ev.Natural (· i) (· i) ev evo

@[simp] theorem index_bcast (v : Vec X) (i : ι) : index (bcast ι v) i = v := by
  cases v; simp [index, bcast, Vec.map, Function.comp_def]

@[simp] theorem bcastS_apply (s : X) (i : ι) : bcastS ι s i = s := rfl

@[simp] theorem Consts.bcast_map (K : Consts X) (i : ι) : (Consts.bcast ι K).map (· i) = K := rfl

/-! ### the backend tag -/

/-- relabel the backend tag of a vector (an element taken out of an array is an object-backend vector) -/
def Vec.setBe {S : Type} (b : Backend) (v : Vec S) : Vec S := { v with ty := { v.ty with be := b } }

def Res.setBe {S B : Type} (b : Backend) : Res S B → Res S B
  | .vec v => .vec (v.setBe b)
  | r => r

/-- element `i` of an array as an OBJECT-backend vector -/
def elemObj (a : Vec (ι → X)) (i : ι) : Vec X := (index a i).setBe .obj

end

/-! ### columns as a scalar type of the generated executable compute layer

The generated compute functions (`Gen/Exec`) are polymorphic in a `Scalar` type.  Columns `ι → X` are one: every
primitive acts position by position (this IS NumPy's semantics of `+`, `numpy.sin`, `numpy.where`-free code, …; literal
constants are constant columns).  `Props/C03.lean` proves that the generated compute layer at this instance is
`Ev.Elementwise` over the compute layer at `X`. -/

/-- columns of scalars: every primitive acts position by position -/
instance colScalar (ι X : Type) [VE.Scalar X] : VE.Scalar (ι → X) where
  B := ι → VE.Scalar.B X
  ofNat n := fun _ => VE.Scalar.ofNat n
  ofSci m s e := fun _ => VE.Scalar.ofSci m s e
  pi := fun _ => VE.Scalar.pi
  libInf := fun _ => VE.Scalar.libInf
  inf := fun _ => VE.Scalar.inf
  nan := fun _ => VE.Scalar.nan
  neg a := fun i => VE.Scalar.neg (a i)
  add a b := fun i => VE.Scalar.add (a i) (b i)
  sub a b := fun i => VE.Scalar.sub (a i) (b i)
  mul a b := fun i => VE.Scalar.mul (a i) (b i)
  div a b := fun i => VE.Scalar.div (a i) (b i)
  npow a n := fun i => VE.Scalar.npow (a i) n
  rpow a b := fun i => VE.Scalar.rpow (a i) (b i)
  mod a b := fun i => VE.Scalar.mod (a i) (b i)
  eq a b := fun i => VE.Scalar.eq (a i) (b i)
  ne a b := fun i => VE.Scalar.ne (a i) (b i)
  lt a b := fun i => VE.Scalar.lt (a i) (b i)
  gt a b := fun i => VE.Scalar.gt (a i) (b i)
  le a b := fun i => VE.Scalar.le (a i) (b i)
  ge a b := fun i => VE.Scalar.ge (a i) (b i)
  and a b := fun i => VE.Scalar.and (a i) (b i)
  or a b := fun i => VE.Scalar.or (a i) (b i)
  b2s a := fun i => VE.Scalar.b2s (a i)
  sqrt a := fun i => VE.Scalar.sqrt (a i)
  sin a := fun i => VE.Scalar.sin (a i)
  cos a := fun i => VE.Scalar.cos (a i)
  tan a := fun i => VE.Scalar.tan (a i)
  exp a := fun i => VE.Scalar.exp (a i)
  log a := fun i => VE.Scalar.log (a i)
  sinh a := fun i => VE.Scalar.sinh (a i)
  arcsinh a := fun i => VE.Scalar.arcsinh (a i)
  arctan a := fun i => VE.Scalar.arctan (a i)
  arccos a := fun i => VE.Scalar.arccos (a i)
  abs a := fun i => VE.Scalar.abs (a i)
  sign a := fun i => VE.Scalar.sign (a i)
  arctan2 a b := fun i => VE.Scalar.arctan2 (a i) (b i)
  copysign a b := fun i => VE.Scalar.copysign (a i) (b i)
  max a b := fun i => VE.Scalar.max (a i) (b i)
  min a b := fun i => VE.Scalar.min (a i) (b i)
  nanToNum a p q r := fun i => VE.Scalar.nanToNum (a i) (p.map (· i)) (q.map (· i)) (r.map (· i))
  isclose a b c d e := fun i => VE.Scalar.isclose (a i) (b i) (c i) (d i) (e i)

end VG
