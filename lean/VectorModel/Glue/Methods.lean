/-
Hand-written model of the public method layer (`_methods.py` + the operator /
ufunc routing and setters of `backends/object.py`): for every public property,
method, conversion and operator — which compute module is used for which
operand dimensions, which dimension guards raise `TypeError`, the argument
order, which operands count for handler/flavor, keyword handling of the
dimension-changing conversions.
-/
import VectorModel.Glue.Core

set_option linter.constructorNameAsVariable false
set_option linter.unusedVariables false
namespace VG
open VK

section
variable {S B : Type}

def modOf (s : String) : Option ModuleId := ModuleId.all.find? (fun m => m.str == s)
def grp (d : Nat) : String := if d == 2 then "planar" else if d == 3 then "spatial" else "lorentz"

/-- scalar arithmetic the method layer itself performs (`1 / f` in `/`, `abs ** p`, `** 0.25`) -/
structure Arith (S : Type) where
  inv : S → S
  pow : S → S → S
  quarter : S
  sixth : S
  isTwo : S → Bool      -- `other == 2` test of `__pow__`

/-- momentum spellings of the generic property names -/
def momAlias : List (String × String × Nat) := [
  ("px", "x", 2), ("py", "y", 2), ("pt", "rho", 2), ("pt2", "rho2", 2),
  ("pz", "z", 3), ("pseudorapidity", "eta", 3), ("p", "mag", 3), ("p2", "mag2", 3),
  ("E", "t", 4), ("e", "t", 4), ("energy", "t", 4), ("E2", "t2", 4), ("e2", "t2", 4), ("energy2", "t2", 4),
  ("M", "tau", 4), ("m", "tau", 4), ("mass", "tau", 4), ("M2", "tau2", 4), ("m2", "tau2", 4), ("mass2", "tau2", 4),
  ("et", "Et", 4), ("transverse_energy", "Et", 4), ("et2", "Et2", 4), ("transverse_energy2", "Et2", 4),
  ("mt", "Mt", 4), ("transverse_mass", "Mt", 4), ("mt2", "Mt2", 4), ("transverse_mass2", "Mt2", 4)]

def planarProps := ["x", "y", "rho", "rho2", "phi"]
def spatialProps := ["z", "theta", "eta", "costheta", "cottheta", "mag", "mag2"]
def lorentzProps := ["t", "t2", "tau", "tau2", "beta", "gamma", "rapidity"]
def lorentzMomProps := ["Et", "Et2", "Mt", "Mt2"]

def dispatchS (ev : Ev S B) (mod : String) (scalars : List S) (ord : Option Ord) (ops counted : List (Vec S)) :
    Except Err (Res S B) :=
  match modOf mod with
  | none => .error .unmodelled
  | some m => dispatch ev m scalars ord ops counted

/-- a property / zero-argument accessor -/
def prop (ev : Ev S B) (K : Consts S) (name : String) (v : Vec S) : Except Err (Res S B) :=
  let d := v.ty.dim
  if planarProps.contains name then dispatchS ev s!"planar_{name}" [] none [v] [v]
  else if spatialProps.contains name then
    if d < 3 then .error .attributeError else dispatchS ev s!"spatial_{name}" [] none [v] [v]
  else if lorentzProps.contains name then
    if d < 4 then .error .attributeError else dispatchS ev s!"lorentz_{name}" [] none [v] [v]
  else if lorentzMomProps.contains name then
    if d < 4 || !v.ty.mom then .error .attributeError else dispatchS ev s!"lorentz_{name}" [] none [v] [v]
  else if name == "neg2D" then dispatchS ev "planar_scale" [K.negOne] none [v] [v]
  else if name == "neg3D" then
    if d < 3 then .error .attributeError else dispatchS ev "spatial_scale" [K.negOne] none [v] [v]
  else if name == "neg4D" then
    if d < 4 then .error .attributeError else dispatchS ev "lorentz_scale" [K.negOne] none [v] [v]
  else .error .unmodelled

def scalarOf : Res S B → Option S | .scalar s => some s | _ => none

/-- coordinate of `v` named by a generic accessor (used by the conversions) -/
def coord (ev : Ev S B) (K : Consts S) (name : String) (v : Vec S) : Except Err S :=
  match prop ev K name v with
  | .ok (.scalar s) => .ok s
  | .ok _ => .error .assertionError
  | .error e => .error e

def ordOf (s : String) : Option Ord := Ord.all.find? (fun o => o.str == s.toLower)

def lonOfKw : String → Option Lon
  | "z" => some .z | "pz" => some .z | "theta" => some .theta | "eta" => some .eta | _ => none
def tmpOfKw : String → Option Tmp
  | "t" => some .t | "e" => some .t | "E" => some .t | "energy" => some .t
  | "tau" => some .tau | "m" => some .tau | "M" => some .tau | "mass" => some .tau | _ => none

def kwargs (args : List (Arg S)) : List (String × S) :=
  args.filterMap fun a => match a with | .kw k s => some (k, s) | _ => none

/-- `to_Vector2D/3D/4D` (and `to_2D/3D/4D`, `like`): retained stored coordinates verbatim; the imputed coordinate is the
keyword's value in the coordinate type the keyword names, or `0.0`; two keywords of one group are rejected. -/
def toDim (K : Consts S) (target : Nat) (v : Vec S) (kws : List (String × S)) : Except Err (Res S B) :=
  let d := v.ty.dim
  let lonKws := kws.filter fun (k, _) => (lonOfKw k).isSome
  let tmpKws := kws.filter fun (k, _) => (tmpOfKw k).isSome
  let other := kws.filter fun (k, _) => (lonOfKw k).isNone && (tmpOfKw k).isNone
  -- keywords accepted by the signature of the method for this source dimension
  let lonAllowed := d == 2 && target ≥ 3
  let tmpAllowed := d ≤ 3 && target == 4
  if !other.isEmpty || (!lonAllowed && !lonKws.isEmpty) || (!tmpAllowed && !tmpKws.isEmpty) then .error .typeError
  else if lonKws.length > 1 || tmpKws.length > 1 then .error .typeError
  else if target == d then .ok (.vec v)
  else
    let ty := v.ty
    let lonT : Option Lon := if target < 3 then none else match ty.lon with
      | some l => some l
      | none => some (match lonKws with | (k, _) :: _ => (lonOfKw k).getD .z | [] => .z)
    let lonV : List S := if target < 3 then [] else match ty.lon with
      | some _ => v.lonEl
      | none => [match lonKws with | (_, s) :: _ => s | [] => K.zeroF]
    let tmpT : Option Tmp := if target < 4 then none else match ty.tmp with
      | some t => some t
      | none => some (match tmpKws with | (k, _) :: _ => (tmpOfKw k).getD .t | [] => .t)
    let tmpV : List S := if target < 4 then [] else match ty.tmp with
      | some _ => v.tmpEl
      | none => [match tmpKws with | (_, s) :: _ => s | [] => K.zeroF]
    .ok (.vec ⟨{ ty with lon := lonT, tmp := tmpT }, v.azEl ++ lonV ++ tmpV⟩)

/-- the 40 `to_<system>` conversions: (method name, az, lon?, tmp?, keyword for lon, keyword for tmp) -/
def toTable : List (String × Az × Option Lon × Option Tmp × String × String) :=
  let az : List (String × String × Az) := [("xy", "pxpy", .xy), ("rhophi", "ptphi", .rhophi)]
  let lon : List (String × String × Lon × String × String) :=
    [("z", "pz", .z, "z", "pz"), ("theta", "theta", .theta, "theta", "theta"), ("eta", "eta", .eta, "eta", "eta")]
  let tmp : List (String × String × Tmp × String × String) := [("t", "energy", .t, "t", "energy"), ("tau", "mass", .tau, "tau", "mass")]
  (az.flatMap fun (g, m, a) => [(s!"to_{g}", a, none, none, "", ""), (s!"to_{m}", a, none, none, "", "")]) ++
  (az.flatMap fun (g, m, a) => lon.flatMap fun (lg, lm, l, kg, km) =>
    [(s!"to_{g}{lg}", a, some l, none, kg, ""), (s!"to_{m}{lm}", a, some l, none, km, "")]) ++
  (az.flatMap fun (g, m, a) => lon.flatMap fun (lg, lm, l, kg, km) => tmp.flatMap fun (tg, tm, t, tkg, tkm) =>
    [(s!"to_{g}{lg}{tg}", a, some l, some t, kg, tkg), (s!"to_{m}{lm}{tm}", a, some l, some t, km, tkm)])

def azNames : Az → List String | .xy => ["x", "y"] | .rhophi => ["rho", "phi"]

/-- `to_<system>`: every output coordinate is the accessor of that name; missing groups are imputed from the keyword or 0.0 -/
def toSystem (ev : Ev S B) (K : Consts S) (v : Vec S) (az : Az) (lon : Option Lon) (tmp : Option Tmp)
    (kl kt : String) (kws : List (String × S)) : Except Err (Res S B) := do
  let allowed := (if lon.isSome then [kl] else []) ++ (if tmp.isSome then [kt] else [])
  if kws.any (fun (k, _) => !allowed.contains k) then throw .typeError
  let d := v.ty.dim
  let azv ← (azNames az).mapM (fun n => coord ev K n v)
  let lonv ← match lon with
    | none => pure []
    | some l => if d ≥ 3 then (do let s ← coord ev K l.str v; pure [s])
                else pure [match kws.find? (·.1 == kl) with | some (_, s) => s | none => K.zeroF]
  let tmpv ← match tmp with
    | none => pure []
    | some t => if d ≥ 4 then (do let s ← coord ev K t.str v; pure [s])
                else pure [match kws.find? (·.1 == kt) with | some (_, s) => s | none => K.zeroF]
  pure (.vec ⟨{ v.ty with az := az, lon := lon, tmp := tmp }, azv ++ lonv ++ tmpv⟩)

def sameDimBinary := ["add", "subtract", "dot", "equal", "not_equal"]
def anglePreds := ["is_parallel", "is_antiparallel", "is_perpendicular"]
def spatialDeltas := ["deltaangle", "deltaeta", "deltaR", "deltaR2"]

/-- every public property / method of a vector (object semantics) -/
def call (ev : Ev S B) (K : Consts S) (A : Arith S) (meth : String) (self : Vec S) (args : List (Arg S)) :
    Except Err (Res S B) :=
  let d := self.ty.dim
  let kws := kwargs args
  -- momentum aliases first
  match momAlias.find? (·.1 == meth) with
  | some (_, g, need) =>
    if !self.ty.mom || d < need then .error .attributeError else
    if !args.isEmpty then .error .typeError else prop ev K g self
  | none =>
  match toTable.find? (·.1 == meth) with
  | some (_, az, lon, tmp, kl, kt) =>
    -- momentum-spelled conversions exist on every vector class (defined on `Vector`)
    if args.any (fun a => match a with | .kw _ _ => false | _ => true) then .error .typeError
    else toSystem ev K self az lon tmp kl kt kws
  | none =>
  match meth, args with
  | "to_Vector2D", _ => toDim K 2 self kws
  | "to_Vector3D", _ => toDim K 3 self kws
  | "to_Vector4D", _ => toDim K 4 self kws
  | "to_2D", _ => toDim K 2 self kws
  | "to_3D", _ => toDim K 3 self kws
  | "to_4D", _ => toDim K 4 self kws
  | "like", [.v o] => toDim K o.ty.dim self []
  | "unit", [] => dispatchS ev s!"{grp d}_unit" [] none [self] [self]
  | "to_beta3", [] => if d < 4 then .error .attributeError else dispatchS ev "lorentz_to_beta3" [] none [self] [self]
  | "rotateZ", [.sc a] => dispatchS ev "planar_rotateZ" [a] none [self] [self]
  | "rotateX", [.sc a] => if d < 3 then .error .attributeError else dispatchS ev "spatial_rotateX" [a] none [self] [self]
  | "rotateY", [.sc a] => if d < 3 then .error .attributeError else dispatchS ev "spatial_rotateY" [a] none [self] [self]
  | "rotate_euler", [.sc p, .sc t, .sc q] =>
    if d < 3 then .error .attributeError else dispatchS ev "spatial_rotate_euler" [p, t, q] (some .zxz) [self] [self]
  | "rotate_euler", [.sc p, .sc t, .sc q, .str o] =>
    if d < 3 then .error .attributeError else
    match ordOf o with
    | some o => dispatchS ev "spatial_rotate_euler" [p, t, q] (some o) [self] [self]
    | none => .error .typeError
  | "rotate_nautical", [.sc yaw, .sc pitch, .sc roll] =>
    if d < 3 then .error .attributeError else dispatchS ev "spatial_rotate_euler" [roll, pitch, yaw] (some .zyx) [self] [self]
  | "rotate_quaternion", [.sc u, .sc i, .sc j, .sc k] =>
    if d < 3 then .error .attributeError else dispatchS ev "spatial_rotate_quaternion" [u, i, j, k] none [self] [self]
  | "rotate_axis", [.v axis, .sc a] =>
    if d < 3 then .error .attributeError else
    if axis.ty.dim != 3 then .error .typeError else dispatchS ev "spatial_rotate_axis" [a] none [axis, self] [self]
  | "scale", [.sc f] => dispatchS ev s!"{grp d}_scale" [f] none [self] [self]
  | "scale2D", [.sc f] => dispatchS ev "planar_scale" [f] none [self] [self]
  | "scale3D", [.sc f] => if d < 3 then .error .attributeError else dispatchS ev "spatial_scale" [f] none [self] [self]
  | "scale4D", [.sc f] => if d < 4 then .error .attributeError else dispatchS ev "lorentz_scale" [f] none [self] [self]
  | "is_timelike", [] => if d < 4 then .error .attributeError else dispatchS ev "lorentz_is_timelike" [K.zeroI] none [self] [self]
  | "is_spacelike", [] => if d < 4 then .error .attributeError else dispatchS ev "lorentz_is_spacelike" [K.zeroI] none [self] [self]
  | "is_lightlike", [] => if d < 4 then .error .attributeError else dispatchS ev "lorentz_is_lightlike" [K.tol] none [self] [self]
  | "is_timelike", [.sc t] => if d < 4 then .error .attributeError else dispatchS ev "lorentz_is_timelike" [t] none [self] [self]
  | "is_spacelike", [.sc t] => if d < 4 then .error .attributeError else dispatchS ev "lorentz_is_spacelike" [t] none [self] [self]
  | "is_lightlike", [.sc t] => if d < 4 then .error .attributeError else dispatchS ev "lorentz_is_lightlike" [t] none [self] [self]
  | "boostX", [.kw k s] => boostAxis "X" k s
  | "boostY", [.kw k s] => boostAxis "Y" k s
  | "boostZ", [.kw k s] => boostAxis "Z" k s
  | "boostX", [.sc s] => boostAxis "X" "beta" s
  | "boostY", [.sc s] => boostAxis "Y" "beta" s
  | "boostZ", [.sc s] => boostAxis "Z" "beta" s
  | "boostX", _ => if d < 4 then .error .attributeError else .error .typeError
  | "boostY", _ => if d < 4 then .error .attributeError else .error .typeError
  | "boostZ", _ => if d < 4 then .error .attributeError else .error .typeError
  | "transform2D", _ => transform "planar_transform2D" 4 2
  | "transform3D", _ => transform "spatial_transform3D" 9 3
  | "transform4D", _ => transform "lorentz_transform4D" 16 4
  | m, [.v o] =>
    if sameDimBinary.contains m then
      if o.ty.dim != d then .error .typeError else dispatchS ev s!"{grp d}_{m}" [] none [self, o] [self, o]
    else if anglePreds.contains m then
      if o.ty.dim != d then .error .typeError else
        dispatchS ev s!"{if d == 2 then "planar" else "spatial"}_{m}" [K.tol] none [self, o] [self, o]
    else if m == "isclose" then
      if o.ty.dim != d then .error .typeError else
        dispatchS ev s!"{grp d}_isclose" [K.rtol, K.atol, K.bFalse] none [self, o] [self, o]
    else if m == "deltaphi" then dispatchS ev "planar_deltaphi" [] none [self, o] [self, o]
    else if spatialDeltas.contains m then
      if d < 3 then .error .attributeError else
      if o.ty.dim != 3 && o.ty.dim != 4 then .error .typeError else dispatchS ev s!"spatial_{m}" [] none [self, o] [self, o]
    else if m == "deltaRapidityPhi" || m == "deltaRapidityPhi2" then
      if d < 4 then .error .attributeError else
      if o.ty.dim != 4 then .error .typeError else dispatchS ev s!"lorentz_{m}" [] none [self, o] [self, o]
    else if m == "cross" then
      if d < 3 then .error .attributeError else
      if d != 3 || o.ty.dim != 3 then .error .typeError else dispatchS ev "spatial_cross" [] none [self, o] [self, o]
    else if m == "boost_p4" then
      if d < 4 then .error .attributeError else
      if o.ty.dim != 4 then .error .typeError else dispatchS ev "lorentz_boost_p4" [] none [self, o] [self, o]
    else if m == "boost_beta3" then
      if d < 4 then .error .attributeError else
      if o.ty.dim != 3 then .error .typeError else dispatchS ev "lorentz_boost_beta3" [] none [self, o] [self, o]
    else if m == "boost" then
      if d < 4 then .error .attributeError else
      if o.ty.dim == 3 then dispatchS ev "lorentz_boost_beta3" [] none [self, o] [self, o]
      else if o.ty.dim == 4 then dispatchS ev "lorentz_boost_p4" [] none [self, o] [self, o]
      else .error .typeError
    else if m == "boostCM_of_p4" || m == "boostCM_of_beta3" || m == "boostCM_of" then
      if d < 4 then .error .attributeError else
      let want : Option Nat := if m == "boostCM_of_p4" then some 4 else if m == "boostCM_of_beta3" then some 3 else none
      if (want.isSome && want != some o.ty.dim) || (o.ty.dim != 3 && o.ty.dim != 4) then .error .typeError else
      match prop ev K "neg3D" o with
      | .ok (.vec n) =>
        dispatchS ev (if o.ty.dim == 4 then "lorentz_boost_p4" else "lorentz_boost_beta3") [] none [self, n] [self, n]
      | .ok _ => .error .assertionError
      | .error e => .error e
    else if m == "is_parallel_tol" then .error .unmodelled
    else .error .unmodelled
  | m, [.v o, .sc t] =>
    if anglePreds.contains m then
      if o.ty.dim != d then .error .typeError else
        dispatchS ev s!"{if d == 2 then "planar" else "spatial"}_{m}" [t] none [self, o] [self, o]
    else .error .unmodelled
  | m, [] => prop ev K m self
  -- operators (object backend `__array_ufunc__` routing)
  | _, _ => .error .unmodelled
where
  boostAxis (ax k : String) (s : S) : Except Err (Res S B) :=
    if self.ty.dim < 4 then .error .attributeError else
    if k == "beta" then dispatchS ev s!"lorentz_boost{ax}_beta" [s] none [self] [self]
    else if k == "gamma" then dispatchS ev s!"lorentz_boost{ax}_gamma" [s] none [self] [self]
    else .error .typeError
  transform (mod : String) (n need : Nat) : Except Err (Res S B) :=
    if self.ty.dim < need then .error .attributeError else
    let sc := args.filterMap fun a => match a with | .sc s => some s | _ => none
    if sc.length != n then .error .typeError else dispatchS ev mod sc none [self] [self]

/-- operators: each stands for a method (property C05, last sentence) -/
def operator (ev : Ev S B) (K : Consts S) (A : Arith S) (op : String) (self : Vec S) (args : List (Arg S)) :
    Except Err (Res S B) :=
  let d := self.ty.dim
  let norm := if d == 2 then "rho" else if d == 3 then "mag" else "tau"
  match op, args with
  | "add", [.v o] => call ev K A "add" self [.v o]
  | "sub", [.v o] => call ev K A "subtract" self [.v o]
  | "matmul", [.v o] => call ev K A "dot" self [.v o]
  | "eq", [.v o] => call ev K A "equal" self [.v o]
  | "ne", [.v o] => call ev K A "not_equal" self [.v o]
  | "mul", [.sc f] => call ev K A "scale" self [.sc f]
  | "rmul", [.sc f] => call ev K A "scale" self [.sc f]
  | "truediv", [.sc f] => call ev K A "scale" self [.sc (A.inv f)]
  | "neg", [] => call ev K A "scale" self [.sc K.negOne]
  | "pos", [] => .ok (.vec self)
  | "abs", [] => prop ev K norm self
  | "pow", [.sc p] =>
    if A.isTwo p then prop ev K (norm ++ "2") self
    else match prop ev K norm self with
      | .ok (.scalar s) => .ok (.scalar (A.pow s p))
      | r => r
  | "square", [] => prop ev K (norm ++ "2") self
  | "sqrt", [] => match prop ev K (norm ++ "2") self with
      | .ok (.scalar s) => .ok (.scalar (A.pow s A.quarter))
      | r => r
  | "cbrt", [] => match prop ev K (norm ++ "2") self with
      | .ok (.scalar s) => .ok (.scalar (A.pow s A.sixth))
      | r => r
  | _, _ => .error .unmodelled

/-! ### the object vector as a state machine: coordinate assignment and in-place operators (C15) -/

inductive Step (S : Type) | set (name : String) (a : S) | iop (op : String) (arg : Arg S)

/-- `v.<name> = a`: the assigned group is re-stored in the system the name belongs to, with the partner coordinate read
through its accessor; the other groups are untouched -/
def setCoord (ev : Ev S B) (K : Consts S) (name : String) (a : S) (v : Vec S) : Except Err (Vec S) := do
  let d := v.ty.dim
  let momNames := ["px", "py", "pt", "pz", "E", "e", "energy", "M", "m", "mass"]
  if momNames.contains name && !v.ty.mom then return v   -- plain instance attribute on a generic vector
  let g := match name with
    | "px" => "x" | "py" => "y" | "pt" => "rho" | "pz" => "z"
    | "E" => "t" | "e" => "t" | "energy" => "t" | "M" => "tau" | "m" => "tau" | "mass" => "tau" | n => n
  let lonRest := v.lonEl ++ v.tmpEl
  match g with
  | "x" => do let y ← coord ev K "y" v; pure ⟨{ v.ty with az := .xy }, [a, y] ++ lonRest⟩
  | "y" => do let x ← coord ev K "x" v; pure ⟨{ v.ty with az := .xy }, [x, a] ++ lonRest⟩
  | "rho" => do let p ← coord ev K "phi" v; pure ⟨{ v.ty with az := .rhophi }, [a, p] ++ lonRest⟩
  | "phi" => do let r ← coord ev K "rho" v; pure ⟨{ v.ty with az := .rhophi }, [r, a] ++ lonRest⟩
  | "z" => if d < 3 then pure v else pure ⟨{ v.ty with lon := some .z }, v.azEl ++ [a] ++ v.tmpEl⟩
  | "theta" => if d < 3 then pure v else pure ⟨{ v.ty with lon := some .theta }, v.azEl ++ [a] ++ v.tmpEl⟩
  | "eta" => if d < 3 then pure v else pure ⟨{ v.ty with lon := some .eta }, v.azEl ++ [a] ++ v.tmpEl⟩
  | "t" => if d < 4 then pure v else pure ⟨{ v.ty with tmp := some .t }, v.azEl ++ v.lonEl ++ [a]⟩
  | "tau" => if d < 4 then pure v else pure ⟨{ v.ty with tmp := some .tau }, v.azEl ++ v.lonEl ++ [a]⟩
  | n =>
    -- a read-only property of this class cannot be assigned; any other name silently becomes an instance attribute
    -- (the object classes have a `__dict__`) and leaves the vector unchanged
    let ro := planarProps ++ ["neg2D"] ++ (if d ≥ 3 then spatialProps ++ ["neg3D"] else [])
      ++ (if d ≥ 4 then lorentzProps ++ ["neg4D"] else [])
      ++ (if d ≥ 4 && v.ty.mom then lorentzMomProps else [])
      ++ (if v.ty.mom then (momAlias.filter (fun (_, _, need) => d ≥ need)).map (·.1) else [])
    if ro.contains n || ro.contains name then throw .attributeError else pure v

/-- `_replace_data`: the object keeps its class and coordinate system; every stored coordinate is read from the result -/
def replaceData (ev : Ev S B) (K : Consts S) (self : Vec S) (r : Vec S) : Except Err (Vec S) := do
  let az ← (azNames self.ty.az).mapM (fun n => coord ev K n r)
  let lon ← match self.ty.lon with
    | some l => (do let s ← coord ev K l.str r; pure [s])
    | none => pure []
  let tmp ← match self.ty.tmp with
    | some t => (do let s ← coord ev K t.str r; pure [s])
    | none => pure []
  pure ⟨self.ty, az ++ lon ++ tmp⟩

/-- one step; a step that raises leaves the state unchanged (the error is the step's output) -/
def step (ev : Ev S B) (K : Consts S) (A : Arith S) (v : Vec S) (st : Step S) : Vec S × Option Err :=
  let r : Except Err (Vec S) := match st with
    | .set n a => setCoord ev K n a v
    | .iop op arg =>
      match operator ev K A op v [arg] with
      | .ok (.vec rv) => replaceData ev K v rv
      | .ok _ => .error .typeError
      | .error .unmodelled => .error .typeError     -- operand kind the operator does not accept
      | .error e => .error e
  match r with
  | .ok v' => (v', none)
  | .error e => (v, some e)

def run (ev : Ev S B) (K : Consts S) (A : Arith S) (v : Vec S) (steps : List (Step S)) : List (Vec S × Option Err) :=
  match steps with
  | [] => []
  | s :: rest => let r := step ev K A v s; r :: run ev K A r.1 rest

end
end VG
