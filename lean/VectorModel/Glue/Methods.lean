/-
Hand-written model of the public method layer (`_methods.py` + the operator /
ufunc routing and setters of `backends/object.py`): for every public property,
method, conversion and operator — which compute module is used for which
operand dimensions, which dimension guards raise `TypeError`, the argument
order, which operands count for handler/flavor, keyword handling of the
dimension-changing conversions; and the object vector as a state machine
(coordinate assignment, in-place operators).

Internally everything is keyed by small enumerations (`Acc`, `CName`,
`ModuleId`); strings occur only in the parsing layer at the bottom, so the
theorems in `Props/` never evaluate a string.
-/
import VectorModel.Glue.Core

set_option linter.constructorNameAsVariable false
set_option linter.unusedVariables false
namespace VG
open VK

/-- scalar arithmetic the method layer itself performs (`1 / f` in `/`, `abs ** p`, `** 0.25`) -/
structure Arith (S : Type) where
  inv : S → S
  pow : S → S → S
  quarter : S
  sixth : S
  isTwo : S → Bool      -- `other == 2` test of `__pow__`

/-- the accessor-like properties backed by one compute module each -/
inductive Acc
  | x | y | rho | rho2 | phi
  | z | theta | eta | costheta | cottheta | mag | mag2
  | t | t2 | tau | tau2 | beta | gamma | rapidity
  | Et | Et2 | Mt | Mt2
  deriving DecidableEq, Repr, Inhabited

def Acc.mod : Acc → ModuleId
  | .x => .planar_x | .y => .planar_y | .rho => .planar_rho | .rho2 => .planar_rho2 | .phi => .planar_phi
  | .z => .spatial_z | .theta => .spatial_theta | .eta => .spatial_eta | .costheta => .spatial_costheta
  | .cottheta => .spatial_cottheta | .mag => .spatial_mag | .mag2 => .spatial_mag2
  | .t => .lorentz_t | .t2 => .lorentz_t2 | .tau => .lorentz_tau | .tau2 => .lorentz_tau2 | .beta => .lorentz_beta
  | .gamma => .lorentz_gamma | .rapidity => .lorentz_rapidity
  | .Et => .lorentz_Et | .Et2 => .lorentz_Et2 | .Mt => .lorentz_Mt | .Mt2 => .lorentz_Mt2

/-- smallest dimension of a vector that has the property -/
def Acc.need : Acc → Nat
  | .x | .y | .rho | .rho2 | .phi => 2
  | .z | .theta | .eta | .costheta | .cottheta | .mag | .mag2 => 3
  | _ => 4

/-- `Et`, `Et2`, `Mt`, `Mt2` exist on momentum vectors only -/
def Acc.momOnly : Acc → Bool
  | .Et | .Et2 | .Mt | .Mt2 => true
  | _ => false

/-- the nine stored-coordinate names (each is also an accessor) -/
inductive CName | x | y | rho | phi | z | theta | eta | t | tau
  deriving DecidableEq, Repr, Inhabited

def CName.acc : CName → Acc
  | .x => .x | .y => .y | .rho => .rho | .phi => .phi | .z => .z | .theta => .theta | .eta => .eta | .t => .t | .tau => .tau

def azCNames : Az → List CName | .xy => [.x, .y] | .rhophi => [.rho, .phi]
def lonCName : Lon → CName | .z => .z | .theta => .theta | .eta => .eta
def tmpCName : Tmp → CName | .t => .t | .tau => .tau

section
variable {S B : Type}

/-- read an accessor: `dispatch` of its module on the vector itself -/
def getAcc (ev : Ev S B) (a : Acc) (v : Vec S) : Except Err (Res S B) :=
  if v.ty.dim < a.need || (a.momOnly && !v.ty.mom) then .error .attributeError
  else dispatch ev a.mod [] none [v] [v]

def getS (ev : Ev S B) (a : Acc) (v : Vec S) : Except Err S :=
  match getAcc ev a v with
  | .ok (.scalar s) => .ok s
  | .ok _ => .error .assertionError
  | .error e => .error e

def scaleMod : Nat → ModuleId | 2 => .planar_scale | 3 => .spatial_scale | _ => .lorentz_scale
def unitMod : Nat → ModuleId | 2 => .planar_unit | 3 => .spatial_unit | _ => .lorentz_unit

/-- `scale` with the module of dimension `n` applied to `v` (`scale2D` on a 4D vector keeps z and t) -/
def scaleN (ev : Ev S B) (n : Nat) (f : S) (v : Vec S) : Except Err (Res S B) :=
  if v.ty.dim < n then .error .attributeError else dispatch ev (scaleMod n) [f] none [v] [v]

def lonOfKw : String → Option Lon
  | "z" => some .z | "pz" => some .z | "theta" => some .theta | "eta" => some .eta | _ => none
def tmpOfKw : String → Option Tmp
  | "t" => some .t | "e" => some .t | "E" => some .t | "energy" => some .t
  | "tau" => some .tau | "m" => some .tau | "M" => some .tau | "mass" => some .tau | _ => none

/-- `to_Vector2D/3D/4D` (and `to_2D/3D/4D`, `like`): retained stored coordinates verbatim; the imputed coordinate is the
value of the keyword, in the coordinate type the keyword names, or `0.0`; two keywords of one group are rejected.
`lonKw`/`tmpKw`: the (already classified) keyword arguments. -/
def toDim (zeroF : S) (target : Nat) (v : Vec S) (lonKw : List (Lon × S)) (tmpKw : List (Tmp × S)) (otherKw : Nat) :
    Except Err (Vec S) :=
  let d := v.ty.dim
  let lonAllowed := d == 2 && target ≥ 3
  let tmpAllowed := d ≤ 3 && target == 4
  if otherKw > 0 || (!lonAllowed && !lonKw.isEmpty) || (!tmpAllowed && !tmpKw.isEmpty) then .error .typeError
  else if lonKw.length > 1 || tmpKw.length > 1 then .error .typeError
  else if target == d then .ok v
  else
    let ty := v.ty
    let lonT : Option Lon := if target < 3 then none else match ty.lon with
      | some l => some l
      | none => some (match lonKw with | (l, _) :: _ => l | [] => .z)
    let lonV : List S := if target < 3 then [] else match ty.lon with
      | some _ => v.lonEl
      | none => [match lonKw with | (_, s) :: _ => s | [] => zeroF]
    let tmpT : Option Tmp := if target < 4 then none else match ty.tmp with
      | some t => some t
      | none => some (match tmpKw with | (t, _) :: _ => t | [] => .t)
    let tmpV : List S := if target < 4 then [] else match ty.tmp with
      | some _ => v.tmpEl
      | none => [match tmpKw with | (_, s) :: _ => s | [] => zeroF]
    .ok ⟨{ ty with lon := lonT, tmp := tmpT }, v.azEl ++ lonV ++ tmpV⟩

/-- `to_<system>`: every output coordinate is the accessor of that name; coordinates of a group the vector does not have
are imputed from the keyword (`kl`, `kt`: supplied values, if any) or `0.0` -/
def toSystem (ev : Ev S B) (zeroF : S) (v : Vec S) (az : Az) (lon : Option Lon) (tmp : Option Tmp)
    (kl kt : Option S) : Except Err (Vec S) := do
  let d := v.ty.dim
  let azv ← (azCNames az).mapM (fun n => getS ev n.acc v)
  let lonv ← match lon with
    | none => pure []
    | some l => if d ≥ 3 then (do let s ← getS ev (lonCName l).acc v; pure [s]) else pure [kl.getD zeroF]
  let tmpv ← match tmp with
    | none => pure []
    | some t => if d ≥ 4 then (do let s ← getS ev (tmpCName t).acc v; pure [s]) else pure [kt.getD zeroF]
  pure ⟨{ v.ty with az := az, lon := lon, tmp := tmp }, azv ++ lonv ++ tmpv⟩

/-! ### binary methods -/

inductive Bin
  | add | subtract | dot | equal | not_equal | isclose
  | is_parallel | is_antiparallel | is_perpendicular
  | deltaphi | deltaangle | deltaeta | deltaR | deltaR2 | deltaRapidityPhi | deltaRapidityPhi2
  | cross | boost_p4 | boost_beta3 | boost | boostCM_of_p4 | boostCM_of_beta3 | boostCM_of
  deriving DecidableEq, Repr, Inhabited

/-- module of a same-dimension binary method for dimension `d` -/
def Bin.sameDimMod : Bin → Nat → Option ModuleId
  | .add, 2 => some .planar_add | .add, 3 => some .spatial_add | .add, 4 => some .lorentz_add
  | .subtract, 2 => some .planar_subtract | .subtract, 3 => some .spatial_subtract | .subtract, 4 => some .lorentz_subtract
  | .dot, 2 => some .planar_dot | .dot, 3 => some .spatial_dot | .dot, 4 => some .lorentz_dot
  | .equal, 2 => some .planar_equal | .equal, 3 => some .spatial_equal | .equal, 4 => some .lorentz_equal
  | .not_equal, 2 => some .planar_not_equal | .not_equal, 3 => some .spatial_not_equal | .not_equal, 4 => some .lorentz_not_equal
  | .isclose, 2 => some .planar_isclose | .isclose, 3 => some .spatial_isclose | .isclose, 4 => some .lorentz_isclose
  | .is_parallel, 2 => some .planar_is_parallel | .is_parallel, _ => some .spatial_is_parallel
  | .is_antiparallel, 2 => some .planar_is_antiparallel | .is_antiparallel, _ => some .spatial_is_antiparallel
  | .is_perpendicular, 2 => some .planar_is_perpendicular | .is_perpendicular, _ => some .spatial_is_perpendicular
  | _, _ => none

def negN (ev : Ev S B) (K : Consts S) (n : Nat) (v : Vec S) : Except Err (Res S B) := scaleN ev n K.negOne v

/-- binary methods; `extra` = explicit scalar arguments (tolerance / rtol, atol, equal_nan), else the defaults -/
def binary (ev : Ev S B) (K : Consts S) (b : Bin) (self o : Vec S) (extra : List S) : Except Err (Res S B) :=
  let d := self.ty.dim
  let both := [self, o]
  match b with
  | .add | .subtract | .dot | .equal | .not_equal =>
    if o.ty.dim != d then .error .typeError else
    match b.sameDimMod d with | some m => dispatch ev m [] none both both | none => .error .assertionError
  | .isclose =>
    if o.ty.dim != d then .error .typeError else
    match b.sameDimMod d with
    | some m => dispatch ev m (if extra.isEmpty then [K.rtol, K.atol, K.bFalse] else extra) none both both
    | none => .error .assertionError
  | .is_parallel | .is_antiparallel | .is_perpendicular =>
    if o.ty.dim != d then .error .typeError else
    match b.sameDimMod d with
    | some m => dispatch ev m (if extra.isEmpty then [K.tol] else extra) none both both
    | none => .error .assertionError
  | .deltaphi => dispatch ev .planar_deltaphi [] none both both
  | .deltaangle | .deltaeta | .deltaR | .deltaR2 =>
    if d < 3 then .error .attributeError else
    if o.ty.dim != 3 && o.ty.dim != 4 then .error .typeError else
    dispatch ev (match b with | .deltaangle => .spatial_deltaangle | .deltaeta => .spatial_deltaeta
                              | .deltaR => .spatial_deltaR | _ => .spatial_deltaR2) [] none both both
  | .deltaRapidityPhi | .deltaRapidityPhi2 =>
    if d < 4 then .error .attributeError else
    if o.ty.dim != 4 then .error .typeError else
    dispatch ev (match b with | .deltaRapidityPhi => .lorentz_deltaRapidityPhi | _ => .lorentz_deltaRapidityPhi2) [] none both both
  | .cross =>
    if d < 3 then .error .attributeError else
    if d != 3 || o.ty.dim != 3 then .error .typeError else dispatch ev .spatial_cross [] none both both
  | .boost_p4 =>
    if d < 4 then .error .attributeError else
    if o.ty.dim != 4 then .error .typeError else dispatch ev .lorentz_boost_p4 [] none both both
  | .boost_beta3 =>
    if d < 4 then .error .attributeError else
    if o.ty.dim != 3 then .error .typeError else dispatch ev .lorentz_boost_beta3 [] none both both
  | .boost =>
    if d < 4 then .error .attributeError else
    if o.ty.dim == 3 then dispatch ev .lorentz_boost_beta3 [] none both both
    else if o.ty.dim == 4 then dispatch ev .lorentz_boost_p4 [] none both both
    else .error .typeError
  | .boostCM_of_p4 | .boostCM_of_beta3 | .boostCM_of =>
    if d < 4 then .error .attributeError else
    let want : Option Nat := match b with | .boostCM_of_p4 => some 4 | .boostCM_of_beta3 => some 3 | _ => none
    if (want.isSome && want != some o.ty.dim) || (o.ty.dim != 3 && o.ty.dim != 4) then .error .typeError else
    match negN ev K 3 o with
    | .ok (.vec n) =>
      dispatch ev (if o.ty.dim == 4 then .lorentz_boost_p4 else .lorentz_boost_beta3) [] none [self, n] [self, n]
    | .ok _ => .error .assertionError
    | .error e => .error e

/-! ### the object vector as a state machine: coordinate assignment and in-place operators (C15) -/

/-- `v.<name> = a` for one of the nine coordinate names: the assigned group is re-stored in the system the name belongs
to, the partner coordinate is read through its accessor, the other groups are untouched.  A name of a group the
vector does not have is a plain instance attribute (no effect on the vector). -/
def setC (ev : Ev S B) (c : CName) (a : S) (v : Vec S) : Except Err (Vec S) :=
  let d := v.ty.dim
  let rest := v.lonEl ++ v.tmpEl
  match c with
  | .x => do let y ← getS ev .y v; pure ⟨{ v.ty with az := .xy }, [a, y] ++ rest⟩
  | .y => do let x ← getS ev .x v; pure ⟨{ v.ty with az := .xy }, [x, a] ++ rest⟩
  | .rho => do let p ← getS ev .phi v; pure ⟨{ v.ty with az := .rhophi }, [a, p] ++ rest⟩
  | .phi => do let r ← getS ev .rho v; pure ⟨{ v.ty with az := .rhophi }, [r, a] ++ rest⟩
  | .z => if d < 3 then pure v else pure ⟨{ v.ty with lon := some .z }, v.azEl ++ [a] ++ v.tmpEl⟩
  | .theta => if d < 3 then pure v else pure ⟨{ v.ty with lon := some .theta }, v.azEl ++ [a] ++ v.tmpEl⟩
  | .eta => if d < 3 then pure v else pure ⟨{ v.ty with lon := some .eta }, v.azEl ++ [a] ++ v.tmpEl⟩
  | .t => if d < 4 then pure v else pure ⟨{ v.ty with tmp := some .t }, v.azEl ++ v.lonEl ++ [a]⟩
  | .tau => if d < 4 then pure v else pure ⟨{ v.ty with tmp := some .tau }, v.azEl ++ v.lonEl ++ [a]⟩

/-- `_replace_data`: the object keeps its class and coordinate system; every stored coordinate is read from the result -/
def replaceData (ev : Ev S B) (self : Vec S) (r : Vec S) : Except Err (Vec S) := do
  let az ← (azCNames self.ty.az).mapM (fun n => getS ev n.acc r)
  let lon ← match self.ty.lon with
    | some l => (do let s ← getS ev (lonCName l).acc r; pure [s])
    | none => pure []
  let tmp ← match self.ty.tmp with
    | some t => (do let s ← getS ev (tmpCName t).acc r; pure [s])
    | none => pure []
  pure ⟨self.ty, az ++ lon ++ tmp⟩

inductive IOp | add | sub | mul | div
  deriving DecidableEq, Repr, Inhabited

/-- one operation of a history -/
inductive Step (S : Type)
  | set (c : CName) (a : S)              -- assignment to a coordinate name the class defines a setter for
  | setReadOnly                          -- assignment to a read-only property: AttributeError
  | setOther                             -- assignment to any other name: plain instance attribute
  | iopV (op : IOp) (o : Vec S)          -- `+=`, `-=` (and the invalid `*=`, `/=`) with a vector
  | iopS (op : IOp) (f : S)              -- `*=`, `/=` (and the invalid `+=`, `-=`) with a scalar

/-- the functional result of the operator behind an in-place operator -/
def iopResult (ev : Ev S B) (K : Consts S) (A : Arith S) (v : Vec S) : Step S → Except Err (Res S B)
  | .iopV .add o => binary ev K .add v o []
  | .iopV .sub o => binary ev K .subtract v o []
  | .iopS .mul f => scaleN ev v.ty.dim f v
  | .iopS .div f => scaleN ev v.ty.dim (A.inv f) v
  | _ => .error .typeError

def stepE (ev : Ev S B) (K : Consts S) (A : Arith S) (v : Vec S) (st : Step S) : Except Err (Vec S) :=
  match st with
  | .set c a => setC ev c a v
  | .setReadOnly => .error .attributeError
  | .setOther => .ok v
  | st => match iopResult ev K A v st with
    | .ok (.vec rv) => replaceData ev v rv
    | .ok _ => .error .typeError
    | .error e => .error e

/-- one step; a step that raises leaves the state unchanged (the error is the step's output) -/
def step (ev : Ev S B) (K : Consts S) (A : Arith S) (v : Vec S) (st : Step S) : Vec S × Option Err :=
  match stepE ev K A v st with
  | .ok v' => (v', none)
  | .error e => (v, some e)

def run (ev : Ev S B) (K : Consts S) (A : Arith S) (v : Vec S) : List (Step S) → List (Vec S × Option Err)
  | [] => []
  | s :: rest => let r := step ev K A v s; r :: run ev K A r.1 rest

/-- final state of a history -/
def runFinal (ev : Ev S B) (K : Consts S) (A : Arith S) (v : Vec S) : List (Step S) → Vec S
  | [] => v
  | s :: rest => runFinal ev K A (step ev K A v s).1 rest

/-! ### parsing layer: the public names (strings) -/

def accOfName : String → Option Acc
  | "x" => some .x | "y" => some .y | "rho" => some .rho | "rho2" => some .rho2 | "phi" => some .phi
  | "z" => some .z | "theta" => some .theta | "eta" => some .eta | "costheta" => some .costheta
  | "cottheta" => some .cottheta | "mag" => some .mag | "mag2" => some .mag2
  | "t" => some .t | "t2" => some .t2 | "tau" => some .tau | "tau2" => some .tau2 | "beta" => some .beta
  | "gamma" => some .gamma | "rapidity" => some .rapidity
  | "Et" => some .Et | "Et2" => some .Et2 | "Mt" => some .Mt | "Mt2" => some .Mt2
  | _ => none

/-- momentum spellings (defined on momentum classes only) -/
def momAccOfName : String → Option Acc
  | "px" => some .x | "py" => some .y | "pt" => some .rho | "pt2" => some .rho2
  | "pz" => some .z | "pseudorapidity" => some .eta | "p" => some .mag | "p2" => some .mag2
  | "E" => some .t | "e" => some .t | "energy" => some .t | "E2" => some .t2 | "e2" => some .t2 | "energy2" => some .t2
  | "M" => some .tau | "m" => some .tau | "mass" => some .tau | "M2" => some .tau2 | "m2" => some .tau2 | "mass2" => some .tau2
  | "et" => some .Et | "transverse_energy" => some .Et | "et2" => some .Et2 | "transverse_energy2" => some .Et2
  | "mt" => some .Mt | "transverse_mass" => some .Mt | "mt2" => some .Mt2 | "transverse_mass2" => some .Mt2
  | _ => none

def binOfName : String → Option Bin
  | "add" => some .add | "subtract" => some .subtract | "dot" => some .dot | "equal" => some .equal
  | "not_equal" => some .not_equal | "isclose" => some .isclose | "is_parallel" => some .is_parallel
  | "is_antiparallel" => some .is_antiparallel | "is_perpendicular" => some .is_perpendicular
  | "deltaphi" => some .deltaphi | "deltaangle" => some .deltaangle | "deltaeta" => some .deltaeta
  | "deltaR" => some .deltaR | "deltaR2" => some .deltaR2 | "deltaRapidityPhi" => some .deltaRapidityPhi
  | "deltaRapidityPhi2" => some .deltaRapidityPhi2 | "cross" => some .cross | "boost_p4" => some .boost_p4
  | "boost_beta3" => some .boost_beta3 | "boost" => some .boost | "boostCM_of_p4" => some .boostCM_of_p4
  | "boostCM_of_beta3" => some .boostCM_of_beta3 | "boostCM_of" => some .boostCM_of
  | _ => none

/-- setter names: generic coordinate names on every class, momentum spellings on momentum classes -/
def setterOfName (mom : Bool) : String → Option CName
  | "x" => some .x | "y" => some .y | "rho" => some .rho | "phi" => some .phi | "z" => some .z
  | "theta" => some .theta | "eta" => some .eta | "t" => some .t | "tau" => some .tau
  | "px" => if mom then some .x else none | "py" => if mom then some .y else none
  | "pt" => if mom then some .rho else none | "pz" => if mom then some .z else none
  | "E" => if mom then some .t else none | "e" => if mom then some .t else none
  | "energy" => if mom then some .t else none | "M" => if mom then some .tau else none
  | "m" => if mom then some .tau else none | "mass" => if mom then some .tau else none
  | _ => none

/-- is `name` a read-only property of a vector of this type? -/
def isReadOnlyProp (ty : VT) (name : String) : Bool :=
  let hasAcc (a : Acc) : Bool := ty.dim ≥ a.need && (!a.momOnly || ty.mom)
  (match accOfName name with | some a => hasAcc a | none => false)
  || (ty.mom && (match momAccOfName name with | some a => hasAcc a | none => false))
  || name == "neg2D" || (name == "neg3D" && ty.dim ≥ 3) || (name == "neg4D" && ty.dim ≥ 4)

/-- classify an assignment `v.<name> = a` -/
def stepOfSet (ty : VT) (name : String) (a : S) : Step S :=
  match setterOfName ty.mom name with
  | some c =>
    -- a setter exists only on classes that have the coordinate's group
    if (c == .z || c == .theta || c == .eta) && ty.dim < 3 then
      (if isReadOnlyProp ty name then .setReadOnly else .setOther)
    else if (c == .t || c == .tau) && ty.dim < 4 then
      (if isReadOnlyProp ty name then .setReadOnly else .setOther)
    else .set c a
  | none => if isReadOnlyProp ty name then .setReadOnly else .setOther

def ordOf (s : String) : Option Ord := Ord.all.find? (fun o => o.str == s.toLower)

def kwargs (args : List (Arg S)) : List (String × S) :=
  args.filterMap fun a => match a with | .kw k s => some (k, s) | _ => none

def toDimS (K : Consts S) (target : Nat) (v : Vec S) (kws : List (String × S)) : Except Err (Res S B) :=
  let lonKw := kws.filterMap fun (k, s) => (lonOfKw k).map (·, s)
  let tmpKw := kws.filterMap fun (k, s) => (tmpOfKw k).map (·, s)
  let other := (kws.filter fun (k, _) => (lonOfKw k).isNone && (tmpOfKw k).isNone).length
  (toDim K.zeroF target v lonKw tmpKw other).map .vec

/-- the 40 `to_<system>` conversions: (method name, az, lon?, tmp?, keyword for lon, keyword for tmp) -/
def toTable : List (String × Az × Option Lon × Option Tmp × String × String) :=
  let az : List (String × String × Az) := [("xy", "pxpy", .xy), ("rhophi", "ptphi", .rhophi)]
  let lon : List (String × String × Lon × String × String) :=
    [("z", "pz", .z, "z", "pz"), ("theta", "theta", .theta, "theta", "theta"), ("eta", "eta", .eta, "eta", "eta")]
  let tmp : List (String × String × Tmp × String × String) := [("t", "energy", .t, "t", "energy"), ("tau", "mass", .tau, "tau", "mass")]
  (az.flatMap fun (g, m, a) => [(s!"to_{g}", a, none, none, "", ""), (s!"to_{m}", a, none, none, "", "")]) ++
  (az.flatMap fun (g, m, a) => lon.flatMap fun (lg, lm, l, kg, km) =>
    [(s!"to_{g}{lg}", a, some l, none, kg, ""), (s!"to_{m}{lm}", a, some l, none, km, "")]) ++
  (az.flatMap fun (g, m, a) => lon.flatMap fun (lg, lm, l, kg, km) => tmp.flatMap fun (tg, tm, t, tkg, tkm) =>
    [(s!"to_{g}{lg}{tg}", a, some l, some t, kg, tkg), (s!"to_{m}{lm}{tm}", a, some l, some t, km, tkm)])

/-- every public property / method of a vector (object semantics), by name -/
def call (ev : Ev S B) (K : Consts S) (A : Arith S) (meth : String) (self : Vec S) (args : List (Arg S)) :
    Except Err (Res S B) :=
  let d := self.ty.dim
  let kws := kwargs args
  let u (m : ModuleId) (need : Nat) (sc : List S) (ord : Option Ord := none) : Except Err (Res S B) :=
    if d < need then .error .attributeError else dispatch ev m sc ord [self] [self]
  let transform (m : ModuleId) (n need : Nat) : Except Err (Res S B) :=
    if d < need then .error .attributeError else
    let sc := args.filterMap fun a => match a with | .sc s => some s | _ => none
    if sc.length != n then .error .typeError else dispatch ev m sc none [self] [self]
  match momAccOfName meth with
  | some a =>
    if !self.ty.mom then .error .attributeError else
    if self.ty.dim < a.need then .error .attributeError else
    if !args.isEmpty then .error .typeError else getAcc ev a self
  | none =>
  match toTable.find? (·.1 == meth) with
  | some (_, az, lon, tmp, kl, kt) =>
    if args.any (fun a => match a with | .kw _ _ => false | _ => true) then .error .typeError else
    let allowed := (if lon.isSome then [kl] else []) ++ (if tmp.isSome then [kt] else [])
    if kws.any (fun (k, _) => !allowed.contains k) then .error .typeError else
    (toSystem ev K.zeroF self az lon tmp ((kws.find? (·.1 == kl)).map (·.2)) ((kws.find? (·.1 == kt)).map (·.2))).map .vec
  | none =>
  match accOfName meth with
  | some a => if args.isEmpty then getAcc ev a self
              else if d < a.need || (a.momOnly && !self.ty.mom) then .error .attributeError else .error .typeError
  | none =>
  match meth, args with
  | "neg2D", [] => negN ev K 2 self
  | "neg3D", [] => negN ev K 3 self
  | "neg4D", [] => negN ev K 4 self
  | "to_Vector2D", _ => toDimS K 2 self kws
  | "to_Vector3D", _ => toDimS K 3 self kws
  | "to_Vector4D", _ => toDimS K 4 self kws
  | "to_2D", _ => toDimS K 2 self kws
  | "to_3D", _ => toDimS K 3 self kws
  | "to_4D", _ => toDimS K 4 self kws
  | "like", [.v o] => toDimS K o.ty.dim self []
  | "unit", [] => u (unitMod d) 2 []
  | "to_beta3", [] => u .lorentz_to_beta3 4 []
  | "rotateZ", [.sc a] => u .planar_rotateZ 2 [a]
  | "rotateX", [.sc a] => u .spatial_rotateX 3 [a]
  | "rotateY", [.sc a] => u .spatial_rotateY 3 [a]
  | "rotate_euler", [.sc p, .sc t, .sc q] => u .spatial_rotate_euler 3 [p, t, q] (some .zxz)
  | "rotate_euler", [.sc p, .sc t, .sc q, .str o] =>
    if d < 3 then .error .attributeError else
    match ordOf o with
    | some o => u .spatial_rotate_euler 3 [p, t, q] (some o)
    | none => .error .typeError
  | "rotate_nautical", [.sc yaw, .sc pitch, .sc roll] => u .spatial_rotate_euler 3 [roll, pitch, yaw] (some .zyx)
  | "rotate_quaternion", [.sc q0, .sc q1, .sc q2, .sc q3] => u .spatial_rotate_quaternion 3 [q0, q1, q2, q3]
  | "rotate_axis", [.v axis, .sc a] =>
    if d < 3 then .error .attributeError else
    if axis.ty.dim != 3 then .error .typeError else dispatch ev .spatial_rotate_axis [a] none [axis, self] [self]
  | "scale", [.sc f] => scaleN ev d f self
  | "scale2D", [.sc f] => scaleN ev 2 f self
  | "scale3D", [.sc f] => scaleN ev 3 f self
  | "scale4D", [.sc f] => scaleN ev 4 f self
  | "is_timelike", [] => u .lorentz_is_timelike 4 [K.zeroI]
  | "is_spacelike", [] => u .lorentz_is_spacelike 4 [K.zeroI]
  | "is_lightlike", [] => u .lorentz_is_lightlike 4 [K.tol]
  | "is_timelike", [.sc t] => u .lorentz_is_timelike 4 [t]
  | "is_spacelike", [.sc t] => u .lorentz_is_spacelike 4 [t]
  | "is_lightlike", [.sc t] => u .lorentz_is_lightlike 4 [t]
  | "boostX", [.kw "beta" s] => u .lorentz_boostX_beta 4 [s]
  | "boostY", [.kw "beta" s] => u .lorentz_boostY_beta 4 [s]
  | "boostZ", [.kw "beta" s] => u .lorentz_boostZ_beta 4 [s]
  | "boostX", [.kw "gamma" s] => u .lorentz_boostX_gamma 4 [s]
  | "boostY", [.kw "gamma" s] => u .lorentz_boostY_gamma 4 [s]
  | "boostZ", [.kw "gamma" s] => u .lorentz_boostZ_gamma 4 [s]
  | "boostX", [.sc s] => u .lorentz_boostX_beta 4 [s]
  | "boostY", [.sc s] => u .lorentz_boostY_beta 4 [s]
  | "boostZ", [.sc s] => u .lorentz_boostZ_beta 4 [s]
  | "boostX", _ => if d < 4 then .error .attributeError else .error .typeError
  | "boostY", _ => if d < 4 then .error .attributeError else .error .typeError
  | "boostZ", _ => if d < 4 then .error .attributeError else .error .typeError
  | "transform2D", _ => transform .planar_transform2D 4 2
  | "transform3D", _ => transform .spatial_transform3D 9 3
  | "transform4D", _ => transform .lorentz_transform4D 16 4
  | m, [.v o] => match binOfName m with
    | some b => binary ev K b self o []
    | none => .error .unmodelled
  | m, [.v o, .sc t] => match binOfName m with
    | some b => if b == .is_parallel || b == .is_antiparallel || b == .is_perpendicular then binary ev K b self o [t]
                else .error .unmodelled
    | none => .error .unmodelled
  | _, _ => .error .unmodelled

def normAcc : Nat → Acc | 2 => .rho | 3 => .mag | _ => .tau
def norm2Acc : Nat → Acc | 2 => .rho2 | 3 => .mag2 | _ => .tau2

/-- operators: each stands for a method (property C05, last sentence) -/
def operator (ev : Ev S B) (K : Consts S) (A : Arith S) (op : String) (self : Vec S) (args : List (Arg S)) :
    Except Err (Res S B) :=
  let d := self.ty.dim
  match op, args with
  | "add", [.v o] => binary ev K .add self o []
  | "sub", [.v o] => binary ev K .subtract self o []
  | "matmul", [.v o] => binary ev K .dot self o []
  | "eq", [.v o] => binary ev K .equal self o []
  | "ne", [.v o] => binary ev K .not_equal self o []
  | "mul", [.sc f] => scaleN ev d f self
  | "rmul", [.sc f] => scaleN ev d f self
  | "truediv", [.sc f] => scaleN ev d (A.inv f) self
  | "neg", [] => scaleN ev d K.negOne self
  | "pos", [] => .ok (.vec self)
  | "abs", [] => getAcc ev (normAcc d) self
  | "pow", [.sc p] =>
    if A.isTwo p then getAcc ev (norm2Acc d) self
    else match getAcc ev (normAcc d) self with
      | .ok (.scalar s) => .ok (.scalar (A.pow s p))
      | r => r
  | "square", [] => getAcc ev (norm2Acc d) self
  | "sqrt", [] => match getAcc ev (norm2Acc d) self with
      | .ok (.scalar s) => .ok (.scalar (A.pow s A.quarter))
      | r => r
  | "cbrt", [] => match getAcc ev (norm2Acc d) self with
      | .ok (.scalar s) => .ok (.scalar (A.pow s A.sixth))
      | r => r
  | _, _ => .error .unmodelled

end
end VG
