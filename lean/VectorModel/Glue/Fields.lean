/-
Hand-written executable model of the FIELD LOOKUP chains of the Awkward backend (properties C14 / C07 / C18): which
fields of a record are the coordinates.  Transcribed branch by branch, in source order, from

* the INTERPRETER: `/repo/src/vector/backends/awkward.py`
    `AzimuthalAwkward.from_fields` (L137-146) / `.from_momentum_fields` (L165-182),
    `LongitudinalAwkward.from_fields` (L217-228) / `.from_momentum_fields` (L248-261),
    `TemporalAwkward.from_fields` (L295-304) / `.from_momentum_fields` (L323-344);
    `VectorAwkward2D/3D/4D.azimuthal/longitudinal/temporal` use `from_fields` (L1137, L1197, L1217, L1297, L1317, L1337),
    `MomentumAwkward2D/3D/4D` use `from_momentum_fields` (L1167, L1247, L1267, L1367, L1387, L1406);
* numba TYPING: `_aztype_of` (L1805-1870), `_ltype_of` (L1873-1927), `_ttype_of` (L1930-1997) and the six typers
    `_numba_typer_Vector2D … _numba_typer_Momentum4D` (L2000-2052);
* numba LOWERING: `_numba_lower` (L2055-2159) and the getters `_awkward_numba_xy … _awkward_numba_mass`
    (`_numba_object.py` L3568-3655: each reads exactly the fields in its name).

A record is a field list `fs : List (String × S)`; the chains only ask `"name" in fields` and read `array["name"]`, so
everything is defined over the name→value MAP `look fs` (`FMap S`), resp. over the presence predicate.

The typer takes the DTYPE of the result from one set of fields (momentum spellings first) while the lowering reads another
(generic spellings first); `nbReadD` models the consequence (numba refuses to convert: `TypingError`) with an abstract dtype
tag per value.

Core Lean only.  Polymorphic in the scalar type.
-/
import VectorModel.Glue.Awkward

set_option linter.unusedVariables false
namespace VG
open VK

/-- exception kinds of the field lookup: `ValueError` (interpreter: "array does not have … coordinates"),
`numba.TypingError`, `AssertionError` (the `else: raise AssertionError` of `_numba_lower`), `keyError` = reading a field
that is not there (`array["x"]` without `"x"`; never happens, see `c14f_no_keyError`) -/
inductive FErr | valueError | typingError | assertionError | keyError
  deriving DecidableEq, Repr, Inhabited

def FErr.str : FErr → String
  | .valueError => "valueError" | .typingError => "typingError"
  | .assertionError => "assertionError" | .keyError => "keyError"

/-- the name → value map of a record -/
abbrev FMap (S : Type) := String → Option S

/-- the coordinates a reader finds: azimuthal system with its two values, longitudinal / temporal system with its value -/
structure Stored (S : Type) where
  az : Az × S × S
  lon : Option (Lon × S)
  tmp : Option (Tmp × S)
  deriving DecidableEq, Repr

section
variable {S : Type}

/-- `array[name]` for every name (first occurrence; real records have distinct names) -/
def look (fs : List (String × S)) : FMap S := fun n => fs.lookup n

/-- `ak.fields(array)` -/
def fieldNames (fs : List (String × S)) : List String := fs.map (·.1)

/-- `name in fields` -/
def FMap.has (g : FMap S) (n : String) : Bool := (g n).isSome

/-- `Cls(array[a], array[b])` -/
def rd2 (g : FMap S) (c : Az) (a b : String) : Except FErr (Az × S × S) :=
  match g a, g b with
  | some x, some y => .ok (c, x, y)
  | _, _ => .error .keyError

/-- `Cls(array[a])` -/
def rd1 {C : Type} (g : FMap S) (c : C) (a : String) : Except FErr (C × S) :=
  match g a with
  | some x => .ok (c, x)
  | none => .error .keyError

/-! ### the interpreter chains -/

/-- `AzimuthalAwkward.from_fields`, awkward.py L137-146 -/
def azFieldsM (g : FMap S) : Except FErr (Az × S × S) :=
  if g.has "x" && g.has "y" then rd2 g .xy "x" "y"
  else if g.has "rho" && g.has "phi" then rd2 g .rhophi "rho" "phi"
  else .error .valueError

/-- `AzimuthalAwkward.from_momentum_fields`, awkward.py L165-182 -/
def azMomFieldsM (g : FMap S) : Except FErr (Az × S × S) :=
  if g.has "x" && g.has "y" then rd2 g .xy "x" "y"
  else if g.has "x" && g.has "py" then rd2 g .xy "x" "py"
  else if g.has "px" && g.has "y" then rd2 g .xy "px" "y"
  else if g.has "px" && g.has "py" then rd2 g .xy "px" "py"
  else if g.has "rho" && g.has "phi" then rd2 g .rhophi "rho" "phi"
  else if g.has "pt" && g.has "phi" then rd2 g .rhophi "pt" "phi"
  else .error .valueError

/-- `LongitudinalAwkward.from_fields`, awkward.py L217-228 -/
def lonFieldsM (g : FMap S) : Except FErr (Lon × S) :=
  if g.has "z" then rd1 g .z "z"
  else if g.has "theta" then rd1 g .theta "theta"
  else if g.has "eta" then rd1 g .eta "eta"
  else .error .valueError

/-- `LongitudinalAwkward.from_momentum_fields`, awkward.py L248-261 -/
def lonMomFieldsM (g : FMap S) : Except FErr (Lon × S) :=
  if g.has "z" then rd1 g .z "z"
  else if g.has "pz" then rd1 g .z "pz"
  else if g.has "theta" then rd1 g .theta "theta"
  else if g.has "eta" then rd1 g .eta "eta"
  else .error .valueError

/-- `TemporalAwkward.from_fields`, awkward.py L295-304 -/
def tmpFieldsM (g : FMap S) : Except FErr (Tmp × S) :=
  if g.has "t" then rd1 g .t "t"
  else if g.has "tau" then rd1 g .tau "tau"
  else .error .valueError

/-- `TemporalAwkward.from_momentum_fields`, awkward.py L323-344 -/
def tmpMomFieldsM (g : FMap S) : Except FErr (Tmp × S) :=
  if g.has "t" then rd1 g .t "t"
  else if g.has "E" then rd1 g .t "E"
  else if g.has "e" then rd1 g .t "e"
  else if g.has "energy" then rd1 g .t "energy"
  else if g.has "tau" then rd1 g .tau "tau"
  else if g.has "M" then rd1 g .tau "M"
  else if g.has "m" then rd1 g .tau "m"
  else if g.has "mass" then rd1 g .tau "mass"
  else .error .valueError

/-- the `azimuthal` property of `VectorAwkward*D` (`mom = false`) / `MomentumAwkward*D` (`mom = true`) -/
def azOfM (mom : Bool) (g : FMap S) : Except FErr (Az × S × S) := if mom then azMomFieldsM g else azFieldsM g
/-- the `longitudinal` property -/
def lonOfM (mom : Bool) (g : FMap S) : Except FErr (Lon × S) := if mom then lonMomFieldsM g else lonFieldsM g
/-- the `temporal` property -/
def tmpOfM (mom : Bool) (g : FMap S) : Except FErr (Tmp × S) := if mom then tmpMomFieldsM g else tmpFieldsM g

/-- the stored coordinates the interpreter sees for a `Vector{dim}D` / `Momentum{dim}D` record: `azimuthal`, then (3D, 4D)
`longitudinal`, then (4D) `temporal`; the first property that raises decides the error -/
def readM (mom : Bool) (dim : Nat) (g : FMap S) : Except FErr (Stored S) :=
  match azOfM mom g with
  | .error e => .error e
  | .ok az =>
    if dim < 3 then .ok ⟨az, none, none⟩ else
    match lonOfM mom g with
    | .error e => .error e
    | .ok lon =>
      if dim < 4 then .ok ⟨az, some lon, none⟩ else
      match tmpOfM mom g with
      | .error e => .error e
      | .ok tmp => .ok ⟨az, some lon, some tmp⟩

/-! list-level entry points -/

def azFields (fs : List (String × S)) : Except FErr (Az × S × S) := azFieldsM (look fs)
def azMomFields (fs : List (String × S)) : Except FErr (Az × S × S) := azMomFieldsM (look fs)
def lonFields (fs : List (String × S)) : Except FErr (Lon × S) := lonFieldsM (look fs)
def lonMomFields (fs : List (String × S)) : Except FErr (Lon × S) := lonMomFieldsM (look fs)
def tmpFields (fs : List (String × S)) : Except FErr (Tmp × S) := tmpFieldsM (look fs)
def tmpMomFields (fs : List (String × S)) : Except FErr (Tmp × S) := tmpMomFieldsM (look fs)
def azOf (mom : Bool) (fs : List (String × S)) : Except FErr (Az × S × S) := azOfM mom (look fs)
def lonOf (mom : Bool) (fs : List (String × S)) : Except FErr (Lon × S) := lonOfM mom (look fs)
def tmpOf (mom : Bool) (fs : List (String × S)) : Except FErr (Tmp × S) := tmpOfM mom (look fs)

/-- the interpreter's view of a `Vector{dim}D` / `Momentum{dim}D` record -/
def readRec (mom : Bool) (dim : Nat) (fs : List (String × S)) : Except FErr (Stored S) := readM mom dim (look fs)

end

/-! ### numba typing (`_aztype_of`, `_ltype_of`, `_ttype_of`), on the presence predicate of the field names

`_lookup_field(recordarraytype, name)` = index of the field or `ValueError` → `None`; the model keeps the NAME as the index.
The result carries, besides the coordinate system, the field(s) whose dtype becomes the dtype of the declared type
(`recordarraytype.contenttypes[x_index]`). -/

/-- `try: _lookup_field(…, n) except ValueError: None` -/
def idx (p : String → Bool) (n : String) : Option String := if p n then some n else none

/-- `_aztype_of(recordarraytype, is_momentum)`, L1805-1870 -/
def nbAzTypeP (mom : Bool) (p : String → Bool) : Except FErr (Az × String × String) :=
  let x := (if mom then idx p "px" else none).or (idx p "x")
  let y := (if mom then idx p "py" else none).or (idx p "y")
  let rho := (if mom then idx p "pt" else none).or (idx p "rho")
  let phi := idx p "phi"
  match x, y with
  | some xi, some yi => .ok (.xy, xi, yi)
  | _, _ =>
    match rho, phi with
    | some ri, some pi => .ok (.rhophi, ri, pi)
    | _, _ => .error .typingError

/-- `_ltype_of(recordarraytype, is_momentum)`, L1873-1927 -/
def nbLonTypeP (mom : Bool) (p : String → Bool) : Except FErr (Lon × String) :=
  let z := (if mom then idx p "pz" else none).or (idx p "z")
  let theta := idx p "theta"
  let eta := idx p "eta"
  match z with
  | some zi => .ok (.z, zi)
  | none =>
    match theta with
    | some ti => .ok (.theta, ti)
    | none =>
      match eta with
      | some ei => .ok (.eta, ei)
      | none => .error .typingError

/-- `_ttype_of(recordarraytype, is_momentum)`, L1930-1997 -/
def nbTmpTypeP (mom : Bool) (p : String → Bool) : Except FErr (Tmp × String) :=
  let t := (if mom then ((idx p "E").or (idx p "e")).or (idx p "energy") else none).or (idx p "t")
  let tau := (if mom then ((idx p "M").or (idx p "m")).or (idx p "mass") else none).or (idx p "tau")
  match t with
  | some ti => .ok (.t, ti)
  | none =>
    match tau with
    | some ti => .ok (.tau, ti)
    | none => .error .typingError

/-- the declared type of the record: systems and the fields that give the dtypes -/
structure NbType where
  az : Az × String × String
  lon : Option (Lon × String)
  tmp : Option (Tmp × String)
  deriving DecidableEq, Repr

/-- `_numba_typer_{Vector,Momentum}{2,3,4}D`, L2000-2052: azimuthal, then longitudinal, then temporal type -/
def nbTypeP (mom : Bool) (dim : Nat) (p : String → Bool) : Except FErr NbType :=
  match nbAzTypeP mom p with
  | .error e => .error e
  | .ok a =>
    if dim < 3 then .ok ⟨a, none, none⟩ else
    match nbLonTypeP mom p with
    | .error e => .error e
    | .ok l =>
      if dim < 4 then .ok ⟨a, some l, none⟩ else
      match nbTmpTypeP mom p with
      | .error e => .error e
      | .ok t => .ok ⟨a, some l, some t⟩

/-- the fields whose dtypes make the declared type, in coordinate order -/
def NbType.names (ty : NbType) : List String :=
  [ty.az.2.1, ty.az.2.2] ++ (match ty.lon with | some l => [l.2] | none => []) ++
    (match ty.tmp with | some t => [t.2] | none => [])

/-! ### numba lowering (`_numba_lower`, L2083-2142): which getter, as the field name(s) it reads.  The chains do not look
at the flavor. -/

/-- L2084-2101: `_awkward_numba_xy / _xpy / _pxy / _pxpy`, `_awkward_numba_rhophi / _ptphi` -/
def nbLowerAz (sys : Az) (p : String → Bool) : Except FErr (String × String) :=
  match sys with
  | .xy =>
    if p "x" && p "y" then .ok ("x", "y")
    else if p "x" && p "py" then .ok ("x", "py")
    else if p "px" && p "y" then .ok ("px", "y")
    else if p "px" && p "py" then .ok ("px", "py")
    else .error .assertionError
  | .rhophi =>
    if p "rho" && p "phi" then .ok ("rho", "phi")
    else if p "pt" && p "phi" then .ok ("pt", "phi")
    else .error .assertionError

/-- L2104-2118: `_awkward_numba_z / _pz`, `_theta`, `_eta` (the last two without looking at the fields) -/
def nbLowerLon (sys : Lon) (p : String → Bool) : Except FErr String :=
  match sys with
  | .z => if p "z" then .ok "z" else if p "pz" then .ok "pz" else .error .assertionError
  | .theta => .ok "theta"
  | .eta => .ok "eta"

/-- L2121-2142: `_awkward_numba_t / _E / _e / _energy`, `_tau / _M / _m / _mass` -/
def nbLowerTmp (sys : Tmp) (p : String → Bool) : Except FErr String :=
  match sys with
  | .t =>
    if p "t" then .ok "t" else if p "E" then .ok "E" else if p "e" then .ok "e"
    else if p "energy" then .ok "energy" else .error .assertionError
  | .tau =>
    if p "tau" then .ok "tau" else if p "M" then .ok "M" else if p "m" then .ok "m"
    else if p "mass" then .ok "mass" else .error .assertionError

/-- the chosen getters, as the fields they read -/
structure NbGetters where
  az : String × String
  lon : Option String
  tmp : Option String
  deriving DecidableEq, Repr

/-- `_numba_lower`: azimuthal chain, then (3D, 4D) longitudinal, then (4D) temporal -/
def nbLowerP (ty : NbType) (p : String → Bool) : Except FErr NbGetters :=
  match nbLowerAz ty.az.1 p with
  | .error e => .error e
  | .ok a =>
    match ty.lon with
    | none => .ok ⟨a, none, none⟩
    | some l =>
      match nbLowerLon l.1 p with
      | .error e => .error e
      | .ok ln =>
        match ty.tmp with
        | none => .ok ⟨a, some ln, none⟩
        | some t =>
          match nbLowerTmp t.1 p with
          | .error e => .error e
          | .ok tn => .ok ⟨a, some ln, some tn⟩

/-- the fields the compiled code reads, in coordinate order -/
def NbGetters.names (gt : NbGetters) : List String :=
  [gt.az.1, gt.az.2] ++ (match gt.lon with | some l => [l] | none => []) ++ (match gt.tmp with | some t => [t] | none => [])

/-! name-list entry points (typing works on `recordarraytype.fields`, lowering on `sig.args[0].arrayviewtype.type.fields`) -/

def nbAzType (mom : Bool) (names : List String) : Except FErr (Az × String × String) := nbAzTypeP mom (names.contains ·)
def nbLonType (mom : Bool) (names : List String) : Except FErr (Lon × String) := nbLonTypeP mom (names.contains ·)
def nbTmpType (mom : Bool) (names : List String) : Except FErr (Tmp × String) := nbTmpTypeP mom (names.contains ·)
def nbType (mom : Bool) (dim : Nat) (names : List String) : Except FErr NbType := nbTypeP mom dim (names.contains ·)
def nbLower (ty : NbType) (names : List String) : Except FErr NbGetters := nbLowerP ty (names.contains ·)

section
variable {S : Type}

/-- `impl(record)`: `vectorcls(azimuthal(record), longitudinal(record), temporal(record))` with the declared systems and
the chosen getters -/
def nbImpl (g : FMap S) (ty : NbType) (gt : NbGetters) : Except FErr (Stored S) :=
  match rd2 g ty.az.1 gt.az.1 gt.az.2 with
  | .error e => .error e
  | .ok az =>
    match ty.lon, gt.lon with
    | some l, some ln =>
      match rd1 g l.1 ln with
      | .error e => .error e
      | .ok lon =>
        match ty.tmp, gt.tmp with
        | some t, some tn =>
          match rd1 g t.1 tn with
          | .error e => .error e
          | .ok tmp => .ok ⟨az, some lon, some tmp⟩
        | _, _ => .ok ⟨az, some lon, none⟩
    | _, _ => .ok ⟨az, none, none⟩

/-- compiled view, values only: typing, then lowering, then reading the chosen fields -/
def nbReadM (mom : Bool) (dim : Nat) (g : FMap S) : Except FErr (Stored S) :=
  match nbTypeP mom dim g.has with
  | .error e => .error e
  | .ok ty =>
    match nbLowerP ty g.has with
    | .error e => .error e
    | .ok gt => nbImpl g ty gt

/-- compiled view with dtypes: `context.compile_internal(builder, impl, sig, args)` has to convert what `impl` returns (the
dtypes of the fields the getters READ) to the declared type (the dtypes of the fields the typer LOOKED AT); numba has no
conversion between vector types of different coordinate dtypes → `TypingError`.  `dt` = the dtype tag of a stored value. -/
def nbReadDM {D : Type} [DecidableEq D] (dt : S → D) (mom : Bool) (dim : Nat) (g : FMap S) : Except FErr (Stored S) :=
  match nbTypeP mom dim g.has with
  | .error e => .error e
  | .ok ty =>
    match nbLowerP ty g.has with
    | .error e => .error e
    | .ok gt =>
      if ty.names.map (fun n => (g n).map dt) = gt.names.map (fun n => (g n).map dt) then nbImpl g ty gt
      else .error .typingError

/-- the compiled view of a `Vector{dim}D` / `Momentum{dim}D` record (`numba.njit(lambda a: a[0])`), values only -/
def nbReadRec (mom : Bool) (dim : Nat) (fs : List (String × S)) : Except FErr (Stored S) :=
  match nbType mom dim (fieldNames fs) with
  | .error e => .error e
  | .ok ty =>
    match nbLower ty (fieldNames fs) with
    | .error e => .error e
    | .ok gt => nbImpl (look fs) ty gt

/-- the compiled view with dtype tags -/
def nbReadRecD {D : Type} [DecidableEq D] (dt : S → D) (mom : Bool) (dim : Nat) (fs : List (String × S)) :
    Except FErr (Stored S) :=
  match nbType mom dim (fieldNames fs) with
  | .error e => .error e
  | .ok ty =>
    match nbLower ty (fieldNames fs) with
    | .error e => .error e
    | .ok gt =>
      if ty.names.map (fun n => (look fs n).map dt) = gt.names.map (fun n => (look fs n).map dt) then
        nbImpl (look fs) ty gt
      else .error .typingError

/-- renaming one field (`a` → `b`) -/
def rename (a b : String) (fs : List (String × S)) : List (String × S) :=
  fs.map (fun f => if f.1 == a then (b, f.2) else f)

end

/-! ### name tables -/

/-- the nine generic coordinate names -/
def genericNames : List String := ["x", "y", "rho", "phi", "z", "theta", "eta", "t", "tau"]
/-- the ten momentum spellings -/
def momentumNames : List String := ["px", "py", "pt", "pz", "E", "e", "energy", "M", "m", "mass"]
/-- generic name ↦ momentum synonym -/
def synonymTable : List (String × String) :=
  [("x", "px"), ("y", "py"), ("rho", "pt"), ("z", "pz"), ("t", "E"), ("t", "e"), ("t", "energy"),
   ("tau", "M"), ("tau", "m"), ("tau", "mass")]
/-- all spellings of the coordinate with the given generic name -/
def spellings : String → List String
  | "x" => ["x", "px"] | "y" => ["y", "py"] | "rho" => ["rho", "pt"] | "phi" => ["phi"]
  | "z" => ["z", "pz"] | "theta" => ["theta"] | "eta" => ["eta"]
  | "t" => ["t", "E", "e", "energy"] | "tau" => ["tau", "M", "m", "mass"]
  | _ => []

end VG
