/-
Hand-written executable model of vector's CONSTRUCTORS on coordinate NAMES (property C06):
which sets of keyword / field names `vector.obj`, `VectorObject{2,3,4}D` / `MomentumObject{2,3,4}D`,
`vector.array`, `vector.zip` and `vector.Array` accept, which vector type they build from them, and WHICH
supplied name ends up in which stored coordinate slot.

Sources (tree /repo at cc3adc8, i.e. AFTER the fixes 572f8c1 `obj` rejects E+e / M+m, 0f97320 classes reject repeated
spellings, cc3adc8 `VectorObject4D` type check):
* `src/vector/backends/object.py`  `obj` (l. 3099-3221), `_gather_coordinates` (l. 2125-2208),
  `VectorObject2D.__init__` (l. 658-689), `VectorObject3D.__init__` (l. 1027-1082),
  `VectorObject4D.__init__` (l. 1691-1789); the `MomentumObject*` classes inherit `__init__`.
* `src/vector/backends/numpy.py`  `array` (l. 2092-2166), `_array_from_columns` (l. 116-166),
  `VectorNumpy{2,3,4}D.__array_finalize__`, `MomentumNumpy{2,3,4}D.__array_finalize__`.
* `src/vector/backends/awkward_constructors.py`  `_check_names` (l. 18-206), `zip`, `Array`.
* `src/vector/_methods.py`  `_repr_momentum_to_generic` (l. 4320), `_coordinate_order` (l. 4334).

A set of names is represented by its 19 membership bits, grouped the way the code (and the documentation)
groups them: azimuthal names (7), longitudinal names (4), temporal names (8) — `AzN`, `LonN`, `TmpN`, `NS` —
plus one bit `other` = "some name outside the 19 recognised ones was supplied".  Every constructor is modelled
by one function per group (each a transcription of the lines of the real code that read or write names of
that group; the lines of different groups touch disjoint dictionary keys, so their interleaving in the source
is immaterial) and a final combination.  This is what makes the theorems of `Props/C06.lean` provable for ALL
2^19 name sets: every group function is checked exhaustively (≤ 256 cases) and the combinations are
reasoned about symbolically.  The second half of the file (`namespace Seq`) contains LITERAL transcriptions
with dictionaries / lists (no grouping); `Driver/Ctor.lean selfcheck` compares the two on all 2^19 sets.

`Doc` is the DOCUMENTED grammar (docstrings of `vector.obj`, `vector.array`, `vector.zip`, `vector.Array`),
written from the documentation and not from the code.

Core Lean only.
-/
import VectorModel.Prim.Keys

set_option linter.unusedVariables false
set_option linter.constructorNameAsVariable false
namespace VG
open VK

/-! ## names -/

/-- the 19 recognised coordinate names, in `_coordinate_order` -/
inductive CN
  | x | px | y | py | rho | pt | phi | z | pz | theta | eta | t | E | e | energy | tau | M | m | mass
  deriving DecidableEq, Repr, Inhabited

/-- the 9 generic coordinates -/
inductive Coord | x | y | rho | phi | z | theta | eta | t | tau
  deriving DecidableEq, Repr, Inhabited

namespace CN

def all : List CN :=
  [.x, .px, .y, .py, .rho, .pt, .phi, .z, .pz, .theta, .eta, .t, .E, .e, .energy, .tau, .M, .m, .mass]

def str : CN → String
  | .x => "x" | .px => "px" | .y => "y" | .py => "py" | .rho => "rho" | .pt => "pt" | .phi => "phi"
  | .z => "z" | .pz => "pz" | .theta => "theta" | .eta => "eta"
  | .t => "t" | .E => "E" | .e => "e" | .energy => "energy" | .tau => "tau" | .M => "M" | .m => "m" | .mass => "mass"

def ofStr? (s : String) : Option CN := all.find? (fun n => n.str == s)

/-- `_repr_momentum_to_generic.get(k, k)` -/
def coord : CN → Coord
  | .x | .px => .x | .y | .py => .y | .rho | .pt => .rho | .phi => .phi
  | .z | .pz => .z | .theta => .theta | .eta => .eta
  | .t | .E | .e | .energy => .t | .tau | .M | .m | .mass => .tau

/-- `k in _repr_momentum_to_generic` -/
def isMom : CN → Bool
  | .px | .py | .pt | .pz | .E | .e | .energy | .M | .m | .mass => true
  | _ => false

def isAz : CN → Bool | .x | .px | .y | .py | .rho | .pt | .phi => true | _ => false
def isLon : CN → Bool | .z | .pz | .theta | .eta => true | _ => false
def isTmp : CN → Bool | .t | .E | .e | .energy | .tau | .M | .m | .mass => true | _ => false

end CN

def Coord.str : Coord → String
  | .x => "x" | .y => "y" | .rho => "rho" | .phi => "phi" | .z => "z" | .theta => "theta" | .eta => "eta"
  | .t => "t" | .tau => "tau"

/-- the generic spelling of a coordinate -/
def Coord.cn : Coord → CN
  | .x => .x | .y => .y | .rho => .rho | .phi => .phi | .z => .z | .theta => .theta | .eta => .eta
  | .t => .t | .tau => .tau

/-- all spellings of a coordinate, in `_coordinate_order` -/
def Coord.syn : Coord → List CN
  | .x => [.x, .px] | .y => [.y, .py] | .rho => [.rho, .pt] | .phi => [.phi]
  | .z => [.z, .pz] | .theta => [.theta] | .eta => [.eta]
  | .t => [.t, .E, .e, .energy] | .tau => [.tau, .M, .m, .mass]

def _root_.VK.Az.c1 : Az → Coord | .xy => .x | .rhophi => .rho
def _root_.VK.Az.c2 : Az → Coord | .xy => .y | .rhophi => .phi
def _root_.VK.Lon.coord : Lon → Coord | .z => .z | .theta => .theta | .eta => .eta
def _root_.VK.Tmp.coord : Tmp → Coord | .t => .t | .tau => .tau

/-! ## name sets -/

structure AzN where (x px y py rho pt phi : Bool)
  deriving DecidableEq, Repr, Inhabited
structure LonN where (z pz theta eta : Bool)
  deriving DecidableEq, Repr, Inhabited
structure TmpN where (t E e energy tau M m mass : Bool)
  deriving DecidableEq, Repr, Inhabited
/-- a set of supplied names: 19 membership bits + "a name outside the 19 recognised ones is present" -/
structure NS where (a : AzN) (l : LonN) (t : TmpN) (other : Bool)
  deriving DecidableEq, Repr, Inhabited

def AzN.has (a : AzN) : CN → Bool
  | .x => a.x | .px => a.px | .y => a.y | .py => a.py | .rho => a.rho | .pt => a.pt | .phi => a.phi | _ => false
def LonN.has (l : LonN) : CN → Bool
  | .z => l.z | .pz => l.pz | .theta => l.theta | .eta => l.eta | _ => false
def TmpN.has (t : TmpN) : CN → Bool
  | .t => t.t | .E => t.E | .e => t.e | .energy => t.energy | .tau => t.tau | .M => t.M | .m => t.m | .mass => t.mass
  | _ => false
def NS.has (n : NS) (k : CN) : Bool := n.a.has k || n.l.has k || n.t.has k

def AzN.ofP (p : CN → Bool) : AzN := ⟨p .x, p .px, p .y, p .py, p .rho, p .pt, p .phi⟩
def LonN.ofP (p : CN → Bool) : LonN := ⟨p .z, p .pz, p .theta, p .eta⟩
def TmpN.ofP (p : CN → Bool) : TmpN := ⟨p .t, p .E, p .e, p .energy, p .tau, p .M, p .m, p .mass⟩
def NS.ofP (p : CN → Bool) (other : Bool := false) : NS := ⟨.ofP p, .ofP p, .ofP p, other⟩
/-- the set of names of a list (order and repetitions forgotten) -/
def NS.ofList (s : List CN) : NS := .ofP (fun k => s.contains k)

def AzN.empty : AzN := ⟨false, false, false, false, false, false, false⟩
def LonN.empty : LonN := ⟨false, false, false, false⟩
def TmpN.empty : TmpN := ⟨false, false, false, false, false, false, false, false⟩

/-- the names of the set, in `_coordinate_order` -/
def AzN.toList (a : AzN) : List CN := [CN.x, .px, .y, .py, .rho, .pt, .phi].filter a.has
def LonN.toList (l : LonN) : List CN := [CN.z, .pz, .theta, .eta].filter l.has
def TmpN.toList (t : TmpN) : List CN := [CN.t, .E, .e, .energy, .tau, .M, .m, .mass].filter t.has
def NS.toList (n : NS) : List CN := n.a.toList ++ n.l.toList ++ n.t.toList

def AzN.anyMom (a : AzN) : Bool := a.px || a.py || a.pt
def LonN.anyMom (l : LonN) : Bool := l.pz
def TmpN.anyMom (t : TmpN) : Bool := t.E || t.e || t.energy || t.M || t.m || t.mass
/-- `any(x in _repr_momentum_to_generic for x in names)` -/
def NS.anyMom (n : NS) : Bool := n.a.anyMom || n.l.anyMom || n.t.anyMom
def LonN.any (l : LonN) : Bool := l.z || l.pz || l.theta || l.eta
def TmpN.any (t : TmpN) : Bool := t.t || t.E || t.e || t.energy || t.tau || t.M || t.m || t.mass
def AzN.any (a : AzN) : Bool := a.x || a.px || a.y || a.py || a.rho || a.pt || a.phi

/-! ## results -/

inductive CtorErr | typeError | valueError
  deriving DecidableEq, Repr, Inhabited

def CtorErr.str : CtorErr → String | .typeError => "TypeError" | .valueError => "ValueError"

/-- what a constructor builds: flavor, coordinate system, and for every stored slot the SUPPLIED name whose
value is stored there (the values themselves are never touched by the constructors). -/
structure CtorRes where
  mom : Bool
  az  : Az
  a1  : CN
  a2  : CN
  lon : Option (Lon × CN)
  tmp : Option (Tmp × CN)
  deriving DecidableEq, Repr, Inhabited

def CtorRes.dim (r : CtorRes) : Nat := 2 + (if r.lon.isSome then 1 else 0) + (if r.tmp.isSome then 1 else 0)
/-- the supplied names stored in the slots, in slot order -/
def CtorRes.fillers (r : CtorRes) : List CN :=
  [r.a1, r.a2] ++ (match r.lon with | some (_, k) => [k] | none => []) ++ (match r.tmp with | some (_, k) => [k] | none => [])
/-- the coordinates of the slots, in slot order -/
def CtorRes.slots (r : CtorRes) : List Coord :=
  [r.az.c1, r.az.c2] ++ (match r.lon with | some (c, _) => [c.coord] | none => []) ++ (match r.tmp with | some (c, _) => [c.coord] | none => [])
/-- every slot holds a spelling of its own coordinate, and there is no temporal slot without a longitudinal one -/
def CtorRes.wf (r : CtorRes) : Bool :=
  r.fillers.map CN.coord == r.slots && (r.tmp.isNone || r.lon.isSome)

/-- result of an array constructor: the vector part and the names carried along as extra fields -/
structure ArrRes where
  vec   : CtorRes
  extra : List CN
  deriving DecidableEq, Repr, Inhabited

instance {ε α : Type} [DecidableEq ε] [DecidableEq α] : DecidableEq (Except ε α)
  | .ok a, .ok b => if h : a = b then isTrue (by rw [h]) else isFalse (by intro h'; cases h'; exact h rfl)
  | .error a, .error b => if h : a = b then isTrue (by rw [h]) else isFalse (by intro h'; cases h'; exact h rfl)
  | .ok _, .error _ => isFalse (by intro h; cases h)
  | .error _, .ok _ => isFalse (by intro h; cases h)

abbrev AzC := Az × CN × CN
abbrev LonC := Lon × CN
abbrev TmpC := Tmp × CN

/-! ## the documented grammar

"exactly one azimuthal pair {x|px, y|py} or {rho|pt, phi}, at most one longitudinal among {z|pz, theta, eta}, at most
one temporal among {t|E|e|energy, tau|M|m|mass}, temporal only with longitudinal, no other names; momentum flavor iff
some momentum spelling is used". -/

/-- the azimuthal names of the set must be exactly one documented pair -/
def docAz (a : AzN) : Option AzC :=
  match a.toList with
  | [.x, .y] => some (.xy, .x, .y)
  | [.x, .py] => some (.xy, .x, .py)
  | [.px, .y] => some (.xy, .px, .y)
  | [.px, .py] => some (.xy, .px, .py)
  | [.rho, .phi] => some (.rhophi, .rho, .phi)
  | [.pt, .phi] => some (.rhophi, .pt, .phi)
  | _ => none

/-- at most one longitudinal name (`none` = violation, `some none` = no longitudinal coordinate) -/
def docLon (l : LonN) : Option (Option LonC) :=
  match l.toList with
  | [] => some none
  | [.z] => some (some (.z, .z))
  | [.pz] => some (some (.z, .pz))
  | [.theta] => some (some (.theta, .theta))
  | [.eta] => some (some (.eta, .eta))
  | _ => none

/-- at most one temporal name -/
def docTmp (t : TmpN) : Option (Option TmpC) :=
  match t.toList with
  | [] => some none
  | [.t] => some (some (.t, .t))
  | [.E] => some (some (.t, .E))
  | [.e] => some (some (.t, .e))
  | [.energy] => some (some (.t, .energy))
  | [.tau] => some (some (.tau, .tau))
  | [.M] => some (some (.tau, .M))
  | [.m] => some (some (.tau, .m))
  | [.mass] => some (some (.tau, .mass))
  | _ => none

def docB (n : NS) : Option CtorRes :=
  if n.other then none else
  match docAz n.a, docLon n.l, docTmp n.t with
  | some (az, a1, a2), some lon, some tmp =>
    if tmp.isSome && lon.isNone then none          -- temporal only with longitudinal
    else some ⟨n.anyMom, az, a1, a2, lon, tmp⟩      -- momentum iff some momentum spelling is used
  | _, _, _ => none

/-- the DOCUMENTED meaning of a set of names (given as a list in any order) -/
def Doc (s : List CN) : Option CtorRes := docB (.ofList s)

/-! ## `vector.obj(**coordinates)` -/

/-- one iteration of `for x in list(coordinates): if x not in generic_coordinates: generic_coordinates[x] = coordinates.pop(x)`
(l. 3206-3208) for the generic key `k`: new value of `generic_coordinates[k]`, and "`k` stays in `coordinates`". -/
def loopKey (present : Bool) (k : CN) (g : Option CN) : Option CN × Bool :=
  if present then (match g with | none => (some k, false) | some v => (some v, true)) else (g, false)

/-- `generic_coordinates` restricted to the keys x, y, rho, phi after l. 3176-3208; `left` = something stays in `coordinates` -/
structure AzGen where (x y rho phi : Option CN) (left : Bool)

def objAzPop (a : AzN) : AzGen :=
  let gx := if a.px then some CN.px else none        -- l. 3176 `if "px" in coordinates: generic_coordinates["x"] = coordinates.pop("px")`
  let gy := if a.py then some CN.py else none        -- l. 3179
  let gr := if a.pt then some CN.pt else none        -- l. 3182
  let (gx, lx) := loopKey a.x .x gx                  -- l. 3206-3208
  let (gy, ly) := loopKey a.y .y gy
  let (gr, lr) := loopKey a.rho .rho gr
  let (gp, lp) := loopKey a.phi .phi none
  ⟨gx, gy, gr, gp, lx || ly || lr || lp⟩

/-- `_gather_coordinates`, azimuthal part (l. 2141-2150): the azimuthal object (if any) and "some of the keys x, y, rho, phi
remains in `coordinates`". -/
def objAzGather (g : AzGen) : Except CtorErr (Option AzC × Bool) :=
  match g.x, g.y with
  | some vx, some vy =>
    if g.rho.isSome || g.phi.isSome then .error .typeError      -- "specify x= and y= or rho= and phi=, but not both"
    else .ok (some (.xy, vx, vy), false)
  | _, _ =>
    match g.rho, g.phi with
    | some vr, some vp =>
      if g.x.isSome || g.y.isSome then .error .typeError
      else .ok (some (.rhophi, vr, vp), false)
    | _, _ => .ok (none, g.x.isSome || g.y.isSome || g.rho.isSome || g.phi.isSome)

/-- azimuthal names of `vector.obj`: `none` = a `TypeError` is raised because of them (l. 3209 duplicate through alias,
l. 2143/2147, unconsumed key at l. 2176, or `azimuthal is None`) -/
def objAz (a : AzN) : Option AzC :=
  let g := objAzPop a
  if g.left then none else
  match objAzGather g with
  | .ok (some c, false) => some c
  | _ => none

structure LonGen where (z theta eta : Option CN) (left : Bool)

def objLonPop (l : LonN) : LonGen :=
  let gz := if l.pz then some CN.pz else none        -- l. 3185
  let (gz, lz) := loopKey l.z .z gz
  let (gth, lth) := loopKey l.theta .theta none
  let (ge, le) := loopKey l.eta .eta none
  ⟨gz, gth, ge, lz || lth || le⟩

/-- `_gather_coordinates`, longitudinal part (l. 2156-2165) -/
def objLonGather (g : LonGen) : Except CtorErr (Option LonC) :=
  match g.z with
  | some v => if g.theta.isSome || g.eta.isSome then .error .typeError else .ok (some (.z, v))
  | none =>
    match g.theta with
    | some v => if g.eta.isSome then .error .typeError else .ok (some (.theta, v))
    | none =>
      match g.eta with
      | some v => .ok (some (.eta, v))
      | none => .ok none

def objLon (l : LonN) : Option (Option LonC) :=
  let g := objLonPop l
  if g.left then none else
  match objLonGather g with
  | .ok c => some c
  | .error _ => none

/-- `generic_coordinates` restricted to the keys t, tau (+ `stray` = a key "e", "energy", "m" or "mass" was created by the loop
of l. 3206, which `_gather_coordinates` never consumes) -/
structure TmpGen where (t tau : Option CN) (left : Bool) (stray : Bool)

/-- `if "<k>" in coordinates and "<generic>" not in generic_coordinates: generic_coordinates["<generic>"] = coordinates.pop("<k>")`:
new value of the generic key, and "`k` stays in `coordinates`" -/
def guardedPop (present : Bool) (k : CN) (g : Option CN) : Option CN × Bool :=
  if present then (match g with | none => (some k, false) | some v => (some v, true)) else (g, false)

def objTmpPop (n : TmpN) : TmpGen :=
  let gt := if n.E then some CN.E else none                      -- l. 3188
  let (gt, eStays) := guardedPop n.e .e gt                       -- l. 3191 `if "e" in coordinates and "t" not in generic_coordinates`
  let (gt, energyStays) := guardedPop n.energy .energy gt        -- l. 3194
  let gtau := if n.M then some CN.M else none                    -- l. 3197
  let (gtau, mStays) := guardedPop n.m .m gtau                   -- l. 3200
  let (gtau, massStays) := guardedPop n.mass .mass gtau          -- l. 3203
  let (gt, lt) := loopKey n.t .t gt                              -- l. 3206-3208
  let (gtau, ltau) := loopKey n.tau .tau gtau
  -- a remaining "e"/"energy"/"m"/"mass" is NOT a key of generic_coordinates, so the loop moves it there under its own name
  ⟨gt, gtau, lt || ltau, eStays || energyStays || mStays || massStays⟩

/-- `_gather_coordinates`, temporal part (l. 2169-2174) -/
def objTmpGather (g : TmpGen) : Except CtorErr (Option TmpC) :=
  match g.t with
  | some v => if g.tau.isSome then .error .typeError else .ok (some (.t, v))
  | none =>
    match g.tau with
    | some v => .ok (some (.tau, v))
    | none => .ok none

def objTmp (t : TmpN) : Option (Option TmpC) :=
  let g := objTmpPop t
  if g.left || g.stray then none else
  match objTmpGather g with
  | .ok c => some c
  | .error _ => none

/-- `vector.obj` on a set of names -/
def objB (n : NS) : Except CtorErr CtorRes :=
  if n.other then .error .typeError else         -- an unknown key is moved to generic_coordinates (l. 3206) and never consumed (l. 2176)
  match objAz n.a, objLon n.l, objTmp n.t with
  | some (az, a1, a2), some none, some none => .ok ⟨n.anyMom, az, a1, a2, none, none⟩            -- l. 2177
  | some (az, a1, a2), some (some l), some none => .ok ⟨n.anyMom, az, a1, a2, some l, none⟩      -- l. 2179
  | some (az, a1, a2), some (some l), some (some t) => .ok ⟨n.anyMom, az, a1, a2, some l, some t⟩ -- l. 2181
  | _, _, _ => .error .typeError                                                                 -- l. 2186 (or any earlier raise)

def objModel (s : List CN) : Except CtorErr CtorRes := objB (.ofList s)

/-! ## `VectorObject{2,3,4}D(**kwargs)`, `MomentumObject{2,3,4}D(**kwargs)` -/

/-- two of the supplied names are spellings of the same coordinate.  For the classes: the renaming loop
`for k, v in kwargs.copy().items(): kwargs.pop(k); generic = _repr_momentum_to_generic.get(k, k); if generic in kwargs: raise TypeError`
(l. 664-671, 1036-1043, 1701-1708) raises exactly in this case, whatever the keyword order: at the turn of the FIRST of two
such names the generic key is still present as a not yet processed original key or is absent, at the turn of the SECOND it
has been set (or is the other, still unprocessed, generic name).  For `vector.array`: the renaming
`self.dtype.names = tuple(_repr_momentum_to_generic.get(x, x) …)` produces a repeated field name. -/
def AzN.dup (a : AzN) : Bool := (a.x && a.px) || (a.y && a.py) || (a.rho && a.pt)
def LonN.dup (l : LonN) : Bool := l.z && l.pz
def TmpN.dup (t : TmpN) : Bool :=
  (t.t && (t.E || t.e || t.energy)) || (t.E && (t.e || t.energy)) || (t.e && t.energy)
  || (t.tau && (t.M || t.m || t.mass)) || (t.M && (t.m || t.mass)) || (t.m && t.mass)
def NS.synDup (n : NS) : Bool := n.a.dup || n.l.dup || n.t.dup

/-- the supplied name stored under the generic key `c` (any spelling; unique when there is no repeated spelling) -/
def fieldOf (has : CN → Bool) (c : Coord) : Option CN := c.syn.find? has

/-- `kwargs` after the renaming loop (when it does not raise): the generic key `c` is present iff a spelling of `c` was given -/
structure KW where (x y rho phi z theta eta t tau : Option CN)
  deriving DecidableEq, Repr

def kwOf (n : NS) : KW :=
  ⟨fieldOf n.a.has .x, fieldOf n.a.has .y, fieldOf n.a.has .rho, fieldOf n.a.has .phi,
   fieldOf n.l.has .z, fieldOf n.l.has .theta, fieldOf n.l.has .eta, fieldOf n.t.has .t, fieldOf n.t.has .tau⟩

/-- l. 676-687 -/
def class2 (mom : Bool) : KW → Except CtorErr CtorRes
  | ⟨some vx, some vy, none, none, none, none, none, none, none⟩ => .ok ⟨mom, .xy, vx, vy, none, none⟩
  | ⟨none, none, some vr, some vp, none, none, none, none, none⟩ => .ok ⟨mom, .rhophi, vr, vp, none, none⟩
  | _ => .error .typeError

/-- l. 1049-1078 -/
def class3 (mom : Bool) : KW → Except CtorErr CtorRes
  | ⟨some vx, some vy, none, none, some vz, none, none, none, none⟩ => .ok ⟨mom, .xy, vx, vy, some (.z, vz), none⟩
  | ⟨some vx, some vy, none, none, none, none, some ve, none, none⟩ => .ok ⟨mom, .xy, vx, vy, some (.eta, ve), none⟩
  | ⟨some vx, some vy, none, none, none, some vth, none, none, none⟩ => .ok ⟨mom, .xy, vx, vy, some (.theta, vth), none⟩
  | ⟨none, none, some vr, some vp, some vz, none, none, none, none⟩ => .ok ⟨mom, .rhophi, vr, vp, some (.z, vz), none⟩
  | ⟨none, none, some vr, some vp, none, none, some ve, none, none⟩ => .ok ⟨mom, .rhophi, vr, vp, some (.eta, ve), none⟩
  | ⟨none, none, some vr, some vp, none, some vth, none, none, none⟩ => .ok ⟨mom, .rhophi, vr, vp, some (.theta, vth), none⟩
  | _ => .error .typeError

/-- l. 1720-1785 -/
def class4 (mom : Bool) : KW → Except CtorErr CtorRes
  | ⟨some vx, some vy, none, none, some vz, none, none, some vt, none⟩ => .ok ⟨mom, .xy, vx, vy, some (.z, vz), some (.t, vt)⟩
  | ⟨some vx, some vy, none, none, none, none, some ve, some vt, none⟩ => .ok ⟨mom, .xy, vx, vy, some (.eta, ve), some (.t, vt)⟩
  | ⟨some vx, some vy, none, none, none, some vth, none, some vt, none⟩ => .ok ⟨mom, .xy, vx, vy, some (.theta, vth), some (.t, vt)⟩
  | ⟨none, none, some vr, some vp, some vz, none, none, some vt, none⟩ => .ok ⟨mom, .rhophi, vr, vp, some (.z, vz), some (.t, vt)⟩
  | ⟨none, none, some vr, some vp, none, none, some ve, some vt, none⟩ => .ok ⟨mom, .rhophi, vr, vp, some (.eta, ve), some (.t, vt)⟩
  | ⟨none, none, some vr, some vp, none, some vth, none, some vt, none⟩ => .ok ⟨mom, .rhophi, vr, vp, some (.theta, vth), some (.t, vt)⟩
  | ⟨some vx, some vy, none, none, some vz, none, none, none, some vt⟩ => .ok ⟨mom, .xy, vx, vy, some (.z, vz), some (.tau, vt)⟩
  | ⟨some vx, some vy, none, none, none, none, some ve, none, some vt⟩ => .ok ⟨mom, .xy, vx, vy, some (.eta, ve), some (.tau, vt)⟩
  | ⟨some vx, some vy, none, none, none, some vth, none, none, some vt⟩ => .ok ⟨mom, .xy, vx, vy, some (.theta, vth), some (.tau, vt)⟩
  | ⟨none, none, some vr, some vp, some vz, none, none, none, some vt⟩ => .ok ⟨mom, .rhophi, vr, vp, some (.z, vz), some (.tau, vt)⟩
  | ⟨none, none, some vr, some vp, none, none, some ve, none, some vt⟩ => .ok ⟨mom, .rhophi, vr, vp, some (.eta, ve), some (.tau, vt)⟩
  | ⟨none, none, some vr, some vp, none, some vth, none, none, some vt⟩ => .ok ⟨mom, .rhophi, vr, vp, some (.theta, vth), some (.tau, vt)⟩
  | _ => .error .typeError

/-- the object classes on a set of keyword names (the order of the keywords is immaterial); `mom` = it is a `MomentumObject`
class (the flavor of the result is the class, whatever the spelling of the names).  `dim ∉ {2,3,4}`: no such class. -/
def classB (dim : Nat) (mom : Bool) (n : NS) : Except CtorErr CtorRes :=
  if n.other then .error .typeError else       -- an unknown key stays in `set(kwargs)`: no row matches
  if n.synDup then .error .typeError else      -- l. 667 "duplicate coordinates (through momentum-aliases)"
  match dim with
  | 2 => class2 mom (kwOf n)
  | 3 => class3 mom (kwOf n)
  | 4 => class4 mom (kwOf n)
  | _ => .error .typeError

/-- `VectorObject<dim>D(**kw)` (`mom = false`) / `MomentumObject<dim>D(**kw)` (`mom = true`); `s` = the keyword names -/
def classModel (dim : Nat) (mom : Bool) (s : List CN) : Except CtorErr CtorRes :=
  classB dim mom (.ofList s)

/-! ## `vector.array({name: column, …})` -/

/-- `_has(self, ("x","y"))` … `elif _has(self, ("rho","phi"))` -/
def npAz (a : AzN) : Option AzC :=
  match fieldOf a.has .x, fieldOf a.has .y with
  | some vx, some vy => some (.xy, vx, vy)
  | _, _ =>
    match fieldOf a.has .rho, fieldOf a.has .phi with
    | some vr, some vp => some (.rhophi, vr, vp)
    | _, _ => none

/-- `_has(self, ("z",))` / `("theta",)` / `("eta",)` -/
def npLon (l : LonN) : Option LonC :=
  match fieldOf l.has .z with
  | some v => some (.z, v)
  | none => match fieldOf l.has .theta with
    | some v => some (.theta, v)
    | none => match fieldOf l.has .eta with
      | some v => some (.eta, v)
      | none => none

/-- `_has(self, ("t",))` / `("tau",)` -/
def npTmp (t : TmpN) : Option TmpC :=
  match fieldOf t.has .t with
  | some v => some (.t, v)
  | none => match fieldOf t.has .tau with
    | some v => some (.tau, v)
    | none => none

/-- `vector.array` on the key set of its dict argument (vector part) -/
def npB (n : NS) : Except CtorErr CtorRes :=
  if !(n.a.any || n.l.any || n.t.any || n.other) then .error .valueError else   -- `_array_from_columns`: "no columns have been provided"
  let mom := n.anyMom                                   -- l. 2157
  -- l. 2159-2164: the class is chosen from the mere PRESENCE of a temporal / longitudinal name
  let dim := if n.t.any then 4 else if n.l.any then 3 else 2
  -- Momentum classes rename the fields first; a repeated name is a ValueError
  if mom && (n.a.dup || n.l.dup || n.t.dup) then .error .valueError else
  match npAz n.a with
  | none => .error .typeError
  | some (az, a1, a2) =>
    if dim == 2 then .ok ⟨mom, az, a1, a2, none, none⟩ else
    match npLon n.l with
    | none => .error .typeError
    | some l =>
      if dim == 3 then .ok ⟨mom, az, a1, a2, some l, none⟩ else
      match npTmp n.t with
      | none => .error .typeError
      | some t => .ok ⟨mom, az, a1, a2, some l, some t⟩

/-- the names that are not stored in a slot, in `_coordinate_order` (`_array_from_columns` sorts the columns) -/
def npExtra (n : NS) (r : CtorRes) : List CN := n.toList.filter (fun k => !r.fillers.contains k)

def arrayModel (s : List CN) : Except CtorErr ArrRes :=
  (npB (.ofList s)).map (fun r => ⟨r, npExtra (.ofList s) r⟩)

/-! ## `vector.zip({name: array, …})`, `vector.Array(records)` — both through `_check_names` -/

def AzN.erase (a : AzN) (k : CN) : AzN := .ofP (fun j => a.has j && j != k)

/-- state of `_check_names` during the azimuthal blocks: the pair already taken (`dimension = 2`), `is_momentum`,
the azimuthal names still in `fieldnames` -/
structure AkAz where (c : Option AzC) (mom : Bool) (rem : AzN)
  deriving DecidableEq, Repr

/-- one block `if k1 in fieldnames and k2 in fieldnames: [is_momentum = True]; if dimension != 0: raise …; …remove(k1); …remove(k2)` -/
def akBlock (az : Az) (k1 k2 : CN) (setsMom : Bool) (st : AkAz) : Except CtorErr AkAz :=
  if st.rem.has k1 && st.rem.has k2 then
    if st.c.isSome then .error .typeError
    else .ok ⟨some (az, k1, k2), st.mom || setsMom, (st.rem.erase k1).erase k2⟩
  else .ok st

/-- l. 53-104 -/
def akAz (a : AzN) : Except CtorErr AkAz := do
  let st : AkAz := ⟨none, false, a⟩
  let st ← akBlock .xy .x .y false st
  let st ← akBlock .rhophi .rho .phi false st
  let st ← akBlock .xy .x .py true st
  let st ← akBlock .xy .px .y true st
  let st ← akBlock .xy .px .py true st
  akBlock .rhophi .pt .phi true st

/-- one block `if k in fieldnames: [is_momentum = True]; if dimension != need: raise …; dimension = need + 1`:
state = (dimension, the name taken so far) -/
def akOne {C : Type} (need : Nat) (present : Bool) (c : C) (k : CN) (st : Nat × Option (C × CN)) : Except CtorErr (Nat × Option (C × CN)) :=
  if present then
    if st.1 != need then .error .typeError else .ok (need + 1, some (c, k))
  else .ok st

/-- l. 106-134 -/
def akLon (dim : Nat) (l : LonN) : Except CtorErr (Nat × Option LonC) := do
  let st : Nat × Option LonC := (dim, none)
  let st ← akOne 2 l.z .z .z st
  let st ← akOne 2 l.theta .theta .theta st
  let st ← akOne 2 l.eta .eta .eta st
  akOne 2 l.pz .z .pz st

/-- l. 136-197 -/
def akTmp (dim : Nat) (t : TmpN) : Except CtorErr (Nat × Option TmpC) := do
  let st : Nat × Option TmpC := (dim, none)
  let st ← akOne 3 t.t .t .t st
  let st ← akOne 3 t.tau .tau .tau st
  let st ← akOne 3 t.E .t .E st
  let st ← akOne 3 t.e .t .e st
  let st ← akOne 3 t.energy .t .energy st
  let st ← akOne 3 t.M .tau .M st
  let st ← akOne 3 t.m .tau .m st
  akOne 3 t.mass .tau .mass st

/-- `_check_names` on a set of field names: the vector part and the azimuthal names left over as extra fields
(a longitudinal / temporal name is either used or raises).  `is_momentum` of the result: a block sets it BEFORE its
dimension check, but then either raises or uses the name, so on success it is "some used name is a momentum spelling". -/
def akB (n : NS) : Except CtorErr (CtorRes × AzN) := do
  let a ← akAz n.a
  let (d, lon) ← akLon (if a.c.isSome then 2 else 0) n.l
  let (d, tmp) ← akTmp d n.t
  match a.c with
  | none => .error .typeError                         -- l. 199 `if dimension == 0`
  | some (az, a1, a2) =>
    let mom := a.mom || (match lon with | some (_, k) => k.isMom | none => false)
                     || (match tmp with | some (_, k) => k.isMom | none => false)
    .ok (⟨mom, az, a1, a2, lon, tmp⟩, a.rem)

/-- `vector.zip` (dict keys in order `s`): extras keep the order of the dict -/
def zipModel (s : List CN) : Except CtorErr ArrRes :=
  (akB (.ofList s)).map (fun (r, _) => ⟨r, s.filter (fun k => !r.fillers.contains k)⟩)

/-- `vector.Array` (record field names in order `s`): the same `_check_names` -/
def akArrayModel (s : List CN) : Except CtorErr ArrRes := zipModel s

/-! ## literal transcriptions (dictionaries and lists, no grouping)

Independent second reading of the same source lines, kept as close to the Python text as possible.  They are NOT used by
the theorems; `Seq.selfcheck` (run by `Driver/Ctor.lean selfcheck`) compares them with the grouped model above on every
one of the 2^19 name sets. -/
namespace Seq

/-- a Python dict from key (a name; the generic keys are `x y rho phi z theta eta t tau`) to the SUPPLIED name whose value it holds -/
abbrev Dict := List (CN × CN)
def Dict.has (d : Dict) (k : CN) : Bool := d.any (·.1 == k)
def Dict.get (d : Dict) (k : CN) : CN := ((d.find? (·.1 == k)).map (·.2)).getD k
def Dict.set (d : Dict) (k v : CN) : Dict :=
  if d.has k then d.map (fun p => if p.1 == k then (k, v) else p) else d ++ [(k, v)]
def Dict.pop (d : Dict) (k : CN) : Dict := d.filter (·.1 != k)
def Dict.keysAre (d : Dict) (ks : List CN) : Bool := d.length == ks.length && ks.all d.has

/-- `_gather_coordinates` (object.py l. 2125-2208); `other` = an unknown key is in `coordinates` -/
def gather (mom : Bool) (coordinates : Dict) (other : Bool) : Except CtorErr CtorRes := Id.run do
  let mut c := coordinates
  let mut az : Option AzC := none
  if c.has .x && c.has .y then
    if c.has .rho || c.has .phi then return .error .typeError
    az := some (.xy, c.get .x, c.get .y); c := (c.pop .x).pop .y
  else if c.has .rho && c.has .phi then
    if c.has .x || c.has .y then return .error .typeError
    az := some (.rhophi, c.get .rho, c.get .phi); c := (c.pop .rho).pop .phi
  let mut lon : Option LonC := none
  if c.has .z then
    if c.has .theta || c.has .eta then return .error .typeError
    lon := some (.z, c.get .z); c := c.pop .z
  else if c.has .theta then
    if c.has .eta then return .error .typeError
    lon := some (.theta, c.get .theta); c := c.pop .theta
  else if c.has .eta then
    lon := some (.eta, c.get .eta); c := c.pop .eta
  let mut tmp : Option TmpC := none
  if c.has .t then
    if c.has .tau then return .error .typeError
    tmp := some (.t, c.get .t); c := c.pop .t
  else if c.has .tau then
    tmp := some (.tau, c.get .tau); c := c.pop .tau
  if c.isEmpty && !other then
    match az, lon, tmp with
    | some (a, a1, a2), none, none => return .ok ⟨mom, a, a1, a2, none, none⟩
    | some (a, a1, a2), some l, none => return .ok ⟨mom, a, a1, a2, some l, none⟩
    | some (a, a1, a2), some l, some t => return .ok ⟨mom, a, a1, a2, some l, some t⟩
    | _, _, _ => pure ()
  return .error .typeError

/-- `obj(**coordinates)` (object.py l. 3170-3221) -/
def obj (s : List CN) (other : Bool := false) : Except CtorErr CtorRes := Id.run do
  let mut coordinates : Dict := s.map (fun k => (k, k))
  let mut generic : Dict := []
  let mut isMomentum := false
  if coordinates.has .px then
    isMomentum := true; generic := generic.set .x (coordinates.get .px); coordinates := coordinates.pop .px
  if coordinates.has .py then
    isMomentum := true; generic := generic.set .y (coordinates.get .py); coordinates := coordinates.pop .py
  if coordinates.has .pt then
    isMomentum := true; generic := generic.set .rho (coordinates.get .pt); coordinates := coordinates.pop .pt
  if coordinates.has .pz then
    isMomentum := true; generic := generic.set .z (coordinates.get .pz); coordinates := coordinates.pop .pz
  if coordinates.has .E then
    isMomentum := true; generic := generic.set .t (coordinates.get .E); coordinates := coordinates.pop .E
  if coordinates.has .e && !generic.has .t then
    isMomentum := true; generic := generic.set .t (coordinates.get .e); coordinates := coordinates.pop .e
  if coordinates.has .energy && !generic.has .t then
    isMomentum := true; generic := generic.set .t (coordinates.get .energy); coordinates := coordinates.pop .energy
  if coordinates.has .M then
    isMomentum := true; generic := generic.set .tau (coordinates.get .M); coordinates := coordinates.pop .M
  if coordinates.has .m && !generic.has .tau then
    isMomentum := true; generic := generic.set .tau (coordinates.get .m); coordinates := coordinates.pop .m
  if coordinates.has .mass && !generic.has .tau then
    isMomentum := true; generic := generic.set .tau (coordinates.get .mass); coordinates := coordinates.pop .mass
  for (k, _) in coordinates do
    if !generic.has k then
      generic := generic.set k (coordinates.get k); coordinates := coordinates.pop k
  if !coordinates.isEmpty then return .error .typeError
  return gather isMomentum generic other

/-- `VectorObject<dim>D.__init__(**kwargs)` -/
def cls (dim : Nat) (mom : Bool) (s : List CN) (other : Bool := false) : Except CtorErr CtorRes := Id.run do
  let mut kwargs : Dict := s.map (fun k => (k, k))
  for (k, v) in kwargs do
    kwargs := kwargs.pop k
    let generic := k.coord.cn
    if kwargs.has generic then return .error .typeError   -- "duplicate coordinates (through momentum-aliases)"
    kwargs := kwargs.set generic v
  if kwargs.isEmpty && !other then return .error .typeError   -- "must give Azimuthal …"
  if other then return .error .typeError
  let g := kwargs.get
  let az (a : Az) : CN × CN := match a with | .xy => (g .x, g .y) | .rhophi => (g .rho, g .phi)
  let lonK : Lon → CN | .z => .z | .theta => .theta | .eta => .eta
  let tmpK : Tmp → CN | .t => .t | .tau => .tau
  let azK : Az → List CN | .xy => [.x, .y] | .rhophi => [.rho, .phi]
  if dim == 2 then
    for a in [Az.xy, .rhophi] do
      if kwargs.keysAre (azK a) then return .ok ⟨mom, a, (az a).1, (az a).2, none, none⟩
  if dim == 3 then
    for a in [Az.xy, .rhophi] do
      for l in [Lon.z, .eta, .theta] do
        if kwargs.keysAre (azK a ++ [lonK l]) then return .ok ⟨mom, a, (az a).1, (az a).2, some (l, g (lonK l)), none⟩
  if dim == 4 then
    for t in [Tmp.t, .tau] do
      for a in [Az.xy, .rhophi] do
        for l in [Lon.z, .eta, .theta] do
          if kwargs.keysAre (azK a ++ [lonK l, tmpK t]) then
            return .ok ⟨mom, a, (az a).1, (az a).2, some (l, g (lonK l)), some (t, g (tmpK t))⟩
  return .error .typeError

/-- `vector.array(dict)`: `array` → `<cls>.__new__` → `_array_from_columns` → `view(cls)` → `__array_finalize__` -/
def np (s : List CN) (other : Bool := false) : Except CtorErr ArrRes := Id.run do
  let isMomentum := s.any CN.isMom
  let dim := if s.any CN.isTmp then 4 else if s.any CN.isLon then 3 else 2
  if s.isEmpty && !other then return .error .valueError
  -- `names.sort(key=_coordinate_order.index)`: fields = (field name, supplied name)
  let mut fields : Dict := (CN.all.filter s.contains).map (fun k => (k, k))
  if isMomentum then
    let renamed := fields.map (fun p => (p.1.coord.cn, p.2))
    if renamed.any (fun p => (renamed.filter (·.1 == p.1)).length > 1) then return .error .valueError
    fields := renamed
  let mut used : List CN := []
  let mut az : Option AzC := none
  if fields.has .x && fields.has .y then az := some (.xy, fields.get .x, fields.get .y); used := [.x, .y]
  else if fields.has .rho && fields.has .phi then az := some (.rhophi, fields.get .rho, fields.get .phi); used := [.rho, .phi]
  else return .error .typeError
  let mut lon : Option LonC := none
  if dim ≥ 3 then
    if fields.has .z then lon := some (.z, fields.get .z); used := used ++ [.z]
    else if fields.has .theta then lon := some (.theta, fields.get .theta); used := used ++ [.theta]
    else if fields.has .eta then lon := some (.eta, fields.get .eta); used := used ++ [.eta]
    else return .error .typeError
  let mut tmp : Option TmpC := none
  if dim ≥ 4 then
    if fields.has .t then tmp := some (.t, fields.get .t); used := used ++ [.t]
    else if fields.has .tau then tmp := some (.tau, fields.get .tau); used := used ++ [.tau]
    else return .error .typeError
  match az with
  | some (a, a1, a2) =>
    return .ok ⟨⟨isMomentum, a, a1, a2, lon, tmp⟩, (fields.filter (fun p => !used.contains p.1)).map (·.2)⟩
  | none => return .error .typeError

/-- `_check_names(projectable, fieldnames)` (awkward_constructors.py l. 48-206): names = (record field, supplied name) -/
def ak (s : List CN) : Except CtorErr ArrRes := Id.run do
  let mut isMomentum := false
  let mut dimension := 0
  let mut names : List (Coord × CN) := []
  let mut fieldnames := s
  for (k1, k2, c1, c2, m) in [(CN.x, CN.y, Coord.x, Coord.y, false), (.rho, .phi, .rho, .phi, false), (.x, .py, .x, .y, true),
                              (.px, .y, .x, .y, true), (.px, .py, .x, .y, true), (.pt, .phi, .rho, .phi, true)] do
    if fieldnames.contains k1 && fieldnames.contains k2 then
      if m then isMomentum := true
      if dimension != 0 then return .error .typeError
      dimension := 2
      names := names ++ [(c1, k1), (c2, k2)]
      fieldnames := (fieldnames.erase k1).erase k2
  for (k, c, m) in [(CN.z, Coord.z, false), (.theta, .theta, false), (.eta, .eta, false), (.pz, .z, true)] do
    if fieldnames.contains k then
      if m then isMomentum := true
      if dimension != 2 then return .error .typeError
      dimension := 3
      names := names ++ [(c, k)]
      fieldnames := fieldnames.erase k
  for (k, c, m) in [(CN.t, Coord.t, false), (.tau, .tau, false), (.E, .t, true), (.e, .t, true), (.energy, .t, true),
                    (.M, .tau, true), (.m, .tau, true), (.mass, .tau, true)] do
    if fieldnames.contains k then
      if m then isMomentum := true
      if dimension != 3 then return .error .typeError
      dimension := 4
      names := names ++ [(c, k)]
      fieldnames := fieldnames.erase k
  if dimension == 0 then return .error .typeError
  -- read the record type back from the first `dimension` field names
  let az : Az := if (names.head?.map (·.1)) == some .x then .xy else .rhophi
  let lonOf : Coord → Lon | .theta => .theta | .eta => .eta | _ => .z
  let tmpOf : Coord → Tmp | .tau => .tau | _ => .t
  match names with
  | [(_, a1), (_, a2)] => return .ok ⟨⟨isMomentum, az, a1, a2, none, none⟩, fieldnames⟩
  | [(_, a1), (_, a2), (cl, l)] => return .ok ⟨⟨isMomentum, az, a1, a2, some (lonOf cl, l), none⟩, fieldnames⟩
  | [(_, a1), (_, a2), (cl, l), (ct, t)] =>
    return .ok ⟨⟨isMomentum, az, a1, a2, some (lonOf cl, l), some (tmpOf ct, t)⟩, fieldnames⟩
  | _ => return .error .typeError

def ofMask (k : Nat) : List CN := (CN.all.zipIdx).filterMap (fun (c, i) => if k.testBit i then some c else none)

/-- number of names in the set with mask `k` -/
def popcount (k : Nat) : Nat := ((List.range 19).filter k.testBit).length

/-- compare the grouped model with the literal transcriptions on the name sets with masks `lo ≤ k < hi` that satisfy `sel`
(each in `_coordinate_order` and reversed): number of comparisons, descriptions of the disagreements -/
def selfcheck (lo hi : Nat) (sel : Nat → Bool) : Nat × List String := Id.run do
  let mut cnt := 0
  let mut bad : List String := []
  for k in [lo:hi] do
    if sel k then
      let s := ofMask k
      for s' in [s, s.reverse] do
        let tag := ",".intercalate (s'.map CN.str)
        if objModel s' != obj s' then bad := s!"obj {tag}" :: bad
        for d in [2, 3, 4] do
          for m in [false, true] do
            if classModel d m s' != cls d m s' then bad := s!"class {d} {m} {tag}" :: bad
        if arrayModel s' != np s' then bad := s!"array {tag}" :: bad
        if zipModel s' != ak s' then bad := s!"zip {tag}" :: bad
        cnt := cnt + 9
  return (cnt, bad.reverse)

end Seq

end VG
