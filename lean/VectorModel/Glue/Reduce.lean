/-
An executable AXIS model of the reducers of vector arrays (property C17): `numpy.sum`, `numpy.count_nonzero` on n-d NumPy
arrays of vectors, `ak.sum`, `ak.count_nonzero`, `ak.count` on jagged Awkward arrays of vectors.

What the real code does (`/repo/src/vector/backends/numpy.py`, `_reduce_sum`, `_reduce_count_nonzero`, `VectorNumpy.sum`,
`__array_function__`; `/repo/src/vector/backends/awkward.py`, `_reduce_sum`, `_reduce_count_nonzero`, `_reduce_count`):

* NumPy: `numpy.sum(v, axis, …, keepdims)` (function form, method form `v.sum(…)`, positional or keyword arguments — all of them
  end in `_reduce_sum(v, axis=axis, keepdims=keepdims)`; an omitted `axis` is `None`) is, PER CARTESIAN COMPONENT,
  `numpy.sum(v.x, axis=axis, keepdims=keepdims)` …; the result is `vector.array` of the component sums: an array of the same
  flavor whose shape is the shape of the component sums.  `numpy.count_nonzero(v, axis, keepdims=…)` is
  `numpy.count_nonzero(is_nonzero, axis, keepdims)` of the boolean array "some Cartesian component is not zero".
* Awkward: `ak.sum(v, axis, keepdims)` applies the registered overload to the GROUPS that Awkward's own machinery forms for
  the given axis (`axis=-1`: the innermost lists; `axis=0`: position-wise over the lists, nothing is padded in: the result is as
  long as the longest list; `axis=None`: everything), `keepdims` wraps every reduced position in a length-one list; empty groups
  sum to the zero vector (`mask_identity=False`).  `ak.count_nonzero`, `ak.count` alike (counts of non-zero vectors / of vectors).

The model:

* an n-d array `Arr α` = `shape : List Nat` + the flat C-order list of elements; the element type `α` and its additive structure
  (`zero`, `add`) are PARAMETERS (the driver runs at integer Cartesian component tuples, the theorems hold at every monoid);
* `red zero add shape mask data`: the sum over the axes marked `true` in `mask`, by recursion on the shape (the rows of the
  leading axis are reduced recursively, then concatenated — axis kept — or added position-wise — axis reduced);
* `outShape keepdims shape mask`: the reduced axes disappear (or become 1); `normAxis`: NumPy's `normalize_axis_tuple`
  (`None` = all axes, negative axes count from the end, out of range = `AxisError`, a repeated axis = `ValueError`);
* `sumArr`, `groupsArr` (the same reduction at the FREE monoid: which elements go where), `countNonzeroArr`, `countArr`;
* jagged arrays `JArr α` of depth 1, 2, 3 and `akSum` / `akCountNonzero` / `akCount` with `ak.sum`'s `axis` and `keepdims`.

The file imports nothing.
-/

set_option linter.unusedVariables false

namespace VRed

universe u
variable {α : Type} {β : Type}

/-! ### errors -/

inductive Err where
  | axisError      -- numpy.exceptions.AxisError: axis out of bounds
  | valueError     -- duplicate value in 'axis' (NumPy); axis exceeds the depth / tuple axis (Awkward)
  | malformed      -- data length ≠ product of the shape (not reachable from Python)
deriving DecidableEq, Repr, Inhabited

def Err.str : Err → String
  | .axisError => "AxisError"
  | .valueError => "ValueError"
  | .malformed => "Malformed"

/-! ### n-d arrays -/

def prod : List Nat → Nat
  | [] => 1
  | n :: sh => n * prod sh

structure Arr (α : Type) where
  shape : List Nat
  data : List α
deriving Repr

/-- well-formed: as many elements as the shape says -/
def Arr.WF (a : Arr α) : Prop := a.data.length = prod a.shape

def Arr.ndim (a : Arr α) : Nat := a.shape.length

def Arr.map (f : α → β) (a : Arr α) : Arr β := ⟨a.shape, a.data.map f⟩

/-- Python's `axis` argument: `None`, an integer, a tuple of integers -/
inductive AxisSpec where
  | none
  | one (k : Int)
  | many (ks : List Int)
deriving Repr, Inhabited

/-- one axis: `-ndim ≤ k < ndim`, negative counts from the end -/
def normOne (ndim : Nat) (k : Int) : Option Nat :=
  if 0 ≤ k then (if k.toNat < ndim then some k.toNat else none)
  else if (-k).toNat ≤ ndim then some (ndim - (-k).toNat) else none

def hasDup : List Nat → Bool
  | [] => false
  | a :: as => as.contains a || hasDup as

def normMany (ndim : Nat) : List Int → Except Err (List Nat)
  | [] => .ok []
  | k :: ks =>
    match normOne ndim k with
    | none => .error .axisError
    | some a =>
      match normMany ndim ks with
      | .error e => .error e
      | .ok as => .ok (a :: as)

/-- `numpy.core.numeric.normalize_axis_tuple` (+ `None` = every axis).  A NumPy quirk: on a 0-d array the INTEGER axes `0` and
`-1` are accepted by the reductions (nothing is reduced); the tuples `(0,)`, `(-1,)` are not. -/
def normAxis (ndim : Nat) : AxisSpec → Except Err (List Nat)
  | .none => .ok (List.range ndim)
  | .one k =>
    match normOne ndim k with
    | some a => .ok [a]
    | none => if ndim = 0 ∧ (k = 0 ∨ k = -1) then .ok [] else .error .axisError
  | .many ks =>
    match normMany ndim ks with
    | .error e => .error e
    | .ok as => if hasDup as then .error .valueError else .ok as

/-- the axes as a mask over `0 … ndim-1` -/
def maskOf (ndim : Nat) (axes : List Nat) : List Bool := (List.range ndim).map fun i => axes.contains i

/-- shape of the result: reduced axes disappear (`keepdims`: become 1), the others stay — whatever their length -/
def outShape (kd : Bool) : List Nat → List Bool → List Nat
  | [], _ => []
  | n :: sh, ms =>
    if ms.headD false then (if kd then 1 :: outShape kd sh ms.tail else outShape kd sh ms.tail)
    else n :: outShape kd sh ms.tail

/-- the `n` rows (each `k` elements) of a C-order block -/
def rows (k n : Nat) (d : List α) : List (List α) := (List.range n).map fun i => (d.drop (i * k)).take k

/-- position-wise sum of a list of equally long rows, starting from `len` zeros -/
def addRows (zero : α) (add : α → α → α) (len : Nat) (rs : List (List α)) : List α :=
  rs.foldr (List.zipWith add) (List.replicate len zero)

/-- the reduction: C-order data of the sum over the axes marked in the mask -/
def red (zero : α) (add : α → α → α) : List Nat → List Bool → List α → List α
  | [], _, d => d
  | n :: sh, ms, d =>
    let rs := (rows (prod sh) n d).map (red zero add sh ms.tail)
    if ms.headD false then addRows zero add (prod (outShape false sh ms.tail)) rs
    else rs.flatten

def reduceMask (zero : α) (add : α → α → α) (mask : List Bool) (kd : Bool) (a : Arr α) : Arr α :=
  ⟨outShape kd a.shape mask, red zero add a.shape mask a.data⟩

/-- sum over the given (normalised) axes -/
def reduceAxes (zero : α) (add : α → α → α) (axes : List Nat) (kd : Bool) (a : Arr α) : Arr α :=
  reduceMask zero add (maskOf a.shape.length axes) kd a

/-- `numpy.sum(a, axis=ax, keepdims=kd)` of one component array (`α` a number) / of all components at once (`α` a tuple) -/
def sumArr (zero : α) (add : α → α → α) (ax : AxisSpec) (kd : Bool) (a : Arr α) : Except Err (Arr α) :=
  match normAxis a.shape.length ax with
  | .error e => .error e
  | .ok axes => .ok (reduceAxes zero add axes kd a)

/-- the same reduction at the free monoid: every output position gets the LIST of the input elements it covers (C order) -/
def groupsArr (axes : List Nat) (kd : Bool) (a : Arr α) : Arr (List α) :=
  reduceAxes [] (· ++ ·) axes kd (a.map fun x => [x])

/-- `numpy.count_nonzero(p(a), axis=ax, keepdims=kd)`: per output position, how many covered elements satisfy `p` -/
def countNonzeroArr (p : α → Bool) (ax : AxisSpec) (kd : Bool) (a : Arr α) : Except Err (Arr Nat) :=
  match normAxis a.shape.length ax with
  | .error e => .error e
  | .ok axes => .ok ((groupsArr axes kd a).map fun g => (g.filter p).length)

/-- how many elements each output position covers -/
def countArr (ax : AxisSpec) (kd : Bool) (a : Arr α) : Except Err (Arr Nat) :=
  match normAxis a.shape.length ax with
  | .error e => .error e
  | .ok axes => .ok ((groupsArr axes kd a).map List.length)

/-- 0/1 indicator -/
def ind (p : α → Bool) (x : α) : Nat := if p x then 1 else 0

/-! ### indices (for the statements; executable as well) -/

/-- all multi-indices of a shape, in C order -/
def allIdx : List Nat → List (List Nat)
  | [] => [[]]
  | n :: sh => (List.range n).flatMap fun i => (allIdx sh).map (i :: ·)

/-- C-order flat position of a multi-index -/
def ravel : List Nat → List Nat → Nat
  | n :: sh, i :: is => i * prod sh + ravel sh is
  | _, _ => 0

/-- a multi-index of the shape -/
def ValidIdx : List Nat → List Nat → Prop
  | [], [] => True
  | n :: sh, i :: is => i < n ∧ ValidIdx sh is
  | _, _ => False

/-- the part of an input multi-index that survives the reduction (`keepdims=False`) -/
def keepProj : List Bool → List Nat → List Nat
  | _, [] => []
  | ms, i :: is => if ms.headD false then keepProj ms.tail is else i :: keepProj ms.tail is

/-- element at a multi-index (`zero` outside) -/
def Arr.get (zero : α) (a : Arr α) (is : List Nat) : α := a.data.getD (ravel a.shape is) zero

/-- mask of "first the axes `m1`, then the axes `m2` of what is left" over the original axes -/
def combine : List Bool → List Bool → List Bool
  | [], _ => []
  | true :: m1, m2 => true :: combine m1 m2
  | false :: m1, m2 => m2.headD false :: combine m1 m2.tail

/-! ### jagged (Awkward) arrays, depth 1 – 3 -/

/-- position-wise combination of two lists of different lengths: nothing is padded in, the longer tail is kept -/
def padZip (f : β → β → β) : List β → List β → List β
  | [], b => b
  | x :: a, [] => x :: a
  | x :: a, y :: b => f x y :: padZip f a b

def sum1 (zero : α) (add : α → α → α) (l : List α) : α := l.foldr add zero

/-- position-wise sum of a list of lists (`axis=0` of a jagged array) -/
def sumPos (add : α → α → α) (l : List (List α)) : List α := l.foldr (padZip add) []

/-- position-wise, two levels deep (`axis=0` of a doubly jagged array) -/
def sumPos2 (add : α → α → α) (l : List (List (List α))) : List (List α) := l.foldr (padZip (padZip add)) []

inductive JArr (α : Type) where
  | d1 (l : List α)
  | d2 (l : List (List α))
  | d3 (l : List (List (List α)))
deriving Repr

inductive JRes (α : Type) where
  | d0 (x : α)
  | d1 (l : List α)
  | d2 (l : List (List α))
  | d3 (l : List (List (List α)))
deriving Repr

def JArr.depth : JArr α → Nat
  | .d1 _ => 1
  | .d2 _ => 2
  | .d3 _ => 3

def JArr.map (f : α → β) : JArr α → JArr β
  | .d1 l => .d1 (l.map f)
  | .d2 l => .d2 (l.map (·.map f))
  | .d3 l => .d3 (l.map (·.map (·.map f)))

/-- every element, in order -/
def JArr.flat : JArr α → List α
  | .d1 l => l
  | .d2 l => l.flatten
  | .d3 l => l.flatten.flatten

/-- `ak.sum`'s axis: `None`, or `-depth ≤ k < depth` (else `ValueError`: "axis exceeds the depth") -/
def akAxis (depth : Nat) : Option Int → Except Err (Option Nat)
  | none => .ok none
  | some k =>
    match normOne depth k with
    | some a => .ok (some a)
    | none => .error .valueError

/-- the reduction over a normalised axis (`none` = everything) -/
def akRed (zero : α) (add : α → α → α) (kd : Bool) : JArr α → Option Nat → JRes α
  -- depth 1: `axis=0`, `axis=-1`, `axis=None` are the same thing
  | .d1 l, _ => if kd then .d1 [sum1 zero add l] else .d0 (sum1 zero add l)
  | .d2 l, none => if kd then .d2 [[sum1 zero add l.flatten]] else .d0 (sum1 zero add l.flatten)
  | .d2 l, some 0 => if kd then .d2 [sumPos add l] else .d1 (sumPos add l)
  | .d2 l, some _ => if kd then .d2 (l.map fun r => [sum1 zero add r]) else .d1 (l.map (sum1 zero add))
  | .d3 l, none => if kd then .d3 [[[sum1 zero add l.flatten.flatten]]] else .d0 (sum1 zero add l.flatten.flatten)
  | .d3 l, some 0 => if kd then .d3 [sumPos2 add l] else .d2 (sumPos2 add l)
  | .d3 l, some 1 => if kd then .d3 (l.map fun m => [sumPos add m]) else .d2 (l.map (sumPos add))
  | .d3 l, some _ =>
    if kd then .d3 (l.map fun m => m.map fun r => [sum1 zero add r]) else .d2 (l.map fun m => m.map (sum1 zero add))

/-- `ak.sum(a, axis=ax, keepdims=kd)` (`mask_identity=False`) -/
def akSum (zero : α) (add : α → α → α) (ax : Option Int) (kd : Bool) (a : JArr α) : Except Err (JRes α) :=
  match akAxis a.depth ax with
  | .error e => .error e
  | .ok k => .ok (akRed zero add kd a k)

/-- `ak.count_nonzero`: the sum of the 0/1 indicator -/
def akCountNonzero (p : α → Bool) (ax : Option Int) (kd : Bool) (a : JArr α) : Except Err (JRes Nat) :=
  akSum 0 (· + ·) ax kd (a.map (ind p))

/-- `ak.count`: the sum of ones -/
def akCount (ax : Option Int) (kd : Bool) (a : JArr α) : Except Err (JRes Nat) :=
  akSum 0 (· + ·) ax kd (a.map fun _ => 1)

/-! ### the element type of the driver: integer Cartesian components -/

def vzero (dim : Nat) : List Int := List.replicate dim 0

def vadd (a b : List Int) : List Int := List.zipWith (· + ·) a b

/-- `is_nonzero` of `_reduce_count_nonzero`: `rho2 != 0 | z != 0 | t2 != 0` on integer Cartesian components -/
def vnonzero (a : List Int) : Bool := a.any (· ≠ 0)

end VRed
