/-
Hand-written executable model of the GLOBAL state vector's operations can see or touch (property C20).

Real code:
* every `dispatch()` of the 82 compute modules runs its body inside `with numpy.errstate(all="ignore"):`
  (e.g. /repo/src/vector/_compute/planar/add.py L75-84) – NumPy's error state is THREAD-LOCAL; the context manager
  saves the calling thread's state, sets everything to "ignore", and restores on exit, also when the body raises;
* `vector.register_awkward()` (/repo/src/vector/__init__.py L178-196) updates `awkward.behavior` and sets the module
  global `vector._awkward_registered = True`; `vector.register_numba()` (L163-172) imports the two numba modules
  (registration happens at import time, once);
* `vector.Array` / `vector.zip` (/repo/src/vector/backends/awkward_constructors.py L315-325, L403-405) and the Awkward
  `_wrap_result` (`behavior=None if vector._awkward_registered else first.behavior`) only READ the flag;
* nothing touches `warnings.filters` or NumPy's print options.

Model: the record `G`; `bracket`/`op` = the `with numpy.errstate` bracket around a body that may raise;
`registerAwkward`/`registerNumba`; sequences of actions; and a multi-threaded machine whose atomic steps are the
three phases of an operation (enter the bracket / compute / leave the bracket) under an arbitrary schedule.

Core Lean only.
-/
import VectorModel.Glue.Core

set_option linter.unusedVariables false
namespace VG

/-- thread identifier -/
abbrev Tid := Nat

/-- NumPy's treatment of one floating-point error category -/
inductive ErrMode | ignore | warn | raise | call | print | log
  deriving DecidableEq, Repr, Inhabited

/-- `numpy.geterr()` of one thread -/
structure ErrState where
  divide : ErrMode
  over : ErrMode
  under : ErrMode
  invalid : ErrMode
  deriving DecidableEq, Repr, Inhabited

/-- `numpy.errstate(all="ignore")` -/
def ErrState.ignoreAll : ErrState := ⟨.ignore, .ignore, .ignore, .ignore⟩

/-- the global state -/
structure G where
  /-- NumPy error state, per thread -/
  err : Tid → ErrState
  /-- `warnings.filters` -/
  warningsFilters : List String
  /-- `numpy.get_printoptions()` -/
  printOptions : List (String × String)
  /-- `vector._awkward_registered` (and `awkward.behavior` containing vector's behaviors) -/
  akBehaviorRegistered : Bool
  /-- the numba extension modules have been imported -/
  numbaRegistered : Bool

/-- set the error state of ONE thread -/
def G.setErr (g : G) (t : Tid) (e : ErrState) : G :=
  { g with err := fun u => if u = t then e else g.err u }

/-- everything but the per-thread error states -/
def G.sameGlobals (g g' : G) : Prop :=
  g.warningsFilters = g'.warningsFilters ∧ g.printOptions = g'.printOptions ∧
  g.akBehaviorRegistered = g'.akBehaviorRegistered ∧ g.numbaRegistered = g'.numbaRegistered

section
variable {α : Type}

/-- `with numpy.errstate(all="ignore"): body` on thread `t`, for a body that may itself change the state:
save the thread's error state, set ignore, run the body (result or exception), restore. -/
def bracket (t : Tid) (body : G → Except Err α × G) (g : G) : Except Err α × G :=
  let saved := g.err t
  let out := body (g.setErr t .ignoreAll)
  (out.1, out.2.setErr t saved)

/-- a vector operation on thread `t`: the body reads the state, may raise, and cannot write the state -/
def op (t : Tid) (body : G → Except Err α) (g : G) : Except Err α × G :=
  bracket t (fun g' => (body g', g')) g

def registerAwkward (g : G) : G := { g with akBehaviorRegistered := true }
def registerNumba (g : G) : G := { g with numbaRegistered := true }

/-! ### sequences of actions -/

/-- one call of the public API -/
inductive Action (α : Type)
  | call (t : Tid) (body : G → Except Err α)
  | regAwkward
  | regNumba

def Action.isCall : Action α → Bool | .call _ _ => true | _ => false
def Action.isRegAwkward : Action α → Bool | .regAwkward => true | _ => false
def Action.isRegNumba : Action α → Bool | .regNumba => true | _ => false

/-- run one action: results of calls are logged -/
def runAction (a : Action α) (g : G) : List (Except Err α) × G :=
  match a with
  | .call t body => let r := op t body g; ([r.1], r.2)
  | .regAwkward => ([], registerAwkward g)
  | .regNumba => ([], registerNumba g)

def runActions : List (Action α) → G → List (Except Err α) × G
  | [], g => ([], g)
  | a :: as, g =>
    let r := runAction a g
    let rs := runActions as r.2
    (r.1 ++ rs.1, rs.2)

/-! ### coarse schedules: whole operations as atomic steps, `(tid, opIndex)` -/

/-- each thread's program: a list of operation bodies -/
abbrev Prog (α : Type) := Tid → List (G → Except Err α)

/-- run a schedule of `(tid, opIndex)` steps; the log records which step produced which result
(a step naming an operation the thread does not have is skipped) -/
def runSched (prog : Prog α) : List (Tid × Nat) → G → List (Tid × Nat × Except Err α) × G
  | [], g => ([], g)
  | (t, i) :: rest, g =>
    match (prog t)[i]? with
    | none => runSched prog rest g
    | some body =>
      let r := op t body g
      let rs := runSched prog rest r.2
      ((t, i, r.1) :: rs.1, rs.2)

/-- what thread `t` saw, in the order it saw it -/
def resultsOf (t : Tid) (log : List (Tid × Nat × Except Err α)) : List (Nat × Except Err α) :=
  (log.filter (fun e => e.1 == t)).map (·.2)

/-! ### fine schedules: the three phases of an operation as atomic steps -/

/-- where a thread is inside its current operation -/
inductive Phase (α : Type)
  | idle
  | entered (saved : ErrState)
  | computed (saved : ErrState) (r : Except Err α)

def Phase.isIdle : Phase α → Bool | .idle => true | _ => false

/-- a thread: the operations still to run (head = current), the phase, the results so far -/
structure TState (α : Type) where
  todo : List (G → Except Err α)
  phase : Phase α
  results : List (Except Err α)

/-- the machine: global state + threads -/
structure Sys (α : Type) where
  g : G
  th : Tid → TState α

def Sys.setTh (s : Sys α) (t : Tid) (x : TState α) : Tid → TState α :=
  fun u => if u = t then x else s.th u

/-- thread `t` performs its next atomic step:
`idle → entered` = `errstate.__enter__` (save, set ignore); `entered → computed` = the body runs on the CURRENT global
state; `computed → idle` = `errstate.__exit__` (restore) and the result (value or exception) is delivered. -/
def Sys.step (s : Sys α) (t : Tid) : Sys α :=
  match (s.th t).todo, (s.th t).phase with
  | [], _ => s
  | b :: rest, .idle =>
    { g := s.g.setErr t .ignoreAll
      th := s.setTh t { s.th t with phase := .entered (s.g.err t) } }
  | b :: rest, .entered saved =>
    { s with th := s.setTh t { s.th t with phase := .computed saved (b s.g) } }
  | b :: rest, .computed saved r =>
    { g := s.g.setErr t saved
      th := s.setTh t { todo := rest, phase := .idle, results := (s.th t).results ++ [r] } }

/-- run a schedule: the list says which thread moves next -/
def Sys.run (s : Sys α) : List Tid → Sys α
  | [] => s
  | t :: rest => (s.step t).run rest

/-- initial machine: every thread idle with its whole program to run -/
def Sys.init (prog : Prog α) (g : G) : Sys α :=
  { g, th := fun t => { todo := prog t, phase := .idle, results := [] } }

/-- the body reads only the calling thread's error state and the (never written) other globals -/
def LocalTo (t : Tid) (body : G → Except Err α) : Prop :=
  ∀ g g' : G, g.err t = g'.err t → g.sameGlobals g' → body g = body g'

/-- what thread `t` computes when it runs alone from `g` -/
def seqResults (prog : Prog α) (g : G) (t : Tid) : List (Except Err α) :=
  (prog t).map (fun b => b (g.setErr t .ignoreAll))

end
end VG
