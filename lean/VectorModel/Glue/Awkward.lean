/-
Hand-written executable model of the AWKWARD side of vector's glue (property C18):

* `Layout α`    – an Awkward array seen as a tree: record leaves, missing values (`none`, option-typed
                  positions) and (regular or variable-length) lists, nested to any depth;
* `Layout.map` / `Layout.zipWith` – a vector operation on one array / on two broadcast arrays (Awkward's
                  `ak.transform` traversal of `awkward_transform.__call__`, awkward.py L1018-1097, followed by the
                  `ak.zip(..., depth_limit=first.layout.purelist_depth)` of `_wrap_result`);
* `Rec S`       – one record: the vector (`Vec S`, generic coordinate names) plus its other fields;
* `carry`       – the DOCUMENTED rule for the other fields: an operation on a single array keeps every field that is
                  not a coordinate name (generic or momentum spelling), an operation combining two vectors keeps none;
* `unaryOp` / `binaryOp` / `arrayUnary` / `arrayBinary` – operations lifted to records and arrays;
* `Branch`, `Branch.excl`, `realWrap` – the branches of the REAL `VectorAwkward._wrap_result`
                  (/repo/src/vector/backends/awkward.py L658-998) with their literal exclusion tuples, on field lists.

Core Lean only.  Polymorphic in the scalar type; the compute/method layer is a parameter `f`.
-/
import VectorModel.Glue.Core

set_option linter.unusedVariables false
namespace VG
open VK

/-! ### layouts -/

/-- an Awkward array as a tree: `leaf` = one record (or number), `none` = a missing value at an option-typed
position (at list level or record level), `list` = a regular or variable-length list; nesting = nested `list`s -/
inductive Layout (α : Type) where
  | leaf (a : α)
  | none
  | list (xs : List (Layout α))

section
variable {α β γ ε : Type}

mutual
/-- apply `f` to every record leaf -/
def Layout.map (f : α → β) : Layout α → Layout β
  | .leaf a => .leaf (f a)
  | .none => .none
  | .list xs => .list (Layout.mapL f xs)
def Layout.mapL (f : α → β) : List (Layout α) → List (Layout β)
  | [] => []
  | x :: xs => Layout.map f x :: Layout.mapL f xs
end

/-- list structure, nesting and missing-value positions, forgetting the leaf contents -/
def Layout.shape (l : Layout α) : Layout Unit := l.map (fun _ => ())

mutual
/-- broadcast two layouts: a single record broadcasts against any layout, lists are combined element by element,
a missing value on either side gives a missing value -/
def Layout.zipWith (f : α → β → γ) : Layout α → Layout β → Layout γ
  | .none, _ => .none
  | _, .none => .none
  | .leaf a, l => l.map (f a)
  | l, .leaf b => l.map (fun a => f a b)
  | .list xs, .list ys => .list (Layout.zipWithL f xs ys)
def Layout.zipWithL (f : α → β → γ) : List (Layout α) → List (Layout β) → List (Layout γ)
  | x :: xs, y :: ys => Layout.zipWith f x y :: Layout.zipWithL f xs ys
  | _, _ => []
end

mutual
/-- the records of the array in order (`ak.flatten(axis=None)` with missing values dropped) -/
def Layout.leaves : Layout α → List α
  | .leaf a => [a]
  | .none => []
  | .list xs => Layout.leavesL xs
def Layout.leavesL : List (Layout α) → List α
  | [] => []
  | x :: xs => Layout.leaves x ++ Layout.leavesL xs
end

mutual
/-- an operation raising on one record raises for the whole array -/
def Layout.sequence : Layout (Except ε α) → Except ε (Layout α)
  | .leaf (.ok a) => .ok (.leaf a)
  | .leaf (.error e) => .error e
  | .none => .ok .none
  | .list xs =>
    match Layout.sequenceL xs with
    | .ok ys => .ok (.list ys)
    | .error e => .error e
def Layout.sequenceL : List (Layout (Except ε α)) → Except ε (List (Layout α))
  | [] => .ok []
  | x :: xs =>
    match Layout.sequence x with
    | .error e => .error e
    | .ok y =>
      match Layout.sequenceL xs with
      | .error e => .error e
      | .ok ys => .ok (y :: ys)
end

/-- `arr[i]` -/
def Layout.item : Layout α → Nat → Option (Layout α)
  | .list xs, i => xs[i]?
  | _, _ => Option.none

/-- `arr[i₀][i₁]…` -/
def Layout.path : Layout α → List Nat → Option (Layout α)
  | l, [] => some l
  | l, i :: p =>
    match l.item i with
    | some l' => l'.path p
    | Option.none => Option.none

/-- the selected element as a record (`ak.Record`), if it is one -/
def Layout.record? : Layout α → Option α
  | .leaf a => some a
  | _ => Option.none

end

/-! ### records -/

/-- generic coordinate names of the stored coordinates (what `_wrap_result` writes: `names.extend(["x", "y"])`, … ) -/
def lonNames : Option Lon → List String | some l => [l.str] | Option.none => []
def tmpNames : Option Tmp → List String | some c => [c.str] | Option.none => []
def VT.coordNames (t : VT) : List String := t.az.names ++ lonNames t.lon ++ tmpNames t.tmp

/-- the stored coordinates of a vector with their (generic) field names -/
def Vec.named {S : Type} (v : Vec S) : List (String × S) :=
  v.ty.az.names.zip v.azEl ++ (lonNames v.ty.lon).zip v.lonEl ++ (tmpNames v.ty.tmp).zip v.tmpEl

/-- one record of an Awkward vector array: the vector plus the other fields, in field order -/
structure Rec (S : Type) where
  v : Vec S
  extra : List (String × S)

/-- all fields of the record: coordinates first (the order `vector.Array` / `vector.zip` / `_wrap_result` produce) -/
def Rec.fields {S : Type} (r : Rec S) : List (String × S) := r.v.named ++ r.extra

/-- the 19 recognised coordinate field names, generic and momentum spellings -/
def coordFieldNames : List String :=
  ["x", "px", "y", "py", "rho", "pt", "phi", "z", "pz", "theta", "eta",
   "t", "E", "e", "energy", "tau", "M", "m", "mass"]

/-- DOCUMENTED rule: the fields an operation on a single array carries through = the non-coordinate fields -/
def carry {S : Type} (fields : List (String × S)) : List (String × S) :=
  fields.filter (fun f => !coordFieldNames.contains f.1)

/-- result of an operation on a record -/
inductive RRes (S B : Type) | scalar (s : S) | truth (b : B) | vrec (r : Rec S)

section
variable {S B : Type}

/-- operation on a single vector (num_vecargs = 1): a vector result keeps the operand's non-coordinate fields -/
def unaryOp (f : Vec S → Except Err (Res S B)) (r : Rec S) : Except Err (RRes S B) :=
  match f r.v with
  | .error e => .error e
  | .ok (.scalar s) => .ok (.scalar s)
  | .ok (.truth b) => .ok (.truth b)
  | .ok (.vec v) => .ok (.vrec ⟨v, carry r.extra⟩)

/-- operation combining two vectors (num_vecargs = 2): a vector result has coordinates only -/
def binaryOp (f : Vec S → Vec S → Except Err (Res S B)) (a b : Rec S) : Except Err (RRes S B) :=
  match f a.v b.v with
  | .error e => .error e
  | .ok (.scalar s) => .ok (.scalar s)
  | .ok (.truth b) => .ok (.truth b)
  | .ok (.vec v) => .ok (.vrec ⟨v, []⟩)

/-- the extra (non-coordinate) fields of a result -/
def RRes.extra : RRes S B → List (String × S)
  | .vrec r => r.extra
  | _ => []

/-- all fields of a result (none for scalars / truth values) -/
def RRes.fields : RRes S B → List (String × S)
  | .vrec r => r.fields
  | _ => []

def arrayUnary (f : Vec S → Except Err (Res S B)) (arr : Layout (Rec S)) : Except Err (Layout (RRes S B)) :=
  (arr.map (unaryOp f)).sequence

def arrayBinary (f : Vec S → Vec S → Except Err (Res S B)) (a b : Layout (Rec S)) :
    Except Err (Layout (RRes S B)) :=
  (Layout.zipWith (binaryOp f) a b).sequence

end

/-! ### the REAL `_wrap_result` of the Awkward backend, on field lists

`returns in ([float], [bool])` (L677-678) hands the raw result back (no fields).  Otherwise five branches keyed by
the declared result, each building `names`/`arrays` from the declared coordinates and then, `if num_vecargs == 1`,
appending every field of `self` whose name is not in a LITERAL tuple; anything else raises `AssertionError`
(L997-998). -/

inductive Branch | az | azNone | azLon | azLonNone | azLonTmp
  deriving DecidableEq, Repr

def Branch.all : List Branch := [.az, .azNone, .azLon, .azLonNone, .azLonTmp]

/-- which branch the declared result selects (L691-695, L740-745, L794-800, L857-864, L923-931) -/
def Branch.ofParts : List RP → Option Branch
  | [.az _] => some .az
  | [.az _, .none] => some .azNone
  | [.az _, .lon _] => some .azLon
  | [.az _, .lon _, .none] => some .azLonNone
  | [.az _, .lon _, .tmp _] => some .azLonTmp
  | _ => Option.none

/-- literal tuple of branch `[Azimuthal]`, awkward.py L714-722 -/
def exclAz : List String := ["x", "y", "px", "py", "rho", "pt", "phi"]
/-- literal tuple of branch `[Azimuthal, Longitudinal]`, awkward.py L829-839 -/
def exclAzLon : List String := ["x", "y", "px", "py", "rho", "pt", "phi", "z", "pz", "theta", "eta"]
/-- literal tuple of branches `[Azimuthal, None]` (L763-781), `[Azimuthal, Longitudinal, None]` (L892-910),
`[Azimuthal, Longitudinal, Temporal]` (L966-984) -/
def exclAll : List String :=
  ["x", "y", "px", "py", "rho", "pt", "phi", "z", "pz", "theta", "eta", "t", "tau", "m", "M", "mass", "e", "E", "energy"]

def Branch.excl : Branch → List String
  | .az => exclAz
  | .azLon => exclAzLon
  | .azNone | .azLonNone | .azLonTmp => exclAll

/-- names written for the declared result coordinates (L702-709, L816-824, L957-962) -/
def RP.names : RP → List String
  | .az a => a.names | .lon l => [l.str] | .tmp c => [c.str] | .none => []
def resultNames (parts : List RP) : List String := parts.flatMap RP.names

/-- dimension of the result class: `ProjectionClass2D/3D/4D`, chosen in branches `[Azimuthal]` and
`[Azimuthal, Longitudinal]` (the branches that pass stored longitudinal / temporal fields of `self` through) from the
class of `self` itself: `isinstance(self, Vector4D)` / `isinstance(self, Vector3D)` (after the repair "fix: Awkward
results drop the operand's px/py ..."; the pinned tree looked for the LITERAL field names t/tau/z/theta/eta) -/
def Branch.dim (b : Branch) (selfDim : Nat) : Nat :=
  match b with
  | .az => if selfDim == 4 then 4 else if selfDim == 3 then 3 else 2
  | .azNone => 2
  | .azLon => if selfDim == 4 then 4 else 3
  | .azLonNone => 3
  | .azLonTmp => 4

/-- the fields of `self` the real branch carries into the result -/
def Branch.carried {S : Type} (b : Branch) (numVecargs : Nat) (selfFields : List (String × S)) :
    List (String × S) :=
  if numVecargs == 1 then selfFields.filter (fun f => !b.excl.contains f.1) else []

/-- the real `_wrap_result` for a vector result: dimension of the result class and its fields in order; `selfDim` is the
dimension of the class of `self` (2 for anything that is neither a `Vector3D` nor a `Vector4D`).
(`dict(zip(names, arrays))`: `zip` stops at the shorter list; names never clash, see `c18_real_no_clash`.) -/
def realWrap {S : Type} (parts : List RP) (numVecargs : Nat) (selfDim : Nat) (selfFields : List (String × S))
    (raw : List S) : Except Err (Nat × List (String × S)) :=
  match Branch.ofParts parts with
  | Option.none => .error .assertionError
  | some b => .ok (b.dim selfDim, (resultNames parts).zip raw ++ b.carried numVecargs selfFields)

end VG
