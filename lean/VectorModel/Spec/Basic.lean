/-
Specification layer (hand-written from docs/index.md, the README and the
VectorProtocol docstrings — NOT from the compute code): what a stored vector
*denotes*, the representable domain of each coordinate system, and the
mathematical definition of the operations.

  x = ρ cos φ, y = ρ sin φ;  z = ρ cot θ = ρ sinh η  (ρ = √(x²+y²));
  t = √(τ² + |p|²) for τ ≥ 0;  metric (−,−,−,+);  active right-handed rotations.
-/
import VectorModel.Prim.Real
import VectorModel.Prim.Keys

namespace VR
namespace Spec
open VK Real

/-! ### denotation of stored coordinates -/

/-- x component denoted by azimuthal storage `(a, b)` -/
noncomputable def xOf : Az → ℝ → ℝ → ℝ
  | .xy, a, _ => a
  | .rhophi, r, p => r * cos p
noncomputable def yOf : Az → ℝ → ℝ → ℝ
  | .xy, _, b => b
  | .rhophi, r, p => r * sin p
/-- transverse length denoted by azimuthal storage -/
noncomputable def rhoOf : Az → ℝ → ℝ → ℝ
  | .xy, a, b => sqrt (a ^ 2 + b ^ 2)
  | .rhophi, r, _ => r
/-- z component denoted by (azimuthal, longitudinal) storage `(a, b, c)` -/
noncomputable def zOf : Az → Lon → ℝ → ℝ → ℝ → ℝ
  | _, .z, _, _, c => c
  | az, .theta, a, b, c => rhoOf az a b * (cos c / sin c)
  | az, .eta, a, b, c => rhoOf az a b * sinh c
/-- |p|² denoted by 3D storage -/
noncomputable def mag2Of (az : Az) (lon : Lon) (a b c : ℝ) : ℝ :=
  xOf az a b ^ 2 + yOf az a b ^ 2 + zOf az lon a b c ^ 2
/-- time component denoted by 4D storage `(a, b, c, d)` -/
noncomputable def tOf : Az → Lon → Tmp → ℝ → ℝ → ℝ → ℝ → ℝ
  | _, _, .t, _, _, _, d => d
  | az, lon, .tau, a, b, c, d => sqrt (d ^ 2 + mag2Of az lon a b c)

/-- Cartesian denotations -/
noncomputable def cart2 (az : Az) (a b : ℝ) : ℝ × ℝ := (xOf az a b, yOf az a b)
noncomputable def cart3 (az : Az) (lon : Lon) (a b c : ℝ) : ℝ × ℝ × ℝ :=
  (xOf az a b, yOf az a b, zOf az lon a b c)
noncomputable def cart4 (az : Az) (lon : Lon) (tmp : Tmp) (a b c d : ℝ) : ℝ × ℝ × ℝ × ℝ :=
  (xOf az a b, yOf az a b, zOf az lon a b c, tOf az lon tmp a b c d)

/-! ### representable domain ("Canon") of each storage -/

/-- azimuthal storage is representable: `0 ≤ ρ` for polar storage -/
def Canon2 : Az → ℝ → ℝ → Prop
  | .xy, _, _ => True
  | .rhophi, r, _ => 0 ≤ r
/-- polar angle stored canonically, `-π < φ ≤ π` (needed only where φ itself is compared or read back) -/
def CanonPhi : Az → ℝ → ℝ → Prop
  | .xy, _, _ => True
  | .rhophi, _, p => -π < p ∧ p ≤ π
/-- longitudinal storage is representable: off the z axis for θ/η, `0 < θ < π` -/
def CanonLon : Az → Lon → ℝ → ℝ → ℝ → Prop
  | _, .z, _, _, _ => True
  | az, .theta, a, b, c => 0 < rhoOf az a b ∧ 0 < c ∧ c < π
  | az, .eta, a, b, _ => 0 < rhoOf az a b
def Canon3 (az : Az) (lon : Lon) (a b c : ℝ) : Prop := Canon2 az a b ∧ CanonLon az lon a b c
/-- temporal storage is representable: non-negative proper time for τ storage -/
def CanonTmp : Tmp → ℝ → Prop
  | .t, _ => True
  | .tau, d => 0 ≤ d
def Canon4 (az : Az) (lon : Lon) (tmp : Tmp) (a b c d : ℝ) : Prop := Canon3 az lon a b c ∧ CanonTmp tmp d

/-- the code divides by `tan θ`: the removable singularity θ = π/2 (no float is an odd multiple of π/2) -/
def TanOK : Lon → ℝ → Prop
  | .theta, c => cos c ≠ 0
  | _, _ => True

/-! ### interpretation of a raw result tuple through the DECLARED result types -/

def retAz : Ret → Option Az
  | .vec (.az a :: _) => some a
  | _ => none
def retLon : Ret → Option Lon
  | .vec (_ :: .lon l :: _) => some l
  | _ => none
def retTmp : Ret → Option Tmp
  | .vec (_ :: _ :: .tmp t :: _) => some t
  | _ => none

noncomputable def interp2 (r : Ret) (v : ℝ × ℝ) : Option (ℝ × ℝ) :=
  (retAz r).map fun az => cart2 az v.1 v.2
noncomputable def interp3 (r : Ret) (v : ℝ × ℝ × ℝ) : Option (ℝ × ℝ × ℝ) :=
  match retAz r, retLon r with
  | some az, some lon => some (cart3 az lon v.1 v.2.1 v.2.2)
  | _, _ => none
noncomputable def interp4 (r : Ret) (v : ℝ × ℝ × ℝ × ℝ) : Option (ℝ × ℝ × ℝ × ℝ) :=
  match retAz r, retLon r, retTmp r with
  | some az, some lon, some tmp => some (cart4 az lon tmp v.1 v.2.1 v.2.2.1 v.2.2.2)
  | _, _, _ => none

/-! ### the operations, on Cartesian components -/

def add2 (p q : ℝ × ℝ) : ℝ × ℝ := (p.1 + q.1, p.2 + q.2)
def sub2 (p q : ℝ × ℝ) : ℝ × ℝ := (p.1 - q.1, p.2 - q.2)
def smul2 (k : ℝ) (p : ℝ × ℝ) : ℝ × ℝ := (k * p.1, k * p.2)
def dot2 (p q : ℝ × ℝ) : ℝ := p.1 * q.1 + p.2 * q.2
def add3 (p q : ℝ × ℝ × ℝ) : ℝ × ℝ × ℝ := (p.1 + q.1, p.2.1 + q.2.1, p.2.2 + q.2.2)
def sub3 (p q : ℝ × ℝ × ℝ) : ℝ × ℝ × ℝ := (p.1 - q.1, p.2.1 - q.2.1, p.2.2 - q.2.2)
def smul3 (k : ℝ) (p : ℝ × ℝ × ℝ) : ℝ × ℝ × ℝ := (k * p.1, k * p.2.1, k * p.2.2)
def dot3 (p q : ℝ × ℝ × ℝ) : ℝ := p.1 * q.1 + p.2.1 * q.2.1 + p.2.2 * q.2.2
def cross3 (p q : ℝ × ℝ × ℝ) : ℝ × ℝ × ℝ :=
  (p.2.1 * q.2.2 - p.2.2 * q.2.1, p.2.2 * q.1 - p.1 * q.2.2, p.1 * q.2.1 - p.2.1 * q.1)
def add4 (p q : ℝ × ℝ × ℝ × ℝ) : ℝ × ℝ × ℝ × ℝ :=
  (p.1 + q.1, p.2.1 + q.2.1, p.2.2.1 + q.2.2.1, p.2.2.2 + q.2.2.2)
def sub4 (p q : ℝ × ℝ × ℝ × ℝ) : ℝ × ℝ × ℝ × ℝ :=
  (p.1 - q.1, p.2.1 - q.2.1, p.2.2.1 - q.2.2.1, p.2.2.2 - q.2.2.2)
def smul4 (k : ℝ) (p : ℝ × ℝ × ℝ × ℝ) : ℝ × ℝ × ℝ × ℝ := (k * p.1, k * p.2.1, k * p.2.2.1, k * p.2.2.2)
/-- Minkowski product, metric (−,−,−,+) -/
def mdot (p q : ℝ × ℝ × ℝ × ℝ) : ℝ := p.2.2.2 * q.2.2.2 - p.1 * q.1 - p.2.1 * q.2.1 - p.2.2.1 * q.2.2.1

/-- active right-handed rotations about the coordinate axes -/
noncomputable def rotZ (a : ℝ) (p : ℝ × ℝ × ℝ) : ℝ × ℝ × ℝ :=
  (p.1 * cos a - p.2.1 * sin a, p.1 * sin a + p.2.1 * cos a, p.2.2)
noncomputable def rotX (a : ℝ) (p : ℝ × ℝ × ℝ) : ℝ × ℝ × ℝ :=
  (p.1, p.2.1 * cos a - p.2.2 * sin a, p.2.1 * sin a + p.2.2 * cos a)
noncomputable def rotY (a : ℝ) (p : ℝ × ℝ × ℝ) : ℝ × ℝ × ℝ :=
  (p.1 * cos a + p.2.2 * sin a, p.2.1, -p.1 * sin a + p.2.2 * cos a)
noncomputable def rotZ2 (a : ℝ) (p : ℝ × ℝ) : ℝ × ℝ :=
  (p.1 * cos a - p.2 * sin a, p.1 * sin a + p.2 * cos a)

end Spec
end VR
