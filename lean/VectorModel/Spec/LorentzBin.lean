/-
Specification-level operations used by `Refine/LorentzBin.lean` (hand-written from the documentation of
`transform4D`, `boost`, `boostX/Y/Z`): linear maps of ℝ⁴ on Cartesian components, metric (−,−,−,+).
-/
import VectorModel.Spec.Basic

namespace VR
namespace Spec

/-- general linear map of ℝ⁴ (row-major, component order x, y, z, t) -/
def transform4 (xx xy xz xt yx yy yz yt zx zy zz zt tx ty tz tt : ℝ) (p : ℝ × ℝ × ℝ × ℝ) : ℝ × ℝ × ℝ × ℝ :=
  (xx * p.1 + xy * p.2.1 + xz * p.2.2.1 + xt * p.2.2.2,
   yx * p.1 + yy * p.2.1 + yz * p.2.2.1 + yt * p.2.2.2,
   zx * p.1 + zy * p.2.1 + zz * p.2.2.1 + zt * p.2.2.2,
   tx * p.1 + ty * p.2.1 + tz * p.2.2.1 + tt * p.2.2.2)

/-- boost along x / y / z with `g = γ`, `bg = βγ` -/
def boostX (g bg : ℝ) (p : ℝ × ℝ × ℝ × ℝ) : ℝ × ℝ × ℝ × ℝ :=
  (g * p.1 + bg * p.2.2.2, p.2.1, p.2.2.1, bg * p.1 + g * p.2.2.2)
def boostY (g bg : ℝ) (p : ℝ × ℝ × ℝ × ℝ) : ℝ × ℝ × ℝ × ℝ :=
  (p.1, g * p.2.1 + bg * p.2.2.2, p.2.2.1, bg * p.2.1 + g * p.2.2.2)
def boostZ (g bg : ℝ) (p : ℝ × ℝ × ℝ × ℝ) : ℝ × ℝ × ℝ × ℝ :=
  (p.1, p.2.1, g * p.2.2.1 + bg * p.2.2.2, bg * p.2.2.1 + g * p.2.2.2)

/-- general boost written with the four-velocity `(u, G)`, `G² = 1 + |u|²` (`u = γβ`, `G = γ`):
`p' = p + (u·p/(G+1) + t) u`, `t' = u·p + G t` -/
noncomputable def boostU (G ux uy uz : ℝ) (p : ℝ × ℝ × ℝ × ℝ) : ℝ × ℝ × ℝ × ℝ :=
  let up := ux * p.1 + uy * p.2.1 + uz * p.2.2.1
  let c := up / (G + 1) + p.2.2.2
  (p.1 + c * ux, p.2.1 + c * uy, p.2.2.1 + c * uz, up + G * p.2.2.2)

/-- rapidity `½ log((t + z)/(t − z))` of a Cartesian 4-vector (meaningful for `|z| < t`) -/
noncomputable def rapidityOf (p : ℝ × ℝ × ℝ × ℝ) : ℝ :=
  1 / 2 * Real.log ((p.2.2.2 + p.2.2.1) / (p.2.2.2 - p.2.2.1))

end Spec
end VR
