/-
Specification layer, extension to SIGNED proper time (hand-written; does not touch `Spec/Basic.lean`).

`Spec/Basic.lean` reads a τ-stored 4-vector as `t = √(τ² + |p|²)` on the domain `0 ≤ τ`. The library also uses
NEGATIVE τ: `τ < 0` encodes a SPACE-LIKE vector (with `t ≥ 0`) whose invariant is `t² − |p|² = −τ²`:

  τ²ₛ := copysign(τ², τ)   (`tau2S`: `τ²` for `τ ≥ 0`, `−τ²` for `τ < 0`),
  t   := √(τ²ₛ + |p|²)      (`tOfS`),  representable iff `0 ≤ τ²ₛ + |p|²` (`CanonTmpS`).

Under `CanonTmpS` the stored signed `τ²ₛ` IS the invariant `t² − |p|²`, so for τ storage
space-like ⇔ `τ < 0`, light-like ⇔ `τ = 0`, time-like ⇔ `τ > 0`.
-/
import VectorModel.Spec.Basic
import Mathlib.Tactic.Ring
import Mathlib.Tactic.Linarith
import Mathlib.Tactic.Positivity
import Mathlib.Tactic.NormNum

namespace VR
namespace Spec
open VK Real

/-! ### the signed square of the stored proper time -/

/-- `copysign(τ², τ)`: the invariant `t² − |p|²` encoded by a stored (signed) τ -/
noncomputable def tau2S (d : ℝ) : ℝ := P.copysign (d ^ 2) d

theorem tau2S_of_nonneg {d : ℝ} (h : 0 ≤ d) : tau2S d = d ^ 2 := by
  unfold tau2S P.copysign; rw [if_pos h, abs_of_nonneg (sq_nonneg d)]

theorem tau2S_of_neg {d : ℝ} (h : d < 0) : tau2S d = -d ^ 2 := by
  unfold tau2S P.copysign; rw [if_neg (not_le.mpr h), abs_of_nonneg (sq_nonneg d)]

@[simp] theorem tau2S_zero : tau2S 0 = 0 := by rw [tau2S_of_nonneg le_rfl]; norm_num

theorem abs_tau2S (d : ℝ) : |tau2S d| = d ^ 2 := by
  rcases le_or_gt 0 d with h | h
  · rw [tau2S_of_nonneg h, abs_of_nonneg (sq_nonneg d)]
  · rw [tau2S_of_neg h, abs_neg, abs_of_nonneg (sq_nonneg d)]

theorem tau2S_pos_iff {d : ℝ} : 0 < tau2S d ↔ 0 < d := by
  rcases le_or_gt 0 d with h | h
  · rw [tau2S_of_nonneg h]
    constructor
    · intro h2; rcases eq_or_lt_of_le h with h0 | h0
      · rw [← h0] at h2; norm_num at h2
      · exact h0
    · intro h2; positivity
  · rw [tau2S_of_neg h]
    constructor
    · intro h2; nlinarith [sq_nonneg d]
    · intro h2; linarith

theorem tau2S_neg_iff {d : ℝ} : tau2S d < 0 ↔ d < 0 := by
  rcases le_or_gt 0 d with h | h
  · rw [tau2S_of_nonneg h]
    constructor
    · intro h2; nlinarith [sq_nonneg d]
    · intro h2; linarith
  · rw [tau2S_of_neg h]
    constructor
    · intro _; exact h
    · intro _; have : 0 < d ^ 2 := sq_pos_of_ne_zero (ne_of_lt h)
      linarith

theorem tau2S_eq_zero_iff {d : ℝ} : tau2S d = 0 ↔ d = 0 := by
  constructor
  · intro h
    have := abs_tau2S d
    rw [h, abs_zero] at this
    exact pow_eq_zero_iff (two_ne_zero) |>.mp this.symm
  · intro h; rw [h]; exact tau2S_zero

theorem tau2S_nonneg_iff {d : ℝ} : 0 ≤ tau2S d ↔ 0 ≤ d := by
  rw [← not_lt, tau2S_neg_iff, not_lt]

theorem sign_tau2S (d : ℝ) : Real.sign (tau2S d) = Real.sign d := by
  rcases lt_trichotomy d 0 with h | h | h
  · rw [Real.sign_of_neg h, Real.sign_of_neg (tau2S_neg_iff.mpr h)]
  · rw [h, tau2S_zero]
  · rw [Real.sign_of_pos h, Real.sign_of_pos (tau2S_pos_iff.mpr h)]

/-- the stored τ is recovered from its signed square: `τ = sign(τ²ₛ)·√|τ²ₛ|` -/
theorem sign_mul_sqrt_abs_tau2S (d : ℝ) : Real.sign (tau2S d) * sqrt |tau2S d| = d := by
  rw [sign_tau2S, abs_tau2S, sqrt_sq_eq_abs]
  rcases lt_trichotomy d 0 with h | h | h
  · rw [Real.sign_of_neg h, abs_of_neg h]; ring
  · rw [h]; simp
  · rw [Real.sign_of_pos h, abs_of_pos h]; ring

/-- scaling the stored τ by a non-negative factor scales the invariant by its square, sign kept -/
theorem tau2S_mul_of_nonneg (d f : ℝ) (hf : 0 ≤ f) : tau2S (d * f) = f ^ 2 * tau2S d := by
  rcases le_or_gt 0 d with h | h
  · rw [tau2S_of_nonneg h, tau2S_of_nonneg (mul_nonneg h hf)]; ring
  · rcases eq_or_lt_of_le hf with h0 | h0
    · rw [← h0]; simp
    · rw [tau2S_of_neg h, tau2S_of_neg (mul_neg_of_neg_of_pos h h0)]; ring

/-! ### signed-τ denotation of the temporal coordinate -/

/-- temporal storage is representable (signed-τ reading): the denoted vector has a real time component,
`0 ≤ τ²ₛ + |p|²` — every `τ ≥ 0`, and `τ < 0` only when `τ² ≤ |p|²` -/
def CanonTmpS : Az → Lon → Tmp → ℝ → ℝ → ℝ → ℝ → Prop
  | _, _, .t, _, _, _, _ => True
  | az, lon, .tau, a, b, c, d => 0 ≤ tau2S d + mag2Of az lon a b c

/-- time component denoted by 4D storage `(a, b, c, d)`, signed-τ reading -/
noncomputable def tOfS : Az → Lon → Tmp → ℝ → ℝ → ℝ → ℝ → ℝ
  | _, _, .t, _, _, _, d => d
  | az, lon, .tau, a, b, c, d => sqrt (tau2S d + mag2Of az lon a b c)

/-- Cartesian denotation, signed-τ reading -/
noncomputable def cart4S (az : Az) (lon : Lon) (tmp : Tmp) (a b c d : ℝ) : ℝ × ℝ × ℝ × ℝ :=
  (xOf az a b, yOf az a b, zOf az lon a b c, tOfS az lon tmp a b c d)

/-- interpretation of a raw 4D result through the declared result type, signed-τ reading -/
noncomputable def interp4S (r : Ret) (v : ℝ × ℝ × ℝ × ℝ) : Option (ℝ × ℝ × ℝ × ℝ) :=
  match retAz r, retLon r, retTmp r with
  | some az, some lon, some tmp => some (cart4S az lon tmp v.1 v.2.1 v.2.2.1 v.2.2.2)
  | _, _, _ => none

theorem mag2Of_nonneg' (az : Az) (lon : Lon) (a b c : ℝ) : 0 ≤ mag2Of az lon a b c := by
  unfold mag2Of; positivity

theorem tOfS_t (az : Az) (lon : Lon) (a b c d : ℝ) : tOfS az lon .t a b c d = d := by
  cases az <;> cases lon <;> rfl

theorem tOfS_tau (az : Az) (lon : Lon) (a b c d : ℝ) :
    tOfS az lon .tau a b c d = sqrt (tau2S d + mag2Of az lon a b c) := by
  cases az <;> cases lon <;> rfl

theorem canonTmpS_tau (az : Az) (lon : Lon) (a b c d : ℝ) :
    CanonTmpS az lon .tau a b c d ↔ 0 ≤ tau2S d + mag2Of az lon a b c := by
  cases az <;> cases lon <;> exact Iff.rfl

/-- the signed reading EXTENDS the unsigned one: on `0 ≤ τ` (`CanonTmp`) the storage is representable … -/
theorem CanonTmpS_of_CanonTmp (az : Az) (lon : Lon) (tmp : Tmp) (a b c d : ℝ) (h : CanonTmp tmp d) :
    CanonTmpS az lon tmp a b c d := by
  cases tmp
  · cases az <;> cases lon <;> trivial
  · rw [canonTmpS_tau]
    have h0 : (0 : ℝ) ≤ d := h
    have := mag2Of_nonneg' az lon a b c
    rw [tau2S_of_nonneg h0]; positivity

/-- … and denotes the same time component. -/
theorem tOfS_eq_tOf (az : Az) (lon : Lon) (tmp : Tmp) (a b c d : ℝ) (h : CanonTmp tmp d) :
    tOfS az lon tmp a b c d = tOf az lon tmp a b c d := by
  cases tmp
  · cases az <;> cases lon <;> rfl
  · have h0 : (0 : ℝ) ≤ d := h
    rw [tOfS_tau, tau2S_of_nonneg h0]
    cases az <;> cases lon <;> rfl

theorem cart4S_eq_cart4 (az : Az) (lon : Lon) (tmp : Tmp) (a b c d : ℝ) (h : CanonTmp tmp d) :
    cart4S az lon tmp a b c d = cart4 az lon tmp a b c d := by
  simp only [cart4S, cart4, tOfS_eq_tOf az lon tmp a b c d h]

theorem cart4S_t (az : Az) (lon : Lon) (a b c d : ℝ) : cart4S az lon .t a b c d = cart4 az lon .t a b c d :=
  cart4S_eq_cart4 az lon .t a b c d trivial

/-- a τ-stored vector has a non-negative time component -/
theorem tOfS_tau_nonneg (az : Az) (lon : Lon) (a b c d : ℝ) : 0 ≤ tOfS az lon .tau a b c d := by
  rw [tOfS_tau]; exact sqrt_nonneg _

theorem tOfS_tau_sq (az : Az) (lon : Lon) (a b c d : ℝ) (h : CanonTmpS az lon .tau a b c d) :
    tOfS az lon .tau a b c d ^ 2 = tau2S d + mag2Of az lon a b c := by
  rw [tOfS_tau, sq_sqrt ((canonTmpS_tau az lon a b c d).mp h)]

/-- the stored signed `τ²ₛ` IS the invariant `t² − |p|²` -/
theorem tOfS_sq_sub_mag2 (az : Az) (lon : Lon) (a b c d : ℝ) (h : CanonTmpS az lon .tau a b c d) :
    tOfS az lon .tau a b c d ^ 2 - mag2Of az lon a b c = tau2S d := by
  rw [tOfS_tau_sq az lon a b c d h]; ring

/-- τ storage: space-like ⇔ `τ < 0` -/
theorem spacelike_iff_tau_neg (az : Az) (lon : Lon) (a b c d : ℝ) (h : CanonTmpS az lon .tau a b c d) :
    tOfS az lon .tau a b c d ^ 2 - mag2Of az lon a b c < 0 ↔ d < 0 := by
  rw [tOfS_sq_sub_mag2 az lon a b c d h, tau2S_neg_iff]

/-- τ storage: light-like ⇔ `τ = 0` -/
theorem lightlike_iff_tau_zero (az : Az) (lon : Lon) (a b c d : ℝ) (h : CanonTmpS az lon .tau a b c d) :
    tOfS az lon .tau a b c d ^ 2 - mag2Of az lon a b c = 0 ↔ d = 0 := by
  rw [tOfS_sq_sub_mag2 az lon a b c d h, tau2S_eq_zero_iff]

/-- τ storage: time-like ⇔ `τ > 0` -/
theorem timelike_iff_tau_pos (az : Az) (lon : Lon) (a b c d : ℝ) (h : CanonTmpS az lon .tau a b c d) :
    0 < tOfS az lon .tau a b c d ^ 2 - mag2Of az lon a b c ↔ 0 < d := by
  rw [tOfS_sq_sub_mag2 az lon a b c d h, tau2S_pos_iff]

/-- a negative τ is representable only when `τ² ≤ |p|²` -/
theorem canonTmpS_of_neg (az : Az) (lon : Lon) (a b c d : ℝ) (hd : d < 0) :
    CanonTmpS az lon .tau a b c d ↔ d ^ 2 ≤ mag2Of az lon a b c := by
  rw [canonTmpS_tau, tau2S_of_neg hd]
  constructor <;> intro h <;> linarith

/-- the denotation through a result type declared in the operand's own system -/
theorem interp4S_same (k0 : Az) (k1 : Lon) (k2 : Tmp) (v : ℝ × ℝ × ℝ × ℝ) :
    interp4S (Ret.vec [RP.az k0, RP.lon k1, RP.tmp k2]) v = some (cart4S k0 k1 k2 v.1 v.2.1 v.2.2.1 v.2.2.2) := rfl

/-- a space-like τ-stored point: `(x, y, z, τ) = (3, 0, 0, −2)` denotes `t = √5` -/
example : CanonTmpS .xy .z .tau 3 0 0 (-2) ∧ tOfS .xy .z .tau 3 0 0 (-2) = sqrt 5
    ∧ tOfS .xy .z .tau 3 0 0 (-2) ^ 2 - mag2Of .xy .z 3 0 0 < 0 := by
  have e : tau2S (-2) + mag2Of .xy .z 3 0 0 = 5 := by
    rw [tau2S_of_neg (by norm_num)]; norm_num [mag2Of, xOf, yOf, zOf]
  have hc : CanonTmpS .xy .z .tau 3 0 0 (-2) := by
    show 0 ≤ tau2S (-2) + mag2Of .xy .z 3 0 0
    rw [e]; norm_num
  refine ⟨hc, ?_, ?_⟩
  · show sqrt (tau2S (-2) + mag2Of .xy .z 3 0 0) = sqrt 5
    rw [e]
  · rw [spacelike_iff_tau_neg _ _ _ _ _ _ hc]; norm_num

end Spec
end VR
