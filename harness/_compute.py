"""Shared pieces of the checks whose tie to the code is the translator (C01, C02, C09, C10, C11, C13):
the failing-input search is the corresponding law sweep of harness/laws.py on the real code (mpmath, 50 digits),
the glue around the compute layer is covered by the exact symbolic correspondence on the object backend restricted
to the methods the property talks about."""
from __future__ import annotations

from harness import common as C
from harness import laws


def search_with(name):
    def search(ctx, broken):
        out, n = getattr(laws, "search_" + name)(ctx.seed, "thorough")      # the full sweep is cheap (5-15 s): every tier runs it
        ctx.stats[f"law_cases_{name}"] = n
        return out
    return search


def sym_correspondence(methods, label):
    """exact symbolic correspondence on the object backend for request lines whose method is in `methods`"""
    def correspondence(ctx):
        from harness import symobj
        r = C.rng(ctx.seed, "sym-" + label)
        reqs = [q for q in symobj.lattice(r, ctx.tier) if q.split()[1] in methods]
        bad, st = symobj.run(reqs)
        dis = [f"{q} : real={a[:120]} model={b[:120]}" for q, a, b in bad[:10]]
        fails = []
        for q, a, b in bad[:3]:
            fails.append({"key": "glue:" + " ".join(q.split()[:2]), "what": f"object backend disagrees with the glue model on `{q}`: real {a[:100]} / model {b[:100]}",
                          "code": symobj_replay(q, b)})
        st["traces_validated_against_impl"] = len(reqs)
        return {"ok": not bad, "disagreements": dis, "failing_inputs": fails, "stats": st,
                "samples": [{"request": reqs[i], "answer": symobj.real_answer(reqs[i])[:200]} for i in range(0, len(reqs), max(1, len(reqs) // 3))][:3]}
    return correspondence


def symobj_replay(q, expected):
    return ("import sys; sys.path.insert(0, %r); sys.path.insert(0, %r)\nfrom harness import symobj\n"
            "got = symobj.real_answer(%r)\nassert got == %r, 'real code answers ' + got[:300]\n" % (C.VERIF, C.VERIF + "/tools", q, expected))
